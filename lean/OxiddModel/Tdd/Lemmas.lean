import OxiddModel.Tdd.Model

/-! Helper lemmas for the TDD model (property C11). -/
namespace OxiddModel.Tdd

open TD

/-! ## finite table facts (closed under `cases`; no induction) -/
namespace Tri

theorem and_self (a : Tri) : and a a = a := by cases a <;> rfl
theorem or_self (a : Tri) : or a a = a := by cases a <;> rfl
theorem and_comm (a b : Tri) : and a b = and b a := by cases a <;> cases b <;> rfl
theorem or_comm (a b : Tri) : or a b = or b a := by cases a <;> cases b <;> rfl
theorem equiv_comm (a b : Tri) : equiv a b = equiv b a := by cases a <;> cases b <;> rfl
theorem and_f_left (a : Tri) : and f a = f := by cases a <;> rfl
theorem and_f_right (a : Tri) : and a f = f := by cases a <;> rfl
theorem and_t_left (a : Tri) : and t a = a := by cases a <;> rfl
theorem and_t_right (a : Tri) : and a t = a := by cases a <;> rfl
theorem or_t_left (a : Tri) : or t a = t := by cases a <;> rfl
theorem or_t_right (a : Tri) : or a t = t := by cases a <;> rfl
theorem or_f_left (a : Tri) : or f a = a := by cases a <;> rfl
theorem or_f_right (a : Tri) : or a f = a := by cases a <;> rfl
theorem equiv_self (a : Tri) : equiv a a = t := by cases a <;> rfl
theorem equiv_t_left (a : Tri) : equiv t a = a := by cases a <;> rfl
theorem equiv_t_right (a : Tri) : equiv a t = a := by cases a <;> rfl
theorem equiv_f_left (a : Tri) : equiv f a = not a := by cases a <;> rfl
theorem equiv_f_right (a : Tri) : equiv a f = not a := by cases a <;> rfl
theorem imp_self (a : Tri) : imp a a = t := by cases a <;> rfl
theorem imp_f_left (a : Tri) : imp f a = t := by cases a <;> rfl
theorem imp_t_right (a : Tri) : imp a t = t := by cases a <;> rfl
theorem imp_t_left (a : Tri) : imp t a = a := by cases a <;> rfl
theorem imp_f_right (a : Tri) : imp a f = not a := by cases a <;> rfl
theorem not_t : not t = f := rfl
theorem not_f : not f = t := rfl
theorem not_u : not u = u := rfl
theorem not_not (a : Tri) : not (not a) = a := by cases a <;> rfl

/-- the `ite` shortcuts of `apply_ite_rec`, as facts about the property's `ite` table -/
theorem ite_same (a b : Tri) : ite a b b = b := by cases a <;> cases b <;> rfl
theorem ite_f_eq_g (a c : Tri) : ite a a c = or a c := by cases a <;> cases c <;> rfl
theorem ite_f_eq_h (a b : Tri) : ite a b a = and a b := by cases a <;> cases b <;> rfl
theorem ite_t (b c : Tri) : ite t b c = b := by cases b <;> cases c <;> rfl
theorem ite_f (b c : Tri) : ite f b c = c := by cases b <;> cases c <;> rfl
theorem ite_g_t (a c : Tri) : ite a t c = or a c := by cases a <;> cases c <;> rfl
theorem ite_g_f (a c : Tri) : ite a f c = impStrict a c := by cases a <;> cases c <;> rfl
theorem ite_h_t (a b : Tri) : ite a b t = imp a b := by cases a <;> cases b <;> rfl
theorem ite_h_f (a b : Tri) : ite a b f = and a b := by cases a <;> cases b <;> rfl
theorem ite_f_t (a : Tri) : ite a f t = not a := by cases a <;> rfl
theorem ite_t_f (a : Tri) : ite a t f = a := by cases a <;> rfl
theorem ite_u_tf : ite u t f = u := rfl
theorem ite_u_ft : ite u f t = u := rfl

end Tri

/-! ## trees -/

theorem isLeafOf_iff (x : TD) (v : Tri) : x.isLeafOf v = true ↔ x = leaf v := by
  cases x with
  | leaf w => simp [isLeafOf]
  | node l a b c => simp [isLeafOf]

theorem isLeafOf_false_iff (x : TD) (v : Tri) : x.isLeafOf v = false ↔ x ≠ leaf v := by
  have := isLeafOf_iff x v
  cases h : x.isLeafOf v <;> simp_all

theorem eval_node_sel (σ : Nat → Tri) (l : Nat) (a b c : TD) :
    eval σ (node l a b c) = eval σ (match σ l with | .t => a | .u => b | .f => c) := by
  simp only [eval]; cases σ l <;> rfl

theorem eval_mk (σ : Nat → Tri) (l : Nat) (a b c : TD) :
    eval σ (mk l a b c) = eval σ (node l a b c) := by
  unfold mk
  split
  · rename_i h
    obtain ⟨rfl, rfl⟩ := h
    simp only [eval]; cases σ l <;> rfl
  · rfl

theorem eval_childAt (σ : Nat → Tri) (x : TD) (level : Nat) :
    eval σ (childAt x level (σ level)) = eval σ x := by
  cases x with
  | leaf v => rfl
  | node k a b c =>
    simp only [childAt]
    split
    · rename_i h; subst h
      simp only [eval]; cases σ k <;> rfl
    · rfl

theorem eval_childAt_of (σ : Nat → Tri) (x : TD) (level : Nat) (c : Tri) (h : σ level = c) :
    eval σ (childAt x level c) = eval σ x := by
  subst h; exact eval_childAt σ x level

theorem lmin_none {a b : Option Nat} (h : lmin a b = none) : a = none ∧ b = none := by
  cases a <;> cases b <;> simp [lmin] at h ⊢

theorem level_none {x : TD} (h : x.level = none) : ∃ v, x = leaf v := by
  cases x with
  | leaf v => exact ⟨v, rfl⟩
  | node l a b c => simp [level] at h

theorem lmin_le_left {a b : Option Nat} {l k : Nat} (h : lmin a b = some l) (ha : a = some k) : l ≤ k := by
  subst ha
  cases b with
  | none => simp [lmin] at h; omega
  | some y => simp [lmin] at h; omega

theorem lmin_le_right {a b : Option Nat} {l k : Nat} (h : lmin a b = some l) (hb : b = some k) : l ≤ k := by
  subst hb
  cases a with
  | none => simp [lmin] at h; omega
  | some y => simp [lmin] at h; omega

/-! ## `apply_not` -/

theorem applyNot_sem (σ : Nat → Tri) (f : TD) : eval σ (applyNot f) = (eval σ f).not := by
  induction f with
  | leaf v => rfl
  | node l a b c iha ihb ihc =>
    simp only [applyNot, eval_mk]
    simp only [eval]
    cases σ l <;> simp only [iha, ihb, ihc]

/-! ## `terminal_bin` -/

/-- What it means for an answer of `terminal_bin` to be right for `op f g`. -/
def Operation.Ok (op : BinOp) (f g : TD) : Operation → Prop
  | .done h => ∀ σ, eval σ h = op.sem (eval σ f) (eval σ g)
  | .not a => ∀ σ, (eval σ a).not = op.sem (eval σ f) (eval σ g)
  | .binary tag a b =>
    tag = op.tag ∧ ((a = f ∧ b = g) ∨ (a = g ∧ b = f)) ∧
      ∀ σ, op.sem (eval σ a) (eval σ b) = op.sem (eval σ f) (eval σ g)

macro "tri_simp" : tactic => `(tactic|
  simp [eval, Tri.nand, Tri.nor, Tri.xor, Tri.impStrict, Tri.not_t, Tri.not_f, Tri.not_u,
    Tri.and_self, Tri.or_self, Tri.and_f_left, Tri.and_f_right, Tri.and_t_left, Tri.and_t_right, Tri.or_t_left, Tri.or_t_right, Tri.or_f_left, Tri.or_f_right, Tri.equiv_self, Tri.equiv_t_left, Tri.equiv_t_right, Tri.equiv_f_left, Tri.equiv_f_right, Tri.imp_self, Tri.imp_f_left, Tri.imp_t_right, Tri.imp_t_left, Tri.imp_f_right, Tri.not_not])

macro "term_finish" : tactic => `(tactic|
  first
  | (intro σ; subst_vars; tri_simp; done)
  | (rcases ‹_ ∨ _› with h | h <;> subst h <;> intro σ <;> tri_simp <;> done)
  | (refine ⟨trivial, by simp, fun σ => ?_⟩
     first | trivial | rfl | exact Tri.and_comm _ _ | exact Tri.or_comm _ _
           | exact congrArg Tri.not (Tri.and_comm _ _) | exact congrArg Tri.not (Tri.or_comm _ _)
           | exact Tri.equiv_comm _ _ | exact congrArg Tri.not (Tri.equiv_comm _ _)))

theorem terminalBin_ok (gt : TD → TD → Bool) (op : BinOp) (f g : TD) :
    (terminalBin gt op f g).Ok op f g := by
  cases op
  all_goals simp only [terminalBin]
  all_goals repeat' split
  all_goals simp only [Operation.Ok, BinOp.sem, BinOp.tag, Bool.or_eq_true, isLeafOf_iff] at *
  all_goals term_finish

theorem terminalBin_leaves (gt : TD → TD → Bool) (op : BinOp) (a b : Tri) :
    ∀ tag x y, terminalBin gt op (leaf a) (leaf b) ≠ .binary tag x y := by
  cases op <;> cases a <;> cases b <;> simp [terminalBin, isLeafOf]

theorem terminalBin_binary_not_leaves {gt : TD → TD → Bool} {op : BinOp} {f g : TD} {tag x y}
    (h : terminalBin gt op f g = .binary tag x y) : lmin f.level g.level ≠ none := by
  intro hn
  obtain ⟨hf, hg⟩ := lmin_none hn
  obtain ⟨a, rfl⟩ := level_none hf
  obtain ⟨b, rfl⟩ := level_none hg
  exact terminalBin_leaves gt op a b tag x y h

theorem applyBin_sem (gt : TD → TD → Bool) (op : BinOp) (f g : TD) (σ : Nat → Tri) :
    eval σ (applyBin gt op f g) = op.sem (eval σ f) (eval σ g) := by
  fun_induction applyBin gt op f g with
  | case1 f g h hd =>
    have := terminalBin_ok gt op f g
    rw [hd] at this
    exact this σ
  | case2 f g a hd =>
    have := terminalBin_ok gt op f g
    rw [hd] at this
    rw [applyNot_sem]
    exact this σ
  | case3 f g tag x y hd hl =>
    exact absurd hl (terminalBin_binary_not_leaves hd)
  | case4 f g tag x y hd level hl iht ihu ihf =>
    rw [eval_mk, eval_node_sel]
    cases hs : σ level
    · simp only []
      rw [ihf, eval_childAt_of σ f level .f hs, eval_childAt_of σ g level .f hs]
    · simp only []
      rw [ihu, eval_childAt_of σ f level .u hs, eval_childAt_of σ g level .u hs]
    · simp only []
      rw [iht, eval_childAt_of σ f level .t hs, eval_childAt_of σ g level .t hs]

/-! ## `apply_ite_rec` -/

theorem iteShortcut_sem (gt : TD → TD → Bool) (f g h r : TD) (σ : Nat → Tri)
    (hr : iteShortcut gt f g h = some r) :
    eval σ r = Tri.ite (eval σ f) (eval σ g) (eval σ h) := by
  unfold iteShortcut at hr
  split at hr
  · -- g == h
    rename_i hgh; subst hgh
    simp only [Option.some.injEq] at hr; subst hr
    rw [Tri.ite_same]
  split at hr
  · -- f == g
    rename_i _ hfg; subst hfg
    simp only [Option.some.injEq] at hr; subst hr
    rw [applyBin_sem, Tri.ite_f_eq_g]; rfl
  split at hr
  · -- f == h
    rename_i _ _ hfh; subst hfh
    simp only [Option.some.injEq] at hr; subst hr
    rw [applyBin_sem, Tri.ite_f_eq_h]; rfl
  rename_i hgh hfg hfh
  simp only [] at hr
  split at hr
  · -- the `if let Node::Terminal(t) = fnode` block returned
    rename_i r1 heq
    simp only [Option.some.injEq] at hr; subst hr
    split at heq
    · rename_i ft
      split at heq
      · rename_i hne
        simp only [Option.some.injEq] at heq; subst heq
        cases ft
        · simp [eval, Tri.ite_f]
        · exact absurd rfl hne
        · simp [eval, Tri.ite_t]
      · split at heq
        · rename_i hu hleaf
          simp only [Option.some.injEq] at heq; subst heq
          simp only [ne_eq, Decidable.not_not] at hu; subst hu
          simp only [Bool.and_eq_true] at hleaf
          cases g with
          | node => simp [isLeaf] at hleaf
          | leaf gv =>
            cases h with
            | node => simp [isLeaf] at hleaf
            | leaf hv =>
              cases gv <;> cases hv <;> simp_all [eval, Tri.ite]
        · cases heq
    · cases heq
  · -- the `match (g, h)` block
    rename_i heq
    split at hr
    · rename_i gv l a b c
      split at hr
      · simp only [Option.some.injEq] at hr; subst hr
        rw [applyBin_sem]; simp only [eval, Tri.ite_g_t]; rfl
      · cases hr
      · simp only [Option.some.injEq] at hr; subst hr
        rw [applyBin_sem]; simp only [eval, Tri.ite_g_f]; rfl
    · rename_i l a b c hv
      split at hr
      · simp only [Option.some.injEq] at hr; subst hr
        rw [applyBin_sem]; simp only [eval, Tri.ite_h_t]; rfl
      · cases hr
      · simp only [Option.some.injEq] at hr; subst hr
        rw [applyBin_sem]; simp only [eval, Tri.ite_h_f]; rfl
    · rename_i gv hv
      split at hr
      · simp only [Option.some.injEq] at hr; subst hr
        rw [applyNot_sem]; simp only [eval, Tri.ite_f_t]
      · simp only [Option.some.injEq] at hr; subst hr
        simp only [eval, Tri.ite_t_f]
      · cases hr
    · cases hr

/-- The recursive case of `apply_ite_rec` is never reached with three terminals. -/
theorem iteShortcut_none_not_leaves {gt : TD → TD → Bool} {f g h : TD}
    (hn : iteShortcut gt f g h = none) : lmin (lmin f.level g.level) h.level ≠ none := by
  intro hl
  obtain ⟨hfg, hh⟩ := lmin_none hl
  obtain ⟨hf, hg⟩ := lmin_none hfg
  obtain ⟨a, rfl⟩ := level_none hf
  obtain ⟨b, rfl⟩ := level_none hg
  obtain ⟨c, rfl⟩ := level_none hh
  revert hn
  cases a <;> cases b <;> cases c <;> simp [iteShortcut, isLeaf]

theorem applyIte_sem (gt : TD → TD → Bool) (f g h : TD) (σ : Nat → Tri) :
    eval σ (applyIte gt f g h) = Tri.ite (eval σ f) (eval σ g) (eval σ h) := by
  fun_induction applyIte gt f g h with
  | case1 f g h r hr => exact iteShortcut_sem gt f g h r σ hr
  | case2 f g h hn hl => exact absurd hl (iteShortcut_none_not_leaves hn)
  | case3 f g h hn level hl iht ihu ihf =>
    rw [eval_mk, eval_node_sel]
    cases hs : σ level
    · simp only []
      rw [ihf, eval_childAt_of σ f level .f hs, eval_childAt_of σ g level .f hs,
        eval_childAt_of σ h level .f hs]
    · simp only []
      rw [ihu, eval_childAt_of σ f level .u hs, eval_childAt_of σ g level .u hs,
        eval_childAt_of σ h level .u hs]
    · simp only []
      rw [iht, eval_childAt_of σ f level .t hs, eval_childAt_of σ g level .t hs,
        eval_childAt_of σ h level .t hs]

/-! ## normal form: ordered and reduced -/

/-- the root of `x` lies strictly below level `l` (terminals lie below every level) -/
def rootAbove (l : Nat) : TD → Prop
  | leaf _ => True
  | node k _ _ _ => l < k

instance (l : Nat) (x : TD) : Decidable (rootAbove l x) := by
  cases x <;> simp only [rootAbove] <;> infer_instance

/-- ordered (levels strictly increase from the root to the terminals) and reduced (no node whose
three children coincide — the only reduction rule of `TDDRules::reduce`) -/
def NF : TD → Prop
  | leaf _ => True
  | node l a b c =>
    NF a ∧ NF b ∧ NF c ∧ rootAbove l a ∧ rootAbove l b ∧ rootAbove l c ∧ ¬(a = b ∧ b = c)

instance decNF : (x : TD) → Decidable (NF x)
  | leaf _ => isTrue trivial
  | node l a b c =>
    have := decNF a
    have := decNF b
    have := decNF c
    by simp only [NF]; infer_instance

theorem rootAbove_mono {k l : Nat} {x : TD} (hkl : k ≤ l) (h : rootAbove l x) : rootAbove k x := by
  cases x with
  | leaf v => trivial
  | node m a b c => simp only [rootAbove] at *; omega

theorem rootAbove_of_level {l : Nat} {x : TD} (h : ∀ k, x.level = some k → l < k) : rootAbove l x := by
  cases x with
  | leaf v => trivial
  | node m a b c => exact h m rfl

theorem level_of_rootAbove {l k : Nat} {x : TD} (h : rootAbove l x) (hk : x.level = some k) : l < k := by
  cases x with
  | leaf v => simp [level] at hk
  | node m a b c => simp only [level, Option.some.injEq] at hk; subst hk; exact h

theorem mk_nf {l : Nat} {a b c : TD} (ha : NF a) (hb : NF b) (hc : NF c)
    (ra : rootAbove l a) (rb : rootAbove l b) (rc : rootAbove l c) : NF (mk l a b c) := by
  unfold mk
  split
  · exact ha
  · rename_i h; exact ⟨ha, hb, hc, ra, rb, rc, h⟩

theorem mk_above {k l : Nat} {a b c : TD} (hkl : k < l) (ra : rootAbove l a) :
    rootAbove k (mk l a b c) := by
  unfold mk
  split
  · exact rootAbove_mono (Nat.le_of_lt hkl) ra
  · exact hkl

theorem childAt_nf {x : TD} (l : Nat) (c : Tri) (h : NF x) : NF (childAt x l c) := by
  cases x with
  | leaf v => exact h
  | node k a b d =>
    simp only [childAt]
    split
    · cases c
      · exact h.2.2.1
      · exact h.2.1
      · exact h.1
    · exact h

theorem childAt_above {x : TD} {l : Nat} (c : Tri) (h : NF x) (hl : ∀ k, x.level = some k → l ≤ k) :
    rootAbove l (childAt x l c) := by
  cases x with
  | leaf v => trivial
  | node k a b d =>
    simp only [childAt]
    split
    · rename_i hk; subst hk
      cases c
      · exact h.2.2.2.2.2.1
      · exact h.2.2.2.2.1
      · exact h.2.2.2.1
    · rename_i hk
      have := hl k rfl
      show l < k
      omega

theorem applyNot_nf (f : TD) (h : NF f) :
    NF (applyNot f) ∧ ∀ k, rootAbove k f → rootAbove k (applyNot f) := by
  induction f with
  | leaf v => exact ⟨trivial, fun _ _ => trivial⟩
  | node l a b c iha ihb ihc =>
    obtain ⟨ha, hb, hc, ra, rb, rc, _⟩ := h
    simp only [applyNot]
    refine ⟨mk_nf (iha ha).1 (ihb hb).1 (ihc hc).1 ((iha ha).2 l ra) ((ihb hb).2 l rb) ((ihc hc).2 l rc), ?_⟩
    intro k hk
    exact mk_above hk ((iha ha).2 l ra)

/-- what `terminal_bin` can return, structurally -/
def Operation.Shape (f g : TD) : Operation → Prop
  | .done h => h = f ∨ h = g ∨ ∃ v, h = leaf v
  | .not a => a = f ∨ a = g
  | .binary _ _ _ => True

theorem terminalBin_shape (gt : TD → TD → Bool) (op : BinOp) (f g : TD) :
    (terminalBin gt op f g).Shape f g := by
  cases op
  all_goals simp only [terminalBin]
  all_goals repeat' split
  all_goals simp [Operation.Shape]

theorem lmin_lt_of_above {f g : TD} {k level : Nat} (hl : lmin f.level g.level = some level)
    (hf : rootAbove k f) (hg : rootAbove k g) : k < level := by
  rcases lmin_eq_some hl with h | h
  · exact level_of_rootAbove hf h
  · exact level_of_rootAbove hg h

theorem applyBin_nf (gt : TD → TD → Bool) (op : BinOp) (f g : TD) (hf : NF f) (hg : NF g) :
    NF (applyBin gt op f g) ∧ ∀ k, rootAbove k f → rootAbove k g → rootAbove k (applyBin gt op f g) := by
  fun_induction applyBin gt op f g with
  | case1 f g h hd =>
    have := terminalBin_shape gt op f g
    rw [hd] at this
    rcases this with rfl | rfl | ⟨v, rfl⟩
    · exact ⟨hf, fun _ h _ => h⟩
    · exact ⟨hg, fun _ _ h => h⟩
    · exact ⟨trivial, fun _ _ _ => trivial⟩
  | case2 f g a hd =>
    have := terminalBin_shape gt op f g
    rw [hd] at this
    rcases this with rfl | rfl
    · exact ⟨(applyNot_nf _ hf).1, fun k h _ => (applyNot_nf _ hf).2 k h⟩
    · exact ⟨(applyNot_nf _ hg).1, fun k _ h => (applyNot_nf _ hg).2 k h⟩
  | case3 f g tag x y hd hl => exact ⟨trivial, fun _ _ _ => trivial⟩
  | case4 f g tag x y hd level hl iht ihu ihf =>
    have lf : ∀ k, f.level = some k → level ≤ k := fun k hk => lmin_le_left hl hk
    have lg : ∀ k, g.level = some k → level ≤ k := fun k hk => lmin_le_right hl hk
    have ht := iht (childAt_nf level .t hf) (childAt_nf level .t hg)
    have hu := ihu (childAt_nf level .u hf) (childAt_nf level .u hg)
    have he := ihf (childAt_nf level .f hf) (childAt_nf level .f hg)
    have at' := ht.2 level (childAt_above .t hf lf) (childAt_above .t hg lg)
    have au := hu.2 level (childAt_above .u hf lf) (childAt_above .u hg lg)
    have ae := he.2 level (childAt_above .f hf lf) (childAt_above .f hg lg)
    refine ⟨mk_nf ht.1 hu.1 he.1 at' au ae, ?_⟩
    intro k kf kg
    exact mk_above (lmin_lt_of_above hl kf kg) at'

theorem iteShortcut_nf (gt : TD → TD → Bool) (f g h r : TD) (hf : NF f) (hg : NF g) (hh : NF h)
    (hr : iteShortcut gt f g h = some r) :
    NF r ∧ ∀ k, rootAbove k f → rootAbove k g → rootAbove k h → rootAbove k r := by
  have B := fun op (a b : TD) (ha : NF a) (hb : NF b) => applyBin_nf gt op a b ha hb
  unfold iteShortcut at hr
  split at hr
  · simp only [Option.some.injEq] at hr; subst hr
    exact ⟨hg, fun _ _ x _ => x⟩
  split at hr
  · simp only [Option.some.injEq] at hr; subst hr
    exact ⟨(B _ _ _ hf hh).1, fun k a _ c => (B _ _ _ hf hh).2 k a c⟩
  split at hr
  · simp only [Option.some.injEq] at hr; subst hr
    exact ⟨(B _ _ _ hf hg).1, fun k a b _ => (B _ _ _ hf hg).2 k a b⟩
  simp only [] at hr
  split at hr
  · rename_i r1 heq
    simp only [Option.some.injEq] at hr; subst hr
    split at heq
    · split at heq
      · simp only [Option.some.injEq] at heq; subst heq
        split
        · exact ⟨hg, fun _ _ x _ => x⟩
        · exact ⟨hh, fun _ _ _ x => x⟩
      · split at heq
        · simp only [Option.some.injEq] at heq; subst heq
          exact ⟨trivial, fun _ _ _ _ => trivial⟩
        · cases heq
    · cases heq
  · split at hr
    · split at hr
      · simp only [Option.some.injEq] at hr; subst hr
        exact ⟨(B _ _ _ hf hh).1, fun k a _ c => (B _ _ _ hf hh).2 k a c⟩
      · cases hr
      · simp only [Option.some.injEq] at hr; subst hr
        exact ⟨(B _ _ _ hf hh).1, fun k a _ c => (B _ _ _ hf hh).2 k a c⟩
    · split at hr
      · simp only [Option.some.injEq] at hr; subst hr
        exact ⟨(B _ _ _ hf hg).1, fun k a b _ => (B _ _ _ hf hg).2 k a b⟩
      · cases hr
      · simp only [Option.some.injEq] at hr; subst hr
        exact ⟨(B _ _ _ hf hg).1, fun k a b _ => (B _ _ _ hf hg).2 k a b⟩
    · split at hr
      · simp only [Option.some.injEq] at hr; subst hr
        exact ⟨(applyNot_nf _ hf).1, fun k a _ _ => (applyNot_nf _ hf).2 k a⟩
      · simp only [Option.some.injEq] at hr; subst hr
        exact ⟨hf, fun _ x _ _ => x⟩
      · cases hr
    · cases hr

theorem lmin3_lt_of_above {f g h : TD} {k level : Nat}
    (hl : lmin (lmin f.level g.level) h.level = some level)
    (hf : rootAbove k f) (hg : rootAbove k g) (hh : rootAbove k h) : k < level := by
  rcases lmin_eq_some hl with h12 | h3
  · rcases lmin_eq_some h12 with h1 | h2
    · exact level_of_rootAbove hf h1
    · exact level_of_rootAbove hg h2
  · exact level_of_rootAbove hh h3

theorem lmin3_le {a b c : Option Nat} {l : Nat} (h : lmin (lmin a b) c = some l) :
    (∀ k, a = some k → l ≤ k) ∧ (∀ k, b = some k → l ≤ k) ∧ (∀ k, c = some k → l ≤ k) := by
  cases a <;> cases b <;> cases c <;> simp [lmin] at h ⊢ <;> omega

theorem applyIte_nf (gt : TD → TD → Bool) (f g h : TD) (hf : NF f) (hg : NF g) (hh : NF h) :
    NF (applyIte gt f g h) ∧
      ∀ k, rootAbove k f → rootAbove k g → rootAbove k h → rootAbove k (applyIte gt f g h) := by
  fun_induction applyIte gt f g h with
  | case1 f g h r hr => exact iteShortcut_nf gt f g h r hf hg hh hr
  | case2 f g h hn hl => exact ⟨trivial, fun _ _ _ _ => trivial⟩
  | case3 f g h hn level hl iht ihu ihf =>
    obtain ⟨lf, lg, lh⟩ := lmin3_le hl
    have ht := iht (childAt_nf level .t hf) (childAt_nf level .t hg) (childAt_nf level .t hh)
    have hu := ihu (childAt_nf level .u hf) (childAt_nf level .u hg) (childAt_nf level .u hh)
    have he := ihf (childAt_nf level .f hf) (childAt_nf level .f hg) (childAt_nf level .f hh)
    have at' := ht.2 level (childAt_above .t hf lf) (childAt_above .t hg lg) (childAt_above .t hh lh)
    have au := hu.2 level (childAt_above .u hf lf) (childAt_above .u hg lg) (childAt_above .u hh lh)
    have ae := he.2 level (childAt_above .f hf lf) (childAt_above .f hg lg) (childAt_above .f hh lh)
    refine ⟨mk_nf ht.1 hu.1 he.1 at' au ae, ?_⟩
    intro k kf kg kh
    exact mk_above (lmin3_lt_of_above hl kf kg kh) at'

/-! ## `eval_edge`: 2-bit fields in `u32` blocks -/

theorem getLsbD_small (c : BitVec 32) (hc : c.toNat < 4) (m : Nat) (hm : 2 ≤ m) :
    c.getLsbD m = false := by
  rw [BitVec.getLsbD]
  apply Nat.testBit_lt_two_pow
  have : 2 ^ 2 ≤ 2 ^ m := Nat.pow_le_pow_right (by omega) hm
  omega

theorem getLsbD_three (m : Nat) : (3 : BitVec 32).getLsbD m = decide (m < 2) := by
  by_cases h : m < 2
  · have : m = 0 ∨ m = 1 := by omega
    rcases this with rfl | rfl <;> decide
  · rw [getLsbD_small 3 (by decide) m (by omega)]
    simp [h]

/-- writing the 2-bit field `i` and reading field `j` of a `u32` block -/
theorem field_set_get (block : BitVec 32) (c : BitVec 32) (hc : c.toNat < 4) (i j : Nat) (hi : i < 16) (hj : j < 16) :
    (((c <<< (2 * i)) ||| (block &&& ~~~((3 : BitVec 32) <<< (2 * i)))) >>> (2 * j)) &&& 3
      = if j = i then c else (block >>> (2 * j)) &&& 3 := by
  apply BitVec.eq_of_getLsbD_eq
  intro k hk
  simp only [BitVec.getLsbD_and, BitVec.getLsbD_ushiftRight, BitVec.getLsbD_or, BitVec.getLsbD_shiftLeft, BitVec.getLsbD_not, getLsbD_three]
  by_cases hk2 : k < 2
  · have e1 : 2 * j + k < 32 := by omega
    by_cases hji : j = i
    · subst hji
      have e2 : ¬ (2 * j + k < 2 * j) := by omega
      have e3 : 2 * j + k - 2 * j = k := by omega
      simp [e1, e2, e3, hk2]
    · simp only [hji, if_false, BitVec.getLsbD_and, BitVec.getLsbD_ushiftRight, getLsbD_three]
      by_cases hlt : j < i
      · have e2 : 2 * j + k < 2 * i := by omega
        simp [e1, e2, hk2]
      · have e2 : ¬ (2 * j + k < 2 * i) := by omega
        have e3 : ¬ (2 * j + k - 2 * i < 2) := by omega
        have e4 : c.getLsbD (2 * j + k - 2 * i) = false := getLsbD_small c hc _ (by omega)
        simp [e1, e2, e3, e4, hk2]
  · have e4 : c.getLsbD k = false := getLsbD_small c hc _ (by omega)
    by_cases hji : j = i
    · simp [hji, hk2, e4]
    · have e5 : (3#32).getLsbD k = false := by
        have := getLsbD_three k
        simpa [hk2] using this
      simp [hji, hk2, e5]


theorem choiceCode_lt (v : Option Bool) : (choiceCode v).toNat < 4 := by
  rcases v with _ | _ | _ <;> decide

theorem setChoice_size (ch : Array (BitVec 32)) (l : Nat) (v : Option Bool) :
    (setChoice ch l v).size = ch.size := by
  simp [setChoice]

theorem getD_setIfInBounds_same {α} (a : Array α) (i : Nat) (v d : α) (h : i < a.size) :
    (a.setIfInBounds i v).getD i d = v := by
  simp [Array.getD, h]

theorem getD_setIfInBounds_ne {α} (a : Array α) (i j : Nat) (v d : α) (h : j ≠ i) :
    (a.setIfInBounds i v).getD j d = a.getD j d := by
  rw [Array.getD_eq_getD_getElem?, Array.getD_eq_getD_getElem?, Array.getElem?_setIfInBounds_ne (Ne.symm h)]

theorem getChoice_setChoice (ch : Array (BitVec 32)) (l l' : Nat) (v : Option Bool)
    (hl : l / 16 < ch.size) :
    getChoice (setChoice ch l v) l' = if l' = l then choiceCode v else getChoice ch l' := by
  simp only [getChoice, setChoice, ELEMENTS_PER_BLOCK]
  by_cases hb : l' / 16 = l / 16
  · rw [hb, getD_setIfInBounds_same _ _ _ _ hl,
      field_set_get _ _ (choiceCode_lt v) _ _ (Nat.mod_lt _ (by omega)) (Nat.mod_lt _ (by omega))]
    by_cases hll : l' = l
    · subst hll; simp
    · have : ¬ (l' % 16 = l % 16) := by omega
      simp [this, hll]
  · have hll : l' ≠ l := by intro h; subst h; exact hb rfl
    rw [getD_setIfInBounds_ne _ _ _ _ _ hb]; simp [hll]


/-- the value `eval_edge` uses for level `l`: the last one given in `args`; `Some(true)` (choice 0,
the *true* child) if none is given -/
def lookupArg (args : List (Nat × Option Bool)) (l : Nat) : Option Bool :=
  args.foldl (fun acc a => if a.1 = l then a.2 else acc) (some true)

/-- the three-valued assignment (indexed by level) described by `args` -/
def assignmentOf (args : List (Nat × Option Bool)) : Nat → Tri :=
  fun l => Tri.ofOptBool (lookupArg args l)

theorem foldl_setChoice (args : List (Nat × Option Bool)) (l : Nat) :
    ∀ (ch : Array (BitVec 32)) (acc : Option Bool),
      (∀ a ∈ args, a.1 / 16 < ch.size) → getChoice ch l = choiceCode acc →
      getChoice (args.foldl (fun ch a => setChoice ch a.1 a.2) ch) l
        = choiceCode (args.foldl (fun acc a => if a.1 = l then a.2 else acc) acc) := by
  induction args with
  | nil => intro ch acc _ h; exact h
  | cons a rest ih =>
    intro ch acc hb h
    simp only [List.foldl_cons]
    apply ih
    · intro b hbm
      rw [setChoice_size]
      exact hb b (List.mem_cons_of_mem _ hbm)
    · rw [getChoice_setChoice _ _ _ _ (hb a (List.mem_cons_self))]
      by_cases hla : l = a.1
      · subst hla; simp
      · have : ¬ a.1 = l := fun h => hla h.symm
        simp [hla, this, h]

theorem getChoice_replicate (n l : Nat) : getChoice (Array.replicate n 0) l = 0 := by
  simp only [getChoice, Array.getD_eq_getD_getElem?, Array.getElem?_replicate]
  split <;> simp

theorem getChoice_mkChoices (n : Nat) (args : List (Nat × Option Bool)) (h : ∀ a ∈ args, a.1 < n)
    (l : Nat) : getChoice (mkChoices n args) l = choiceCode (lookupArg args l) := by
  unfold mkChoices lookupArg
  apply foldl_setChoice
  · intro a ha
    have := h a ha
    simp only [Array.size_replicate, ELEMENTS_PER_BLOCK]
    omega
  · rw [getChoice_replicate]; rfl

theorem evalInner_eq (ch : Array (BitVec 32)) (val : Nat → Option Bool)
    (h : ∀ l, getChoice ch l = choiceCode (val l)) (f : TD) :
    evalInner ch f = eval (fun l => Tri.ofOptBool (val l)) f := by
  induction f with
  | leaf v => rfl
  | node l a b c iha ihb ihc =>
    simp only [evalInner, eval, h l]
    rcases hv : val l with _ | _ | _
    · simp [choiceCode, Tri.ofOptBool, ihb]
    · simp [choiceCode, Tri.ofOptBool, ihc]
    · simp [choiceCode, Tri.ofOptBool, iha]

theorem evalEdge_eq (n : Nat) (args : List (Nat × Option Bool)) (h : ∀ a ∈ args, a.1 < n) (f : TD) :
    evalEdge n args f = eval (assignmentOf args) f :=
  evalInner_eq _ _ (getChoice_mkChoices n args h) f


/-! ## assignments, restriction -/

def update (σ : Nat → Tri) (l : Nat) (v : Tri) : Nat → Tri := fun k => if k = l then v else σ k

theorem eval_update_above (σ : Nat → Tri) (l : Nat) (v : Tri) (x : TD) (hn : NF x) (ha : rootAbove l x) :
    eval (update σ l v) x = eval σ x := by
  induction x with
  | leaf w => rfl
  | node k a b c iha ihb ihc =>
    obtain ⟨na, nb, nc, ra, rb, rc, _⟩ := hn
    have hk : l < k := ha
    have hne : ¬ k = l := by omega
    simp only [eval, update, hne, if_false]
    have hle : l ≤ k := by omega
    rw [show eval (update σ l v) a = eval σ a from iha na (rootAbove_mono hle ra),
        show eval (update σ l v) b = eval σ b from ihb nb (rootAbove_mono hle rb),
        show eval (update σ l v) c = eval σ c from ihc nc (rootAbove_mono hle rc)]

/-- all node levels of `x` are below `n` -/
def levelsBelow (n : Nat) : TD → Prop
  | leaf _ => True
  | node l a b c => l < n ∧ levelsBelow n a ∧ levelsBelow n b ∧ levelsBelow n c

theorem eval_congr (σ τ : Nat → Tri) (n : Nat) (h : ∀ l, l < n → σ l = τ l) (x : TD)
    (hx : levelsBelow n x) : eval σ x = eval τ x := by
  induction x with
  | leaf w => rfl
  | node l a b c iha ihb ihc =>
    obtain ⟨hl, ha, hb, hc⟩ := hx
    simp only [eval, h l hl, iha ha, ihb hb, ihc hc]

/-- the total assignment `σ` on levels `0 … n-1` as the argument list of `eval_edge` -/
def argsOf (σ : Nat → Tri) (n : Nat) : List (Nat × Option Bool) :=
  (List.range n).map (fun l => (l, (σ l).toOptBool))

theorem ofOptBool_toOptBool (v : Tri) : Tri.ofOptBool v.toOptBool = v := by cases v <;> rfl

theorem lookupArg_argsOf (σ : Nat → Tri) (n l : Nat) (hl : l < n) :
    lookupArg (argsOf σ n) l = (σ l).toOptBool := by
  induction n with
  | zero => omega
  | succ m ih =>
    simp only [lookupArg, argsOf, List.range_succ, List.map_append, List.foldl_append, List.map_cons,
      List.map_nil, List.foldl_cons, List.foldl_nil]
    by_cases hml : m = l
    · subst hml; simp
    · simp only [hml, if_false]
      exact ih (by omega)

theorem mem_argsOf (σ : Nat → Tri) (n : Nat) : ∀ a ∈ argsOf σ n, a.1 < n := by
  intro a ha
  simp only [argsOf, List.mem_map, List.mem_range] at ha
  obtain ⟨l, hl, rfl⟩ := ha
  exact hl

/-! ## canonicity of the normal form -/

theorem update_same (σ : Nat → Tri) (l : Nat) (v : Tri) : update σ l v l = v := by simp [update]

/-- the children of a normal-form node are its restrictions -/
theorem eval_child_of_nf (σ : Nat → Tri) (l : Nat) (a b c : TD) (h : NF (node l a b c)) :
    eval σ a = eval (update σ l .t) (node l a b c) ∧
    eval σ b = eval (update σ l .u) (node l a b c) ∧
    eval σ c = eval (update σ l .f) (node l a b c) := by
  obtain ⟨na, nb, nc, ra, rb, rc, _⟩ := h
  refine ⟨?_, ?_, ?_⟩
  · simp only [eval, update_same]; exact (eval_update_above σ l .t a na ra).symm
  · simp only [eval, update_same]; exact (eval_update_above σ l .u b nb rb).symm
  · simp only [eval, update_same]; exact (eval_update_above σ l .f c nc rc).symm

/-- a normal-form node is not equivalent to a normal-form tree that lies strictly below its level
(given that its children are canonical for that tree) -/
theorem node_ne_below (l : Nat) (a b c x : TD) (h : NF (node l a b c)) (hx : NF x) (rx : rootAbove l x)
    (heq : ∀ σ, eval σ (node l a b c) = eval σ x)
    (ih : ∀ y, (y = a ∨ y = b ∨ y = c) → (∀ σ, eval σ y = eval σ x) → y = x) : False := by
  have hc := fun σ => eval_child_of_nf σ l a b c h
  have e : ∀ v σ, eval (update σ l v) (node l a b c) = eval σ x := fun v σ => by
    rw [heq, eval_update_above σ l v x hx rx]
  have ha : a = x := ih a (Or.inl rfl) (fun σ => by rw [(hc σ).1, e])
  have hb : b = x := ih b (Or.inr (Or.inl rfl)) (fun σ => by rw [(hc σ).2.1, e])
  have hcx : c = x := ih c (Or.inr (Or.inr rfl)) (fun σ => by rw [(hc σ).2.2, e])
  exact h.2.2.2.2.2.2 ⟨by rw [ha, hb], by rw [hb, hcx]⟩

theorem canonical_aux (n : Nat) : ∀ x y : TD, x.size + y.size ≤ n → NF x → NF y →
    (∀ σ, eval σ x = eval σ y) → x = y := by
  induction n with
  | zero => intro x y h; cases x <;> simp [size] at h <;> omega
  | succ n ih =>
    intro x y hs hx hy heq
    match x, y with
    | leaf v, leaf w => have := heq (fun _ => .u); simp only [eval] at this; rw [this]
    | leaf v, node l a b c =>
      exfalso
      apply node_ne_below l a b c (leaf v) hy trivial trivial (fun σ => (heq σ).symm)
      intro z hz hzeq
      have hsz : z.size + (leaf v).size ≤ n := by
        rcases hz with rfl | rfl | rfl <;> simp only [size] at hs ⊢ <;> omega
      have hnz : NF z := by
        rcases hz with rfl | rfl | rfl
        · exact hy.1
        · exact hy.2.1
        · exact hy.2.2.1
      exact ih z (leaf v) hsz hnz trivial hzeq
    | node l a b c, leaf v =>
      exfalso
      apply node_ne_below l a b c (leaf v) hx trivial trivial heq
      intro z hz hzeq
      have hsz : z.size + (leaf v).size ≤ n := by
        rcases hz with rfl | rfl | rfl <;> simp only [size] at hs ⊢ <;> omega
      have hnz : NF z := by
        rcases hz with rfl | rfl | rfl
        · exact hx.1
        · exact hx.2.1
        · exact hx.2.2.1
      exact ih z (leaf v) hsz hnz trivial hzeq
    | node l a b c, node k a' b' c' =>
      by_cases hlk : l = k
      · subst hlk
        have h1 := fun σ => eval_child_of_nf σ l a b c hx
        have h2 := fun σ => eval_child_of_nf σ l a' b' c' hy
        simp only [size] at hs
        have ea : a = a' := ih a a' (by omega) hx.1 hy.1 (fun σ => by rw [(h1 σ).1, (h2 σ).1, heq])
        have eb : b = b' := ih b b' (by omega) hx.2.1 hy.2.1 (fun σ => by rw [(h1 σ).2.1, (h2 σ).2.1, heq])
        have ec : c = c' := ih c c' (by omega) hx.2.2.1 hy.2.2.1 (fun σ => by rw [(h1 σ).2.2, (h2 σ).2.2, heq])
        rw [ea, eb, ec]
      · exfalso
        by_cases hlt : l < k
        · apply node_ne_below l a b c (node k a' b' c') hx hy hlt heq
          intro z hz hzeq
          have hsz : z.size + (node k a' b' c').size ≤ n := by
            rcases hz with rfl | rfl | rfl <;> simp only [size] at hs ⊢ <;> omega
          have hnz : NF z := by
            rcases hz with rfl | rfl | rfl
            · exact hx.1
            · exact hx.2.1
            · exact hx.2.2.1
          exact ih z _ hsz hnz hy hzeq
        · have hgt : k < l := by omega
          apply node_ne_below k a' b' c' (node l a b c) hy hx hgt (fun σ => (heq σ).symm)
          intro z hz hzeq
          have hsz : z.size + (node l a b c).size ≤ n := by
            rcases hz with rfl | rfl | rfl <;> simp only [size] at hs ⊢ <;> omega
          have hnz : NF z := by
            rcases hz with rfl | rfl | rfl
            · exact hy.1
            · exact hy.2.1
            · exact hy.2.2.1
          exact ih z _ hsz hnz hx hzeq

theorem canonical (x y : TD) (hx : NF x) (hy : NF y) (h : ∀ σ, eval σ x = eval σ y) : x = y :=
  canonical_aux _ x y (Nat.le_refl _) hx hy h

/-! ## reordering -/

theorem compose_sem (σ : Nat → Tri) (l : Nat) (a b c : TD) :
    eval σ (compose l a b c) = eval σ (node l a b c) := by
  fun_induction compose l a b c with
  | case1 a b c hl => exact eval_mk σ l a b c
  | case2 a b c m hl hlt => exact eval_mk σ l a b c
  | case3 a b c m hl hlt iht ihu ihf =>
    rw [eval_mk, eval_node_sel]
    cases hs : σ m
    · simp only []
      rw [ihf]; simp only [eval]
      rw [eval_childAt_of σ a m .f hs, eval_childAt_of σ b m .f hs, eval_childAt_of σ c m .f hs]
    · simp only []
      rw [ihu]; simp only [eval]
      rw [eval_childAt_of σ a m .u hs, eval_childAt_of σ b m .u hs, eval_childAt_of σ c m .u hs]
    · simp only []
      rw [iht]; simp only [eval]
      rw [eval_childAt_of σ a m .t hs, eval_childAt_of σ b m .t hs, eval_childAt_of σ c m .t hs]

theorem reorderTree_sem (π : Nat → Nat) (σ : Nat → Tri) (t : TD) :
    eval σ (reorderTree π t) = eval (fun l => σ (π l)) t := by
  induction t with
  | leaf v => rfl
  | node l a b c iha ihb ihc =>
    simp only [reorderTree, compose_sem, eval, iha, ihb, ihc]

/-- level `k` labels a node of the tree -/
def inTD (k : Nat) : TD → Prop
  | leaf _ => False
  | node l a b c => k = l ∨ inTD k a ∨ inTD k b ∨ inTD k c

theorem inTD_mk {k l : Nat} {a b c : TD} (h : inTD k (mk l a b c)) :
    k = l ∨ inTD k a ∨ inTD k b ∨ inTD k c := by
  unfold mk at h
  split at h
  · exact Or.inr (Or.inl h)
  · exact h

theorem inTD_childAt {k m : Nat} {x : TD} {c : Tri} (h : inTD k (childAt x m c)) : inTD k x := by
  cases x with
  | leaf v => exact h
  | node l a b d =>
    simp only [childAt] at h
    split at h
    · cases c
      · exact Or.inr (Or.inr (Or.inr h))
      · exact Or.inr (Or.inr (Or.inl h))
      · exact Or.inr (Or.inl h)
    · exact h

theorem inTD_of_level {m : Nat} {x : TD} (h : x.level = some m) : inTD m x := by
  cases x with
  | leaf v => simp [level] at h
  | node l a b c => simp only [level, Option.some.injEq] at h; exact Or.inl h.symm

theorem inTD_lmin3 {a b c : TD} {m : Nat} (hl : lmin (lmin a.level b.level) c.level = some m) :
    inTD m a ∨ inTD m b ∨ inTD m c := by
  rcases lmin_eq_some hl with h12 | h3
  · rcases lmin_eq_some h12 with h1 | h2
    · exact Or.inl (inTD_of_level h1)
    · exact Or.inr (Or.inl (inTD_of_level h2))
  · exact Or.inr (Or.inr (inTD_of_level h3))

theorem inTD_compose {k l : Nat} {a b c : TD} (h : inTD k (compose l a b c)) :
    k = l ∨ inTD k a ∨ inTD k b ∨ inTD k c := by
  fun_induction compose l a b c with
  | case1 a b c hl => exact inTD_mk h
  | case2 a b c m hl hlt => exact inTD_mk h
  | case3 a b c m hl hlt iht ihu ihf =>
    rcases inTD_mk h with rfl | h | h | h
    · exact Or.inr (inTD_lmin3 hl)
    · rcases iht h with h | h | h | h
      · exact Or.inl h
      · exact Or.inr (Or.inl (inTD_childAt h))
      · exact Or.inr (Or.inr (Or.inl (inTD_childAt h)))
      · exact Or.inr (Or.inr (Or.inr (inTD_childAt h)))
    · rcases ihu h with h | h | h | h
      · exact Or.inl h
      · exact Or.inr (Or.inl (inTD_childAt h))
      · exact Or.inr (Or.inr (Or.inl (inTD_childAt h)))
      · exact Or.inr (Or.inr (Or.inr (inTD_childAt h)))
    · rcases ihf h with h | h | h | h
      · exact Or.inl h
      · exact Or.inr (Or.inl (inTD_childAt h))
      · exact Or.inr (Or.inr (Or.inl (inTD_childAt h)))
      · exact Or.inr (Or.inr (Or.inr (inTD_childAt h)))

theorem inTD_reorderTree {k : Nat} {π : Nat → Nat} {t : TD} (h : inTD k (reorderTree π t)) :
    ∃ j, inTD j t ∧ k = π j := by
  induction t with
  | leaf v => exact absurd h (by simp [reorderTree, inTD])
  | node l a b c iha ihb ihc =>
    simp only [reorderTree] at h
    rcases inTD_compose h with h | h | h | h
    · exact ⟨l, Or.inl rfl, h⟩
    · obtain ⟨j, hj, e⟩ := iha h; exact ⟨j, Or.inr (Or.inl hj), e⟩
    · obtain ⟨j, hj, e⟩ := ihb h; exact ⟨j, Or.inr (Or.inr (Or.inl hj)), e⟩
    · obtain ⟨j, hj, e⟩ := ihc h; exact ⟨j, Or.inr (Or.inr (Or.inr hj)), e⟩

/-- in a normal form every level below the root's is larger -/
theorem lt_of_inTD {l k : Nat} {x : TD} (hn : NF x) (ha : rootAbove l x) (hk : inTD k x) : l < k := by
  induction x generalizing l with
  | leaf v => exact absurd hk (by simp [inTD])
  | node m a b c iha ihb ihc =>
    obtain ⟨na, nb, nc, ra, rb, rc, _⟩ := hn
    have hlm : l < m := ha
    rcases hk with rfl | h | h | h
    · exact hlm
    · have := iha na ra h; omega
    · have := ihb nb rb h; omega
    · have := ihc nc rc h; omega

theorem compose_nf (l : Nat) (a b c : TD) (ha : NF a) (hb : NF b) (hc : NF c)
    (la : ¬ inTD l a) (lb : ¬ inTD l b) (lc : ¬ inTD l c) :
    NF (compose l a b c) ∧
      ∀ k, k < l → rootAbove k a → rootAbove k b → rootAbove k c → rootAbove k (compose l a b c) := by
  fun_induction compose l a b c with
  | case1 a b c hl =>
    obtain ⟨hab, hcn⟩ := lmin_none hl
    obtain ⟨han, hbn⟩ := lmin_none hab
    obtain ⟨va, rfl⟩ := level_none han
    obtain ⟨vb, rfl⟩ := level_none hbn
    obtain ⟨vc, rfl⟩ := level_none hcn
    exact ⟨mk_nf ha hb hc trivial trivial trivial, fun k hk _ _ _ => mk_above hk trivial⟩
  | case2 a b c m hl hlt =>
    obtain ⟨lf, lg, lh⟩ := lmin3_le hl
    have ra : rootAbove l a := rootAbove_of_level (fun k hk => Nat.lt_of_lt_of_le hlt (lf k hk))
    have rb : rootAbove l b := rootAbove_of_level (fun k hk => Nat.lt_of_lt_of_le hlt (lg k hk))
    have rc : rootAbove l c := rootAbove_of_level (fun k hk => Nat.lt_of_lt_of_le hlt (lh k hk))
    exact ⟨mk_nf ha hb hc ra rb rc, fun k hk _ _ _ => mk_above hk ra⟩
  | case3 a b c m hl hlt iht ihu ihf =>
    obtain ⟨lf, lg, lh⟩ := lmin3_le hl
    have hml : m < l := by
      have hne : m ≠ l := by
        intro h; subst h
        rcases inTD_lmin3 hl with h | h | h
        · exact la h
        · exact lb h
        · exact lc h
      omega
    have nin : ∀ (x : TD) (d : Tri), ¬ inTD l x → ¬ inTD l (childAt x m d) :=
      fun x d h h' => h (inTD_childAt h')
    have ht := iht (childAt_nf m .t ha) (childAt_nf m .t hb) (childAt_nf m .t hc)
      (nin a .t la) (nin b .t lb) (nin c .t lc)
    have hu := ihu (childAt_nf m .u ha) (childAt_nf m .u hb) (childAt_nf m .u hc)
      (nin a .u la) (nin b .u lb) (nin c .u lc)
    have he := ihf (childAt_nf m .f ha) (childAt_nf m .f hb) (childAt_nf m .f hc)
      (nin a .f la) (nin b .f lb) (nin c .f lc)
    have at' := ht.2 m hml (childAt_above .t ha lf) (childAt_above .t hb lg) (childAt_above .t hc lh)
    have au := hu.2 m hml (childAt_above .u ha lf) (childAt_above .u hb lg) (childAt_above .u hc lh)
    have ae := he.2 m hml (childAt_above .f ha lf) (childAt_above .f hb lg) (childAt_above .f hc lh)
    refine ⟨mk_nf ht.1 hu.1 he.1 at' au ae, ?_⟩
    intro k _ ka kb kc
    exact mk_above (lmin3_lt_of_above hl ka kb kc) at'

/-- `π` is injective on the levels that occur in `t` -/
def InjOn (π : Nat → Nat) (t : TD) : Prop :=
  ∀ i j, inTD i t → inTD j t → π i = π j → i = j

theorem reorderTree_nf (π : Nat → Nat) (t : TD) (hn : NF t) (hi : InjOn π t) :
    NF (reorderTree π t) := by
  induction t with
  | leaf v => trivial
  | node l a b c iha ihb ihc =>
    obtain ⟨na, nb, nc, ra, rb, rc, _⟩ := hn
    have ia : InjOn π a := fun i j hi' hj => hi i j (Or.inr (Or.inl hi')) (Or.inr (Or.inl hj))
    have ib : InjOn π b := fun i j hi' hj => hi i j (Or.inr (Or.inr (Or.inl hi'))) (Or.inr (Or.inr (Or.inl hj)))
    have ic : InjOn π c := fun i j hi' hj => hi i j (Or.inr (Or.inr (Or.inr hi'))) (Or.inr (Or.inr (Or.inr hj)))
    simp only [reorderTree]
    refine (compose_nf (π l) _ _ _ (iha na ia) (ihb nb ib) (ihc nc ic) ?_ ?_ ?_).1
    · intro h
      obtain ⟨j, hj, e⟩ := inTD_reorderTree h
      have := hi l j (Or.inl rfl) (Or.inr (Or.inl hj)) e
      subst this
      exact Nat.lt_irrefl _ (lt_of_inTD na ra hj)
    · intro h
      obtain ⟨j, hj, e⟩ := inTD_reorderTree h
      have := hi l j (Or.inl rfl) (Or.inr (Or.inr (Or.inl hj))) e
      subst this
      exact Nat.lt_irrefl _ (lt_of_inTD nb rb hj)
    · intro h
      obtain ⟨j, hj, e⟩ := inTD_reorderTree h
      have := hi l j (Or.inl rfl) (Or.inr (Or.inr (Or.inr hj))) e
      subst this
      exact Nat.lt_irrefl _ (lt_of_inTD nc rc hj)

end OxiddModel.Tdd
