/-!
# Tree-level model of OxiDD's ternary decision diagrams (property C11)

Mirrors, at the level of unfolded trees (no store, no cache, no reference counts):

* `crates/oxidd-rules-tdd/src/lib.rs`: `TDDTerminal`, `TDDOp`, `TDDRules::reduce`,
  `collect_children`, `Operation`, `terminal_bin` (every arm, in the order of the source,
  including the `f == g` shortcuts and the `f > g` operand normalisation of the cache key);
* `crates/oxidd-rules-tdd/src/apply_rec.rs`: `apply_not`, `apply_bin`, `apply_ite_rec`
  (with every delegation to `or`/`and`/`imp_strict`/`imp`/`not`, in the order of the source),
  `var_edge`, `f_edge`/`u_edge`/`t_edge`, `eval_edge` (including the packing of the choices
  into 2-bit fields of `u32` blocks and the default choice `0`, i.e. the *true* child, for
  variables that are not assigned);
* `crates/oxidd-core/src/function.rs`, trait `TVLFunction`: `f`, `t`, `u`, `cofactors_edge`,
  `cofactors_node`, `not_edge_owned` (as it is now: `u` forwards to `u_edge`, `not_edge_owned`
  drops its argument through an `EdgeDropGuard` and forwards to `not_edge`).

Edges of the real manager are hash-consed, so edge equality (`f == g`) is tree equality here.
The total order on edges (`f > g`, an index/pointer comparison) is not a function of the tree;
it is a *parameter* `gt` of the model and every theorem holds for every `gt`. It only decides
under which operand order a binary operation is memoised.
-/
namespace OxiddModel.Tdd

set_option linter.unusedVariables false

/-- `TDDTerminal` (`False`, `Unknown`, `True`, in the order of the Rust enum). -/
inductive Tri where
  | f | u | t
  deriving DecidableEq, Repr, Inhabited, Hashable

namespace Tri

/-! ## The fixed three-valued logic of the property text

Kleene's strong tables for `not`, `and`, `or`; `nand`/`nor` their negations; Łukasiewicz's tables
for `imp` and `equiv`; `xor = not equiv`; `imp_strict a b = not (imp b a)`; the stated `ite`.
All tables are written out row by row. -/

/-- Kleene negation. -/
def not : Tri → Tri
  | f => t
  | u => u
  | t => f

/-- Kleene strong conjunction. -/
def and : Tri → Tri → Tri
  | f, f => f | f, u => f | f, t => f
  | u, f => f | u, u => u | u, t => u
  | t, f => f | t, u => u | t, t => t

/-- Kleene strong disjunction. -/
def or : Tri → Tri → Tri
  | f, f => f | f, u => u | f, t => t
  | u, f => u | u, u => u | u, t => t
  | t, f => t | t, u => t | t, t => t

def nand (a b : Tri) : Tri := not (and a b)
def nor (a b : Tri) : Tri := not (or a b)

/-- Łukasiewicz implication (`u → u = t`). -/
def imp : Tri → Tri → Tri
  | f, f => t | f, u => t | f, t => t
  | u, f => u | u, u => t | u, t => t
  | t, f => f | t, u => u | t, t => t

/-- Łukasiewicz equivalence (`u ↔ u = t`). -/
def equiv : Tri → Tri → Tri
  | f, f => t | f, u => u | f, t => f
  | u, f => u | u, u => t | u, t => u
  | t, f => f | t, u => u | t, t => t

def xor (a b : Tri) : Tri := not (equiv a b)
def impStrict (a b : Tri) : Tri := not (imp b a)

/-- "`ite(a,b,c)` is `b` if `b = c` or `a` is true, `c` if `a` is false, and for unknown `a`:
`or(a,c)` if `a = b`, `and(a,b)` if `a = c`, unknown otherwise". -/
def ite (a b c : Tri) : Tri :=
  if b = c then b
  else match a with
    | t => b
    | f => c
    | u => if a = b then or a c else if a = c then and a b else u

/-- `impl From<TDDTerminal> for Option<bool>` -/
def toOptBool : Tri → Option Bool
  | f => some false
  | u => none
  | t => some true

def ofOptBool : Option Bool → Tri
  | some false => f
  | none => u
  | some true => t

def toStr : Tri → String
  | f => "F"
  | u => "U"
  | t => "T"

end Tri

/-- `TDDOp`, in the order of the Rust enum (the tags under which results are memoised). -/
inductive TDDOp where
  | not | and | or | nand | nor | xor | equiv | imp | impStrict | ite
  deriving DecidableEq, Repr

/-- The binary operators `apply_bin`/`terminal_bin` are instantiated with. -/
inductive BinOp where
  | and | or | nand | nor | xor | equiv | imp | impStrict
  deriving DecidableEq, Repr

namespace BinOp

/-- the `TDDOp` value of the `const OP: u8` parameter -/
def tag : BinOp → TDDOp
  | and => .and | or => .or | nand => .nand | nor => .nor
  | xor => .xor | equiv => .equiv | imp => .imp | impStrict => .impStrict

/-- The truth table the property fixes for each binary connective. -/
def sem : BinOp → Tri → Tri → Tri
  | and => Tri.and | or => Tri.or | nand => Tri.nand | nor => Tri.nor
  | xor => Tri.xor | equiv => Tri.equiv | imp => Tri.imp | impStrict => Tri.impStrict

def all : List BinOp := [and, or, nand, nor, xor, equiv, imp, impStrict]

end BinOp

/-- Unfolded ternary decision diagram. `node level t u e`: children in the order of
`collect_children` (true, unknown, false). Levels, not variables. -/
inductive TD where
  | leaf : Tri → TD
  | node : Nat → TD → TD → TD → TD
  deriving DecidableEq, Repr, Inhabited, Hashable

namespace TD

def size : TD → Nat
  | leaf _ => 1
  | node _ t u e => 1 + t.size + u.size + e.size

/-- `Node::level()`: terminals have level `LevelNo::MAX`, modelled as `none` (= ∞). -/
def level : TD → Option Nat
  | leaf _ => none
  | node l _ _ _ => some l

def isLeaf : TD → Bool
  | leaf _ => true
  | node .. => false

/-- `matches!(get_node(x), Terminal(t) if t == v)` -/
def isLeafOf (x : TD) (v : Tri) : Bool :=
  match x with
  | leaf w => w == v
  | node .. => false

/-- The denotation: follow the true/unknown/false child of each node according to the value the
assignment `σ` (indexed by *level*) gives to the node's level. -/
def eval (σ : Nat → Tri) : TD → Tri
  | leaf v => v
  | node l t u e =>
    match σ l with
    | .t => eval σ t
    | .u => eval σ u
    | .f => eval σ e

/-- `TDDRules::reduce` followed by `then_insert` (hash consing is the identity on trees). -/
def mk (level : Nat) (t u e : TD) : TD :=
  if t = u ∧ u = e then t else node level t u e

/-- `f_edge`, `u_edge`, `t_edge` (and `TVLFunction::{f,u,t}`, which forward to them) -/
def constF : TD := leaf .f
def constU : TD := leaf .u
def constT : TD := leaf .t

/-- `var_edge`: `get_or_insert(InnerNode::new(level, [⊤, U, ⊥]))`; no reduction is applied
(and none applies). -/
def var (level : Nat) : TD := node level (leaf .t) (leaf .u) (leaf .f)

/-- `cofactors_edge`/`cofactors_node`: `None` for terminals, else the children 0, 1, 2. -/
def cofactors : TD → Option (TD × TD × TD)
  | leaf _ => none
  | node _ t u e => some (t, u, e)

/-- `min` on levels where `none` is `LevelNo::MAX`. -/
def lmin : Option Nat → Option Nat → Option Nat
  | none, b => b
  | a, none => a
  | some a, some b => some (min a b)

/-- Cofactor selection of `apply_bin`/`apply_ite_rec`:
`if xlevel == level { collect_children(x) } else { (x, x, x) }`, component `c`
(`.t` ↦ child 0, `.u` ↦ child 1, `.f` ↦ child 2). -/
def childAt (x : TD) (level : Nat) (c : Tri) : TD :=
  match x with
  | leaf _ => x
  | node l t u e =>
    if l = level then
      match c with
      | .t => t
      | .u => u
      | .f => e
    else x

end TD

open TD

/-- `enum Operation` of `lib.rs`. `binary tag a b`: recurse, memoised under `(tag, a, b)`;
`not a`: delegate to `apply_not a`; `done h`: result. -/
inductive Operation where
  | binary (tag : TDDOp) (a b : TD)
  | not (a : TD)
  | done (h : TD)
  deriving DecidableEq, Repr

/-- `terminal_bin::<M, OP>`. One `if`-chain per operator with exactly the arms of the Rust `match`
in source order (an or-pattern with a guard tries the guard for both alternatives). -/
def terminalBin (gt : TD → TD → Bool) (op : BinOp) (f g : TD) : Operation :=
  match op with
  | .and =>
    if f = g then .done f
    else if f.isLeafOf .f || g.isLeafOf .f then .done (leaf .f)
    else if f.isLeafOf .t then .done g
    else if g.isLeafOf .t then .done f
    else if gt f g then .binary .and g f
    else .binary .and f g
  | .or =>
    if f = g then .done f
    else if f.isLeafOf .t || g.isLeafOf .t then .done (leaf .t)
    else if f.isLeafOf .f then .done g
    else if g.isLeafOf .f then .done f
    else if gt f g then .binary .or g f
    else .binary .or f g
  | .nand =>
    if f = g then .not f
    else if f.isLeafOf .f || g.isLeafOf .f then .done (leaf .t)
    else if f.isLeafOf .t then .not g
    else if g.isLeafOf .t then .not f
    else if gt f g then .binary .nand g f
    else .binary .nand f g
  | .nor =>
    if f = g then .not f
    else if f.isLeafOf .t || g.isLeafOf .t then .done (leaf .f)
    else if f.isLeafOf .f then .not g
    else if g.isLeafOf .f then .not f
    else if gt f g then .binary .nor g f
    else .binary .nor f g
  | .xor =>
    if f = g then .done (leaf .f)
    else if f.isLeafOf .f then .done g
    else if g.isLeafOf .f then .done f
    else if f.isLeafOf .t then .not g
    else if g.isLeafOf .t then .not f
    else if gt f g then .binary .xor g f
    else .binary .xor f g
  | .equiv =>
    if f = g then .done (leaf .t)
    else if f.isLeafOf .t then .done g
    else if g.isLeafOf .t then .done f
    else if f.isLeafOf .f then .not g
    else if g.isLeafOf .f then .not f
    else if gt f g then .binary .equiv g f
    else .binary .equiv f g
  | .imp =>
    if f = g then .done (leaf .t)
    else if f.isLeafOf .f then .done (leaf .t)
    else if g.isLeafOf .t then .done (leaf .t)
    else if f.isLeafOf .t then .done g
    else if g.isLeafOf .f then .not f
    else .binary .imp f g
  | .impStrict =>
    if f = g then .done (leaf .f)
    else if f.isLeafOf .t then .done (leaf .f)
    else if g.isLeafOf .f then .done (leaf .f)
    else if f.isLeafOf .f then .done g
    else if g.isLeafOf .t then .not f
    else .binary .impStrict f g

/-- `apply_not`: terminal ↦ `!t`; inner node ↦ `reduce(level, not f0, not f1, not f2)`. -/
def applyNot : TD → TD
  | leaf v => leaf v.not
  | node l t u e => mk l (applyNot t) (applyNot u) (applyNot e)

theorem childAt_size_le (x : TD) (l : Nat) (c : Tri) : (childAt x l c).size ≤ x.size := by
  cases x with
  | leaf v => simp [childAt]
  | node k t u e =>
    simp only [childAt]
    split
    · cases c <;> simp only [size] <;> omega
    · exact Nat.le_refl _

theorem childAt_size_lt (x : TD) (l : Nat) (c : Tri) (h : x.level = some l) :
    (childAt x l c).size < x.size := by
  cases x with
  | leaf v => simp [level] at h
  | node k t u e =>
    simp only [level, Option.some.injEq] at h
    subst h
    simp only [childAt, if_true]
    cases c <;> simp only [size] <;> omega

theorem lmin_eq_some {a b : Option Nat} {l : Nat} (h : lmin a b = some l) : a = some l ∨ b = some l := by
  cases a <;> cases b <;> simp only [lmin] at h
  · cases h
  · exact Or.inr h
  · exact Or.inl h
  · rename_i x y
    simp only [Option.some.injEq] at h
    by_cases hxy : x ≤ y
    · left; rw [Nat.min_eq_left hxy] at h; rw [h]
    · right; rw [Nat.min_eq_right (by omega)] at h; rw [h]

/-- `apply_bin::<M, OP>`: terminal cases through `terminalBin`; otherwise the ternary Shannon
expansion at `level = min(flevel, glevel)` over the cofactors of the *original* operands `f`, `g`
(the operands `op1`, `op2` returned by `terminal_bin` only form the cache key).
The `none` branch (both operands terminal) is unreachable: `terminal_bin` never answers
`Binary` for two terminals (`terminalBin_binary_not_leaves`); the Rust code would panic there
in `unwrap_inner`. -/
def applyBin (gt : TD → TD → Bool) (op : BinOp) (f g : TD) : TD :=
  match terminalBin gt op f g with
  | .done h => h
  | .not a => applyNot a
  | .binary _ _ _ =>
    match hl : lmin f.level g.level with
    | none => leaf .u
    | some level =>
      mk level
        (applyBin gt op (childAt f level .t) (childAt g level .t))
        (applyBin gt op (childAt f level .u) (childAt g level .u))
        (applyBin gt op (childAt f level .f) (childAt g level .f))
termination_by f.size + g.size
decreasing_by
  all_goals
    rcases lmin_eq_some hl with h | h
    · have h1 := childAt_size_lt f level
      have h2 := childAt_size_le g level
      first
        | (have := h1 .t h; have := h2 .t; omega)
        | (have := h1 .u h; have := h2 .u; omega)
        | (have := h1 .f h; have := h2 .f; omega)
    · have h1 := childAt_size_le f level
      have h2 := childAt_size_lt g level
      first
        | (have := h1 .t; have := h2 .t h; omega)
        | (have := h1 .u; have := h2 .u h; omega)
        | (have := h1 .f; have := h2 .f h; omega)

/-- The early returns of `apply_ite_rec` (everything before "Query apply cache"), in source order.
`none` means: fall through to the recursive case. -/
def iteShortcut (gt : TD → TD → Bool) (f g h : TD) : Option TD :=
  if g = h then some g
  else if f = g then some (applyBin gt .or f h)
  else if f = h then some (applyBin gt .and f g)
  else
    -- `if let Node::Terminal(t) = fnode { … }`
    let r1 : Option TD :=
      match f with
      | leaf ft =>
        if ft ≠ .u then some (if ft = .t then g else h)
        else if g.isLeaf && h.isLeaf then some (leaf .u)
        else none
      | node .. => none
    match r1 with
    | some r => some r
    | none =>
      -- `match (manager.get_node(&g), manager.get_node(&h)) { … }`
      match g, h with
      | leaf gv, node .. =>
        match gv with
        | .t => some (applyBin gt .or f h)
        | .u => none
        | .f => some (applyBin gt .impStrict f h)
      | node .., leaf hv =>
        match hv with
        | .t => some (applyBin gt .imp f g)
        | .u => none
        | .f => some (applyBin gt .and f g)
      | leaf gv, leaf hv =>
        match gv, hv with
        | .f, .t => some (applyNot f)
        | .t, .f => some f
        | _, _ => none
      | node .., node .. => none

/-- `apply_ite_rec`: early returns (`iteShortcut`), otherwise the ternary Shannon expansion at
`level = min(min(flevel, glevel), hlevel)`. The `none` level branch (all three terminal) is
unreachable (`iteShortcut_none_not_leaves`). -/
def applyIte (gt : TD → TD → Bool) (f g h : TD) : TD :=
  match iteShortcut gt f g h with
  | some r => r
  | none =>
    match hl : lmin (lmin f.level g.level) h.level with
    | none => leaf .u
    | some level =>
      mk level
        (applyIte gt (childAt f level .t) (childAt g level .t) (childAt h level .t))
        (applyIte gt (childAt f level .u) (childAt g level .u) (childAt h level .u))
        (applyIte gt (childAt f level .f) (childAt g level .f) (childAt h level .f))
termination_by f.size + g.size + h.size
decreasing_by
  all_goals
    have hf := childAt_size_le f level
    have hg := childAt_size_le g level
    have hh := childAt_size_le h level
    rcases lmin_eq_some hl with h12 | h3
    · rcases lmin_eq_some h12 with h1 | h2
      · have h1' := childAt_size_lt f level
        first
          | (have := h1' .t h1; have := hg .t; have := hh .t; omega)
          | (have := h1' .u h1; have := hg .u; have := hh .u; omega)
          | (have := h1' .f h1; have := hg .f; have := hh .f; omega)
      · have h2' := childAt_size_lt g level
        first
          | (have := h2' .t h2; have := hf .t; have := hh .t; omega)
          | (have := h2' .u h2; have := hf .u; have := hh .u; omega)
          | (have := h2' .f h2; have := hf .f; have := hh .f; omega)
    · have h3' := childAt_size_lt h level
      first
        | (have := h3' .t h3; have := hf .t; have := hg .t; omega)
        | (have := h3' .u h3; have := hf .u; have := hg .u; omega)
        | (have := h3' .f h3; have := hf .f; have := hg .f; omega)

/-- `TVLFunction::not_edge_owned` (default, as fixed): wrap the owned edge in an `EdgeDropGuard`
(dropped on return), forward to `not_edge`. On trees: the same function as `applyNot`. -/
def notEdgeOwned (f : TD) : TD := applyNot f


/-! ## reordering (specification level)

`oxidd_reorder::set_var_order` changes the level of every variable and rewrites the stored nodes
by adjacent level swaps. At the tree level its *specified* effect on a handle is: the same
function of the variables, as the normal form for the new order. `reorderTree` computes that
tree with the model's own constructor `mk`: bottom-up, every node `(l: a, b, c)` is recomposed
as the three-way case distinction on the new level `π l` over the rebuilt cofactors. -/

/-- `compose l a b c`: the function that is `a` where level `l` is true, `b` where it is unknown
and `c` where it is false — a ternary Shannon expansion over the levels above `l` (like
`apply_ite_rec`), closed by `mk l a b c` once `l` is the top-most level. -/
def compose (l : Nat) (a b c : TD) : TD :=
  match hl : lmin (lmin a.level b.level) c.level with
  | none => mk l a b c
  | some m =>
    if l < m then mk l a b c
    else
      mk m
        (compose l (childAt a m .t) (childAt b m .t) (childAt c m .t))
        (compose l (childAt a m .u) (childAt b m .u) (childAt c m .u))
        (compose l (childAt a m .f) (childAt b m .f) (childAt c m .f))
termination_by a.size + b.size + c.size
decreasing_by
  all_goals
    have hf := childAt_size_le a m
    have hg := childAt_size_le b m
    have hh := childAt_size_le c m
    rcases lmin_eq_some hl with h12 | h3
    · rcases lmin_eq_some h12 with h1 | h2
      · have h1' := childAt_size_lt a m
        first
          | (have := h1' .t h1; have := hg .t; have := hh .t; omega)
          | (have := h1' .u h1; have := hg .u; have := hh .u; omega)
          | (have := h1' .f h1; have := hg .f; have := hh .f; omega)
      · have h2' := childAt_size_lt b m
        first
          | (have := h2' .t h2; have := hf .t; have := hh .t; omega)
          | (have := h2' .u h2; have := hf .u; have := hh .u; omega)
          | (have := h2' .f h2; have := hf .f; have := hh .f; omega)
    · have h3' := childAt_size_lt c m
      first
        | (have := h3' .t h3; have := hf .t; have := hg .t; omega)
        | (have := h3' .u h3; have := hf .u; have := hg .u; omega)
        | (have := h3' .f h3; have := hf .f; have := hg .f; omega)

/-- rebuild a tree for a new order; `π` maps old levels to new levels -/
def reorderTree (π : Nat → Nat) : TD → TD
  | leaf v => leaf v
  | node l a b c => compose (π l) (reorderTree π a) (reorderTree π b) (reorderTree π c)

/-! ## `eval_edge`: the choices vector with sixteen 2-bit fields per `u32` block -/

def ELEMENTS_PER_BLOCK : Nat := 16

/-- `match val { Some(true) => 0, None => 1, Some(false) => 2 }` -/
def choiceCode : Option Bool → BitVec 32
  | some true => 0
  | none => 1
  | some false => 2

/-- one iteration of `for (var, val) in args { … }` with `level = var_to_level(var)` -/
def setChoice (choices : Array (BitVec 32)) (level : Nat) (val : Option Bool) : Array (BitVec 32) :=
  let i := level / ELEMENTS_PER_BLOCK
  let block := choices.getD i 0
  let shift := 2 * (level % ELEMENTS_PER_BLOCK)
  let mask : BitVec 32 := ~~~((3 : BitVec 32) <<< shift)
  choices.setIfInBounds i ((choiceCode val <<< shift) ||| (block &&& mask))

/-- `(block >> shift) & 0b11` -/
def getChoice (choices : Array (BitVec 32)) (level : Nat) : BitVec 32 :=
  let block := choices.getD (level / ELEMENTS_PER_BLOCK) 0
  let shift := 2 * (level % ELEMENTS_PER_BLOCK)
  (block >>> shift) &&& 3

/-- `vec![0u32; num_levels.div_ceil(ELEMENTS_PER_BLOCK)]` filled by the loop over `args`
(`args` already mapped from variables to levels). -/
def mkChoices (numLevels : Nat) (args : List (Nat × Option Bool)) : Array (BitVec 32) :=
  args.foldl (fun ch a => setChoice ch a.1 a.2)
    (Array.replicate ((numLevels + ELEMENTS_PER_BLOCK - 1) / ELEMENTS_PER_BLOCK) 0)

/-- `inner`: `node.child(val)` with `val = (block >> shift) & 0b11`; `val = 3` cannot occur
(`node.child(3)` would panic) and is mapped to `U` here. -/
def evalInner (choices : Array (BitVec 32)) : TD → Tri
  | leaf v => v
  | node l t u e =>
    let val := (getChoice choices l).toNat
    if val = 0 then evalInner choices t
    else if val = 1 then evalInner choices u
    else if val = 2 then evalInner choices e
    else .u

/-- `eval_edge(manager, edge, args)` with `args` given as (level, value) pairs. -/
def evalEdge (numLevels : Nat) (args : List (Nat × Option Bool)) (f : TD) : Tri :=
  evalInner (mkChoices numLevels args) f

end OxiddModel.Tdd
