import OxiddModel.Tdd.Lemmas

/-!
# C11 — TDD operations are the pointwise lifting of one fixed three-valued logic

Headline theorems about the tree-level model `OxiddModel.Tdd` (`Model.lean`), which mirrors
`oxidd-rules-tdd` (`terminal_bin`, `apply_not`, `apply_bin`, `apply_ite_rec`, `eval_edge`,
`var_edge`, the terminals) and the defaults of `TVLFunction`.

The three-valued logic is fixed by the row-by-row tables `Tri.not`, `Tri.and`, `Tri.or` (Kleene,
strong), `Tri.imp`, `Tri.equiv` (Łukasiewicz), `Tri.nand = not ∘ and`, `Tri.nor = not ∘ or`,
`Tri.xor = not ∘ equiv`, `Tri.impStrict a b = not (imp b a)` and `Tri.ite` (the property's text),
collected per operator in `BinOp.sem`.

All theorems are for *all* trees, assignments and edge orders `gt` (unbounded; induction over the
recursion of the algorithms). Finite table facts are closed by case analysis on `Tri`.
-/
namespace OxiddModel.Tdd

open TD

/-- a sample edge order for the examples (any function works; the theorems quantify over it) -/
def gtSample (a b : TD) : Bool := a.size > b.size

/-! ## the tables are the ones the property names -/

/-- The tables are Kleene's strong ones (`and` = minimum, `or` = maximum in `f < u < t`, `not`
swaps `f`/`t`), Łukasiewicz's implication (`u → u = t`, `t → u = u`, `u → f = u`) and equivalence
(`u ↔ u = t`), and the property's `ite`: spot rows that distinguish them from other three-valued
logics (Kleene's own implication has `u → u = u`; weak Kleene has `f ∧ u = u`). -/
theorem tdd_tables :
    Tri.and .f .u = .f ∧ Tri.and .u .t = .u ∧ Tri.or .t .u = .t ∧ Tri.or .u .f = .u ∧
    Tri.not .u = .u ∧ Tri.imp .u .u = .t ∧ Tri.imp .t .u = .u ∧ Tri.imp .u .f = .u ∧
    Tri.equiv .u .u = .t ∧ Tri.equiv .t .u = .u ∧ Tri.xor .u .u = .f ∧
    Tri.impStrict .u .u = .f ∧ Tri.impStrict .f .u = .u ∧
    Tri.ite .u .u .t = .t ∧ Tri.ite .u .t .u = .u ∧ Tri.ite .u .f .u = .f ∧ Tri.ite .u .t .f = .u ∧
    (∀ a b, Tri.nand a b = (Tri.and a b).not) ∧ (∀ a b, Tri.nor a b = (Tri.or a b).not) ∧
    (∀ a b, Tri.xor a b = (Tri.equiv a b).not) ∧ (∀ a b, Tri.impStrict a b = (Tri.imp b a).not) ∧
    (∀ a b, Tri.equiv a b = Tri.and (Tri.imp a b) (Tri.imp b a)) := by
  refine ⟨rfl, rfl, rfl, rfl, rfl, rfl, rfl, rfl, rfl, rfl, rfl, rfl, rfl, rfl, rfl, rfl, rfl,
    fun _ _ => rfl, fun _ _ => rfl, fun _ _ => rfl, fun _ _ => rfl, ?_⟩
  intro a b; cases a <;> cases b <;> rfl

/-! ## `terminal_bin` -/

/-- **Every arm of `terminal_bin` is right** (`Operation.Ok`, `Lemmas.lean`): a `Done(h)` arm
returns a tree with the table's value under every assignment; a `Not(a)` arm delegates to the
negation of a tree for which `not` gives the table's value; a `Binary(tag, a, b)` arm memoises
under the operator's own tag and under the operands themselves, possibly swapped — and swapped only
where the table is symmetric. This includes the `f == g` shortcuts: `f xor f = F`, `f → f = T`,
`f ↔ f = T`, `imp_strict(f, f) = F` are what the Łukasiewicz tables demand also where `f` is
unknown (`tdd_tables`), `f ∧ f = f ∨ f = f`, `nand(f, f) = nor(f, f) = ¬f`. -/
theorem tdd_terminal_ok (gt : TD → TD → Bool) (op : BinOp) (f g : TD) :
    (terminalBin gt op f g).Ok op f g :=
  terminalBin_ok gt op f g

/-- non-vacuity: the three kinds of arms occur, and the `f == g` shortcut on the unknown terminal
returns what the table says (`U xor U = F`, `U → U = T`). -/
example :
    terminalBin gtSample .xor (leaf .u) (leaf .u) = .done (leaf .f) ∧
    terminalBin gtSample .imp (leaf .u) (leaf .u) = .done (leaf .t) ∧
    terminalBin gtSample .nand (leaf .t) (var 0) = .not (var 0) ∧
    terminalBin gtSample .and (leaf .u) (var 0) = .binary .and (leaf .u) (var 0) ∧
    terminalBin gtSample .and (var 0) (leaf .u) = .binary .and (leaf .u) (var 0) ∧
    Tri.xor .u .u = .f ∧ Tri.imp .u .u = .t := by decide

/-- `terminal_bin` answers `Binary` only if an operand is an inner node, so the recursion of
`apply_bin` always has a level to expand (`unwrap_inner` cannot panic). -/
theorem tdd_terminal_binary_inner (gt : TD → TD → Bool) (op : BinOp) (f g : TD) (tag : TDDOp)
    (a b : TD) (h : terminalBin gt op f g = .binary tag a b) : lmin f.level g.level ≠ none :=
  terminalBin_binary_not_leaves h

/-! ## the connectives -/

/-- **`not` is the pointwise lifting of Kleene negation**, for every tree and assignment. -/
theorem tdd_not_sem (σ : Nat → Tri) (f : TD) : eval σ (applyNot f) = (eval σ f).not :=
  applyNot_sem σ f

example : eval (fun _ => .u) (applyNot (var 3)) = .u ∧ applyNot (var 3) = node 3 (leaf .f) (leaf .u) (leaf .t) := by
  decide

/-- **Every binary connective returns the function whose value under each three-valued assignment
is given by its truth table** — all eight operators (`nand`, `nor`, `xor`, `imp_strict` through
their definitions in `BinOp.sem`), all operand trees (no bound, no normal-form assumption), all
assignments, every edge order. -/
theorem tdd_apply_sem (gt : TD → TD → Bool) (op : BinOp) (f g : TD) (σ : Nat → Tri) :
    eval σ (applyBin gt op f g) = op.sem (eval σ f) (eval σ g) :=
  applyBin_sem gt op f g σ

/-- non-vacuity on a two-level instance (the recursion is really entered): `x0 → x1` under
`x0 = x1 = unknown` is *true* (Łukasiewicz), `x0 ∧ x1` is unknown. -/
example :
    eval (fun _ => .u) (applyBin gtSample .imp (var 0) (var 1)) = .t ∧
    eval (fun _ => .u) (applyBin gtSample .and (var 0) (var 1)) = .u := by
  rw [tdd_apply_sem, tdd_apply_sem]; decide

/-- **`ite` is the pointwise lifting of the property's `ite` table**, through every early return
and delegation of `apply_ite_rec` (`g == h`, `f == g ↦ or`, `f == h ↦ and`, terminal `f`, constant
`g`/`h` ↦ `or`/`imp_strict`/`imp`/`and`/`not`/`f`) and the three-way expansion. -/
theorem tdd_ite_sem (gt : TD → TD → Bool) (f g h : TD) (σ : Nat → Tri) :
    eval σ (applyIte gt f g h) = Tri.ite (eval σ f) (eval σ g) (eval σ h) :=
  applyIte_sem gt f g h σ

example :
    eval (fun _ => .u) (applyIte gtSample (var 0) (var 1) (var 2)) = .u ∧
    eval (fun l => if l = 2 then .t else .u) (applyIte gtSample (var 0) (var 1) (var 2)) = .t := by
  rw [tdd_ite_sem, tdd_ite_sem]; decide

/-- The recursive case of `apply_ite_rec` always has an inner node to expand. -/
theorem tdd_ite_inner (gt : TD → TD → Bool) (f g h : TD) (hn : iteShortcut gt f g h = none) :
    lmin (lmin f.level g.level) h.level ≠ none :=
  iteShortcut_none_not_leaves hn

/-! ## normal form -/

/-- **The connectives preserve the normal form** (ordered, reduced) and do not introduce levels
above the operands' roots — so their results are again legal operands and legal children. -/
theorem tdd_apply_nf (gt : TD → TD → Bool) (op : BinOp) (f g : TD) (hf : NF f) (hg : NF g) :
    NF (applyBin gt op f g) ∧
      ∀ k, rootAbove k f → rootAbove k g → rootAbove k (applyBin gt op f g) :=
  applyBin_nf gt op f g hf hg

theorem tdd_not_nf (f : TD) (hf : NF f) :
    NF (applyNot f) ∧ ∀ k, rootAbove k f → rootAbove k (applyNot f) :=
  applyNot_nf f hf

theorem tdd_ite_nf (gt : TD → TD → Bool) (f g h : TD) (hf : NF f) (hg : NF g) (hh : NF h) :
    NF (applyIte gt f g h) ∧
      ∀ k, rootAbove k f → rootAbove k g → rootAbove k h → rootAbove k (applyIte gt f g h) :=
  applyIte_nf gt f g h hf hg hh

/-- non-vacuity: the hypotheses hold for variables; an unordered or unreduced tree is rejected. -/
example :
    NF (var 0) ∧ NF (var 1) ∧ NF (node 0 (var 1) (leaf .u) (var 2)) ∧
    ¬ NF (node 1 (var 0) (leaf .u) (leaf .f)) ∧ ¬ NF (node 0 (var 1) (var 1) (var 1)) := by decide

example : NF (applyBin gtSample .xor (var 0) (var 1)) :=
  (tdd_apply_nf gtSample .xor (var 0) (var 1) (by decide) (by decide)).1

/-- **Normal forms are canonical**: two ordered, reduced trees with the same value under every
three-valued assignment are the same tree. (This is what makes the tree equality `f == g` of the
shortcuts in `terminal_bin`/`apply_ite_rec` *complete*, not only sound, on hash-consed handles.) -/
theorem tdd_canonical (x y : TD) (hx : NF x) (hy : NF y) (h : ∀ σ, eval σ x = eval σ y) : x = y :=
  canonical x y hx hy h

/-- **Every connective returns *the* function given by its truth table**: on normal forms the
result of `apply_bin` is the unique normal form of the pointwise lifting — in particular it does
not depend on the edge order `gt` (which only orders cache keys). -/
theorem tdd_apply_unique (gt : TD → TD → Bool) (op : BinOp) (f g r : TD) (hf : NF f) (hg : NF g)
    (hr : NF r) (h : ∀ σ, eval σ r = op.sem (eval σ f) (eval σ g)) : applyBin gt op f g = r :=
  canonical _ _ (applyBin_nf gt op f g hf hg).1 hr (fun σ => by rw [applyBin_sem, h])

theorem tdd_ite_unique (gt : TD → TD → Bool) (f g h r : TD) (hf : NF f) (hg : NF g) (hh : NF h)
    (hr : NF r) (hsem : ∀ σ, eval σ r = Tri.ite (eval σ f) (eval σ g) (eval σ h)) :
    applyIte gt f g h = r :=
  canonical _ _ (applyIte_nf gt f g h hf hg hh).1 hr (fun σ => by rw [applyIte_sem, hsem])

/-- non-vacuity: `x0 xor x0` is the normal form `F`; `¬x0` is the normal form of `x0 → F`. -/
example : applyBin gtSample .imp (var 0) (leaf .f) = node 0 (leaf .f) (leaf .u) (leaf .t) :=
  tdd_apply_unique gtSample .imp (var 0) (leaf .f) _ (by decide) (by decide) (by decide)
    (fun σ => by simp only [eval, BinOp.sem, var]; cases h : σ 0 <;> rfl)

/-! ## reordering -/

/-- **Rebuilding a diagram for a new variable order preserves its function up to the renaming of
levels**: under every assignment `σ` of the new levels, the rebuilt tree has the value the old tree
has under `σ ∘ π` (`π`: old level ↦ new level) — for all trees and all maps `π`. This is the
specified effect of `set_var_order` on every live handle (C08). -/
theorem tdd_reorder_sem (π : Nat → Nat) (σ : Nat → Tri) (t : TD) :
    eval σ (reorderTree π t) = eval (fun l => σ (π l)) t :=
  reorderTree_sem π σ t

/-- **… and yields a normal form** (ordered and reduced for the new order) whenever the old tree is
one and `π` does not identify two of its levels (a permutation never does). -/
theorem tdd_reorder_nf (π : Nat → Nat) (t : TD) (hn : NF t) (hi : InjOn π t) :
    NF (reorderTree π t) :=
  reorderTree_nf π t hn hi

/-- **… so it is *the* canonical diagram of that function for the new order**: any normal form with
the renamed function is this tree (`tdd_canonical`). Whatever sequence of level swaps the real code
performs, a correct hash-consed result unfolds to exactly `reorderTree π t`. -/
theorem tdd_reorder_canonical (π : Nat → Nat) (t r : TD) (hn : NF t) (hi : InjOn π t) (hr : NF r)
    (h : ∀ σ, eval σ r = eval (fun l => σ (π l)) t) : r = reorderTree π t :=
  canonical _ _ hr (reorderTree_nf π t hn hi) (fun σ => by rw [reorderTree_sem, h])

/-- non-vacuity: swapping the two levels of `(l0: x1, U, F)` (a function depending on both levels,
so the rewriting case of `level_swap`) gives `(l0: (l1: T,U,F), (l1: U,U,F), (l1: F,U,F))`. -/
example :
    reorderTree (fun l => 1 - l) (node 0 (var 1) (leaf .u) (leaf .f))
      = node 0 (node 1 (leaf .t) (leaf .u) (leaf .f)) (node 1 (leaf .u) (leaf .u) (leaf .f))
          (node 1 (leaf .f) (leaf .u) (leaf .f)) := by
  symm
  apply tdd_reorder_canonical _ _ _ (by decide) _ (by decide)
  · intro σ
    simp only [eval, var]
    cases σ 0 <;> cases σ 1 <;> rfl
  · intro i j hi hj h
    simp only [inTD, var, or_false] at hi hj
    dsimp only at h
    omega

/-! ## constants, variables, evaluation, cofactors -/

/-- **`f`, `t`, `u` evaluate to false, true and unknown under every assignment** (the trait
defaults forward to `f_edge`, `t_edge`, `u_edge`; `u` in particular to the *unknown* terminal). -/
theorem tdd_consts (σ : Nat → Tri) :
    eval σ constF = .f ∧ eval σ constT = .t ∧ eval σ constU = .u :=
  ⟨rfl, rfl, rfl⟩

/-- **`var` evaluates to its argument's value.** -/
theorem tdd_var (σ : Nat → Tri) (l : Nat) : eval σ (var l) = σ l := by
  simp only [var, eval]; cases σ l <;> rfl

example : NF (var 5) ∧ eval (fun l => if l = 5 then .u else .t) (var 5) = .u := by decide

/-- **`eval` follows the true/unknown/false child of each node.** `eval_edge` — including the packing
of the choices into sixteen 2-bit fields per `u32` block, any number of blocks, repeated
assignments (the last one counts) — computes the denotation `eval` under the assignment described
by its argument list (`assignmentOf`; levels that are not assigned are taken as *true*, which is
what the code does with its zero-initialised choices). -/
theorem tdd_eval_walk (n : Nat) (args : List (Nat × Option Bool)) (hargs : ∀ a ∈ args, a.1 < n)
    (f : TD) :
    evalEdge n args f = eval (assignmentOf args) f ∧
    (∀ σ l a b c, eval σ (node l a b c) =
      match σ l with
      | .t => eval σ a
      | .u => eval σ b
      | .f => eval σ c) :=
  ⟨evalEdge_eq n args hargs f, fun _ _ _ _ _ => rfl⟩

/-- For a total assignment `σ` of the `n` levels, `eval_edge` is `eval σ`. -/
theorem tdd_eval_total (n : Nat) (σ : Nat → Tri) (f : TD) (hf : levelsBelow n f) :
    evalEdge n (argsOf σ n) f = eval σ f := by
  rw [evalEdge_eq n _ (mem_argsOf σ n)]
  apply eval_congr _ _ n _ f hf
  intro l hl
  simp only [assignmentOf, lookupArg_argsOf σ n l hl, ofOptBool_toOptBool]

/-- non-vacuity with levels in three different `u32` blocks and a repeated assignment -/
example :
    evalEdge 40 [(17, none), (33, some false), (17, some true), (2, none)]
      (node 2 (leaf .f) (node 17 (node 33 (leaf .f) (leaf .u) (leaf .t)) (leaf .u) (leaf .f)) (leaf .f)) = .t := by
  rw [(tdd_eval_walk 40 _ (by decide) _).1]; decide

/-- **The three cofactors are the children in the order true, unknown, false**; terminals have
none; and on normal forms the children are the restrictions of the root level to true / unknown /
false. -/
theorem tdd_cofactors :
    (∀ v, cofactors (leaf v) = none) ∧
    (∀ l a b c, cofactors (node l a b c) = some (a, b, c)) ∧
    (∀ σ l a b c, NF (node l a b c) →
      eval (update σ l .t) (node l a b c) = eval σ a ∧
      eval (update σ l .u) (node l a b c) = eval σ b ∧
      eval (update σ l .f) (node l a b c) = eval σ c) := by
  refine ⟨fun _ => rfl, fun _ _ _ _ => rfl, ?_⟩
  intro σ l a b c ⟨na, nb, nc, ra, rb, rc, _⟩
  refine ⟨?_, ?_, ?_⟩
  · have : update σ l .t l = .t := by simp [update]
    simp only [eval, this]; exact eval_update_above σ l .t a na ra
  · have : update σ l .u l = .u := by simp [update]
    simp only [eval, this]; exact eval_update_above σ l .u b nb rb
  · have : update σ l .f l = .f := by simp [update]
    simp only [eval, this]; exact eval_update_above σ l .f c nc rc

example : NF (node 0 (var 1) (leaf .u) (var 2)) ∧
    cofactors (node 0 (var 1) (leaf .u) (var 2)) = some (var 1, leaf .u, var 2) := by decide

/-- `not_edge_owned` (trait default, edge-level) computes the same function as `not_edge`. -/
theorem tdd_not_owned_sem (σ : Nat → Tri) (f : TD) : eval σ (notEdgeOwned f) = (eval σ f).not :=
  applyNot_sem σ f

end OxiddModel.Tdd
