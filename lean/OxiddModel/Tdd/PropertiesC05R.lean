import OxiddModel.Tdd.RcSLemmasSem
import OxiddModel.Tdd.PropertiesS

/-!
# C05 / C14 / C11 / C06 — TDDs: reference counters of ternary nodes, node capacity, garbage
collection, `ite`

Property C05: *"the reference count of a node equals the number of live handles plus the number of
stored parent edges; `gc` frees exactly the unreferenced nodes"*. Property C14: *"If an operation
needs more inner nodes than the manager's capacity allows, it returns the out-of-memory error …
releases everything it had acquired"*. Property C11: the TDD operations are the pointwise lifting
of the fixed three-valued logic.

`Tdd/StoreS.lean` … `PropertiesS.lean` prove `apply_not` and the eight connectives on a store
without counters, capacity and collection; `IteS.lean` adds `apply_ite_rec`. Here (`RcS.lean`) the
counters of the ternary inner nodes are state, the store is bounded, and `Manager::gc` is a
function of that state; every `clone_edge` / `drop_edge` / `EdgeDropGuard` of `apply_rec.rs`
(`apply_not`, `apply_bin`, `apply_ite_rec` with the **three** guards `t`, `u`, `e`), `lib.rs`
(`reduce`: `t == u && u == e` ⇒ drop `u`, `e`), `manager.rs` (`get_or_insert`, `add_node`,
`free_slot`, `gc`) and of `TVLFunction::not_edge_owned` is a step.

`RcInv r ext` — for every stored node `i`,
`rc i = 1 + #(.inner i in ext) + #(stored parent edges to i)` (each of the three child edges of a
parent counts). All theorems are generic in the edge order `gt`, the tag assignment, the cache
policy (`Policy.OK`), the capacity and the fuel.
-/
set_option linter.unusedSectionVars false

namespace OxiddModel.Tdd.C05R
open OxiddModel.Tdd OxiddModel.Tdd.TD OxiddModel.Tdd.Refine OxiddModel.Tdd.Rc
open OxiddModel.CachePolicy OxiddModel

/-! ## the primitives -/

/-- the empty manager satisfies the invariant -/
theorem rcinv_empty : RcInv RSt.empty [] where
  ext_ok _ h := by cases h
  kids_ok i n h := by simp [RSt.empty, Store.get?, Store.empty, Slots.get?] at h
  cache_ok _ _ h := by cases h
  rc_eq i n h := by simp [RSt.empty, Store.get?, Store.empty, Slots.get?] at h

/-- **`clone_edge`** of an owned edge: one more external reference. -/
theorem clone_rc {r : RSt} {ext : List Edge} {x : Edge} (h : RcInv r ext) (hx : x ∈ ext) :
    RcInv (cloneEdge r x) (x :: ext) := cloneEdge_rc h (h.ext_ok x hx)

/-- **`drop_edge`** of an owned edge: one external reference less; for an edge to an inner node the
counter does not underflow — `debug_assert!(_old_rc > 1)` in `Store::drop_edge` holds. -/
theorem drop_rc {r : RSt} {ext : List Edge} {x : Edge} (h : RcInv r (x :: ext)) :
    RcInv (dropEdge r x) ext ∧ ∀ i, x = .inner i → 2 ≤ rcGet r.rc i :=
  ⟨dropEdge_rc h, fun i hi => by subst hi; exact dropEdge_no_underflow h⟩

/-- **`reduce`** = reduction rule + `get_or_insert` + `add_node` for ternary nodes: the three
owned children are consumed. Reduction (`t == u && u == e`: `u` and `e` dropped, `t` returned),
unique-table hit (all three dropped, the found node retained), allocation (all three move into the
node, `rc = 2`) and **OutOfMemory** (all three dropped) all leave exact counters. -/
theorem mkNodeR_rc_exact (cap : Option Nat) (r : RSt) (l : Nat) (t u e : Edge) (ext : List Edge)
    (h : RcInv r (t :: u :: e :: ext)) :
    match mkNodeR cap r l t u e with
    | (some x, r') => RcInv r' (x :: ext)
    | (none, r') => RcInv r' ext := mkNodeR_rc h

/-! ## the algorithms -/

/-- **`notR_rc_exact`.** `apply_not` with a borrowed operand pointing to a stored node: after a
successful run the counters are exact for the caller's references plus the result; after
OutOfMemory at **any** allocation point (first, second, third recursive call, `reduce`) for the
caller's references alone. The store is only extended. -/
theorem notR_rc_exact {p : APolicy} (pok : p.OK) (cap : Option Nat) (fuel : Nat) (r : RSt)
    (f : Edge) (ext : List Edge) (h : RcInv r ext) (hf : Has r.st.store f) :
    r.st.store.Le (notR cap p fuel r f).2.st.store ∧
    match notR cap p fuel r f with
    | (some x, r') => RcInv r' (x :: ext)
    | (none, r') => RcInv r' ext := notR_rc pok cap fuel r f ext h hf

/-- **`applyR_rc_exact`.** `apply_bin::<OP>` (eight connectives, with the delegations to
`apply_not`): exact counters on success (`result :: ext`) and after OutOfMemory anywhere (`ext`). -/
theorem applyR_rc_exact (gt : Edge → Edge → Bool) (tg : BinOp → TDDOp) {p : APolicy}
    (pok : p.OK) (cap : Option Nat) (op : BinOp) (fuel : Nat) (r : RSt) (f g : Edge)
    (ext : List Edge) (h : RcInv r ext) (hf : Has r.st.store f) (hg : Has r.st.store g) :
    r.st.store.Le (applyR gt tg cap p op fuel r f g).2.st.store ∧
    match applyR gt tg cap p op fuel r f g with
    | (some x, r') => RcInv r' (x :: ext)
    | (none, r') => RcInv r' ext := applyR_rc gt tg pok cap op fuel r f g ext h hf hg

/-- … in particular for operands the caller owns -/
theorem applyR_rc_owned (gt : Edge → Edge → Bool) (tg : BinOp → TDDOp) {p : APolicy}
    (pok : p.OK) (cap : Option Nat) (op : BinOp) (fuel : Nat) (r : RSt) (f g : Edge)
    (ext : List Edge) (h : RcInv r ext) (hf : f ∈ ext) (hg : g ∈ ext) :
    match applyR gt tg cap p op fuel r f g with
    | (some x, r') => RcInv r' (x :: ext)
    | (none, r') => RcInv r' ext :=
  (applyR_rc_exact gt tg pok cap op fuel r f g ext h (h.ext_ok f hf) (h.ext_ok g hg)).2

/-- **`iteR_rc_exact`.** `apply_ite_rec` — every early return (`clone_edge` of an operand, the
static `U`), every delegation (`or`, `and`, `imp`, `imp_strict`, `not`), a cache hit, and the
three-way recursion with its three guards: exact counters on success and after OutOfMemory at any
allocation point. -/
theorem iteR_rc_exact (gt : Edge → Edge → Bool) (tg : BinOp → TDDOp) {p : APolicy} (pok : p.OK)
    (cap : Option Nat) (fuel : Nat) (r : RSt) (f g k : Edge) (ext : List Edge) (h : RcInv r ext)
    (hf : Has r.st.store f) (hg : Has r.st.store g) (hk : Has r.st.store k) :
    r.st.store.Le (iteR gt tg cap p fuel r f g k).2.st.store ∧
    match iteR gt tg cap p fuel r f g k with
    | (some x, r') => RcInv r' (x :: ext)
    | (none, r') => RcInv r' ext := iteR_rc gt tg pok cap fuel r f g k ext h hf hg hk

/-- `var_edge` -/
theorem varR_rc_exact (cap : Option Nat) (r : RSt) (level : Nat) (ext : List Edge)
    (h : RcInv r ext) :
    match varR cap r level with
    | (some x, r') => RcInv r' (x :: ext)
    | (none, r') => RcInv r' ext := (varR_rc cap r level ext h).2

/-- **`TVLFunction::not_edge_owned`** (as fixed): the caller hands over one owned reference to
`f`; afterwards it owns the result (success) or nothing more (OutOfMemory) — the guard released
`f` on both paths. -/
theorem notEdgeOwnedR_rc_exact {p : APolicy} (pok : p.OK) (cap : Option Nat) (fuel : Nat)
    (r : RSt) (f : Edge) (ext : List Edge) (h : RcInv r (f :: ext)) :
    match notEdgeOwnedR cap p fuel r f with
    | (some x, r') => RcInv r' (x :: ext)
    | (none, r') => RcInv r' ext := (notEdgeOwnedR_rc pok cap fuel r f ext h).2

/-! ## erasure: without counters and capacity these are the algorithms of `StoreS.lean`/`IteS.lean` -/

/-- every run of `notR` that does not fail — whatever the capacity — *is* the run of the
counter-free `notS`: same edge, same node table, same cache, same time stamp. -/
theorem notR_erase (cap : Option Nat) (p : APolicy) (fuel : Nat) (r : RSt) (f x : Edge)
    (h : (notR cap p fuel r f).1 = some x) :
    notS p fuel r.st f = ((notR cap p fuel r f).2.st, x) := notR_erase' cap p fuel r f x h

/-- **`applyR_erase`.** -/
theorem applyR_erase (gt : Edge → Edge → Bool) (tg : BinOp → TDDOp) (cap : Option Nat)
    (p : APolicy) (op : BinOp) (fuel : Nat) (r : RSt) (f g x : Edge)
    (h : (applyR gt tg cap p op fuel r f g).1 = some x) :
    applyS gt tg p op fuel r.st f g = ((applyR gt tg cap p op fuel r f g).2.st, x) :=
  applyR_erase' gt tg cap p op fuel r f g x h

/-- **with unbounded capacity no run fails**, so `applyR none` erases to `applyS` for all inputs
(hence `Tdd.StoreLevel.applyS_spec`, `cache_transparent`, `history_spec` transfer). -/
theorem applyR_erase_unbounded (gt : Edge → Edge → Bool) (tg : BinOp → TDDOp) (p : APolicy)
    (op : BinOp) (fuel : Nat) (r : RSt) (f g : Edge) :
    ∃ x, (applyR gt tg none p op fuel r f g).1 = some x ∧
      applyS gt tg p op fuel r.st f g = ((applyR gt tg none p op fuel r f g).2.st, x) := by
  cases h : (applyR gt tg none p op fuel r f g).1 with
  | none => exact absurd h (applyR_unbounded' gt tg p op fuel r f g)
  | some x => exact ⟨x, rfl, applyR_erase gt tg _ p op fuel r f g x h⟩

/-- **`iteR_erase`.** A successful counted, capacity-bounded `apply_ite_rec` is the counter-free
`iteS` of `IteS.lean`. -/
theorem iteR_erase (gt : Edge → Edge → Bool) (tg : BinOp → TDDOp) (cap : Option Nat)
    (p : APolicy) (fuel : Nat) (r : RSt) (f g h x : Edge)
    (hx : (iteR gt tg cap p fuel r f g h).1 = some x) :
    iteS gt tg p fuel r.st f g h = ((iteR gt tg cap p fuel r f g h).2.st, x) :=
  iteR_erase' gt tg cap p fuel r f g h x hx

theorem iteR_erase_unbounded (gt : Edge → Edge → Bool) (tg : BinOp → TDDOp) (p : APolicy)
    (fuel : Nat) (r : RSt) (f g h : Edge) :
    ∃ x, (iteR gt tg none p fuel r f g h).1 = some x ∧
      iteS gt tg p fuel r.st f g h = ((iteR gt tg none p fuel r f g h).2.st, x) := by
  cases hx : (iteR gt tg none p fuel r f g h).1 with
  | none => exact absurd hx (iteR_unbounded' gt tg p fuel r f g h)
  | some x => exact ⟨x, rfl, iteR_erase gt tg _ p fuel r f g h x hx⟩

/-- `var_edge` erases to `varS` (`HistoryS.lean`) -/
theorem varR_erase (cap : Option Nat) (r : RSt) (l : Nat) (x : Edge)
    (h : (varR cap r l).1 = some x) :
    varS r.st.store l = ((varR cap r l).2.st.store, x) := (varR_erase' cap r l x h).1

/-- `not_edge_owned` computes what `apply_not` computes -/
theorem notEdgeOwnedR_erase (cap : Option Nat) (p : APolicy) (fuel : Nat) (r : RSt) (f x : Edge)
    (h : (notEdgeOwnedR cap p fuel r f).1 = some x) :
    notS p fuel r.st f = ((notEdgeOwnedR cap p fuel r f).2.st, x) :=
  notEdgeOwnedR_erase' cap p fuel r f x h

/-! ## transfer of the semantic theorems (C11 / C06) to the counted, bounded algorithms -/

/-- transfer of `Tdd.StoreLevel.applyS_spec`: a successful counted, capacity-bounded run returns
an edge denoting `applyBin gtT op a b` — whatever the cache and the capacity — and keeps hash
consing and the cache sound -/
theorem applyR_correct (gt : Edge → Edge → Bool) (gtT : TD → TD → Bool) {p : APolicy} (pok : p.OK)
    (cap : Option Nat) (op : BinOp) (fuel : Nat) (r : RSt) (f g x : Edge) (a b : TD)
    (hu : r.st.store.Unique) (hc : CacheOK gtT r.st.store r.st.cache)
    (hf : Denotes r.st.store f a) (hg : Denotes r.st.store g b) (hfuel : a.size + b.size ≤ fuel)
    (hx : (applyR gt BinOp.tag cap p op fuel r f g).1 = some x) :
    let r' := (applyR gt BinOp.tag cap p op fuel r f g).2
    Denotes r'.st.store x (applyBin gtT op a b) ∧ r'.st.store.Unique ∧
      CacheOK gtT r'.st.store r'.st.cache := by
  have e := applyR_erase gt BinOp.tag cap p op fuel r f g x hx
  have P := StoreLevel.applyS_spec gt gtT pok op fuel r.st f g a b hu hc hf hg hfuel
  simp only [e] at P
  exact ⟨P.1, P.2.2.1, P.2.2.2⟩

/-- **`iteR_correct`**: transfer of `Tdd.StoreLevel.iteS_spec` (`IteS.lean`) -/
theorem iteR_correct (gt : Edge → Edge → Bool) (gtT : TD → TD → Bool) {p : APolicy} (pok : p.OK)
    (cap : Option Nat) (fuel : Nat) (r : RSt) (f g h x : Edge) (a b c : TD)
    (hu : r.st.store.Unique) (hc : CacheOK gtT r.st.store r.st.cache)
    (hf : Denotes r.st.store f a) (hg : Denotes r.st.store g b) (hh : Denotes r.st.store h c)
    (hfuel : a.size + b.size + c.size ≤ fuel)
    (hx : (iteR gt BinOp.tag cap p fuel r f g h).1 = some x) :
    let r' := (iteR gt BinOp.tag cap p fuel r f g h).2
    Denotes r'.st.store x (applyIte gtT a b c) ∧ r'.st.store.Unique ∧
      CacheOK gtT r'.st.store r'.st.cache := by
  have e := iteR_erase gt BinOp.tag cap p fuel r f g h x hx
  have P := StoreLevel.iteS_spec gt gtT pok fuel r.st f g h a b c hu hc hf hg hh hfuel
  simp only [e] at P
  exact ⟨P.1, P.2.2.1, P.2.2.2⟩

/-- … hence the value of the result of a successful counted `ite` under every three-valued
assignment is the stated `ite` table applied to the operands' values (C11) -/
theorem iteR_sem (gt : Edge → Edge → Bool) (gtT : TD → TD → Bool) {p : APolicy} (pok : p.OK)
    (cap : Option Nat) (fuel : Nat) (r : RSt) (f g h x : Edge) (a b c : TD)
    (hu : r.st.store.Unique) (hc : CacheOK gtT r.st.store r.st.cache)
    (hf : Denotes r.st.store f a) (hg : Denotes r.st.store g b) (hh : Denotes r.st.store h c)
    (hfuel : a.size + b.size + c.size ≤ fuel)
    (hx : (iteR gt BinOp.tag cap p fuel r f g h).1 = some x) :
    ∃ t, Denotes (iteR gt BinOp.tag cap p fuel r f g h).2.st.store x t ∧
      ∀ σ, eval σ t = Tri.ite (eval σ a) (eval σ b) (eval σ c) :=
  ⟨_, (iteR_correct gt gtT pok cap fuel r f g h x a b c hu hc hf hg hh hfuel hx).1,
    fun σ => applyIte_sem gtT a b c σ⟩

/-- `apply_not` -/
theorem notR_correct (gtT : TD → TD → Bool) {p : APolicy} (pok : p.OK) (cap : Option Nat)
    (fuel : Nat) (r : RSt) (f x : Edge) (a : TD) (hu : r.st.store.Unique)
    (hc : CacheOK gtT r.st.store r.st.cache) (hf : Denotes r.st.store f a) (hfuel : a.size ≤ fuel)
    (hx : (notR cap p fuel r f).1 = some x) :
    let r' := (notR cap p fuel r f).2
    Denotes r'.st.store x (applyNot a) ∧ r'.st.store.Unique ∧
      CacheOK gtT r'.st.store r'.st.cache := by
  have e := notR_erase cap p fuel r f x hx
  have P := StoreLevel.notS_spec gtT pok fuel r.st f a hu hc hf hfuel
  simp only [e] at P
  exact ⟨P.1, P.2.2.1, P.2.2.2⟩

/-- **a failed operation is clean (C14)**: after OutOfMemory anywhere in `apply_ite_rec` the store
is only extended — every edge denotes what it denoted — and the counters are exact for the
caller's references -/
theorem iteR_error_clean (gt : Edge → Edge → Bool) (tg : BinOp → TDDOp) {p : APolicy}
    (pok : p.OK) (cap : Option Nat) (fuel : Nat) (r : RSt) (f g k : Edge) (ext : List Edge)
    (hi : RcInv r ext) (hfe : f ∈ ext) (hge : g ∈ ext) (hke : k ∈ ext)
    (herr : (iteR gt tg cap p fuel r f g k).1 = none) :
    RcInv (iteR gt tg cap p fuel r f g k).2 ext ∧
    (∀ x a, Denotes r.st.store x a → Denotes (iteR gt tg cap p fuel r f g k).2.st.store x a) := by
  have := iteR_rc_exact gt tg pok cap fuel r f g k ext hi (hi.ext_ok f hfe) (hi.ext_ok g hge)
    (hi.ext_ok k hke)
  refine ⟨?_, fun x a hd => hd.mono this.1⟩
  have h2 := this.2
  cases hR : iteR gt tg cap p fuel r f g k with
  | mk o r' =>
    rw [hR] at h2 herr
    simp only at herr
    subst herr
    exact h2

/-- the same for the binary connectives -/
theorem applyR_error_clean (gt : Edge → Edge → Bool) (tg : BinOp → TDDOp) {p : APolicy}
    (pok : p.OK) (cap : Option Nat) (op : BinOp) (fuel : Nat) (r : RSt) (f g : Edge)
    (ext : List Edge) (hi : RcInv r ext) (hfe : f ∈ ext) (hge : g ∈ ext)
    (herr : (applyR gt tg cap p op fuel r f g).1 = none) :
    RcInv (applyR gt tg cap p op fuel r f g).2 ext ∧
    (∀ x a, Denotes r.st.store x a → Denotes (applyR gt tg cap p op fuel r f g).2.st.store x a) := by
  have := applyR_rc_exact gt tg pok cap op fuel r f g ext hi (hi.ext_ok f hfe) (hi.ext_ok g hge)
  refine ⟨?_, fun x a hd => hd.mono this.1⟩
  have h2 := this.2
  cases hR : applyR gt tg cap p op fuel r f g with
  | mk o r' =>
    rw [hR] at h2 herr
    simp only at herr
    subst herr
    exact h2

/-! ## garbage collection driven by the counters -/

/-- **`gcR_sound`** (any store, ordered or not): `Manager::gc` — cache cleared, level-wise sweep
of the nodes with `rc == 1` releasing their three children — keeps all counters exact, clears the
cache, creates and changes nothing, removes no node reachable from an external edge, and every
external edge denotes what it denoted. -/
theorem gcR_sound (N : Nat) (r : RSt) (ext : List Edge) (h : RcInv r ext) :
    RcInv (gcR N r) ext ∧ (gcR N r).st.cache = [] ∧ Sub (gcR N r).st.store r.st.store ∧
    (∀ x, Reach r.st.store ext x → Has (gcR N r).st.store x) ∧
    (∀ x a, x ∈ ext → Denotes r.st.store x a → Denotes (gcR N r).st.store x a) :=
  ⟨(gcR_rc N h).1, (gcR_rc N h).2, gcR_sub N r, fun _ hr => gcR_keeps_reach N h hr,
    fun _ _ hx hd => gcR_denotes N h hd (.root hx)⟩

/-- **`gcR_exact`.** If moreover the store is ordered (inner children on strictly larger levels —
the reason why one pass from the top level down suffices) and every level is visited, what remains
is **exactly** what is reachable from the external edges: a node is freed iff no handle and no
surviving parent references it. -/
theorem gcR_exact (N : Nat) (r : RSt) (ext : List Edge) (h : RcInv r ext)
    (ho : Rc.Ordered r.st.store) (hl : ∀ i n, r.st.store.get? i = some n → n.level < N) :
    RcInv (gcR N r) ext ∧
    (∀ i, (∃ n, (gcR N r).st.store.get? i = some n) ↔ Reach r.st.store ext (.inner i)) ∧
    Sub (gcR N r).st.store r.st.store ∧
    (∀ x a, x ∈ ext → Denotes r.st.store x a → Denotes (gcR N r).st.store x a) := by
  obtain ⟨h1, _, h3, h4, h5⟩ := gcR_sound N r ext h
  exact ⟨h1, fun i => ⟨fun ⟨n, hn⟩ => gcR_complete N h ho hl hn, fun hr => h4 _ hr⟩, h3, h5⟩

theorem reach_nil {s : Store} {x : Edge} (h : Reach s [] x) : False := by
  induction h with
  | root hm => cases hm
  | kid _ _ _ ih => exact ih

theorem slotCount_zero {α : Type} {a : Array (Option α)} (h : ∀ i, Slots.get? a i = none) :
    slotCount a = 0 := by
  unfold slotCount
  rw [Array.countP_eq_zero]
  intro o ho'
  obtain ⟨k, hk, hko⟩ := Array.mem_iff_getElem.mp ho'
  have := h k
  simp only [Slots.get?, hk, Array.getElem?_eq_getElem, Option.join_some] at this
  rw [hko] at this
  simp [this]

/-- **`all_dropped_empty`**: when every handle has been dropped, one collection leaves **zero
inner nodes**. -/
theorem all_dropped_empty (N : Nat) (r : RSt) (h : RcInv r [])
    (ho : Rc.Ordered r.st.store) (hl : ∀ i n, r.st.store.get? i = some n → n.level < N) :
    (gcR N r).numInner = 0 := by
  apply slotCount_zero
  intro i
  cases hi : Slots.get? (gcR N r).st.store.nodes i with
  | none => rfl
  | some n => exact (reach_nil (gcR_complete N h ho hl (i := i) (n := n) hi)).elim

/-! ## histories -/

/-- **`rc_history`.** Starting from a state with exact counters (e.g. the empty manager), after
**every** sequence of commands — `const`, `var`, `not`, `not_edge_owned`, the eight binary
connectives, `ite` (each under its own capacity: successful or failing with OutOfMemory anywhere),
`clone`, `drop`, `gc` — the counter of every stored node equals
`1 + handles + stored parent edges`. -/
theorem rc_history {E : Env} (pok : E.p.OK) (cmds : List Rc.Cmd) (h : HSt)
    (hi : RcInv h.r h.hs) : RcInv (runAll E cmds h).r (runAll E cmds h).hs :=
  runAll_rc pok cmds h hi

theorem rc_history_empty {E : Env} (pok : E.p.OK) (cmds : List Rc.Cmd) :
    RcInv (runAll E cmds ⟨RSt.empty, []⟩).r (runAll E cmds ⟨RSt.empty, []⟩).hs :=
  rc_history pok cmds ⟨RSt.empty, []⟩ rcinv_empty

theorem ordinv_empty (N : Nat) : OrdInv N RSt.empty where
  ord i n j m h := by simp [RSt.empty, Store.get?, Store.empty, Slots.get?] at h
  bound i n h := by simp [RSt.empty, Store.get?, Store.empty, Slots.get?] at h
  cache _ _ h := by cases h

/-- **`iteR_ordered`.** `apply_ite_rec` keeps the store ordered, all levels below the number of
levels and the cache level-respecting — on success and on failure; the result lies on a level `≥`
the top level of the operands (terminals count as level ∞). -/
theorem iteR_ordered (gt : Edge → Edge → Bool) (tg : BinOp → TDDOp) {p : APolicy} (pok : p.OK)
    (N : Nat) (cap : Option Nat) (fuel : Nat) (r : RSt) (f g k : Edge) (ext : List Edge)
    (L' : Nat) (h : RcInv r ext) (ho : OrdInv N r) (hf : Above r.st.store L' f)
    (hg : Above r.st.store L' g) (hk : Above r.st.store L' k) :
    OrdInv N (iteR gt tg cap p fuel r f g k).2 ∧
    ∀ x, (iteR gt tg cap p fuel r f g k).1 = some x →
      Above (iteR gt tg cap p fuel r f g k).2.st.store L' x :=
  iteR_ord gt tg pok N cap fuel r f g k ext L' h ho hf hg hk

/-- **`ord_history`.** Along every history whose variables are created on levels `< N`, the
counters stay exact *and* the store stays ordered with all levels `< N`. -/
theorem ord_history {E : Env} (pok : E.p.OK) (N : Nat) (cmds : List Rc.Cmd)
    (hok : ∀ c ∈ cmds, c.OK N) :
    RcInv (runAll E cmds ⟨RSt.empty, []⟩).r (runAll E cmds ⟨RSt.empty, []⟩).hs ∧
    OrdInv N (runAll E cmds ⟨RSt.empty, []⟩).r :=
  runAll_ord pok cmds ⟨RSt.empty, []⟩ hok rcinv_empty (ordinv_empty N)

/-- **`gc_history_exact`.** After *any* history (operations succeeding or failing with
OutOfMemory, clones, drops, earlier collections) a collection over the `N` levels keeps exactly
the nodes reachable from the live handles, with exact counters, and every handle denotes what it
denoted — no hypothesis on the state is left. -/
theorem gc_history_exact {E : Env} (pok : E.p.OK) (N : Nat) (cmds : List Rc.Cmd)
    (hok : ∀ c ∈ cmds, c.OK N) :
    let h := runAll E cmds ⟨RSt.empty, []⟩
    RcInv (gcR N h.r) h.hs ∧
    (∀ i, (∃ n, (gcR N h.r).st.store.get? i = some n) ↔ Reach h.r.st.store h.hs (.inner i)) ∧
    Sub (gcR N h.r).st.store h.r.st.store ∧
    (∀ x a, x ∈ h.hs → Denotes h.r.st.store x a → Denotes (gcR N h.r).st.store x a) := by
  intro h
  obtain ⟨hi, ho⟩ := ord_history (E := E) pok N cmds hok
  exact gcR_exact N h.r h.hs hi ho.ord ho.bound

/-- after any history, dropping all handles and collecting leaves no inner node -/
theorem all_dropped_empty_history {E : Env} (pok : E.p.OK) (N : Nat) (cmds : List Rc.Cmd)
    (hok : ∀ c ∈ cmds, c.OK N) (hnone : (runAll E cmds ⟨RSt.empty, []⟩).hs = []) :
    (gcR N (runAll E cmds ⟨RSt.empty, []⟩).r).numInner = 0 := by
  obtain ⟨hi, ho⟩ := ord_history (E := E) pok N cmds hok
  rw [hnone] at hi
  exact all_dropped_empty N _ hi ho.ord ho.bound

/-! ## non-vacuity and negative witnesses (index edge order, the code's tags, ideal cache) -/

/-- the environment of the real TDD index manager with an arbitrary admissible cache -/
def idxEnv (p : APolicy) : Env := ⟨Edge.gtIdx, BinOp.tag, p⟩

def exE : Env := idxEnv Policy.exact

/-- `x0`, `x1`, the constant `U`; `ite(x0, x1, U)` under capacity 3: the unknown child
`ite(U, x1, U) = (v1 U U F)` is allocated (third node), the root `(v0 x1 (v1 U U F) U)` does not
fit: **OutOfMemory in `reduce` after the three recursive calls** — `(v1 U U F)` stays as garbage;
the same `ite` under capacity 4 succeeds; drop it; collect. -/
def exCmds : List Rc.Cmd :=
  [.var (some 3) 0, .var (some 3) 1, .const .u, .ite (some 3) 20 2 1 0, .ite (some 4) 20 2 1 0,
   .drop 0, .gc 2]

def exRun (k : Nat) : HSt := runAll exE (exCmds.take k) ⟨RSt.empty, []⟩

def xNode (l : Nat) : Node := ⟨l, .term .t, .term .u, .term .f⟩

/-- after the failed operation: handles unchanged, garbage node #2 = `(v1 U U F)` with counter 1 -/
example : (exRun 4).hs = [.term .u, .inner 1, .inner 0] ∧
    (exRun 4).r.st.store.nodes = #[some (xNode 0), some (xNode 1),
      some ⟨1, .term .u, .term .u, .term .f⟩] ∧
    (exRun 4).r.rc = #[2, 2, 1] := by decide +kernel

example : RcInv (exRun 4).r (exRun 4).hs := rc_history_empty (E := exE) Policy.exact_ok _

/-- the successful `ite` allocates node #3 = `(v0 x1 #2 U)`: `x1` and `#2` gain a parent edge;
after `drop` and `gc`: exactly `x0`, `x1` remain (the level-0 sweep frees #3 and releases its
children, the level-1 sweep then frees #2) -/
example : (exRun 5).hs = [.inner 3, .term .u, .inner 1, .inner 0] ∧ (exRun 5).r.rc = #[2, 3, 2, 2] ∧
    (exRun 7).hs = [.term .u, .inner 1, .inner 0] ∧
    (exRun 7).r.st.store.nodes = #[some (xNode 0), some (xNode 1), none, none] ∧
    (exRun 7).r.rc = #[2, 2, 1, 1] ∧ (exRun 7).r.numInner = 2 := by decide +kernel

/-- the hypothesis of `ord_history` / `gc_history_exact` holds for the example history -/
example : ∀ c ∈ exCmds, c.OK 2 := by
  intro c hc
  simp only [exCmds, List.mem_cons, List.mem_nil_iff, or_false] at hc
  rcases hc with rfl | rfl | rfl | rfl | rfl | rfl | rfl <;> simp [Rc.Cmd.OK]

/-- dropping everything and collecting leaves nothing -/
example : (runAll exE (exCmds ++ [.drop 0, .drop 0, .drop 0, .gc 2]) ⟨RSt.empty, []⟩).hs = [] ∧
    (runAll exE (exCmds ++ [.drop 0, .drop 0, .drop 0, .gc 2]) ⟨RSt.empty, []⟩).r.numInner = 0 := by
  decide +kernel

/-- success and failure of the same operation: `ite(x0, x1, U)` needs 2 new nodes -/
example :
    ((iteR Edge.gtIdx BinOp.tag (some 4) Policy.exact 20 (exRun 3).r (.inner 0) (.inner 1) (.term .u)).1
      = some (.inner 3)) ∧
    ((iteR Edge.gtIdx BinOp.tag (some 3) Policy.exact 20 (exRun 3).r (.inner 0) (.inner 1) (.term .u)).1
      = none) ∧
    ((iteR Edge.gtIdx BinOp.tag (some 2) Policy.exact 20 (exRun 3).r (.inner 0) (.inner 1) (.term .u)).1
      = none) := by
  decide +kernel

/-- non-vacuity of `iteR_error_clean`: the failing run above, from a state with exact counters -/
example : RcInv (iteR Edge.gtIdx BinOp.tag (some 3) Policy.exact 20 (exRun 3).r (.inner 0) (.inner 1)
    (.term .u)).2 (exRun 3).hs :=
  (iteR_error_clean Edge.gtIdx BinOp.tag Policy.exact_ok (some 3) 20 (exRun 3).r
    (.inner 0) (.inner 1) (.term .u) (exRun 3).hs (rc_history_empty (E := exE) Policy.exact_ok _)
    (by decide +kernel) (by decide +kernel) (by decide +kernel) (by decide +kernel)).1

/-- non-vacuity of `iteR_erase`: the counted bounded run and the counter-free run agree -/
example : (iteS Edge.gtIdx BinOp.tag Policy.exact 20 (exRun 3).r.st (.inner 0) (.inner 1) (.term .u)).2
    = .inner 3 := by
  decide +kernel


/-! ## the semantic invariant along counted histories — failures and collections included -/

/-- **`iteR_keeps_inv`** (C14: *a failed operation leaves the manager intact*). Every run of the
counted, capacity-bounded `apply_ite_rec` — successful **or failing with OutOfMemory at any
allocation point** — from a hash-consed store with a sound cache leaves a hash-consed store with a
sound cache (the garbage nodes and the cache entries of the completed sub-results are sound), and
only extends the store. -/
theorem iteR_keeps_inv (gt : Edge → Edge → Bool) (gtT : TD → TD → Bool) {p : APolicy} (pok : p.OK)
    (cap : Option Nat) (fuel : Nat) (r : RSt) (f g h : Edge) (a b c : TD)
    (hu : r.st.store.Unique) (hc : CacheOK gtT r.st.store r.st.cache)
    (hf : Denotes r.st.store f a) (hg : Denotes r.st.store g b) (hh : Denotes r.st.store h c)
    (hfuel : a.size + b.size + c.size ≤ fuel) :
    let r' := (iteR gt BinOp.tag cap p fuel r f g h).2
    r'.st.store.Unique ∧ CacheOK gtT r'.st.store r'.st.cache ∧ r.st.store.Le r'.st.store :=
  have S := Rc.iteR_sem gt gtT pok cap fuel r f g h a b c ⟨hu, hc⟩ hf hg hh hfuel
  ⟨S.1.1, S.1.2, S.2⟩

/-- the same for the eight binary connectives -/
theorem applyR_keeps_inv (gt : Edge → Edge → Bool) (gtT : TD → TD → Bool) {p : APolicy}
    (pok : p.OK) (cap : Option Nat) (op : BinOp) (fuel : Nat) (r : RSt) (f g : Edge) (a b : TD)
    (hu : r.st.store.Unique) (hc : CacheOK gtT r.st.store r.st.cache)
    (hf : Denotes r.st.store f a) (hg : Denotes r.st.store g b) (hfuel : a.size + b.size ≤ fuel) :
    let r' := (applyR gt BinOp.tag cap p op fuel r f g).2
    r'.st.store.Unique ∧ CacheOK gtT r'.st.store r'.st.cache ∧ r.st.store.Le r'.st.store :=
  have S := Rc.applyR_sem gt gtT pok cap op fuel r f g a b ⟨hu, hc⟩ hf hg hfuel
  ⟨S.1.1, S.1.2, S.2⟩

theorem seminv_empty (gtT : TD → TD → Bool) : SemInv gtT ⟨RSt.empty, []⟩ where
  inv := ⟨Store.empty_unique, CacheOK.nil _ _⟩
  handles _ h := by cases h

/-- **`sem_history`.** After **every** history from the empty manager — `const`, `var`, `not`,
`not_edge_owned`, the eight connectives, `ite`, each under its own capacity (succeeding or failing
with OutOfMemory anywhere), `clone`, `drop`, `gc` — with fuels covering the operand sizes: the
counters are exact, the store is hash consed, the apply cache is sound, and every live handle
denotes a normal-form tree. -/
theorem sem_history (gtT : TD → TD → Bool) {p : APolicy} (pok : p.OK) (gt : Edge → Edge → Bool)
    (cmds : List Rc.Cmd) (hf : FuelAll ⟨gt, BinOp.tag, p⟩ cmds ⟨RSt.empty, []⟩) :
    let h := runAll ⟨gt, BinOp.tag, p⟩ cmds ⟨RSt.empty, []⟩
    RcInv h.r h.hs ∧ h.r.st.store.Unique ∧ CacheOK gtT h.r.st.store h.r.st.cache ∧
      ∀ e ∈ h.hs, ∃ t, Denotes h.r.st.store e t ∧ NF t := by
  intro h
  obtain ⟨h1, h2⟩ := runAll_sem gtT (E := ⟨gt, BinOp.tag, p⟩) rfl pok cmds ⟨RSt.empty, []⟩
    rcinv_empty (seminv_empty gtT) hf
  exact ⟨h1, h2.inv.1, h2.inv.2, h2.handles⟩

/-- **`canon_history`** (C01 on the counted TDD manager): after every such history two live
handles are **equal iff they denote the same three-valued function** — whatever failed, was
collected or was served from the cache in between. -/
theorem canon_history (gtT : TD → TD → Bool) {p : APolicy} (pok : p.OK) (gt : Edge → Edge → Bool)
    (cmds : List Rc.Cmd) (hf : FuelAll ⟨gt, BinOp.tag, p⟩ cmds ⟨RSt.empty, []⟩)
    (x y : Edge) (a b : TD)
    (hx : x ∈ (runAll ⟨gt, BinOp.tag, p⟩ cmds ⟨RSt.empty, []⟩).hs)
    (hy : y ∈ (runAll ⟨gt, BinOp.tag, p⟩ cmds ⟨RSt.empty, []⟩).hs)
    (da : Denotes (runAll ⟨gt, BinOp.tag, p⟩ cmds ⟨RSt.empty, []⟩).r.st.store x a)
    (db : Denotes (runAll ⟨gt, BinOp.tag, p⟩ cmds ⟨RSt.empty, []⟩).r.st.store y b) :
    x = y ↔ ∀ σ, eval σ a = eval σ b := by
  obtain ⟨_, hu, _, hh⟩ := sem_history gtT pok gt cmds hf
  obtain ⟨a', da', na⟩ := hh x hx
  obtain ⟨b', db', nb⟩ := hh y hy
  rw [Denotes.functional da da', Denotes.functional db db']
  exact StoreLevel.handle_eq_iff hu da' db' na nb

/-- **`op_keeps_handles`.** No command changes what an existing handle denotes: not an operation
that fails with OutOfMemory, not a collection. -/
theorem op_keeps_handles {E : Env} (pok : E.p.OK) (c : Rc.Cmd) (h : HSt) (hrc : RcInv h.r h.hs)
    (e : Edge) (he : e ∈ h.hs) (t : TD) (hd : Denotes h.r.st.store e t) :
    Denotes (c.run E h).r.st.store e t := Cmd.run_keeps pok c h hrc e he t hd

/-- non-vacuity of `sem_history` / `canon_history`: the fuels of the example history (which
contains a failing `ite`, a successful one, a drop and a collection) suffice -/
theorem exCmds_fuel : FuelAll exE exCmds ⟨RSt.empty, []⟩ :=
  fuelAll_of_B exE exCmds _ (by decide +kernel)

example : (runAll exE exCmds ⟨RSt.empty, []⟩).r.st.store.Unique :=
  (sem_history (fun _ _ => false) Policy.exact_ok Edge.gtIdx exCmds exCmds_fuel).2.1

/-! ### negative witness 1: `not_edge_owned` that forgets to drop its argument (the historical
defect of `TVLFunction::not_edge_owned`, repaired in e34177a) -/

/-- `x0` stored, one handle -/
def exX0 : RSt := ⟨⟨⟨#[some (xNode 0)]⟩, [], 0⟩, #[2]⟩

example : rcCheck exX0 [.inner 0] = true := by decide +kernel

/-- the fixed method: the caller clones its handle, hands the clone over, and owns the result and
its old handle afterwards — exact counters -/
example : (notEdgeOwnedR none Policy.exact 5 (cloneEdge exX0 (.inner 0)) (.inner 0)).1 = some (.inner 1) ∧
    rcCheck (notEdgeOwnedR none Policy.exact 5 (cloneEdge exX0 (.inner 0)) (.inner 0)).2
      [.inner 1, .inner 0] = true := by decide +kernel

/-- **`leak_violates_rcinv`.** With the historical `not_edge_owned` (no `EdgeDropGuard` around the
owned argument, `notEdgeOwnedLeak`) the invariant is violated after the call: `x0` keeps a
reference nobody owns (counter 3 with one handle and no parent) — and it survives every later
collection although no handle is left, whereas with the fixed method nothing remains. -/
theorem leak_violates_rcinv :
    (notEdgeOwnedLeak none Policy.exact 5 (cloneEdge exX0 (.inner 0)) (.inner 0)).1 = some (.inner 1) ∧
    ¬ RcInv (notEdgeOwnedLeak none Policy.exact 5 (cloneEdge exX0 (.inner 0)) (.inner 0)).2
      [.inner 1, .inner 0] ∧
    (gcR 1 (dropEdge (dropEdge (notEdgeOwnedLeak none Policy.exact 5 (cloneEdge exX0 (.inner 0))
      (.inner 0)).2 (.inner 1)) (.inner 0))).numInner = 1 ∧
    (gcR 1 (dropEdge (dropEdge (notEdgeOwnedR none Policy.exact 5 (cloneEdge exX0 (.inner 0))
      (.inner 0)).2 (.inner 1)) (.inner 0))).numInner = 0 := by
  refine ⟨by decide +kernel, fun h => ?_, by decide +kernel, by decide +kernel⟩
  have := rcCheck_of_inv h
  revert this
  decide +kernel

/-! ### negative witness 2: children leaked on OutOfMemory in `reduce` (middle of a ternary node) -/

/-- a full store (capacity 2) holding `x0`, `x1`, one handle each; a running operation owns clones
of `x1`, `x0` and is about to call `reduce(level 0, x1, x0, U)` -/
def exFull : RSt := ⟨⟨⟨#[some (xNode 0), some (xNode 1)]⟩, [], 0⟩, #[3, 3]⟩

example : rcCheck exFull [.inner 1, .inner 0, .inner 0, .inner 1] = true := by decide +kernel

/-- the real `add_node` drops the three children of the rejected node -/
example : (mkNodeR (some 2) exFull 0 (.inner 1) (.inner 0) (.term .u)).1 = none ∧
    rcCheck (mkNodeR (some 2) exFull 0 (.inner 1) (.inner 0) (.term .u)).2 [.inner 0, .inner 1] = true := by
  decide +kernel

/-- **`oom_leak_violates_rcinv`.** With `add_node` returning the error *without* dropping the
children (`mkNodeLeak`), the invariant is violated after the failed `reduce`, and after all
handles are dropped the two nodes survive the collection. -/
theorem oom_leak_violates_rcinv :
    (mkNodeLeak (some 2) exFull 0 (.inner 1) (.inner 0) (.term .u)).1 = none ∧
    ¬ RcInv (mkNodeLeak (some 2) exFull 0 (.inner 1) (.inner 0) (.term .u)).2 [.inner 0, .inner 1] ∧
    (gcR 2 (dropEdge (dropEdge (mkNodeLeak (some 2) exFull 0 (.inner 1) (.inner 0) (.term .u)).2
      (.inner 0)) (.inner 1))).numInner = 2 ∧
    (gcR 2 (dropEdge (dropEdge (mkNodeR (some 2) exFull 0 (.inner 1) (.inner 0) (.term .u)).2
      (.inner 0)) (.inner 1))).numInner = 0 := by
  refine ⟨by decide +kernel, fun h => ?_, by decide +kernel, by decide +kernel⟩
  have := rcCheck_of_inv h
  revert this
  decide +kernel

/-! ### negative witness 3: a reduction rule that compares only two of the three children -/

/-- **`reduce_two_not_canonical`.** `reduce` testing only `t == u` (`mkNodeTwo`) returns `x1` for
the node `(v0 x1 x1 U)` — an edge whose function differs from the node's at `x0 = F` — where the
real `reduce` allocates the node. (The counters stay exact: this defect is semantic; the stream and
the value-table oracle see it.) -/
theorem reduce_two_not_canonical :
    (mkNodeTwo none exFull 0 (.inner 1) (.inner 1) (.term .u)).1 = some (.inner 1) ∧
    (mkNodeR none exFull 0 (.inner 1) (.inner 1) (.term .u)).1 = some (.inner 2) ∧
    (mkNodeR none exFull 0 (.inner 1) (.inner 1) (.term .u)).2.st.store.get? 2
      = some ⟨0, .inner 1, .inner 1, .term .u⟩ ∧
    eval (fun _ => .f) (.node 0 (TD.var 1) (TD.var 1) (.leaf .u)) ≠ eval (fun _ => .f) (TD.var 1) := by
  refine ⟨by decide +kernel, by decide +kernel, by decide +kernel, by decide⟩

/-! ### negative witness 4: the order of the level sweeps -/

/-- `x0 ∧ x1 = (v0 x1 (v1 U U F) F)` created and dropped together with `x1`: the dead root on
level 0 holds the only references to the dead `x1` and `(v1 U U F)` on level 1 -/
def exDeadCmds : List Rc.Cmd := [.var none 0, .var none 1, .bin none 20 .and 1 0, .drop 0, .drop 0]

def exDead : HSt := runAll exE exDeadCmds ⟨RSt.empty, []⟩

/-- **`bottom_up_leaves_garbage`.** One pass suffices only from the top level down: visiting
level 1 before level 0 leaves `x1` and `(v1 U U F)` stored (their counters still show the parent
edges of the dead root when their level is swept), while `Manager::gc`'s order frees all three. -/
theorem bottom_up_leaves_garbage :
    exDead.hs = [.inner 0] ∧ exDead.r.numInner = 4 ∧
    (gcR 2 exDead.r).numInner = 1 ∧ (gcBottomUp 2 exDead.r).numInner = 3 := by
  decide +kernel

theorem exDeadCmds_ok : ∀ c ∈ exDeadCmds, c.OK 2 := by
  intro c hc
  simp only [exDeadCmds, List.mem_cons, List.mem_nil_iff, or_false] at hc
  rcases hc with rfl | rfl | rfl | rfl | rfl <;> simp [Rc.Cmd.OK]

/-- non-vacuity of `gcR_exact` / `gc_history_exact`: their hypotheses hold for the history
`exDeadCmds` -/
example : ∀ i, (∃ n, (gcR 2 (runAll exE exDeadCmds ⟨RSt.empty, []⟩).r).st.store.get? i = some n) ↔
    Reach (runAll exE exDeadCmds ⟨RSt.empty, []⟩).r.st.store
      (runAll exE exDeadCmds ⟨RSt.empty, []⟩).hs (.inner i) := by
  have key : ∀ cs : List Rc.Cmd, (∀ c ∈ cs, c.OK 2) →
      ∀ i, (∃ n, (gcR 2 (runAll exE cs ⟨RSt.empty, []⟩).r).st.store.get? i = some n) ↔
        Reach (runAll exE cs ⟨RSt.empty, []⟩).r.st.store (runAll exE cs ⟨RSt.empty, []⟩).hs (.inner i) :=
    fun cs hok => (gc_history_exact (E := exE) Policy.exact_ok 2 cs hok).2.1
  exact key exDeadCmds exDeadCmds_ok

def exAllDropped : List Rc.Cmd := exDeadCmds ++ [.drop 0]

theorem exAllDropped_ok : ∀ c ∈ exAllDropped, c.OK 2 := by
  intro c hc
  simp only [exAllDropped, exDeadCmds, List.cons_append, List.nil_append, List.mem_cons,
    List.mem_nil_iff, or_false] at hc
  rcases hc with rfl | rfl | rfl | rfl | rfl | rfl <;> simp [Rc.Cmd.OK]

theorem exAllDropped_none : (runAll exE exAllDropped ⟨RSt.empty, []⟩).hs = [] := by decide +kernel

/-- non-vacuity of `all_dropped_empty_history` -/
example : (gcR 2 (runAll exE exAllDropped ⟨RSt.empty, []⟩).r).numInner = 0 :=
  all_dropped_empty_history (E := exE) Policy.exact_ok 2 exAllDropped exAllDropped_ok
    exAllDropped_none

end OxiddModel.Tdd.C05R
