import OxiddModel.Tdd.RThreadsT

/-!
# C07 for TDD with reference counters: the counters are exact after every schedule

The machine of `Tdd/RThreadsT.lean` (the interleaving machine of `Tdd/ThreadsT.lean` on the counted
state `Rc.RSt`, every `clone_edge` / `drop_edge` / `reduce` of the code as part of the atomic action
in which it happens) run on a list of operations (`apply_bin::<OP>`, `apply_not`, `apply_ite_rec`):

* `counted_run_erases` — forgetting the counters, every run of the counted machine is the run of
  the plain machine under the same schedule; hence every theorem of `PropertiesC07TT.lean` holds
  for it verbatim;
* `counters_exact_always` — (d) after **every** schedule prefix the counter of every stored node
  is exactly `1` (unique table) `+` the number of owned external edges to it (the user's handles
  `hs`, and the edges owned by frames of running operations) `+` the number of stored parent edges
  (three children per node); no dangling edge;
* `counters_exact_at_end` — when all operations have returned, the owned edges are exactly the
  handles and one reference per result: nothing leaked, nothing released twice;
* `counters_determined` — exact counters are determined by the store and the owned edges, so they
  do not depend on the schedule;
* `result_counter_pos` — the node of every result has a counter `≥ 2`.
-/
set_option linter.unusedSectionVars false
set_option linter.unusedVariables false

namespace OxiddModel.Tdd.Threads
open OxiddModel.Tdd OxiddModel.Tdd.TD OxiddModel.Tdd.Refine OxiddModel.Tdd.Rc
open OxiddModel.CachePolicy

structure RCfg where
  r : RSt
  tasks : List Task

/-- forget the counters -/
def RCfg.erase (c : RCfg) : Cfg := ⟨c.r.st, c.tasks⟩

/-- one step of the counted machine -/
def RCfg.step (gt : Edge → Edge → Bool) (p : APolicy) (c : RCfg) (s : Sel) : RCfg :=
  match c.tasks[s]? with
  | none => c
  | some t =>
    match t.ret? with
    | some _ => c
    | none =>
      let o := t.rstep gt p c.r
      ⟨o.1, c.tasks.set s o.2⟩

def RCfg.run (gt : Edge → Edge → Bool) (p : APolicy) (c : RCfg) : List Sel → RCfg
  | [] => c
  | s :: ss => (c.step gt p s).run gt p ss

def RCfg.init (r : RSt) (jobs : List Job) : RCfg := ⟨r, jobs.map Job.task⟩

/-- everything the running operations own -/
def RCfg.owned (c : RCfg) : List Edge := c.tasks.flatMap Task.owned

theorem RCfg.step_erase (gt : Edge → Edge → Bool) (p : APolicy) (c : RCfg) (s : Sel) :
    (c.step gt p s).erase = c.erase.step gt p s := by
  unfold RCfg.step Cfg.step RCfg.erase
  simp only
  cases c.tasks[s]? with
  | none => rfl
  | some t =>
    simp only
    cases t.ret? with
    | some _ => rfl
    | none =>
      simp only
      obtain ⟨h1, h2⟩ := Task.rstep_erase gt p c.r t
      rw [h1, h2]

theorem RCfg.run_erase (gt : Edge → Edge → Bool) (p : APolicy) (sched : List Sel) :
    ∀ (c : RCfg), (c.run gt p sched).erase = c.erase.run gt p sched := by
  induction sched with
  | nil => intro c; rfl
  | cons s ss ih => intro c; simp only [RCfg.run, Cfg.run]; rw [ih, RCfg.step_erase]

theorem flatMap_set_rc {r r' : RSt} {t t' : Task} : ∀ (ts : List Task) (i : Nat) (ext : List Edge),
    ts[i]? = some t →
    (∀ ext', RcInv r (t.owned ++ ext') → RcInv r' (t'.owned ++ ext')) →
    RcInv r (ts.flatMap Task.owned ++ ext) →
    RcInv r' ((ts.set i t').flatMap Task.owned ++ ext) := by
  intro ts
  induction ts with
  | nil => intro i ext hi; simp at hi
  | cons t0 ts ih =>
    intro i ext hi hstep hrc
    cases i with
    | zero =>
      simp at hi; subst hi
      simp only [List.set_cons_zero, List.flatMap_cons, List.append_assoc] at hrc ⊢
      exact hstep _ hrc
    | succ i =>
      simp at hi
      simp only [List.set_cons_succ, List.flatMap_cons, List.append_assoc] at hrc ⊢
      have h1 : RcInv r (ts.flatMap Task.owned ++ (t0.owned ++ ext)) := by
        refine rcInv_perm hrc ?_
        rw [← List.append_assoc, ← List.append_assoc]
        exact List.Perm.append_right _ List.perm_append_comm
      refine rcInv_perm (ih i (t0.owned ++ ext) hi hstep h1) ?_
      rw [← List.append_assoc, ← List.append_assoc]
      exact List.Perm.append_right _ List.perm_append_comm

/-- the joint invariant of the counted machine -/
structure RGood (gtT : TD → TD → Bool) (s0 : Store) (hs : List Edge) (c : RCfg) (Ts : List TD)
    (N : Nat) : Prop where
  good : GoodFrom gtT s0 c.erase Ts N
  rc : RcInv c.r (c.owned ++ hs)

variable {gtT : TD → TD → Bool}

theorem RCfg.step_good {gt : Edge → Edge → Bool} {p : APolicy} (pok : p.OK) {s0 : Store}
    {hs : List Edge} {c : RCfg} {Ts : List TD} {N : Nat} (h : RGood gtT s0 hs c Ts N) (sel : Sel) :
    ∃ N', RGood gtT s0 hs (c.step gt p sel) Ts N' ∧ N' ≤ N := by
  obtain ⟨N', hg, hle, _⟩ := Cfg.step_good (gt := gt) pok h.good sel
  rw [← RCfg.step_erase] at hg
  refine ⟨N', ⟨hg, ?_⟩, hle⟩
  unfold RCfg.step
  cases hi : c.tasks[sel]? with
  | none => exact h.rc
  | some t =>
    simp only
    cases hr : t.ret? with
    | some _ => exact h.rc
    | none =>
      simp only
      have hi' : c.erase.tasks[sel]? = some t := hi
      obtain ⟨T, n, _, hok⟩ := h.good.tasks.get hi'
      exact flatMap_set_rc c.tasks sel hs hi
        (fun ext' => Task.rstep_rc pok gt h.good.inv hok ext' hr) h.rc

theorem RCfg.run_good {gt : Edge → Edge → Bool} {p : APolicy} (pok : p.OK) {s0 : Store}
    {hs : List Edge} {Ts : List TD} (sched : List Sel) :
    ∀ {c : RCfg} {N : Nat}, RGood gtT s0 hs c Ts N →
      ∃ N', RGood gtT s0 hs (c.run gt p sched) Ts N' := by
  induction sched with
  | nil => intro c N h; exact ⟨N, h⟩
  | cons s ss ih =>
    intro c N h
    obtain ⟨N1, h1, _⟩ := RCfg.step_good (gt := gt) pok h s
    exact ih h1

theorem init_owned (r : RSt) (jobs : List Job) : (RCfg.init r jobs).owned = [] := by
  unfold RCfg.init RCfg.owned
  induction jobs with
  | nil => rfl
  | cons j js ih =>
    simp only [List.map_cons, List.flatMap_cons]
    rw [ih]; cases j <;> rfl

/-! ## headline theorems -/

/-- **Erasure**: the counted machine, with the counters forgotten, is the machine of
`ThreadsT.lean` — under every schedule. -/
theorem counted_run_erases (gt : Edge → Edge → Bool) (p : APolicy) (r : RSt) (jobs : List Job)
    (sched : List Sel) :
    ((RCfg.init r jobs).run gt p sched).erase = (Cfg.init r.st jobs).run gt p sched :=
  RCfg.run_erase gt p sched _

/-- **(d) The counters are exact after every schedule.** From a counted state with exact counters
for the externally owned edges `hs` (the user's handles: `RcInv r hs`), the store invariant, and
operations whose operands denote trees: after *any* schedule prefix, for every stored node
`rc = 1 + (owned external edges to it) + (stored parent edges to it)`, where the owned external
edges are `hs` and the edges owned by the frames of the running operations (`RCfg.owned`); every
owned edge, every child of a stored node and every cached result points to a stored node. -/
theorem counters_exact_always (gt : Edge → Edge → Bool) (gtT : TD → TD → Bool) {p : APolicy}
    (pok : p.OK) (r : RSt) (hs : List Edge) (jobs : List Job) (hinv : Inv gtT r.st)
    (hrc : RcInv r hs) (hops : OperandsOK r.st.store jobs) (sched : List Sel) :
    RcInv ((RCfg.init r jobs).run gt p sched).r
      (((RCfg.init r jobs).run gt p sched).owned ++ hs) := by
  obtain ⟨Ts, N, hj⟩ := jobsOK_of_operands gtT hops
  have h0 : RGood gtT r.st.store hs (RCfg.init r jobs) Ts N :=
    ⟨init_good hinv hj, by rw [init_owned]; exact hrc⟩
  obtain ⟨N', hg⟩ := RCfg.run_good (gt := gt) pok sched h0
  exact hg.rc

theorem owned_of_done : ∀ (ts : List Task), ts.all (fun t => t.ret?.isSome) = true →
    ∃ rs, ts = rs.map Task.ret ∧ ts.flatMap Task.owned = rs := by
  intro ts
  induction ts with
  | nil => intro _; exact ⟨[], rfl, rfl⟩
  | cons t ts ih =>
    intro h
    simp only [List.all_cons, Bool.and_eq_true] at h
    obtain ⟨rs, h1, h2⟩ := ih h.2
    cases hr : t.ret? with
    | none => simp [hr] at h
    | some x =>
      have := ret?_some hr
      subst this
      exact ⟨x :: rs, by simp [h1], by simp [Task.owned, h2]⟩

/-- **No leak, no double release.** When the schedule has finished all operations, the tasks are
`ret r_0, …, ret r_k` and the counters are exact for exactly one owned reference per result plus
`hs`: every temporary (the `EdgeDropGuard`s of the t- and u-results, rejected nodes' three
children, the two dropped children of a reduced node) has been released exactly once, whatever the
interleaving was. -/
theorem counters_exact_at_end (gt : Edge → Edge → Bool) (gtT : TD → TD → Bool) {p : APolicy}
    (pok : p.OK) (r : RSt) (hs : List Edge) (jobs : List Job) (hinv : Inv gtT r.st)
    (hrc : RcInv r hs) (hops : OperandsOK r.st.store jobs) (sched : List Sel)
    (hdone : ((Cfg.init r.st jobs).run gt p sched).allDone = true) :
    ∃ rs, ((RCfg.init r jobs).run gt p sched).tasks = rs.map Task.ret ∧
      RcInv ((RCfg.init r jobs).run gt p sched).r (rs ++ hs) := by
  have he := counted_run_erases gt p r jobs sched
  have hd : ((RCfg.init r jobs).run gt p sched).tasks.all (fun t => t.ret?.isSome) = true := by
    have : ((RCfg.init r jobs).run gt p sched).tasks =
        ((Cfg.init r.st jobs).run gt p sched).tasks := by
      rw [← he]; rfl
    rw [this]; exact hdone
  obtain ⟨rs, h1, h2⟩ := owned_of_done _ hd
  refine ⟨rs, h1, ?_⟩
  have := counters_exact_always gt gtT pok r hs jobs hinv hrc hops sched
  unfold RCfg.owned at this
  rw [h2] at this
  exact this

/-- the node of every result carries at least the unique table's and the result's reference: a
collector that frees nodes with `rc == 1` cannot free it -/
theorem result_counter_pos (gt : Edge → Edge → Bool) (gtT : TD → TD → Bool) {p : APolicy}
    (pok : p.OK) (r : RSt) (hs : List Edge) (jobs : List Job) (hinv : Inv gtT r.st)
    (hrc : RcInv r hs) (hops : OperandsOK r.st.store jobs) (sched : List Sel)
    (hdone : ((Cfg.init r.st jobs).run gt p sched).allDone = true) (i k : Nat)
    (hi : ((RCfg.init r jobs).run gt p sched).tasks[i]? = some (.ret (.inner k))) :
    2 ≤ rcGet ((RCfg.init r jobs).run gt p sched).r.rc k := by
  obtain ⟨rs, h1, h2⟩ := counters_exact_at_end gt gtT pok r hs jobs hinv hrc hops sched hdone
  have hm : (Edge.inner k) ∈ rs := by
    rw [h1] at hi
    rw [List.getElem?_map] at hi
    cases hx : rs[i]? with
    | none => simp [hx] at hi
    | some x =>
      simp only [hx, Option.map_some, Option.some.injEq, Task.ret.injEq] at hi
      subst hi
      exact List.mem_of_getElem? hx
  obtain ⟨n, hn⟩ := h2.ext_ok (.inner k) (List.mem_append_left _ hm)
  have he := h2.rc_eq k n hn
  have hpos : 0 < (rs ++ hs).count (.inner k) :=
    List.count_pos_iff.mpr (List.mem_append_left _ hm)
  omega

/-- **The counters are a function of the store and of who owns what.** In particular, after any
schedule the counters are those the sequential counted model (`Rc.applyR` / `Rc.notR` / `Rc.iteR`)
has whenever it reaches the same store with the same owned edges. -/
theorem counters_determined {r r' : RSt} {ext : List Edge} (h : RcInv r ext) (h' : RcInv r' ext)
    (hs : r.st.store = r'.st.store) (i : Nat) (n : Node) (hi : r.st.store.get? i = some n) :
    rcGet r.rc i = rcGet r'.rc i := by
  have e1 := h.rc_eq i n hi
  have e2 := h'.rc_eq i n (hs ▸ hi)
  rw [← hs] at e2
  omega

/-! ## non-vacuity: the counted versions of the two examples of `PropertiesC07TT.lean` -/

theorem rcinv_empty' : RcInv RSt.empty [] where
  ext_ok _ h := by cases h
  kids_ok i n h := by simp [RSt.empty, Store.get?, Store.empty, Slots.get?] at h
  cache_ok _ _ h := by cases h
  rc_eq i n h := by simp [RSt.empty, Store.get?, Store.empty, Slots.get?] at h

/-- edges to the static terminals carry no counter: only the inner edges of `ext` matter -/
theorem rcInv_congr_inner {r : RSt} {ext ext' : List Edge} (h : RcInv r ext)
    (hc : ∀ i, ext.count (.inner i) = ext'.count (.inner i)) : RcInv r ext' where
  ext_ok e he := by
    cases e with
    | term v => trivial
    | inner i =>
      apply h.ext_ok
      have : 0 < ext'.count (.inner i) := List.count_pos_iff.mpr he
      rw [← hc] at this
      exact List.count_pos_iff.mp this
  kids_ok := h.kids_ok
  cache_ok := h.cache_ok
  rc_eq i n hi := by rw [h.rc_eq i n hi, hc]

theorem step_rc {r : RSt} {l : Nat} {t u e x : Edge} {ext ext' : List Edge} (h : RcInv r ext')
    (hc : ∀ i, ext'.count (.inner i) = (t :: u :: e :: ext).count (.inner i))
    (hx : (mkNodeU r l t u e).1 = x) : RcInv (mkNodeU r l t u e).2 (x :: ext) :=
  hx ▸ mkNodeU_rc (rcInv_congr_inner h hc)

/-- the store `exStore` built with counters, node by node in the order of `intern` (every `reduce`
consumes its three owned children); the user keeps handles to `G` (`#5`) and `F` (`#2`) -/
def exA := mkNodeU RSt.empty 1 (.term .t) (.term .u) (.term .f)   -- #0 = x1
def exB := mkNodeU exA.2 1 (.term .u) (.term .u) (.term .f)        -- #1 = U ∧ x1
def exFr := mkNodeU exB.2 0 (.inner 0) (.inner 1) (.term .f)       -- #2 = F
def exC := mkNodeU exFr.2 2 (.term .f) (.term .u) (.term .t)       -- #3 = ¬x2
def exD := mkNodeU exC.2 2 (.term .t) (.term .u) (.term .f)        -- #4 = x2
def exGr := mkNodeU exD.2 1 (.inner 3) (.term .u) (.inner 4)       -- #5 = G

def exR : RSt := exGr.2
def exHs : List Edge := [.inner 5, .inner 2]

theorem exR_rc : RcInv exR exHs := by
  have hA : RcInv exA.2 [.inner 0] :=
    step_rc rcinv_empty' (by intro i; simp) (by decide +kernel)
  have hB : RcInv exB.2 [.inner 1, .inner 0] :=
    step_rc hA (by intro i; simp) (by decide +kernel)
  have hF : RcInv exFr.2 [.inner 2] :=
    step_rc hB (by intro i; simp [List.count_cons]; omega) (by decide +kernel)
  have hC : RcInv exC.2 [.inner 3, .inner 2] :=
    step_rc hF (by intro i; simp) (by decide +kernel)
  have hD : RcInv exD.2 [.inner 4, .inner 3, .inner 2] :=
    step_rc hC (by intro i; simp) (by decide +kernel)
  exact step_rc hD (by intro i; simp [List.count_cons]; omega) (by decide +kernel)

/-- it is the start state of the plain examples, with counters: every node is referenced by the
unique table and once more (a parent or a handle) -/
example : exR.st.store.nodes = exStore.nodes ∧ exR.st.cache = [] ∧ exHs = [eG, eF] ∧
    exR.rc = #[2, 2, 2, 2, 2, 2] := by decide +kernel

theorem exR_store : exR.st.store = exStore := by
  have h : exR.st.store.nodes = exStore.nodes := by decide +kernel
  cases hs : exR.st.store with
  | mk n =>
    cases hs' : exStore with
    | mk n' => rw [hs, hs'] at h; simp only at h; rw [h]

theorem exR_inv : Inv exGtT exR.st := by
  refine ⟨?_, ?_⟩
  · rw [exR_store]; exact exStore_unique
  · have : exR.st.cache = [] := by decide +kernel
    rw [this]; exact CacheOK.nil _ _

theorem exR_ops : OperandsOK exR.st.store exJobs := by rw [exR_store]; exact exOps
theorem exR_ops2 : OperandsOK exR.st.store exJobs2 := by rw [exR_store]; exact exOps2

theorem exR_done : ((Cfg.init exR.st exJobs).run Edge.gtIdx exPol exSched).allDone = true := by
  decide +kernel
theorem exR_done2 : ((Cfg.init exR.st exJobs2).run Edge.gtIdx exPol exSched2).allDone = true := by
  decide +kernel

/-- `counters_exact_always` in the middle of the first run (after 40 selections) -/
example := counters_exact_always Edge.gtIdx exGtT exPol_ok exR exHs exJobs exR_inv exR_rc exR_ops
  (exSched.take 40)
/-- … where the five running operations own eight edges (guards and finished sub-results), one of
them to an inner node: `#3`, whose counter is 3 = table + parent `#5` + that guard -/
example : ((RCfg.init exR exJobs).run Edge.gtIdx exPol (exSched.take 40)).owned =
      [.term .t, .term .u, .inner 3, .term .u, .term .t, .term .f, .term .u, .term .t] ∧
    ((RCfg.init exR exJobs).run Edge.gtIdx exPol (exSched.take 40)).r.rc = #[2, 2, 2, 3, 2, 2] := by
  decide +kernel

/-- `counters_exact_at_end`, `result_counter_pos`: at the end the results `#17, #15, #17, #12, #14`
are owned once each (`#17` twice: counter 3) -/
example := counters_exact_at_end Edge.gtIdx exGtT exPol_ok exR exHs exJobs exR_inv exR_rc exR_ops
  exSched exR_done
example : ((RCfg.init exR exJobs).run Edge.gtIdx exPol exSched).tasks =
      [.ret (.inner 17), .ret (.inner 15), .ret (.inner 17), .ret (.inner 12), .ret (.inner 14)] ∧
    ((RCfg.init exR exJobs).run Edge.gtIdx exPol exSched).r.rc =
      #[2, 2, 2, 4, 6, 3, 2, 2, 2, 2, 2, 2, 2, 2, 2, 2, 2, 3] := by decide +kernel
example := result_counter_pos Edge.gtIdx exGtT exPol_ok exR exHs exJobs exR_inv exR_rc exR_ops
  exSched exR_done 0 17 (by decide +kernel)
example := counted_run_erases Edge.gtIdx exPol exR exJobs exSched

/-- the second example (four `ite` operations): after 80 selections the operations own eleven
edges, `#3` four times and `#8` twice (two operations hold the same sub-result) -/
example := counters_exact_always Edge.gtIdx exGtT exPol_ok exR exHs exJobs2 exR_inv exR_rc exR_ops2
  (exSched2.take 80)
example : ((RCfg.init exR exJobs2).run Edge.gtIdx exPol (exSched2.take 80)).owned =
      [.inner 3, .inner 7, .inner 3, .inner 6, .term .f, .term .f, .inner 8, .inner 3, .inner 8,
       .inner 3, .term .t] ∧
    ((RCfg.init exR exJobs2).run Edge.gtIdx exPol (exSched2.take 80)).r.rc =
      #[2, 2, 2, 6, 3, 2, 2, 2, 3] := by decide +kernel
example := counters_exact_at_end Edge.gtIdx exGtT exPol_ok exR exHs exJobs2 exR_inv exR_rc exR_ops2
  exSched2 exR_done2
example : ((RCfg.init exR exJobs2).run Edge.gtIdx exPol exSched2).r.rc =
    #[2, 2, 2, 5, 7, 3, 4, 3, 2, 4, 2, 2, 2, 2, 2, 2, 3, 3, 2, 2, 2] := by decide +kernel

end OxiddModel.Tdd.Threads
