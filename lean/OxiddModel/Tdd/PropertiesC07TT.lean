import OxiddModel.Tdd.ThreadsTInv

/-!
# C07 for TDD (ternary nodes): every interleaving of concurrent `apply` ≡ sequential `apply`

Headline theorems about the machine of `Tdd/ThreadsT.lean` (tasks = resumptions of
`apply_bin::<OP>` — all eight `BinOp`s —, `apply_not` and `apply_ite_rec` of
`oxidd-rules-tdd/src/apply_rec.rs`;
atomic actions = cache query, `reduce` of a ternary node, cache add; scheduler = arbitrary
interleaving of the operations of any number of user threads; the TDD crate has no parallel
recursor, so each operation is sequential in itself). All statements are for **every** schedule,
every admissible cache policy (`p.OK`), every number of operations, every edge order `gt` of the
manager and `gtT` of the tree level, every start state with the TDD store invariant
(`Inv gtT` = hash consing `Unique` + sound cache `CacheOK`; `NoRed` = no node with three equal
children), all operands that denote trees.

* `interleaving_invariant` — (b) after any schedule prefix the store is hash-consed again, has no
  redundant node, extends the start store (no existing node changes), the cache is sound, every
  running task still computes its tree (`TaskOK`);
* `interleaving_correct` (`interleaving_bin_correct`, `interleaving_not_correct`,
  `interleaving_ite_correct`) — (a) when a schedule has finished all operations, operation `i` is
  `ret r` and `r` denotes the tree-level result `applyBin gtT op a b` / `applyNot a` /
  `applyIte gtT a b c`;
* `interleaving_vs_sequential` — (a) the comparison with the sequential store-level model
  `applyS` / `notS` / `iteS` (cites `applyS_spec` / `notS_spec` / `iteS_spec`): same tree as the model run from the start
  state; the *identical edge* whenever the result was already present in the start store; and the
  model re-run in the final store returns the identical edge without touching the store;
* `same_function_same_edge` — two operations (of any threads) whose results are the same tree hold
  the same edge;
* `interleaved_inserts_agree` — (c) two tasks that are about to insert a cache entry for the same
  key insert the same value, and it equals whatever the cache holds for that key;
* `enabled_schedule_bounded`, `stuck_iff_done`, `complete_schedule_exists` — termination: no
  schedule of enabled selections is longer than `stepBound` (`W (k+1) = 3 * W k + 7`); nothing
  enabled ⇔ all done; a complete schedule exists.

`sequential_schedule_is_model` is in `ThreadsTSeq.lean`. Not modelled: reference counters.
-/
set_option linter.unusedSectionVars false
set_option linter.unusedVariables false

namespace OxiddModel.Tdd.Threads
open OxiddModel.Tdd OxiddModel.Tdd.TD OxiddModel.Tdd.Refine OxiddModel.CachePolicy

variable {gtT : TD → TD → Bool}

/-! ## the invariant along every schedule -/

inductive TasksOK (gtT : TD → TD → Bool) (s : Store) : List Task → List TD → Nat → Prop
  | nil : TasksOK gtT s [] [] 0
  | cons {t T n ts Ts N} : TaskOK gtT s t T n → TasksOK gtT s ts Ts N →
      TasksOK gtT s (t :: ts) (T :: Ts) (n + N)

theorem TasksOK.mono {s s' : Store} (hle : s.Le s') {ts : List Task} {Ts : List TD} {N : Nat}
    (h : TasksOK gtT s ts Ts N) : TasksOK gtT s' ts Ts N := by
  induction h with
  | nil => exact .nil
  | cons h _ ih => exact .cons (h.mono hle) ih

theorem TasksOK.get {s : Store} {ts : List Task} {Ts : List TD} {N : Nat}
    (h : TasksOK gtT s ts Ts N) : ∀ {i : Nat} {t : Task}, ts[i]? = some t →
      ∃ T n, Ts[i]? = some T ∧ TaskOK gtT s t T n := by
  induction h with
  | nil => intro i t hi; simp at hi
  | @cons t' T n ts Ts N h _ ih =>
    intro i t hi
    cases i with
    | zero => simp at hi; subst hi; exact ⟨T, n, rfl, h⟩
    | succ i => simp at hi; simpa using ih hi

theorem TasksOK.get' {s : Store} {ts : List Task} {Ts : List TD} {N : Nat}
    (h : TasksOK gtT s ts Ts N) : ∀ {i : Nat} {T : TD}, Ts[i]? = some T →
      ∃ t n, ts[i]? = some t ∧ TaskOK gtT s t T n := by
  induction h with
  | nil => intro i t hi; simp at hi
  | @cons t' T n ts Ts N h _ ih =>
    intro i t hi
    cases i with
    | zero => simp at hi; subst hi; exact ⟨t', n, rfl, h⟩
    | succ i => simp at hi; simpa using ih hi

/-- replacing task `i` by a task that computes the same tree with a smaller bound, in a larger
store -/
theorem TasksOK.set {s s' : Store} (hle : s.Le s') {t t' : Task} {ts : List Task} {Ts : List TD}
    {N : Nat} (h : TasksOK gtT s ts Ts N) : ∀ {i : Nat}, ts[i]? = some t →
      (∀ T n, TaskOK gtT s t T n → ∃ n', n' < n ∧ TaskOK gtT s' t' T n') →
      ∃ N', N' < N ∧ TasksOK gtT s' (ts.set i t') Ts N' := by
  induction h with
  | nil => intro i hi; simp at hi
  | @cons t0 T n ts Ts N h htl ih =>
    intro i hi hstep
    cases i with
    | zero =>
      simp at hi; subst hi
      obtain ⟨n', hlt, hok⟩ := hstep T n h
      exact ⟨n' + N, by omega, by simpa using .cons hok (htl.mono hle)⟩
    | succ i =>
      simp at hi
      obtain ⟨N', hlt, hok⟩ := ih hi hstep
      exact ⟨n + N', by omega, by simpa using .cons (h.mono hle) hok⟩

/-- either all tasks are finished or one of them can move -/
theorem done_or_enabled (ts : List Task) :
    (ts.all (fun t => t.ret?.isSome) = true) ∨
      ∃ (i : Nat) (t : Task), ts[i]? = some t ∧ t.ret? = none := by
  induction ts with
  | nil => left; rfl
  | cons t ts ih =>
    cases hr : t.ret? with
    | none => right; exact ⟨0, t, rfl, hr⟩
    | some r =>
      rcases ih with h | ⟨i, t', hi, ht'⟩
      · left; simp [hr, h]
      · right; exact ⟨i + 1, t', by simpa using hi, ht'⟩

structure GoodFrom (gtT : TD → TD → Bool) (s0 : Store) (c : Cfg) (Ts : List TD) (N : Nat) :
    Prop where
  inv : Inv gtT c.st
  le : s0.Le c.st.store
  nored : s0.NoRed → c.st.store.NoRed
  tasks : TasksOK gtT c.st.store c.tasks Ts N

theorem Cfg.step_of_not_enabled {gt : Edge → Edge → Bool} {p : APolicy} {c : Cfg} {sel : Sel}
    (h : c.enabled sel = false) : c.step gt p sel = c := by
  unfold Cfg.enabled at h
  unfold Cfg.step
  split
  · rfl
  · rename_i t ht
    simp only [ht] at h
    cases hr : t.ret? with
    | none => simp [hr] at h
    | some r => rfl

theorem Cfg.step_good {gt : Edge → Edge → Bool} {p : APolicy} (pok : p.OK) {s0 : Store} {c : Cfg}
    {Ts : List TD} {N : Nat} (h : GoodFrom gtT s0 c Ts N) (sel : Sel) :
    ∃ N', GoodFrom gtT s0 (c.step gt p sel) Ts N' ∧ N' ≤ N ∧ (c.enabled sel = true → N' < N) := by
  cases he : c.enabled sel with
  | false => rw [Cfg.step_of_not_enabled he]; exact ⟨N, h, Nat.le_refl _, fun h => by cases h⟩
  | true =>
    unfold Cfg.enabled at he
    unfold Cfg.step
    split
    · rename_i hi; simp [hi] at he
    · rename_i t hi
      simp only [hi] at he
      cases hr : t.ret? with
      | some r => simp [hr] at he
      | none =>
        simp only
        obtain ⟨T, n, _, hok⟩ := h.tasks.get hi
        have hst := (Task.step_ok (p := p) pok gt h.inv hok hr).1
        obtain ⟨N', hlt, htasks⟩ := h.tasks.set hst.le (t' := (t.step gt p c.st).2) hi
          (fun T n hT => (Task.step_ok pok gt h.inv hT hr).2)
        exact ⟨N', ⟨hst.inv, h.le.trans hst.le, fun hr0 => hst.nored (h.nored hr0), htasks⟩,
          by omega, fun _ => hlt⟩

/-- **every schedule keeps the invariant**; a schedule of enabled selections uses up the bound -/
theorem Cfg.run_good {gt : Edge → Edge → Bool} {p : APolicy} (pok : p.OK) {s0 : Store}
    {Ts : List TD} (sched : List Sel) :
    ∀ {c : Cfg} {N : Nat}, GoodFrom gtT s0 c Ts N →
    ∃ N', GoodFrom gtT s0 (c.run gt p sched) Ts N' ∧ N' ≤ N ∧
      (c.allEnabled gt p sched = true → sched.length + N' ≤ N) := by
  induction sched with
  | nil => intro c N h; exact ⟨N, h, Nat.le_refl _, fun _ => by simp⟩
  | cons sel ss ih =>
    intro c N h
    obtain ⟨N1, h1, hle1, hlt1⟩ := Cfg.step_good (gt := gt) pok h sel
    obtain ⟨N2, h2, hle2, hlen2⟩ := ih h1
    refine ⟨N2, h2, by omega, fun hen => ?_⟩
    simp only [Cfg.allEnabled, Bool.and_eq_true] at hen
    have := hlt1 hen.1
    have := hlen2 hen.2
    simp only [List.length_cons]
    omega

theorem Cfg.step_length (gt : Edge → Edge → Bool) (p : APolicy) (c : Cfg) (sel : Sel) :
    (c.step gt p sel).tasks.length = c.tasks.length := by
  unfold Cfg.step
  split
  · rfl
  · split
    · rfl
    · simp

theorem Cfg.run_length (gt : Edge → Edge → Bool) (p : APolicy) (sched : List Sel) : ∀ (c : Cfg),
    (c.run gt p sched).tasks.length = c.tasks.length := by
  induction sched with
  | nil => intro c; rfl
  | cons s ss ih => intro c; simp only [Cfg.run]; rw [ih, Cfg.step_length]

/-- a complete schedule exists from every good configuration (induction on the bound) -/
theorem Cfg.complete_exists {gt : Edge → Edge → Bool} {p : APolicy} (pok : p.OK) {s0 : Store}
    {Ts : List TD} :
    ∀ (N : Nat) {c : Cfg}, GoodFrom gtT s0 c Ts N →
      ∃ sched, c.allEnabled gt p sched = true ∧ (c.run gt p sched).allDone = true := by
  intro N
  induction N using Nat.strongRecOn with
  | _ N ih =>
    intro c h
    rcases done_or_enabled c.tasks with hd | ⟨i, t, hi, hr⟩
    · exact ⟨[], rfl, hd⟩
    · have hen : c.enabled i = true := by simp [Cfg.enabled, hi, hr]
      obtain ⟨N1, h1, _, hlt⟩ := Cfg.step_good (gt := gt) (p := p) pok h i
      obtain ⟨ss, hen', hdone⟩ := ih N1 (hlt hen) h1
      exact ⟨i :: ss, by simp [Cfg.allEnabled, hen, hen'], hdone⟩

theorem Cfg.allDone_iff_none_enabled (c : Cfg) :
    c.allDone = true ↔ ∀ sel, c.enabled sel = false := by
  constructor
  · intro h sel
    unfold Cfg.enabled
    split
    · rename_i t ht
      have := List.all_eq_true.mp h t (List.mem_of_getElem? ht)
      cases hr : t.ret? with
      | none => simp [hr] at this
      | some r => rfl
    · rfl
  · intro h
    apply List.all_eq_true.mpr
    intro t ht
    obtain ⟨i, hi, hget⟩ := List.getElem_of_mem ht
    have := h i
    have hi' : c.tasks[i]? = some t := by rw [List.getElem?_eq_getElem hi, hget]
    simp only [Cfg.enabled, hi'] at this
    cases hr : t.ret? with
    | none => simp [hr] at this
    | some r => rfl

/-! ## cache entries about to be inserted -/

theorem KeyOK.functional {s : Store} {key : Key} {T T' : TD} (h : KeyOK gtT s key T)
    (h' : KeyOK gtT s key T') : T = T' := by
  obtain ⟨ts, h2, h3⟩ := h
  obtain ⟨ts', h2', h3'⟩ := h'
  have := DenotesL.functional h2 h2'
  subst this
  rw [h3] at h3'; cases h3'; rfl

theorem TaskOK.mades_ok {s : Store} {t : Task} {T : TD} {n : Nat} (h : TaskOK gtT s t T n) :
    ∀ key r, (key, r) ∈ t.mades → ∃ T', KeyOK gtT s key T' ∧ Denotes s r T' := by
  induction h with
  | ret => intro _ _ hm; simp [Task.mades] at hm
  | call => intro _ _ hm; simp [Task.mades] at hm
  | miss => intro _ _ hm; simp [Task.mades] at hm
  | seq2 _ _ _ _ _ _ ih => intro key r hm; exact ih key r hm
  | seq1 _ _ _ _ _ _ ih => intro key r hm; exact ih key r hm
  | seq0 _ _ _ _ _ _ ih => intro key r hm; exact ih key r hm
  | @made key' r' T n hk hr _ =>
    intro key r hm
    simp only [Task.mades, List.mem_singleton, Prod.mk.injEq] at hm
    obtain ⟨rfl, rfl⟩ := hm
    exact ⟨T, hk, hr⟩

/-! ## jobs: the top-level operations -/

/-- a top-level operation of a user thread: `apply_bin::<OP>(f, g)` (the eight `*_edge` connectives
of `BooleanFunction` for TDD), `apply_not(f)` (`not_edge`) or `apply_ite_rec(f, g, h)`
(`ite_edge`) -/
inductive Job where
  | bin (op : BinOp) (f g : Edge)
  | not (f : Edge)
  | ite (f g h : Edge)
deriving DecidableEq, Repr

def Job.task : Job → Task
  | .bin op f g => .call (.bin op f g)
  | .not f => .call (.not f)
  | .ite f g h => .call (.ite f g h)

def Job.operands : Job → List Edge
  | .bin _ f g => [f, g]
  | .not f => [f]
  | .ite f g h => [f, g, h]

/-- the tree-level (sequential, cache-free) result for operand trees `ts` -/
def Job.result (gtT : TD → TD → Bool) : Job → List TD → Option TD
  | .bin op _ _, [a, b] => some (applyBin gtT op a b)
  | .not _, [a] => some (applyNot a)
  | .ite _ _ _, [a, b, c] => some (applyIte gtT a b c)
  | _, _ => none

/-- the sequential store-level model of the operation: `applyS` / `notS` / `iteS` -/
def Job.seq (gt : Edge → Edge → Bool) (p : APolicy) (fuel : Nat) (st : St) : Job → St × Edge
  | .bin op f g => applyS gt BinOp.tag p op fuel st f g
  | .not f => notS p fuel st f
  | .ite f g h => iteS gt BinOp.tag p fuel st f g h

def sizeSum (ts : List TD) : Nat := (ts.map TD.size).sum

/-- all operations at their entry, on one shared state -/
def Cfg.init (st : St) (jobs : List Job) : Cfg := ⟨st, jobs.map Job.task⟩

theorem denotesL_one_inv {s : Store} {f : Edge} {ts : List TD} (h : DenotesL s [f] ts) :
    ∃ a, ts = [a] ∧ Denotes s f a := by
  cases h with
  | cons ha h1 => cases h1; exact ⟨_, rfl, ha⟩

theorem denotesL_two_inv {s : Store} {f g : Edge} {ts : List TD} (h : DenotesL s [f, g] ts) :
    ∃ a b, ts = [a, b] ∧ Denotes s f a ∧ Denotes s g b := by
  cases h with
  | cons ha h1 =>
    cases h1 with
    | cons hb h2 => cases h2; exact ⟨_, _, rfl, ha, hb⟩

theorem denotesL_three_inv {s : Store} {f g h : Edge} {ts : List TD}
    (hd : DenotesL s [f, g, h] ts) :
    ∃ a b c, ts = [a, b, c] ∧ Denotes s f a ∧ Denotes s g b ∧ Denotes s h c := by
  cases hd with
  | cons ha h1 =>
    cases h1 with
    | cons hb h2 =>
      cases h2 with
      | cons hc h3 => cases h3; exact ⟨_, _, _, rfl, ha, hb, hc⟩

theorem job_ok {s : Store} {j : Job} {ts : List TD} {T : TD}
    (hts : DenotesL s j.operands ts) (hT : j.result gtT ts = some T) :
    TaskOK gtT s j.task T (W (sizeSum ts)) := by
  cases j with
  | bin op f g =>
    obtain ⟨a, b, rfl, ha, hb⟩ := denotesL_two_inv hts
    simp only [Job.result, Option.some.injEq] at hT
    subst hT
    exact .call (k := a.size + b.size) ⟨a, b, ha, hb, rfl, Nat.le_refl _⟩
      (W_mono (by simp [sizeSum]))
  | not f =>
    obtain ⟨a, rfl, ha⟩ := denotesL_one_inv hts
    simp only [Job.result, Option.some.injEq] at hT
    subst hT
    exact .call (k := a.size) ⟨a, ha, rfl, Nat.le_refl _⟩ (W_mono (by simp [sizeSum]))
  | ite f g h =>
    obtain ⟨a, b, c, rfl, ha, hb, hc⟩ := denotesL_three_inv hts
    simp only [Job.result, Option.some.injEq] at hT
    subst hT
    exact .call (k := a.size + b.size + c.size) ⟨a, b, c, ha, hb, hc, rfl, Nat.le_refl _⟩
      (W_mono (by simp [sizeSum]; omega))

/-- the sequential model satisfies the common postcondition `Post` (`applyS_spec`, `notS_spec`,
`iteS_spec`) -/
theorem Job.seq_spec (gt : Edge → Edge → Bool) {p : APolicy} (pok : p.OK) {st : St}
    (hinv : Inv gtT st) {j : Job} {ts : List TD} {T : TD} (hts : DenotesL st.store j.operands ts)
    (hT : j.result gtT ts = some T) (fuel : Nat) (hfuel : sizeSum ts ≤ fuel) :
    Post gtT st.store T (j.seq gt p fuel st) := by
  cases j with
  | bin op f g =>
    obtain ⟨a, b, rfl, ha, hb⟩ := denotesL_two_inv hts
    simp only [Job.result, Option.some.injEq] at hT
    subst hT
    exact applyS_spec gt gtT pok op fuel st f g a b hinv ha hb (by simp [sizeSum] at hfuel; omega)
  | not f =>
    obtain ⟨a, rfl, ha⟩ := denotesL_one_inv hts
    simp only [Job.result, Option.some.injEq] at hT
    subst hT
    exact notS_spec gtT pok fuel st f a hinv ha (by simp [sizeSum] at hfuel; omega)
  | ite f g h =>
    obtain ⟨a, b, c, rfl, ha, hb, hc⟩ := denotesL_three_inv hts
    simp only [Job.result, Option.some.injEq] at hT
    subst hT
    exact iteS_spec gt gtT pok fuel st f g h a b c hinv ha hb hc
      (by simp [sizeSum] at hfuel; omega)

/-- the operands of all jobs denote trees; `Ts` are the tree-level results, `N` the step bound -/
inductive JobsOK (gtT : TD → TD → Bool) (s : Store) : List Job → List TD → Nat → Prop
  | nil : JobsOK gtT s [] [] 0
  | cons {j ts T js Ts N} : DenotesL s j.operands ts → j.result gtT ts = some T →
      JobsOK gtT s js Ts N → JobsOK gtT s (j :: js) (T :: Ts) (W (sizeSum ts) + N)

theorem JobsOK.tasks {s : Store} {js : List Job} {Ts : List TD} {N : Nat}
    (h : JobsOK gtT s js Ts N) : TasksOK gtT s (js.map Job.task) Ts N := by
  induction h with
  | nil => exact .nil
  | cons hts hT _ ih => exact .cons (job_ok hts hT) ih

theorem JobsOK.get {s : Store} {js : List Job} {Ts : List TD} {N : Nat}
    (h : JobsOK gtT s js Ts N) : ∀ {i : Nat} {j : Job}, js[i]? = some j →
      ∃ ts T, DenotesL s j.operands ts ∧ j.result gtT ts = some T ∧ Ts[i]? = some T := by
  induction h with
  | nil => intro i j hi; simp at hi
  | @cons j' ts T js Ts N hts hT _ ih =>
    intro i j hi
    cases i with
    | zero => simp at hi; subst hi; exact ⟨ts, T, hts, hT, rfl⟩
    | succ i => simp at hi; simpa using ih hi

/-- the hypothesis "all operands denote trees" in elementary form -/
def OperandsOK (s : Store) (jobs : List Job) : Prop :=
  ∀ j, j ∈ jobs → ∃ ts, DenotesL s j.operands ts

theorem result_some (gtT : TD → TD → Bool) {s : Store} {j : Job} {ts : List TD}
    (h : DenotesL s j.operands ts) : ∃ T, j.result gtT ts = some T := by
  cases j with
  | bin op f g => obtain ⟨a, b, rfl, _, _⟩ := denotesL_two_inv h; exact ⟨_, rfl⟩
  | not f => obtain ⟨a, rfl, _⟩ := denotesL_one_inv h; exact ⟨_, rfl⟩
  | ite f g h' => obtain ⟨a, b, c, rfl, _, _, _⟩ := denotesL_three_inv h; exact ⟨_, rfl⟩

theorem jobsOK_of_operands (gtT : TD → TD → Bool) {s : Store} : ∀ {jobs : List Job},
    OperandsOK s jobs → ∃ Ts N, JobsOK gtT s jobs Ts N := by
  intro jobs
  induction jobs with
  | nil => intro _; exact ⟨[], 0, .nil⟩
  | cons j js ih =>
    intro h
    obtain ⟨ts, hts⟩ := h j (List.mem_cons_self ..)
    obtain ⟨T, hT⟩ := result_some gtT hts
    obtain ⟨Ts, N, hjs⟩ := ih (fun j' hj' => h j' (List.mem_cons_of_mem _ hj'))
    exact ⟨_, _, .cons hts hT hjs⟩

theorem init_good {st : St} {jobs : List Job} {Ts : List TD} {N : Nat} (hinv : Inv gtT st)
    (hj : JobsOK gtT st.store jobs Ts N) : GoodFrom gtT st.store (Cfg.init st jobs) Ts N :=
  ⟨hinv, Store.Le.refl _, id, hj.tasks⟩

theorem ret?_some {t : Task} {r : Edge} (h : t.ret? = some r) : t = .ret r := by
  cases t <;> simp only [Task.ret?] at h <;> cases h
  rfl

/-- the result of a finished configuration at position `i` -/
theorem GoodFrom.result {s0 : Store} {c : Cfg} {Ts : List TD} {N : Nat}
    (h : GoodFrom gtT s0 c Ts N) (hdone : c.allDone = true) {i : Nat} {T : TD}
    (hi : Ts[i]? = some T) : ∃ r, c.tasks[i]? = some (.ret r) ∧ Denotes c.st.store r T := by
  obtain ⟨t, n, ht, hok⟩ := h.tasks.get' hi
  have := List.all_eq_true.mp hdone t (List.mem_of_getElem? ht)
  cases hr : t.ret? with
  | none => simp [hr] at this
  | some r =>
    have e := ret?_some hr
    subst e
    exact ⟨r, ht, hok.ret_den rfl⟩

/-! ## (b): the invariant after every schedule -/

/-- **Invariant under every interleaving.** From a state with the TDD store invariant and
operations whose operands denote trees, after *any* schedule: the store is hash-consed
(`Unique`: no duplicate ternary node), has no redundant node (three equal children) if it had
none, extends the start store (every node that existed keeps its slot and content), the apply cache
is sound for the current store, and every operation — finished or not — is a task computing its
tree-level result. -/
theorem interleaving_invariant (gt : Edge → Edge → Bool) (gtT : TD → TD → Bool) {p : APolicy}
    (pok : p.OK) (st : St) (jobs : List Job) (hinv : Inv gtT st)
    (hops : OperandsOK st.store jobs) (sched : List Sel) :
    let c := (Cfg.init st jobs).run gt p sched
    c.st.store.Unique ∧ CacheOK gtT c.st.store c.st.cache ∧ st.store.Le c.st.store ∧
    (st.store.NoRed → c.st.store.NoRed) ∧ c.tasks.length = jobs.length ∧
    ∀ (i : Nat) (j : Job), jobs[i]? = some j → ∀ ts T, DenotesL st.store j.operands ts →
      j.result gtT ts = some T → ∃ t n, c.tasks[i]? = some t ∧ TaskOK gtT c.st.store t T n := by
  intro c
  obtain ⟨Ts, N, hj⟩ := jobsOK_of_operands gtT hops
  obtain ⟨N', hg, _, _⟩ := Cfg.run_good (gt := gt) (p := p) pok sched (init_good hinv hj)
  refine ⟨hg.inv.1, hg.inv.2, hg.le, hg.nored, ?_, ?_⟩
  · show ((Cfg.init st jobs).run gt p sched).tasks.length = _
    rw [Cfg.run_length]; simp [Cfg.init]
  · intro i j hi ts T hts hT
    obtain ⟨ts', T', hts', hT', hTi⟩ := hj.get hi
    have := DenotesL.functional hts hts'
    subst this
    rw [hT] at hT'; cases hT'
    exact hg.tasks.get' hTi

/-! ## (a): the results -/

/-- **Every complete schedule yields the sequential result.** If the schedule has finished all
operations, operation `i` is `ret r` and `r` denotes the result `T` of the tree-level (sequential,
cache-free) algorithm on the trees `ts` of its operands. -/
theorem interleaving_correct (gt : Edge → Edge → Bool) (gtT : TD → TD → Bool) {p : APolicy}
    (pok : p.OK) (st : St) (jobs : List Job) (hinv : Inv gtT st)
    (hops : OperandsOK st.store jobs) (sched : List Sel)
    (hdone : ((Cfg.init st jobs).run gt p sched).allDone = true)
    (i : Nat) (j : Job) (hi : jobs[i]? = some j) (ts : List TD) (T : TD)
    (hts : DenotesL st.store j.operands ts) (hT : j.result gtT ts = some T) :
    ∃ r, ((Cfg.init st jobs).run gt p sched).tasks[i]? = some (.ret r) ∧
      Denotes ((Cfg.init st jobs).run gt p sched).st.store r T := by
  obtain ⟨Ts, N, hj⟩ := jobsOK_of_operands gtT hops
  obtain ⟨N', hg, _, _⟩ := Cfg.run_good (gt := gt) (p := p) pok sched (init_good hinv hj)
  obtain ⟨ts', T', hts', hT', hTi⟩ := hj.get hi
  have := DenotesL.functional hts hts'
  subst this
  rw [hT] at hT'; cases hT'
  exact hg.result hdone hTi

/-- `interleaving_correct` for `apply_bin::<OP>`: the edge denotes `applyBin gtT op a b` -/
theorem interleaving_bin_correct (gt : Edge → Edge → Bool) (gtT : TD → TD → Bool) {p : APolicy}
    (pok : p.OK) (st : St) (jobs : List Job) (hinv : Inv gtT st)
    (hops : OperandsOK st.store jobs) (sched : List Sel)
    (hdone : ((Cfg.init st jobs).run gt p sched).allDone = true)
    (i : Nat) (op : BinOp) (f g : Edge) (hi : jobs[i]? = some (.bin op f g)) (a b : TD)
    (ha : Denotes st.store f a) (hb : Denotes st.store g b) :
    ∃ r, ((Cfg.init st jobs).run gt p sched).tasks[i]? = some (.ret r) ∧
      Denotes ((Cfg.init st jobs).run gt p sched).st.store r (applyBin gtT op a b) :=
  interleaving_correct gt gtT pok st jobs hinv hops sched hdone i _ hi [a, b] _
    (DenotesL.two ha hb) rfl

/-- `interleaving_correct` for `apply_not`: the edge denotes `applyNot a` -/
theorem interleaving_not_correct (gt : Edge → Edge → Bool) (gtT : TD → TD → Bool) {p : APolicy}
    (pok : p.OK) (st : St) (jobs : List Job) (hinv : Inv gtT st)
    (hops : OperandsOK st.store jobs) (sched : List Sel)
    (hdone : ((Cfg.init st jobs).run gt p sched).allDone = true)
    (i : Nat) (f : Edge) (hi : jobs[i]? = some (.not f)) (a : TD) (ha : Denotes st.store f a) :
    ∃ r, ((Cfg.init st jobs).run gt p sched).tasks[i]? = some (.ret r) ∧
      Denotes ((Cfg.init st jobs).run gt p sched).st.store r (applyNot a) :=
  interleaving_correct gt gtT pok st jobs hinv hops sched hdone i _ hi [a] _ (DenotesL.one ha) rfl

/-- `interleaving_correct` for `apply_ite_rec`: the edge denotes `applyIte gtT a b c` -/
theorem interleaving_ite_correct (gt : Edge → Edge → Bool) (gtT : TD → TD → Bool) {p : APolicy}
    (pok : p.OK) (st : St) (jobs : List Job) (hinv : Inv gtT st)
    (hops : OperandsOK st.store jobs) (sched : List Sel)
    (hdone : ((Cfg.init st jobs).run gt p sched).allDone = true)
    (i : Nat) (f g h : Edge) (hi : jobs[i]? = some (.ite f g h)) (a b c : TD)
    (ha : Denotes st.store f a) (hb : Denotes st.store g b) (hc : Denotes st.store h c) :
    ∃ r, ((Cfg.init st jobs).run gt p sched).tasks[i]? = some (.ret r) ∧
      Denotes ((Cfg.init st jobs).run gt p sched).st.store r (applyIte gtT a b c) :=
  interleaving_correct gt gtT pok st jobs hinv hops sched hdone i _ hi [a, b, c] _
    (DenotesL.three ha hb hc) rfl

/-- **Interleaved execution against the sequential store-level model** `Job.seq` = `applyS` /
`notS` / `iteS` (`StoreS.lean`, `IteS.lean`; their specification is `applyS_spec` / `notS_spec` /
`iteS_spec`). With `R` the sequential
run from the *start* state (any admissible policy `p'`, any edge order `gt'`, enough fuel) and `r`
the edge operation `i` holds after a complete schedule:

1. `r` and `R.2` denote the same tree `T` (hence the same three-valued function and the same
   diagram shape) in their respective stores;
2. if that tree was already present in the start store as edge `e`, then `r = e = R.2`;
3. if the start store has no redundant node: re-running the model in the *final* state of the
   schedule returns exactly `r` and leaves the store as it is.

(The stores themselves may differ in the slot numbers of the nodes created on the way, because
slots are handed out in the order of the `reduce` actions.) -/
theorem interleaving_vs_sequential (gt : Edge → Edge → Bool) (gtT : TD → TD → Bool) {p : APolicy}
    (pok : p.OK) (st : St) (jobs : List Job) (hinv : Inv gtT st)
    (hops : OperandsOK st.store jobs) (sched : List Sel)
    (hdone : ((Cfg.init st jobs).run gt p sched).allDone = true)
    (i : Nat) (j : Job) (hi : jobs[i]? = some j) (ts : List TD) (T : TD)
    (hts : DenotesL st.store j.operands ts) (hT : j.result gtT ts = some T)
    (gt' : Edge → Edge → Bool) {p' : APolicy} (pok' : p'.OK) (fuel : Nat)
    (hfuel : sizeSum ts ≤ fuel) :
    ∃ r, ((Cfg.init st jobs).run gt p sched).tasks[i]? = some (.ret r) ∧
      Denotes ((Cfg.init st jobs).run gt p sched).st.store r T ∧
      Denotes (j.seq gt' p' fuel st).1.store (j.seq gt' p' fuel st).2 T ∧
      (∀ e, Denotes st.store e T → r = e ∧ (j.seq gt' p' fuel st).2 = e) ∧
      (st.store.NoRed →
        (j.seq gt' p' fuel ((Cfg.init st jobs).run gt p sched).st).2 = r ∧
        (j.seq gt' p' fuel ((Cfg.init st jobs).run gt p sched).st).1.store =
          ((Cfg.init st jobs).run gt p sched).st.store) := by
  obtain ⟨r, hr, hden⟩ :=
    interleaving_correct gt gtT pok st jobs hinv hops sched hdone i j hi ts T hts hT
  obtain ⟨hu, hc, hle, hnr, _, _⟩ := interleaving_invariant gt gtT pok st jobs hinv hops sched
  have hseq := Job.seq_spec gt' pok' hinv hts hT fuel hfuel
  refine ⟨r, hr, hden, hseq.den, ?_, ?_⟩
  · intro e he
    exact ⟨inj_of_unique hu _ _ _ hden (he.mono hle),
      inj_of_unique hseq.inv.1 _ _ _ hseq.den (he.mono hseq.le)⟩
  · intro hr0
    have hre := Job.seq_spec (st := ((Cfg.init st jobs).run gt p sched).st) gt' pok' ⟨hu, hc⟩
      (hts.mono hle) hT fuel hfuel
    have hcan := hre.canon (hnr hr0)
    rw [intern_of_denotes hu (hnr hr0) hden] at hcan
    exact ⟨congrArg Prod.snd hcan, congrArg Prod.fst hcan⟩

/-- **Canonicity across threads**: two operations whose tree-level results coincide hold the *same
edge* after any complete schedule (e.g. `f ∧ g` by one thread and `g ∧ f` by another). -/
theorem same_function_same_edge (gt : Edge → Edge → Bool) (gtT : TD → TD → Bool) {p : APolicy}
    (pok : p.OK) (st : St) (jobs : List Job) (hinv : Inv gtT st)
    (hops : OperandsOK st.store jobs) (sched : List Sel)
    (hdone : ((Cfg.init st jobs).run gt p sched).allDone = true)
    (i1 i2 : Nat) (j1 j2 : Job) (h1 : jobs[i1]? = some j1) (h2 : jobs[i2]? = some j2)
    (ts1 ts2 : List TD) (T : TD) (hts1 : DenotesL st.store j1.operands ts1)
    (hts2 : DenotesL st.store j2.operands ts2) (hT1 : j1.result gtT ts1 = some T)
    (hT2 : j2.result gtT ts2 = some T) :
    ∃ r, ((Cfg.init st jobs).run gt p sched).tasks[i1]? = some (.ret r) ∧
      ((Cfg.init st jobs).run gt p sched).tasks[i2]? = some (.ret r) := by
  obtain ⟨r1, hr1, hd1⟩ :=
    interleaving_correct gt gtT pok st jobs hinv hops sched hdone i1 j1 h1 ts1 T hts1 hT1
  obtain ⟨r2, hr2, hd2⟩ :=
    interleaving_correct gt gtT pok st jobs hinv hops sched hdone i2 j2 h2 ts2 T hts2 hT2
  obtain ⟨hu, _⟩ := interleaving_invariant gt gtT pok st jobs hinv hops sched
  have := inj_of_unique hu _ _ _ hd1 hd2
  subst this
  exact ⟨r1, hr1, hr2⟩

/-! ## (c): interleaved cache inserts -/

/-- **Interleaved inserts agree.** At any moment of any schedule: if two tasks have finished
`reduce` for the same cache key and are about to execute `apply_cache().add`, they insert the same
edge (`Unique` ⇒ `Inj`: one tree, one edge); and if the cache already holds a value for that key,
it is that same edge. So the order of the inserts, and which of them survives in a lossy cache,
cannot be observed. -/
theorem interleaved_inserts_agree (gt : Edge → Edge → Bool) (gtT : TD → TD → Bool) {p : APolicy}
    (pok : p.OK) (st : St) (jobs : List Job) (hinv : Inv gtT st)
    (hops : OperandsOK st.store jobs) (sched : List Sel)
    (i1 i2 : Nat) (t1 t2 : Task)
    (h1 : ((Cfg.init st jobs).run gt p sched).tasks[i1]? = some t1)
    (h2 : ((Cfg.init st jobs).run gt p sched).tasks[i2]? = some t2)
    (key : Key) (r1 r2 : Edge) (hm1 : (key, r1) ∈ t1.mades) (hm2 : (key, r2) ∈ t2.mades) :
    r1 = r2 ∧ ∀ w, (key, w) ∈ ((Cfg.init st jobs).run gt p sched).st.cache → w = r1 := by
  obtain ⟨Ts, N, hj⟩ := jobsOK_of_operands gtT hops
  obtain ⟨N', hg, _, _⟩ := Cfg.run_good (gt := gt) (p := p) pok sched (init_good hinv hj)
  obtain ⟨T1, n1, _, hok1⟩ := hg.tasks.get h1
  obtain ⟨T2, n2, _, hok2⟩ := hg.tasks.get h2
  obtain ⟨U1, hk1, hd1⟩ := hok1.mades_ok key r1 hm1
  obtain ⟨U2, hk2, hd2⟩ := hok2.mades_ok key r2 hm2
  have := hk1.functional hk2
  subst this
  refine ⟨inj_of_unique hg.inv.1 _ _ _ hd1 hd2, fun w hw => ?_⟩
  obtain ⟨ts, T, e2, e3, e4⟩ := hg.inv.2 key w hw
  have := hk1.functional ⟨ts, e2, e3⟩
  subst this
  exact inj_of_unique hg.inv.1 _ _ _ e4 hd1

/-! ## termination -/

/-- the explicit step bound: `W |operand trees|` per operation (`W (k+1) = 3 * W k + 7`: worst
case, three recursive calls per level and no cache hit at all) -/
def stepBound (sizes : List Nat) : Nat := (sizes.map W).sum

theorem JobsOK.bound {s : Store} {js : List Job} {Ts : List TD} {N : Nat}
    (h : JobsOK gtT s js Ts N) :
    ∀ (size : Job → Nat), (∀ j ts, j ∈ js → DenotesL s j.operands ts → sizeSum ts ≤ size j) →
      N ≤ stepBound (js.map size) := by
  induction h with
  | nil => intro _ _; exact Nat.zero_le _
  | @cons j ts T js Ts N hts _ _ ih =>
    intro size hs
    have h1 := W_mono (hs j ts (List.mem_cons_self ..) hts)
    have h2 := ih size (fun j' ts' hj' => hs j' ts' (List.mem_cons_of_mem _ hj'))
    simp only [stepBound, List.map_cons, List.sum_cons] at h2 ⊢
    omega

/-- **Every schedule terminates**: a schedule in which every selection names a live task (an
enabled atomic action of an unfinished operation) has at most `stepBound` elements — a number that
depends only on the sizes of the operand trees, not on the schedule, the cache policy, or the
other operations. Hence every maximal run is finite. -/
theorem enabled_schedule_bounded (gt : Edge → Edge → Bool) (gtT : TD → TD → Bool) {p : APolicy}
    (pok : p.OK) (st : St) (jobs : List Job) (hinv : Inv gtT st)
    (hops : OperandsOK st.store jobs) (sched : List Sel)
    (hen : (Cfg.init st jobs).allEnabled gt p sched = true) (size : Job → Nat)
    (hsize : ∀ j ts, j ∈ jobs → DenotesL st.store j.operands ts → sizeSum ts ≤ size j) :
    sched.length ≤ stepBound (jobs.map size) := by
  obtain ⟨Ts, N, hj⟩ := jobsOK_of_operands gtT hops
  obtain ⟨N', _, _, hlen⟩ := Cfg.run_good (gt := gt) (p := p) pok sched (init_good hinv hj)
  have := hlen hen
  have := hj.bound size hsize
  omega

/-- a run is stuck (no selection enabled) exactly when all operations have returned: there is no
deadlock -/
theorem stuck_iff_done (c : Cfg) : (∀ sel, c.enabled sel = false) ↔ c.allDone = true :=
  (Cfg.allDone_iff_none_enabled c).symm

/-- a complete schedule exists (and by `enabled_schedule_bounded` every way of extending a
schedule by enabled selections reaches one) -/
theorem complete_schedule_exists (gt : Edge → Edge → Bool) (gtT : TD → TD → Bool) {p : APolicy}
    (pok : p.OK) (st : St) (jobs : List Job) (hinv : Inv gtT st)
    (hops : OperandsOK st.store jobs) :
    ∃ sched, (Cfg.init st jobs).allEnabled gt p sched = true ∧
      ((Cfg.init st jobs).run gt p sched).allDone = true := by
  obtain ⟨Ts, N, hj⟩ := jobsOK_of_operands gtT hops
  exact Cfg.complete_exists pok N (init_good hinv hj)

/-! ## non-vacuity: five concurrent operations on a concrete three-level store -/

def exGtT (a b : TD) : Bool := a.size > b.size

/-- `x0 ∧ x1` (Kleene): true child `x1`, unknown child `U ∧ x1`, false child `F` -/
def exF : TD := .node 0 (var 1) (.node 1 (.leaf .u) (.leaf .u) (.leaf .f)) (.leaf .f)
/-- a tree over `x1`, `x2`: `x1 ? ¬x2 : x2`, unknown ↦ `U` -/
def exG : TD := .node 1 (.node 2 (.leaf .f) (.leaf .u) (.leaf .t)) (.leaf .u) (var 2)

example : exF = applyBin exGtT .and (var 0) (var 1) := by decide +kernel

/-- `#0 = x1`, `#1 = U ∧ x1`, `#2 = F`, `#3 = ¬x2`, `#4 = x2`, `#5 = G` -/
def exStore : Store := (intern (intern Store.empty exF).1 exG).1

example : exStore.nodes =
    #[some ⟨1, .term .t, .term .u, .term .f⟩, some ⟨1, .term .u, .term .u, .term .f⟩,
      some ⟨0, .inner 0, .inner 1, .term .f⟩, some ⟨2, .term .f, .term .u, .term .t⟩,
      some ⟨2, .term .t, .term .u, .term .f⟩, some ⟨1, .inner 3, .term .u, .inner 4⟩] := by
  decide +kernel

theorem exStore_unique : exStore.Unique :=
  intern_unique _ _ (intern_unique _ _ Store.empty_unique)
theorem exStore_nored : exStore.NoRed := intern_nored _ _ (intern_nored _ _ Store.empty_nored)

def exSt : St := ⟨exStore, [], 0⟩
theorem exSt_inv : Inv exGtT exSt := ⟨exStore_unique, CacheOK.nil _ _⟩

def eF : Edge := .inner 2
def eG : Edge := .inner 5

theorem exStore_F : Denotes exStore eF exF := unfold_sound 3 _ _ (by decide +kernel)
theorem exStore_G : Denotes exStore eG exG := unfold_sound 3 _ _ (by decide +kernel)

/-- a lossy direct-mapped cache: one bucket per operand count -/
def exPol : APolicy := Policy.dm 4 (fun k => k.2.length) (fun _ => true)
theorem exPol_ok : exPol.OK := Policy.dm_ok _ _ _

/-- five user threads: 0: `F ⊕ G`; 1: `G ∧ F`; 2: `G ⊕ F`; 3: `¬F`; 4: `G ⊼ G` (a terminal case of
`terminal_bin::<Nand>` that delegates to `apply_not`). `apply_bin` of 0, 1, 2 recurses at levels
0, 1 and 2 (and from there into `apply_not`). -/
def exJobs : List Job :=
  [.bin .xor eF eG, .bin .and eG eF, .bin .xor eG eF, .not eF, .bin .nand eG eG]

theorem exFG : DenotesL exStore [eF, eG] [exF, exG] := .two exStore_F exStore_G
theorem exGF : DenotesL exStore [eG, eF] [exG, exF] := .two exStore_G exStore_F
theorem exGG : DenotesL exStore [eG, eG] [exG, exG] := .two exStore_G exStore_G
theorem exF1 : DenotesL exStore [eF] [exF] := .one exStore_F

theorem exOps : OperandsOK exSt.store exJobs := by
  intro j hj
  simp only [exJobs, List.mem_cons, List.mem_nil_iff, or_false] at hj
  rcases hj with h | h | h | h | h <;> subst h
  · exact ⟨_, exFG⟩
  · exact ⟨_, exGF⟩
  · exact ⟨_, exGF⟩
  · exact ⟨_, exF1⟩
  · exact ⟨_, exGG⟩

abbrev exCfg : Cfg := Cfg.init exSt exJobs

/-- 30 rounds of 7 selections; the third and the last selection of a round vary with the round, so
the threads advance at different speeds and their atomic actions are properly interleaved -/
def exSched : List Sel :=
  (List.range 30).flatMap fun k => [0, 1, k % 5, 2, 3, 4, (k + 2) % 3]

/-- after 40 selections: thread 0 is three frames deep (levels 0, 1, 2 — `apply_bin` recursed twice
and then went into `apply_not` of `¬x2` through `terminal_bin`'s `Not` answer), thread 1 holds two
results of its level-1 frame and runs the third call, thread 4 is two frames deep in `apply_not` -/
example : (exCfg.run Edge.gtIdx exPol (exSched.take 40)).tasks[0]? =
      some (.seq2 ⟨(.xor, [.inner 2, .inner 5]), 0⟩ (.bin .xor (.inner 1) (.inner 5))
        (.bin .xor (.term .f) (.inner 5))
        (.seq2 ⟨(.xor, [.inner 0, .inner 5]), 1⟩ (.bin .xor (.term .u) (.term .u))
          (.bin .xor (.term .f) (.inner 4))
          (.seq1 ⟨(.not, [.inner 3]), 2⟩ (.term .t) (.not (.term .t)) (.ret (.term .u))))) ∧
    (exCfg.run Edge.gtIdx exPol (exSched.take 40)).tasks[1]? =
      some (.seq2 ⟨(.and, [.inner 2, .inner 5]), 0⟩ (.bin .and (.inner 5) (.inner 1))
        (.bin .and (.inner 5) (.term .f))
        (.seq0 ⟨(.and, [.inner 0, .inner 5]), 1⟩ (.inner 3) (.term .u)
          (.call (.bin .and (.inner 4) (.term .f))))) ∧
    (exCfg.run Edge.gtIdx exPol (exSched.take 40)).tasks[4]? =
      some (.seq2 ⟨(.not, [.inner 5]), 1⟩ (.not (.term .u)) (.not (.inner 4))
        (.seq2 ⟨(.not, [.inner 3]), 2⟩ (.not (.term .u)) (.not (.term .t))
          (.ret (.term .t)))) := by decide +kernel

theorem exDone : (exCfg.run Edge.gtIdx exPol exSched).allDone = true := by decide +kernel

/-- the results: `F ⊕ G = G ⊕ F = #17` (same edge), `G ∧ F = #15`, `¬F = #12`, `G ⊼ G = ¬G = #14`;
twelve nodes were created, the lossy cache kept two entries -/
example : (exCfg.run Edge.gtIdx exPol exSched).tasks =
      [.ret (.inner 17), .ret (.inner 15), .ret (.inner 17), .ret (.inner 12), .ret (.inner 14)] ∧
    (exCfg.run Edge.gtIdx exPol exSched).st.store.nodes.size = 18 ∧
    (exCfg.run Edge.gtIdx exPol exSched).st.cache.length = 2 := by decide +kernel

/-- `interleaving_invariant` at an intermediate configuration -/
example := interleaving_invariant Edge.gtIdx exGtT exPol_ok exSt exJobs exSt_inv exOps
  (exSched.take 40)

/-- `interleaving_bin_correct`: thread 0's edge (`#17`) denotes `F ⊕ G` in the final store;
`interleaving_not_correct`: thread 3's edge (`#12`) denotes `¬F` -/
example := interleaving_bin_correct Edge.gtIdx exGtT exPol_ok exSt exJobs exSt_inv exOps exSched
  exDone 0 .xor eF eG rfl exF exG exStore_F exStore_G
example := interleaving_not_correct Edge.gtIdx exGtT exPol_ok exSt exJobs exSt_inv exOps exSched
  exDone 3 eF rfl exF exStore_F

/-- `interleaving_vs_sequential` for thread 0 against the model `applyS` with the exact cache and
the reversed edge order; the sequential run from the start state returns `#9` — the same tree in
another slot —, the re-run in the final state returns the machine's edge `#17` -/
example := interleaving_vs_sequential Edge.gtIdx exGtT exPol_ok exSt exJobs exSt_inv exOps exSched
  exDone 0 (.bin .xor eF eG) rfl [exF, exG] _ exFG rfl (fun a b => Edge.gtIdx b a) Policy.exact_ok
  20 (by decide)
example : (Job.seq Edge.gtIdx Policy.exact 20 exSt (.bin .xor eF eG)).2 = .inner 9 ∧
    (Job.seq Edge.gtIdx Policy.exact 20 (exCfg.run Edge.gtIdx exPol exSched).st
      (.bin .xor eF eG)).2 = .inner 17 := by decide +kernel

/-- `same_function_same_edge`: threads 0 (`F ⊕ G`) and 2 (`G ⊕ F`) -/
example := same_function_same_edge Edge.gtIdx exGtT exPol_ok exSt exJobs exSt_inv exOps exSched
  exDone 0 2 (.bin .xor eF eG) (.bin .xor eG eF) rfl rfl [exF, exG] [exG, exF] _ exFG exGF rfl
  (congrArg some (applyBin_comm exGtT exGtT .xor rfl _ exF exG (Nat.le_refl _)))

/-- `interleaved_inserts_agree`: after 172 selections threads 0 and 2 have both finished `reduce`
for the sub-problem with key `(Xor, [#1, #5])` (the unknown branch of their level-0 frames) and are
both about to insert the entry `↦ #16` -/
example : (exCfg.run Edge.gtIdx exPol (exSched.take 172)).tasks.map Task.mades =
    [[((.xor, [.inner 1, .inner 5]), .inner 16)], [], [((.xor, [.inner 1, .inner 5]), .inner 16)],
     [], []] := by decide +kernel
def exT (i : Nat) : Task :=
  ((exCfg.run Edge.gtIdx exPol (exSched.take 172)).tasks[i]?).getD (.ret eF)
example := interleaved_inserts_agree Edge.gtIdx exGtT exPol_ok exSt exJobs exSt_inv exOps
  (exSched.take 172) 0 2 (exT 0) (exT 2) (by decide +kernel) (by decide +kernel)
  (.xor, [.inner 1, .inner 5]) (.inner 16) (.inner 16) (by decide +kernel) (by decide +kernel)

/-- the schedule without the selections that were not enabled -/
def prune (gt : Edge → Edge → Bool) (p : APolicy) : Cfg → List Sel → List Sel
  | _, [] => []
  | c, s :: ss => if c.enabled s then s :: prune gt p (c.step gt p s) ss else prune gt p c ss

/-- `enabled_schedule_bounded`: the enabled selections of `exSched` (170 atomic actions and local
transitions); the theorem bounds every such schedule by `5 * W 20` -/
example : exCfg.allEnabled Edge.gtIdx exPol (prune Edge.gtIdx exPol exCfg exSched) = true ∧
    (prune Edge.gtIdx exPol exCfg exSched).length = 170 := by decide +kernel
example := enabled_schedule_bounded Edge.gtIdx exGtT exPol_ok exSt exJobs exSt_inv exOps
  (prune Edge.gtIdx exPol exCfg exSched) (by decide +kernel) (fun _ => 20) (by
    intro j ts hj hts
    simp only [exJobs, List.mem_cons, List.mem_nil_iff, or_false] at hj
    rcases hj with h | h | h | h | h <;> subst h
    · rw [DenotesL.functional hts exFG]; decide
    · rw [DenotesL.functional hts exGF]; decide
    · rw [DenotesL.functional hts exGF]; decide
    · rw [DenotesL.functional hts exF1]; decide
    · rw [DenotesL.functional hts exGG]; decide)

example := complete_schedule_exists Edge.gtIdx exGtT exPol_ok exSt exJobs exSt_inv exOps
example := (stuck_iff_done (exCfg.run Edge.gtIdx exPol exSched)).mpr exDone

/-! ## non-vacuity with `apply_ite_rec`: six concurrent operations, four of them `ite` -/

def eX2 : Edge := .inner 4
def eNX2 : Edge := .inner 3
def exNX2 : TD := .node 2 (.leaf .f) (.leaf .u) (.leaf .t)

theorem exStore_X2 : Denotes exStore eX2 (var 2) := unfold_sound 3 _ _ (by decide +kernel)
theorem exStore_NX2 : Denotes exStore eNX2 exNX2 := unfold_sound 3 _ _ (by decide +kernel)

/-- 0 and 5: `ite F G x2` (recurses at levels 0, 1, 2; lower calls end in the early returns that
delegate to `apply_bin::<Or|…>`); 1: `ite G F ¬x2`; 2: `ite F F G` (early return `f == g`:
delegation to `apply_bin::<Or>(F, G)`); 3: `ite x2 F T` (early return: delegation to
`apply_not(x2)`); 4: `F ∨ G` directly -/
def exJobs2 : List Job :=
  [.ite eF eG eX2, .ite eG eF eNX2, .ite eF eF eG, .ite eX2 (.term .f) (.term .t),
   .bin .or eF eG, .ite eF eG eX2]

theorem exFGX : DenotesL exStore [eF, eG, eX2] [exF, exG, var 2] :=
  .three exStore_F exStore_G exStore_X2
theorem exGFN : DenotesL exStore [eG, eF, eNX2] [exG, exF, exNX2] :=
  .three exStore_G exStore_F exStore_NX2
theorem exFFG : DenotesL exStore [eF, eF, eG] [exF, exF, exG] :=
  .three exStore_F exStore_F exStore_G
theorem exXFT : DenotesL exStore [eX2, .term .f, .term .t] [var 2, .leaf .f, .leaf .t] :=
  .three exStore_X2 .term .term

theorem exOps2 : OperandsOK exSt.store exJobs2 := by
  intro j hj
  simp only [exJobs2, List.mem_cons, List.mem_nil_iff, or_false] at hj
  rcases hj with h | h | h | h | h | h <;> subst h
  · exact ⟨_, exFGX⟩
  · exact ⟨_, exGFN⟩
  · exact ⟨_, exFFG⟩
  · exact ⟨_, exXFT⟩
  · exact ⟨_, exFG⟩
  · exact ⟨_, exFGX⟩

abbrev exCfg2 : Cfg := Cfg.init exSt exJobs2

/-- 40 rounds of 9 selections, two of them varying with the round -/
def exSched2 : List Sel :=
  (List.range 40).flatMap fun k => [0, 1, k % 6, 2, 1, 5, 3, 4, (k + 1) % 2]

/-- after 30 selections thread 0 is two `ite` frames deep (levels 0 and 1), holds the true-result
`#3` of the inner frame and is at the entry of the unknown-call `ite U U x2` -/
example : (exCfg2.run Edge.gtIdx exPol (exSched2.take 30)).tasks[0]? =
    some (.seq2 ⟨(.ite, [.inner 2, .inner 5, .inner 4]), 0⟩
      (.ite (.inner 1) (.inner 5) (.inner 4)) (.ite (.term .f) (.inner 5) (.inner 4))
      (.seq1 ⟨(.ite, [.inner 0, .inner 5, .inner 4]), 1⟩ (.inner 3)
        (.ite (.term .f) (.inner 4) (.inner 4))
        (.call (.ite (.term .u) (.term .u) (.inner 4))))) := by decide +kernel

theorem exDone2 : (exCfg2.run Edge.gtIdx exPol exSched2).allDone = true := by decide +kernel

/-- the results: threads 0 and 5 the same edge `#17`; `ite F F G = F ∨ G = #16` from threads 2 and
4; `ite x2 F T = ¬x2 = #3` (already in the store); 15 nodes created, 3 cache entries kept -/
example : (exCfg2.run Edge.gtIdx exPol exSched2).tasks =
      [.ret (.inner 17), .ret (.inner 20), .ret (.inner 16), .ret (.inner 3), .ret (.inner 16),
       .ret (.inner 17)] ∧
    (exCfg2.run Edge.gtIdx exPol exSched2).st.store.nodes.size = 21 ∧
    (exCfg2.run Edge.gtIdx exPol exSched2).st.cache.length = 3 := by decide +kernel

example := interleaving_invariant Edge.gtIdx exGtT exPol_ok exSt exJobs2 exSt_inv exOps2
  (exSched2.take 30)

/-- `interleaving_ite_correct`: thread 0's edge `#17` denotes `applyIte F G x2` -/
example := interleaving_ite_correct Edge.gtIdx exGtT exPol_ok exSt exJobs2 exSt_inv exOps2 exSched2
  exDone2 0 eF eG eX2 rfl exF exG (var 2) exStore_F exStore_G exStore_X2

/-- `interleaving_vs_sequential` for thread 1 against `iteS` with the exact cache -/
example := interleaving_vs_sequential Edge.gtIdx exGtT exPol_ok exSt exJobs2 exSt_inv exOps2
  exSched2 exDone2 1 (.ite eG eF eNX2) rfl [exG, exF, exNX2] _ exGFN rfl Edge.gtIdx
  Policy.exact_ok 24 (by decide)

/-- `same_function_same_edge`: thread 2 (`ite F F G`) and thread 4 (`F ∨ G`) -/
example := same_function_same_edge Edge.gtIdx exGtT exPol_ok exSt exJobs2 exSt_inv exOps2 exSched2
  exDone2 2 4 (.ite eF eF eG) (.bin .or eF eG) rfl rfl [exF, exF, exG] [exF, exG]
  (applyBin exGtT .or exF exG) exFFG exFG (by decide +kernel) rfl

/-- `interleaved_inserts_agree`: after 80 selections thread 2 (inside `ite`'s delegation to
`apply_bin::<Or>`) and thread 4 have both finished `reduce` for the key `(Or, [#0, #5])` and are
both about to insert `↦ #8` -/
example : (exCfg2.run Edge.gtIdx exPol (exSched2.take 80)).tasks.map Task.mades =
    [[((.or, [.term .u, .inner 4]), .inner 7)], [], [((.or, [.inner 0, .inner 5]), .inner 8)], [],
     [((.or, [.inner 0, .inner 5]), .inner 8)], []] := by decide +kernel

end OxiddModel.Tdd.Threads
