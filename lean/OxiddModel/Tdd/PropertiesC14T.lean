import OxiddModel.Tdd.ThresholdS
import OxiddModel.Tdd.PropertiesC05R

/-!
# C14 for TDDs: the out-of-memory threshold of `apply_not`, `apply_bin`, `apply_ite_rec`, exactly

For the TDD algorithms on the store of ternary nodes with counters and a node capacity
(`Tdd/RcS.lean`; `none` = unbounded) — for all stores, counter arrays, cache policies and contents,
operands, fuels and capacities:

* (c) `…_oom_iff_needed`, `…_threshold_exact`: with `needed` := the number of nodes the
  capacity-free algorithm (`StoreS.lean`, `IteS.lean`) allocates from the same state, the capped
  run reports OutOfMemory **iff** `0 < needed ∧ cap < count + needed`;
* (b) `…_monotone`; (d) `…_success_is_uncapped`;
* (a) `…_failure_clean`: after a failure the counters are exact for the caller's unchanged
  references, nothing disappeared, and a collection leaves exactly the nodes reachable from the
  caller's references in the store **before** the call, with their contents — the store a
  collection before the call leaves.
-/
set_option linter.unusedSectionVars false

namespace OxiddModel.Tdd.C14T
open OxiddModel.Tdd OxiddModel.Tdd.TD OxiddModel.Tdd.Refine OxiddModel.Tdd.Rc
open OxiddModel.CachePolicy OxiddModel

/-- nodes a capacity-free run started in store `s` has added -/
def growth (s : Store) (S : St × Edge) : Nat := slotCount S.1.store.nodes - slotCount s.nodes

def neededNot (p : APolicy) (fuel : Nat) (st : St) (f : Edge) : Nat :=
  growth st.store (notS p fuel st f)

def neededApply (gt : Edge → Edge → Bool) (tg : BinOp → TDDOp) (p : APolicy) (op : BinOp)
    (fuel : Nat) (st : St) (f g : Edge) : Nat :=
  growth st.store (applyS gt tg p op fuel st f g)

def neededIte (gt : Edge → Edge → Bool) (tg : BinOp → TDDOp) (p : APolicy) (fuel : Nat) (st : St)
    (f g h : Edge) : Nat :=
  growth st.store (iteS gt tg p fuel st f g h)

/-- the capacity is exceeded by `n` occupied slots -/
def exceeded : Option Nat → Nat → Prop
  | none, _ => False
  | some c, n => c < n

/-! ## structural part -/

section
variable {cap : Option Nat} {s : Store} {R : Option Edge × RSt} {S : St × Edge}

theorem thr_oom_iff (h : Thr cap s R S) (m : Grows s S.1.store) :
    R.1 = none ↔ 0 < growth s S ∧ exceeded cap (slotCount s.nodes + growth s S) := by
  unfold Thr Fits at h
  unfold Grows at m
  unfold growth
  cases hR : R.1 with
  | none =>
    rw [hR] at h
    simp only [Option.isSome_none, Bool.false_eq_true, false_iff] at h
    simp only [true_iff]
    cases cap with
    | none => exact absurd (.inl trivial) h
    | some c => simp only [within, exceeded] at *; omega
  | some e =>
    rw [hR] at h
    simp only [Option.isSome_some, true_iff] at h
    simp only [reduceCtorEq, false_iff]
    cases cap with
    | none => simp [exceeded]
    | some c => simp only [within, exceeded] at *; omega

theorem thr_ok_iff (h : Thr cap s R S) (e : Erases R S) (m : Grows s S.1.store) :
    (R.1 = some S.2 ∧ R.2.st = S.1) ↔
      ¬ (0 < growth s S ∧ exceeded cap (slotCount s.nodes + growth s S)) := by
  rw [← thr_oom_iff h m]
  constructor
  · rintro ⟨h1, _⟩ h2; rw [h1] at h2; cases h2
  · intro hn
    cases hR : R.1 with
    | none => exact absurd hR hn
    | some x =>
      have := e x hR
      rw [this]
      exact ⟨rfl, rfl⟩
end

theorem thr_monotone {cap cap' : Option Nat} {s : Store} {R R' : Option Edge × RSt}
    {S : St × Edge} (h : Thr cap s R S) (h' : Thr cap' s R' S) (e : Erases R S)
    (e' : Erases R' S) (hc : capLe cap cap') {x : Edge} (hx : R.1 = some x) :
    R'.1 = some x ∧ R'.2.st = R.2.st := by
  have hf : Fits cap s S.1.store := h.mp (by rw [hx]; rfl)
  have hs' : R'.1.isSome = true := h'.mpr (hf.mono hc)
  obtain ⟨y, hy⟩ := Option.isSome_iff_exists.mp hs'
  have a := e x hx
  have b := e' y hy
  rw [a] at b
  simp only [Prod.mk.injEq] at b
  exact ⟨by rw [hy, b.2], b.1.symm⟩

/-! ## (c) the threshold -/

/-- **`apply_bin::<OP>` reports OutOfMemory iff it allocates at least one node and the capacity is
below `count + needed`** — no hypothesis on the state. -/
theorem apply_oom_iff_needed (gt : Edge → Edge → Bool) (tg : BinOp → TDDOp) (cap : Option Nat)
    (p : APolicy) (op : BinOp) (fuel : Nat) (r : RSt) (f g : Edge) :
    (applyR gt tg cap p op fuel r f g).1 = none ↔
      0 < neededApply gt tg p op fuel r.st f g ∧
      exceeded cap (r.numInner + neededApply gt tg p op fuel r.st f g) :=
  thr_oom_iff (applyR_thr gt tg cap p op fuel r f g) (applyS_grows gt tg p op fuel r.st f g)

theorem not_oom_iff_needed (cap : Option Nat) (p : APolicy) (fuel : Nat) (r : RSt) (f : Edge) :
    (notR cap p fuel r f).1 = none ↔
      0 < neededNot p fuel r.st f ∧ exceeded cap (r.numInner + neededNot p fuel r.st f) :=
  thr_oom_iff (notR_thr cap p fuel r f) (notS_grows p fuel r.st f)

theorem ite_oom_iff_needed (gt : Edge → Edge → Bool) (tg : BinOp → TDDOp) (cap : Option Nat)
    (p : APolicy) (fuel : Nat) (r : RSt) (f g h : Edge) :
    (iteR gt tg cap p fuel r f g h).1 = none ↔
      0 < neededIte gt tg p fuel r.st f g h ∧
      exceeded cap (r.numInner + neededIte gt tg p fuel r.st f g h) :=
  thr_oom_iff (iteR_thr gt tg cap p fuel r f g h) (iteS_grows gt tg p fuel r.st f g h)

/-- **the minimal capacity of `apply_ite_rec` is `count + needed`** -/
theorem ite_threshold_exact (gt : Edge → Edge → Bool) (tg : BinOp → TDDOp) (p : APolicy)
    (fuel : Nat) (r : RSt) (f g h : Edge) :
    (∀ c, r.numInner ≤ c → c < r.numInner + neededIte gt tg p fuel r.st f g h →
      (iteR gt tg (some c) p fuel r f g h).1 = none) ∧
    (∀ c, r.numInner + neededIte gt tg p fuel r.st f g h ≤ c →
      (iteR gt tg (some c) p fuel r f g h).1 = some (iteS gt tg p fuel r.st f g h).2 ∧
      (iteR gt tg (some c) p fuel r f g h).2.st = (iteS gt tg p fuel r.st f g h).1) := by
  constructor
  · intro c hc hk
    rw [ite_oom_iff_needed]
    show 0 < neededIte gt tg p fuel r.st f g h ∧ c < r.numInner + neededIte gt tg p fuel r.st f g h
    omega
  · intro c hk
    apply (thr_ok_iff (iteR_thr gt tg (some c) p fuel r f g h) (iteR_erase' gt tg (some c) p fuel r f g h)
      (iteS_grows gt tg p fuel r.st f g h)).mpr
    show ¬ (0 < neededIte gt tg p fuel r.st f g h ∧ c < r.numInner + neededIte gt tg p fuel r.st f g h)
    omega

theorem apply_threshold_exact (gt : Edge → Edge → Bool) (tg : BinOp → TDDOp) (p : APolicy)
    (op : BinOp) (fuel : Nat) (r : RSt) (f g : Edge) :
    (∀ c, r.numInner ≤ c → c < r.numInner + neededApply gt tg p op fuel r.st f g →
      (applyR gt tg (some c) p op fuel r f g).1 = none) ∧
    (∀ c, r.numInner + neededApply gt tg p op fuel r.st f g ≤ c →
      (applyR gt tg (some c) p op fuel r f g).1 = some (applyS gt tg p op fuel r.st f g).2 ∧
      (applyR gt tg (some c) p op fuel r f g).2.st = (applyS gt tg p op fuel r.st f g).1) := by
  constructor
  · intro c hc hk
    rw [apply_oom_iff_needed]
    show 0 < neededApply gt tg p op fuel r.st f g ∧ c < r.numInner + neededApply gt tg p op fuel r.st f g
    omega
  · intro c hk
    apply (thr_ok_iff (applyR_thr gt tg (some c) p op fuel r f g)
      (applyR_erase' gt tg (some c) p op fuel r f g) (applyS_grows gt tg p op fuel r.st f g)).mpr
    show ¬ (0 < neededApply gt tg p op fuel r.st f g ∧ c < r.numInner + neededApply gt tg p op fuel r.st f g)
    omega

theorem not_threshold_exact (p : APolicy) (fuel : Nat) (r : RSt) (f : Edge) :
    (∀ c, r.numInner ≤ c → c < r.numInner + neededNot p fuel r.st f →
      (notR (some c) p fuel r f).1 = none) ∧
    (∀ c, r.numInner + neededNot p fuel r.st f ≤ c →
      (notR (some c) p fuel r f).1 = some (notS p fuel r.st f).2 ∧
      (notR (some c) p fuel r f).2.st = (notS p fuel r.st f).1) := by
  constructor
  · intro c hc hk
    rw [not_oom_iff_needed]
    show 0 < neededNot p fuel r.st f ∧ c < r.numInner + neededNot p fuel r.st f
    omega
  · intro c hk
    apply (thr_ok_iff (notR_thr (some c) p fuel r f) (notR_erase' (some c) p fuel r f)
      (notS_grows p fuel r.st f)).mpr
    show ¬ (0 < neededNot p fuel r.st f ∧ c < r.numInner + neededNot p fuel r.st f)
    omega

/-! ## (b) monotonicity, (d) success = capacity-free run -/

theorem apply_monotone (gt : Edge → Edge → Bool) (tg : BinOp → TDDOp) (p : APolicy) (op : BinOp)
    (fuel : Nat) (r : RSt) (f g x : Edge) {cap cap' : Option Nat} (hc : capLe cap cap')
    (hx : (applyR gt tg cap p op fuel r f g).1 = some x) :
    (applyR gt tg cap' p op fuel r f g).1 = some x ∧
    (applyR gt tg cap' p op fuel r f g).2.st = (applyR gt tg cap p op fuel r f g).2.st :=
  thr_monotone (applyR_thr gt tg cap p op fuel r f g) (applyR_thr gt tg cap' p op fuel r f g)
    (applyR_erase' gt tg cap p op fuel r f g) (applyR_erase' gt tg cap' p op fuel r f g) hc hx

theorem not_monotone (p : APolicy) (fuel : Nat) (r : RSt) (f x : Edge) {cap cap' : Option Nat}
    (hc : capLe cap cap') (hx : (notR cap p fuel r f).1 = some x) :
    (notR cap' p fuel r f).1 = some x ∧ (notR cap' p fuel r f).2.st = (notR cap p fuel r f).2.st :=
  thr_monotone (notR_thr cap p fuel r f) (notR_thr cap' p fuel r f)
    (notR_erase' cap p fuel r f) (notR_erase' cap' p fuel r f) hc hx

theorem ite_monotone (gt : Edge → Edge → Bool) (tg : BinOp → TDDOp) (p : APolicy) (fuel : Nat)
    (r : RSt) (f g h x : Edge) {cap cap' : Option Nat} (hc : capLe cap cap')
    (hx : (iteR gt tg cap p fuel r f g h).1 = some x) :
    (iteR gt tg cap' p fuel r f g h).1 = some x ∧
    (iteR gt tg cap' p fuel r f g h).2.st = (iteR gt tg cap p fuel r f g h).2.st :=
  thr_monotone (iteR_thr gt tg cap p fuel r f g h) (iteR_thr gt tg cap' p fuel r f g h)
    (iteR_erase' gt tg cap p fuel r f g h) (iteR_erase' gt tg cap' p fuel r f g h) hc hx

/-- (d) a successful capped run is the capacity-free run -/
theorem ite_success_is_uncapped (gt : Edge → Edge → Bool) (tg : BinOp → TDDOp) (cap : Option Nat)
    (p : APolicy) (fuel : Nat) (r : RSt) (f g h x : Edge)
    (hx : (iteR gt tg cap p fuel r f g h).1 = some x) :
    iteS gt tg p fuel r.st f g h = ((iteR gt tg cap p fuel r f g h).2.st, x) :=
  iteR_erase' gt tg cap p fuel r f g h x hx

/-! ## (a) a failure leaves the manager intact -/

theorem reach_has {r : RSt} {ext : List Edge} (h : RcInv r ext) {x : Edge}
    (hr : Reach r.st.store ext x) : Has r.st.store x := by
  induction hr with
  | root hm => exact h.ext_ok _ hm
  | kid _ hp hch ih =>
    obtain ⟨a, b, c⟩ := h.kids_ok _ _ hp
    rcases hch with hch | hch | hch
    · rw [hch] at a; exact a
    · rw [hch] at b; exact b
    · rw [hch] at c; exact c

theorem reach_le_iff {r : RSt} {ext : List Edge} (h : RcInv r ext) {s' : Store}
    (hle : r.st.store.Le s') (x : Edge) : Reach s' ext x ↔ Reach r.st.store ext x := by
  constructor
  · intro hr
    induction hr with
    | root hm => exact .root hm
    | kid _ hp hch ih =>
      obtain ⟨n0, hn0⟩ := reach_has h ih
      have := hle _ _ hn0
      have hp' : Slots.get? s'.nodes _ = some _ := hp
      rw [this] at hp'
      cases hp'
      exact .kid ih hn0 hch
  · intro hr
    induction hr with
    | root hm => exact .root hm
    | kid _ hp hch ih => exact .kid ih (hle _ _ hp) hch

/-- a failed call `R`: counters exact for the same references, nothing removed, and a collection
afterwards leaves slot by slot the store a collection before the call leaves -/
theorem failure_clean_of {N : Nat} {r : RSt} {ext : List Edge} {R : Option Edge × RSt}
    (hi : RcInv r ext) (hord0 : OrdInv N r) (hpost : RcPost r ext R) (hord : OrdInv N R.2)
    (herr : R.1 = none) :
    RcInv R.2 ext ∧ r.st.store.Le R.2.st.store ∧
    RcInv (gcR N R.2) ext ∧ RcInv (gcR N r) ext ∧
    (∀ i, (∃ n, (gcR N R.2).st.store.get? i = some n) ↔ Reach r.st.store ext (.inner i)) ∧
    (∀ i, (gcR N R.2).st.store.get? i = (gcR N r).st.store.get? i) := by
  have hle := hpost.1
  have hinv : RcInv R.2 ext := by
    have h2 := hpost.2
    obtain ⟨o, r'⟩ := R
    simp only at herr
    subst herr
    exact h2
  obtain ⟨g1, g2, g3, _⟩ := C05R.gcR_exact N R.2 ext hinv hord.ord hord.bound
  obtain ⟨k1, k2, k3, _⟩ := C05R.gcR_exact N r ext hi hord0.ord hord0.bound
  have key : ∀ i, (∃ n, (gcR N R.2).st.store.get? i = some n) ↔ Reach r.st.store ext (.inner i) :=
    fun i => (g2 i).trans (reach_le_iff hi hle _)
  refine ⟨hinv, hle, g1, k1, key, ?_⟩
  intro i
  by_cases hr : Reach r.st.store ext (.inner i)
  · obtain ⟨n, hn⟩ := (k2 i).mpr hr
    have hn0 := k3 i n hn
    obtain ⟨m, hm⟩ := (key i).mpr hr
    have a := g3 i m hm
    have b := hle i n hn0
    have a' : Slots.get? R.2.st.store.nodes i = some m := a
    rw [b] at a'
    cases a'
    rw [hm, hn]
  · have a : (gcR N r).st.store.get? i = none := by
      cases h : (gcR N r).st.store.get? i with
      | none => rfl
      | some n => exact absurd ((k2 i).mp ⟨n, h⟩) hr
    have b : (gcR N R.2).st.store.get? i = none := by
      cases h : (gcR N R.2).st.store.get? i with
      | none => rfl
      | some n => exact absurd ((key i).mp ⟨n, h⟩) hr
    rw [a, b]

/-- **(a) for `apply_ite_rec`** -/
theorem ite_failure_clean (gt : Edge → Edge → Bool) (tg : BinOp → TDDOp) {p : APolicy}
    (pok : p.OK) (N : Nat) (cap : Option Nat) (fuel : Nat) (r : RSt) (f g h : Edge)
    (ext : List Edge) (hi : RcInv r ext) (ho : OrdInv N r) (hf : f ∈ ext) (hg : g ∈ ext)
    (hh : h ∈ ext) (herr : (iteR gt tg cap p fuel r f g h).1 = none) :
    RcInv (iteR gt tg cap p fuel r f g h).2 ext ∧
    r.st.store.Le (iteR gt tg cap p fuel r f g h).2.st.store ∧
    RcInv (gcR N (iteR gt tg cap p fuel r f g h).2) ext ∧ RcInv (gcR N r) ext ∧
    (∀ i, (∃ n, (gcR N (iteR gt tg cap p fuel r f g h).2).st.store.get? i = some n) ↔
      Reach r.st.store ext (.inner i)) ∧
    (∀ i, (gcR N (iteR gt tg cap p fuel r f g h).2).st.store.get? i = (gcR N r).st.store.get? i) :=
  failure_clean_of hi ho
    (iteR_rc gt tg pok cap fuel r f g h ext hi (hi.ext_ok f hf) (hi.ext_ok g hg) (hi.ext_ok h hh))
    (iteR_ord gt tg pok N cap fuel r f g h ext 0 hi ho (has_above_zero (hi.ext_ok f hf))
      (has_above_zero (hi.ext_ok g hg)) (has_above_zero (hi.ext_ok h hh))).1 herr

/-- **(a) for `apply_bin::<OP>`** -/
theorem apply_failure_clean (gt : Edge → Edge → Bool) (tg : BinOp → TDDOp) {p : APolicy}
    (pok : p.OK) (N : Nat) (cap : Option Nat) (op : BinOp) (fuel : Nat) (r : RSt) (f g : Edge)
    (ext : List Edge) (hi : RcInv r ext) (ho : OrdInv N r) (hf : f ∈ ext) (hg : g ∈ ext)
    (herr : (applyR gt tg cap p op fuel r f g).1 = none) :
    RcInv (applyR gt tg cap p op fuel r f g).2 ext ∧
    r.st.store.Le (applyR gt tg cap p op fuel r f g).2.st.store ∧
    RcInv (gcR N (applyR gt tg cap p op fuel r f g).2) ext ∧ RcInv (gcR N r) ext ∧
    (∀ i, (∃ n, (gcR N (applyR gt tg cap p op fuel r f g).2).st.store.get? i = some n) ↔
      Reach r.st.store ext (.inner i)) ∧
    (∀ i, (gcR N (applyR gt tg cap p op fuel r f g).2).st.store.get? i = (gcR N r).st.store.get? i) :=
  failure_clean_of hi ho
    (applyR_rc gt tg pok cap op fuel r f g ext hi (hi.ext_ok f hf) (hi.ext_ok g hg))
    (applyR_ord gt tg pok N cap op fuel r f g ext 0 hi ho (has_above_zero (hi.ext_ok f hf))
      (has_above_zero (hi.ext_ok g hg))).1 herr

/-- **(a) for `apply_not`** -/
theorem not_failure_clean {p : APolicy} (pok : p.OK) (N : Nat) (cap : Option Nat) (fuel : Nat)
    (r : RSt) (f : Edge) (ext : List Edge) (hi : RcInv r ext) (ho : OrdInv N r) (hf : f ∈ ext)
    (herr : (notR cap p fuel r f).1 = none) :
    RcInv (notR cap p fuel r f).2 ext ∧ r.st.store.Le (notR cap p fuel r f).2.st.store ∧
    RcInv (gcR N (notR cap p fuel r f).2) ext ∧ RcInv (gcR N r) ext ∧
    (∀ i, (∃ n, (gcR N (notR cap p fuel r f).2).st.store.get? i = some n) ↔
      Reach r.st.store ext (.inner i)) ∧
    (∀ i, (gcR N (notR cap p fuel r f).2).st.store.get? i = (gcR N r).st.store.get? i) :=
  failure_clean_of hi ho (notR_rc pok cap fuel r f ext hi (hi.ext_ok f hf))
    (notR_ord pok N cap fuel r f ext 0 hi ho (has_above_zero (hi.ext_ok f hf))).1 herr

/-! ## non-vacuity (the history `C05R.exCmds`: `x0`, `x1`, the constant `U`; two nodes stored) -/

open OxiddModel.Tdd.C05R in
/-- `ite(x0, x1, U)` needs two nodes: capacities 2 and 3 fail, 4 succeeds -/
example : (exRun 3).r.numInner = 2 ∧
    neededIte Edge.gtIdx BinOp.tag Policy.exact 20 (exRun 3).r.st (.inner 0) (.inner 1) (.term .u) = 2 ∧
    (iteR Edge.gtIdx BinOp.tag (some 2) Policy.exact 20 (exRun 3).r (.inner 0) (.inner 1) (.term .u)).1 = none ∧
    (iteR Edge.gtIdx BinOp.tag (some 3) Policy.exact 20 (exRun 3).r (.inner 0) (.inner 1) (.term .u)).1 = none ∧
    (iteR Edge.gtIdx BinOp.tag (some 4) Policy.exact 20 (exRun 3).r (.inner 0) (.inner 1) (.term .u)).1 = some (.inner 3) := by
  decide +kernel

open OxiddModel.Tdd.C05R in
/-- the hypotheses of `ite_failure_clean` hold along every history (`ord_history`); here the
failing `ite` under capacity 3 (one garbage node is left, the collection removes it) -/
example : ∀ i, (gcR 2 (iteR Edge.gtIdx BinOp.tag (some 3) Policy.exact 20 (exRun 3).r (.inner 0)
      (.inner 1) (.term .u)).2).st.store.get? i = (gcR 2 (exRun 3).r).st.store.get? i := by
  have h := ord_history (E := exE) Policy.exact_ok 2 (exCmds.take 3) (by
    intro c hc
    simp only [exCmds, List.take, List.mem_cons, List.mem_nil_iff, or_false] at hc
    rcases hc with rfl | rfl | rfl <;> simp [Rc.Cmd.OK])
  exact (ite_failure_clean Edge.gtIdx BinOp.tag Policy.exact_ok 2 (some 3) 20 (exRun 3).r
    (.inner 0) (.inner 1) (.term .u) (exRun 3).hs h.1 h.2 (by decide +kernel) (by decide +kernel)
    (by decide +kernel) (by decide +kernel)).2.2.2.2.2

end OxiddModel.Tdd.C14T
