import OxiddModel.Tdd.PropertiesC14T

/-!
# C14 for TDDs: the out-of-memory threshold of `var_edge`

`Tdd/PropertiesC14T.lean` covers `not`, `apply`, `ite`. `var_edge`
(`get_or_insert(InnerNode::new(level, [⊤, U, ⊥]))`, `varR` of `Tdd/RcS.lean`, no reduction test,
static terminal children) is the last allocating operation of the counter model. Its capacity-free
side is `Refine.varS` (`Tdd/HistoryS.lean`). Closed form: it needs one slot iff the node
`(level; ⊤ U ⊥)` is not in the unique table.
-/
namespace OxiddModel.Tdd.C14T
open OxiddModel.Tdd OxiddModel.Tdd.TD OxiddModel.Tdd.Refine OxiddModel.Tdd.Rc
open OxiddModel.CachePolicy OxiddModel

/-- the capacity-free `var_edge` as a run over `St` (the apply cache is not used) -/
def varSt (st : St) (level : Nat) : St × Edge :=
  (⟨(varS st.store level).1, st.cache, st.tick⟩, (varS st.store level).2)

/-- nodes `var_edge` allocates when nothing stops it -/
def neededVar (s : Store) (level : Nat) : Nat := slotCount (varS s level).1.nodes - slotCount s.nodes

theorem varS_grows (s : Store) (level : Nat) : Grows s (varS s level).1 := by
  unfold Grows varS
  simp only
  rw [slotCount_intern]; split <;> omega

/-- **`var_edge` under `cap` succeeds iff `varS` fits `cap`** -/
theorem varR_thr (cap : Option Nat) (r : RSt) (level : Nat) :
    Thr cap r.st.store (varR cap r level) (varSt r.st level) :=
  insertR_isSome cap r level _ _ _

theorem varR_erases (cap : Option Nat) (r : RSt) (level : Nat) :
    Erases (varR cap r level) (varSt r.st level) := by
  intro x hx
  obtain ⟨h1, h2, h3⟩ := varR_erase' cap r level x hx
  unfold varSt
  rw [h1]
  simp only
  rw [← h2, ← h3]

/-- closed form: one slot iff the node is not stored -/
theorem neededVar_closed (s : Store) (level : Nat) :
    neededVar s level =
      if Slots.find? s.nodes ⟨level, .term .t, .term .u, .term .f⟩ = none then 1 else 0 := by
  unfold neededVar varS
  simp only
  rw [slotCount_intern]; split <;> omega

/-- (c) **`var_edge` reports OutOfMemory iff it allocates a node and the capacity is exceeded** -/
theorem var_oom_iff_needed (cap : Option Nat) (r : RSt) (level : Nat) :
    (varR cap r level).1 = none ↔
      0 < neededVar r.st.store level ∧ exceeded cap (r.numInner + neededVar r.st.store level) :=
  thr_oom_iff (varR_thr cap r level) (varS_grows r.st.store level)

/-- (c) in closed form: OutOfMemory iff the node is not stored and no slot is free -/
theorem var_oom_iff (c : Nat) (r : RSt) (level : Nat) :
    (varR (some c) r level).1 = none ↔
      Slots.find? r.st.store.nodes ⟨level, .term .t, .term .u, .term .f⟩ = none ∧ c ≤ r.numInner := by
  rw [var_oom_iff_needed, neededVar_closed]
  by_cases h : Slots.find? r.st.store.nodes ⟨level, .term .t, .term .u, .term .f⟩ = none
  · simp only [h, if_true, true_and, exceeded]; omega
  · simp [h]

/-- (c) the minimal capacity is `count + needed` -/
theorem var_threshold_exact (r : RSt) (level : Nat) :
    (∀ c, r.numInner ≤ c → c < r.numInner + neededVar r.st.store level →
      (varR (some c) r level).1 = none) ∧
    (∀ c, r.numInner + neededVar r.st.store level ≤ c →
      (varR (some c) r level).1 = some (varS r.st.store level).2 ∧
      (varR (some c) r level).2.st = ⟨(varS r.st.store level).1, r.st.cache, r.st.tick⟩) := by
  constructor
  · intro c hc hk
    rw [var_oom_iff_needed]
    show 0 < neededVar r.st.store level ∧ c < r.numInner + neededVar r.st.store level
    omega
  · intro c hk
    apply (thr_ok_iff (varR_thr (some c) r level) (varR_erases (some c) r level)
      (varS_grows r.st.store level)).mpr
    show ¬ (0 < neededVar r.st.store level ∧ c < slotCount r.st.store.nodes + neededVar r.st.store level)
    have : r.numInner = slotCount r.st.store.nodes := rfl
    omega

/-- (b) -/
theorem var_monotone (r : RSt) (level : Nat) (x : Edge) {cap cap' : Option Nat}
    (hc : capLe cap cap') (hx : (varR cap r level).1 = some x) :
    (varR cap' r level).1 = some x ∧ (varR cap' r level).2.st = (varR cap r level).2.st :=
  thr_monotone (varR_thr cap r level) (varR_thr cap' r level) (varR_erases cap r level)
    (varR_erases cap' r level) hc hx

/-- (d) a successful `var_edge` is `varS` (restating `varR_erase'`) -/
theorem var_success_is_uncapped (cap : Option Nat) (r : RSt) (level : Nat) (x : Edge)
    (hx : (varR cap r level).1 = some x) :
    varS r.st.store level = ((varR cap r level).2.st.store, x) ∧
    (varR cap r level).2.st.cache = r.st.cache ∧ (varR cap r level).2.st.tick = r.st.tick :=
  varR_erase' cap r level x hx

/-- (a) a failed `var_edge` leaves the manager intact -/
theorem var_failure_clean (N : Nat) (cap : Option Nat) (r : RSt) (level : Nat) (ext : List Edge)
    (hi : RcInv r ext) (ho : OrdInv N r) (hl : level < N) (herr : (varR cap r level).1 = none) :
    RcInv (varR cap r level).2 ext ∧ r.st.store.Le (varR cap r level).2.st.store ∧
    RcInv (gcR N (varR cap r level).2) ext ∧ RcInv (gcR N r) ext ∧
    (∀ i, (∃ n, (gcR N (varR cap r level).2).st.store.get? i = some n) ↔
      Reach r.st.store ext (.inner i)) ∧
    (∀ i, (gcR N (varR cap r level).2).st.store.get? i = (gcR N r).st.store.get? i) :=
  failure_clean_of hi ho (varR_rc cap r level ext hi) (varR_ord cap r level ext hi ho hl).1 herr

/-! ## non-vacuity (`C05R.exRun 2`: `x0`, `x1` stored) -/

open OxiddModel.Tdd.C05R in
example : (exRun 2).r.numInner = 2 ∧ neededVar (exRun 2).r.st.store 2 = 1 ∧
    neededVar (exRun 2).r.st.store 1 = 0 ∧
    (varR (some 2) (exRun 2).r 2).1 = none ∧ (varR (some 3) (exRun 2).r 2).1 = some (.inner 2) ∧
    (varR (some 0) (exRun 2).r 1).1 = some (.inner 1) := by
  decide +kernel

open OxiddModel.Tdd.C05R in
/-- the hypotheses of `var_failure_clean` along a history; the failing `var_edge(2)` under
capacity 2 -/
example : ∀ i, (gcR 3 (varR (some 2) (exRun 2).r 2).2).st.store.get? i =
    (gcR 3 (exRun 2).r).st.store.get? i := by
  have h := ord_history (E := exE) Policy.exact_ok 3 (exCmds.take 2) (by
    intro c hc
    simp only [exCmds, List.take, List.mem_cons, List.mem_nil_iff, or_false] at hc
    rcases hc with rfl | rfl <;> simp [Rc.Cmd.OK])
  exact (var_failure_clean 3 (some 2) (exRun 2).r 2 (exRun 2).hs h.1 h.2 (by decide)
    (by decide +kernel)).2.2.2.2.2

end OxiddModel.Tdd.C14T
