import OxiddModel.Tdd.GlobalSSteps
import OxiddModel.Tdd.PropertiesQueriesS

/-!
# C01 / C03 / C05 / C08 — TDD: ONE store-level history theorem

Property C01: *"two function handles compare equal if and only if they denote the same function
over the manager's variables (… the same value table for MTBDD and TDD handles) … regardless of
the sequence of operations, handle drops, garbage collections, variable additions and reorderings
through which the two handles were obtained."*

`Tdd/GlobalS.lean` defines ONE manager state for ternary decision diagrams (id-indexed store of
ternary nodes with stored level numbers and one reference counter per slot, apply cache,
`gc_count`, the order `{v2l, l2v}`, the number of variables, the table of live handles) and ONE
step function for `const T/U/F`, `var`, `not`, the eight binary connectives, `ite` (each under its
own node capacity: succeeding or failing with OutOfMemory at any allocation point), `clone`,
`drop`, `gc`, `add_vars` and `set_var_order`. The theorems below hold for **every history**
(`List Step`, no bound on length, no side condition on the steps) from the empty manager and for
**every configuration** `Cfg.OK` (cache policy, edge order, slot allocator and hash-table iteration
order of the reordering):

* `global_inv` — the store is ordered w.r.t. the stored level numbers, all levels `< n`, reduced
  (no node with three equal children), hash consed, the cache sound, the var/level maps mutually
  inverse, no dangling edge, counters exact (`rc = 1 + handles + parents`, each of the three child
  edges counts), and the per-level tables seen by the reordering code are consistent
  (`SwapStoreN.Inv 3`);
* `global_semantics` — every handle denotes, as a **three-valued** function of the VARIABLES, the
  function its producing expression specifies; `ghost_unchanged`: `gc`, `add_vars`,
  `set_var_order` and failed operations leave every handle's expression alone;
* `global_canonical` (C01) — two handles are the same edge iff they have the same value table
  (same value under every assignment of `T/U/F` to the variables);
* `global_gc_exact` (C05) — after a `gc` step exactly the nodes reachable from the handles remain;
  with no handles the store is empty;
* `global_node_count` (C03) — `node_count` of a handle is the number of distinct subdiagrams of THE
  reduced ordered diagram of its function under the CURRENT order.

The proofs compose the existing developments: counters `Tdd/RcSLemmas*` (C05/C14), the semantic
invariant on failing runs `RcSLemmasSem`, `applyS/iteS` specs (C06/C11), `tdd_setVarOrder_correct`
(C08, any arity: `Reorder/SwapStoreN*`), `nodeCountS_spec` (C03), `canonical` (C01 on trees); new
are the bridge between the two store representations (`GlobalSBridge.lean`), reducedness after
failing runs (`GlobalSNoRed.lean`), the size bound that makes the fuel a function of `n`.
-/
namespace OxiddModel.Tdd.Global
open OxiddModel.Tdd OxiddModel.Tdd.TD OxiddModel.Tdd.Refine OxiddModel.Tdd.Rc
open OxiddModel.CachePolicy OxiddModel
open OxiddModel.Reorder
open OxiddModel.Reorder.SwapStoreN (Heap SNode SStore)
open OxiddModel.Bdd.Global (All2 forall₂_length forall₂_get forall₂_getD OrdOK ordOK_empty)

/-! ## the empty manager, induction over the history -/

theorem ginv_empty : GInv GSt.empty where
  rc := C05R.rcinv_empty
  ord := C05R.ordinv_empty 0
  uniq := Store.empty_unique
  nored := Store.empty_nored
  cache := CacheOK.nil _ _
  perm := ordOK_empty

theorem foldl_inv {c : Cfg} (hc : c.OK) : ∀ (hist : List Step) (x : GSt × List Expr),
    GInv x.1 → Sem x.1 x.2 →
    GInv (hist.foldl (fun x s => (step c x.1 s, track c x.1 x.2 s)) x).1 ∧
    Sem (hist.foldl (fun x s => (step c x.1 s, track c x.1 x.2 s)) x).1
      (hist.foldl (fun x s => (step c x.1 s, track c x.1 x.2 s)) x).2 := by
  intro hist
  induction hist with
  | nil => intro x hi hs; exact ⟨hi, hs⟩
  | cons s rest ih =>
    intro x hi hs
    obtain ⟨h1, h2⟩ := step_inv hc hi hs s
    exact ih _ h1 h2

/-- the invariant and the meaning of all handles, after every history -/
theorem run_inv {c : Cfg} (hc : c.OK) (hist : List Step) :
    GInv (run c hist) ∧ Sem (run c hist) (runT c hist).2 := by
  rw [← runT_fst]
  exact foldl_inv hc hist (GSt.empty, []) ginv_empty .nil

theorem run_append (c : Cfg) (hist : List Step) (s : Step) :
    run c (hist ++ [s]) = step c (run c hist) s := by
  simp [run, List.foldl_append]

/-! ## `global_inv` -/

/-- **`global_inv`.** After every history: (1) inner children lie on strictly larger levels
(ordered w.r.t. the current order: the level of a node is the current level of its variable, see
`global_semantics`), (2) all levels are `< n`, (3) no node has three equal children (reduced),
(4) no two slots hold the same node (hash consed), (5) every cache entry is the result its key
specifies, (6) `v2l` and `l2v` have `n` entries and are mutually inverse, (7) every handle and every
child edge points to a stored node (or a static terminal), (8) the counter of every stored node is
`1 + #handles on it + #stored parent edges` (the `1` is the unique table's reference;
`ref_count()` reports `rc - 1`; a node `(l: a a b)` holds two references to `a`), and (9) the
per-level unique tables, as the reordering code sees them, partition the nodes by level without
duplicates (`SwapStoreN.Inv 3`). -/
theorem global_inv {c : Cfg} (hc : c.OK) (hist : List Step) :
    let g := run c hist
    Rc.Ordered g.r.st.store ∧
    (∀ i nd, g.r.st.store.get? i = some nd → nd.level < g.n) ∧
    g.r.st.store.NoRed ∧
    g.r.st.store.Unique ∧
    CacheOK gtT0 g.r.st.store g.r.st.cache ∧
    OrdOK g.n g.v2l g.l2v ∧
    ((∀ x ∈ g.hs, Has g.r.st.store x) ∧
      ∀ i nd, g.r.st.store.get? i = some nd →
        Has g.r.st.store nd.t ∧ Has g.r.st.store nd.u ∧ Has g.r.st.store nd.e) ∧
    (∀ i nd, g.r.st.store.get? i = some nd →
      rcGet g.r.rc i = 1 + g.hs.count (.inner i) + parents g.r.st.store (.inner i)) ∧
    SwapStoreN.Inv 3 (extOfHs g.hs) (toS g.r g.n) := by
  intro g
  have h := (run_inv hc hist).1
  exact ⟨h.ord.ord, h.ord.bound, h.nored, h.uniq, h.cache, h.perm, ⟨h.rc.ext_ok, h.rc.kids_ok⟩,
    h.rc.rc_eq, h.sinv⟩

/-! ## `global_semantics` -/

/-- **`global_semantics`.** After every history the ghost list has one expression per handle, and
every handle denotes a ternary diagram in normal form whose value under every assignment `ρ` of
`T/U/F` to the VARIABLES (through the current `l2v`) is the value of the expression that produced
the handle: the three-valued operations applied to the functions of their operands. -/
theorem global_semantics {c : Cfg} (hc : c.OK) (hist : List Step) :
    let g := run c hist
    let es := (runT c hist).2
    es.length = g.hs.length ∧
    ∀ (i : Nat) (x : Edge), g.hs[i]? = some x → ∃ (e : Expr) (t : TD), es[i]? = some e ∧
      Denotes g.r.st.store x t ∧ NF t ∧ ∀ ρ, evalL g.l2v ρ t = e.fn ρ := by
  intro g es
  obtain ⟨hi, hs⟩ := run_inv hc hist
  refine ⟨forall₂_length hs, fun i x hx => ?_⟩
  obtain ⟨e, he, t, hd, hev⟩ := forall₂_get hs hx
  exact ⟨e, t, he, hd, hi.nf hd, hev⟩

/-- **`ghost_unchanged`.** `gc`, `add_vars`, `set_var_order` and operations that fail with
OutOfMemory (or name a handle that does not exist) push nothing and change no handle's expression:
by `global_semantics` for the longer history every old handle still denotes the function it
denoted. -/
theorem ghost_unchanged (c : Cfg) (g : GSt) (es : List Expr) :
    track c g es .gc = es ∧ (∀ k, track c g es (.addVars k) = es) ∧
    (∀ o, track c g es (.setVarOrder o) = es) ∧
    (∀ s r', opRes c g s = some (none, r') → (∀ a, s ≠ .clone a) → (∀ a, s ≠ .drop a) →
      track c g es s = es) := by
  refine ⟨rfl, fun _ => rfl, fun _ => rfl, ?_⟩
  intro s r' h h1 h2
  cases s with
  | clone a => exact absurd rfl (h1 a)
  | drop a => exact absurd rfl (h2 a)
  | gc => rfl
  | addVars k => rfl
  | setVarOrder o => rfl
  | const v => simp only [track, h]
  | var cap v => simp only [track, h]
  | not cap a => simp only [track, h]
  | bin cap op a b => simp only [track, h]
  | ite cap a b d => simp only [track, h]

/-- … and the handle list itself is the old one after these steps -/
theorem handles_unchanged (c : Cfg) (g : GSt) :
    (step c g .gc).hs = g.hs ∧ (∀ k, (step c g (.addVars k)).hs = g.hs) ∧
    (∀ o, (step c g (.setVarOrder o)).hs = g.hs) := by
  refine ⟨rfl, fun _ => rfl, fun o => ?_⟩
  simp only [step, reorder]
  split <;> rfl

/-! ## `global_canonical` (C01) -/

/-- **`global_canonical`.** After every history two handles are the same edge (`==`, and hence
`Hash`/`Ord`, which are functions of the edge) **iff** the expressions that produced them specify
the same three-valued function of the variables (the same value table). -/
theorem global_canonical {c : Cfg} (hc : c.OK) (hist : List Step) :
    let g := run c hist
    let es := (runT c hist).2
    ∀ (i j : Nat) (x y : Edge) (ex ey : Expr), g.hs[i]? = some x → g.hs[j]? = some y →
      es[i]? = some ex → es[j]? = some ey → (x = y ↔ ∀ ρ, ex.fn ρ = ey.fn ρ) := by
  intro g es i j x y ex ey hx hy hex hey
  obtain ⟨hi, hs⟩ := run_inv hc hist
  obtain ⟨ex', hex', tx, hdx, hevx⟩ := forall₂_get hs hx
  obtain ⟨ey', hey', ty, hdy, hevy⟩ := forall₂_get hs hy
  have e1 : ex' = ex := by
    have : es[i]? = some ex' := hex'
    rw [hex] at this; cases this; rfl
  have e2 : ey' = ey := by
    have : es[j]? = some ey' := hey'
    rw [hey] at this; cases this; rfl
  subst e1 e2
  constructor
  · intro hxy ρ
    subst hxy
    rw [← hevx ρ, ← hevy ρ, hdx.functional hdy]
  · intro hfn
    have htt : tx = ty := canonical tx ty (hi.nf hdx) (hi.nf hdy)
      (eval_of_evalL hi.perm (fun ρ => by rw [hevx ρ, hevy ρ, hfn ρ]))
    subst htt
    exact inj_of_unique hi.uniq _ _ _ hdx hdy

/-- the same without the ghost: for any two handles and the diagrams they denote, equality of the
edges is equality of the three-valued functions of the variables -/
theorem global_canonical_den {c : Cfg} (hc : c.OK) (hist : List Step) :
    let g := run c hist
    ∀ (x y : Edge) (tx ty : TD), x ∈ g.hs → y ∈ g.hs → Denotes g.r.st.store x tx →
      Denotes g.r.st.store y ty → (x = y ↔ ∀ ρ, evalL g.l2v ρ tx = evalL g.l2v ρ ty) := by
  intro g x y tx ty _ _ hdx hdy
  have hi := (run_inv hc hist).1
  constructor
  · intro hxy ρ; subst hxy; rw [hdx.functional hdy]
  · intro hfn
    have htt : tx = ty := canonical tx ty (hi.nf hdx) (hi.nf hdy) (eval_of_evalL hi.perm hfn)
    subst htt
    exact inj_of_unique hi.uniq _ _ _ hdx hdy

/-! ## `global_gc_exact` (C05) -/

/-- **`global_gc_exact`.** Let `g` be the state after any history and `g'` the state after one more
`gc` step (`run_append`: that is the history `hist ++ [gc]`). Then the invariant holds, the handles
are the old ones, `gc_count` is advanced, the apply cache is empty, and the stored nodes of `g'` are
**exactly** the nodes reachable from the handles — in the store before the collection and, since
every surviving node keeps its content, in the store after it; nothing else is changed; and with no
handles the store is empty. -/
theorem global_gc_exact {c : Cfg} (hc : c.OK) (hist : List Step) :
    let g := run c hist
    let g' := step c g .gc
    GInv g' ∧ g'.hs = g.hs ∧ g'.gcCount = g.gcCount + 1 ∧ g'.r.st.cache = [] ∧
    (∀ i, (∃ nd, g'.r.st.store.get? i = some nd) ↔ Reach g.r.st.store g.hs (.inner i)) ∧
    (∀ i, (∃ nd, g'.r.st.store.get? i = some nd) ↔ Reach g'.r.st.store g'.hs (.inner i)) ∧
    (∀ i nd, g'.r.st.store.get? i = some nd → g.r.st.store.get? i = some nd) ∧
    (g.hs = [] → g'.r.numInner = 0) := by
  intro g g'
  obtain ⟨hi, hs⟩ := run_inv hc hist
  have hi' : GInv g' := (step_inv hc hi hs .gc).1
  obtain ⟨_, hex, hsub, _⟩ := C05R.gcR_exact g.n g.r g.hs hi.rc hi.ord.ord hi.ord.bound
  have hcache := (C05R.gcR_sound g.n g.r g.hs hi.rc).2.1
  refine ⟨hi', rfl, rfl, hcache, hex, fun i => ?_, hsub, fun hnil => ?_⟩
  · constructor
    · intro h
      have hr := (hex i).mp h
      -- reachability is preserved because reachable nodes keep their content
      have : ∀ {x}, Reach g.r.st.store g.hs x → Reach (gcR g.n g.r).st.store g.hs x := by
        intro x hx
        induction hx with
        | root hm => exact .root hm
        | @kid p x n hp hget hkid ih =>
          obtain ⟨n', h2⟩ := gcR_keeps_reach g.n hi.rc hp
          have h1 := hsub p n' h2
          rw [hget] at h1; cases h1
          exact .kid ih h2 hkid
      exact this hr
    · intro h
      exact (hex i).mpr (Reach.sub hsub h)
  · exact C05R.all_dropped_empty g.n g.r (hnil ▸ hi.rc) hi.ord.ord hi.ord.bound

/-! ## `global_node_count` (C03) -/

/-- **`global_node_count`.** After every history, for every handle: if `t` is ANY reduced ordered
ternary diagram (over levels) whose three-valued function of the variables **under the current
order** is the function of the handle's expression, then `node_count` of the handle (the
visited-set traversal of the store, `QueriesS.nodeCountS`) is the number of distinct subdiagrams of
`t` (inner nodes and terminals: the length of every duplicate-free list of exactly the subterms of
`t`). Such a `t` exists (`global_semantics`) and is unique (`canonical`), so this is *the* size of
the function's diagram under the current order; it may change at a `set_var_order` step (example
below). -/
theorem global_node_count {c : Cfg} (hc : c.OK) (hist : List Step) :
    let g := run c hist
    let es := (runT c hist).2
    ∀ (i : Nat) (x : Edge) (e : Expr), g.hs[i]? = some x → es[i]? = some e →
      ∀ t : TD, NF t → (∀ ρ, evalL g.l2v ρ t = e.fn ρ) →
        ∀ fuel, t.size < fuel → ∀ L : List TD, L.Nodup → (∀ y, y ∈ L ↔ QueriesS.Subterm y t) →
          QueriesS.nodeCountS g.r.st.store fuel x = L.length := by
  intro g es i x e hx he t hnf hev fuel hfuel L hL hLm
  obtain ⟨hi, hs⟩ := run_inv hc hist
  obtain ⟨e', he', t0, hd, hev0⟩ := forall₂_get hs hx
  have e1 : e' = e := by
    have : es[i]? = some e' := he'
    rw [he] at this; cases this; rfl
  subst e1
  have htt : t = t0 := canonical t t0 hnf (hi.nf hd)
    (eval_of_evalL hi.perm (fun ρ => by rw [hev ρ, hev0 ρ]))
  subst htt
  exact (QueriesS.nodeCountS_spec g.r.st.store hi.uniq x t hd fuel hfuel).2 L hL hLm

/-! ## non-vacuity: one history with every kind of step -/

theorem cfg_std_ok : Cfg.std.OK :=
  ⟨Policy.exact_ok, SwapStoreN.allocOK_firstFree, SwapStoreN.orderOK_id⟩

/-- another admissible configuration: no apply cache, the reversed edge order, tables iterated back
to front -/
def Cfg.alt : Cfg := ⟨Policy.none, fun a b => Edge.gtIdx b a, Heap.firstFree, List.reverse⟩

theorem cfg_alt_ok : Cfg.alt.OK :=
  ⟨Policy.none_ok, SwapStoreN.allocOK_firstFree, SwapStoreN.orderOK_reverse⟩

/-- Three variables; `f = ite(x0, x1, x2)` (6 ternary nodes); a clone; `x1 ⊕ x2` under capacity 8
(the first allocation succeeds, the second fails: OutOfMemory, one garbage node);
`g = x0 ∧ x1`; everything but `g` and `f` dropped; `gc`; `set_var_order [2, 0]` (new order
`x1, x2, x0`); the constant `U`; then the second route to `g`'s function, with fresh variable
handles: `nor(¬x0, ¬x1)` (De Morgan holds in Kleene's logic); `gc`; `add_vars 1`. -/
def exHist : List Step :=
  [.addVars 3,
   .var (some 20) 0, .var (some 20) 1, .var (some 20) 2,   -- handles [x2, x1, x0]
   .ite (some 20) 2 1 0,                                    -- [f, x2, x1, x0]
   .clone 0,                                                -- [f, f, x2, x1, x0]
   .bin (some 8) .xor 3 2,                                  -- OutOfMemory after one allocation
   .bin (some 20) .and 4 3,                                 -- [g, f, f, x2, x1, x0]
   .drop 2, .drop 2, .drop 2, .drop 2,                      -- [g, f]
   .gc,
   .setVarOrder [2, 0],
   .const .u,                                               -- [U, g, f]
   .var (some 20) 0, .var (some 20) 1,                      -- [x1, x0, U, g, f]
   .not (some 20) 1, .not (some 20) 1,                      -- [¬x1, ¬x0, x1, x0, U, g, f]
   .bin (some 20) .nor 1 0,                                 -- [nor(¬x0,¬x1), ¬x1, ¬x0, x1, x0, U, g, f]
   .gc,
   .addVars 1]

/-- the failed `xor`: no new handle, one node of garbage (8 nodes instead of 7) -/
example : (run Cfg.std (exHist.take 6)).hs = (run Cfg.std (exHist.take 7)).hs ∧
    (run Cfg.std (exHist.take 6)).r.numInner = 7 ∧
    (run Cfg.std (exHist.take 7)).r.numInner = 8 := by decide +kernel

/-- after the drops and the collection exactly the 8 nodes of `g` and `f` remain; the reordering
rebuilds them with 11 -/
example : (run Cfg.std (exHist.take 12)).r.numInner = 10 ∧
    (run Cfg.std (exHist.take 13)).r.numInner = 8 ∧
    (run Cfg.std (exHist.take 13)).hs = [.inner 9, .inner 6] ∧
    (run Cfg.std (exHist.take 14)).r.numInner = 11 ∧
    (run Cfg.std (exHist.take 14)).hs = [.inner 9, .inner 6] ∧
    (run Cfg.std (exHist.take 14)).l2v = [1, 2, 0] ∧
    (run Cfg.std (exHist.take 14)).v2l = [2, 0, 1] := by decide +kernel

/-- the final state: **the two routes give the same edge** (`inner 9`, first handle and handle 6),
across the reordering and two collections -/
theorem exHist_run :
    (run Cfg.std exHist).hs =
      [.inner 9, .inner 3, .inner 1, .inner 2, .inner 5, .term .u, .inner 9, .inner 6] ∧
    (run Cfg.std exHist).l2v = [1, 2, 0, 3] ∧ (run Cfg.std exHist).v2l = [2, 0, 1, 3] ∧
    (run Cfg.std exHist).n = 4 ∧ (run Cfg.std exHist).gcCount = 3 ∧
    (run Cfg.std exHist).r.rc = #[2, 3, 2, 2, 2, 4, 2, 2, 2, 3, 2, 3, 2] := by decide +kernel

/-- the ghost: the expressions of the eight handles -/
theorem exHist_ghost :
    (runT Cfg.std exHist).2 =
      [.bin .nor (.not (.var 0)) (.not (.var 1)),
       .not (.var 1), .not (.var 0), .var 1, .var 0, .const .u,
       .bin .and (.var 0) (.var 1),
       .ite (.var 0) (.var 1) (.var 2)] := by decide +kernel

/-- all theorems apply to it (no hypothesis besides `Cfg.OK`) -/
example : GInv (run Cfg.std exHist) := (run_inv cfg_std_ok exHist).1

/-- `global_canonical` on the example: since the two handles are the same edge, the two
expressions specify the same three-valued function — De Morgan's law of Kleene's strong logic,
`nor(¬a, ¬b) = a ∧ b` for all `a, b ∈ {T, U, F}` — obtained from the machine, not from the tables -/
example : ∀ ρ : Nat → Tri, ((ρ 0).not.or (ρ 1).not).not = (ρ 0).and (ρ 1) := by
  have h := global_canonical cfg_std_ok exHist 0 6 (.inner 9) (.inner 9) _ _
    (by rw [exHist_run.1]; rfl) (by rw [exHist_run.1]; rfl)
    (by rw [exHist_ghost]; rfl) (by rw [exHist_ghost]; rfl)
  exact h.mp rfl

/-- and conversely two handles with different functions are different edges -/
example : (run Cfg.std exHist).hs[0]? ≠ (run Cfg.std exHist).hs[7]? := by
  rw [exHist_run.1]; decide

/-- `global_node_count` on the example: `f = ite(x0, x1, x2)` has 6 nodes (+ 3 terminals) under the
initial order and 10 (+ 3) after `set_var_order [2, 0]` -/
example : QueriesS.nodeCountS (run Cfg.std (exHist.take 13)).r.st.store 100 (.inner 6) = 9 ∧
    QueriesS.nodeCountS (run Cfg.std (exHist.take 14)).r.st.store 100 (.inner 6) = 13 := by
  decide +kernel

/-- dropping every handle and collecting empties the store -/
example : (run Cfg.std (exHist ++ [.drop 0, .drop 0, .drop 0, .drop 0, .drop 0, .drop 0, .drop 0,
    .drop 0, .gc])).r.numInner = 0 := by decide +kernel

/-- the same history under the other configuration (no cache, reversed edge order and table
iteration): the theorems apply as well, and the handles again coincide -/
example : (run Cfg.alt exHist).hs[0]? = (run Cfg.alt exHist).hs[6]? := by decide +kernel

end OxiddModel.Tdd.Global
