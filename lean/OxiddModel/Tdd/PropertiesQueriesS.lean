import OxiddModel.Tdd.QueriesS
import OxiddModel.Tdd.Properties

/-!
# Headline theorems: the read-only queries of the TDD rules at store level, under any variable
# order (C11: `eval` with the 2-bit packing, `var`, the three cofactors; C03: `node_count`)

`o` ranges over all orders with `PermOK`, `s` over all stores, `e` over all edges denoting a tree,
argument lists over all lists of `(variable, Option<bool>)` pairs. The number of levels is
arbitrary: nothing is special about 16 (one `u32` word).
-/
set_option linter.unusedSectionVars false

namespace OxiddModel.Tdd.QueriesS
open OxiddModel.Tdd OxiddModel.Tdd.TD OxiddModel.Tdd.Refine OxiddModel.OrderS OxiddModel

/-! ## eval -/

/-- **C11 `eval`: the packed table is the unpacked one.** After the loop over the argument list,
the 2-bit field `(choices[l / 16] >> (2 * (l % 16))) & 0b11` holds the code of entry `l` of the
table with one entry per level — for every level `l` and any number of levels (words). -/
theorem packed_eq_unpacked (o : Order) (hp : PermOK o) (args : List (Nat × Option Bool))
    (hargs : ∀ a ∈ args, a.1 < o.n) (l : Nat) :
    getChoice (fillChoices o args) l = choiceCode ((fillUnpacked o args).getD l (some true)) := by
  rw [fillChoices_get o hp args hargs, fillUnpacked_get o hp args hargs]

/-- **C11 `eval`.** Table filling through `var_to_level` with the 2-bit packing, then the walk:
the result is the value of the denoted function under the three-valued assignment described by
the argument list (last value of a repeated variable counts), for every order with mutually
inverse maps and any number of levels. -/
theorem evalS_spec (o : Order) (hp : PermOK o) (s : Store) (e : Edge) (t : TD)
    (args : List (Nat × Option Bool)) (hargs : ∀ a ∈ args, a.1 < o.n) (hd : Denotes s e t)
    (fuel : Nat) (hf : t.size ≤ fuel) :
    evalS o s fuel e args = evalV o (rhoArgs args) t := by
  unfold evalS
  rw [walkS_eq s _ hd fuel hf]
  exact evalInner_eq _ (fun l => argVal (some true) args (o.var l))
    (fillChoices_get o hp args hargs) t

/-- `rhoArgs`: a pair appended to the list overrides every earlier pair for the same variable and
leaves the other variables alone; the empty list is the all-`true` assignment. -/
theorem rhoArgs_spec (args : List (Nat × Option Bool)) (v : Nat) (b : Option Bool) :
    rhoArgs (args ++ [(v, b)]) v = Tri.ofOptBool b ∧
    (∀ w, w ≠ v → rhoArgs (args ++ [(v, b)]) w = rhoArgs args w) ∧
    ∀ w, rhoArgs [] w = .t := by
  refine ⟨by unfold rhoArgs; rw [argVal_last], fun w hw => ?_, fun _ => rfl⟩
  unfold rhoArgs
  rw [argVal_append_single]
  rw [if_neg (fun h => hw h.symm)]

/-! ## var -/

/-- **C11 `var`.** The node built at `var_to_level(v)` evaluates to the value of variable `v`;
the store is only extended and stays duplicate free. -/
theorem varS_spec (o : Order) (hp : PermOK o) (s : Store) (v : Nat) :
    s.Le (varS o s v).1 ∧ (s.Unique → (varS o s v).1.Unique) ∧
    Denotes (varS o s v).1 (varS o s v).2 (var (o.lvl v)) ∧
    ∀ ρ, evalV o ρ (var (o.lvl v)) = ρ v := by
  refine ⟨Slots.intern_le _ _, fun hu => Slots.intern_unique _ _ hu,
    .inner (Slots.intern_get _ _) .term .term .term, fun ρ => ?_⟩
  simp only [evalV, var, eval, hp.var_lvl]
  cases ρ v <;> rfl

/-- `var` then `eval`: the two maps are used consistently. -/
theorem evalS_varS (o : Order) (hp : PermOK o) (s : Store) (v : Nat)
    (args : List (Nat × Option Bool)) (hargs : ∀ a ∈ args, a.1 < o.n) (fuel : Nat)
    (hf : 4 ≤ fuel) :
    evalS o (varS o s v).1 fuel (varS o s v).2 args = rhoArgs args v := by
  obtain ⟨_, _, hd, hs⟩ := varS_spec o hp s v
  rw [evalS_spec o hp _ _ _ args hargs hd fuel (by simpa [var, TD.size] using hf), hs]

/-! ## cofactors -/

/-- **C11 cofactors.** A terminal has none; for an inner node the triple returned are the edges
of the three children in the order true, unknown, false, and they denote the restrictions of the
handle's function to its top-most VARIABLE `level_to_var(level(root))` being true / unknown /
false. -/
theorem cofactorsS_spec (o : Order) (hp : PermOK o) (s : Store) :
    (∀ b, cofactorsS s (.term b) = none) ∧
    ∀ (e : Edge) (l : Nat) (ta tb tc : TD), Denotes s e (.node l ta tb tc) →
      NF (.node l ta tb tc) →
      ∃ ea eb ec, cofactorsS s e = some (ea, eb, ec) ∧ cofactorTrueS s e = some ea ∧
        cofactorUnknownS s e = some eb ∧ cofactorFalseS s e = some ec ∧
        Denotes s ea ta ∧ Denotes s eb tb ∧ Denotes s ec tc ∧
        ∀ ρ, evalV o ρ ta = evalV o (updV ρ (o.var l) .t) (.node l ta tb tc) ∧
             evalV o ρ tb = evalV o (updV ρ (o.var l) .u) (.node l ta tb tc) ∧
             evalV o ρ tc = evalV o (updV ρ (o.var l) .f) (.node l ta tb tc) := by
  refine ⟨fun _ => rfl, ?_⟩
  intro e l ta tb tc hd hnf
  cases hd with
  | @inner i _ ea eb ec _ _ _ hi ha hb hc =>
    refine ⟨ea, eb, ec, by simp [cofactorsS, hi], by simp [cofactorTrueS, cofactorsS, hi],
      by simp [cofactorUnknownS, cofactorsS, hi], by simp [cofactorFalseS, cofactorsS, hi],
      ha, hb, hc, fun ρ => ?_⟩
    obtain ⟨h1, h2, h3⟩ := (tdd_cofactors.2.2) (fun k => ρ (o.var k)) l ta tb tc hnf
    unfold evalV
    rw [updV_var o hp, updV_var o hp, updV_var o hp]
    exact ⟨h1.symm, h2.symm, h3.symm⟩

/-! ## node_count -/

/-- **C03 `node_count` (graph reading).** The number of distinct nodes reachable from the root
(terminals included), i.e. the length of any duplicate-free enumeration of the reachable ids. -/
theorem nodeCountS_reach (s : Store) (e : Edge) (t : TD) (hd : Denotes s e t) (fuel : Nat)
    (hf : t.size < fuel) (L : List Edge) (hL : L.Nodup)
    (hm : ∀ y, y ∈ L ↔ VisitS.Reach (kidsS s) e y) : nodeCountS s fuel e = L.length :=
  VisitS.count_unique (kidsS s) _ fuel e (ranked_of_denotes hd) (by rw [den_eq hd]; exact hf) L hL hm

/-- … independent of the order in which the children are visited -/
theorem nodeCountS_order_independent (s : Store) (e : Edge) (t : TD) (hd : Denotes s e t)
    (fuel : Nat) (hf : t.size < fuel) (kids' : Edge → List Edge)
    (h : ∀ x y, y ∈ kids' x ↔ y ∈ kidsS s x) :
    VisitS.count kids' fuel e = nodeCountS s fuel e :=
  VisitS.visit_order_independent (kidsS s) kids' _ h fuel e (ranked_of_denotes hd)
    (by rw [den_eq hd]; exact hf)

/-- **C03 `node_count` (tree reading).** In a duplicate-free store the count is the number of
distinct subterms of the denoted tree: there is a duplicate-free list of exactly the subterms with
that length, and every such list has that length. -/
theorem nodeCountS_spec (s : Store) (hu : s.Unique) (e : Edge) (t : TD) (hd : Denotes s e t)
    (fuel : Nat) (hf : t.size < fuel) :
    (∃ L : List TD, L.Nodup ∧ (∀ x, x ∈ L ↔ Subterm x t) ∧ nodeCountS s fuel e = L.length) ∧
    ∀ L : List TD, L.Nodup → (∀ x, x ∈ L ↔ Subterm x t) → nodeCountS s fuel e = L.length := by
  obtain ⟨hn, hm⟩ := VisitS.visit_count (kidsS s) _ fuel e (ranked_of_denotes hd)
    (by rw [den_eq hd]; exact hf)
  have hden : ∀ y, y ∈ VisitS.visit (kidsS s) fuel [] e → ∃ ty, Subterm ty t ∧ Denotes s y ty :=
    fun y hy => reach_denotes ((hm y).mp hy) hd
  have hL : ((VisitS.visit (kidsS s) fuel [] e).map (den s)).Nodup := by
    rw [List.Nodup, List.pairwise_map]
    refine List.Pairwise.imp_of_mem ?_ hn
    intro a b ha hb hab heq
    obtain ⟨ta, _, hta⟩ := hden a ha
    obtain ⟨tb, _, htb⟩ := hden b hb
    rw [den_eq hta, den_eq htb] at heq
    subst heq
    exact hab (inj_of_unique hu _ _ _ hta htb)
  have hmem : ∀ x, x ∈ (VisitS.visit (kidsS s) fuel [] e).map (den s) ↔ Subterm x t := by
    intro x
    rw [List.mem_map]
    constructor
    · rintro ⟨y, hy, rfl⟩
      obtain ⟨ty, hs, hty⟩ := hden y hy
      rw [den_eq hty]; exact hs
    · intro hs
      obtain ⟨y, hr, hy⟩ := subterm_reach hd x hs
      exact ⟨y, (hm y).mpr hr, den_eq hy⟩
  have hlen : nodeCountS s fuel e = ((VisitS.visit (kidsS s) fuel [] e).map (den s)).length := by
    rw [List.length_map]; rfl
  refine ⟨⟨_, hL, hmem, hlen⟩, fun L hLn hLm => ?_⟩
  rw [hlen]
  exact ((List.perm_ext_iff_of_nodup hL hLn).mpr (fun x => by rw [hmem, hLm])).length_eq

/-- **C03, last clause.** Handles of normal-form diagrams of the same three-valued function of
the variables are the same edge, hence have the same node count. -/
theorem nodeCountS_canonical (o : Order) (hp : PermOK o) (s : Store) (hu : s.Unique)
    (e e' : Edge) (t t' : TD) (hd : Denotes s e t) (hd' : Denotes s e' t')
    (hnf : NF t) (hnf' : NF t') (hsem : ∀ ρ, evalV o ρ t = evalV o ρ t') (fuel : Nat) :
    nodeCountS s fuel e = nodeCountS s fuel e' ∧ e = e' := by
  have htt : t = t' := tdd_canonical t t' hnf hnf' (fun σ => by
    rw [← evalV_lvl o hp σ t, ← evalV_lvl o hp σ t']; exact hsem _)
  subst htt
  have := inj_of_unique hu _ _ _ hd hd'
  subst this
  exact ⟨rfl, rfl⟩

/-! ## non-vacuity: 40 levels (three `u32` words), a rotation as order -/

/-- variable `v` on level `v + 1 mod 40` -/
def rot40 : Order :=
  ⟨((List.range 40).map fun v => (v + 1) % 40).toArray, ((List.range 40).map fun l => (l + 39) % 40).toArray⟩

theorem rot40_ok : PermOK rot40 := by decide

/-- slots: 0 = (level 33; F, U, T), 1 = (level 17; #0, U, F), 2 = (level 2; F, #1, F): the diagram
of `tdd_eval_walk`'s example, with levels in three different words -/
def exStore : Store :=
  ⟨#[some ⟨33, .term .f, .term .u, .term .t⟩, some ⟨17, .inner 0, .term .u, .term .f⟩,
     some ⟨2, .term .f, .inner 1, .term .f⟩]⟩

def exTree : TD :=
  node 2 (leaf .f) (node 17 (node 33 (leaf .f) (leaf .u) (leaf .t)) (leaf .u) (leaf .f)) (leaf .f)

theorem exStore_denotes : Denotes exStore (.inner 2) exTree :=
  .inner (i := 2) rfl .term (.inner (i := 1) rfl (.inner (i := 0) rfl .term .term .term) .term .term)
    .term

/-- levels 17, 33, 2 carry the variables 16, 32, 1; variable 16 is named twice -/
example :
    evalS rot40 exStore 11 (.inner 2) [(16, none), (32, some false), (16, some true), (1, none)]
      = .t := by
  rw [evalS_spec rot40 rot40_ok exStore _ exTree _ (by decide) exStore_denotes 11 (by decide)]
  decide

example : nodeCountS exStore 11 (.inner 2) = 6 ∧
    cofactorsS exStore (.inner 2) = some (.term .f, .inner 1, .term .f) := by decide

example := packed_eq_unpacked rot40 rot40_ok [(16, none), (32, some false), (16, some true)]
  (by decide) 17
example := varS_spec rot40 rot40_ok exStore 39
example := (cofactorsS_spec rot40 rot40_ok exStore).2 (.inner 2) 2 _ _ _ exStore_denotes (by decide)
example := nodeCountS_reach exStore (.inner 2) exTree exStore_denotes 11 (by decide)

/-! ## negative witnesses -/

/-- `eval_edge` with `level_to_var` where `var_to_level` belongs -/
def evalS_l2v (o : Order) (s : Store) (fuel : Nat) (e : Edge) (args : List (Nat × Option Bool)) :
    Tri :=
  walkS s (args.foldl (fun ch a => setChoice ch (o.var a.1) a.2)
    (Array.replicate ((o.n + ELEMENTS_PER_BLOCK - 1) / ELEMENTS_PER_BLOCK) 0)) fuel e

/-- running the code with the wrong map is running the right code under the exchanged order … -/
theorem evalS_l2v_eq (o : Order) (hp : PermOK o) (s : Store) (fuel : Nat) (e : Edge)
    (args : List (Nat × Option Bool)) : evalS_l2v o s fuel e args = evalS o.swap s fuel e args := by
  unfold evalS_l2v evalS fillChoices
  rw [hp.swap_n]
  rfl

/-- … so under the 3-cycle order the handle of variable 0 evaluates to the value given for
another variable; likewise `var` with the wrong map denotes another variable's projection. -/
theorem wrong_map_fails :
    let args := [(0, some false), (1, some true), (2, none)]
    evalS threeCycle (varS threeCycle ⟨#[]⟩ 0).1 4 (varS threeCycle ⟨#[]⟩ 0).2 args = .f ∧
    evalS_l2v threeCycle (varS threeCycle ⟨#[]⟩ 0).1 4 (varS threeCycle ⟨#[]⟩ 0).2 args = .u ∧
    (∀ s, Denotes (varS_l2v threeCycle s 0).1 (varS_l2v threeCycle s 0).2 (var (threeCycle.var 0))) ∧
    evalV threeCycle (rhoArgs args) (var (threeCycle.var 0)) ≠ rhoArgs args 0 := by
  intro args
  obtain ⟨_, _, hd, hs⟩ := varS_spec threeCycle threeCycle_ok ⟨#[]⟩ 0
  refine ⟨?_, ?_, fun s => .inner (Slots.intern_get _ _) .term .term .term, by decide⟩
  · rw [evalS_varS threeCycle threeCycle_ok _ _ _ (by decide) 4 (by decide)]; decide
  · rw [evalS_l2v_eq threeCycle threeCycle_ok,
      evalS_spec threeCycle.swap threeCycle_ok.swap _ _ _ args (by decide) hd 4 (by decide)]
    decide

end OxiddModel.Tdd.QueriesS
