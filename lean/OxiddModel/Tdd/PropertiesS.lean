import OxiddModel.Tdd.ApplyS
import OxiddModel.Tdd.HistoryS

/-!
# C06 / C01 / C11 — TDDs on the store level: hash-consed ternary nodes, apply cache

Modelled code: `apply_not`, `apply_bin::<OP>` (8 operators) of
`crates/oxidd-rules-tdd/src/apply_rec.rs`, `terminal_bin`, `reduce` (`lib.rs`), the cache discipline
of `crates/oxidd-cache/src/direct.rs` abstracted to a `Policy` (`Util/CachePolicy.lean`). The
store-level model is `StoreS.lean`, the refinement proof `ApplyS.lean`; the tree-level
specification is `Tdd.applyNot` / `Tdd.applyBin` of `Model.lean` (pointwise meaning:
`tdd_not_sem`, `tdd_apply_sem`).

All theorems hold for all stores, caches, operands, every edge order `gt` (store level) and `gtT`
(tree level: it is irrelevant for the value), every admissible policy, every fuel ≥ the sum of the
operand sizes.
-/
set_option linter.unusedSectionVars false

namespace OxiddModel.Tdd.StoreLevel
open OxiddModel.Tdd OxiddModel.Tdd.TD OxiddModel.Tdd.Refine OxiddModel.CachePolicy

/-! ## the memoised algorithms refine the tree-level operations -/

/-- **`apply_not` with cache refines `applyNot`.** -/
theorem notS_spec (gtT : TD → TD → Bool) {p : APolicy} (pok : p.OK) (fuel : Nat) (st : St)
    (f : Edge) (a : TD) (hu : st.store.Unique) (hc : CacheOK gtT st.store st.cache)
    (hf : Denotes st.store f a) (hfuel : a.size ≤ fuel) :
    let R := notS p fuel st f
    Denotes R.1.store R.2 (applyNot a) ∧ st.store.Le R.1.store ∧ R.1.store.Unique ∧
      CacheOK gtT R.1.store R.1.cache :=
  have P := Refine.notS_spec gtT pok fuel st f a ⟨hu, hc⟩ hf hfuel
  ⟨P.den, P.le, P.inv.1, P.inv.2⟩

/-- **`apply_bin::<OP>` with cache refines `applyBin op`**, for each of the eight connectives,
including the operand swap of the symmetric ones in the cache key and the delegation to
`apply_not`: from any state whose store is hash consed and whose cache is sound, for every
admissible cache behaviour and every edge order, the returned edge denotes `applyBin gtT op a b`,
the store is only extended, `Unique ∧ CacheOK` hold afterwards. -/
theorem applyS_spec (gt : Edge → Edge → Bool) (gtT : TD → TD → Bool) {p : APolicy} (pok : p.OK)
    (op : BinOp) (fuel : Nat) (st : St) (f g : Edge) (a b : TD)
    (hu : st.store.Unique) (hc : CacheOK gtT st.store st.cache)
    (hf : Denotes st.store f a) (hg : Denotes st.store g b) (hfuel : a.size + b.size ≤ fuel) :
    let R := applyS gt BinOp.tag p op fuel st f g
    Denotes R.1.store R.2 (applyBin gtT op a b) ∧ st.store.Le R.1.store ∧ R.1.store.Unique ∧
      CacheOK gtT R.1.store R.1.cache :=
  have P := Refine.applyS_spec gt gtT pok op fuel st f g a b ⟨hu, hc⟩ hf hg hfuel
  ⟨P.den, P.le, P.inv.1, P.inv.2⟩

/-- … hence the result edge evaluates, under every three-valued assignment, to the truth table of
the connective (`tdd_apply_sem`) -/
theorem applyS_sem (gt : Edge → Edge → Bool) (gtT : TD → TD → Bool) {p : APolicy} (pok : p.OK)
    (op : BinOp) (fuel : Nat) (st : St) (f g : Edge) (a b : TD)
    (hu : st.store.Unique) (hc : CacheOK gtT st.store st.cache)
    (hf : Denotes st.store f a) (hg : Denotes st.store g b) (hfuel : a.size + b.size ≤ fuel) :
    ∃ r, Denotes (applyS gt BinOp.tag p op fuel st f g).1.store (applyS gt BinOp.tag p op fuel st f g).2 r
      ∧ ∀ σ, eval σ r = op.sem (eval σ a) (eval σ b) :=
  ⟨_, (applyS_spec gt gtT pok op fuel st f g a b hu hc hf hg hfuel).1,
    fun σ => applyBin_sem gtT op a b σ⟩

/-! ## C01: handle equality is equality of three-valued functions -/

/-- **Equal handles ⇔ equal functions (TDD).** In a hash-consed store two edges denoting
normal-form diagrams are *equal* iff the diagrams have the same value under every three-valued
assignment (`tdd_canonical` + injectivity of `Denotes`). -/
theorem handle_eq_iff {s : Store} (hu : s.Unique) {x y : Edge} {a b : TD}
    (hx : Denotes s x a) (hy : Denotes s y b) (na : NF a) (nb : NF b) :
    x = y ↔ ∀ σ, eval σ a = eval σ b := by
  constructor
  · intro h σ; subst h; rw [Denotes.functional hx hy]
  · intro h
    have := canonical a b na nb h
    subst this
    exact inj_of_unique hu _ _ _ hx hy

/-- the result handle of the memoised `apply_bin` equals a handle `y` of the final store exactly
when `y`'s function is the truth table of the connective applied pointwise -/
theorem applyS_handle_eq_iff (gt : Edge → Edge → Bool) (gtT : TD → TD → Bool) {p : APolicy}
    (pok : p.OK) (op : BinOp) (fuel : Nat) (st : St) (f g : Edge) (a b : TD)
    (hu : st.store.Unique) (hc : CacheOK gtT st.store st.cache)
    (hf : Denotes st.store f a) (hg : Denotes st.store g b) (na : NF a) (nb : NF b)
    (hfuel : a.size + b.size ≤ fuel) (y : Edge) (c : TD) (nc : NF c)
    (hy : Denotes (applyS gt BinOp.tag p op fuel st f g).1.store y c) :
    (applyS gt BinOp.tag p op fuel st f g).2 = y ↔
      ∀ σ, eval σ c = op.sem (eval σ a) (eval σ b) := by
  have P := applyS_spec gt gtT pok op fuel st f g a b hu hc hf hg hfuel
  rw [handle_eq_iff P.2.2.1 P.1 hy (applyBin_nf gtT op a b na nb).1 nc]
  constructor
  · intro h σ; rw [← h σ, applyBin_sem]
  · intro h σ; rw [h σ, applyBin_sem]

/-! ## transparency -/

/-- **The cache is transparent.** Two runs of the same operation from the same (hash-consed,
reduced) store with different sound caches, cache behaviours, edge orders, time stamps and fuels:
the returned **edges are equal and the stores afterwards are equal**. -/
theorem cache_transparent (gt1 gt2 : Edge → Edge → Bool) (gtT : TD → TD → Bool) {p1 p2 : APolicy}
    (ok1 : p1.OK) (ok2 : p2.OK) (op : BinOp) (s : Store) (c1 c2 : ACache)
    (t1 t2 fuel1 fuel2 : Nat) (f g : Edge) (a b : TD) (hu : s.Unique) (hr : s.NoRed)
    (h1 : CacheOK gtT s c1) (h2 : CacheOK gtT s c2) (hf : Denotes s f a) (hg : Denotes s g b)
    (hfuel1 : a.size + b.size ≤ fuel1) (hfuel2 : a.size + b.size ≤ fuel2) :
    (applyS gt1 BinOp.tag p1 op fuel1 ⟨s, c1, t1⟩ f g).2 = (applyS gt2 BinOp.tag p2 op fuel2 ⟨s, c2, t2⟩ f g).2 ∧
    (applyS gt1 BinOp.tag p1 op fuel1 ⟨s, c1, t1⟩ f g).1.store
      = (applyS gt2 BinOp.tag p2 op fuel2 ⟨s, c2, t2⟩ f g).1.store := by
  have P1 := (Refine.applyS_spec gt1 gtT ok1 op fuel1 ⟨s, c1, t1⟩ f g a b ⟨hu, h1⟩ hf hg hfuel1).canon hr
  have P2 := (Refine.applyS_spec gt2 gtT ok2 op fuel2 ⟨s, c2, t2⟩ f g a b ⟨hu, h2⟩ hf hg hfuel2).canon hr
  have e := P1.trans P2.symm
  exact ⟨(Prod.mk.inj e).2, (Prod.mk.inj e).1⟩

/-- the same for `apply_not` -/
theorem cache_transparent_not (gtT : TD → TD → Bool) {p1 p2 : APolicy} (ok1 : p1.OK)
    (ok2 : p2.OK) (s : Store) (c1 c2 : ACache) (t1 t2 fuel1 fuel2 : Nat) (f : Edge) (a : TD)
    (hu : s.Unique) (hr : s.NoRed) (h1 : CacheOK gtT s c1) (h2 : CacheOK gtT s c2)
    (hf : Denotes s f a) (hfuel1 : a.size ≤ fuel1) (hfuel2 : a.size ≤ fuel2) :
    (notS p1 fuel1 ⟨s, c1, t1⟩ f).2 = (notS p2 fuel2 ⟨s, c2, t2⟩ f).2 ∧
    (notS p1 fuel1 ⟨s, c1, t1⟩ f).1.store = (notS p2 fuel2 ⟨s, c2, t2⟩ f).1.store := by
  have P1 := (Refine.notS_spec gtT ok1 fuel1 ⟨s, c1, t1⟩ f a ⟨hu, h1⟩ hf hfuel1).canon hr
  have P2 := (Refine.notS_spec gtT ok2 fuel2 ⟨s, c2, t2⟩ f a ⟨hu, h2⟩ hf hfuel2).canon hr
  have e := P1.trans P2.symm
  exact ⟨(Prod.mk.inj e).2, (Prod.mk.inj e).1⟩

/-- if the result tree is already present as edge `x`, every run returns exactly `x` -/
theorem cache_transparent_existing (gt : Edge → Edge → Bool) (gtT : TD → TD → Bool)
    {p : APolicy} (pok : p.OK) (op : BinOp) (fuel : Nat) (st : St) (f g x : Edge) (a b : TD)
    (hu : st.store.Unique) (hc : CacheOK gtT st.store st.cache)
    (hf : Denotes st.store f a) (hg : Denotes st.store g b) (hfuel : a.size + b.size ≤ fuel)
    (hx : Denotes st.store x (applyBin gtT op a b)) :
    (applyS gt BinOp.tag p op fuel st f g).2 = x := by
  have P := Refine.applyS_spec gt gtT pok op fuel st f g a b ⟨hu, hc⟩ hf hg hfuel
  exact inj_of_unique P.inv.1 _ _ _ P.den (hx.mono P.le)

/-! ## keys and tags -/

/-- **A hit needs the full key.** -/
theorem cache_key_full {p : APolicy} (pok : p.OK) (t : Nat) (c : ACache) (tag : TDDOp)
    (operands : List Edge) (r : Edge) (h : p.get t c (tag, operands) = some r) :
    ∃ x, x ∈ c ∧ x.1.1 = tag ∧ x.1.2 = operands ∧ x.2 = r :=
  ⟨_, pok.get_mem t c _ r h, rfl, rfl, rfl⟩

/-- a result memoised for one operator or operand tuple is never served for another -/
theorem no_cross_hit {p : APolicy} (pok : p.OK) (t : Nat) (c : ACache) (k : Key)
    (h : ∀ x, x ∈ c → x.1 ≠ k) : p.get t c k = none :=
  pok.no_cross_hit t c k h

theorem policies_admissible (cap : Nat) (hash : Key → Nat) (lock : Nat → Bool) :
    (Policy.exact : APolicy).OK ∧ (Policy.none : APolicy).OK ∧
      (Policy.dm cap hash lock : APolicy).OK :=
  ⟨Policy.exact_ok, Policy.none_ok, Policy.dm_ok cap hash lock⟩

/-- **Each operator is memoised under its own tag**, with exactly the operands `{f, g}` (swapped
only for the six symmetric connectives). -/
theorem memo_tag_ok (gt : Edge → Edge → Bool) (op : BinOp) (f g : Edge) (tag : TDDOp)
    (o1 o2 : Edge) (h : terminalBinS gt BinOp.tag op f g = .binary tag o1 o2) :
    tag = op.tag ∧ ((o1 = f ∧ o2 = g) ∨ (BinOp.comm op = true ∧ o1 = g ∧ o2 = f)) :=
  terminalBinS_tag gt BinOp.tag op f g tag o1 o2 h

/-- distinct operators have distinct tags -/
theorem tags_distinct {a b : BinOp} (h : a.tag = b.tag) : a = b := by
  cases a <;> cases b <;> first | rfl | cases h

/-- the edge-level `terminal_bin` agrees with the tree-level one in every hash-consed store -/
theorem terminalBinS_refines (gt : Edge → Edge → Bool) (gtT : TD → TD → Bool) (op : BinOp)
    {s : Store} (hu : s.Unique) {f g : Edge} {a b : TD} (hf : Denotes s f a) (hg : Denotes s g b) :
    OpCorr s BinOp.tag op f g (terminalBinS gt BinOp.tag op f g) (terminalBin gtT op a b) :=
  terminalBinS_corr gt gtT BinOp.tag op (inj_of_unique hu) hf hg

/-! ## invalidation -/

theorem cacheok_clear (gtT : TD → TD → Bool) (s' : Store) : CacheOK gtT s' [] := CacheOK.nil gtT s'

theorem cacheok_extend {gtT : TD → TD → Bool} {s s' : Store} {c : ACache} (h : CacheOK gtT s c)
    (hle : s.Le s') : CacheOK gtT s' c := h.mono hle

theorem cacheok_evict {gtT : TD → TD → Bool} {s : Store} {c c' : ACache} (h : CacheOK gtT s c)
    (hs : ∀ x, x ∈ c' → x ∈ c) : CacheOK gtT s c' := h.sub hs

/-! ## non-vacuity; the seeded defect `Xor` memoised under `Equiv` -/

def gtSample (a b : TD) : Bool := a.size > b.size

/-- the store holding `x0`, `x1` -/
def exStore : Store := (intern (intern Store.empty (var 0)).1 (var 1)).1

example : exStore.nodes =
    #[some ⟨0, .term .t, .term .u, .term .f⟩, some ⟨1, .term .t, .term .u, .term .f⟩] := by
  decide +kernel

theorem exStore_unique : exStore.Unique :=
  intern_unique _ _ (intern_unique _ _ Store.empty_unique)
theorem exStore_nored : exStore.NoRed := intern_nored _ _ (intern_nored _ _ Store.empty_nored)
theorem exStore_x0 : Denotes exStore (.inner 0) (var 0) := unfold_sound 2 _ _ (by decide +kernel)
theorem exStore_x1 : Denotes exStore (.inner 1) (var 1) := unfold_sound 2 _ _ (by decide +kernel)

/-- after `x0 ↔ x1` with the ideal cache -/
def exWarm : St :=
  (applyS Edge.gtIdx BinOp.tag Policy.exact .equiv 10 ⟨exStore, [], 0⟩ (.inner 0) (.inner 1)).1

theorem exWarm_inv : exWarm.store.Unique ∧ CacheOK gtSample exWarm.store exWarm.cache ∧
    exStore.Le exWarm.store :=
  have P := applyS_spec Edge.gtIdx gtSample Policy.exact_ok .equiv 10 ⟨exStore, [], 0⟩ (.inner 0)
    (.inner 1) (var 0) (var 1) exStore_unique (CacheOK.nil _ _) exStore_x0 exStore_x1 (by decide)
  ⟨P.2.2.1, P.2.2.2, P.2.1⟩

/-- non-vacuity of `applyS_spec` / `notS_spec` with a capacity-1 direct-mapped cache whose lock
fails at every odd time stamp, started from the warm state -/
example :
    let R := applyS Edge.gtIdx BinOp.tag (Policy.dm 1 (fun _ => 0) (fun t => t % 2 == 0)) .imp 10
      exWarm (.inner 1) (.inner 0)
    Denotes R.1.store R.2 (applyBin gtSample .imp (var 1) (var 0)) ∧ exWarm.store.Le R.1.store ∧
      R.1.store.Unique ∧ CacheOK gtSample R.1.store R.1.cache :=
  applyS_spec _ _ (Policy.dm_ok _ _ _) .imp 10 exWarm (.inner 1) (.inner 0) (var 1) (var 0)
    exWarm_inv.1 exWarm_inv.2.1 (exStore_x1.mono exWarm_inv.2.2) (exStore_x0.mono exWarm_inv.2.2)
    (by decide)

example :
    let R := notS Policy.exact 10 exWarm (.inner 1)
    Denotes R.1.store R.2 (applyNot (var 1)) ∧ exWarm.store.Le R.1.store ∧
      R.1.store.Unique ∧ CacheOK gtSample R.1.store R.1.cache :=
  notS_spec _ Policy.exact_ok 10 exWarm (.inner 1) (var 1) exWarm_inv.1 exWarm_inv.2.1
    (exStore_x1.mono exWarm_inv.2.2) (by decide)

/-- the concrete value: `x0 ↔ x1` -/
example :
    let R := applyS Edge.gtIdx BinOp.tag Policy.none .equiv 10 ⟨exStore, [], 0⟩ (.inner 0) (.inner 1)
    R.1.store.unfold 3 R.2 = some (applyBin gtSample .equiv (var 0) (var 1)) ∧
    R.1.store.nodes.size = 5 := by decide +kernel

/-- non-vacuity of `handle_eq_iff`: `x0 ∧ x1` and `x1 ∧ x0` (second one is a cache hit under the
normalised key) are the same handle; `x0` and `x1` are not -/
example :
    let R1 := applyS Edge.gtIdx BinOp.tag Policy.exact .and 10 ⟨exStore, [], 0⟩ (.inner 0) (.inner 1)
    let R2 := applyS Edge.gtIdx BinOp.tag Policy.exact .and 10 R1.1 (.inner 1) (.inner 0)
    R1.2 = R2.2 ∧ R2.1.tick = R1.1.tick + 1 := by decide +kernel

example : Edge.inner 0 ≠ Edge.inner 1 ∧ ¬ (∀ σ, eval σ (var 0) = eval σ (var 1)) :=
  ⟨by decide, fun h => by
    have := (handle_eq_iff exStore_unique exStore_x0 exStore_x1 (by decide) (by decide)).mpr h
    cases this⟩

/-- **`Xor` memoised under the `Equiv` tag** (the seeded change `C11-xor-equiv-tag`):
`x0 xor x1` after `x0 ↔ x1` hits the `Equiv` entry and returns the handle of `x0 ↔ x1`, which
denotes a different diagram; with the tags of the current source the result is right. -/
theorem xor_under_equiv_tag_unsound :
    let R1 := applyS Edge.gtIdx tagXorAsEquiv Policy.exact .equiv 10 ⟨exStore, [], 0⟩ (.inner 0) (.inner 1)
    let R2 := applyS Edge.gtIdx tagXorAsEquiv Policy.exact .xor 10 exWarm (.inner 0) (.inner 1)
    let G2 := applyS Edge.gtIdx BinOp.tag Policy.exact .xor 10 exWarm (.inner 0) (.inner 1)
    (R1.1.cache = exWarm.cache ∧ R1.1.store.nodes = exWarm.store.nodes ∧ R1.1.tick = exWarm.tick) ∧
    R2.2 = R1.2 ∧
    R2.1.store.unfold 3 R2.2 = some (applyBin gtSample .equiv (var 0) (var 1)) ∧
    applyBin gtSample .equiv (var 0) (var 1) ≠ applyBin gtSample .xor (var 0) (var 1) ∧
    G2.1.store.unfold 3 G2.2 = some (applyBin gtSample .xor (var 0) (var 1)) := by
  decide +kernel

/-- … so `applyS_spec` is false for that tag assignment -/
theorem applyS_spec_fails_for_xor_as_equiv :
    ¬ (∀ (st : St) (f g : Edge) (a b : TD), st.store.Unique →
        CacheOK gtSample st.store st.cache → Denotes st.store f a → Denotes st.store g b →
        Denotes (applyS Edge.gtIdx tagXorAsEquiv Policy.exact .xor 10 st f g).1.store
          (applyS Edge.gtIdx tagXorAsEquiv Policy.exact .xor 10 st f g).2
          (applyBin gtSample .xor a b)) := by
  intro h
  obtain ⟨hu, hc, hle⟩ := exWarm_inv
  have W := xor_under_equiv_tag_unsound
  have D := h exWarm (.inner 0) (.inner 1) (var 0) (var 1) hu hc (exStore_x0.mono hle)
    (exStore_x1.mono hle)
  exact W.2.2.2.1 (Denotes.functional (unfold_sound _ _ _ W.2.2.1) D)

/-- non-vacuity of `cache_transparent`: cold start without cache vs. warm direct-mapped cache and
a different edge order -/
example :
    (applyS Edge.gtIdx BinOp.tag Policy.none .xor 10 ⟨exStore, [], 0⟩ (.inner 0) (.inner 1)).2 =
    (applyS (fun a b => Edge.gtIdx b a) BinOp.tag (Policy.dm 2 (fun k => k.2.length) (fun _ => true))
      .xor 12 ⟨exStore, [((.and, [.inner 0, .inner 1]), .inner 0)], 5⟩ (.inner 0) (.inner 1)).2 := by
  decide +kernel

/-! ## histories -/

/-- **C01/C11 after any history.** Start from an empty manager and run any sequence of `const`,
`var`, `not`, `bin op` (eight connectives) on earlier handles, with points at which the cache drops
arbitrary entries, under any cache policy and edge order. Then the store is hash consed and the
cache sound; every handle denotes a normal-form diagram whose value under every three-valued
assignment is the *specified function* of the history (`runAllV`: constants, the variable's value,
Kleene negation, the connective's truth table applied pointwise); and **two handles are equal iff
their functions are equal**. The only precondition is the fuel bound (`PreAll`). -/
theorem history_spec (gtT : TD → TD → Bool) (cfg : Cfg) (pok : cfg.policy.OK) (fuel : Nat)
    (cs : List Cmd) (hp : PreAll gtT fuel cs []) :
    let X := runAllS cfg fuel cs (⟨Store.empty, [], 0⟩, [])
    let vs := runAllV cs []
    X.1.store.Unique ∧ CacheOK gtT X.1.store X.1.cache ∧ X.2.length = vs.length ∧
    (∀ (k : Nat) (e : Edge) (v : Val), X.2[k]? = some e → vs[k]? = some v →
      ∃ t, Denotes X.1.store e t ∧ NF t ∧ ∀ σ, eval σ t = v σ) ∧
    (∀ (i j : Nat) (e e' : Edge) (v v' : Val), X.2[i]? = some e → X.2[j]? = some e' →
      vs[i]? = some v → vs[j]? = some v' → (e = e' ↔ ∀ σ, v σ = v' σ)) := by
  intro X vs
  obtain ⟨G, _⟩ := history_ok gtT cfg pok fuel cs _ _ (good_empty gtT 0) hp
  have S := runAllT_sem gtT cs _ _ sem_empty
  have key : ∀ (k : Nat) (e : Edge) (v : Val), X.2[k]? = some e → vs[k]? = some v →
      ∃ t, Denotes X.1.store e t ∧ NF t ∧ ∀ σ, eval σ t = v σ := by
    intro k e v he hv
    obtain ⟨t, ht, dt, nt⟩ := G.handles.get he
    exact ⟨t, dt, nt, S.den k t v ht hv⟩
  refine ⟨G.inv.1, G.inv.2, G.handles.len.trans S.len, key, ?_⟩
  intro i j e e' v v' he he' hv hv'
  obtain ⟨t, dt, nt, et⟩ := key i e v he hv
  obtain ⟨t', dt', nt', et'⟩ := key j e' v' he' hv'
  rw [handle_eq_iff G.inv.1 dt dt' nt nt']
  constructor
  · intro h σ; rw [← et, ← et', h]
  · intro h σ; rw [et, et', h]

/-- **History independence (C06).** Two runs of the same history from an empty manager with
different cache policies, eviction choices and edge orders return the same handles and end in the
same store. -/
theorem history_transparent (gtT : TD → TD → Bool) (cfg1 cfg2 : Cfg) (ok1 : cfg1.policy.OK)
    (ok2 : cfg2.policy.OK) (fuel t1 t2 : Nat) (cs : List Cmd) (hp : PreAll gtT fuel cs []) :
    (runAllS cfg1 fuel cs (⟨Store.empty, [], t1⟩, [])).2
      = (runAllS cfg2 fuel cs (⟨Store.empty, [], t2⟩, [])).2 ∧
    (runAllS cfg1 fuel cs (⟨Store.empty, [], t1⟩, [])).1.store
      = (runAllS cfg2 fuel cs (⟨Store.empty, [], t2⟩, [])).1.store :=
  Refine.history_transparent gtT cfg1 cfg2 ok1 ok2 fuel cs _ _ [] rfl rfl
    (good_empty gtT t1) (good_empty gtT t2) hp

/-- a concrete history: `x0`, `x1`, `U`, `x0 ∧ x1`, `x1 ∧ x0`, eviction, `x0 ↔ x1`, `x0 xor x1` on
the same operands, `¬(x0 ↔ x1)`, `U → x0` -/
def exHistory : List Cmd :=
  [.var 0, .var 1, .const .u, .bin .and 0 1, .bin .and 1 0, .evict 0, .bin .equiv 0 1,
   .bin .xor 0 1, .not 5, .bin .imp 2 0]

def exCfgA : Cfg := ⟨Edge.gtIdx, Policy.exact, fun _ _ => true⟩
def exCfgB : Cfg := ⟨fun a b => Edge.gtIdx b a, Policy.dm 1 (fun _ => 0) (fun t => t % 3 != 0),
  fun _ _ => false⟩

theorem exHistory_pre : PreAll gtSample 20 exHistory [] :=
  preAll_of_B gtSample 20 exHistory [] (by decide +kernel)

/-- `x0 ∧ x1 = x1 ∧ x0` and `x0 xor x1 = ¬(x0 ↔ x1)` as handles (indices 3 = 4 and 6 = 7), with
both configurations -/
example :
    let hs := (runAllS exCfgA 20 exHistory (⟨Store.empty, [], 0⟩, [])).2
    hs.length = 9 ∧ hs[3]? = hs[4]? ∧ hs[6]? = hs[7]? ∧ hs[5]? ≠ hs[6]? ∧
    hs = (runAllS exCfgB 20 exHistory (⟨Store.empty, [], 0⟩, [])).2 := by
  decide +kernel

example :
    let X := runAllS exCfgB 20 exHistory (⟨Store.empty, [], 0⟩, [])
    X.1.store.Unique ∧ CacheOK gtSample X.1.store X.1.cache :=
  have h := history_spec gtSample exCfgB (Policy.dm_ok 1 (fun _ => 0) (fun t => t % 3 != 0)) 20
    exHistory exHistory_pre
  ⟨h.1, h.2.1⟩

end OxiddModel.Tdd.StoreLevel
