import OxiddModel.Tdd.StoreS
import OxiddModel.Util.OrderS
import OxiddModel.Util.VisitS

/-!
# The read-only queries of the TDD rules at STORE level, under a variable order

Store-level counterparts (nodes hold LEVELS, the caller names VARIABLES, `OrderS.Order` translates)
of

* `eval_edge` (`crates/oxidd-rules-tdd/src/apply_rec.rs`): `choices` is a `Vec<u32>` of
  `num_levels.div_ceil(16)` zeroed words holding sixteen 2-bit fields each; for every
  `(var, val)` of the argument list, in order, `level = var_to_level(var)`,
  `block = &mut choices[level / 16]`, `shift = 2 * (level % 16)`,
  `*block = (code(val) << shift) | (*block & !(0b11 << shift))` with `code(Some(true)) = 0`,
  `code(None) = 1`, `code(Some(false)) = 2` (`fillChoices`, on top of `Tdd.setChoice`); then the
  walk `node.child((choices[level / 16] >> (2 * (level % 16))) & 0b11)` (`walkS`);
* `var_edge`: `get_or_insert` of `(var_to_level(var); ⊤, U, ⊥)` (`varS`);
* `cofactors_edge` and the three single-cofactor functions of `TVLFunction`
  (`oxidd-core/src/function.rs`): the three children in the order true, unknown, false;
* `Function::node_count` (`nodeCountS`, generic traversal of `Util/VisitS.lean`; the three
  terminals are nodes with their own ids).

`evalV o ρ t` is the three-valued function over VARIABLES denoted by the tree `t`.
-/
set_option linter.unusedSectionVars false

namespace OxiddModel.Tdd.QueriesS
open OxiddModel.Tdd OxiddModel.Tdd.TD OxiddModel.Tdd.Refine OxiddModel.OrderS OxiddModel

/-! ## denotation over variables -/

/-- the three-valued function over variables denoted by a tree over levels -/
def evalV (o : Order) (ρ : Nat → Tri) (t : TD) : Tri := eval (fun l => ρ (o.var l)) t

theorem evalV_lvl (o : Order) (hp : PermOK o) (σ : Nat → Tri) (t : TD) :
    evalV o (fun v => σ (o.lvl v)) t = eval σ t := by
  unfold evalV
  congr 1
  funext l
  show σ (o.lvl (o.var l)) = σ l
  rw [hp.lvl_var]

theorem updV_var (o : Order) (hp : PermOK o) (ρ : Nat → Tri) (l : Nat) (b : Tri) :
    (fun k => updV ρ (o.var l) b (o.var k)) = update (fun k => ρ (o.var k)) l b := by
  funext k
  simp only [updV, update]
  by_cases e : k = l
  · subst e; simp
  · have : ¬ o.var k = o.var l := fun h => e (hp.var_inj h)
    simp [e, this]

/-! ## `eval_edge` -/

/-- `vec![0u32; num_levels.div_ceil(16)]`, then the loop over `args` through `var_to_level` -/
def fillChoices (o : Order) (args : List (Nat × Option Bool)) : Array (BitVec 32) :=
  args.foldl (fun ch a => setChoice ch (o.lvl a.1) a.2)
    (Array.replicate ((o.n + ELEMENTS_PER_BLOCK - 1) / ELEMENTS_PER_BLOCK) 0)

/-- the same table, unpacked: one entry per level -/
def fillUnpacked (o : Order) (args : List (Nat × Option Bool)) : Array (Option Bool) :=
  args.foldl (fun ch a => ch.setIfInBounds (o.lvl a.1) a.2) (Array.replicate o.n (some true))

/-- `inner`: `node.child(val)` with `val = (block >> shift) & 0b11`; `val = 3` cannot occur
(`child(3)` would panic) and is mapped to `U` -/
def walkS (s : Store) (ch : Array (BitVec 32)) : Nat → Edge → Tri
  | 0, _ => .u
  | _+1, .term v => v
  | fuel+1, .inner i =>
    match s.get? i with
    | none => .u -- dangling edge (excluded by `Denotes`)
    | some n =>
      let val := (getChoice ch n.level).toNat
      if val = 0 then walkS s ch fuel n.t
      else if val = 1 then walkS s ch fuel n.u
      else if val = 2 then walkS s ch fuel n.e
      else .u

/-- `eval_edge(manager, edge, args)` (the result `Option<bool>` as `Tri`, `Tri.toOptBool`) -/
def evalS (o : Order) (s : Store) (fuel : Nat) (e : Edge) (args : List (Nat × Option Bool)) : Tri :=
  walkS s (fillChoices o args) fuel e

/-- the three-valued assignment described by an argument list: last value counts, a variable that
is not named gets `true` (field `0` = child 0, the true child) -/
def rhoArgs (args : List (Nat × Option Bool)) : Nat → Tri :=
  fun v => Tri.ofOptBool (argVal (some true) args v)

/-- the 2-bit field of level `l` after the loop holds the code of the value the list gives to the
variable on that level — for any number of levels (any number of words) -/
theorem fillChoices_get (o : Order) (hp : PermOK o) (args : List (Nat × Option Bool))
    (hargs : ∀ a ∈ args, a.1 < o.n) (l : Nat) :
    getChoice (fillChoices o args) l = choiceCode (argVal (some true) args (o.var l)) := by
  unfold fillChoices argVal
  exact table_fill o hp setChoice getChoice choiceCode
    (fun t => t.size = (o.n + ELEMENTS_PER_BLOCK - 1) / ELEMENTS_PER_BLOCK)
    (fun t l x _ ht => by rw [setChoice_size]; exact ht)
    (fun t l x k hl ht => getChoice_setChoice t l k x (by
      rw [ht]; simp only [ELEMENTS_PER_BLOCK]; omega))
    args hargs _ (some true) l (by simp) (by rw [getChoice_replicate]; rfl)

theorem getD_setIfInBounds {α : Type} (t : Array α) (l k : Nat) (x d : α) (hl : l < t.size) :
    (t.setIfInBounds l x).getD k d = if k = l then x else t.getD k d := by
  simp only [Array.getD_eq_getD_getElem?, Array.getElem?_setIfInBounds]
  by_cases e : k = l
  · subst e; simp [hl]
  · have : ¬ l = k := fun h => e h.symm
    simp [e, this]

theorem fillUnpacked_get (o : Order) (hp : PermOK o) (args : List (Nat × Option Bool))
    (hargs : ∀ a ∈ args, a.1 < o.n) (l : Nat) :
    (fillUnpacked o args).getD l (some true) = argVal (some true) args (o.var l) := by
  unfold fillUnpacked argVal
  exact table_fill o hp (fun t l x => t.setIfInBounds l x) (fun t l => t.getD l (some true))
    (fun x => x) (fun t => t.size = o.n)
    (fun t l x _ ht => by simpa using ht)
    (fun t l x k hl ht => getD_setIfInBounds t l k x _ (by omega))
    args hargs (Array.replicate o.n (some true)) (some true) l (by simp)
    (by simp [Array.getD_eq_getD_getElem?, Array.getElem?_replicate]; split <;> rfl)

/-- the store walk is the tree-level `evalInner` of the denoted tree -/
theorem walkS_eq (s : Store) (ch : Array (BitVec 32)) {e : Edge} {t : TD} (hd : Denotes s e t) :
    ∀ fuel, t.size ≤ fuel → walkS s ch fuel e = evalInner ch t := by
  induction hd with
  | term =>
    intro fuel hf
    cases fuel with
    | zero => simp [TD.size] at hf
    | succ fuel => rfl
  | @inner i l t u e tt tu te hi _ _ _ iht ihu ihe =>
    intro fuel hf
    cases fuel with
    | zero => simp [TD.size] at hf
    | succ fuel =>
      simp only [TD.size] at hf
      simp only [walkS, hi, evalInner]
      rw [iht fuel (by omega), ihu fuel (by omega), ihe fuel (by omega)]

/-! ## `var_edge` -/

/-- `var_edge` -/
def varS (o : Order) (s : Store) (v : Nat) : Store × Edge :=
  let level := o.lvl v
  let r := Slots.intern s.nodes ⟨level, .term .t, .term .u, .term .f⟩
  (⟨r.1⟩, .inner r.2)

/-- `var_edge` with `level_to_var` where `var_to_level` belongs (seeded) -/
def varS_l2v (o : Order) (s : Store) (v : Nat) : Store × Edge :=
  let r := Slots.intern s.nodes ⟨o.var v, .term .t, .term .u, .term .f⟩
  (⟨r.1⟩, .inner r.2)

/-! ## `cofactors_edge` -/

/-- `cofactors_edge`: `None` for a terminal, else the children 0, 1, 2 -/
def cofactorsS (s : Store) : Edge → Option (Edge × Edge × Edge)
  | .term _ => none
  | .inner i => (s.get? i).map fun n => (n.t, n.u, n.e)

def cofactorTrueS (s : Store) (e : Edge) : Option Edge := (cofactorsS s e).map (·.1)
def cofactorUnknownS (s : Store) (e : Edge) : Option Edge := (cofactorsS s e).map (·.2.1)
def cofactorFalseS (s : Store) (e : Edge) : Option Edge := (cofactorsS s e).map (·.2.2)

/-! ## `node_count` -/

/-- ids of the children in iteration order (true, unknown, false); terminals have none -/
def kidsS (s : Store) : Edge → List Edge
  | .term _ => []
  | .inner i =>
    match s.get? i with
    | none => []
    | some n => [n.t, n.u, n.e]

/-- `Function::node_count` -/
def nodeCountS (s : Store) (fuel : Nat) (e : Edge) : Nat := VisitS.count (kidsS s) fuel e

/-- `x` is a node of the diagram of `t` (terminals included) -/
def Subterm (x : TD) : TD → Prop
  | .leaf v => x = .leaf v
  | .node l a b c => x = .node l a b c ∨ Subterm x a ∨ Subterm x b ∨ Subterm x c

theorem Subterm.refl (t : TD) : Subterm t t := by
  cases t with
  | leaf => rfl
  | node => exact .inl rfl

open Classical in
/-- the tree an edge denotes, as a (noncomputable) function -/
noncomputable def den (s : Store) (e : Edge) : TD :=
  if h : ∃ t, Denotes s e t then Classical.choose h else .leaf .u

theorem den_eq {s : Store} {e : Edge} {t : TD} (h : Denotes s e t) : den s e = t := by
  have hex : ∃ t, Denotes s e t := ⟨t, h⟩
  unfold den
  rw [dif_pos hex]
  exact Denotes.functional (Classical.choose_spec hex) h

theorem reach_denotes {s : Store} {e y : Edge} (hr : VisitS.Reach (kidsS s) e y) :
    ∀ {t : TD}, Denotes s e t → ∃ ty, Subterm ty t ∧ Denotes s y ty := by
  induction hr with
  | refl => intro t hd; exact ⟨t, Subterm.refl t, hd⟩
  | @step x k z hk _ ih =>
    intro t hd
    cases hd with
    | term => simp [kidsS] at hk
    | @inner i l a b c ta tb tc hi ha hb hc =>
      simp only [kidsS, hi, List.mem_cons, List.not_mem_nil, or_false] at hk
      rcases hk with rfl | rfl | rfl
      · obtain ⟨ty, hs, hy⟩ := ih ha
        exact ⟨ty, .inr (.inl hs), hy⟩
      · obtain ⟨ty, hs, hy⟩ := ih hb
        exact ⟨ty, .inr (.inr (.inl hs)), hy⟩
      · obtain ⟨ty, hs, hy⟩ := ih hc
        exact ⟨ty, .inr (.inr (.inr hs)), hy⟩

theorem subterm_reach {s : Store} {e : Edge} {t : TD} (hd : Denotes s e t) :
    ∀ ty, Subterm ty t → ∃ y, VisitS.Reach (kidsS s) e y ∧ Denotes s y ty := by
  induction hd with
  | @term b => intro ty hs; cases hs; exact ⟨_, .refl, .term⟩
  | @inner i l a b c ta tb tc hi ha hb hc iha ihb ihc =>
    intro ty hs
    rcases hs with rfl | hs | hs | hs
    · exact ⟨_, .refl, .inner hi ha hb hc⟩
    · obtain ⟨y, hr, hy⟩ := iha ty hs
      exact ⟨y, .step (by simp [kidsS, hi]) hr, hy⟩
    · obtain ⟨y, hr, hy⟩ := ihb ty hs
      exact ⟨y, .step (by simp [kidsS, hi]) hr, hy⟩
    · obtain ⟨y, hr, hy⟩ := ihc ty hs
      exact ⟨y, .step (by simp [kidsS, hi]) hr, hy⟩

theorem ranked_of_denotes {s : Store} {e : Edge} {t : TD} (hd : Denotes s e t) :
    VisitS.Ranked (kidsS s) (fun x => (den s x).size) e := by
  intro y hy z hz
  obtain ⟨ty, _, hty⟩ := reach_denotes hy hd
  cases hty with
  | term => simp [kidsS] at hz
  | @inner i l a b c ta tb tc hi ha hb hc =>
    simp only [kidsS, hi, List.mem_cons, List.not_mem_nil, or_false] at hz
    show (den s z).size < (den s (.inner i)).size
    rw [den_eq (.inner hi ha hb hc)]
    rcases hz with rfl | rfl | rfl
    · rw [den_eq ha]; simp only [TD.size]; omega
    · rw [den_eq hb]; simp only [TD.size]; omega
    · rw [den_eq hc]; simp only [TD.size]; omega

end OxiddModel.Tdd.QueriesS
