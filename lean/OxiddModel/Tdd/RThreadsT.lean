import OxiddModel.Tdd.PropertiesC07TT
import OxiddModel.Tdd.RcSLemmasInv

/-!
# The TDD interleaving machine with reference counters as shared state

`Tdd/ThreadsT.lean` interleaves the atomic actions of `apply_bin::<OP>` / `apply_not` /
`apply_ite_rec` on the shared state `St` (unique table of ternary nodes, apply cache, time stamp).
This file adds the **counters**: the shared state is `Rc.RSt` (`St` + one counter per inner-node
slot, `Tdd/RcS.lean`), and every step of a task does to the counters what the Rust code does at that
point (reference: the sequential counted model `Rc.applyR / Rc.notR / Rc.iteR / Rc.forkR /
Rc.finishR / Rc.mkNodeR` of `Tdd/RcS.lean`):

* a `call` that returns at once — a terminal case (`clone_edge(f|g)`; the three terminals are
  static and carry no counter), an early return of `apply_ite_rec`, or a **cache hit** — returns an
  *owned* edge: `clone_edge`. For a hit the `retain` happens inside `ApplyCache::get`, under the
  bucket lock: one atomic action together with the lookup;
* the thread-local delegations `call c → call c'` (`terminal_bin`'s `Not(h)`, `apply_ite_rec`'s
  delegations to `apply_bin` / `apply_not`) own nothing;
* operands of recursive calls, children read from operand nodes and cache keys are **borrowed**;
* `seq1 fr r1 _ _` owns the t-result `r1`, `seq0 fr r1 ru _` owns the t- and u-results
  (`EdgeDropGuard`s), a finished sub-task owns its result, `made _ r` owns `r` (`Task.owned`);
* `reduce` consumes the **three** owned children — one atomic action `mkNodeU` = `Rc.mkNodeR` with a
  free slot always available (`cap = none`): `t == u && u == e`: `drop_edge(u); drop_edge(e)`,
  return `t`; unique-table hit: the rejected node's three children are dropped and the found node
  is retained, all inside `get_or_insert` under the level's mutex; miss: the children move into
  the new node, `rc = 2`;
* `apply_cache().add` stores borrowed edges: no counter operation.

`Task.rstep_erase`: forgetting the counters, a step of this machine **is** the step of
`ThreadsT.lean`. `Task.rstep_rc`: every step keeps the counters **exact** (`Rc.RcInv r ext`).
Out of memory is not modelled (as in `ThreadsT.lean`); the `?` paths of the guards are therefore
not exercised (they are in the sequential model `Rc.forkR`, `Rc.forkR_rc`).
-/
set_option linter.unusedSectionVars false
set_option linter.unusedVariables false

namespace OxiddModel.Tdd.Threads
open OxiddModel.Tdd OxiddModel.Tdd.TD OxiddModel.Tdd.Refine OxiddModel.Tdd.Rc
open OxiddModel.CachePolicy

/-- the edges a task **owns** (each is counted in its target node's `rc`) -/
def Task.owned : Task → List Edge
  | .call _ => []
  | .miss _ _ => []
  | .seq2 _ _ _ t1 => t1.owned
  | .seq1 _ r1 _ tu => r1 :: tu.owned
  | .seq0 _ r1 ru t0 => r1 :: ru :: t0.owned
  | .made _ r => [r]
  | .ret r => [r]

theorem rcInv_perm {r : RSt} {ext ext' : List Edge} (h : RcInv r ext) (hp : ext.Perm ext') :
    RcInv r ext' := h.congr (fun e => hp.count_eq e)

/-- `reduce` with a free slot always available -/
def mkNodeU (r : RSt) (l : Nat) (t u e : Edge) : Edge × RSt :=
  (((mkNodeR none r l t u e).1).getD t, (mkNodeR none r l t u e).2)

theorem mkNodeU_some (r : RSt) (l : Nat) (t u e : Edge) :
    (mkNodeR none r l t u e).1 = some (mkNodeU r l t u e).1 := by
  unfold mkNodeU
  cases h : (mkNodeR none r l t u e).1 with
  | none => exact absurd h (mkNodeR_unbounded r l t u e)
  | some x => rfl

/-- forgetting the counters, `mkNodeU` is `Store.mkNode` on the store (the action `Act.mk`) -/
theorem mkNodeU_erase (p : APolicy) (r : RSt) (l : Nat) (t u e : Edge) :
    (mkNodeU r l t u e).2.st = (Act.mk l t u e).run p r.st ∧
    (mkNodeU r l t u e).1 = (r.st.store.mkNode l t u e).2 := by
  obtain ⟨h1, h2, h3⟩ := mkNodeR_erase none r l t u e _ (mkNodeU_some r l t u e)
  have hR : (mkNodeU r l t u e).2 = (mkNodeR none r l t u e).2 := rfl
  rw [hR]
  generalize (mkNodeR none r l t u e).2 = R at h1 h2 h3
  obtain ⟨⟨s, c, k⟩, m⟩ := R
  simp only at h1 h2 h3
  subst h2 h3
  constructor
  · simp only [Act.run]
    rw [h1]
  · rw [h1]

/-- `mkNodeU` keeps the counters exact: the three owned children are consumed, the result is
owned -/
theorem mkNodeU_rc {r : RSt} {l : Nat} {t u e : Edge} {ext : List Edge}
    (h : RcInv r (t :: u :: e :: ext)) :
    RcInv (mkNodeU r l t u e).2 ((mkNodeU r l t u e).1 :: ext) := by
  have := mkNodeR_rc (cap := none) (l := l) h
  have hs := mkNodeU_some r l t u e
  have h2 : (mkNodeU r l t u e).2 = (mkNodeR none r l t u e).2 := rfl
  rw [h2]
  generalize mkNodeR none r l t u e = m at this hs
  obtain ⟨o, r'⟩ := m
  simp only at hs
  subst hs
  exact this

/-- a cache add does not touch store or counters -/
theorem rcInv_cacheAdd {p : APolicy} (pok : p.OK) {r : RSt} {ext : List Edge} (h : RcInv r ext)
    (key : Key) {x : Edge} (hx : Has r.st.store x) :
    RcInv ⟨(Act.cacheAdd key x).run p r.st, r.rc⟩ ext := by
  refine ⟨h.ext_ok, h.kids_ok, ?_, h.rc_eq⟩
  intro k v hm
  rcases pok.add_sub _ _ _ _ _ hm with h' | h'
  · exact h.cache_ok k v h'
  · cases h'; exact hx

theorem has_of_denotes {s : Store} {e : Edge} {T : TD} (h : Denotes s e T) : Has s e := by
  cases h with
  | term => trivial
  | inner hi _ _ _ => exact ⟨_, hi⟩

/-! ## the counted step -/

/-- **one step of a task on the counted state** -/
def Task.rstep (gt : Edge → Edge → Bool) (p : APolicy) (r : RSt) : Task → RSt × Task
  | .ret x => (r, .ret x)
  | .call c =>
    let o := c.entry gt p r.st
    -- a call that returns at once returns an owned edge: `clone_edge` (for a cache hit: inside
    -- `ApplyCache::get`, atomically with the lookup)
    match o.2 with
    | .ret h => (cloneEdge ⟨runOpt p o.1 r.st, r.rc⟩ h, .ret h)
    | t' => (⟨runOpt p o.1 r.st, r.rc⟩, t')
  | .miss c key => (r, c.expand r.st.store key)
  | .seq2 fr cu c0 t1 =>
    match t1.ret? with
    | some r1 => (r, .seq1 fr r1 c0 (.call cu))
    | none => let o := t1.rstep gt p r; (o.1, .seq2 fr cu c0 o.2)
  | .seq1 fr r1 c0 tu =>
    match tu.ret? with
    | some ru => (r, .seq0 fr r1 ru (.call c0))
    | none => let o := tu.rstep gt p r; (o.1, .seq1 fr r1 c0 o.2)
  | .seq0 fr r1 ru t0 =>
    match t0.ret? with
    | some r0 => ((mkNodeU r fr.lvl r1 ru r0).2, .made fr.key (mkNodeU r fr.lvl r1 ru r0).1)
    | none => let o := t0.rstep gt p r; (o.1, .seq0 fr r1 ru o.2)
  | .made key x => (⟨(Act.cacheAdd key x).run p r.st, r.rc⟩, .ret x)

/-- **erasure**: forgetting the counters, the counted step is the step of `ThreadsT.lean` -/
theorem Task.rstep_erase (gt : Edge → Edge → Bool) (p : APolicy) (r : RSt) : ∀ (t : Task),
    (t.rstep gt p r).1.st = runOpt p (t.step gt p r.st).1 r.st ∧
    (t.rstep gt p r).2 = (t.step gt p r.st).2 := by
  intro t
  induction t with
  | ret x => exact ⟨rfl, rfl⟩
  | call c =>
    simp only [Task.rstep, Task.step]
    split
    · rename_i h heq
      exact ⟨by rw [cloneEdge_st], heq.symm⟩
    · exact ⟨rfl, rfl⟩
  | miss c key => exact ⟨rfl, rfl⟩
  | seq2 fr cu c0 t1 ih =>
    simp only [Task.rstep, Task.step]
    cases t1.ret? with
    | some r1 => exact ⟨rfl, rfl⟩
    | none => simp only; exact ⟨ih.1, by rw [ih.2]⟩
  | seq1 fr r1 c0 tu ih =>
    simp only [Task.rstep, Task.step]
    cases tu.ret? with
    | some ru => exact ⟨rfl, rfl⟩
    | none => simp only; exact ⟨ih.1, by rw [ih.2]⟩
  | seq0 fr r1 ru t0 ih =>
    simp only [Task.rstep, Task.step]
    cases t0.ret? with
    | some r0 =>
      simp only [reduceOut, runOpt]
      obtain ⟨h1, h2⟩ := mkNodeU_erase p r fr.lvl r1 ru r0
      exact ⟨h1, by rw [h2]⟩
    | none => simp only; exact ⟨ih.1, by rw [ih.2]⟩
  | made key x => exact ⟨rfl, rfl⟩

/-! ## the counters stay exact -/

theorem query_act (p : APolicy) (st : St) (c : Call) (key : Key) :
    (query p st c key).1 = some .cacheGet := by
  unfold query; split <;> rfl

theorem query_owned (p : APolicy) (st : St) (c : Call) (key : Key) :
    (∃ x, (query p st c key).2 = .ret x) ∨ (query p st c key).2.owned = [] := by
  unfold query; split
  · left; exact ⟨_, rfl⟩
  · right; rfl

theorem entry_act (gt : Edge → Edge → Bool) (p : APolicy) (st : St) (c : Call) :
    (c.entry gt p st).1 = none ∨ (c.entry gt p st).1 = some .cacheGet := by
  cases c with
  | bin op f g =>
    simp only [Call.entry]
    split
    · left; rfl
    · left; rfl
    · right; exact query_act _ _ _ _
  | not f =>
    cases f with
    | term v => left; rfl
    | inner i => right; exact query_act _ _ _ _
  | ite f g h =>
    simp only [Call.entry]
    split
    · left; rfl
    · left; rfl
    · left; rfl
    · right; exact query_act _ _ _ _

theorem entry_owned (gt : Edge → Edge → Bool) (p : APolicy) (st : St) (c : Call) :
    (∃ x, (c.entry gt p st).2 = .ret x) ∨ (c.entry gt p st).2.owned = [] := by
  cases c with
  | bin op f g =>
    simp only [Call.entry]
    split
    · left; exact ⟨_, rfl⟩
    · right; rfl
    · exact query_owned _ _ _ _
  | not f =>
    cases f with
    | term v => left; exact ⟨_, rfl⟩
    | inner i => exact query_owned _ _ _ _
  | ite f g h =>
    simp only [Call.entry]
    split
    · left; exact ⟨_, rfl⟩
    · right; rfl
    · right; rfl
    · exact query_owned _ _ _ _

theorem ret?_some' {t : Task} {x : Edge} (h : t.ret? = some x) : t = .ret x := by
  cases t <;> simp only [Task.ret?] at h <;> cases h
  rfl

theorem rcInv_runEntry {p : APolicy} {r : RSt} {ext : List Edge} (h : RcInv r ext)
    {o : Option Act} (ho : o = none ∨ o = some .cacheGet) :
    RcInv ⟨runOpt p o r.st, r.rc⟩ ext := by
  rcases ho with rfl | rfl
  · exact h
  · exact h.tickd

/-- after a miss the expanded frame owns nothing yet -/
theorem expand_owned {gtT : TD → TD → Bool} {s : Store} {c : Call} {key : Key} {T : TD} {k : Nat}
    (hm : MissSpec gtT s c key T k) : (c.expand s key).owned = [] := by
  cases c with
  | bin op f g =>
    obtain ⟨a, b, tag, x, y, hf, hg, hT, _, _, _⟩ := hm
    simp only [Call.expand]
    cases hl : lmin a.level b.level with
    | none => exact absurd hl (terminalBin_binary_not_leaves hT)
    | some l => rw [level?_denotes hf, level?_denotes hg, hl]; rfl
  | not f =>
    obtain ⟨a, hf, hlv, _, _, _⟩ := hm
    cases hf with
    | term => exact absurd rfl hlv
    | inner hi _ _ _ => simp only [Call.expand, hi]; rfl
  | ite f g h =>
    obtain ⟨a, b, c, hf, hg, hh, hT, _, _, _⟩ := hm
    simp only [Call.expand]
    cases hl : lmin (lmin a.level b.level) c.level with
    | none => exact absurd hl (iteShortcut_none_not_leaves hT)
    | some l => rw [level?_denotes hf, level?_denotes hg, level?_denotes hh, hl]; rfl

/-- **every step of a task keeps the counters exact** -/
theorem Task.rstep_rc {gtT : TD → TD → Bool} {p : APolicy} (pok : p.OK) (gt : Edge → Edge → Bool)
    {r : RSt} (hinv : Inv gtT r.st) {t : Task} {T : TD} {n : Nat}
    (h : TaskOK gtT r.st.store t T n) :
    ∀ (ext : List Edge), t.ret? = none → RcInv r (t.owned ++ ext) →
      RcInv (t.rstep gt p r).1 ((t.rstep gt p r).2.owned ++ ext) := by
  induction h with
  | ret h => intro _ hr; simp [Task.ret?] at hr
  | @call c T k n hc hn =>
    intro ext _ hrc
    simp only [Task.owned, List.nil_append] at hrc
    have hact := entry_act gt p r.st c
    obtain ⟨n', _, hok⟩ := (entry_ok pok hinv gt hc hn).2
    have hrc' := rcInv_runEntry (p := p) hrc hact
    simp only [Task.rstep]
    split
    · rename_i x hx
      rw [hx] at hok
      have hden := hok.ret_den rfl
      simp only [Task.owned, List.singleton_append]
      exact cloneEdge_rc hrc' (has_of_denotes hden)
    · rename_i hne
      rcases entry_owned gt p r.st c with ⟨x, hx⟩ | hnil
      · exact absurd hx (hne x)
      · rw [hnil]; exact hrc'
  | @miss c key T k n hm hn =>
    intro ext _ hrc
    simp only [Task.rstep]
    rw [expand_owned hm]
    exact hrc
  | @seq2 fr cu c0 t1 T T1 Tu T0 ku k0 n1 n hT hk hcu hc0 h1 hn ih =>
    intro ext _ hrc
    simp only [Task.rstep]
    cases hr : t1.ret? with
    | some r1 =>
      have := ret?_some' hr
      subst this
      exact hrc
    | none => exact ih ext hr hrc
  | @seq1 fr r1 c0 tu T T1 Tu T0 k0 nu n hT hk hr1 hc0 hu hn ih =>
    intro ext _ hrc
    simp only [Task.rstep]
    cases hr : tu.ret? with
    | some ru =>
      have := ret?_some' hr
      subst this
      exact hrc
    | none =>
      simp only [Task.owned, List.cons_append] at hrc ⊢
      have h1 : RcInv r (tu.owned ++ (r1 :: ext)) := rcInv_perm hrc List.perm_middle.symm
      exact rcInv_perm (ih (r1 :: ext) hr h1) List.perm_middle
  | @seq0 fr r1 ru t0 T T1 Tu T0 n0 n hT hk hr1 hru h0 hn ih =>
    intro ext _ hrc
    simp only [Task.rstep]
    cases hr : t0.ret? with
    | some r0 =>
      have := ret?_some' hr
      subst this
      exact mkNodeU_rc hrc
    | none =>
      simp only [Task.owned, List.cons_append] at hrc ⊢
      have h1 : RcInv r (t0.owned ++ (r1 :: ru :: ext)) :=
        hrc.congr (fun e => by simp only [List.count_append, List.count_cons]; omega)
      exact (ih (r1 :: ru :: ext) hr h1).congr
        (fun e => by simp only [List.count_append, List.count_cons]; omega)
  | @made key x T n hk hr hn =>
    intro ext _ hrc
    simp only [Task.rstep]
    exact rcInv_cacheAdd pok hrc key (has_of_denotes hr)

end OxiddModel.Tdd.Threads
