import OxiddModel.Tdd.IteS
import OxiddModel.Tdd.HistoryS

/-!
# TDD store level with explicit reference counters, a node capacity and garbage collection

`StoreS.lean` / `ApplyS.lean` / `IteS.lean` / `HistoryS.lean` model the index manager for ternary
decision diagrams without counters, without capacity and without collection. This file adds what
the Rust code does to the **counters** of the (arity 3) inner nodes, the **capacity** of the
inner-node store and `Manager::gc`:

* `crates/oxidd-manager-index/src/manager.rs`
  - `clone_edge` / `drop_edge`: `retain` / `release` on the inner node; the three terminals of a
    TDD are static (`StaticTerminalManager`), an edge to one of them carries no counter —
    `cloneEdge` / `dropEdge`;
  - `LevelViewSet::get_or_insert` (hit: `drop(node)` = drop the **three** children, then
    `clone_edge_unchecked(found)`; miss: `add_node`: a slot with `rc = 2` or `Err(OutOfMemory)`
    after `node.drop_with(|e| drop_edge(e))`) — `insertR`;
  - `Manager::gc`: `pre_gc` clears the apply cache, `for level in &self.unique_table {
    level.gc(store) }` (`retain(rc != 1, free_slot)`; `free_slot` drops the three children) — `gcR`;
* `crates/oxidd-rules-tdd/src/lib.rs`: `reduce` (`t == u && u == e` ⇒ `drop_edge(u);
  drop_edge(e)`, return `t`; else `get_or_insert`) — `mkNodeR`; `terminal_bin::<OP>`: every arm is
  `Done(clone_edge(f|g))`, `Done(get_terminal(..).unwrap())` (static, no counter), `Not(f|g)` or
  `Binary(tag, a, b)` — `terminalBinS` of `StoreS.lean`, reused unchanged;
* `crates/oxidd-rules-tdd/src/apply_rec.rs`: `apply_not` (`notR`), `apply_bin::<OP>` (`applyR`),
  `apply_ite_rec` (`iteR`: the prologue `iteShortcutS` of `IteS.lean`, its results cloned resp.
  delegated), `var_edge` (`varR`: `get_or_insert` without the reduction test, terminal children),
  with every `?` path of the **three** `EdgeDropGuard`s `t`, `u`, `e`: when the second recursive
  call fails the guard of the first result drops it, when the third fails the guards of the second
  and of the first result drop them (reverse declaration order); when `reduce` fails `add_node` has
  dropped all three children;
* `crates/oxidd-core/src/function.rs`: `TVLFunction::not_edge_owned` (default): the owned argument
  is wrapped in an `EdgeDropGuard` and dropped on return, on success and on failure —
  `notEdgeOwnedR`; the historical version that forgot the guard is `notEdgeOwnedLeak`.

Conventions of the code: the counter of an inner node is the raw `rc` field, `2` when fresh (unique
table + returned edge); `InnerNode::ref_count()` reports `rc - 1`. The apply cache stores borrowed
edges, `get` returns a clone, and the cache is cleared in `pre_gc`.

The capacity is an `Option Nat` (`none` = unbounded) so that the erasure to the counter-free model
is a statement about the same function.
-/
set_option linter.unusedSectionVars false

namespace OxiddModel.Tdd.Rc
open OxiddModel.Tdd OxiddModel.Tdd.TD OxiddModel.Tdd.Refine OxiddModel.CachePolicy OxiddModel

/-! ## counter array, capacity -/

/-- value of the `rc` field of slot `i` (0 for slots never used) -/
def rcGet (m : Array Nat) (i : Nat) : Nat := m.getD i 0

/-- write the `rc` field of slot `i` (the array grows with the store) -/
def rcSet (m : Array Nat) (i v : Nat) : Array Nat :=
  if i < m.size then m.set! i v else (m ++ Array.replicate (i + 1 - m.size) 0).set! i v

/-- number of occupied slots -/
def slotCount {α : Type} (a : Array (Option α)) : Nat := a.countP (·.isSome)

/-- is there room for one more element? (`none` = unbounded) -/
def room : Option Nat → Nat → Bool
  | none, _ => true
  | some c, n => decide (n < c)

/-- store + apply cache + time stamp (`Refine.St`) and one counter per inner-node slot -/
structure RSt where
  st : St
  rc : Array Nat

def RSt.empty : RSt := ⟨⟨Store.empty, [], 0⟩, #[]⟩

/-- the state after one cache access -/
def RSt.tickd (r : RSt) : RSt := { r with st := r.st.tickd }

/-- the raw counter of the node an edge points to (terminals are static: no counter) -/
def RSt.rcOf (r : RSt) : Edge → Nat
  | .inner i => rcGet r.rc i
  | .term _ => 0

/-- what `InnerNode::ref_count()` reports: the counter without the unique table's reference -/
def RSt.refCount (r : RSt) (i : Nat) : Nat := rcGet r.rc i - 1

def RSt.numInner (r : RSt) : Nat := slotCount r.st.store.nodes

/-! ## `clone_edge`, `drop_edge` -/

/-- `Store::clone_edge`: `retain()` on the inner node; terminals are static -/
def cloneEdge (r : RSt) : Edge → RSt
  | .term _ => r
  | .inner i => { r with rc := rcSet r.rc i (rcGet r.rc i + 1) }

/-- `Store::drop_edge`: `release()` (never frees: the unique table keeps its reference) -/
def dropEdge (r : RSt) : Edge → RSt
  | .term _ => r
  | .inner i => { r with rc := rcSet r.rc i (rcGet r.rc i - 1) }

/-! ## `get_or_insert`, `reduce` -/

/-- `LevelView::get_or_insert(InnerNode::new(level, [t, u, e]))` with **owned** `t`, `u`, `e`:
* hit: `drop(node)` (= `drop_edge(t); drop_edge(u); drop_edge(e)`), then
  `clone_edge_unchecked(found)`;
* miss, slot available (`add_node`, `Ok`): the children move into the node, `rc = 2`;
* miss, store full (`add_node`, `Err(OutOfMemory)`): `node.drop_with(|e| self.drop_edge(e))`. -/
def insertR (cap : Option Nat) (r : RSt) (level : Nat) (t u e : Edge) : Option Edge × RSt :=
  match Slots.find? r.st.store.nodes ⟨level, t, u, e⟩ with
  | some i => (some (.inner i), cloneEdge (dropEdge (dropEdge (dropEdge r t) u) e) (.inner i))
  | none =>
    if room cap (slotCount r.st.store.nodes) then
      let a := Slots.alloc r.st.store.nodes ⟨level, t, u, e⟩
      (some (.inner a.2), { st := { r.st with store := ⟨a.1⟩ }, rc := rcSet r.rc a.2 2 })
    else (none, dropEdge (dropEdge (dropEdge r t) u) e)

/-- `reduce(manager, level, t, u, e, op)`: `if t == u && u == e { drop_edge(u); drop_edge(e);
return Ok(t) }`, else `get_or_insert` -/
def mkNodeR (cap : Option Nat) (r : RSt) (level : Nat) (t u e : Edge) : Option Edge × RSt :=
  if t = u ∧ u = e then (some t, dropEdge (dropEdge r u) e) else insertR cap r level t u e

/-- the seeded defect `C05-oom-leaks-children` for ternary nodes: `add_node` returns the error
without dropping the children of the rejected node -/
def mkNodeLeak (cap : Option Nat) (r : RSt) (level : Nat) (t u e : Edge) : Option Edge × RSt :=
  if t = u ∧ u = e then (some t, dropEdge (dropEdge r u) e) else
  match Slots.find? r.st.store.nodes ⟨level, t, u, e⟩ with
  | some i => (some (.inner i), cloneEdge (dropEdge (dropEdge (dropEdge r t) u) e) (.inner i))
  | none =>
    if room cap (slotCount r.st.store.nodes) then
      let a := Slots.alloc r.st.store.nodes ⟨level, t, u, e⟩
      (some (.inner a.2), { st := { r.st with store := ⟨a.1⟩ }, rc := rcSet r.rc a.2 2 })
    else (none, r)

/-- a wrong reduction rule: `reduce` comparing only the first two children (`t == u`), dropping
`u` and `e` and returning `t` — a node `(l: a a b)` is lost -/
def mkNodeTwo (cap : Option Nat) (r : RSt) (level : Nat) (t u e : Edge) : Option Edge × RSt :=
  if t = u then (some t, dropEdge (dropEdge r u) e) else insertR cap r level t u e

/-! ## the algorithms -/

/-- `let h = reduce(..)?; apply_cache().add(.., h.borrowed()); Ok(h)` -/
def finishR (cap : Option Nat) (p : APolicy) (r : RSt) (key : Key) (l : Nat) (e1 eu e0 : Edge) :
    Option Edge × RSt :=
  match mkNodeR cap r l e1 eu e0 with
  | (none, r') => (none, r')
  | (some h, r') =>
    (some h, { r' with st := ⟨r'.st.store, p.add r'.st.tick r'.st.cache key h, r'.st.tick + 1⟩ })

/-- `let t = EdgeDropGuard::new(manager, rec(f0, ..)?); let u = EdgeDropGuard::new(manager,
rec(f1, ..)?); let e = EdgeDropGuard::new(manager, rec(f2, ..)?); let h = reduce(manager, level,
t.into_edge(), u.into_edge(), e.into_edge(), op)?; cache.add(..)`: when the second call fails the
guard `t` drops the first result; when the third fails the guards `u`, `t` drop theirs (locals are
dropped in reverse order of declaration) -/
def forkR (cap : Option Nat) (p : APolicy) (key : Key) (l : Nat)
    (c1 cu c0 : RSt → Option Edge × RSt) (r : RSt) : Option Edge × RSt :=
  match c1 r with
  | (none, r1) => (none, r1)
  | (some t, r1) =>
    match cu r1 with
    | (none, ru) => (none, dropEdge ru t)
    | (some u, ru) =>
      match c0 ru with
      | (none, r0) => (none, dropEdge (dropEdge r0 u) t)
      | (some e, r0) => finishR cap p r0 key l t u e

/-- `apply_not` (the operand is borrowed, the result is owned) -/
def notR (cap : Option Nat) (p : APolicy) : Nat → RSt → Edge → Option Edge × RSt
  | 0, r, f => (some f, cloneEdge r f)
  | fuel+1, r, f =>
    match f with
    | .term v => (some (.term v.not), r) -- `get_terminal(!t).unwrap()`: static
    | .inner i =>
      -- query apply cache (`get` returns a clone)
      match p.get r.st.tick r.st.cache (.not, [f]) with
      | some h => (some h, cloneEdge r.tickd h)
      | none =>
        match r.st.store.get? i with
        | none => (some f, cloneEdge r.tickd f) -- dangling edge (excluded by the invariant)
        | some n =>
          forkR cap p (.not, [f]) n.level (fun s => notR cap p fuel s n.t)
            (fun s => notR cap p fuel s n.u) (fun s => notR cap p fuel s n.e) r.tickd

/-- `apply_bin::<OP>` (operands borrowed, result owned): `Done(h)` of `terminal_bin` is
`clone_edge(f|g)` or a static terminal -/
def applyR (gt : Edge → Edge → Bool) (tg : BinOp → TDDOp) (cap : Option Nat) (p : APolicy)
    (op : BinOp) : Nat → RSt → Edge → Edge → Option Edge × RSt
  | 0, r, f, _ => (some f, cloneEdge r f)
  | fuel+1, r, f, g =>
    match terminalBinS gt tg op f g with
    | .done h => (some h, cloneEdge r h)
    | .notOf h => notR cap p fuel r h
    | .binary tag o1 o2 =>
      match p.get r.st.tick r.st.cache (tag, [o1, o2]) with
      | some h => (some h, cloneEdge r.tickd h)
      | none =>
        match lmin (r.st.store.level? f) (r.st.store.level? g) with
        | none => (some f, cloneEdge r.tickd f) -- two terminals: excluded
        | some l =>
          forkR cap p (tag, [o1, o2]) l
            (fun s => applyR gt tg cap p op fuel s (r.st.store.childAt f l .t) (r.st.store.childAt g l .t))
            (fun s => applyR gt tg cap p op fuel s (r.st.store.childAt f l .u) (r.st.store.childAt g l .u))
            (fun s => applyR gt tg cap p op fuel s (r.st.store.childAt f l .f) (r.st.store.childAt g l .f))
            r.tickd

/-- `apply_ite_rec` (operands borrowed, result owned): the early returns are
`Ok(manager.clone_edge(..))`, a static terminal, or a delegation to `apply_bin` / `apply_not` -/
def iteR (gt : Edge → Edge → Bool) (tg : BinOp → TDDOp) (cap : Option Nat) (p : APolicy) :
    Nat → RSt → Edge → Edge → Edge → Option Edge × RSt
  | 0, r, f, _, _ => (some f, cloneEdge r f)
  | fuel+1, r, f, g, h =>
    match iteShortcutS f g h with
    | .done x => (some x, cloneEdge r x)
    | .bin op x y => applyR gt tg cap p op fuel r x y
    | .notOf x => notR cap p fuel r x
    | .recurse =>
      match p.get r.st.tick r.st.cache (.ite, [f, g, h]) with
      | some x => (some x, cloneEdge r.tickd x)
      | none =>
        match lmin (lmin (r.st.store.level? f) (r.st.store.level? g)) (r.st.store.level? h) with
        | none => (some f, cloneEdge r.tickd f) -- three terminals: excluded
        | some l =>
          forkR cap p (.ite, [f, g, h]) l
            (fun s => iteR gt tg cap p fuel s (r.st.store.childAt f l .t) (r.st.store.childAt g l .t)
              (r.st.store.childAt h l .t))
            (fun s => iteR gt tg cap p fuel s (r.st.store.childAt f l .u) (r.st.store.childAt g l .u)
              (r.st.store.childAt h l .u))
            (fun s => iteR gt tg cap p fuel s (r.st.store.childAt f l .f) (r.st.store.childAt g l .f)
              (r.st.store.childAt h l .f))
            r.tickd

/-- `var_edge`: `get_or_insert(InnerNode::new(level, [⊤, U, ⊥]))` (no reduction test; the children
are static terminals) -/
def varR (cap : Option Nat) (r : RSt) (level : Nat) : Option Edge × RSt :=
  insertR cap r level (.term .t) (.term .u) (.term .f)

/-- `TVLFunction::not_edge_owned` (default method, as fixed in e34177a): `let edge =
EdgeDropGuard::new(manager, edge); Self::not_edge(manager, &edge)` — the owned argument is dropped
when the guard goes out of scope, on success and on failure -/
def notEdgeOwnedR (cap : Option Nat) (p : APolicy) (fuel : Nat) (r : RSt) (f : Edge) :
    Option Edge × RSt :=
  match notR cap p fuel r f with
  | (o, r') => (o, dropEdge r' f)

/-- the historical `not_edge_owned`: `Self::not_edge(manager, &edge)` without the guard — the
argument the function took ownership of is forgotten -/
def notEdgeOwnedLeak (cap : Option Nat) (p : APolicy) (fuel : Nat) (r : RSt) (f : Edge) :
    Option Edge × RSt :=
  notR cap p fuel r f

/-! ## garbage collection -/

/-- one step of `LevelViewSet::gc` (`retain`): the node in slot `i`, if it is on level `l` and
only the unique table references it (`rc == 1`), is removed from the table and `free_slot`
drops its three children -/
def gcSlot (l : Nat) (r : RSt) (i : Nat) : RSt :=
  match r.st.store.get? i with
  | none => r
  | some n =>
    if n.level = l ∧ rcGet r.rc i = 1 then
      dropEdge (dropEdge (dropEdge
        { r with st := { r.st with store := ⟨r.st.store.nodes.set! i none⟩ } } n.t) n.u) n.e
    else r

/-- `level.gc(store)` for the unique table of level `l` -/
def gcLevel (r : RSt) (l : Nat) : RSt :=
  (List.range r.st.store.nodes.size).foldl (gcSlot l) r

/-- `pre_gc`: the apply cache is cleared -/
def clearCache (r : RSt) : RSt := { r with st := { r.st with cache := [] } }

/-- `Manager::gc`: cache cleared, `for level in &self.unique_table { level.gc(store) }` -/
def gcR (numLevels : Nat) (r : RSt) : RSt := (List.range numLevels).foldl gcLevel (clearCache r)

/-- wrong order: the levels visited from the bottom -/
def gcBottomUp (numLevels : Nat) (r : RSt) : RSt :=
  (List.range numLevels).reverse.foldl gcLevel (clearCache r)

end OxiddModel.Tdd.Rc
