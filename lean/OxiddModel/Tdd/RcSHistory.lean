import OxiddModel.Tdd.RcSLemmasAlg
import OxiddModel.Tdd.RcSLemmasGc

/-!
# Histories over the TDD counter model

A user of the manager holds a list of handles (owned edges) and issues commands: create a
constant, create a variable, apply `not` / `not_edge_owned` / a binary connective / `ite` to
handles (each command with **its own capacity**, so any of them may fail with OutOfMemory at any
allocation point), clone a handle, drop a handle, collect garbage.
`Cmd.run_rc`: every command keeps `RcInv` for the handle list; `runAll_rc`: so does every sequence.
-/
set_option linter.unusedSectionVars false

namespace OxiddModel.Tdd.Rc
open OxiddModel.Tdd OxiddModel.Tdd.TD OxiddModel.Tdd.Refine OxiddModel.CachePolicy OxiddModel

/-- the manager and the user's handles -/
structure HSt where
  r : RSt
  hs : List Edge

/-- what stays fixed along a history: edge order, tags, cache behaviour -/
structure Env where
  gt : Edge → Edge → Bool
  tg : BinOp → TDDOp
  p : APolicy

/-- operands are positions in the handle list; `cap` is the capacity during the command -/
inductive Cmd where
  | const (v : Tri)
  | var (cap : Option Nat) (level : Nat)
  | not (cap : Option Nat) (fuel : Nat) (a : Nat)
  /-- `not_edge_owned(manager, clone_edge(a))` -/
  | notOwned (cap : Option Nat) (fuel : Nat) (a : Nat)
  | bin (cap : Option Nat) (fuel : Nat) (op : BinOp) (a b : Nat)
  | ite (cap : Option Nat) (fuel : Nat) (a b c : Nat)
  | clone (a : Nat)
  | drop (a : Nat)
  | gc (numLevels : Nat)

/-- a successful operation yields a new handle, a failed one (OutOfMemory) none -/
def pushRes (h : HSt) (res : Option Edge × RSt) : HSt :=
  match res with
  | (some x, r') => ⟨r', x :: h.hs⟩
  | (none, r') => ⟨r', h.hs⟩

def Cmd.run (E : Env) : Cmd → HSt → HSt
  | .const v, h => ⟨h.r, .term v :: h.hs⟩
  | .var cap level, h => pushRes h (varR cap h.r level)
  | .not cap fuel a, h =>
    match h.hs[a]? with
    | some f => pushRes h (notR cap E.p fuel h.r f)
    | none => h
  | .notOwned cap fuel a, h =>
    match h.hs[a]? with
    | some f => pushRes h (notEdgeOwnedR cap E.p fuel (cloneEdge h.r f) f)
    | none => h
  | .bin cap fuel op a b, h =>
    match h.hs[a]?, h.hs[b]? with
    | some f, some g => pushRes h (applyR E.gt E.tg cap E.p op fuel h.r f g)
    | _, _ => h
  | .ite cap fuel a b c, h =>
    match h.hs[a]?, h.hs[b]?, h.hs[c]? with
    | some f, some g, some k => pushRes h (iteR E.gt E.tg cap E.p fuel h.r f g k)
    | _, _, _ => h
  | .clone a, h =>
    match h.hs[a]? with
    | some f => ⟨cloneEdge h.r f, f :: h.hs⟩
    | none => h
  | .drop a, h =>
    match h.hs[a]? with
    | some f => ⟨dropEdge h.r f, h.hs.erase f⟩
    | none => h
  | .gc n, h => ⟨gcR n h.r, h.hs⟩

def runAll (E : Env) (cmds : List Cmd) (h : HSt) : HSt :=
  cmds.foldl (fun h c => c.run E h) h

theorem pushRes_rc {h : HSt} {r0 : RSt} {res : Option Edge × RSt} (hres : RcPost r0 h.hs res) :
    RcInv (pushRes h res).r (pushRes h res).hs := by
  obtain ⟨o, r'⟩ := res
  cases o <;> exact hres.2

theorem count_cons_erase {l : List Edge} {f : Edge} (hf : f ∈ l) (e : Edge) :
    (f :: l.erase f).count e = l.count e := by
  rw [List.count_cons, List.count_erase]
  by_cases h : (f == e) = true
  · have : f = e := by simpa using h
    subst this
    have : 0 < l.count f := List.count_pos_iff.mpr hf
    simp; omega
  · simp [h]

theorem Cmd.run_rc {E : Env} (pok : E.p.OK) (c : Cmd) (h : HSt) (hi : RcInv h.r h.hs) :
    RcInv (c.run E h).r (c.run E h).hs := by
  cases c with
  | const v => exact cloneEdge_rc (x := .term v) hi trivial
  | var cap level => exact pushRes_rc (varR_rc cap h.r level h.hs hi)
  | not cap fuel a =>
    simp only [Cmd.run]
    cases ha : h.hs[a]? with
    | none => exact hi
    | some f =>
      exact pushRes_rc (notR_rc pok cap fuel h.r f h.hs hi (hi.ext_ok f (List.mem_of_getElem? ha)))
  | notOwned cap fuel a =>
    simp only [Cmd.run]
    cases ha : h.hs[a]? with
    | none => exact hi
    | some f =>
      have hc := cloneEdge_rc hi (hi.ext_ok f (List.mem_of_getElem? ha))
      exact pushRes_rc (notEdgeOwnedR_rc pok cap fuel (cloneEdge h.r f) f h.hs hc)
  | bin cap fuel op a b =>
    simp only [Cmd.run]
    cases ha : h.hs[a]? with
    | none => exact hi
    | some f =>
      cases hb : h.hs[b]? with
      | none => exact hi
      | some g =>
        exact pushRes_rc (applyR_rc E.gt E.tg pok cap op fuel h.r f g h.hs hi
          (hi.ext_ok f (List.mem_of_getElem? ha)) (hi.ext_ok g (List.mem_of_getElem? hb)))
  | ite cap fuel a b c =>
    simp only [Cmd.run]
    cases ha : h.hs[a]? with
    | none => exact hi
    | some f =>
      cases hb : h.hs[b]? with
      | none => exact hi
      | some g =>
        cases hc : h.hs[c]? with
        | none => exact hi
        | some k =>
          exact pushRes_rc (iteR_rc E.gt E.tg pok cap fuel h.r f g k h.hs hi
            (hi.ext_ok f (List.mem_of_getElem? ha)) (hi.ext_ok g (List.mem_of_getElem? hb))
            (hi.ext_ok k (List.mem_of_getElem? hc)))
  | clone a =>
    simp only [Cmd.run]
    cases ha : h.hs[a]? with
    | none => exact hi
    | some f => exact cloneEdge_rc hi (hi.ext_ok f (List.mem_of_getElem? ha))
  | drop a =>
    simp only [Cmd.run]
    cases ha : h.hs[a]? with
    | none => exact hi
    | some f =>
      have hf := List.mem_of_getElem? ha
      exact dropEdge_rc (hi.congr (fun e => (count_cons_erase hf e).symm))
  | gc n => exact (gcR_rc n hi).1

theorem runAll_rc {E : Env} (pok : E.p.OK) : ∀ (cmds : List Cmd) (h : HSt),
    RcInv h.r h.hs → RcInv (runAll E cmds h).r (runAll E cmds h).hs := by
  intro cmds
  induction cmds with
  | nil => intro h hi; exact hi
  | cons c cs ih => intro h hi; exact ih _ (Cmd.run_rc pok c h hi)

/-! ## executable tests (for concrete examples) -/

/-- executable necessary condition of `RcInv`: the counter equation on all node slots -/
def rcCheck (r : RSt) (ext : List Edge) : Bool :=
  (List.range r.st.store.nodes.size).all fun i =>
    match r.st.store.get? i with
    | none => true
    | some _ => rcGet r.rc i == 1 + ext.count (.inner i) + parents r.st.store (.inner i)

theorem rcCheck_of_inv {r : RSt} {ext : List Edge} (h : RcInv r ext) : rcCheck r ext = true := by
  unfold rcCheck
  rw [List.all_eq_true]
  intro i _
  cases hi : r.st.store.get? i with
  | none => rfl
  | some n =>
    have := h.rc_eq i n hi
    simp [this]

/-- executable test for orderedness -/
def orderedB (s : Store) : Bool :=
  (List.range s.nodes.size).all fun i =>
    match s.get? i with
    | none => true
    | some n =>
      let ok : Edge → Bool := fun x =>
        match x with
        | .term _ => true
        | .inner j =>
          match s.get? j with
          | some m => decide (n.level < m.level)
          | none => true
      ok n.t && ok n.u && ok n.e

theorem ordered_of_orderedB {s : Store} (h : orderedB s = true) : Ordered s := by
  intro i n j m hi hc hj
  have hlt : i < s.nodes.size := slots_get?_lt hi
  unfold orderedB at h
  rw [List.all_eq_true] at h
  have := h i (List.mem_range.mpr hlt)
  simp only [hi, Bool.and_eq_true] at this
  rcases hc with hc | hc | hc
  · have h1 := this.1.1
    rw [hc] at h1
    simpa [hj] using h1
  · have h2 := this.1.2
    rw [hc] at h2
    simpa [hj] using h2
  · have h3 := this.2
    rw [hc] at h3
    simpa [hj] using h3

end OxiddModel.Tdd.Rc
