import OxiddModel.Tdd.RcS

/-!
# Counter array, shapes of the terminal cases, erasure of counters and capacity (TDD)

* `rcGet_rcSet`, `rcOf_cloneEdge`, `rcOf_dropEdge`: the counter array behaves like a function
  update; terminals carry no counter;
* `terminalBinS_shape`, `iteShortcutS_shape`: what the terminal cases of `terminal_bin` and the
  prologue of `apply_ite_rec` return is an operand or a static terminal;
* **erasure**: a run of `insertR / mkNodeR / finishR / forkR / notR / applyR / iteR / varR` that
  does not fail is, counters forgotten, the run of `Slots.intern / mkNode / finishS / notS /
  applyS / iteS / varS` (same edge, same store, same cache, same time stamp) — for *all*
  capacities; and with unbounded capacity no run fails.
-/
set_option linter.unusedSectionVars false

namespace OxiddModel.Tdd.Rc
open OxiddModel.Tdd OxiddModel.Tdd.TD OxiddModel.Tdd.Refine OxiddModel.CachePolicy OxiddModel

/-! ## the counter array -/

theorem rcGet_rcSet (m : Array Nat) (i v j : Nat) :
    rcGet (rcSet m i v) j = if j = i then v else rcGet m j := by
  have key : ∀ (a : Array Nat), i < a.size →
      (a.set! i v).getD j 0 = if j = i then v else a.getD j 0 := by
    intro a hi
    by_cases hj : j = i
    · subst hj; simp [Array.getD, hi]
    · simp only [hj, if_false]
      simp only [Array.getD_eq_getD_getElem?, Array.set!_eq_setIfInBounds,
        Array.getElem?_setIfInBounds]
      simp [Ne.symm hj]
  unfold rcGet rcSet
  by_cases hi : i < m.size
  · simp only [hi, if_true]
    exact key m hi
  · simp only [hi, if_false]
    rw [key _ (by simp; omega)]
    by_cases hj : j = i
    · simp [hj]
    · simp only [hj, if_false]
      simp only [Array.getD_eq_getD_getElem?]
      rw [Array.getElem?_append]
      by_cases hjm : j < m.size
      · simp [hjm]
      · simp only [hjm, if_false]
        have : m[j]? = none := by simp; omega
        rw [this]
        by_cases hji : j - m.size < i + 1 - m.size
        · simp [hji]
        · simp [hji]

/-- 1 if the edge `e` is the edge `x` -/
def cnt (e x : Edge) : Nat := if e = x then 1 else 0

theorem rcGet_cloneEdge (r : RSt) (e : Edge) (i : Nat) :
    rcGet (cloneEdge r e).rc i = rcGet r.rc i + cnt e (.inner i) := by
  cases e with
  | term v => simp [cloneEdge, cnt]
  | inner j =>
    simp only [cloneEdge, rcGet_rcSet, cnt]
    by_cases h : i = j
    · subst h; simp
    · have : ¬ (Edge.inner j = Edge.inner i) := fun e => h (by cases e; rfl)
      simp [h, this]

theorem rcGet_dropEdge (r : RSt) (e : Edge) (i : Nat) :
    rcGet (dropEdge r e).rc i = rcGet r.rc i - cnt e (.inner i) := by
  cases e with
  | term v => simp [dropEdge, cnt]
  | inner j =>
    simp only [dropEdge, rcGet_rcSet, cnt]
    by_cases h : i = j
    · subst h; simp
    · have : ¬ (Edge.inner j = Edge.inner i) := fun e => h (by cases e; rfl)
      simp [h, this]

/-! ## the counters do not influence anything else -/

@[simp] theorem cloneEdge_st (r : RSt) (e : Edge) : (cloneEdge r e).st = r.st := by
  cases e <;> rfl

@[simp] theorem dropEdge_st (r : RSt) (e : Edge) : (dropEdge r e).st = r.st := by
  cases e <;> rfl

@[simp] theorem tickd_st (r : RSt) : r.tickd.st = r.st.tickd := rfl
@[simp] theorem tickd_rc (r : RSt) : r.tickd.rc = r.rc := rfl

/-! ## shapes of the terminal cases -/

/-- a `done` arm returns one of the operands or a static terminal, a `notOf` arm one of the
operands, a `binary` arm has the operands as key (possibly swapped) -/
def opShape (f g : Edge) : OperationS → Prop
  | .done h => h = f ∨ h = g ∨ ∃ v, h = .term v
  | .notOf h => h = f ∨ h = g
  | .binary _ a b => (a = f ∧ b = g) ∨ (a = g ∧ b = f)

theorem terminalBinS_shape (gt : Edge → Edge → Bool) (tg : BinOp → TDDOp) (op : BinOp)
    (f g : Edge) : opShape f g (terminalBinS gt tg op f g) := by
  cases op <;> simp only [terminalBinS] <;> (repeat' split) <;> simp [opShape]

/-- the prologue of `apply_ite_rec` returns / delegates on operands (or the static `U`) only -/
def iteShape (f g h : Edge) : IteCase → Prop
  | .done x => x = f ∨ x = g ∨ x = h ∨ ∃ v, x = .term v
  | .bin _ x y => x = f ∧ (y = g ∨ y = h)
  | .notOf x => x = f
  | .recurse => True

theorem iteShortcutS_shape (f g h : Edge) : iteShape f g h (iteShortcutS f g h) := by
  unfold iteShortcutS
  split
  · simp [iteShape]
  split
  · simp [iteShape]
  split
  · simp [iteShape]
  simp only
  split
  · rename_i r1 heq
    simp only [iteShape]
    split at heq
    · split at heq
      · cases heq; split <;> simp
      · split at heq
        · cases heq; simp
        · cases heq
    · cases heq
  · (repeat' split) <;> simp [iteShape]

/-! ## erasure -/

theorem insertR_erase (cap : Option Nat) (r : RSt) (l : Nat) (t u e : Edge) (x : Edge)
    (h : (insertR cap r l t u e).1 = some x) :
    ((⟨(Slots.intern r.st.store.nodes ⟨l, t, u, e⟩).1⟩ : Store),
      Edge.inner (Slots.intern r.st.store.nodes ⟨l, t, u, e⟩).2) = ((insertR cap r l t u e).2.st.store, x) ∧
    (insertR cap r l t u e).2.st.cache = r.st.cache ∧ (insertR cap r l t u e).2.st.tick = r.st.tick := by
  unfold insertR at h ⊢
  unfold Slots.intern
  cases hf : Slots.find? r.st.store.nodes ⟨l, t, u, e⟩ with
  | some i =>
    rw [hf] at h
    simp only at h ⊢
    cases h
    simp
  | none =>
    rw [hf] at h
    simp only at h ⊢
    split at h
    · simp only at h; cases h; simp [*]
    · cases h

theorem insertR_unbounded (r : RSt) (l : Nat) (t u e : Edge) : (insertR none r l t u e).1 ≠ none := by
  unfold insertR
  split
  · simp
  · simp [room]

theorem mkNodeR_erase (cap : Option Nat) (r : RSt) (l : Nat) (t u e : Edge) (x : Edge)
    (h : (mkNodeR cap r l t u e).1 = some x) :
    r.st.store.mkNode l t u e = ((mkNodeR cap r l t u e).2.st.store, x) ∧
    (mkNodeR cap r l t u e).2.st.cache = r.st.cache ∧ (mkNodeR cap r l t u e).2.st.tick = r.st.tick := by
  unfold mkNodeR at h ⊢
  unfold Store.mkNode
  by_cases hte : t = u ∧ u = e
  · simp only [hte, and_self, if_true] at h ⊢
    cases h
    simp
  · simp only [hte, if_false] at h ⊢
    exact insertR_erase cap r l t u e x h

theorem mkNodeR_unbounded (r : RSt) (l : Nat) (t u e : Edge) : (mkNodeR none r l t u e).1 ≠ none := by
  unfold mkNodeR
  split
  · simp
  · exact insertR_unbounded r l t u e

theorem finishR_erase (cap : Option Nat) (p : APolicy) (r : RSt) (key : Key) (l : Nat)
    (e1 eu e0 : Edge) (x : Edge) (h : (finishR cap p r key l e1 eu e0).1 = some x) :
    finishS p r.st key l e1 eu e0 = ((finishR cap p r key l e1 eu e0).2.st, x) := by
  unfold finishR at h ⊢
  unfold finishS
  cases hR : mkNodeR cap r l e1 eu e0 with
  | mk o r' =>
    rw [hR] at h
    cases o with
    | none => cases h
    | some y =>
      simp only at h ⊢
      cases h
      obtain ⟨h1, h2, h3⟩ := mkNodeR_erase cap r l e1 eu e0 x (by rw [hR])
      rw [hR] at h1 h2 h3
      simp only at h1 h2 h3
      rw [h1]
      simp only [h2, h3]

theorem finishR_unbounded (p : APolicy) (r : RSt) (key : Key) (l : Nat) (e1 eu e0 : Edge) :
    (finishR none p r key l e1 eu e0).1 ≠ none := by
  unfold finishR
  have := mkNodeR_unbounded r l e1 eu e0
  cases hR : mkNodeR none r l e1 eu e0 with
  | mk o r' =>
    rw [hR] at this
    cases o with
    | none => exact absurd rfl this
    | some y => simp

/-- erasure statement for a run: if it succeeds it equals the counter-free run -/
def Erases (R : Option Edge × RSt) (S : St × Edge) : Prop :=
  ∀ x, R.1 = some x → S = (R.2.st, x)

theorem forkR_erase {cap : Option Nat} {p : APolicy} {key : Key} {l : Nat}
    {c1R cuR c0R : RSt → Option Edge × RSt} {c1S cuS c0S : St → St × Edge}
    (h1 : ∀ r, Erases (c1R r) (c1S r.st)) (hu : ∀ r, Erases (cuR r) (cuS r.st))
    (h0 : ∀ r, Erases (c0R r) (c0S r.st)) (r : RSt) :
    Erases (forkR cap p key l c1R cuR c0R r)
      (finishS p (c0S (cuS (c1S r.st).1).1).1 key l (c1S r.st).2 (cuS (c1S r.st).1).2
        (c0S (cuS (c1S r.st).1).1).2) := by
  intro x hx
  unfold forkR at hx ⊢
  cases hc1 : c1R r with
  | mk o1 r1 =>
    rw [hc1] at hx
    cases o1 with
    | none => cases hx
    | some t =>
      simp only at hx ⊢
      have e1 := h1 r t (by rw [hc1])
      rw [hc1] at e1
      simp only at e1
      cases hcu : cuR r1 with
      | mk ou ru =>
        rw [hcu] at hx
        cases ou with
        | none => cases hx
        | some u =>
          simp only at hx ⊢
          have eu := hu r1 u (by rw [hcu])
          rw [hcu] at eu
          simp only at eu
          cases hc0 : c0R ru with
          | mk o0 r0 =>
            rw [hc0] at hx
            cases o0 with
            | none => cases hx
            | some e =>
              simp only at hx ⊢
              have e0 := h0 ru e (by rw [hc0])
              rw [hc0] at e0
              simp only at e0
              rw [e1]
              simp only
              rw [eu]
              simp only
              rw [e0]
              exact finishR_erase cap p r0 key l t u e x hx

theorem forkR_unbounded {p : APolicy} {key : Key} {l : Nat}
    {c1 cu c0 : RSt → Option Edge × RSt} (h1 : ∀ r, (c1 r).1 ≠ none) (hu : ∀ r, (cu r).1 ≠ none)
    (h0 : ∀ r, (c0 r).1 ≠ none) (r : RSt) : (forkR none p key l c1 cu c0 r).1 ≠ none := by
  unfold forkR
  cases hc1 : c1 r with
  | mk o1 r1 =>
    have := h1 r
    rw [hc1] at this
    cases o1 with
    | none => exact absurd rfl this
    | some t =>
      simp only
      cases hcu : cu r1 with
      | mk ou ru =>
        have := hu r1
        rw [hcu] at this
        cases ou with
        | none => exact absurd rfl this
        | some u =>
          simp only
          cases hc0 : c0 ru with
          | mk o0 r0 =>
            have := h0 ru
            rw [hc0] at this
            cases o0 with
            | none => exact absurd rfl this
            | some e => exact finishR_unbounded p r0 key l t u e

/-- **`notR` erases to `notS`** (all capacities, successful runs) -/
theorem notR_erase' (cap : Option Nat) (p : APolicy) (fuel : Nat) : ∀ (r : RSt) (f : Edge),
    Erases (notR cap p fuel r f) (notS p fuel r.st f) := by
  induction fuel with
  | zero => intro r f x hx; simp only [notR] at hx; cases hx; simp [notR, notS]
  | succ fuel ih =>
    intro r f x hx
    cases f with
    | term v => simp only [notR] at hx ⊢; cases hx; simp [notS]
    | inner i =>
      simp only [notR] at hx ⊢
      simp only [notS]
      cases hget : p.get r.st.tick r.st.cache (.not, [.inner i]) with
      | some h => rw [hget] at hx; simp only at hx; cases hx; simp
      | none =>
        rw [hget] at hx
        simp only at hx ⊢
        cases hi : r.st.store.get? i with
        | none => rw [hi] at hx; simp only at hx; cases hx; simp
        | some n =>
          rw [hi] at hx
          simp only at hx ⊢
          exact forkR_erase
            (c1S := fun s => notS p fuel s n.t) (cuS := fun s => notS p fuel s n.u)
            (c0S := fun s => notS p fuel s n.e)
            (fun s => ih s _) (fun s => ih s _) (fun s => ih s _) r.tickd x hx

theorem notR_unbounded' (p : APolicy) (fuel : Nat) : ∀ (r : RSt) (f : Edge),
    (notR none p fuel r f).1 ≠ none := by
  induction fuel with
  | zero => intro r f; simp [notR]
  | succ fuel ih =>
    intro r f
    cases f with
    | term v => simp [notR]
    | inner i =>
      simp only [notR]
      split
      · simp
      · split
        · simp
        · exact forkR_unbounded (fun s => ih s _) (fun s => ih s _) (fun s => ih s _) _

/-- **`applyR` erases to `applyS`** (all capacities, successful runs) -/
theorem applyR_erase' (gt : Edge → Edge → Bool) (tg : BinOp → TDDOp) (cap : Option Nat)
    (p : APolicy) (op : BinOp) (fuel : Nat) : ∀ (r : RSt) (f g : Edge),
    Erases (applyR gt tg cap p op fuel r f g) (applyS gt tg p op fuel r.st f g) := by
  induction fuel with
  | zero => intro r f g x hx; simp only [applyR] at hx; cases hx; simp [applyR, applyS]
  | succ fuel ih =>
    intro r f g x hx
    simp only [applyR] at hx ⊢
    simp only [applyS]
    cases hP : terminalBinS gt tg op f g with
    | done h =>
      rw [hP] at hx
      simp only at hx
      cases hx
      simp
    | notOf h =>
      rw [hP] at hx
      simp only at hx ⊢
      exact notR_erase' cap p fuel r h x hx
    | binary tag o1 o2 =>
      rw [hP] at hx
      simp only at hx ⊢
      cases hget : p.get r.st.tick r.st.cache (tag, [o1, o2]) with
      | some h =>
        rw [hget] at hx
        simp only at hx
        cases hx
        simp
      | none =>
        rw [hget] at hx
        simp only at hx ⊢
        cases hl : lmin (r.st.store.level? f) (r.st.store.level? g) with
        | none =>
          rw [hl] at hx
          simp only at hx
          cases hx
          simp
        | some l =>
          rw [hl] at hx
          simp only at hx ⊢
          exact forkR_erase
            (c1S := fun s => applyS gt tg p op fuel s (r.st.store.childAt f l .t) (r.st.store.childAt g l .t))
            (cuS := fun s => applyS gt tg p op fuel s (r.st.store.childAt f l .u) (r.st.store.childAt g l .u))
            (c0S := fun s => applyS gt tg p op fuel s (r.st.store.childAt f l .f) (r.st.store.childAt g l .f))
            (fun s => ih s _ _) (fun s => ih s _ _) (fun s => ih s _ _) r.tickd x hx

theorem applyR_unbounded' (gt : Edge → Edge → Bool) (tg : BinOp → TDDOp) (p : APolicy)
    (op : BinOp) (fuel : Nat) : ∀ (r : RSt) (f g : Edge),
    (applyR gt tg none p op fuel r f g).1 ≠ none := by
  induction fuel with
  | zero => intro r f g; simp [applyR]
  | succ fuel ih =>
    intro r f g
    simp only [applyR]
    split
    · simp
    · exact notR_unbounded' p fuel r _
    · split
      · simp
      · split
        · simp
        · exact forkR_unbounded (fun s => ih s _ _) (fun s => ih s _ _) (fun s => ih s _ _) _

/-- **`iteR` erases to `iteS`** -/
theorem iteR_erase' (gt : Edge → Edge → Bool) (tg : BinOp → TDDOp) (cap : Option Nat)
    (p : APolicy) (fuel : Nat) : ∀ (r : RSt) (f g h : Edge),
    Erases (iteR gt tg cap p fuel r f g h) (iteS gt tg p fuel r.st f g h) := by
  induction fuel with
  | zero => intro r f g h x hx; simp only [iteR] at hx; cases hx; simp [iteR, iteS]
  | succ fuel ih =>
    intro r f g h x hx
    simp only [iteR] at hx ⊢
    simp only [iteS]
    cases hP : iteShortcutS f g h with
    | done y =>
      rw [hP] at hx
      simp only at hx
      cases hx
      simp
    | bin op a b =>
      rw [hP] at hx
      simp only at hx ⊢
      exact applyR_erase' gt tg cap p op fuel r a b x hx
    | notOf a =>
      rw [hP] at hx
      simp only at hx ⊢
      exact notR_erase' cap p fuel r a x hx
    | recurse =>
      rw [hP] at hx
      simp only at hx ⊢
      cases hget : p.get r.st.tick r.st.cache (.ite, [f, g, h]) with
      | some y => rw [hget] at hx; simp only at hx; cases hx; simp
      | none =>
        rw [hget] at hx
        simp only at hx ⊢
        cases hl : lmin (lmin (r.st.store.level? f) (r.st.store.level? g)) (r.st.store.level? h) with
        | none => rw [hl] at hx; simp only at hx; cases hx; simp
        | some l =>
          rw [hl] at hx
          simp only at hx ⊢
          exact forkR_erase
            (c1S := fun s => iteS gt tg p fuel s (r.st.store.childAt f l .t) (r.st.store.childAt g l .t) (r.st.store.childAt h l .t))
            (cuS := fun s => iteS gt tg p fuel s (r.st.store.childAt f l .u) (r.st.store.childAt g l .u) (r.st.store.childAt h l .u))
            (c0S := fun s => iteS gt tg p fuel s (r.st.store.childAt f l .f) (r.st.store.childAt g l .f) (r.st.store.childAt h l .f))
            (fun s => ih s _ _ _) (fun s => ih s _ _ _) (fun s => ih s _ _ _) r.tickd x hx

theorem iteR_unbounded' (gt : Edge → Edge → Bool) (tg : BinOp → TDDOp) (p : APolicy) (fuel : Nat) :
    ∀ (r : RSt) (f g h : Edge), (iteR gt tg none p fuel r f g h).1 ≠ none := by
  induction fuel with
  | zero => intro r f g h; simp [iteR]
  | succ fuel ih =>
    intro r f g h
    simp only [iteR]
    split
    · simp
    · exact applyR_unbounded' gt tg p _ fuel r _ _
    · exact notR_unbounded' p fuel r _
    · split
      · simp
      · split
        · simp
        · exact forkR_unbounded (fun s => ih s _ _ _) (fun s => ih s _ _ _) (fun s => ih s _ _ _) _

/-- `varR` erases to `varS` -/
theorem varR_erase' (cap : Option Nat) (r : RSt) (l : Nat) (x : Edge)
    (h : (varR cap r l).1 = some x) :
    varS r.st.store l = ((varR cap r l).2.st.store, x) ∧
    (varR cap r l).2.st.cache = r.st.cache ∧ (varR cap r l).2.st.tick = r.st.tick := by
  unfold varR at h ⊢
  unfold varS
  exact insertR_erase cap r l _ _ _ x h

/-- `not_edge_owned` computes what `apply_not` computes (the guard only touches a counter) -/
theorem notEdgeOwnedR_erase' (cap : Option Nat) (p : APolicy) (fuel : Nat) (r : RSt) (f : Edge) :
    Erases (notEdgeOwnedR cap p fuel r f) (notS p fuel r.st f) := by
  intro x hx
  unfold notEdgeOwnedR at hx ⊢
  cases hR : notR cap p fuel r f with
  | mk o r' =>
    rw [hR] at hx
    simp only at hx ⊢
    subst hx
    have := notR_erase' cap p fuel r f x (by rw [hR])
    rw [hR] at this
    simp only [dropEdge_st]
    exact this

end OxiddModel.Tdd.Rc
