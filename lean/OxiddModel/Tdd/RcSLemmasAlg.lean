import OxiddModel.Tdd.RcSLemmasInv

/-!
# The TDD apply algorithms keep the counters exact — on success and on every failure path

`RcPost r ext R`: the run `R` started in `r` by a caller owning `ext` only extended the store and
ends with exact counters for `result :: ext` (success) resp. `ext` (OutOfMemory). `finishR_rc`,
`forkR_rc` (the three `EdgeDropGuard`s), `notR_rc`, `applyR_rc`, `iteR_rc` (with its delegations),
`varR_rc`, `notEdgeOwnedR_rc`: for all capacities, fuels, policies (`Policy.OK`), edge orders and
tag assignments, and all operands that point to stored nodes. No semantic hypothesis is needed.
-/
set_option linter.unusedSectionVars false

namespace OxiddModel.Tdd.Rc
open OxiddModel.Tdd OxiddModel.Tdd.TD OxiddModel.Tdd.Refine OxiddModel.CachePolicy OxiddModel

/-- postcondition of a run from `r` whose caller owns the edges `ext` -/
def RcPost (r : RSt) (ext : List Edge) (R : Option Edge × RSt) : Prop :=
  r.st.store.Le R.2.st.store ∧
  match R with
  | (some x, r') => RcInv r' (x :: ext)
  | (none, r') => RcInv r' ext

/-- returning a clone of a stored edge (or a static terminal) -/
theorem RcPost.clone {r : RSt} {ext : List Edge} {x : Edge} (h : RcInv r ext)
    (hx : Has r.st.store x) : RcPost r ext (some x, cloneEdge r x) :=
  ⟨by rw [cloneEdge_st]; exact Store.Le.refl _, cloneEdge_rc h hx⟩

theorem RcPost.clone_tickd {r : RSt} {ext : List Edge} {x : Edge} (h : RcInv r ext)
    (hx : Has r.st.store x) : RcPost r ext (some x, cloneEdge r.tickd x) :=
  ⟨by rw [cloneEdge_st]; exact Store.Le.refl _, cloneEdge_rc h.tickd hx⟩

/-- returning a static terminal -/
theorem RcPost.term {r : RSt} {ext : List Edge} (v : Tri) (h : RcInv r ext) :
    RcPost r ext (some (.term v), r) :=
  RcPost.clone (x := .term v) h trivial

theorem insertR_le (cap : Option Nat) (r : RSt) (l : Nat) (t u e : Edge) :
    r.st.store.Le (insertR cap r l t u e).2.st.store := by
  unfold insertR
  split
  · simp only [cloneEdge_st, dropEdge_st]; exact Store.Le.refl _
  · split
    · exact Slots.alloc_le _ _
    · simp only [dropEdge_st]; exact Store.Le.refl _

theorem insertR_cache (cap : Option Nat) (r : RSt) (l : Nat) (t u e : Edge) :
    (insertR cap r l t u e).2.st.cache = r.st.cache ∧ (insertR cap r l t u e).2.st.tick = r.st.tick := by
  unfold insertR
  split
  · simp
  · split <;> simp

theorem mkNodeR_le (cap : Option Nat) (r : RSt) (l : Nat) (t u e : Edge) :
    r.st.store.Le (mkNodeR cap r l t u e).2.st.store := by
  unfold mkNodeR
  split
  · simp only [dropEdge_st]; exact Store.Le.refl _
  · exact insertR_le cap r l t u e

theorem mkNodeR_cache (cap : Option Nat) (r : RSt) (l : Nat) (t u e : Edge) :
    (mkNodeR cap r l t u e).2.st.cache = r.st.cache ∧ (mkNodeR cap r l t u e).2.st.tick = r.st.tick := by
  unfold mkNodeR
  split
  · simp
  · exact insertR_cache cap r l t u e

/-- `reduce(..)?` + cache add -/
theorem finishR_rc {p : APolicy} (pok : p.OK) {cap : Option Nat} {r : RSt} {key : Key} {l : Nat}
    {t u e : Edge} {ext : List Edge} (h : RcInv r (t :: u :: e :: ext)) :
    RcPost r ext (finishR cap p r key l t u e) := by
  have hm := mkNodeR_rc (cap := cap) (l := l) h
  have hle := mkNodeR_le cap r l t u e
  unfold finishR
  cases hR : mkNodeR cap r l t u e with
  | mk o r' =>
    rw [hR] at hm hle
    cases o with
    | none => exact ⟨hle, hm⟩
    | some x =>
      simp only at hm ⊢
      refine ⟨hle, ⟨hm.ext_ok, hm.kids_ok, ?_, hm.rc_eq⟩⟩
      intro k v hkv
      rcases pok.add_sub _ _ _ _ _ hkv with hold | hnew
      · exact hm.cache_ok k v hold
      · cases hnew
        exact hm.ext_ok x List.mem_cons_self

/-- first call, second call (the first result is guarded), third call (both are guarded),
`reduce`, cache add — exact counters whichever of the four fails -/
theorem forkR_rc {p : APolicy} (pok : p.OK) {cap : Option Nat} {key : Key} {l : Nat}
    {c1 cu c0 : RSt → Option Edge × RSt} {r : RSt} {ext : List Edge}
    (h1 : RcPost r ext (c1 r))
    (hu : ∀ t r1, RcInv r1 (t :: ext) → r.st.store.Le r1.st.store → RcPost r1 (t :: ext) (cu r1))
    (h0 : ∀ t u ru, RcInv ru (u :: t :: ext) → r.st.store.Le ru.st.store →
      RcPost ru (u :: t :: ext) (c0 ru)) :
    RcPost r ext (forkR cap p key l c1 cu c0 r) := by
  unfold forkR
  cases hc1 : c1 r with
  | mk o1 r1 =>
    rw [hc1] at h1
    cases o1 with
    | none => exact h1
    | some t =>
      obtain ⟨le1, i1⟩ := h1
      simp only at i1 le1 ⊢
      have hu' := hu t r1 i1 le1
      cases hcu : cu r1 with
      | mk ou ru =>
        rw [hcu] at hu'
        obtain ⟨leu, iu⟩ := hu'
        cases ou with
        | none =>
          simp only at iu leu ⊢
          refine ⟨?_, dropEdge_rc iu⟩
          simp only [dropEdge_st]
          exact le1.trans leu
        | some u =>
          simp only at iu leu ⊢
          have h0' := h0 t u ru iu (le1.trans leu)
          cases hc0 : c0 ru with
          | mk o0 r0 =>
            rw [hc0] at h0'
            obtain ⟨le0, i0⟩ := h0'
            cases o0 with
            | none =>
              simp only at i0 le0 ⊢
              refine ⟨?_, dropEdge_rc (dropEdge_rc i0)⟩
              simp only [dropEdge_st]
              exact le1.trans (leu.trans le0)
            | some e =>
              simp only at i0 le0 ⊢
              have hf := finishR_rc pok (cap := cap) (key := key) (l := l) i0.rev3
              exact ⟨le1.trans (leu.trans (le0.trans hf.1)), hf.2⟩

/-! ## cofactors stay inside the store -/

theorem childAt_has {r : RSt} {ext : List Edge} (h : RcInv r ext) (l : Nat) (c : Tri) {f : Edge}
    (hf : Has r.st.store f) : Has r.st.store (r.st.store.childAt f l c) := by
  cases f with
  | term v => exact hf
  | inner i =>
    cases hi : r.st.store.get? i with
    | none => simp only [Store.childAt, hi]; exact hf
    | some n =>
      simp only [Store.childAt, hi]
      split
      · cases c
        · exact (h.kids_ok i n hi).2.2
        · exact (h.kids_ok i n hi).2.1
        · exact (h.kids_ok i n hi).1
      · exact hf

/-! ## the algorithms -/

theorem notR_rc {p : APolicy} (pok : p.OK) (cap : Option Nat) (fuel : Nat) :
    ∀ (r : RSt) (f : Edge) (ext : List Edge), RcInv r ext → Has r.st.store f →
      RcPost r ext (notR cap p fuel r f) := by
  induction fuel with
  | zero => intro r f ext h hf; exact RcPost.clone h hf
  | succ fuel ih =>
    intro r f ext h hf
    cases f with
    | term v => exact RcPost.term _ h
    | inner i =>
      simp only [notR]
      cases hget : p.get r.st.tick r.st.cache (.not, [.inner i]) with
      | some x => exact RcPost.clone_tickd h (h.cache_ok _ _ (pok.get_mem _ _ _ _ hget))
      | none =>
        simp only
        cases hi : r.st.store.get? i with
        | none => exact RcPost.clone_tickd h hf
        | some n =>
          simp only
          obtain ⟨k1, k2, k3⟩ := h.kids_ok i n hi
          exact forkR_rc pok (cap := cap) (r := r.tickd) (ext := ext)
            (c1 := fun s => notR cap p fuel s n.t) (cu := fun s => notR cap p fuel s n.u)
            (c0 := fun s => notR cap p fuel s n.e)
            (ih _ _ _ h.tickd k1)
            (fun t r1 i1 le1 => ih _ _ _ i1 (k2.mono le1))
            (fun t u ru iu leu => ih _ _ _ iu (k3.mono leu))

theorem applyR_rc (gt : Edge → Edge → Bool) (tg : BinOp → TDDOp) {p : APolicy} (pok : p.OK)
    (cap : Option Nat) (op : BinOp) (fuel : Nat) :
    ∀ (r : RSt) (f g : Edge) (ext : List Edge), RcInv r ext → Has r.st.store f →
      Has r.st.store g → RcPost r ext (applyR gt tg cap p op fuel r f g) := by
  induction fuel with
  | zero => intro r f g ext h hf _; exact RcPost.clone h hf
  | succ fuel ih =>
    intro r f g ext h hf hg
    simp only [applyR]
    have hshape := terminalBinS_shape gt tg op f g
    cases hP : terminalBinS gt tg op f g with
    | done x =>
      rw [hP] at hshape
      refine RcPost.clone h ?_
      rcases hshape with rfl | rfl | ⟨v, rfl⟩
      · exact hf
      · exact hg
      · trivial
    | notOf x =>
      rw [hP] at hshape
      simp only
      refine notR_rc pok cap fuel r x ext h ?_
      rcases hshape with rfl | rfl
      · exact hf
      · exact hg
    | binary tag o1 o2 =>
      simp only
      cases hget : p.get r.st.tick r.st.cache (tag, [o1, o2]) with
      | some x => exact RcPost.clone_tickd h (h.cache_ok _ _ (pok.get_mem _ _ _ _ hget))
      | none =>
        cases hl : lmin (r.st.store.level? f) (r.st.store.level? g) with
        | none => exact RcPost.clone_tickd h hf
        | some l =>
          simp only
          exact forkR_rc pok (cap := cap) (r := r.tickd) (ext := ext)
            (c1 := fun s => applyR gt tg cap p op fuel s (r.st.store.childAt f l .t) (r.st.store.childAt g l .t))
            (cu := fun s => applyR gt tg cap p op fuel s (r.st.store.childAt f l .u) (r.st.store.childAt g l .u))
            (c0 := fun s => applyR gt tg cap p op fuel s (r.st.store.childAt f l .f) (r.st.store.childAt g l .f))
            (ih _ _ _ _ h.tickd (childAt_has h _ _ hf) (childAt_has h _ _ hg))
            (fun t r1 i1 le1 => ih _ _ _ _ i1 ((childAt_has h _ _ hf).mono le1)
              ((childAt_has h _ _ hg).mono le1))
            (fun t u ru iu leu => ih _ _ _ _ iu ((childAt_has h _ _ hf).mono leu)
              ((childAt_has h _ _ hg).mono leu))

theorem iteR_rc (gt : Edge → Edge → Bool) (tg : BinOp → TDDOp) {p : APolicy} (pok : p.OK)
    (cap : Option Nat) (fuel : Nat) :
    ∀ (r : RSt) (f g h : Edge) (ext : List Edge), RcInv r ext → Has r.st.store f →
      Has r.st.store g → Has r.st.store h → RcPost r ext (iteR gt tg cap p fuel r f g h) := by
  induction fuel with
  | zero => intro r f g h ext hi hf _ _; exact RcPost.clone hi hf
  | succ fuel ih =>
    intro r f g h ext hi hf hg hh
    simp only [iteR]
    have hshape := iteShortcutS_shape f g h
    cases hP : iteShortcutS f g h with
    | done x =>
      rw [hP] at hshape
      refine RcPost.clone hi ?_
      rcases hshape with rfl | rfl | rfl | ⟨v, rfl⟩
      · exact hf
      · exact hg
      · exact hh
      · trivial
    | bin op x y =>
      rw [hP] at hshape
      simp only
      obtain ⟨rfl, hy⟩ := hshape
      refine applyR_rc gt tg pok cap op fuel r x y ext hi hf ?_
      rcases hy with rfl | rfl
      · exact hg
      · exact hh
    | notOf x =>
      rw [hP] at hshape
      simp only
      have : x = f := hshape
      subst this
      exact notR_rc pok cap fuel r x ext hi hf
    | recurse =>
      simp only
      cases hget : p.get r.st.tick r.st.cache (.ite, [f, g, h]) with
      | some x => exact RcPost.clone_tickd hi (hi.cache_ok _ _ (pok.get_mem _ _ _ _ hget))
      | none =>
        simp only
        cases hl : lmin (lmin (r.st.store.level? f) (r.st.store.level? g)) (r.st.store.level? h) with
        | none => exact RcPost.clone_tickd hi hf
        | some l =>
          simp only
          exact forkR_rc pok (cap := cap) (r := r.tickd) (ext := ext)
            (c1 := fun s => iteR gt tg cap p fuel s (r.st.store.childAt f l .t) (r.st.store.childAt g l .t) (r.st.store.childAt h l .t))
            (cu := fun s => iteR gt tg cap p fuel s (r.st.store.childAt f l .u) (r.st.store.childAt g l .u) (r.st.store.childAt h l .u))
            (c0 := fun s => iteR gt tg cap p fuel s (r.st.store.childAt f l .f) (r.st.store.childAt g l .f) (r.st.store.childAt h l .f))
            (ih _ _ _ _ _ hi.tickd (childAt_has hi _ _ hf) (childAt_has hi _ _ hg) (childAt_has hi _ _ hh))
            (fun t r1 i1 le1 => ih _ _ _ _ _ i1 ((childAt_has hi _ _ hf).mono le1)
              ((childAt_has hi _ _ hg).mono le1) ((childAt_has hi _ _ hh).mono le1))
            (fun t u ru iu leu => ih _ _ _ _ _ iu ((childAt_has hi _ _ hf).mono leu)
              ((childAt_has hi _ _ hg).mono leu) ((childAt_has hi _ _ hh).mono leu))

/-- `var_edge`: `get_or_insert` with three static terminals as children -/
theorem varR_rc (cap : Option Nat) (r : RSt) (level : Nat) (ext : List Edge) (h : RcInv r ext) :
    RcPost r ext (varR cap r level) := by
  unfold varR
  refine ⟨insertR_le _ _ _ _ _ _, insertR_rc ?_⟩
  exact cloneEdge_rc (x := .term .t) (cloneEdge_rc (x := .term .u) (cloneEdge_rc (x := .term .f) h
    trivial) trivial) trivial

/-- `not_edge_owned`: the caller hands over one owned reference to `f`; afterwards it owns the
result (success) or nothing more (failure) — the guard released `f` in both cases -/
theorem notEdgeOwnedR_rc {p : APolicy} (pok : p.OK) (cap : Option Nat) (fuel : Nat) (r : RSt)
    (f : Edge) (ext : List Edge) (h : RcInv r (f :: ext)) :
    RcPost r ext (notEdgeOwnedR cap p fuel r f) := by
  have hN := notR_rc pok cap fuel r f (f :: ext) h (h.ext_ok f List.mem_cons_self)
  unfold notEdgeOwnedR
  cases hR : notR cap p fuel r f with
  | mk o r' =>
    rw [hR] at hN
    obtain ⟨le, inv⟩ := hN
    cases o with
    | none =>
      simp only at inv le ⊢
      exact ⟨by simp only [dropEdge_st]; exact le, dropEdge_rc inv⟩
    | some x =>
      simp only at inv le ⊢
      exact ⟨by simp only [dropEdge_st]; exact le, dropEdge_rc inv.swap⟩

end OxiddModel.Tdd.Rc
