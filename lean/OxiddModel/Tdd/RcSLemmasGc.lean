import OxiddModel.Tdd.RcSLemmasInv

/-!
# The counter-driven collection `gcR` (`Manager::gc` for TDDs)

`gcR` = cache cleared, levels from the top (`rc == 1` ⇒ remove, `free_slot` releases the three
children).

* `gcSlot_rc` / `gcR_rc`: every single removal keeps `RcInv` (any store);
* `gcR_sub`: nothing is created or changed; `gcR_keeps_reach`: nothing reachable from the external
  edges is removed; `gcR_denotes`: external edges denote what they did;
* `gcR_complete`: if the store is ordered and all levels are visited, every inner node that
  survives is reachable from an external edge.
-/
set_option linter.unusedSectionVars false

namespace OxiddModel.Tdd.Rc
open OxiddModel.Tdd OxiddModel.Tdd.TD OxiddModel.Tdd.Refine OxiddModel.CachePolicy OxiddModel

/-! ## reachability, orderedness -/

/-- the node `x` is reachable from the external edges through stored nodes -/
inductive Reach (s : Store) (ext : List Edge) : Edge → Prop
  | root {x : Edge} : x ∈ ext → Reach s ext x
  | kid {p : Nat} {x : Edge} {n : Node} : Reach s ext (.inner p) → s.get? p = some n →
      (n.t = x ∨ n.u = x ∨ n.e = x) → Reach s ext x

/-- inner children live on strictly larger levels (`Manager::gc` relies on it: one top-down pass) -/
def Ordered (s : Store) : Prop :=
  ∀ i n j m, s.get? i = some n → (n.t = .inner j ∨ n.u = .inner j ∨ n.e = .inner j) →
    s.get? j = some m → n.level < m.level

/-- `s'` is `s` with some node slots emptied -/
def Sub (s' s : Store) : Prop := ∀ i n, s'.get? i = some n → s.get? i = some n

theorem Sub.refl (s : Store) : Sub s s := fun _ _ h => h
theorem Sub.trans {a b c : Store} (h1 : Sub a b) (h2 : Sub b c) : Sub a c :=
  fun i n h => h2 i n (h1 i n h)

theorem ordered_sub {s s' : Store} (h : Ordered s) (hs : Sub s' s) : Ordered s' :=
  fun i n j m hi hc hj => h i n j m (hs i n hi) hc (hs j m hj)

theorem Reach.sub {s s' : Store} {ext : List Edge} (hs : Sub s' s) {x : Edge}
    (h : Reach s' ext x) : Reach s ext x := by
  induction h with
  | root hm => exact .root hm
  | kid _ hp hc ih => exact .kid ih (hs _ _ hp) hc

theorem Has.of_sub {s s' : Store} (hs : Sub s' s) {x : Edge} (h : Has s' x) : Has s x := by
  cases x with
  | term v => trivial
  | inner i => obtain ⟨n, hn⟩ := h; exact ⟨n, hs i n hn⟩

/-! ## one removal of an inner node -/

/-- the state after removing slot `i` holding `n` (`free_slot`) -/
def freeSlot (r : RSt) (i : Nat) (n : Node) : RSt :=
  dropEdge (dropEdge (dropEdge
    { r with st := { r.st with store := ⟨r.st.store.nodes.set! i none⟩ } } n.t) n.u) n.e

theorem gcSlot_eq (l : Nat) (r : RSt) (i : Nat) :
    gcSlot l r i = match r.st.store.get? i with
      | none => r
      | some n => if n.level = l ∧ rcGet r.rc i = 1 then freeSlot r i n else r := rfl

theorem freeSlot_store (r : RSt) (i : Nat) (n : Node) :
    (freeSlot r i n).st.store = ⟨r.st.store.nodes.set! i none⟩ := by
  simp [freeSlot]

theorem freeSlot_cache (r : RSt) (i : Nat) (n : Node) :
    (freeSlot r i n).st.cache = r.st.cache := by
  simp [freeSlot]

theorem freeSlot_rcGet (r : RSt) (i : Nat) (n : Node) (k : Nat) :
    rcGet (freeSlot r i n).rc k =
      rcGet r.rc k - cnt n.t (.inner k) - cnt n.u (.inner k) - cnt n.e (.inner k) := by
  simp only [freeSlot, rcGet_dropEdge]

theorem get?_free (s : Store) (k j : Nat) :
    (⟨s.nodes.set! k none⟩ : Store).get? j = if j = k then none else s.get? j :=
  slots_get?_free s.nodes k j

theorem has_free {s : Store} {i : Nat} {x : Edge} (hx : Has s x) (hne : x ≠ .inner i) :
    Has (⟨s.nodes.set! i none⟩ : Store) x := by
  cases x with
  | term v => trivial
  | inner j =>
    obtain ⟨m, hm⟩ := hx
    refine ⟨m, ?_⟩
    rw [get?_free]
    have : j ≠ i := fun e => hne (by rw [e])
    simp [this, hm]

/-- removing a node that only the unique table references keeps the invariant -/
theorem freeSlot_inv {r : RSt} {ext : List Edge} {i : Nat} {n : Node} (h : RcInv r ext)
    (hc : r.st.cache = []) (hi : r.st.store.get? i = some n) (hrc : rcGet r.rc i = 1) :
    RcInv (freeSlot r i n) ext := by
  have heq := h.rc_eq i n hi
  rw [hrc] at heq
  have hcnt : ext.count (.inner i) = 0 := by omega
  have hpar : parents r.st.store (.inner i) = 0 := by omega
  have hnotmem : Edge.inner i ∉ ext := List.count_eq_zero.mp hcnt
  refine ⟨?_, ?_, ?_, ?_⟩
  · intro e he
    rw [freeSlot_store]
    exact has_free (h.ext_ok e he) (fun e' => hnotmem (e' ▸ he))
  · intro k m hk
    rw [freeSlot_store] at hk ⊢
    rw [get?_free] at hk
    split at hk
    · cases hk
    · obtain ⟨h1, h2, h3⟩ := h.kids_ok k m hk
      obtain ⟨n1, n2, n3⟩ := parents_zero_no_child hpar hk
      exact ⟨has_free h1 n1, has_free h2 n2, has_free h3 n3⟩
  · intro k v hkv
    rw [freeSlot_cache, hc] at hkv
    cases hkv
  · intro k m hk
    rw [freeSlot_store] at hk ⊢
    rw [get?_free] at hk
    split at hk
    · cases hk
    · have := h.rc_eq k m hk
      have hp : parents (⟨r.st.store.nodes.set! i none⟩ : Store) (.inner k) +
          (cnt n.t (.inner k) + cnt n.u (.inner k) + cnt n.e (.inner k)) =
            parents r.st.store (.inner k) := parentsA_free r.st.store.nodes i n (.inner k) hi
      rw [freeSlot_rcGet]
      omega

theorem gcSlot_rc {l : Nat} {r : RSt} {ext : List Edge} (i : Nat) (h : RcInv r ext)
    (hc : r.st.cache = []) : RcInv (gcSlot l r i) ext ∧ (gcSlot l r i).st.cache = [] := by
  rw [gcSlot_eq]
  cases hi : r.st.store.get? i with
  | none => exact ⟨h, hc⟩
  | some n =>
    simp only
    split
    · rename_i hcond
      exact ⟨freeSlot_inv h hc hi hcond.2, by rw [freeSlot_cache]; exact hc⟩
    · exact ⟨h, hc⟩

theorem gcSlot_sub (l : Nat) (r : RSt) (i : Nat) : Sub (gcSlot l r i).st.store r.st.store := by
  rw [gcSlot_eq]
  cases hi : r.st.store.get? i with
  | none => exact Sub.refl _
  | some n =>
    simp only
    split
    · intro k m hk
      rw [freeSlot_store, get?_free] at hk
      split at hk
      · cases hk
      · exact hk
    · exact Sub.refl _

theorem gcSlot_size (l : Nat) (r : RSt) (i : Nat) :
    (gcSlot l r i).st.store.nodes.size = r.st.store.nodes.size := by
  rw [gcSlot_eq]
  cases hi : r.st.store.get? i with
  | none => rfl
  | some n =>
    simp only
    split
    · rw [freeSlot_store]; simp
    · rfl

/-! ## folds -/

theorem foldl_ind {α : Type} {P : RSt → Prop} (f : RSt → α → RSt)
    (hstep : ∀ r a, P r → P (f r a)) : ∀ (as : List α) (r : RSt), P r → P (as.foldl f r) := by
  intro as
  induction as with
  | nil => intro r h; exact h
  | cons a as ih => intro r h; exact ih _ (hstep r a h)

/-- a property that every `gcSlot` step preserves is preserved by a sweep over any list of levels -/
theorem gcLevels_ind {P : RSt → Prop} (hstep : ∀ l r i, P r → P (gcSlot l r i)) (ls : List Nat)
    (r : RSt) (h : P r) : P (ls.foldl gcLevel r) :=
  foldl_ind gcLevel (fun r l hr => foldl_ind (gcSlot l) (hstep l) _ r hr) _ r h

theorem gcR_ind {P : RSt → Prop} (hstep : ∀ l r i, P r → P (gcSlot l r i)) (N : Nat)
    (r : RSt) (h : P (clearCache r)) : P (gcR N r) :=
  gcLevels_ind hstep _ _ h

theorem clearCache_rc {r : RSt} {ext : List Edge} (h : RcInv r ext) :
    RcInv (clearCache r) ext ∧ (clearCache r).st.cache = [] :=
  ⟨⟨h.ext_ok, h.kids_ok, fun _ _ hm => (by cases hm), h.rc_eq⟩, rfl⟩

/-- **the collection keeps the counters exact** (no orderedness needed) -/
theorem gcR_rc {r : RSt} {ext : List Edge} (N : Nat) (h : RcInv r ext) :
    RcInv (gcR N r) ext ∧ (gcR N r).st.cache = [] :=
  gcR_ind (P := fun r => RcInv r ext ∧ r.st.cache = [])
    (fun _ _ i ⟨h1, h2⟩ => gcSlot_rc i h1 h2) N r (clearCache_rc h)

/-- nothing is created, no node changes -/
theorem gcR_sub (N : Nat) (r : RSt) : Sub (gcR N r).st.store r.st.store :=
  gcR_ind (P := fun r' => Sub r'.st.store r.st.store)
    (fun l r' i h => (gcSlot_sub l r' i).trans h) N r (Sub.refl _)

/-! ## soundness: reachable nodes survive, denotations are kept -/

theorem gcR_keeps_reach {r : RSt} {ext : List Edge} (N : Nat) (h : RcInv r ext) {x : Edge}
    (hr : Reach r.st.store ext x) : Has (gcR N r).st.store x := by
  have hF := (gcR_rc N h).1
  have hsub := gcR_sub N r
  induction hr with
  | root hm => exact hF.ext_ok _ hm
  | @kid p x n _ hp hc ih =>
    obtain ⟨n', hn'⟩ := ih
    have := hsub p n' hn'
    rw [hp] at this; cases this
    have hk := hF.kids_ok p n hn'
    rcases hc with hc | hc | hc
    · rw [← hc]; exact hk.1
    · rw [← hc]; exact hk.2.1
    · rw [← hc]; exact hk.2.2

/-- what survives has the content it had -/
theorem has_sub_get {s s' : Store} (hs : Sub s' s) {i : Nat} {n : Node} (hi : s.get? i = some n)
    (h : Has s' (.inner i)) : s'.get? i = some n := by
  obtain ⟨m, hm⟩ := h
  have := hs i m hm
  rw [hi] at this; cases this
  exact hm

theorem gcR_denotes {r : RSt} {ext : List Edge} (N : Nat) (h : RcInv r ext) {x : Edge}
    {a : TD} (hd : Denotes r.st.store x a) (hx : Reach r.st.store ext x) :
    Denotes (gcR N r).st.store x a := by
  have hsub := gcR_sub N r
  induction hd with
  | term => exact .term
  | @inner i l t u e tt tu te hi _ _ _ iht ihu ihe =>
    refine .inner (has_sub_get hsub hi (gcR_keeps_reach N h hx)) (iht ?_) (ihu ?_) (ihe ?_)
    · exact .kid hx hi (.inl rfl)
    · exact .kid hx hi (.inr (.inl rfl))
    · exact .kid hx hi (.inr (.inr rfl))

/-! ## completeness under orderedness: survivors are reachable -/

/-- the nodes of the levels already visited (levels `< l`, and level `l` up to slot `j`) are all
referenced from outside the table -/
def Visited (l j : Nat) (r : RSt) : Prop :=
  ∀ i n, r.st.store.get? i = some n → (n.level < l ∨ (n.level = l ∧ i < j)) → rcGet r.rc i ≠ 1

theorem gcSlot_visited {l j : Nat} {r : RSt} (ho : Ordered r.st.store) (hv : Visited l j r) :
    Visited l (j + 1) (gcSlot l r j) := by
  rw [gcSlot_eq]
  cases hj : r.st.store.get? j with
  | none =>
    intro i n hi hc
    apply hv i n hi
    rcases hc with hc | ⟨h1, h2⟩
    · exact .inl hc
    · by_cases hij : i = j
      · subst hij; rw [hj] at hi; cases hi
      · exact .inr ⟨h1, by omega⟩
  | some nj =>
    simp only
    split
    · -- removed
      rename_i hcond
      intro i n hi hc
      rw [freeSlot_store, get?_free] at hi
      split at hi
      · cases hi
      · rename_i hij
        rw [freeSlot_rcGet]
        -- `i` is not a child of the removed node: it is not below level `l`
        have hnt : nj.t ≠ .inner i := fun ht => by
          have := ho j nj i n hj (.inl ht) hi
          rcases hc with hc | ⟨hc, _⟩ <;> omega
        have hnu : nj.u ≠ .inner i := fun hu => by
          have := ho j nj i n hj (.inr (.inl hu)) hi
          rcases hc with hc | ⟨hc, _⟩ <;> omega
        have hne : nj.e ≠ .inner i := fun he => by
          have := ho j nj i n hj (.inr (.inr he)) hi
          rcases hc with hc | ⟨hc, _⟩ <;> omega
        simp only [cnt, hnt, hnu, hne, if_false, Nat.sub_zero]
        apply hv i n hi
        rcases hc with hc | ⟨h1, h2⟩
        · exact .inl hc
        · exact .inr ⟨h1, by omega⟩
    · rename_i hcond
      intro i n hi hc
      by_cases hij : i = j
      · subst hij
        rw [hj] at hi; cases hi
        rcases hc with hc | ⟨h1, _⟩
        · exact hv i nj hj (.inl hc)
        · intro h1'; exact hcond ⟨h1, h1'⟩
      · apply hv i n hi
        rcases hc with hc | ⟨h1, h2⟩
        · exact .inl hc
        · exact .inr ⟨h1, by omega⟩

theorem foldl_range_visited (l : Nat) : ∀ (k : Nat) (r : RSt), Ordered r.st.store → Visited l 0 r →
    Ordered ((List.range k).foldl (gcSlot l) r).st.store ∧
    Sub ((List.range k).foldl (gcSlot l) r).st.store r.st.store ∧
    Visited l k ((List.range k).foldl (gcSlot l) r) := by
  intro k
  induction k with
  | zero => intro r ho hv; exact ⟨ho, Sub.refl _, hv⟩
  | succ k ih =>
    intro r ho hv
    rw [List.range_succ, List.foldl_append]
    obtain ⟨ho', hs', hv'⟩ := ih r ho hv
    simp only [List.foldl_cons, List.foldl_nil]
    exact ⟨ordered_sub ho' (gcSlot_sub _ _ _), (gcSlot_sub _ _ _).trans hs', gcSlot_visited ho' hv'⟩

theorem gcLevel_visited {l : Nat} {r : RSt} (ho : Ordered r.st.store) (hv : Visited l 0 r) :
    Ordered (gcLevel r l).st.store ∧ Sub (gcLevel r l).st.store r.st.store ∧
    Visited (l + 1) 0 (gcLevel r l) := by
  obtain ⟨ho', hs', hv'⟩ := foldl_range_visited l r.st.store.nodes.size r ho hv
  refine ⟨ho', hs', ?_⟩
  intro i n hi hc
  apply hv' i n hi
  have hlt : i < r.st.store.nodes.size := slots_get?_lt (hs' i n hi)
  rcases hc with hc | ⟨_, h2⟩
  · by_cases hl : n.level < l
    · exact .inl hl
    · exact .inr ⟨by omega, hlt⟩
  · omega

theorem gcLevels_visited : ∀ (k : Nat) (r : RSt), Ordered r.st.store →
    Ordered ((List.range k).foldl gcLevel r).st.store ∧
    Visited k 0 ((List.range k).foldl gcLevel r) := by
  intro k
  induction k with
  | zero =>
    intro r ho
    refine ⟨ho, ?_⟩
    intro i n _ hc
    rcases hc with hc | ⟨_, hc⟩ <;> omega
  | succ k ih =>
    intro r ho
    rw [List.range_succ, List.foldl_append]
    obtain ⟨ho', hv'⟩ := ih r ho
    simp only [List.foldl_cons, List.foldl_nil]
    obtain ⟨a, _, c⟩ := gcLevel_visited ho' hv'
    exact ⟨a, c⟩

/-- **every inner node that survives `gcR` is reachable from an external edge** -/
theorem gcR_complete {r : RSt} {ext : List Edge} (N : Nat) (h : RcInv r ext)
    (ho : Ordered r.st.store) (hl : ∀ i n, r.st.store.get? i = some n → n.level < N)
    {i : Nat} {n : Node} (hx : (gcR N r).st.store.get? i = some n) :
    Reach r.st.store ext (.inner i) := by
  have hF := (gcR_rc N h).1
  have hsub := gcR_sub N r
  have hoF : Ordered (gcR N r).st.store := ordered_sub ho hsub
  have hV : Visited N 0 (gcR N r) := (gcLevels_visited N (clearCache r) ho).2
  apply Reach.sub hsub
  -- strong induction on the level
  have HI : ∀ (L : Nat) (i : Nat) (n : Node), (gcR N r).st.store.get? i = some n →
      n.level ≤ L → Reach (gcR N r).st.store ext (.inner i) := by
    intro L
    induction L with
    | zero =>
      intro i n hi hle
      have hne := hV i n hi (.inl (hl i n (hsub i n hi)))
      have heq := hF.rc_eq i n hi
      by_cases hc : 0 < ext.count (.inner i)
      · exact .root (List.count_pos_iff.mp hc)
      · have hp : 0 < parents (gcR N r).st.store (.inner i) := by omega
        obtain ⟨k, m, hk, hch⟩ := parents_pos hp
        have := hoF k m i n hk hch hi
        omega
    | succ L ih =>
      intro i n hi hle
      have hne := hV i n hi (.inl (hl i n (hsub i n hi)))
      have heq := hF.rc_eq i n hi
      by_cases hc : 0 < ext.count (.inner i)
      · exact .root (List.count_pos_iff.mp hc)
      · have hp : 0 < parents (gcR N r).st.store (.inner i) := by omega
        obtain ⟨k, m, hk, hch⟩ := parents_pos hp
        have hlt := hoF k m i n hk hch hi
        exact .kid (ih k m hk (by omega)) hk hch
  exact HI n.level i n hx (Nat.le_refl _)

end OxiddModel.Tdd.Rc
