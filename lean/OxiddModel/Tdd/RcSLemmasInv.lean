import OxiddModel.Tdd.RcSLemmas

/-!
# The reference-count invariant for ternary nodes, and the primitives

`RcInv r ext`: for every stored inner node `i`
`rc(i) = 1 + #(occurrences of .inner i in ext) + #(stored parent edges to i)` — the `1` is the
reference of the unique table (`InnerNode::new`: `rc = 2` = table + returned edge; the collector
removes exactly the entries with `rc == 1`). A node has **three** child edges, each of which counts
(a node `(l: a a b)` holds two references to `a`). `ext` is the multiset of **externally owned**
edges: the handles of the user plus the temporaries the running algorithm owns. Terminals are
static: edges to them are always valid and carry no counter. The invariant also contains the
closedness facts the counters rely on: external edges, child edges and cached results point to
stored nodes.

`cloneEdge_rc`, `dropEdge_rc`, `insertR_rc` (hit / allocation / OutOfMemory), `mkNodeR_rc`.
-/
set_option linter.unusedSectionVars false

namespace OxiddModel.Tdd.Rc
open OxiddModel.Tdd OxiddModel.Tdd.TD OxiddModel.Tdd.Refine OxiddModel.CachePolicy OxiddModel

/-! ## stored parent edges -/

/-- number of child edges of a slot's content that are the edge `x` -/
def refsOpt (x : Edge) : Option Node → Nat
  | none => 0
  | some n => cnt n.t x + cnt n.u x + cnt n.e x

/-- number of stored parent edges to `x` (parents that are garbage included) -/
def parentsA (nodes : Array (Option Node)) (x : Edge) : Nat := (nodes.toList.map (refsOpt x)).sum

def parents (s : Store) (x : Edge) : Nat := parentsA s.nodes x

/-- the edge points to a static terminal or to an occupied slot -/
def Has (s : Store) : Edge → Prop
  | .term _ => True
  | .inner i => ∃ n, s.get? i = some n

/-- **the reference-count invariant** -/
structure RcInv (r : RSt) (ext : List Edge) : Prop where
  /-- every externally owned edge points to a stored node -/
  ext_ok : ∀ e ∈ ext, Has r.st.store e
  /-- the children of stored nodes are stored -/
  kids_ok : ∀ i n, r.st.store.get? i = some n →
    Has r.st.store n.t ∧ Has r.st.store n.u ∧ Has r.st.store n.e
  /-- cached results are stored (the cache is cleared at `gc`) -/
  cache_ok : ∀ k v, (k, v) ∈ r.st.cache → Has r.st.store v
  /-- counter = table's reference + external references + stored parent edges -/
  rc_eq : ∀ i n, r.st.store.get? i = some n →
    rcGet r.rc i = 1 + ext.count (.inner i) + parents r.st.store (.inner i)

theorem Has.mono {s s' : Store} (hle : s.Le s') {e : Edge} (h : Has s e) : Has s' e := by
  cases e with
  | term v => trivial
  | inner i => obtain ⟨n, hn⟩ := h; exact ⟨n, hle i n hn⟩

theorem has_term (s : Store) (v : Tri) : Has s (.term v) := trivial

/-- `ext` matters only as a multiset -/
theorem RcInv.congr {r : RSt} {ext ext' : List Edge} (h : RcInv r ext)
    (hc : ∀ e, ext.count e = ext'.count e) : RcInv r ext' where
  ext_ok e he := by
    apply h.ext_ok
    have : 0 < ext'.count e := List.count_pos_iff.mpr he
    rw [← hc] at this
    exact List.count_pos_iff.mp this
  kids_ok := h.kids_ok
  cache_ok := h.cache_ok
  rc_eq i n hi := by rw [h.rc_eq i n hi, hc]

theorem RcInv.swap {r : RSt} {a b : Edge} {ext : List Edge} (h : RcInv r (a :: b :: ext)) :
    RcInv r (b :: a :: ext) :=
  h.congr (fun e => by simp only [List.count_cons]; omega)

/-- `[e, u, t] ++ ext` → `[t, u, e] ++ ext` (the order in which `reduce` receives the three guards) -/
theorem RcInv.rev3 {r : RSt} {a b c : Edge} {ext : List Edge} (h : RcInv r (a :: b :: c :: ext)) :
    RcInv r (c :: b :: a :: ext) :=
  h.congr (fun e => by simp only [List.count_cons]; omega)

/-- the counters are not looked at by the other components -/
theorem RcInv.tickd {r : RSt} {ext : List Edge} (h : RcInv r ext) : RcInv r.tickd ext :=
  ⟨h.ext_ok, h.kids_ok, h.cache_ok, h.rc_eq⟩

/-! ## `clone_edge` / `drop_edge` -/

theorem count_cons_cnt (y : Edge) (ext : List Edge) (x : Edge) :
    (y :: ext).count x = ext.count x + cnt y x := by
  simp only [List.count_cons, cnt]
  by_cases h : y = x
  · simp [h]
  · simp [h]

/-- cloning an edge to a stored node adds one external reference -/
theorem cloneEdge_rc {r : RSt} {ext : List Edge} {x : Edge} (h : RcInv r ext)
    (hx : Has r.st.store x) : RcInv (cloneEdge r x) (x :: ext) := by
  refine ⟨?_, ?_, ?_, ?_⟩
  · intro e he
    rw [cloneEdge_st]
    rcases List.mem_cons.mp he with rfl | he
    · exact hx
    · exact h.ext_ok e he
  · rw [cloneEdge_st]; exact h.kids_ok
  · rw [cloneEdge_st]; exact h.cache_ok
  · intro i n hi
    rw [cloneEdge_st] at hi ⊢
    rw [rcGet_cloneEdge, count_cons_cnt, h.rc_eq i n hi]
    omega

/-- dropping an externally owned edge removes one external reference -/
theorem dropEdge_rc {r : RSt} {ext : List Edge} {x : Edge} (h : RcInv r (x :: ext)) :
    RcInv (dropEdge r x) ext := by
  refine ⟨?_, ?_, ?_, ?_⟩
  · intro e he
    rw [dropEdge_st]
    exact h.ext_ok e (List.mem_cons_of_mem _ he)
  · rw [dropEdge_st]; exact h.kids_ok
  · rw [dropEdge_st]; exact h.cache_ok
  · intro i n hi
    rw [dropEdge_st] at hi ⊢
    have := h.rc_eq i n hi
    rw [count_cons_cnt] at this
    rw [rcGet_dropEdge]
    omega

/-- a dropped edge to an inner node was really counted: no underflow, the node keeps the table's
reference (`debug_assert!(_old_rc > 1)` in `drop_edge` holds) -/
theorem dropEdge_no_underflow {r : RSt} {ext : List Edge} {i : Nat}
    (h : RcInv r (.inner i :: ext)) : 2 ≤ rcGet r.rc i := by
  obtain ⟨n, hn⟩ := h.ext_ok (.inner i) List.mem_cons_self
  have := h.rc_eq i n hn
  simp only [List.count_cons_self] at this
  omega

/-! ## list sums -/

theorem sum_map_set {α} (f : α → Nat) : ∀ (l : List α) (k : Nat) (x : α) (hk : k < l.length),
    ((l.set k x).map f).sum + f l[k] = (l.map f).sum + f x := by
  intro l
  induction l with
  | nil => intro k x hk; simp at hk
  | cons a as ih =>
    intro k x hk
    cases k with
    | zero => simp; omega
    | succ k =>
      simp only [List.set_cons_succ, List.map_cons, List.sum_cons, List.getElem_cons_succ]
      have := ih k x (by simpa using hk)
      omega

theorem sum_map_zero {α} (f : α → Nat) (l : List α) (h : ∀ a ∈ l, f a = 0) : (l.map f).sum = 0 := by
  induction l with
  | nil => rfl
  | cons a as ih =>
    simp only [List.map_cons, List.sum_cons]
    rw [h a List.mem_cons_self, ih (fun b hb => h b (List.mem_cons_of_mem _ hb))]

theorem le_sum_of_mem {α} (f : α → Nat) : ∀ (l : List α) (a : α), a ∈ l → f a ≤ (l.map f).sum := by
  intro l
  induction l with
  | nil => intro a h; cases h
  | cons b bs ih =>
    intro a h
    simp only [List.map_cons, List.sum_cons]
    rcases List.mem_cons.mp h with rfl | h
    · omega
    · have := ih a h; omega

/-! ## slot arrays -/

theorem slots_get?_lt {α} {a : Array (Option α)} {k : Nat} {x : α} (h : Slots.get? a k = some x) :
    k < a.size := by
  by_cases hlt : k < a.size
  · exact hlt
  · simp [Slots.get?, hlt] at h

theorem slots_get?_elem {α} {a : Array (Option α)} {k : Nat} {x : α} (h : Slots.get? a k = some x) :
    ∃ hk : k < a.size, a[k] = some x := by
  have hlt := slots_get?_lt h
  refine ⟨hlt, ?_⟩
  simpa [Slots.get?, hlt] using h

theorem slots_mem_get? {α} {a : Array (Option α)} {x : α} (h : some x ∈ a.toList) :
    ∃ k, Slots.get? a k = some x := by
  obtain ⟨k, hk, hkn⟩ := List.mem_iff_getElem.mp h
  refine ⟨k, ?_⟩
  have hk' : k < a.size := by simpa using hk
  have : a[k] = some x := by simpa using hkn
  simp [Slots.get?, hk', this]

theorem slots_get?_free {α} (a : Array (Option α)) (k j : Nat) :
    Slots.get? (a.set! k none) j = if j = k then none else Slots.get? a j := by
  simp only [Slots.get?, Array.set!_eq_setIfInBounds, Array.getElem?_setIfInBounds]
  by_cases hj : j = k
  · subst hj
    by_cases hlt : j < a.size
    · simp [hlt]
    · simp [hlt]
  · simp [hj, Ne.symm hj]

/-! ## parents under allocation and freeing -/

/-- no stored node points to `x` ⇒ no parent edges -/
theorem parents_zero {s : Store} {x : Edge}
    (h : ∀ k n, s.get? k = some n → n.t ≠ x ∧ n.u ≠ x ∧ n.e ≠ x) : parents s x = 0 := by
  apply sum_map_zero
  intro o ho
  cases o with
  | none => rfl
  | some n =>
    obtain ⟨k, hk⟩ := slots_mem_get? ho
    obtain ⟨h1, h2, h3⟩ := h k n hk
    simp [refsOpt, cnt, h1, h2, h3]

theorem parents_zero_no_child {s : Store} {x : Edge} (h : parents s x = 0) {k : Nat} {n : Node}
    (hk : s.get? k = some n) : n.t ≠ x ∧ n.u ≠ x ∧ n.e ≠ x := by
  obtain ⟨hlt, hn⟩ := slots_get?_elem hk
  have hmem : some n ∈ s.nodes.toList := by
    rw [← hn]; exact Array.getElem_mem_toList hlt
  have hle : refsOpt x (some n) ≤ parents s x := le_sum_of_mem (refsOpt x) _ _ hmem
  rw [h] at hle
  simp only [refsOpt, cnt] at hle
  refine ⟨?_, ?_, ?_⟩
  · intro ht; simp [ht] at hle
  · intro hu; simp [hu] at hle
  · intro he; simp [he] at hle

/-- a positive parent count is witnessed by a stored parent -/
theorem parents_pos {s : Store} {x : Edge} (h : 0 < parents s x) :
    ∃ k n, s.get? k = some n ∧ (n.t = x ∨ n.u = x ∨ n.e = x) := by
  apply Classical.byContradiction
  intro hno
  have : parents s x = 0 := parents_zero (fun k n hk =>
    ⟨fun ht => hno ⟨k, n, hk, .inl ht⟩, fun hu => hno ⟨k, n, hk, .inr (.inl hu)⟩,
      fun he => hno ⟨k, n, hk, .inr (.inr he)⟩⟩)
  omega

theorem parentsA_alloc (a : Array (Option Node)) (n : Node) (x : Edge) :
    parentsA (Slots.alloc a n).1 x = parentsA a x + (cnt n.t x + cnt n.u x + cnt n.e x) := by
  unfold Slots.alloc parentsA
  split
  · rename_i k hk
    obtain ⟨hlt, heq⟩ := Array.findIdx?_eq_some_iff_findIdx_eq.mp hk
    have hnone := Array.findIdx_getElem (xs := a) (p := (·.isNone)) (w := by rw [heq]; exact hlt)
    simp only [heq] at hnone
    have hn : a[k] = none := by
      cases h : a[k] with
      | none => rfl
      | some y => rw [h] at hnone; cases hnone
    have hl : k < a.toList.length := by simpa using hlt
    have := sum_map_set (refsOpt x) a.toList k (some n) hl
    have hk0 : refsOpt x a.toList[k] = 0 := by
      have : a.toList[k] = none := by simpa using hn
      rw [this]; rfl
    rw [hk0] at this
    simp only [Array.set!_eq_setIfInBounds, Array.toList_setIfInBounds]
    simpa [refsOpt] using this
  · simp [refsOpt]

theorem parentsA_free (a : Array (Option Node)) (k : Nat) (n : Node) (x : Edge)
    (h : Slots.get? a k = some n) :
    parentsA (a.set! k none) x + (cnt n.t x + cnt n.u x + cnt n.e x) = parentsA a x := by
  unfold parentsA
  obtain ⟨hlt, hn⟩ := slots_get?_elem h
  have hl : k < a.toList.length := by simpa using hlt
  have := sum_map_set (refsOpt x) a.toList k none hl
  have hk0 : refsOpt x a.toList[k] = cnt n.t x + cnt n.u x + cnt n.e x := by
    have : a.toList[k] = some n := by simpa using hn
    rw [this]; rfl
  rw [hk0] at this
  simp only [Array.set!_eq_setIfInBounds, Array.toList_setIfInBounds]
  simpa [refsOpt] using this

/-! ## `get_or_insert`, `reduce` -/

/-- **`insertR_rc`**: `get_or_insert` consumes the three owned children; on success the caller
owns the result instead, on OutOfMemory it owns nothing more — in every branch the counters are
exact. -/
theorem insertR_rc {cap : Option Nat} {r : RSt} {l : Nat} {t u e : Edge} {ext : List Edge}
    (h : RcInv r (t :: u :: e :: ext)) :
    match insertR cap r l t u e with
    | (some x, r') => RcInv r' (x :: ext)
    | (none, r') => RcInv r' ext := by
  have h3 : RcInv (dropEdge (dropEdge (dropEdge r t) u) e) ext :=
    dropEdge_rc (dropEdge_rc (dropEdge_rc h))
  unfold insertR
  cases hf : Slots.find? r.st.store.nodes ⟨l, t, u, e⟩ with
  | some i =>
    simp only
    refine cloneEdge_rc h3 ?_
    simp only [dropEdge_st]
    exact ⟨_, Slots.find?_some hf⟩
  | none =>
    simp only
    by_cases hc : room cap (slotCount r.st.store.nodes) = true
    · simp only [hc, if_true]
      have hfresh := Slots.alloc_fresh r.st.store.nodes ⟨l, t, u, e⟩
      have hget := Slots.get?_alloc r.st.store.nodes ⟨l, t, u, e⟩
      have hpar := fun x => parentsA_alloc r.st.store.nodes ⟨l, t, u, e⟩ x
      generalize hj : (Slots.alloc r.st.store.nodes ⟨l, t, u, e⟩).2 = j at hfresh hget
      generalize ha : (Slots.alloc r.st.store.nodes ⟨l, t, u, e⟩).1 = nodes' at hget hpar
      have hle : r.st.store.Le ⟨nodes'⟩ := by
        show Slots.Le r.st.store.nodes nodes'
        rw [← ha]; exact Slots.alloc_le _ _
      have hnot : ∀ x : Edge, Has r.st.store x → x ≠ .inner j := by
        intro x hx hxe
        subst hxe
        obtain ⟨n, hn⟩ := hx
        simp only [Store.get?] at hn
        rw [hfresh] at hn; cases hn
      have ht := h.ext_ok t List.mem_cons_self
      have hu := h.ext_ok u (List.mem_cons_of_mem _ List.mem_cons_self)
      have he := h.ext_ok e (List.mem_cons_of_mem _ (List.mem_cons_of_mem _ List.mem_cons_self))
      have hgetS : ∀ i, (⟨nodes'⟩ : Store).get? i =
          if i = j then some ⟨l, t, u, e⟩ else r.st.store.get? i := fun i => hget i
      refine ⟨?_, ?_, ?_, ?_⟩
      · intro x hx
        rcases List.mem_cons.mp hx with rfl | hx
        · exact ⟨⟨l, t, u, e⟩, by simp [hgetS]⟩
        · exact (h.ext_ok x (List.mem_cons_of_mem _ (List.mem_cons_of_mem _
            (List.mem_cons_of_mem _ hx)))).mono hle
      · intro i n hi
        rw [hgetS] at hi
        split at hi
        · cases hi; exact ⟨ht.mono hle, hu.mono hle, he.mono hle⟩
        · obtain ⟨h1, h2, h3'⟩ := h.kids_ok i n hi
          exact ⟨h1.mono hle, h2.mono hle, h3'.mono hle⟩
      · intro k v hkv
        exact (h.cache_ok k v hkv).mono hle
      · intro i n hi
        have hp : parents (⟨nodes'⟩ : Store) (.inner i) =
            parents r.st.store (.inner i) + (cnt t (.inner i) + cnt u (.inner i) + cnt e (.inner i)) :=
          hpar (.inner i)
        rw [hp]
        simp only [rcGet_rcSet]
        by_cases hij : i = j
        · subst hij
          simp only [if_true, List.count_cons_self]
          have hz : parents r.st.store (.inner i) = 0 := parents_zero (fun k n' hk =>
            ⟨hnot _ (h.kids_ok k n' hk).1, hnot _ (h.kids_ok k n' hk).2.1,
              hnot _ (h.kids_ok k n' hk).2.2⟩)
          have hce : ext.count (.inner i) = 0 := by
            apply List.count_eq_zero.mpr
            intro hm
            exact hnot _ (h.ext_ok _ (List.mem_cons_of_mem _ (List.mem_cons_of_mem _
              (List.mem_cons_of_mem _ hm)))) rfl
          simp [hz, hce, cnt, hnot t ht, hnot u hu, hnot e he]
        · have hold : r.st.store.get? i = some n := by
            rw [hgetS] at hi
            simpa [hij] using hi
          have := h.rc_eq i n hold
          simp only [count_cons_cnt] at this
          have hne : ¬ (Edge.inner j = Edge.inner i) := fun e' => hij (by cases e'; rfl)
          rw [count_cons_cnt]
          simp only [cnt, hne, hij, if_false, Nat.add_zero]
          simp only [cnt] at this
          omega
    · rw [if_neg hc]
      exact h3

/-- **`mkNodeR_rc`**: `reduce` consumes the three owned children (reduction: `u` and `e` dropped,
`t` returned; else `get_or_insert`) -/
theorem mkNodeR_rc {cap : Option Nat} {r : RSt} {l : Nat} {t u e : Edge} {ext : List Edge}
    (h : RcInv r (t :: u :: e :: ext)) :
    match mkNodeR cap r l t u e with
    | (some x, r') => RcInv r' (x :: ext)
    | (none, r') => RcInv r' ext := by
  unfold mkNodeR
  by_cases hte : t = u ∧ u = e
  · simp only [hte, and_self, if_true]
    obtain ⟨h1, h2⟩ := hte
    subst h1 h2
    -- ext = t :: t :: t :: ext; drop the 2nd and 3rd
    have h' : RcInv r (t :: t :: t :: ext) := h
    exact dropEdge_rc (h := (dropEdge_rc h').swap)
  · simp only [hte, if_false]
    exact insertR_rc h

end OxiddModel.Tdd.Rc
