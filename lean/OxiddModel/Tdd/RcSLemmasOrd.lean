import OxiddModel.Tdd.RcSHistory

/-!
# The TDD algorithms keep the store ordered (what `gcR_exact` assumes)

`OrdInv N r`: inner children of stored nodes are on strictly larger levels, all levels are `< N`,
and every cache entry maps operands that are all at level `≥ L` to a result at level `≥ L`
(terminals count as level `∞`). `notR_ord / applyR_ord / iteR_ord / varR_ord`: with operands at
level `≥ L` the result is at level `≥ L` and `OrdInv` is kept — on success and on failure;
`Cmd.run_ord`, `runAll_ord`: along every history.
-/
set_option linter.unusedSectionVars false

namespace OxiddModel.Tdd.Rc
open OxiddModel.Tdd OxiddModel.Tdd.TD OxiddModel.Tdd.Refine OxiddModel.CachePolicy OxiddModel

/-- the edge points to a terminal or to a stored node at level `≥ L` -/
def Above (s : Store) (L : Nat) : Edge → Prop
  | .term _ => True
  | .inner i => ∃ n, s.get? i = some n ∧ L ≤ n.level

theorem Above.mono {s s' : Store} {L : Nat} {e : Edge} (hle : s.Le s') (h : Above s L e) :
    Above s' L e := by
  cases e with
  | term v => trivial
  | inner i => obtain ⟨n, hn, hl⟩ := h; exact ⟨n, hle i n hn, hl⟩

theorem Above.weaken {s : Store} {L L' : Nat} {e : Edge} (hL : L' ≤ L) (h : Above s L e) :
    Above s L' e := by
  cases e with
  | term v => trivial
  | inner i => obtain ⟨n, hn, hl⟩ := h; exact ⟨n, hn, by omega⟩

theorem Above.has {s : Store} {L : Nat} {e : Edge} (h : Above s L e) : Has s e := by
  cases e with
  | term v => trivial
  | inner i => obtain ⟨n, hn, _⟩ := h; exact ⟨n, hn⟩

theorem Above.of_le_has {s s' : Store} {L : Nat} {e : Edge} (hle : s.Le s') (hh : Has s e)
    (h : Above s' L e) : Above s L e := by
  cases e with
  | term v => trivial
  | inner i =>
    obtain ⟨n, hn⟩ := hh
    obtain ⟨n', hn', hl⟩ := h
    have : s'.get? i = some n := hle i n hn
    rw [this] at hn'; cases hn'
    exact ⟨n, hn, hl⟩

theorem Above.level_le {s : Store} {L i : Nat} {n : Node} (h : Above s L (.inner i))
    (hn : s.get? i = some n) : L ≤ n.level := by
  obtain ⟨n', hn', hl⟩ := h
  rw [hn] at hn'; cases hn'; exact hl

theorem has_above_zero {s : Store} {e : Edge} (h : Has s e) : Above s 0 e := by
  cases e with
  | term v => trivial
  | inner i => obtain ⟨n, hn⟩ := h; exact ⟨n, hn, Nat.zero_le _⟩

/-- cache entries respect levels -/
def CacheLv (s : Store) (c : ACache) : Prop :=
  ∀ k v, (k, v) ∈ c → (∀ o ∈ k.2, Has s o) ∧ ∀ L, (∀ o ∈ k.2, Above s L o) → Above s L v

theorem CacheLv.mono {s s' : Store} {c : ACache} (h : CacheLv s c) (hle : s.Le s') :
    CacheLv s' c := by
  intro k v hkv
  obtain ⟨h1, h2⟩ := h k v hkv
  refine ⟨fun o ho => (h1 o ho).mono hle, fun L hL => ?_⟩
  exact (h2 L (fun o ho => Above.of_le_has hle (h1 o ho) (hL o ho))).mono hle

structure OrdInv (N : Nat) (r : RSt) : Prop where
  ord : Ordered r.st.store
  bound : ∀ i n, r.st.store.get? i = some n → n.level < N
  cache : CacheLv r.st.store r.st.cache

theorem OrdInv.tickd {N : Nat} {r : RSt} (h : OrdInv N r) : OrdInv N r.tickd :=
  ⟨h.ord, h.bound, h.cache⟩

theorem OrdInv.of_st {N : Nat} {r r' : RSt} (h : OrdInv N r) (hs : r'.st = r.st) : OrdInv N r' := by
  refine ⟨?_, ?_, ?_⟩
  · rw [hs]; exact h.ord
  · rw [hs]; exact h.bound
  · rw [hs]; exact h.cache

/-- postcondition: invariant kept, a result is at level `≥ L` -/
def OrdPost (N L : Nat) (R : Option Edge × RSt) : Prop :=
  OrdInv N R.2 ∧ ∀ x, R.1 = some x → Above R.2.st.store L x

theorem OrdPost.weaken {N L L' : Nat} {R : Option Edge × RSt} (hL : L' ≤ L) (h : OrdPost N L R) :
    OrdPost N L' R := ⟨h.1, fun x hx => (h.2 x hx).weaken hL⟩

theorem OrdPost.clone {N L : Nat} {r : RSt} {x : Edge} (h : OrdInv N r) (hx : Above r.st.store L x) :
    OrdPost N L (some x, cloneEdge r x) := by
  refine ⟨h.of_st (cloneEdge_st r x), ?_⟩
  intro y hy
  cases hy
  simp only [cloneEdge_st]
  exact hx

theorem OrdPost.clone_tickd {N L : Nat} {r : RSt} {x : Edge} (h : OrdInv N r)
    (hx : Above r.st.store L x) : OrdPost N L (some x, cloneEdge r.tickd x) :=
  OrdPost.clone (r := r.tickd) h.tickd hx

theorem OrdPost.term {N L : Nat} {r : RSt} (v : Tri) (h : OrdInv N r) :
    OrdPost N L (some (.term v), r) :=
  OrdPost.clone (x := .term v) h trivial

theorem above_of_kid {r : RSt} {N : Nat} (ho : OrdInv N r) {i : Nat} {n : Node}
    (hi : r.st.store.get? i = some n) {x : Edge} (hx : Has r.st.store x)
    (hk : n.t = x ∨ n.u = x ∨ n.e = x) : Above r.st.store (n.level + 1) x := by
  cases x with
  | term v => trivial
  | inner j =>
    obtain ⟨m, hm⟩ := hx
    exact ⟨m, hm, ho.ord i n j m hi hk hm⟩

/-- children are strictly below their parent -/
theorem child_above {r : RSt} {ext : List Edge} {N : Nat} (hrc : RcInv r ext) (ho : OrdInv N r)
    {i : Nat} {n : Node} (hi : r.st.store.get? i = some n) :
    Above r.st.store (n.level + 1) n.t ∧ Above r.st.store (n.level + 1) n.u ∧
      Above r.st.store (n.level + 1) n.e := by
  obtain ⟨h1, h2, h3⟩ := hrc.kids_ok i n hi
  exact ⟨above_of_kid ho hi h1 (.inl rfl), above_of_kid ho hi h2 (.inr (.inl rfl)),
    above_of_kid ho hi h3 (.inr (.inr rfl))⟩

/-! ## `get_or_insert`, `reduce` -/

theorem insertR_ord {N : Nat} {cap : Option Nat} {r : RSt} {l : Nat} {t u e : Edge}
    {ext : List Edge} (hrc : RcInv r (t :: u :: e :: ext)) (ho : OrdInv N r) (hl : l < N)
    (ht : Above r.st.store (l + 1) t) (hu : Above r.st.store (l + 1) u)
    (he : Above r.st.store (l + 1) e) :
    OrdPost N l (insertR cap r l t u e) := by
  unfold insertR
  cases hf : Slots.find? r.st.store.nodes ⟨l, t, u, e⟩ with
  | some i =>
    simp only
    refine ⟨ho.of_st (by simp), ?_⟩
    intro x hx; cases hx
    simp only [cloneEdge_st, dropEdge_st]
    exact ⟨_, Slots.find?_some hf, Nat.le_refl _⟩
  | none =>
    simp only
    by_cases hc : room cap (slotCount r.st.store.nodes) = true
    · simp only [hc, if_true]
      have hfresh := Slots.alloc_fresh r.st.store.nodes ⟨l, t, u, e⟩
      have hget := Slots.get?_alloc r.st.store.nodes ⟨l, t, u, e⟩
      generalize hj : (Slots.alloc r.st.store.nodes ⟨l, t, u, e⟩).2 = j at hfresh hget
      generalize ha : (Slots.alloc r.st.store.nodes ⟨l, t, u, e⟩).1 = nodes' at hget
      have hle : r.st.store.Le ⟨nodes'⟩ := by
        show Slots.Le r.st.store.nodes nodes'
        rw [← ha]; exact Slots.alloc_le _ _
      have hnot : ∀ x : Edge, Has r.st.store x → x ≠ .inner j := by
        intro x hx hxe
        subst hxe
        obtain ⟨n, hn⟩ := hx
        simp only [Store.get?] at hn
        rw [hfresh] at hn; cases hn
      have hgetS : ∀ i, (⟨nodes'⟩ : Store).get? i =
          if i = j then some ⟨l, t, u, e⟩ else r.st.store.get? i := fun i => hget i
      refine ⟨⟨?_, ?_, ?_⟩, ?_⟩
      · -- ordered
        intro i n k m hi hch hk
        change (⟨nodes'⟩ : Store).get? i = some n at hi
        change (⟨nodes'⟩ : Store).get? k = some m at hk
        rw [hgetS] at hi hk
        split at hi
        · cases hi
          have hkj : k ≠ j := by
            intro hkj; subst hkj
            rcases hch with hch | hch | hch
            · exact hnot t ht.has hch
            · exact hnot u hu.has hch
            · exact hnot e he.has hch
          simp only [hkj, if_false] at hk
          rcases hch with hch | hch | hch
          · simp only at hch; rw [hch] at ht
            have := ht.level_le hk; simp only; omega
          · simp only at hch; rw [hch] at hu
            have := hu.level_le hk; simp only; omega
          · simp only at hch; rw [hch] at he
            have := he.level_le hk; simp only; omega
        · have hk' := hrc.kids_ok i n hi
          have hkj : k ≠ j := by
            intro hkj; subst hkj
            rcases hch with hch | hch | hch
            · exact hnot _ hk'.1 hch
            · exact hnot _ hk'.2.1 hch
            · exact hnot _ hk'.2.2 hch
          simp only [hkj, if_false] at hk
          exact ho.ord i n k m hi hch hk
      · intro i n hi
        change (⟨nodes'⟩ : Store).get? i = some n at hi
        rw [hgetS] at hi
        split at hi
        · cases hi; exact hl
        · exact ho.bound i n hi
      · exact ho.cache.mono hle
      · intro x hx; cases hx
        exact ⟨⟨l, t, u, e⟩, by simp [hgetS], Nat.le_refl _⟩
    · rw [if_neg hc]
      refine ⟨ho.of_st (by simp), ?_⟩
      intro x hx; cases hx

theorem mkNodeR_ord {N : Nat} {cap : Option Nat} {r : RSt} {l : Nat} {t u e : Edge}
    {ext : List Edge} (hrc : RcInv r (t :: u :: e :: ext)) (ho : OrdInv N r) (hl : l < N)
    (ht : Above r.st.store (l + 1) t) (hu : Above r.st.store (l + 1) u)
    (he : Above r.st.store (l + 1) e) :
    OrdPost N l (mkNodeR cap r l t u e) := by
  unfold mkNodeR
  by_cases hte : t = u ∧ u = e
  · obtain ⟨h1, h2⟩ := hte
    subst h1 h2
    simp only [and_self, if_true]
    refine ⟨ho.of_st (by simp), ?_⟩
    intro x hx; cases hx
    simp only [dropEdge_st]
    exact ht.weaken (Nat.le_succ l)
  · simp only [hte, if_false]
    exact insertR_ord hrc ho hl ht hu he

theorem mkNodeR_le' (cap : Option Nat) (r : RSt) (l : Nat) (t u e : Edge) :
    r.st.store.Le (mkNodeR cap r l t u e).2.st.store := mkNodeR_le cap r l t u e

/-- `reduce(..)?` + cache add; the key's operands bound the level from above -/
theorem finishR_ord {p : APolicy} (pok : p.OK) {N : Nat} {cap : Option Nat} {r : RSt} {key : Key}
    {l : Nat} {t u e : Edge} {ext : List Edge} (hrc : RcInv r (t :: u :: e :: ext))
    (ho : OrdInv N r) (hl : l < N) (ht : Above r.st.store (l + 1) t)
    (hu : Above r.st.store (l + 1) u) (he : Above r.st.store (l + 1) e)
    (hkey : ∀ o ∈ key.2, Has r.st.store o)
    (hlev : ∀ L, (∀ o ∈ key.2, Above r.st.store L o) → L ≤ l) :
    OrdPost N l (finishR cap p r key l t u e) := by
  have hm := mkNodeR_ord (cap := cap) hrc ho hl ht hu he
  have hle := mkNodeR_le cap r l t u e
  unfold finishR
  cases hR : mkNodeR cap r l t u e with
  | mk o r' =>
    rw [hR] at hm hle
    cases o with
    | none => exact ⟨hm.1, fun x hx => by cases hx⟩
    | some x =>
      simp only at hle ⊢
      have hx := hm.2 x rfl
      simp only at hx
      refine ⟨⟨hm.1.ord, hm.1.bound, ?_⟩, ?_⟩
      · intro k v hkv
        simp only at hkv ⊢
        rcases pok.add_sub _ _ _ _ _ hkv with hold | hnew
        · exact hm.1.cache k v hold
        · cases hnew
          refine ⟨fun o ho' => (hkey o ho').mono hle, fun L hL => ?_⟩
          have : L ≤ l := hlev L (fun o ho' => Above.of_le_has hle (hkey o ho') (hL o ho'))
          exact hx.weaken this
      · intro y hy; cases hy; exact hx

theorem forkR_ord {p : APolicy} (pok : p.OK) {N : Nat} {cap : Option Nat} {key : Key} {l : Nat}
    {c1 cu c0 : RSt → Option Edge × RSt} {r : RSt} {ext : List Edge} (hl : l < N)
    (h1 : RcPost r ext (c1 r)) (h1o : OrdPost N (l + 1) (c1 r))
    (hu : ∀ t r1, RcInv r1 (t :: ext) → r.st.store.Le r1.st.store → OrdInv N r1 →
      RcPost r1 (t :: ext) (cu r1) ∧ OrdPost N (l + 1) (cu r1))
    (h0 : ∀ t u ru, RcInv ru (u :: t :: ext) → r.st.store.Le ru.st.store → OrdInv N ru →
      RcPost ru (u :: t :: ext) (c0 ru) ∧ OrdPost N (l + 1) (c0 ru))
    (hkey : ∀ o ∈ key.2, Has r.st.store o)
    (hlev : ∀ L, (∀ o ∈ key.2, Above r.st.store L o) → L ≤ l) :
    OrdPost N l (forkR cap p key l c1 cu c0 r) := by
  unfold forkR
  cases hc1 : c1 r with
  | mk o1 r1 =>
    rw [hc1] at h1 h1o
    cases o1 with
    | none => exact ⟨h1o.1, fun x hx => by cases hx⟩
    | some t =>
      obtain ⟨le1, i1⟩ := h1
      simp only at i1 le1 ⊢
      have ht1 := h1o.2 t rfl
      simp only at ht1
      obtain ⟨hur, huo⟩ := hu t r1 i1 le1 h1o.1
      cases hcu : cu r1 with
      | mk ou ru =>
        rw [hcu] at hur huo
        obtain ⟨leu, iu⟩ := hur
        cases ou with
        | none =>
          simp only
          exact ⟨huo.1.of_st (dropEdge_st ru t), fun x hx => by cases hx⟩
        | some u =>
          simp only at iu leu ⊢
          have hu1 := huo.2 u rfl
          simp only at hu1
          obtain ⟨h0r, h0o⟩ := h0 t u ru iu (le1.trans leu) huo.1
          cases hc0 : c0 ru with
          | mk o0 r0 =>
            rw [hc0] at h0r h0o
            obtain ⟨le0, i0⟩ := h0r
            cases o0 with
            | none =>
              simp only
              exact ⟨h0o.1.of_st (by simp), fun x hx => by cases hx⟩
            | some e =>
              simp only at i0 le0 ⊢
              have he0 := h0o.2 e rfl
              simp only at he0
              have hle := le1.trans (leu.trans le0)
              exact finishR_ord pok i0.rev3 h0o.1 hl ((ht1.mono leu).mono le0) (hu1.mono le0) he0
                (fun o ho' => (hkey o ho').mono hle)
                (fun L hL => hlev L (fun o ho' => Above.of_le_has hle (hkey o ho') (hL o ho')))

/-! ## cofactors, levels -/

theorem level?_some {s : Store} {f : Edge} {lf : Nat} (h : s.level? f = some lf) :
    ∃ i n, f = .inner i ∧ s.get? i = some n ∧ n.level = lf := by
  cases f with
  | term b => simp [Store.level?] at h
  | inner i =>
    simp only [Store.level?] at h
    cases hi : s.get? i with
    | none => rw [hi] at h; cases h
    | some n => rw [hi] at h; simp at h; exact ⟨i, n, rfl, hi, h⟩

theorem above_level? {s : Store} {f : Edge} {L lf : Nat} (h : Above s L f)
    (hlf : s.level? f = some lf) : L ≤ lf := by
  obtain ⟨i, n, rfl, hi, hn⟩ := level?_some hlf
  have := h.level_le hi
  omega

/-- the expansion level is below the level of every operand -/
theorem lmin_le {a b : Option Nat} {l : Nat} (h : lmin a b = some l) :
    (∀ x, a = some x → l ≤ x) ∧ (∀ x, b = some x → l ≤ x) := by
  cases a <;> cases b <;> simp only [lmin] at h <;> cases h <;>
    constructor <;> intro x hx <;> cases hx <;> omega

theorem childAt_above' {r : RSt} {ext : List Edge} {N : Nat} (hrc : RcInv r ext) (ho : OrdInv N r)
    {f : Edge} {l : Nat} (c : Tri) (hf : Has r.st.store f)
    (hle : ∀ lf, r.st.store.level? f = some lf → l ≤ lf) :
    Above r.st.store (l + 1) (r.st.store.childAt f l c) := by
  cases f with
  | term v => trivial
  | inner i =>
    obtain ⟨n, hi⟩ := hf
    have hl := hle n.level (by simp [Store.level?, hi])
    simp only [Store.childAt, hi]
    split
    · rename_i heq
      have := child_above hrc ho hi
      rw [heq] at this
      cases c
      · exact this.2.2
      · exact this.2.1
      · exact this.1
    · rename_i hne
      exact ⟨n, hi, by omega⟩

/-! ## the algorithms -/

theorem notR_ord {p : APolicy} (pok : p.OK) (N : Nat) (cap : Option Nat) (fuel : Nat) :
    ∀ (r : RSt) (f : Edge) (ext : List Edge) (L' : Nat), RcInv r ext → OrdInv N r →
      Above r.st.store L' f → OrdPost N L' (notR cap p fuel r f) := by
  induction fuel with
  | zero => intro r f ext L' _ ho hf; exact OrdPost.clone ho hf
  | succ fuel ih =>
    intro r f ext L' hrc ho hf
    cases f with
    | term v => exact OrdPost.term _ ho
    | inner i =>
      simp only [notR]
      have hkeyAll : ∀ o ∈ [Edge.inner i], Above r.st.store L' o := by
        intro o ho'
        simp only [List.mem_cons, List.mem_nil_iff, or_false] at ho'
        subst ho'; exact hf
      cases hget : p.get r.st.tick r.st.cache (.not, [.inner i]) with
      | some x =>
        exact OrdPost.clone_tickd ho ((ho.cache _ _ (pok.get_mem _ _ _ _ hget)).2 L' hkeyAll)
      | none =>
        simp only
        cases hi : r.st.store.get? i with
        | none => exact OrdPost.clone_tickd ho hf
        | some n =>
          simp only
          obtain ⟨k1, k2, k3⟩ := hrc.kids_ok i n hi
          obtain ⟨a1, a2, a3⟩ := child_above hrc ho hi
          have hL : L' ≤ n.level := hf.level_le hi
          refine OrdPost.weaken hL ?_
          refine forkR_ord pok (N := N) (cap := cap) (r := r.tickd) (ext := ext) (ho.bound i n hi)
            (c1 := fun s => notR cap p fuel s n.t) (cu := fun s => notR cap p fuel s n.u)
            (c0 := fun s => notR cap p fuel s n.e)
            (notR_rc pok cap fuel _ _ _ hrc.tickd k1)
            (ih _ _ _ _ hrc.tickd ho.tickd a1)
            (fun t r1 i1 le1 o1 => ⟨notR_rc pok cap fuel _ _ _ i1 (k2.mono le1),
              ih _ _ _ _ i1 o1 (a2.mono le1)⟩)
            (fun t u ru iu leu ou => ⟨notR_rc pok cap fuel _ _ _ iu (k3.mono leu),
              ih _ _ _ _ iu ou (a3.mono leu)⟩)
            ?_ ?_
          · intro o ho'
            exact (hkeyAll o ho').has
          · intro L'' hL''
            exact (hL'' (.inner i) (by simp)).level_le hi

theorem applyR_ord (gt : Edge → Edge → Bool) (tg : BinOp → TDDOp) {p : APolicy}
    (pok : p.OK) (N : Nat) (cap : Option Nat) (op : BinOp) (fuel : Nat) :
    ∀ (r : RSt) (f g : Edge) (ext : List Edge) (L' : Nat), RcInv r ext → OrdInv N r →
      Above r.st.store L' f → Above r.st.store L' g →
      OrdPost N L' (applyR gt tg cap p op fuel r f g) := by
  induction fuel with
  | zero => intro r f g ext L' _ ho hf _; exact OrdPost.clone ho hf
  | succ fuel ih =>
    intro r f g ext L' hrc ho hf hg
    simp only [applyR]
    have hshape := terminalBinS_shape gt tg op f g
    cases hP : terminalBinS gt tg op f g with
    | done x =>
      rw [hP] at hshape
      refine OrdPost.clone ho ?_
      rcases hshape with rfl | rfl | ⟨v, rfl⟩
      · exact hf
      · exact hg
      · trivial
    | notOf x =>
      rw [hP] at hshape
      simp only
      refine notR_ord pok N cap fuel r x ext L' hrc ho ?_
      rcases hshape with rfl | rfl
      · exact hf
      · exact hg
    | binary tag o1 o2 =>
      rw [hP] at hshape
      simp only
      have hkeyA : ∀ L'', (∀ o ∈ [o1, o2], Above r.st.store L'' o) →
          Above r.st.store L'' f ∧ Above r.st.store L'' g := by
        intro L'' h
        have h1 := h o1 (by simp)
        have h2 := h o2 (by simp)
        rcases hshape with ⟨rfl, rfl⟩ | ⟨rfl, rfl⟩
        · exact ⟨h1, h2⟩
        · exact ⟨h2, h1⟩
      have hkeyAll : ∀ o ∈ [o1, o2], Above r.st.store L' o := by
        intro o ho'
        simp only [List.mem_cons, List.mem_nil_iff, or_false] at ho'
        rcases hshape with ⟨rfl, rfl⟩ | ⟨rfl, rfl⟩ <;> rcases ho' with rfl | rfl <;> assumption
      cases hget : p.get r.st.tick r.st.cache (tag, [o1, o2]) with
      | some x =>
        exact OrdPost.clone_tickd ho ((ho.cache _ _ (pok.get_mem _ _ _ _ hget)).2 L' hkeyAll)
      | none =>
        cases hl : lmin (r.st.store.level? f) (r.st.store.level? g) with
        | none => exact OrdPost.clone_tickd ho hf
        | some l =>
          simp only
          obtain ⟨hlf, hlg⟩ := lmin_le hl
          -- `l` is the level of one of the operands
          have hlN : l < N ∧ L' ≤ l ∧ (∀ L'', Above r.st.store L'' f → Above r.st.store L'' g → L'' ≤ l) := by
            rcases lmin_eq_some hl with h1 | h1
            · obtain ⟨i, n, _, hi, hn⟩ := level?_some h1
              exact ⟨hn ▸ ho.bound i n hi, above_level? hf h1, fun L'' a _ => above_level? a h1⟩
            · obtain ⟨i, n, _, hi, hn⟩ := level?_some h1
              exact ⟨hn ▸ ho.bound i n hi, above_level? hg h1, fun L'' _ b => above_level? b h1⟩
          refine OrdPost.weaken hlN.2.1 ?_
          refine forkR_ord pok (N := N) (cap := cap) (r := r.tickd) (ext := ext) hlN.1
            (c1 := fun s => applyR gt tg cap p op fuel s (r.st.store.childAt f l .t) (r.st.store.childAt g l .t))
            (cu := fun s => applyR gt tg cap p op fuel s (r.st.store.childAt f l .u) (r.st.store.childAt g l .u))
            (c0 := fun s => applyR gt tg cap p op fuel s (r.st.store.childAt f l .f) (r.st.store.childAt g l .f))
            (applyR_rc gt tg pok cap op fuel _ _ _ _ hrc.tickd (childAt_has hrc _ _ hf.has) (childAt_has hrc _ _ hg.has))
            (ih _ _ _ _ _ hrc.tickd ho.tickd (childAt_above' hrc ho _ hf.has hlf) (childAt_above' hrc ho _ hg.has hlg))
            (fun t r1 i1 le1 o1' =>
              ⟨applyR_rc gt tg pok cap op fuel _ _ _ _ i1 ((childAt_has hrc _ _ hf.has).mono le1)
                ((childAt_has hrc _ _ hg.has).mono le1),
               ih _ _ _ _ _ i1 o1' ((childAt_above' hrc ho _ hf.has hlf).mono le1)
                ((childAt_above' hrc ho _ hg.has hlg).mono le1)⟩)
            (fun t u ru iu leu ou' =>
              ⟨applyR_rc gt tg pok cap op fuel _ _ _ _ iu ((childAt_has hrc _ _ hf.has).mono leu)
                ((childAt_has hrc _ _ hg.has).mono leu),
               ih _ _ _ _ _ iu ou' ((childAt_above' hrc ho _ hf.has hlf).mono leu)
                ((childAt_above' hrc ho _ hg.has hlg).mono leu)⟩)
            ?_ ?_
          · intro o ho'
            exact (hkeyAll o ho').has
          · intro L'' hL''
            obtain ⟨a, b⟩ := hkeyA L'' hL''
            exact hlN.2.2 L'' a b

theorem iteR_ord (gt : Edge → Edge → Bool) (tg : BinOp → TDDOp) {p : APolicy} (pok : p.OK)
    (N : Nat) (cap : Option Nat) (fuel : Nat) :
    ∀ (r : RSt) (f g h : Edge) (ext : List Edge) (L' : Nat), RcInv r ext → OrdInv N r →
      Above r.st.store L' f → Above r.st.store L' g → Above r.st.store L' h →
      OrdPost N L' (iteR gt tg cap p fuel r f g h) := by
  induction fuel with
  | zero => intro r f g h ext L' _ ho hf _ _; exact OrdPost.clone ho hf
  | succ fuel ih =>
    intro r f g h ext L' hrc ho hf hg hh
    simp only [iteR]
    have hshape := iteShortcutS_shape f g h
    cases hP : iteShortcutS f g h with
    | done x =>
      rw [hP] at hshape
      refine OrdPost.clone ho ?_
      rcases hshape with rfl | rfl | rfl | ⟨v, rfl⟩
      · exact hf
      · exact hg
      · exact hh
      · trivial
    | bin op x y =>
      rw [hP] at hshape
      simp only
      obtain ⟨rfl, hy⟩ := hshape
      refine applyR_ord gt tg pok N cap op fuel r x y ext L' hrc ho hf ?_
      rcases hy with rfl | rfl
      · exact hg
      · exact hh
    | notOf x =>
      rw [hP] at hshape
      simp only
      have : x = f := hshape
      subst this
      exact notR_ord pok N cap fuel r x ext L' hrc ho hf
    | recurse =>
      simp only
      have hkeyAll : ∀ o ∈ [f, g, h], Above r.st.store L' o := by
        intro o ho'
        simp only [List.mem_cons, List.mem_nil_iff, or_false] at ho'
        rcases ho' with rfl | rfl | rfl <;> assumption
      cases hget : p.get r.st.tick r.st.cache (.ite, [f, g, h]) with
      | some x =>
        exact OrdPost.clone_tickd ho ((ho.cache _ _ (pok.get_mem _ _ _ _ hget)).2 L' hkeyAll)
      | none =>
        simp only
        cases hl : lmin (lmin (r.st.store.level? f) (r.st.store.level? g)) (r.st.store.level? h) with
        | none => exact OrdPost.clone_tickd ho hf
        | some l =>
          simp only
          obtain ⟨hlf, hlg, hlh⟩ := lmin3_le hl
          have hlN : l < N ∧ L' ≤ l ∧ (∀ L'', Above r.st.store L'' f → Above r.st.store L'' g →
              Above r.st.store L'' h → L'' ≤ l) := by
            rcases lmin_eq_some hl with h12 | h3
            · rcases lmin_eq_some h12 with h1 | h1
              · obtain ⟨j, n, _, hj, hn⟩ := level?_some h1
                exact ⟨hn ▸ ho.bound j n hj, above_level? hf h1, fun L'' a _ _ => above_level? a h1⟩
              · obtain ⟨j, n, _, hj, hn⟩ := level?_some h1
                exact ⟨hn ▸ ho.bound j n hj, above_level? hg h1, fun L'' _ b _ => above_level? b h1⟩
            · obtain ⟨j, n, _, hj, hn⟩ := level?_some h3
              exact ⟨hn ▸ ho.bound j n hj, above_level? hh h3, fun L'' _ _ c => above_level? c h3⟩
          refine OrdPost.weaken hlN.2.1 ?_
          refine forkR_ord pok (N := N) (cap := cap) (r := r.tickd) (ext := ext) hlN.1
            (c1 := fun s => iteR gt tg cap p fuel s (r.st.store.childAt f l .t) (r.st.store.childAt g l .t) (r.st.store.childAt h l .t))
            (cu := fun s => iteR gt tg cap p fuel s (r.st.store.childAt f l .u) (r.st.store.childAt g l .u) (r.st.store.childAt h l .u))
            (c0 := fun s => iteR gt tg cap p fuel s (r.st.store.childAt f l .f) (r.st.store.childAt g l .f) (r.st.store.childAt h l .f))
            (iteR_rc gt tg pok cap fuel _ _ _ _ _ hrc.tickd (childAt_has hrc _ _ hf.has)
              (childAt_has hrc _ _ hg.has) (childAt_has hrc _ _ hh.has))
            (ih _ _ _ _ _ _ hrc.tickd ho.tickd (childAt_above' hrc ho _ hf.has hlf)
              (childAt_above' hrc ho _ hg.has hlg) (childAt_above' hrc ho _ hh.has hlh))
            (fun t r1 i1 le1 o1' =>
              ⟨iteR_rc gt tg pok cap fuel _ _ _ _ _ i1 ((childAt_has hrc _ _ hf.has).mono le1)
                ((childAt_has hrc _ _ hg.has).mono le1) ((childAt_has hrc _ _ hh.has).mono le1),
               ih _ _ _ _ _ _ i1 o1' ((childAt_above' hrc ho _ hf.has hlf).mono le1)
                ((childAt_above' hrc ho _ hg.has hlg).mono le1)
                ((childAt_above' hrc ho _ hh.has hlh).mono le1)⟩)
            (fun t u ru iu leu ou' =>
              ⟨iteR_rc gt tg pok cap fuel _ _ _ _ _ iu ((childAt_has hrc _ _ hf.has).mono leu)
                ((childAt_has hrc _ _ hg.has).mono leu) ((childAt_has hrc _ _ hh.has).mono leu),
               ih _ _ _ _ _ _ iu ou' ((childAt_above' hrc ho _ hf.has hlf).mono leu)
                ((childAt_above' hrc ho _ hg.has hlg).mono leu)
                ((childAt_above' hrc ho _ hh.has hlh).mono leu)⟩)
            ?_ ?_
          · intro o ho'
            exact (hkeyAll o ho').has
          · intro L'' hL''
            exact hlN.2.2 L'' (hL'' _ (by simp)) (hL'' _ (by simp)) (hL'' _ (by simp))

theorem varR_ord {N : Nat} (cap : Option Nat) (r : RSt) (level : Nat)
    (ext : List Edge) (hrc : RcInv r ext) (ho : OrdInv N r) (hl : level < N) :
    OrdPost N level (varR cap r level) := by
  unfold varR
  have h3 : RcInv r (.term .t :: .term .u :: .term .f :: ext) :=
    cloneEdge_rc (x := .term .t) (cloneEdge_rc (x := .term .u) (cloneEdge_rc (x := .term .f) hrc
      trivial) trivial) trivial
  exact insertR_ord h3 ho hl trivial trivial trivial

theorem notEdgeOwnedR_ord {p : APolicy} (pok : p.OK) (N : Nat) (cap : Option Nat) (fuel : Nat)
    (r : RSt) (f : Edge) (ext : List Edge) (L' : Nat) (hrc : RcInv r ext) (ho : OrdInv N r)
    (hf : Above r.st.store L' f) : OrdPost N L' (notEdgeOwnedR cap p fuel r f) := by
  have hN := notR_ord pok N cap fuel r f ext L' hrc ho hf
  unfold notEdgeOwnedR
  cases hR : notR cap p fuel r f with
  | mk o r' =>
    rw [hR] at hN
    refine ⟨hN.1.of_st (by simp), ?_⟩
    intro x hx
    simp only [dropEdge_st]
    exact hN.2 x hx

/-! ## histories -/

/-- variables are created on existing levels -/
def Cmd.OK (N : Nat) : Cmd → Prop
  | .var _ level => level < N
  | _ => True

theorem pushRes_ord {N L : Nat} {h : HSt} {res : Option Edge × RSt} (ho : OrdPost N L res) :
    OrdInv N (pushRes h res).r := by
  obtain ⟨o, r'⟩ := res
  cases o <;> exact ho.1

theorem gcR_cache (n : Nat) (r : RSt) : (gcR n r).st.cache = [] :=
  gcR_ind (P := fun r' => r'.st.cache = [])
    (fun l r' i h => by
      rw [gcSlot_eq]
      cases r'.st.store.get? i with
      | none => exact h
      | some m =>
        simp only
        split
        · rw [freeSlot_cache]; exact h
        · exact h) n r rfl

theorem gcR_ord {N : Nat} {r : RSt} (n : Nat) (ho : OrdInv N r) : OrdInv N (gcR n r) := by
  have hsub := gcR_sub n r
  refine ⟨ordered_sub ho.ord hsub, fun i m hi => ho.bound i m (hsub i m hi), ?_⟩
  rw [gcR_cache]
  intro k v hkv; cases hkv

theorem Cmd.run_ord {E : Env} (pok : E.p.OK) {N : Nat} (c : Cmd) (hc : c.OK N) (h : HSt)
    (hi : RcInv h.r h.hs) (ho : OrdInv N h.r) : OrdInv N (c.run E h).r := by
  cases c with
  | const v => exact ho
  | var cap level => exact pushRes_ord (varR_ord cap h.r level h.hs hi ho hc)
  | not cap fuel a =>
    simp only [Cmd.run]
    cases ha : h.hs[a]? with
    | none => exact ho
    | some f =>
      exact pushRes_ord (notR_ord pok N cap fuel h.r f h.hs 0 hi ho
        (has_above_zero (hi.ext_ok f (List.mem_of_getElem? ha))))
  | notOwned cap fuel a =>
    simp only [Cmd.run]
    cases ha : h.hs[a]? with
    | none => exact ho
    | some f =>
      have hf := hi.ext_ok f (List.mem_of_getElem? ha)
      exact pushRes_ord (notEdgeOwnedR_ord pok N cap fuel (cloneEdge h.r f) f (f :: h.hs) 0
        (cloneEdge_rc hi hf) (ho.of_st (cloneEdge_st _ _))
        (by rw [cloneEdge_st]; exact has_above_zero hf))
  | bin cap fuel op a b =>
    simp only [Cmd.run]
    cases ha : h.hs[a]? with
    | none => exact ho
    | some f =>
      cases hb : h.hs[b]? with
      | none => exact ho
      | some g =>
        exact pushRes_ord (applyR_ord E.gt E.tg pok N cap op fuel h.r f g h.hs 0 hi ho
          (has_above_zero (hi.ext_ok f (List.mem_of_getElem? ha)))
          (has_above_zero (hi.ext_ok g (List.mem_of_getElem? hb))))
  | ite cap fuel a b c =>
    simp only [Cmd.run]
    cases ha : h.hs[a]? with
    | none => exact ho
    | some f =>
      cases hb : h.hs[b]? with
      | none => exact ho
      | some g =>
        cases hc' : h.hs[c]? with
        | none => exact ho
        | some k =>
          exact pushRes_ord (iteR_ord E.gt E.tg pok N cap fuel h.r f g k h.hs 0 hi ho
            (has_above_zero (hi.ext_ok f (List.mem_of_getElem? ha)))
            (has_above_zero (hi.ext_ok g (List.mem_of_getElem? hb)))
            (has_above_zero (hi.ext_ok k (List.mem_of_getElem? hc'))))
  | clone a =>
    simp only [Cmd.run]
    cases ha : h.hs[a]? with
    | none => exact ho
    | some f => exact ho.of_st (cloneEdge_st _ _)
  | drop a =>
    simp only [Cmd.run]
    cases ha : h.hs[a]? with
    | none => exact ho
    | some f => exact ho.of_st (dropEdge_st _ _)
  | gc n => exact gcR_ord n ho

theorem runAll_ord {E : Env} (pok : E.p.OK) {N : Nat} : ∀ (cmds : List Cmd) (h : HSt),
    (∀ c ∈ cmds, c.OK N) → RcInv h.r h.hs → OrdInv N h.r →
    RcInv (runAll E cmds h).r (runAll E cmds h).hs ∧ OrdInv N (runAll E cmds h).r := by
  intro cmds
  induction cmds with
  | nil => intro h _ hi ho; exact ⟨hi, ho⟩
  | cons c cs ih =>
    intro h hok hi ho
    exact ih _ (fun c' hc' => hok c' (List.mem_cons_of_mem _ hc'))
      (Cmd.run_rc pok c h hi) (Cmd.run_ord pok c (hok c List.mem_cons_self) h hi ho)

end OxiddModel.Tdd.Rc
