import OxiddModel.Tdd.RcSLemmasOrd

/-!
# The semantic invariant along counted, bounded histories — failures and collections included

`Inv gtT st` (`ApplyS.lean`) = the store is hash consed and the apply cache is sound. The
store-level specs (`notS_spec`, `applyS_spec`, `iteS_spec`) show it is kept by every *successful*
run (through erasure). Here:

* `notR_sem / applyR_sem / iteR_sem`: **every** run of the counted algorithms — successful or
  failing with OutOfMemory at any allocation point — keeps `Inv` and only extends the store (a
  failed operation leaves garbage nodes and cache entries of the sub-results it completed; they
  are sound);
* `gcR_inv`: a collection keeps `Inv` (nothing changes, the cache is cleared);
* `Cmd.run_sem`, `runAll_sem`: along every history with sufficient fuel, `Inv` holds and every
  handle denotes a normal-form tree; `Cmd.run_keeps`: a command never changes what an existing
  handle denotes (failed operations and collections included).
-/
set_option linter.unusedSectionVars false

namespace OxiddModel.Tdd.Rc
open OxiddModel.Tdd OxiddModel.Tdd.TD OxiddModel.Tdd.Refine OxiddModel.CachePolicy OxiddModel

/-- what every run guarantees for the semantic invariant -/
def SemStep (gtT : TD → TD → Bool) (r : RSt) (R : Option Edge × RSt) : Prop :=
  Inv gtT R.2.st ∧ r.st.store.Le R.2.st.store

theorem SemStep.clone {gtT : TD → TD → Bool} {r : RSt} (h : Inv gtT r.st) (o : Option Edge)
    (x : Edge) : SemStep gtT r (o, cloneEdge r x) := by
  refine ⟨?_, ?_⟩ <;> simp only [cloneEdge_st]
  · exact h
  · exact Store.Le.refl _

theorem SemStep.clone_tickd {gtT : TD → TD → Bool} {r : RSt} (h : Inv gtT r.st) (o : Option Edge)
    (x : Edge) : SemStep gtT r (o, cloneEdge r.tickd x) := by
  refine ⟨?_, ?_⟩ <;> simp only [cloneEdge_st, tickd_st]
  · exact h.tickd
  · exact Store.Le.refl _

/-- a successful run inherits the guarantee of the counter-free run it erases to -/
theorem SemStep.of_erase {gtT : TD → TD → Bool} {r : RSt} {R : Option Edge × RSt}
    {S : St × Edge} {T : TD} (he : Erases R S) (P : Post gtT r.st.store T S) {x : Edge}
    (hx : R.1 = some x) : SemStep gtT r R := by
  have := he x hx
  rw [this] at P
  exact ⟨P.inv, P.le⟩

theorem insertR_none_st {cap : Option Nat} {r : RSt} {l : Nat} {t u e : Edge}
    (h : (insertR cap r l t u e).1 = none) : (insertR cap r l t u e).2.st = r.st := by
  unfold insertR at h ⊢
  split
  · rename_i i hf; rw [hf] at h; cases h
  · rename_i hf
    rw [hf] at h
    split
    · rename_i hc; simp only [hc, if_true] at h; cases h
    · simp

theorem mkNodeR_none_st {cap : Option Nat} {r : RSt} {l : Nat} {t u e : Edge}
    (h : (mkNodeR cap r l t u e).1 = none) : (mkNodeR cap r l t u e).2.st = r.st := by
  unfold mkNodeR at h ⊢
  split
  · rename_i hte; simp only [hte, and_self, if_true] at h; cases h
  · rename_i hte
    simp only [hte, if_false] at h
    exact insertR_none_st h

theorem finishR_none_st {cap : Option Nat} {p : APolicy} {r : RSt} {key : Key} {l : Nat}
    {t u e : Edge} (h : (finishR cap p r key l t u e).1 = none) :
    (finishR cap p r key l t u e).2.st = r.st := by
  unfold finishR at h ⊢
  cases hR : mkNodeR cap r l t u e with
  | mk o r' =>
    rw [hR] at h
    cases o with
    | some x => cases h
    | none =>
      simp only
      have := mkNodeR_none_st (cap := cap) (r := r) (l := l) (t := t) (u := u) (e := e) (by rw [hR])
      rw [hR] at this
      exact this

/-- a failing three-way expansion keeps the invariant, whichever of the four steps fails -/
theorem forkR_sem {gtT : TD → TD → Bool} {cap : Option Nat} {p : APolicy} {key : Key} {l : Nat}
    {c1 cu c0 : RSt → Option Edge × RSt} {r : RSt}
    (h1 : SemStep gtT r (c1 r))
    (hu : ∀ r1, Inv gtT r1.st → r.st.store.Le r1.st.store → SemStep gtT r1 (cu r1))
    (h0 : ∀ ru, Inv gtT ru.st → r.st.store.Le ru.st.store → SemStep gtT ru (c0 ru))
    (hfail : (forkR cap p key l c1 cu c0 r).1 = none) :
    SemStep gtT r (forkR cap p key l c1 cu c0 r) := by
  unfold forkR at hfail ⊢
  cases hc1 : c1 r with
  | mk o1 r1 =>
    rw [hc1] at h1 hfail
    cases o1 with
    | none => exact h1
    | some t =>
      simp only at hfail ⊢
      have hu' := hu r1 h1.1 h1.2
      cases hcu : cu r1 with
      | mk ou ru =>
        rw [hcu] at hu' hfail
        cases ou with
        | none =>
          simp only
          refine ⟨?_, ?_⟩ <;> simp only [dropEdge_st]
          · exact hu'.1
          · exact h1.2.trans hu'.2
        | some u =>
          simp only at hfail ⊢
          have h0' := h0 ru hu'.1 (h1.2.trans hu'.2)
          cases hc0 : c0 ru with
          | mk o0 r0 =>
            rw [hc0] at h0' hfail
            cases o0 with
            | none =>
              simp only
              refine ⟨?_, ?_⟩ <;> simp only [dropEdge_st]
              · exact h0'.1
              · exact h1.2.trans (hu'.2.trans h0'.2)
            | some e =>
              simp only at hfail ⊢
              have hs := finishR_none_st hfail
              refine ⟨?_, ?_⟩
              · rw [hs]; exact h0'.1
              · rw [hs]; exact h1.2.trans (hu'.2.trans h0'.2)

/-! ## every run keeps the invariant -/

theorem notR_sem (gtT : TD → TD → Bool) {p : APolicy} (pok : p.OK) (cap : Option Nat)
    (fuel : Nat) : ∀ (r : RSt) (f : Edge) (a : TD), Inv gtT r.st → Denotes r.st.store f a →
      a.size ≤ fuel → SemStep gtT r (notR cap p fuel r f) := by
  induction fuel with
  | zero => intro r f a _ _ hsz; have := size_pos a; omega
  | succ fuel ih =>
    intro r f a hinv hf hsz
    cases hres : (notR cap p (fuel + 1) r f).1 with
    | some x =>
      exact SemStep.of_erase (notR_erase' cap p (fuel + 1) r f)
        (notS_spec gtT pok (fuel + 1) r.st f a hinv hf hsz) hres
    | none =>
      cases hf with
      | @term v => simp [notR] at hres
      | @inner i l t u e tt tu te hi hft hfu hfe =>
        simp only [notR] at hres ⊢
        cases hget : p.get r.st.tick r.st.cache (.not, [.inner i]) with
        | some h => rw [hget] at hres; simp at hres
        | none =>
          rw [hget] at hres
          simp only [hi] at hres ⊢
          simp only [size] at hsz
          exact forkR_sem (gtT := gtT)
            (ih _ _ _ hinv.tickd hft (by omega))
            (fun r1 i1 le1 => ih _ _ _ i1 (hfu.mono le1) (by omega))
            (fun ru iu leu => ih _ _ _ iu (hfe.mono leu) (by omega)) hres

theorem applyR_sem (gt : Edge → Edge → Bool) (gtT : TD → TD → Bool) {p : APolicy} (pok : p.OK)
    (cap : Option Nat) (op : BinOp) (fuel : Nat) : ∀ (r : RSt) (f g : Edge) (a b : TD),
      Inv gtT r.st → Denotes r.st.store f a → Denotes r.st.store g b → a.size + b.size ≤ fuel →
      SemStep gtT r (applyR gt BinOp.tag cap p op fuel r f g) := by
  induction fuel with
  | zero => intro r f g a b _ _ _ hsz; have := size_pos a; omega
  | succ fuel ih =>
    intro r f g a b hinv hf hg hsz
    cases hres : (applyR gt BinOp.tag cap p op (fuel + 1) r f g).1 with
    | some x =>
      exact SemStep.of_erase (applyR_erase' gt BinOp.tag cap p op (fuel + 1) r f g)
        (applyS_spec gt gtT pok op (fuel + 1) r.st f g a b hinv hf hg hsz) hres
    | none =>
      have pa := size_pos a
      have pb := size_pos b
      simp only [applyR] at hres ⊢
      have hshape := terminalBinS_shape gt BinOp.tag op f g
      cases hP : terminalBinS gt BinOp.tag op f g with
      | done h => rw [hP] at hres; simp at hres
      | notOf h =>
        rw [hP] at hshape
        simp only
        rcases hshape with rfl | rfl
        · exact notR_sem gtT pok cap fuel r _ a hinv hf (by omega)
        · exact notR_sem gtT pok cap fuel r _ b hinv hg (by omega)
      | binary tag o1 o2 =>
        rw [hP] at hres
        simp only at hres ⊢
        cases hget : p.get r.st.tick r.st.cache (tag, [o1, o2]) with
        | some h => rw [hget] at hres; simp at hres
        | none =>
          rw [hget] at hres
          simp only at hres ⊢
          cases hl : lmin (r.st.store.level? f) (r.st.store.level? g) with
          | none => rw [hl] at hres; simp at hres
          | some l =>
            rw [hl] at hres
            simp only at hres ⊢
            have hl' : lmin a.level b.level = some l := by
              rw [← level?_denotes hf, ← level?_denotes hg]; exact hl
            have sz : ∀ c, (childAt a l c).size + (childAt b l c).size ≤ fuel := by
              intro c
              have := childAt_size_le a l c; have := childAt_size_le b l c
              rcases lmin_eq_some hl' with h | h
              · have := childAt_size_lt a l c h; omega
              · have := childAt_size_lt b l c h; omega
            exact forkR_sem (gtT := gtT)
              (ih _ _ _ _ _ hinv.tickd (childAt_denotes l .t hf) (childAt_denotes l .t hg) (sz .t))
              (fun r1 i1 le1 => ih _ _ _ _ _ i1 ((childAt_denotes l .u hf).mono le1)
                ((childAt_denotes l .u hg).mono le1) (sz .u))
              (fun ru iu leu => ih _ _ _ _ _ iu ((childAt_denotes l .f hf).mono leu)
                ((childAt_denotes l .f hg).mono leu) (sz .f)) hres

theorem iteR_sem (gt : Edge → Edge → Bool) (gtT : TD → TD → Bool) {p : APolicy} (pok : p.OK)
    (cap : Option Nat) (fuel : Nat) : ∀ (r : RSt) (f g h : Edge) (a b c : TD),
      Inv gtT r.st → Denotes r.st.store f a → Denotes r.st.store g b → Denotes r.st.store h c →
      a.size + b.size + c.size ≤ fuel →
      SemStep gtT r (iteR gt BinOp.tag cap p fuel r f g h) := by
  induction fuel with
  | zero => intro r f g h a b c _ _ _ _ hsz; have := size_pos a; omega
  | succ fuel ih =>
    intro r f g h a b c hinv hf hg hh hsz
    cases hres : (iteR gt BinOp.tag cap p (fuel + 1) r f g h).1 with
    | some x =>
      exact SemStep.of_erase (iteR_erase' gt BinOp.tag cap p (fuel + 1) r f g h)
        (iteS_spec gt gtT pok (fuel + 1) r.st f g h a b c hinv hf hg hh hsz) hres
    | none =>
      have pa := size_pos a
      have pb := size_pos b
      have pc := size_pos c
      simp only [iteR] at hres ⊢
      have hshape := iteShortcutS_shape f g h
      cases hP : iteShortcutS f g h with
      | done y => rw [hP] at hres; simp at hres
      | bin op x y =>
        rw [hP] at hshape
        simp only
        obtain ⟨rfl, hy⟩ := hshape
        rcases hy with rfl | rfl
        · exact applyR_sem gt gtT pok cap op fuel r _ _ a b hinv hf hg (by omega)
        · exact applyR_sem gt gtT pok cap op fuel r _ _ a c hinv hf hh (by omega)
      | notOf x =>
        rw [hP] at hshape
        simp only
        have : x = f := hshape
        subst this
        exact notR_sem gtT pok cap fuel r _ a hinv hf (by omega)
      | recurse =>
        rw [hP] at hres
        simp only at hres ⊢
        cases hget : p.get r.st.tick r.st.cache (.ite, [f, g, h]) with
        | some y => rw [hget] at hres; simp at hres
        | none =>
          rw [hget] at hres
          simp only at hres ⊢
          cases hl : lmin (lmin (r.st.store.level? f) (r.st.store.level? g)) (r.st.store.level? h) with
          | none => rw [hl] at hres; simp at hres
          | some l =>
            rw [hl] at hres
            simp only at hres ⊢
            have hl' : lmin (lmin a.level b.level) c.level = some l := by
              rw [← level?_denotes hf, ← level?_denotes hg, ← level?_denotes hh]; exact hl
            have sz := ite_child_sizes hl'
            exact forkR_sem (gtT := gtT)
              (ih _ _ _ _ _ _ _ hinv.tickd (childAt_denotes l .t hf) (childAt_denotes l .t hg)
                (childAt_denotes l .t hh) (by have := sz .t; omega))
              (fun r1 i1 le1 => ih _ _ _ _ _ _ _ i1 ((childAt_denotes l .u hf).mono le1)
                ((childAt_denotes l .u hg).mono le1) ((childAt_denotes l .u hh).mono le1)
                (by have := sz .u; omega))
              (fun ru iu leu => ih _ _ _ _ _ _ _ iu ((childAt_denotes l .f hf).mono leu)
                ((childAt_denotes l .f hg).mono leu) ((childAt_denotes l .f hh).mono leu)
                (by have := sz .f; omega)) hres

theorem notEdgeOwnedR_sem (gtT : TD → TD → Bool) {p : APolicy} (pok : p.OK) (cap : Option Nat)
    (fuel : Nat) (r : RSt) (f : Edge) (a : TD) (hinv : Inv gtT r.st) (hf : Denotes r.st.store f a)
    (hsz : a.size ≤ fuel) : SemStep gtT r (notEdgeOwnedR cap p fuel r f) := by
  have := notR_sem gtT pok cap fuel r f a hinv hf hsz
  unfold notEdgeOwnedR
  cases hR : notR cap p fuel r f with
  | mk o r' =>
    rw [hR] at this
    refine ⟨?_, ?_⟩ <;> simp only [dropEdge_st]
    · exact this.1
    · exact this.2

theorem varR_sem (gtT : TD → TD → Bool) (cap : Option Nat) (r : RSt) (l : Nat)
    (hinv : Inv gtT r.st) : SemStep gtT r (varR cap r l) := by
  have hle := insertR_le cap r l (.term .t) (.term .u) (.term .f)
  cases hres : (varR cap r l).1 with
  | none =>
    have := insertR_none_st (cap := cap) (r := r) (l := l) (t := .term .t) (u := .term .u)
      (e := .term .f) hres
    unfold varR
    refine ⟨?_, hle⟩
    rw [this]; exact hinv
  | some x =>
    obtain ⟨e1, e2, _⟩ := varR_erase' cap r l x hres
    refine ⟨⟨?_, ?_⟩, hle⟩
    · have h1 : (varR cap r l).2.st.store = (varS r.st.store l).1 := by rw [e1]
      rw [h1, varS_eq_intern]
      exact intern_unique _ _ hinv.1
    · rw [e2]
      exact hinv.2.mono hle

/-! ## collection -/

theorem unique_sub {s s' : Store} (hs : Sub s' s) (hu : s.Unique) : s'.Unique :=
  fun i j x hi hj => hu i j x (hs i x hi) (hs j x hj)

/-- `Manager::gc` keeps the store hash consed; the cleared cache is trivially sound -/
theorem gcR_inv (gtT : TD → TD → Bool) (N : Nat) (r : RSt) (hinv : Inv gtT r.st) :
    Inv gtT (gcR N r).st := by
  refine ⟨unique_sub (gcR_sub N r) hinv.1, ?_⟩
  rw [gcR_cache]
  exact CacheOK.nil _ _

/-! ## histories -/

/-- every handle denotes a normal-form tree -/
def HandlesNF (s : Store) (hs : List Edge) : Prop := ∀ e ∈ hs, ∃ t, Denotes s e t ∧ NF t

theorem HandlesNF.mono {s s' : Store} {hs : List Edge} (h : HandlesNF s hs) (hle : s.Le s') :
    HandlesNF s' hs := fun e he => by
  obtain ⟨t, hd, hn⟩ := h e he
  exact ⟨t, hd.mono hle, hn⟩

/-- the fuel of a command suffices for the trees its operands denote -/
def Cmd.FuelOK : Cmd → HSt → Prop
  | .not _ fuel a, h => ∀ f ta, h.hs[a]? = some f → Denotes h.r.st.store f ta → ta.size ≤ fuel
  | .notOwned _ fuel a, h => ∀ f ta, h.hs[a]? = some f → Denotes h.r.st.store f ta → ta.size ≤ fuel
  | .bin _ fuel _ a b, h => ∀ f g ta tb, h.hs[a]? = some f → h.hs[b]? = some g →
      Denotes h.r.st.store f ta → Denotes h.r.st.store g tb → ta.size + tb.size ≤ fuel
  | .ite _ fuel a b c, h => ∀ f g k ta tb tc, h.hs[a]? = some f → h.hs[b]? = some g →
      h.hs[c]? = some k → Denotes h.r.st.store f ta → Denotes h.r.st.store g tb →
      Denotes h.r.st.store k tc → ta.size + tb.size + tc.size ≤ fuel
  | _, _ => True

def FuelAll (E : Env) : List Cmd → HSt → Prop
  | [], _ => True
  | c :: cs, h => c.FuelOK h ∧ FuelAll E cs (c.run E h)

/-- the semantic state invariant of a history -/
structure SemInv (gtT : TD → TD → Bool) (h : HSt) : Prop where
  inv : Inv gtT h.r.st
  handles : HandlesNF h.r.st.store h.hs

/-- result of an operation: new handle (if any) denotes the NF tree `T` -/
theorem pushRes_sem {gtT : TD → TD → Bool} {h : HSt} {res : Option Edge × RSt} {T : TD}
    (hS : SemInv gtT h) (hstep : SemStep gtT h.r res)
    (hres : ∀ x, res.1 = some x → Denotes res.2.st.store x T) (hn : NF T) :
    SemInv gtT (pushRes h res) := by
  obtain ⟨o, r'⟩ := res
  cases o with
  | none => exact ⟨hstep.1, hS.handles.mono hstep.2⟩
  | some x =>
    refine ⟨hstep.1, ?_⟩
    intro e he
    rcases List.mem_cons.mp he with rfl | he
    · exact ⟨T, hres _ rfl, hn⟩
    · exact (hS.handles.mono hstep.2) e he

theorem handles_get {s : Store} {hs : List Edge} (h : HandlesNF s hs) {a : Nat} {f : Edge}
    (ha : hs[a]? = some f) : ∃ t, Denotes s f t ∧ NF t := h f (List.mem_of_getElem? ha)

/-- **every command keeps the semantic invariant** (index-manager tags; any edge order, policy,
capacity): operations succeeding or failing with OutOfMemory, clones, drops, collections -/
theorem Cmd.run_sem (gtT : TD → TD → Bool) {E : Env} (htg : E.tg = BinOp.tag) (pok : E.p.OK)
    (c : Cmd) (h : HSt) (hrc : RcInv h.r h.hs) (hS : SemInv gtT h) (hfuel : c.FuelOK h) :
    SemInv gtT (c.run E h) := by
  cases c with
  | const v =>
    refine ⟨hS.inv, ?_⟩
    intro e he
    rcases List.mem_cons.mp he with rfl | he
    · exact ⟨.leaf v, .term, trivial⟩
    · exact hS.handles e he
  | var cap level =>
    have hstep := varR_sem gtT cap h.r level hS.inv
    refine pushRes_sem (T := TD.var level) hS hstep ?_ (var_nf level)
    intro x hx
    obtain ⟨e1, _, _⟩ := varR_erase' cap h.r level x hx
    have h1 : (varR cap h.r level).2.st.store = (intern h.r.st.store (TD.var level)).1 := by
      rw [← varS_eq_intern, e1]
    have h2 : x = (intern h.r.st.store (TD.var level)).2 := by
      rw [← varS_eq_intern, e1]
    rw [h1, h2]
    exact intern_denotes _ _ hS.inv.1 (var_nf level)
  | not cap fuel a =>
    simp only [Cmd.run]
    cases ha : h.hs[a]? with
    | none => exact hS
    | some f =>
      obtain ⟨ta, da, na⟩ := handles_get hS.handles ha
      have hsz := hfuel f ta ha da
      refine pushRes_sem (T := applyNot ta) hS (notR_sem gtT pok cap fuel h.r f ta hS.inv da hsz) ?_
        (applyNot_nf ta na).1
      intro x hx
      have e := notR_erase' cap E.p fuel h.r f x hx
      have P := notS_spec gtT pok fuel h.r.st f ta hS.inv da hsz
      rw [e] at P
      exact P.den
  | notOwned cap fuel a =>
    simp only [Cmd.run]
    cases ha : h.hs[a]? with
    | none => exact hS
    | some f =>
      obtain ⟨ta, da, na⟩ := handles_get hS.handles ha
      have hsz := hfuel f ta ha da
      have hstep := notEdgeOwnedR_sem gtT pok cap fuel (cloneEdge h.r f) f ta
        (by rw [cloneEdge_st]; exact hS.inv) (by rw [cloneEdge_st]; exact da) hsz
      have hstep' : SemStep gtT h.r (notEdgeOwnedR cap E.p fuel (cloneEdge h.r f) f) := by
        refine ⟨hstep.1, ?_⟩
        have := hstep.2
        rw [cloneEdge_st] at this
        exact this
      refine pushRes_sem (T := applyNot ta) hS hstep' ?_ (applyNot_nf ta na).1
      intro x hx
      have e := notEdgeOwnedR_erase' cap E.p fuel (cloneEdge h.r f) f x hx
      rw [cloneEdge_st] at e
      have P := notS_spec gtT pok fuel h.r.st f ta hS.inv da hsz
      rw [e] at P
      exact P.den
  | bin cap fuel op a b =>
    simp only [Cmd.run]
    cases ha : h.hs[a]? with
    | none => exact hS
    | some f =>
      cases hb : h.hs[b]? with
      | none => exact hS
      | some g =>
        obtain ⟨ta, da, na⟩ := handles_get hS.handles ha
        obtain ⟨tb, db, nb⟩ := handles_get hS.handles hb
        have hsz := hfuel f g ta tb ha hb da db
        simp only [htg]
        refine pushRes_sem (T := applyBin gtT op ta tb) hS
          (applyR_sem E.gt gtT pok cap op fuel h.r f g ta tb hS.inv da db hsz) ?_
          (applyBin_nf gtT op ta tb na nb).1
        intro x hx
        have e := applyR_erase' E.gt BinOp.tag cap E.p op fuel h.r f g x hx
        have P := applyS_spec E.gt gtT pok op fuel h.r.st f g ta tb hS.inv da db hsz
        rw [e] at P
        exact P.den
  | ite cap fuel a b c =>
    simp only [Cmd.run]
    cases ha : h.hs[a]? with
    | none => exact hS
    | some f =>
      cases hb : h.hs[b]? with
      | none => exact hS
      | some g =>
        cases hc : h.hs[c]? with
        | none => exact hS
        | some k =>
          obtain ⟨ta, da, na⟩ := handles_get hS.handles ha
          obtain ⟨tb, db, nb⟩ := handles_get hS.handles hb
          obtain ⟨tc, dc, nc⟩ := handles_get hS.handles hc
          have hsz := hfuel f g k ta tb tc ha hb hc da db dc
          simp only [htg]
          refine pushRes_sem (T := applyIte gtT ta tb tc) hS
            (iteR_sem E.gt gtT pok cap fuel h.r f g k ta tb tc hS.inv da db dc hsz) ?_
            (applyIte_nf gtT ta tb tc na nb nc).1
          intro x hx
          have e := iteR_erase' E.gt BinOp.tag cap E.p fuel h.r f g k x hx
          have P := iteS_spec E.gt gtT pok fuel h.r.st f g k ta tb tc hS.inv da db dc hsz
          rw [e] at P
          exact P.den
  | clone a =>
    simp only [Cmd.run]
    cases ha : h.hs[a]? with
    | none => exact hS
    | some f =>
      refine ⟨by rw [cloneEdge_st]; exact hS.inv, ?_⟩
      intro e he
      simp only [cloneEdge_st]
      rcases List.mem_cons.mp he with rfl | he
      · exact hS.handles _ (List.mem_of_getElem? ha)
      · exact hS.handles e he
  | drop a =>
    simp only [Cmd.run]
    cases ha : h.hs[a]? with
    | none => exact hS
    | some f =>
      refine ⟨by rw [dropEdge_st]; exact hS.inv, ?_⟩
      intro e he
      simp only [dropEdge_st]
      exact hS.handles e (List.mem_of_mem_erase he)
  | gc n =>
    refine ⟨gcR_inv gtT n h.r hS.inv, ?_⟩
    intro e he
    obtain ⟨t, hd, hn⟩ := hS.handles e he
    exact ⟨t, gcR_denotes n hrc hd (.root he), hn⟩

/-- **a command never changes what an existing handle denotes** — not when it fails with
OutOfMemory, not when it collects garbage -/
theorem Cmd.run_keeps {E : Env} (pok : E.p.OK) (c : Cmd) (h : HSt) (hrc : RcInv h.r h.hs)
    (e : Edge) (he : e ∈ h.hs) (t : TD) (hd : Denotes h.r.st.store e t) :
    Denotes (c.run E h).r.st.store e t := by
  have push : ∀ res : Option Edge × RSt, RcPost h.r h.hs res →
      Denotes (pushRes h res).r.st.store e t := by
    intro res hres
    obtain ⟨o, r'⟩ := res
    cases o <;> exact hd.mono hres.1
  cases c with
  | const v => exact hd
  | var cap level => exact push _ (varR_rc cap h.r level h.hs hrc)
  | not cap fuel a =>
    simp only [Cmd.run]
    cases ha : h.hs[a]? with
    | none => exact hd
    | some f => exact push _ (notR_rc pok cap fuel h.r f h.hs hrc (hrc.ext_ok f (List.mem_of_getElem? ha)))
  | notOwned cap fuel a =>
    simp only [Cmd.run]
    cases ha : h.hs[a]? with
    | none => exact hd
    | some f =>
      have hc := cloneEdge_rc hrc (hrc.ext_ok f (List.mem_of_getElem? ha))
      have hp := notEdgeOwnedR_rc pok cap fuel (cloneEdge h.r f) f h.hs hc
      refine push _ ⟨?_, hp.2⟩
      have := hp.1
      rw [cloneEdge_st] at this
      exact this
  | bin cap fuel op a b =>
    simp only [Cmd.run]
    cases ha : h.hs[a]? with
    | none => exact hd
    | some f =>
      cases hb : h.hs[b]? with
      | none => exact hd
      | some g =>
        exact push _ (applyR_rc E.gt E.tg pok cap op fuel h.r f g h.hs hrc
          (hrc.ext_ok f (List.mem_of_getElem? ha)) (hrc.ext_ok g (List.mem_of_getElem? hb)))
  | ite cap fuel a b c =>
    simp only [Cmd.run]
    cases ha : h.hs[a]? with
    | none => exact hd
    | some f =>
      cases hb : h.hs[b]? with
      | none => exact hd
      | some g =>
        cases hc : h.hs[c]? with
        | none => exact hd
        | some k =>
          exact push _ (iteR_rc E.gt E.tg pok cap fuel h.r f g k h.hs hrc
            (hrc.ext_ok f (List.mem_of_getElem? ha)) (hrc.ext_ok g (List.mem_of_getElem? hb))
            (hrc.ext_ok k (List.mem_of_getElem? hc)))
  | clone a =>
    simp only [Cmd.run]
    cases ha : h.hs[a]? with
    | none => exact hd
    | some f => simp only [cloneEdge_st]; exact hd
  | drop a =>
    simp only [Cmd.run]
    cases ha : h.hs[a]? with
    | none => exact hd
    | some f => simp only [dropEdge_st]; exact hd
  | gc n => exact gcR_denotes n hrc hd (.root he)

theorem runAll_sem (gtT : TD → TD → Bool) {E : Env} (htg : E.tg = BinOp.tag) (pok : E.p.OK) :
    ∀ (cmds : List Cmd) (h : HSt), RcInv h.r h.hs → SemInv gtT h → FuelAll E cmds h →
      RcInv (runAll E cmds h).r (runAll E cmds h).hs ∧ SemInv gtT (runAll E cmds h) := by
  intro cmds
  induction cmds with
  | nil => intro h hrc hS _; exact ⟨hrc, hS⟩
  | cons c cs ih =>
    intro h hrc hS hf
    exact ih _ (Cmd.run_rc pok c h hrc) (Cmd.run_sem gtT htg pok c h hrc hS hf.1) hf.2

/-! ## executable sufficient test for `FuelAll` (for concrete examples) -/

/-- size of the tree an edge unfolds to (`none`: dangling or deeper than 64) -/
def sizeOf? (s : Store) (f : Edge) : Option Nat := (s.unfold 64 f).map TD.size

theorem sizeOf?_sound {s : Store} {f : Edge} {n : Nat} {t : TD} (h : sizeOf? s f = some n)
    (hd : Denotes s f t) : t.size = n := by
  unfold sizeOf? at h
  cases hu : s.unfold 64 f with
  | none => rw [hu] at h; cases h
  | some t' =>
    rw [hu] at h
    simp only [Option.map_some, Option.some.injEq] at h
    rw [Denotes.functional hd (unfold_sound 64 f t' hu)]
    exact h

def Cmd.fuelB : Cmd → HSt → Bool
  | .not _ fuel a, h | .notOwned _ fuel a, h =>
    match h.hs[a]? with
    | some f =>
      match sizeOf? h.r.st.store f with
      | some n => decide (n ≤ fuel)
      | none => false
    | none => true
  | .bin _ fuel _ a b, h =>
    match h.hs[a]?, h.hs[b]? with
    | some f, some g =>
      match sizeOf? h.r.st.store f, sizeOf? h.r.st.store g with
      | some n, some m => decide (n + m ≤ fuel)
      | _, _ => false
    | _, _ => true
  | .ite _ fuel a b c, h =>
    match h.hs[a]?, h.hs[b]?, h.hs[c]? with
    | some f, some g, some k =>
      match sizeOf? h.r.st.store f, sizeOf? h.r.st.store g, sizeOf? h.r.st.store k with
      | some n, some m, some o => decide (n + m + o ≤ fuel)
      | _, _, _ => false
    | _, _, _ => true
  | _, _ => true

theorem Cmd.fuelOK_of_B (c : Cmd) (h : HSt) (hb : c.fuelB h = true) : c.FuelOK h := by
  cases c with
  | const v => trivial
  | var cap level => trivial
  | not cap fuel a =>
    intro f ta ha da
    simp only [Cmd.fuelB, ha] at hb
    cases hs : sizeOf? h.r.st.store f with
    | none => rw [hs] at hb; cases hb
    | some n =>
      rw [hs] at hb
      rw [sizeOf?_sound hs da]
      simpa using hb
  | notOwned cap fuel a =>
    intro f ta ha da
    simp only [Cmd.fuelB, ha] at hb
    cases hs : sizeOf? h.r.st.store f with
    | none => rw [hs] at hb; cases hb
    | some n =>
      rw [hs] at hb
      rw [sizeOf?_sound hs da]
      simpa using hb
  | bin cap fuel op a b =>
    intro f g ta tb ha hb' da db
    simp only [Cmd.fuelB, ha, hb'] at hb
    cases hs : sizeOf? h.r.st.store f with
    | none => rw [hs] at hb; cases hb
    | some n =>
      cases hs' : sizeOf? h.r.st.store g with
      | none => rw [hs, hs'] at hb; cases hb
      | some m =>
        rw [hs, hs'] at hb
        rw [sizeOf?_sound hs da, sizeOf?_sound hs' db]
        simpa using hb
  | ite cap fuel a b c =>
    intro f g k ta tb tc ha hb' hc da db dc
    simp only [Cmd.fuelB, ha, hb', hc] at hb
    cases hs : sizeOf? h.r.st.store f with
    | none => rw [hs] at hb; cases hb
    | some n =>
      cases hs' : sizeOf? h.r.st.store g with
      | none => rw [hs, hs'] at hb; cases hb
      | some m =>
        cases hs'' : sizeOf? h.r.st.store k with
        | none => rw [hs, hs', hs''] at hb; cases hb
        | some o =>
          rw [hs, hs', hs''] at hb
          rw [sizeOf?_sound hs da, sizeOf?_sound hs' db, sizeOf?_sound hs'' dc]
          simpa using hb
  | clone a => trivial
  | drop a => trivial
  | gc n => trivial

def fuelAllB (E : Env) : List Cmd → HSt → Bool
  | [], _ => true
  | c :: cs, h => c.fuelB h && fuelAllB E cs (c.run E h)

theorem fuelAll_of_B (E : Env) : ∀ (cs : List Cmd) (h : HSt), fuelAllB E cs h = true →
    FuelAll E cs h := by
  intro cs
  induction cs with
  | nil => intro h _; trivial
  | cons c cs ih =>
    intro h hb
    simp only [fuelAllB, Bool.and_eq_true] at hb
    exact ⟨Cmd.fuelOK_of_B c h hb.1, ih _ hb.2⟩

end OxiddModel.Tdd.Rc
