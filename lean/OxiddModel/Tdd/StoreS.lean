import OxiddModel.Tdd.Lemmas
import OxiddModel.Util.Slots
import OxiddModel.Util.CachePolicy

/-!
# TDD store level: hash-consed ternary nodes, memoised `apply_not` / `apply_bin` / `apply_ite_rec`

The store level below the tree model of `Model.lean` (counterpart of `Bdd/StoreRefine.lean`,
`CacheS.lean`, `ApplyS.lean` for ternary decision diagrams):

* a manager is a table of inner-node slots `(level, t, u, e)`; the three terminals `T/U/F` are
  static (`StaticTerminalManager`): an edge is `term v` or `inner id`;
* `Store.mkNode` = `reduce` of `crates/oxidd-rules-tdd/src/lib.rs` (`t == u && u == e` ⇒ `t`, else
  `get_or_insert`);
* `terminalBinS` = `terminal_bin::<OP>` on edges, the same `if`-chain as the tree-level
  `terminalBin` (which is written arm for arm after the source), with the tag taken from a
  parameter `tg : BinOp → TDDOp` (the code's assignment is `BinOp.tag`);
* `notS`, `applyS`, `iteS` = `apply_not`, `apply_bin::<OP>`, `apply_ite_rec` of `apply_rec.rs`:
  terminal cases → cache lookup under the full key → cofactors by level comparison → three
  recursive calls (true, unknown, false child, in this order) → `reduce` → cache add.

The edge order `f > g` is a parameter `gt`; every theorem holds for every `gt`.
-/
set_option linter.unusedSectionVars false

namespace OxiddModel.Tdd.Refine
open OxiddModel.Tdd OxiddModel.Tdd.TD OxiddModel.CachePolicy

/-! ## store level -/

inductive Edge where
  | term : Tri → Edge
  | inner : Nat → Edge
deriving DecidableEq, Repr, Inhabited

structure Node where
  level : Nat
  t : Edge
  u : Edge
  e : Edge
deriving DecidableEq, Repr

structure Store where
  nodes : Array (Option Node)
deriving Repr

def Store.empty : Store := ⟨#[]⟩

def Store.get? (s : Store) (i : Nat) : Option Node := Slots.get? s.nodes i

/-- the tree an edge unfolds to -/
inductive Denotes (s : Store) : Edge → TD → Prop
  | term : Denotes s (.term v) (.leaf v)
  | inner : s.get? i = some ⟨l, t, u, e⟩ → Denotes s t tt → Denotes s u tu → Denotes s e te →
      Denotes s (.inner i) (.node l tt tu te)

theorem Denotes.functional {s : Store} {x : Edge} {a b : TD}
    (ha : Denotes s x a) (hb : Denotes s x b) : a = b := by
  induction ha generalizing b with
  | term => cases hb; rfl
  | inner hi _ _ _ iht ihu ihe =>
    cases hb with
    | inner hi' ht' hu' he' =>
      rw [hi] at hi'; cases hi'
      rw [iht ht', ihu hu', ihe he']

def Store.Le (s s' : Store) : Prop := Slots.Le s.nodes s'.nodes

theorem Store.Le.refl (s : Store) : s.Le s := Slots.Le.refl _
theorem Store.Le.trans {a b c : Store} (h1 : a.Le b) (h2 : b.Le c) : a.Le c :=
  Slots.Le.trans h1 h2

theorem Denotes.mono {s s' : Store} (h : s.Le s') {x : Edge} {a : TD}
    (ha : Denotes s x a) : Denotes s' x a := by
  induction ha with
  | term => exact .term
  | inner hi _ _ _ iht ihu ihe => exact .inner (h _ _ hi) iht ihu ihe

/-- hash consing: no two slots hold the same node -/
def Store.Unique (s : Store) : Prop := Slots.Unique s.nodes

theorem Store.empty_unique : Store.empty.Unique := Slots.unique_empty

def Store.Inj (s : Store) : Prop := ∀ x y a, Denotes s x a → Denotes s y a → x = y

theorem inj_of_unique {s : Store} (hu : s.Unique) : s.Inj := by
  intro x y a hx hy
  induction hx generalizing y with
  | term => cases hy; rfl
  | @inner i l t u e tt tu te hi _ _ _ iht ihu ihe =>
    cases hy with
    | @inner j _ t' u' e' _ _ _ hj ht' hu' he' =>
      have h1 := iht _ ht'
      have h2 := ihu _ hu'
      have h3 := ihe _ he'
      subst h1 h2 h3
      rw [hu i j _ hi hj]

/-- no stored node has three identical children (the reduction rule, as a store invariant) -/
def Store.NoRed (s : Store) : Prop := ∀ i n, s.get? i = some n → ¬ (n.t = n.u ∧ n.u = n.e)

theorem Store.empty_nored : Store.empty.NoRed := by
  intro i n hi; simp [Store.get?, Store.empty, Slots.get?] at hi

/-- `reduce` (`lib.rs`): `if t == u && u == e { return t }`, else `get_or_insert` -/
def Store.mkNode (s : Store) (level : Nat) (t u e : Edge) : Store × Edge :=
  if t = u ∧ u = e then (s, t) else
  let r := Slots.intern s.nodes ⟨level, t, u, e⟩
  (⟨r.1⟩, .inner r.2)

theorem mkNode_le (s : Store) (l : Nat) (t u e : Edge) : s.Le (s.mkNode l t u e).1 := by
  unfold Store.mkNode
  split
  · exact Store.Le.refl _
  · exact Slots.intern_le _ _

theorem mkNode_unique (s : Store) (l : Nat) (t u e : Edge) (hu : s.Unique) :
    (s.mkNode l t u e).1.Unique := by
  unfold Store.mkNode
  split
  · exact hu
  · exact Slots.intern_unique _ _ hu

theorem mkNode_nored (s : Store) (l : Nat) (t u e : Edge) (hr : s.NoRed) :
    (s.mkNode l t u e).1.NoRed := by
  unfold Store.mkNode
  split
  · exact hr
  · rename_i hte
    intro i n hi
    rcases Slots.intern_get_inv _ _ _ _ hi with h' | h'
    · exact hr i n h'
    · subst h'; exact hte

/-- `mkNode` refines `mk` -/
theorem mkNode_denotes (s : Store) (l : Nat) (t u e : Edge) (tt tu te : TD)
    (ht : Denotes s t tt) (hu : Denotes s u tu) (he : Denotes s e te) (inj : s.Inj) :
    Denotes (s.mkNode l t u e).1 (s.mkNode l t u e).2 (mk l tt tu te) := by
  have hle := mkNode_le s l t u e
  unfold Store.mkNode at *
  unfold mk
  by_cases hte : t = u ∧ u = e
  · obtain ⟨h1, h2⟩ := hte
    subst h1 h2
    have e1 := Denotes.functional ht hu
    have e2 := Denotes.functional hu he
    simp [e1, e2]; exact he
  · have hne : ¬ (tt = tu ∧ tu = te) := fun h =>
      hte ⟨inj _ _ _ ht (h.1 ▸ hu), inj _ _ _ hu (h.2 ▸ he)⟩
    simp only [hte, hne, if_false] at *
    exact .inner (Slots.intern_get _ _) (ht.mono hle) (hu.mono hle) (he.mono hle)

/-! ## canonical interning -/

/-- enter a tree into the store bottom-up: true, unknown, false child (the order in which the
recursive algorithms create nodes) -/
def intern (s : Store) : TD → Store × Edge
  | .leaf v => (s, .term v)
  | .node l t u e =>
    let r1 := intern s t
    let ru := intern r1.1 u
    let r0 := intern ru.1 e
    r0.1.mkNode l r1.2 ru.2 r0.2

theorem intern_le (s : Store) (a : TD) : s.Le (intern s a).1 := by
  induction a generalizing s with
  | leaf v => exact Store.Le.refl _
  | node l t u e iht ihu ihe =>
    simp only [intern]
    exact (iht s).trans ((ihu _).trans ((ihe _).trans (mkNode_le _ _ _ _ _)))

theorem intern_unique (s : Store) (a : TD) (hu : s.Unique) : (intern s a).1.Unique := by
  induction a generalizing s with
  | leaf v => exact hu
  | node l t u e iht ihu ihe =>
    simp only [intern]
    exact mkNode_unique _ _ _ _ _ (ihe _ (ihu _ (iht s hu)))

theorem intern_nored (s : Store) (a : TD) (hr : s.NoRed) : (intern s a).1.NoRed := by
  induction a generalizing s with
  | leaf v => exact hr
  | node l t u e iht ihu ihe =>
    simp only [intern]
    exact mkNode_nored _ _ _ _ _ (ihe _ (ihu _ (iht s hr)))

/-- a tree that is already present is found again: nothing is allocated and the very same edge is
returned -/
theorem intern_of_denotes {s : Store} (hu : s.Unique) (hr : s.NoRed) {x : Edge} {a : TD}
    (h : Denotes s x a) : intern s a = (s, x) := by
  induction h with
  | term => rfl
  | @inner i l t u e tt tu te hi _ _ _ iht ihu ihe =>
    simp only [intern, iht, ihu, ihe]
    have hte : ¬ (t = u ∧ u = e) := hr i _ hi
    unfold Store.mkNode
    simp only [hte, if_false]
    rw [Slots.intern_of_get hu hi]

/-- interning a normal form yields an edge denoting it -/
theorem intern_denotes (s : Store) (a : TD) (hu : s.Unique) (ha : NF a) :
    Denotes (intern s a).1 (intern s a).2 a := by
  induction a generalizing s with
  | leaf v => exact .term
  | node l t u e iht ihu ihe =>
    simp only [intern]
    obtain ⟨nt, nu, ne, _, _, _, hne⟩ := ha
    have h1 := iht s hu nt
    have u1 := intern_unique s t hu
    have hu' := ihu _ u1 nu
    have uu := intern_unique _ u u1
    have h0 := ihe _ uu ne
    have u0 := intern_unique _ e uu
    have := mkNode_denotes _ l _ _ _ _ _ _
      (h1.mono ((intern_le _ u).trans (intern_le _ e))) (hu'.mono (intern_le _ e)) h0
      (inj_of_unique u0)
    simpa [mk, hne] using this

/-- executable unfolding of an edge (fuel = depth bound), sound for `Denotes` -/
def Store.unfold (s : Store) : Nat → Edge → Option TD
  | _, .term v => some (.leaf v)
  | 0, .inner _ => none
  | n+1, .inner i =>
    match s.get? i with
    | none => none
    | some nd =>
      match s.unfold n nd.t, s.unfold n nd.u, s.unfold n nd.e with
      | some a, some b, some c => some (.node nd.level a b c)
      | _, _, _ => none

theorem unfold_sound {s : Store} : ∀ (n : Nat) (e : Edge) (t : TD),
    s.unfold n e = some t → Denotes s e t := by
  intro n
  induction n with
  | zero =>
    intro e t h
    cases e with
    | term v => simp only [Store.unfold, Option.some.injEq] at h; subst h; exact .term
    | inner i => simp [Store.unfold] at h
  | succ n ih =>
    intro e t h
    cases e with
    | term v => simp only [Store.unfold, Option.some.injEq] at h; subst h; exact .term
    | inner i =>
      simp only [Store.unfold] at h
      split at h
      · cases h
      · rename_i nd hnd
        split at h
        · rename_i a b c ha hb hc
          cases h
          obtain ⟨l, t', u', e'⟩ := nd
          exact .inner hnd (ih _ _ ha) (ih _ _ hb) (ih _ _ hc)
        · cases h

/-! ## reading nodes -/

/-- `matches!(get_node(e), Terminal(t) if t == v)` -/
def Edge.isTerm (e : Edge) (v : Tri) : Bool :=
  match e with
  | .term w => w == v
  | .inner _ => false

def Edge.isAnyTerm : Edge → Bool
  | .term _ => true
  | .inner _ => false

/-- level of the node an edge points to (`none` = `LevelNo::MAX` for terminals) -/
def Store.level? (s : Store) : Edge → Option Nat
  | .term _ => none
  | .inner i => (s.get? i).map (·.level)

/-- `if xlevel == level { collect_children(x) } else { (x, x, x) }`, component `c` -/
def Store.childAt (s : Store) (x : Edge) (level : Nat) (c : Tri) : Edge :=
  match x with
  | .term _ => x
  | .inner i =>
    match s.get? i with
    | some n =>
      if n.level = level then
        match c with
        | .t => n.t
        | .u => n.u
        | .f => n.e
      else x
    | none => x

/-! ## keys, `terminal_bin` on edges -/

abbrev Key := TDDOp × List Edge
abbrev ACache := Cache Key Edge
abbrev APolicy := Policy Key Edge

/-- the order `f > g` of the index-based manager: by id, terminals (in the order `F < U < T` of
their ids) below inner nodes -/
def Edge.gtIdx : Edge → Edge → Bool
  | .inner i, .inner j => decide (j < i)
  | .inner _, .term _ => true
  | .term _, .inner _ => false
  | .term a, .term b => decide (b.ctorIdx < a.ctorIdx)

/-- the operators for which `terminal_bin` normalises the operand order -/
def BinOp.comm : BinOp → Bool
  | .and | .or | .nand | .nor | .xor | .equiv => true
  | .imp | .impStrict => false

/-- the seeded defect `C11-xor-equiv-tag`: `Xor` memoised under the `Equiv` tag -/
def tagXorAsEquiv : BinOp → TDDOp
  | .xor => .equiv
  | op => op.tag

/-- `enum Operation` at edge level -/
inductive OperationS where
  | done : Edge → OperationS
  | notOf : Edge → OperationS
  | binary : TDDOp → Edge → Edge → OperationS
deriving Repr, DecidableEq

/-- `terminal_bin::<OP>` on edges: the `if`-chain of the tree-level `terminalBin`, with `f == g`
on edges, `isTerm` for the terminal guards and the edge order `gt` -/
def terminalBinS (gt : Edge → Edge → Bool) (tg : BinOp → TDDOp) (op : BinOp) (f g : Edge) :
    OperationS :=
  match op with
  | .and =>
    if f = g then .done f
    else if f.isTerm .f || g.isTerm .f then .done (.term .f)
    else if f.isTerm .t then .done g
    else if g.isTerm .t then .done f
    else if gt f g then .binary (tg .and) g f
    else .binary (tg .and) f g
  | .or =>
    if f = g then .done f
    else if f.isTerm .t || g.isTerm .t then .done (.term .t)
    else if f.isTerm .f then .done g
    else if g.isTerm .f then .done f
    else if gt f g then .binary (tg .or) g f
    else .binary (tg .or) f g
  | .nand =>
    if f = g then .notOf f
    else if f.isTerm .f || g.isTerm .f then .done (.term .t)
    else if f.isTerm .t then .notOf g
    else if g.isTerm .t then .notOf f
    else if gt f g then .binary (tg .nand) g f
    else .binary (tg .nand) f g
  | .nor =>
    if f = g then .notOf f
    else if f.isTerm .t || g.isTerm .t then .done (.term .f)
    else if f.isTerm .f then .notOf g
    else if g.isTerm .f then .notOf f
    else if gt f g then .binary (tg .nor) g f
    else .binary (tg .nor) f g
  | .xor =>
    if f = g then .done (.term .f)
    else if f.isTerm .f then .done g
    else if g.isTerm .f then .done f
    else if f.isTerm .t then .notOf g
    else if g.isTerm .t then .notOf f
    else if gt f g then .binary (tg .xor) g f
    else .binary (tg .xor) f g
  | .equiv =>
    if f = g then .done (.term .t)
    else if f.isTerm .t then .done g
    else if g.isTerm .t then .done f
    else if f.isTerm .f then .notOf g
    else if g.isTerm .f then .notOf f
    else if gt f g then .binary (tg .equiv) g f
    else .binary (tg .equiv) f g
  | .imp =>
    if f = g then .done (.term .t)
    else if f.isTerm .f then .done (.term .t)
    else if g.isTerm .t then .done (.term .t)
    else if f.isTerm .t then .done g
    else if g.isTerm .f then .notOf f
    else .binary (tg .imp) f g
  | .impStrict =>
    if f = g then .done (.term .f)
    else if f.isTerm .t then .done (.term .f)
    else if g.isTerm .f then .done (.term .f)
    else if f.isTerm .f then .done g
    else if g.isTerm .t then .notOf f
    else .binary (tg .impStrict) f g

/-! ## the algorithms -/

structure St where
  store : Store
  cache : ACache
  tick : Nat

def St.tickd (st : St) : St := { st with tick := st.tick + 1 }

@[simp] theorem St.tickd_store (st : St) : st.tickd.store = st.store := rfl
@[simp] theorem St.tickd_cache (st : St) : st.tickd.cache = st.cache := rfl

/-- the common tail of the three algorithms: `reduce`, then `apply_cache().add(..)` -/
def finishS (p : APolicy) (st : St) (key : Key) (l : Nat) (e1 eu e0 : Edge) : St × Edge :=
  let m := st.store.mkNode l e1 eu e0
  (⟨m.1, p.add st.tick st.cache key m.2, st.tick + 1⟩, m.2)

/-- `apply_not` -/
def notS (p : APolicy) : Nat → St → Edge → St × Edge
  | 0, st, f => (st, f)
  | fuel+1, st, f =>
    match f with
    | .term v => (st, .term v.not)
    | .inner i =>
      -- query apply cache
      match p.get st.tick st.cache (.not, [f]) with
      | some h => (st.tickd, h)
      | none =>
        match st.store.get? i with
        | none => (st.tickd, f) -- dangling edge (excluded by `Denotes`)
        | some n =>
          let r1 := notS p fuel st.tickd n.t
          let ru := notS p fuel r1.1 n.u
          let r0 := notS p fuel ru.1 n.e
          finishS p r0.1 (.not, [f]) n.level r1.2 ru.2 r0.2

/-- `apply_bin::<OP>` -/
def applyS (gt : Edge → Edge → Bool) (tg : BinOp → TDDOp) (p : APolicy) (op : BinOp) :
    Nat → St → Edge → Edge → St × Edge
  | 0, st, f, _ => (st, f)
  | fuel+1, st, f, g =>
    match terminalBinS gt tg op f g with
    | .done h => (st, h)
    | .notOf h => notS p fuel st h
    | .binary tag o1 o2 =>
      -- query apply cache
      match p.get st.tick st.cache (tag, [o1, o2]) with
      | some h => (st.tickd, h)
      | none =>
        match lmin (st.store.level? f) (st.store.level? g) with
        | none => (st.tickd, f) -- two terminals: excluded (`unwrap_inner` would panic)
        | some l =>
          let r1 := applyS gt tg p op fuel st.tickd (st.store.childAt f l .t) (st.store.childAt g l .t)
          let ru := applyS gt tg p op fuel r1.1 (st.store.childAt f l .u) (st.store.childAt g l .u)
          let r0 := applyS gt tg p op fuel ru.1 (st.store.childAt f l .f) (st.store.childAt g l .f)
          finishS p r0.1 (tag, [o1, o2]) l r1.2 ru.2 r0.2

end OxiddModel.Tdd.Refine
