import OxiddModel.Tdd.PropertiesC07RT

/-!
# Negative witnesses for the counter operations of the TDD machine

* `no_free_ownership` — every owned edge has to be paid for by a `retain`: from exact counters, a
  task that starts owning an edge to a stored node *without* a counter increment (a cache hit, a
  terminal case of `terminal_bin` or an early return of `apply_ite_rec` that returns the borrowed
  operand instead of `clone_edge`) makes the counters inexact, for every state and every edge. This
  is the class of defect the `clone_edge` in `Task.rstep` (`call` case) stands for.
* `double_release_breaks` — dually, releasing an edge that is not owned (e.g. `reduce` dropping a
  child a second time, or a guard dropped after `into_edge`) breaks exactness.
-/
namespace OxiddModel.Tdd.Threads
open OxiddModel.Tdd OxiddModel.Tdd.TD OxiddModel.Tdd.Refine OxiddModel.Tdd.Rc

theorem no_free_ownership {r : RSt} {ext : List Edge} (h : RcInv r ext) (k : Nat)
    (n : Node) (hk : r.st.store.get? k = some n) : ¬ RcInv r (.inner k :: ext) := by
  intro h'
  have e1 := h.rc_eq k n hk
  have e2 := h'.rc_eq k n hk
  rw [List.count_cons_self] at e2
  omega

theorem double_release_breaks {r : RSt} {ext : List Edge} (h : RcInv r ext) (k : Nat)
    (n : Node) (hk : r.st.store.get? k = some n) : ¬ RcInv (dropEdge r (.inner k)) ext := by
  intro h'
  have e1 := h.rc_eq k n hk
  have hk' : (dropEdge r (.inner k)).st.store.get? k = some n := by rw [dropEdge_st]; exact hk
  have e2 := h'.rc_eq k n hk'
  rw [dropEdge_st] at e2
  have e3 : rcGet (dropEdge r (.inner k)).rc k = rcGet r.rc k - 1 := by
    simp only [dropEdge]
    rw [rcGet_rcSet]; simp
  omega

/-- non-vacuity on the example state: the node `#3 = ¬x2` -/
example := no_free_ownership exR_rc 3 _ (by decide +kernel :
  exR.st.store.get? 3 = some ⟨2, .term .f, .term .u, .term .t⟩)
example := double_release_breaks exR_rc 3 _ (by decide +kernel :
  exR.st.store.get? 3 = some ⟨2, .term .f, .term .u, .term .t⟩)

end OxiddModel.Tdd.Threads
