import OxiddModel.Tdd.PropertiesC07TT

/-!
# Why the machine's atomicity assumption on `reduce` is needed (negative witness, TDD)

`split_reduce_breaks_unique` — `reduce`'s `get_or_insert` of a ternary node must be **one** atomic
action (the level's mutex in the unique table): if the lookup (`Slots.find?`) and the insertion
(`Slots.alloc`) were two separate actions, two threads computing the same sub-problem could both
look up the same absent node `(level, t, u, e)`, both miss, and then both insert. The store then
holds the same ternary node in two slots: `Unique` (hash consing) is lost, and with it `Inj` — two
*different* edges denote the same tree, so edge equality is no longer function equality (and
`terminal_bin`'s `f == g` tests, the cache keys and `interleaved_inserts_agree` all rest on that).
With the atomic `Slots.intern` (what `Act.mk` / `Store.mkNode` uses) the second thread finds the
node of the first.
-/
namespace OxiddModel.Tdd.Threads
open OxiddModel.Tdd OxiddModel.Tdd.TD OxiddModel.Tdd.Refine OxiddModel.CachePolicy

/-- the (non-redundant) ternary node `x0 ? ¬x2 : x2`, unknown ↦ `x1`, that two threads are about to
create in `exStore` -/
def exNew : Node := ⟨0, .inner 3, .inner 0, .inner 4⟩

/-- the two non-atomic actions of a split `get_or_insert` -/
def lookupNode (s : Store) (n : Node) : Option Nat := Slots.find? s.nodes n
def insertNode (s : Store) (n : Node) : Store × Edge :=
  let r := Slots.alloc s.nodes n
  (⟨r.1⟩, .inner r.2)

/-- the interleaving `lookup₁; lookup₂; insert₁; insert₂` -/
def exSplit : Store := (insertNode (insertNode exStore exNew).1 exNew).1

/-- **`get_or_insert` must be atomic.** Both threads looked the node up (miss), then both insert:
slots 6 and 7 hold the same node; the two edges are different but denote the same tree. Two
*atomic* `reduce`s keep hash consing and return the same edge. -/
theorem split_reduce_breaks_unique :
    exStore.Unique ∧ ¬ (exNew.t = exNew.u ∧ exNew.u = exNew.e) ∧
    lookupNode exStore exNew = none ∧
    -- thread 1 and thread 2 insert
    (insertNode exStore exNew).2 = .inner 6 ∧
    (insertNode (insertNode exStore exNew).1 exNew).2 = .inner 7 ∧
    exSplit.get? 6 = some exNew ∧ exSplit.get? 7 = some exNew ∧
    ¬ exSplit.Unique ∧ ¬ exSplit.Inj ∧
    -- whereas two atomic `reduce`s keep hash consing and return the same edge
    ((exStore.mkNode 0 (.inner 3) (.inner 0) (.inner 4)).1.mkNode 0 (.inner 3) (.inner 0)
      (.inner 4)).1.Unique ∧
    ((exStore.mkNode 0 (.inner 3) (.inner 0) (.inner 4)).1.mkNode 0 (.inner 3) (.inner 0)
      (.inner 4)).2 = (exStore.mkNode 0 (.inner 3) (.inner 0) (.inner 4)).2 := by
  have h6 : exSplit.get? 6 = some exNew := by decide +kernel
  have h7 : exSplit.get? 7 = some exNew := by decide +kernel
  refine ⟨exStore_unique, by decide, by decide +kernel, by decide +kernel, by decide +kernel,
    h6, h7, ?_, ?_, ?_, by decide +kernel⟩
  · intro h
    have := h 6 7 exNew h6 h7
    omega
  · intro h
    have d6 : Denotes exSplit (.inner 6) (.node 0 (.node 2 (.leaf .f) (.leaf .u) (.leaf .t))
        (var 1) (var 2)) := unfold_sound 3 _ _ (by decide +kernel)
    have d7 : Denotes exSplit (.inner 7) (.node 0 (.node 2 (.leaf .f) (.leaf .u) (.leaf .t))
        (var 1) (var 2)) := unfold_sound 3 _ _ (by decide +kernel)
    have := h _ _ _ d6 d7
    cases this
  · exact mkNode_unique _ _ _ _ _ (mkNode_unique _ _ _ _ _ exStore_unique)

end OxiddModel.Tdd.Threads
