import OxiddModel.Tdd.IteS

/-!
# An interleaving machine for the TDD `apply_bin` / `apply_not` / `apply_ite_rec` (ternary nodes)

Counterpart of `Bcdd/Threads.lean` for `crates/oxidd-rules-tdd/src/apply_rec.rs` on the TDD store
model `Store` / `St` of `Tdd/StoreS.lean`.

**The TDD crate has no parallel recursor**: `apply_not`, `apply_bin`, `apply_ite_rec` call
themselves directly, three times in a row (true, unknown, false child); the `mt` module is commented
out (`oxidd-rules-tdd/src/lib.rs`, `oxidd/src/tdd.rs`). Concurrency for TDDs therefore means:
several user threads, each running one *sequential* operation, in one manager under the shared
lock. So a task has no `par` frame and a scheduling decision is just a task id.

## control state of a running operation: `Task`

* `call c` — at the entry of the recursive call `c` (`apply_bin::<OP>(f, g)`, `apply_not(f)` or
  `apply_ite_rec(f, g, h)`);
* `miss c key` — the cache query missed;
* `seq2 fr cu c0 t1` — the call on the true children `t1` is running, the calls on the unknown and
  false children `cu`, `c0` are pending;
* `seq1 fr r1 c0 tu` — true-result `r1` held (`EdgeDropGuard`), unknown-branch `tu` running,
  false-call `c0` pending;
* `seq0 fr r1 ru t0` — both results held, false-branch `t0` running;
* `made key r` — `reduce` done, before `apply_cache().add`;
* `ret r` — finished with result edge `r`.

One step of a task (`Task.step`) performs exactly one atomic action `Act` on the shared state, or a
thread-local transition:

* `Act.cacheGet` — the cache query (`apply_cache().get`), under the bucket lock;
* `Act.mk l t u e` — `reduce`: `if t == u && u == e {return t}`, else `get_or_insert` of the
  **ternary** node under the level's mutex (`Store.mkNode`);
* `Act.cacheAdd key r` — `apply_cache().add`, under the bucket lock.

Reading level and children of operand nodes (`Call.expand`) is local: stored nodes are immutable.
The program text is that of `applyS` / `notS` (`StoreS.lean`) and `iteS` (`IteS.lean`):
`terminal_bin::<OP>` (thread-local: edge comparisons; it may answer with a result, delegate to
`apply_not`, or give the normalised key) resp. the early returns of `apply_ite_rec`
(`iteShortcutS`: a result, or a delegation to `apply_bin::<Or|And|Imp|ImpStrict>` / `apply_not`),
lookup before recursion, the three recursive calls in the order t, u, e, `mkNode`, then add.

## the machine

`Cfg` = shared state + the list of top-level operations (one per user thread); a schedule is a list
of task ids: the named task makes one step. Every interleaving of the atomic actions of all
operations is a schedule, and vice versa.

**Assumptions of the model (not proved here):** the three actions are atomic (level mutex around
`get_or_insert`; bucket lock with `try_lock` for the cache — a failing `try_lock` is a `Policy`
that misses/drops); sequentially consistent memory; no collection and no reordering runs while an
operation is in progress (the manager's shared lock; C07 lock model), so no node is freed.
-/
namespace OxiddModel.Tdd.Threads
open OxiddModel.Tdd OxiddModel.Tdd.TD OxiddModel.Tdd.Refine OxiddModel.CachePolicy

/-! ## calls, frames, tasks -/

/-- a (recursive) call of `apply_bin::<OP>`, of `apply_not` or of `apply_ite_rec` -/
inductive Call where
  | bin (op : BinOp) (f g : Edge)
  | not (f : Edge)
  | ite (f g h : Edge)
deriving DecidableEq, Repr

/-- what a frame keeps across its recursive calls: the cache key and the level of the new node -/
structure Frame where
  key : Key
  lvl : Nat
deriving DecidableEq, Repr

inductive Task where
  | call (c : Call)
  | miss (c : Call) (key : Key)
  | seq2 (fr : Frame) (cu c0 : Call) (t1 : Task)
  | seq1 (fr : Frame) (r1 : Edge) (c0 : Call) (tu : Task)
  | seq0 (fr : Frame) (r1 ru : Edge) (t0 : Task)
  | made (key : Key) (r : Edge)
  | ret (r : Edge)
deriving DecidableEq, Repr

/-- the result of a finished task -/
def Task.ret? : Task → Option Edge
  | .ret r => some r
  | _ => none

/-- the atomic actions on the shared state -/
inductive Act where
  | cacheGet
  | mk (l : Nat) (t u e : Edge)
  | cacheAdd (key : Key) (r : Edge)
deriving DecidableEq, Repr

/-- effect of an action on the shared state; compare `applyS`/`finishS`: a cache access advances
the time stamp, `reduce` changes the store only -/
def Act.run (p : APolicy) : Act → St → St
  | .cacheGet, st => st.tickd
  | .mk l t u e, st => { st with store := (st.store.mkNode l t u e).1 }
  | .cacheAdd key r, st => ⟨st.store, p.add st.tick st.cache key r, st.tick + 1⟩

def runOpt (p : APolicy) : Option Act → St → St
  | some a, st => a.run p st
  | none, st => st

abbrev Out := Option Act × Task

/-- the cache query of a call that is not a terminal case -/
def query (p : APolicy) (st : St) (c : Call) (key : Key) : Out :=
  match p.get st.tick st.cache key with
  | some h => (some .cacheGet, .ret h)
  | none => (some .cacheGet, .miss c key)

/-- entry of a call. `apply_bin`: `terminal_bin::<OP>` (thread-local) answers with a result, with
`Not(h)` (delegation to `apply_not`, a thread-local transition to another call) or with the key
`(tag, [o1, o2])` (operands swapped for the symmetric connectives if `f > g`), then the cache query.
`apply_not`: terminals are negated on the spot, otherwise the cache query.
`apply_ite_rec`: the early returns `iteShortcutS` (thread-local: edge comparisons and terminal
tests) give a result or delegate to `apply_bin` / `apply_not` (a thread-local transition to that
call), otherwise the cache query under the key `(Ite, [f, g, h])`. -/
def Call.entry (gt : Edge → Edge → Bool) (p : APolicy) (st : St) : Call → Out
  | .bin op f g =>
    match terminalBinS gt BinOp.tag op f g with
    | .done h => (none, .ret h)
    | .notOf h => (none, .call (.not h))
    | .binary tag o1 o2 => query p st (.bin op f g) (tag, [o1, o2])
  | .not f =>
    match f with
    | .term v => (none, .ret (.term v.not))
    | .inner _ => query p st (.not f) (.not, [f])
  | .ite f g h =>
    match iteShortcutS f g h with
    | .done r => (none, .ret r)
    | .bin op x y => (none, .call (.bin op x y))
    | .notOf x => (none, .call (.not x))
    | .recurse => query p st (.ite f g h) (.ite, [f, g, h])

/-- after a miss: read levels and children (`collect_children` / `(x, x, x)`), start the call on
the true children; the calls on the unknown and false children are pending -/
def Call.expand (s : Store) (key : Key) : Call → Task
  | .bin op f g =>
    match lmin (s.level? f) (s.level? g) with
    | none => .ret f
    | some l =>
      .seq2 ⟨key, l⟩ (.bin op (s.childAt f l .u) (s.childAt g l .u))
        (.bin op (s.childAt f l .f) (s.childAt g l .f))
        (.call (.bin op (s.childAt f l .t) (s.childAt g l .t)))
  | .not f =>
    match f with
    | .term _ => .ret f
    | .inner i =>
      match s.get? i with
      | none => .ret f
      | some n => .seq2 ⟨key, n.level⟩ (.not n.u) (.not n.e) (.call (.not n.t))
  | .ite f g h =>
    match lmin (lmin (s.level? f) (s.level? g)) (s.level? h) with
    | none => .ret f
    | some l =>
      .seq2 ⟨key, l⟩ (.ite (s.childAt f l .u) (s.childAt g l .u) (s.childAt h l .u))
        (.ite (s.childAt f l .f) (s.childAt g l .f) (s.childAt h l .f))
        (.call (.ite (s.childAt f l .t) (s.childAt g l .t) (s.childAt h l .t)))

/-- `reduce` as one atomic action; the task remembers the edge it got back -/
def reduceOut (st : St) (fr : Frame) (r1 ru r0 : Edge) : Out :=
  (some (.mk fr.lvl r1 ru r0), .made fr.key (st.store.mkNode fr.lvl r1 ru r0).2)

/-- **one step of a task** in shared state `st`. A finished task stutters. -/
def Task.step (gt : Edge → Edge → Bool) (p : APolicy) (st : St) : Task → Out
  | .ret r => (none, .ret r)
  | .call c => c.entry gt p st
  | .miss c key => (none, c.expand st.store key)
  | .seq2 fr cu c0 t1 =>
    match t1.ret? with
    | some r1 => (none, .seq1 fr r1 c0 (.call cu))
    | none => let o := t1.step gt p st; (o.1, .seq2 fr cu c0 o.2)
  | .seq1 fr r1 c0 tu =>
    match tu.ret? with
    | some ru => (none, .seq0 fr r1 ru (.call c0))
    | none => let o := tu.step gt p st; (o.1, .seq1 fr r1 c0 o.2)
  | .seq0 fr r1 ru t0 =>
    match t0.ret? with
    | some r0 => reduceOut st fr r1 ru r0
    | none => let o := t0.step gt p st; (o.1, .seq0 fr r1 ru o.2)
  | .made key r => (some (.cacheAdd key r), .ret r)

/-! ## the machine -/

structure Cfg where
  st : St
  tasks : List Task

/-- a scheduling decision: the task with this id makes one step -/
abbrev Sel := Nat

/-- the selection names a live (existing, unfinished) task -/
def Cfg.enabled (c : Cfg) (s : Sel) : Bool :=
  match c.tasks[s]? with
  | some t => t.ret?.isNone
  | none => false

/-- **one step of the machine**; a selection that is not enabled does nothing -/
def Cfg.step (gt : Edge → Edge → Bool) (p : APolicy) (c : Cfg) (s : Sel) : Cfg :=
  match c.tasks[s]? with
  | none => c
  | some t =>
    match t.ret? with
    | some _ => c
    | none =>
      let o := t.step gt p c.st
      ⟨runOpt p o.1 c.st, c.tasks.set s o.2⟩

def Cfg.run (gt : Edge → Edge → Bool) (p : APolicy) (c : Cfg) : List Sel → Cfg
  | [] => c
  | s :: ss => (c.step gt p s).run gt p ss

def Cfg.allDone (c : Cfg) : Bool := c.tasks.all (fun t => t.ret?.isSome)

/-- every selection of the schedule is enabled when it is taken -/
def Cfg.allEnabled (gt : Edge → Edge → Bool) (p : APolicy) (c : Cfg) : List Sel → Bool
  | [] => true
  | s :: ss => c.enabled s && (c.step gt p s).allEnabled gt p ss

/-- the `made` frame of a task (at most one: the recursion is sequential): the cache entry it is
about to insert -/
def Task.mades : Task → List (Key × Edge)
  | .call _ => []
  | .miss _ _ => []
  | .seq2 _ _ _ t1 => t1.mades
  | .seq1 _ _ _ tu => tu.mades
  | .seq0 _ _ _ t0 => t0.mades
  | .made key r => [(key, r)]
  | .ret _ => []

end OxiddModel.Tdd.Threads
