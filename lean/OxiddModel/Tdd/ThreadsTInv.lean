import OxiddModel.Tdd.ThreadsT

/-!
# The invariant of the TDD interleaving machine and its preservation by every step

`TaskOK gtT s t T n`: in store `s` the task `t` is *computing the tree `T`* and needs at most `n`
more steps of its own: every operand it holds denotes a tree, the frames' keys are sound for what
the frame computes, results already obtained denote the right trees. The predicate is monotone in
the store (`TaskOK.mono`), so steps of *other* tasks — which only extend the store — do not disturb
it; `Task.step_ok` shows that a step of the task itself keeps the shared-state invariant
(`Inv gtT` = hash consing + sound cache, and `NoRed`), extends the store, keeps `TaskOK` for the
same `T` and strictly decreases the bound.

`gtT` is the tree-level edge order in `applyBin gtT` (irrelevant for the value, `applyBin_comm`);
`gt` is the edge order of the manager. Everything holds for all `gt`, `gtT`.
-/
set_option linter.unusedSectionVars false
set_option linter.unusedVariables false

namespace OxiddModel.Tdd.Threads
open OxiddModel.Tdd OxiddModel.Tdd.TD OxiddModel.Tdd.Refine OxiddModel.CachePolicy

/-- bound on the number of own steps of a call whose operand trees have total size `≤ k`
(three recursive calls per level) -/
def W : Nat → Nat
  | 0 => 1
  | k + 1 => 3 * W k + 7

theorem W_pos (k : Nat) : 1 ≤ W k := by
  cases k <;> simp only [W] <;> omega

theorem W_mono {k k' : Nat} (h : k ≤ k') : W k ≤ W k' := by
  induction h with
  | refl => exact Nat.le_refl _
  | step _ ih => simp only [W]; omega

section
variable (gtT : TD → TD → Bool)

/-- the key is sound for a frame that computes `T` -/
def KeyOK (s : Store) (key : Key) (T : TD) : Prop :=
  ∃ ts, DenotesL s key.2 ts ∧ specOf gtT key.1 ts = some T

theorem KeyOK.mono {gtT : TD → TD → Bool} {s s' : Store} (hle : s.Le s') {key : Key} {T : TD}
    (h : KeyOK gtT s key T) : KeyOK gtT s' key T := by
  obtain ⟨ts, h2, h3⟩ := h
  exact ⟨ts, h2.mono hle, h3⟩

/-- the call computes `T`; its operand trees have total size `≤ k` -/
def CallSpec (s : Store) (c : Call) (T : TD) (k : Nat) : Prop :=
  match c with
  | .bin op f g =>
    ∃ a b, Denotes s f a ∧ Denotes s g b ∧ T = applyBin gtT op a b ∧ a.size + b.size ≤ k
  | .not f => ∃ a, Denotes s f a ∧ T = applyNot a ∧ a.size ≤ k
  | .ite f g h =>
    ∃ a b c, Denotes s f a ∧ Denotes s g b ∧ Denotes s h c ∧ T = applyIte gtT a b c ∧
      a.size + b.size + c.size ≤ k

theorem CallSpec.mono {gtT : TD → TD → Bool} {s s' : Store} (hle : s.Le s') {c : Call} {T : TD}
    {k : Nat} (h : CallSpec gtT s c T k) : CallSpec gtT s' c T k := by
  cases c with
  | bin op f g =>
    obtain ⟨a, b, h1, h2, h3, h4⟩ := h
    exact ⟨a, b, h1.mono hle, h2.mono hle, h3, h4⟩
  | not f =>
    obtain ⟨a, h1, h2, h3⟩ := h
    exact ⟨a, h1.mono hle, h2, h3⟩
  | ite f g h' =>
    obtain ⟨a, b, c, h1, h2, h3, h4, h5⟩ := h
    exact ⟨a, b, c, h1.mono hle, h2.mono hle, h3.mono hle, h4, h5⟩

/-- after the miss: no terminal case applies, the key is sound -/
def MissSpec (s : Store) (c : Call) (key : Key) (T : TD) (k : Nat) : Prop :=
  match c with
  | .bin op f g =>
    ∃ a b tag x y, Denotes s f a ∧ Denotes s g b ∧ terminalBin gtT op a b = .binary tag x y ∧
      T = applyBin gtT op a b ∧ a.size + b.size ≤ k + 1 ∧ KeyOK gtT s key T
  | .not f =>
    ∃ a, Denotes s f a ∧ a.level ≠ none ∧ T = applyNot a ∧ a.size ≤ k + 1 ∧ KeyOK gtT s key T
  | .ite f g h =>
    ∃ a b c, Denotes s f a ∧ Denotes s g b ∧ Denotes s h c ∧ iteShortcut gtT a b c = none ∧
      T = applyIte gtT a b c ∧ a.size + b.size + c.size ≤ k + 1 ∧ KeyOK gtT s key T

theorem MissSpec.mono {gtT : TD → TD → Bool} {s s' : Store} (hle : s.Le s') {c : Call} {key : Key}
    {T : TD} {k : Nat} (h : MissSpec gtT s c key T k) : MissSpec gtT s' c key T k := by
  cases c with
  | bin op f g =>
    obtain ⟨a, b, tag, x, y, h1, h2, h3, h4, h5, h6⟩ := h
    exact ⟨a, b, tag, x, y, h1.mono hle, h2.mono hle, h3, h4, h5, h6.mono hle⟩
  | not f =>
    obtain ⟨a, h1, h2, h3, h4, h5⟩ := h
    exact ⟨a, h1.mono hle, h2, h3, h4, h5.mono hle⟩
  | ite f g h' =>
    obtain ⟨a, b, c, h1, h2, h3, h4, h5, h6, h7⟩ := h
    exact ⟨a, b, c, h1.mono hle, h2.mono hle, h3.mono hle, h4, h5, h6, h7.mono hle⟩

inductive TaskOK (s : Store) : Task → TD → Nat → Prop
  | ret {r T n} : Denotes s r T → TaskOK s (.ret r) T n
  | call {c T k n} : CallSpec gtT s c T k → W k ≤ n → TaskOK s (.call c) T n
  | miss {c key T k n} : MissSpec gtT s c key T k → 3 * W k + 5 ≤ n → TaskOK s (.miss c key) T n
  | seq2 {fr cu c0 t1 T T1 Tu T0 ku k0 n1 n} : T = mk fr.lvl T1 Tu T0 → KeyOK gtT s fr.key T →
      CallSpec gtT s cu Tu ku → CallSpec gtT s c0 T0 k0 → TaskOK s t1 T1 n1 →
      n1 + W ku + W k0 + 4 ≤ n → TaskOK s (.seq2 fr cu c0 t1) T n
  | seq1 {fr r1 c0 tu T T1 Tu T0 k0 nu n} : T = mk fr.lvl T1 Tu T0 → KeyOK gtT s fr.key T →
      Denotes s r1 T1 → CallSpec gtT s c0 T0 k0 → TaskOK s tu Tu nu →
      nu + W k0 + 3 ≤ n → TaskOK s (.seq1 fr r1 c0 tu) T n
  | seq0 {fr r1 ru t0 T T1 Tu T0 n0 n} : T = mk fr.lvl T1 Tu T0 → KeyOK gtT s fr.key T →
      Denotes s r1 T1 → Denotes s ru Tu → TaskOK s t0 T0 n0 → n0 + 2 ≤ n →
      TaskOK s (.seq0 fr r1 ru t0) T n
  | made {key r T n} : KeyOK gtT s key T → Denotes s r T → 1 ≤ n → TaskOK s (.made key r) T n

end

variable {gtT : TD → TD → Bool}

theorem TaskOK.mono {s s' : Store} (hle : s.Le s') {t : Task} {T : TD} {n : Nat}
    (h : TaskOK gtT s t T n) : TaskOK gtT s' t T n := by
  induction h with
  | ret h => exact .ret (h.mono hle)
  | call h hn => exact .call (h.mono hle) hn
  | miss h hn => exact .miss (h.mono hle) hn
  | seq2 hT hk hcu hc0 _ hn ih => exact .seq2 hT (hk.mono hle) (hcu.mono hle) (hc0.mono hle) ih hn
  | seq1 hT hk hr hc0 _ hn ih => exact .seq1 hT (hk.mono hle) (hr.mono hle) (hc0.mono hle) ih hn
  | seq0 hT hk hr1 hru _ hn ih => exact .seq0 hT (hk.mono hle) (hr1.mono hle) (hru.mono hle) ih hn
  | made hk hr hn => exact .made (hk.mono hle) (hr.mono hle) hn

theorem TaskOK.weaken {s : Store} {t : Task} {T : TD} {n n' : Nat}
    (h : TaskOK gtT s t T n) (hn : n ≤ n') : TaskOK gtT s t T n' := by
  cases h with
  | ret h => exact .ret h
  | call h h' => exact .call h (by omega)
  | miss h h' => exact .miss h (by omega)
  | seq2 hT hk hcu hc0 h1 h' => exact .seq2 hT hk hcu hc0 h1 (by omega)
  | seq1 hT hk hr hc0 hu h' => exact .seq1 hT hk hr hc0 hu (by omega)
  | seq0 hT hk hr1 hru h0 h' => exact .seq0 hT hk hr1 hru h0 (by omega)
  | made hk hr h' => exact .made hk hr (by omega)

/-- a finished task holds the edge of its tree -/
theorem TaskOK.ret_den {s : Store} {t : Task} {T : TD} {n : Nat} {r : Edge}
    (h : TaskOK gtT s t T n) (hr : t.ret? = some r) : Denotes s r T := by
  cases h <;> simp only [Task.ret?] at hr <;> (try cases hr)
  assumption

/-! ## the actions keep the shared-state invariant -/

/-- what a step guarantees about the shared state -/
structure StOK (gtT : TD → TD → Bool) (st st' : St) : Prop where
  inv : Inv gtT st'
  le : st.store.Le st'.store
  nored : st.store.NoRed → st'.store.NoRed

theorem StOK.refl {st : St} (h : Inv gtT st) : StOK gtT st st := ⟨h, Store.Le.refl _, id⟩

theorem StOK.tickd {st : St} (h : Inv gtT st) : StOK gtT st st.tickd :=
  ⟨h.tickd, Store.Le.refl _, id⟩

theorem StOK.mkNode {st : St} (h : Inv gtT st) (l : Nat) (t u e : Edge) (p : APolicy) :
    StOK gtT st ((Act.mk l t u e).run p st) :=
  ⟨⟨mkNode_unique _ _ _ _ _ h.1, h.2.mono (mkNode_le _ _ _ _ _)⟩, mkNode_le _ _ _ _ _,
    fun hr => mkNode_nored _ _ _ _ _ hr⟩

theorem StOK.add {p : APolicy} (pok : p.OK) {st : St} (h : Inv gtT st) {key : Key} {r : Edge}
    {T : TD} (hk : KeyOK gtT st.store key T) (hr : Denotes st.store r T) :
    StOK gtT st ((Act.cacheAdd key r).run p st) := by
  refine ⟨⟨h.1, ?_⟩, Store.Le.refl _, id⟩
  obtain ⟨ts, h2, h3⟩ := hk
  exact CacheOK.add pok h.2 ⟨ts, T, h2, h3, hr⟩ _

/-! ## entry and expansion of a call -/

/-- the result of a step: new shared state fine, task still computing `T`, bound decreased -/
def StepOK (gtT : TD → TD → Bool) (p : APolicy) (st : St) (o : Out) (T : TD) (n : Nat) : Prop :=
  StOK gtT st (runOpt p o.1 st) ∧ ∃ n', n' < n ∧ TaskOK gtT (runOpt p o.1 st).store o.2 T n'

theorem entry_ok_not {p : APolicy} (pok : p.OK) {st : St} (hinv : Inv gtT st) (gt : Edge → Edge → Bool)
    {f : Edge} {a : TD} {k n : Nat} (hf : Denotes st.store f a) (hsz : a.size ≤ k) (hn : W k ≤ n) :
    StepOK gtT p st ((Call.not f).entry gt p st) (applyNot a) n := by
  have hW := W_pos k
  cases hf with
  | @term x => exact ⟨StOK.refl hinv, 0, by omega, .ret .term⟩
  | @inner i l t u e tt tu te hi hft hfu hfe =>
    have hdf : Denotes st.store (.inner i) (.node l tt tu te) := .inner hi hft hfu hfe
    simp only [Call.entry, query]
    split
    · rename_i r hr
      have hent := hinv.2 _ _ (pok.get_mem _ _ _ _ hr)
      exact ⟨StOK.tickd hinv, 0, by omega, .ret (hent.hit (DenotesL.one hdf) rfl)⟩
    · refine ⟨StOK.tickd hinv, ?_⟩
      cases k with
      | zero => simp only [TD.size] at hsz; omega
      | succ k' =>
        refine ⟨3 * W k' + 5, by simp only [W] at hn; omega, ?_⟩
        exact .miss ⟨_, hdf, by simp [TD.level], rfl, hsz, ⟨_, DenotesL.one hdf, rfl⟩⟩
          (Nat.le_refl _)

theorem entry_ok_bin {p : APolicy} (pok : p.OK) {st : St} (hinv : Inv gtT st)
    (gt : Edge → Edge → Bool) {op : BinOp} {f g : Edge} {a b : TD} {k n : Nat}
    (hf : Denotes st.store f a) (hg : Denotes st.store g b) (hsz : a.size + b.size ≤ k)
    (hn : W k ≤ n) :
    StepOK gtT p st ((Call.bin op f g).entry gt p st) (applyBin gtT op a b) n := by
  have hinj := inj_of_unique hinv.1
  have hc := terminalBinS_corr gt gtT BinOp.tag op hinj hf hg
  have hW := W_pos k
  have hsa := size_pos a
  have hsb := size_pos b
  simp only [Call.entry]
  cases hS : terminalBinS gt BinOp.tag op f g with
  | done e =>
    cases hT : terminalBin gtT op a b with
    | done t =>
      rw [hS, hT] at hc
      rw [applyBin_done hT]
      exact ⟨StOK.refl hinv, 0, by omega, .ret hc⟩
    | not t => rw [hS, hT] at hc; exact hc.elim
    | binary o x y => rw [hS, hT] at hc; exact hc.elim
  | notOf e =>
    cases hT : terminalBin gtT op a b with
    | done t => rw [hS, hT] at hc; exact hc.elim
    | not t =>
      rw [hS, hT] at hc
      rw [applyBin_not hT]
      have hsh := terminalBin_shape gtT op a b
      rw [hT] at hsh
      cases k with
      | zero => omega
      | succ k' =>
        have : t.size ≤ k' := by
          rcases hsh with h | h <;> subst h <;> omega
        have hW' := W_pos k'
        exact ⟨StOK.refl hinv, W k', by simp only [W] at hn; omega,
          .call ⟨t, hc, rfl, this⟩ (Nat.le_refl _)⟩
    | binary o x y => rw [hS, hT] at hc; exact hc.elim
  | binary tag o1 o2 =>
    cases hT : terminalBin gtT op a b with
    | done t => rw [hS, hT] at hc; exact hc.elim
    | not t => rw [hS, hT] at hc; exact hc.elim
    | binary o x y =>
      rw [hS, hT] at hc
      obtain ⟨htag, hkey⟩ := hc
      subst htag
      have hkd : KeyOK gtT st.store (op.tag, [o1, o2]) (applyBin gtT op a b) := by
        rcases hkey with ⟨h1, h2⟩ | ⟨hcm, h1, h2⟩
        · subst h1 h2; exact ⟨_, DenotesL.two hf hg, specOf_tag gtT op a b⟩
        · subst h1 h2
          exact ⟨_, DenotesL.two hg hf, by
            rw [specOf_tag, applyBin_comm gtT gtT op hcm _ a b (Nat.le_refl _)]⟩
      simp only [query]
      split
      · rename_i r hr
        have hent := hinv.2 _ _ (pok.get_mem _ _ _ _ hr)
        obtain ⟨ts, hd, hs⟩ := hkd
        exact ⟨StOK.tickd hinv, 0, by omega, .ret (hent.hit hd hs)⟩
      · refine ⟨StOK.tickd hinv, ?_⟩
        cases k with
        | zero => omega
        | succ k' =>
          refine ⟨3 * W k' + 5, by simp only [W] at hn; omega, ?_⟩
          exact .miss ⟨a, b, o, x, y, hf, hg, hT, rfl, hsz, hkd⟩ (Nat.le_refl _)

theorem entry_ok_ite {p : APolicy} (pok : p.OK) {st : St} (hinv : Inv gtT st)
    (gt : Edge → Edge → Bool) {f g h : Edge} {a b c : TD} {k n : Nat}
    (hf : Denotes st.store f a) (hg : Denotes st.store g b) (hh : Denotes st.store h c)
    (hsz : a.size + b.size + c.size ≤ k) (hn : W k ≤ n) :
    StepOK gtT p st ((Call.ite f g h).entry gt p st) (applyIte gtT a b c) n := by
  have hinj := inj_of_unique hinv.1
  have hc := iteShortcutS_corr gtT hinj hf hg hh
  have hsa := size_pos a
  have hsb := size_pos b
  have hsc := size_pos c
  cases k with
  | zero => omega
  | succ k' =>
  have hW' := W_pos k'
  simp only [W] at hn
  simp only [Call.entry]
  cases hS : iteShortcutS f g h with
  | done e =>
    cases hT : iteShortcut gtT a b c with
    | none => rw [hS, hT] at hc; exact hc.elim
    | some t =>
      rw [hS, hT] at hc
      rw [applyIte_shortcut hT]
      exact ⟨StOK.refl hinv, 0, by omega, .ret hc⟩
  | bin op x y =>
    cases hT : iteShortcut gtT a b c with
    | none => rw [hS, hT] at hc; exact hc.elim
    | some t =>
      rw [hS, hT] at hc
      obtain ⟨tx, ty, hx, hy, rfl, hlt⟩ := hc
      rw [applyIte_shortcut hT]
      exact ⟨StOK.refl hinv, W k', by omega,
        .call (k := k') ⟨tx, ty, hx, hy, rfl, by omega⟩ (Nat.le_refl _)⟩
  | notOf x =>
    cases hT : iteShortcut gtT a b c with
    | none => rw [hS, hT] at hc; exact hc.elim
    | some t =>
      rw [hS, hT] at hc
      obtain ⟨rfl, rfl⟩ := hc
      rw [applyIte_shortcut hT]
      exact ⟨StOK.refl hinv, W k', by omega,
        .call (k := k') ⟨a, hf, rfl, by omega⟩ (Nat.le_refl _)⟩
  | recurse =>
    cases hT : iteShortcut gtT a b c with
    | some t => rw [hS, hT] at hc; exact hc.elim
    | none =>
      have hkd : KeyOK gtT st.store (.ite, [f, g, h]) (applyIte gtT a b c) :=
        ⟨_, DenotesL.three hf hg hh, rfl⟩
      simp only [query]
      split
      · rename_i r hr
        have hent := hinv.2 _ _ (pok.get_mem _ _ _ _ hr)
        exact ⟨StOK.tickd hinv, 0, by omega, .ret (hent.hit (DenotesL.three hf hg hh) rfl)⟩
      · exact ⟨StOK.tickd hinv, 3 * W k' + 5, by omega,
          .miss ⟨a, b, c, hf, hg, hh, hT, rfl, hsz, hkd⟩ (Nat.le_refl _)⟩

theorem entry_ok {p : APolicy} (pok : p.OK) {st : St} (hinv : Inv gtT st) (gt : Edge → Edge → Bool)
    {c : Call} {T : TD} {k n : Nat} (hc : CallSpec gtT st.store c T k) (hn : W k ≤ n) :
    StepOK gtT p st (c.entry gt p st) T n := by
  cases c with
  | bin op f g =>
    obtain ⟨a, b, hf, hg, hT, hsz⟩ := hc
    subst hT
    exact entry_ok_bin pok hinv gt hf hg hsz hn
  | not f =>
    obtain ⟨a, hf, hT, hsz⟩ := hc
    subst hT
    exact entry_ok_not pok hinv gt hf hsz hn
  | ite f g h =>
    obtain ⟨a, b, c, hf, hg, hh, hT, hsz⟩ := hc
    subst hT
    exact entry_ok_ite pok hinv gt hf hg hh hsz hn

theorem expand_ok {s : Store} {c : Call} {key : Key} {T : TD} {k : Nat}
    (hm : MissSpec gtT s c key T k) : TaskOK gtT s (c.expand s key) T (3 * W k + 4) := by
  cases c with
  | bin op f g =>
    obtain ⟨a, b, tag, x, y, hf, hg, hT, hTe, hsz, hkey⟩ := hm
    simp only [Call.expand]
    cases hl : lmin a.level b.level with
    | none => exact absurd hl (terminalBin_binary_not_leaves hT)
    | some l =>
      rw [level?_denotes hf, level?_denotes hg, hl]
      simp only
      have sz : ∀ c, (childAt a l c).size + (childAt b l c).size ≤ k := by
        intro c
        have := childAt_size_le a l c; have := childAt_size_le b l c
        rcases lmin_eq_some hl with h | h
        · have := childAt_size_lt a l c h; omega
        · have := childAt_size_lt b l c h; omega
      refine .seq2 (T1 := applyBin gtT op (childAt a l .t) (childAt b l .t))
        (Tu := applyBin gtT op (childAt a l .u) (childAt b l .u))
        (T0 := applyBin gtT op (childAt a l .f) (childAt b l .f)) (ku := k) (k0 := k) (n1 := W k)
        ?_ hkey ?_ ?_ (.call ?_ (Nat.le_refl _)) (by omega)
      · rw [hTe, applyBin_binary hT hl]
      · exact ⟨_, _, childAt_denotes l .u hf, childAt_denotes l .u hg, rfl, sz .u⟩
      · exact ⟨_, _, childAt_denotes l .f hf, childAt_denotes l .f hg, rfl, sz .f⟩
      · exact ⟨_, _, childAt_denotes l .t hf, childAt_denotes l .t hg, rfl, sz .t⟩
  | not f =>
    obtain ⟨a, hf, hlv, hTe, hsz, hkey⟩ := hm
    cases hf with
    | term => exact absurd rfl hlv
    | @inner i l t u e tt tu te hi hft hfu hfe =>
      simp only [Call.expand, hi]
      simp only [TD.size] at hsz
      refine .seq2 (T1 := applyNot tt) (Tu := applyNot tu) (T0 := applyNot te) (ku := k) (k0 := k)
        (n1 := W k) ?_ hkey ?_ ?_ (.call ?_ (Nat.le_refl _)) (by omega)
      · rw [hTe]; rfl
      · exact ⟨_, hfu, rfl, by omega⟩
      · exact ⟨_, hfe, rfl, by omega⟩
      · exact ⟨_, hft, rfl, by omega⟩
  | ite f g h =>
    obtain ⟨a, b, c, hf, hg, hh, hT, hTe, hsz, hkey⟩ := hm
    simp only [Call.expand]
    cases hl : lmin (lmin a.level b.level) c.level with
    | none => exact absurd hl (iteShortcut_none_not_leaves hT)
    | some l =>
      rw [level?_denotes hf, level?_denotes hg, level?_denotes hh, hl]
      simp only
      have sz := ite_child_sizes hl
      refine .seq2
        (T1 := applyIte gtT (childAt a l .t) (childAt b l .t) (childAt c l .t))
        (Tu := applyIte gtT (childAt a l .u) (childAt b l .u) (childAt c l .u))
        (T0 := applyIte gtT (childAt a l .f) (childAt b l .f) (childAt c l .f))
        (ku := k) (k0 := k) (n1 := W k) ?_ hkey ?_ ?_ (.call ?_ (Nat.le_refl _)) (by omega)
      · rw [hTe, applyIte_rec hT hl]
      · exact ⟨_, _, _, childAt_denotes l .u hf, childAt_denotes l .u hg, childAt_denotes l .u hh,
          rfl, by have := sz .u; omega⟩
      · exact ⟨_, _, _, childAt_denotes l .f hf, childAt_denotes l .f hg, childAt_denotes l .f hh,
          rfl, by have := sz .f; omega⟩
      · exact ⟨_, _, _, childAt_denotes l .t hf, childAt_denotes l .t hg, childAt_denotes l .t hh,
          rfl, by have := sz .t; omega⟩

theorem reduce_ok {p : APolicy} {st : St} (hinv : Inv gtT st) {fr : Frame} {r1 ru r0 : Edge}
    {T T1 Tu T0 : TD} {n : Nat} (hT : T = mk fr.lvl T1 Tu T0) (hk : KeyOK gtT st.store fr.key T)
    (h1 : Denotes st.store r1 T1) (hu : Denotes st.store ru Tu) (h0 : Denotes st.store r0 T0)
    (hn : 2 ≤ n) : StepOK gtT p st (reduceOut st fr r1 ru r0) T n := by
  refine ⟨StOK.mkNode hinv _ _ _ _ p, 1, by omega, ?_⟩
  subst hT
  exact .made (hk.mono (mkNode_le _ _ _ _ _))
    (mkNode_denotes st.store fr.lvl r1 ru r0 T1 Tu T0 h1 hu h0 (inj_of_unique hinv.1))
    (Nat.le_refl _)

/-! ## every step of a task keeps everything -/

theorem Task.step_ok {p : APolicy} (pok : p.OK) (gt : Edge → Edge → Bool) {st : St}
    (hinv : Inv gtT st) {t : Task} {T : TD} {n : Nat} (h : TaskOK gtT st.store t T n) :
    t.ret? = none → StepOK gtT p st (t.step gt p st) T n := by
  induction h with
  | ret h => intro hr; simp [Task.ret?] at hr
  | call hc hn => intro _; exact entry_ok pok hinv gt hc hn
  | @miss c key T k n hm hn =>
    intro _
    exact ⟨StOK.refl hinv, 3 * W k + 4, by omega, expand_ok hm⟩
  | @seq2 fr cu c0 t1 T T1 Tu T0 ku k0 n1 n hT hk hcu hc0 h1 hn ih =>
    intro _
    simp only [Task.step]
    cases hr : t1.ret? with
    | some r1 =>
      simp only
      refine ⟨StOK.refl hinv, W ku + W k0 + 3, by omega, ?_⟩
      exact .seq1 hT hk (h1.ret_den hr) hc0 (.call hcu (Nat.le_refl _)) (Nat.le_refl _)
    | none =>
      simp only
      obtain ⟨hst, n', hlt, hok⟩ := ih hr
      exact ⟨hst, n' + W ku + W k0 + 4, by omega,
        .seq2 hT (hk.mono hst.le) (hcu.mono hst.le) (hc0.mono hst.le) hok (Nat.le_refl _)⟩
  | @seq1 fr r1 c0 tu T T1 Tu T0 k0 nu n hT hk hr1 hc0 hu hn ih =>
    intro _
    simp only [Task.step]
    cases hr : tu.ret? with
    | some ru =>
      simp only
      refine ⟨StOK.refl hinv, W k0 + 2, by omega, ?_⟩
      exact .seq0 hT hk hr1 (hu.ret_den hr) (.call hc0 (Nat.le_refl _)) (Nat.le_refl _)
    | none =>
      simp only
      obtain ⟨hst, n', hlt, hok⟩ := ih hr
      exact ⟨hst, n' + W k0 + 3, by omega,
        .seq1 hT (hk.mono hst.le) (hr1.mono hst.le) (hc0.mono hst.le) hok (Nat.le_refl _)⟩
  | @seq0 fr r1 ru t0 T T1 Tu T0 n0 n hT hk hr1 hru h0 hn ih =>
    intro _
    simp only [Task.step]
    cases hr : t0.ret? with
    | some r0 =>
      simp only
      exact reduce_ok hinv hT hk hr1 hru (h0.ret_den hr) (by omega)
    | none =>
      simp only
      obtain ⟨hst, n', hlt, hok⟩ := ih hr
      exact ⟨hst, n' + 2, by omega,
        .seq0 hT (hk.mono hst.le) (hr1.mono hst.le) (hru.mono hst.le) hok (Nat.le_refl _)⟩
  | @made key r T n hk hr hn =>
    intro _
    simp only [Task.step]
    exact ⟨StOK.add pok hinv hk hr, 0, by omega, .ret hr⟩

end OxiddModel.Tdd.Threads
