import OxiddModel.Tdd.PropertiesC07TT

/-!
# A TDD task running alone *is* `applyS` / `notS` / `iteS`

The program text of the machine (`ThreadsT.lean`) is meant to be that of the store-level model
`applyS` / `notS` (`StoreS.lean`), which the store-level streams tie to the real code. This file
proves it: a task `call (bin op f g)` that is the only one scheduled goes, step by step, through
exactly the shared states of `applyS gt BinOp.tag p op fuel st f g` and ends in `ret` of exactly its
result edge — same store (slot for slot), same cache, same time stamp, same edge; likewise
`call (not f)` and `notS`, `call (ite f g h)` and `iteS`. So the interleaving theorems of `PropertiesC07TT.lean` are statements
about a machine whose sequential instance coincides with the model that is compared with the code.
-/
set_option linter.unusedSectionVars false
set_option linter.unusedVariables false

namespace OxiddModel.Tdd.Threads
open OxiddModel.Tdd OxiddModel.Tdd.TD OxiddModel.Tdd.Refine OxiddModel.CachePolicy

/-- one step of a task running alone -/
def step1 (gt : Edge → Edge → Bool) (p : APolicy) (x : Task × St) : Task × St :=
  ((x.1.step gt p x.2).2, runOpt p (x.1.step gt p x.2).1 x.2)

/-- finitely many steps of an unfinished task running alone -/
inductive Steps (gt : Edge → Edge → Bool) (p : APolicy) : Task × St → Task × St → Prop
  | refl (x) : Steps gt p x x
  | step {x y} : x.1.ret? = none → Steps gt p (step1 gt p x) y → Steps gt p x y

variable {gt : Edge → Edge → Bool} {p : APolicy}

theorem Steps.trans {x y z : Task × St} (h1 : Steps gt p x y) (h2 : Steps gt p y z) :
    Steps gt p x z := by
  induction h1 with
  | refl => exact h2
  | step hr _ ih => exact .step hr (ih h2)

theorem Steps.one {x : Task × St} (hr : x.1.ret? = none) : Steps gt p x (step1 gt p x) :=
  .step hr (.refl _)

/-- steps of the true-branch are steps of the `seq2` frame -/
theorem Steps.seq2 (fr : Frame) (cu c0 : Call) {x y : Task × St} (h : Steps gt p x y) :
    Steps gt p (.seq2 fr cu c0 x.1, x.2) (.seq2 fr cu c0 y.1, y.2) := by
  induction h with
  | refl => exact .refl _
  | @step x y hr _ ih =>
    refine .step rfl ?_
    have : step1 gt p (.seq2 fr cu c0 x.1, x.2) =
        (.seq2 fr cu c0 (step1 gt p x).1, (step1 gt p x).2) := by
      simp only [step1, Task.step, hr]
    rw [this]; exact ih

theorem Steps.seq1 (fr : Frame) (r1 : Edge) (c0 : Call) {x y : Task × St} (h : Steps gt p x y) :
    Steps gt p (.seq1 fr r1 c0 x.1, x.2) (.seq1 fr r1 c0 y.1, y.2) := by
  induction h with
  | refl => exact .refl _
  | @step x y hr _ ih =>
    refine .step rfl ?_
    have : step1 gt p (.seq1 fr r1 c0 x.1, x.2) =
        (.seq1 fr r1 c0 (step1 gt p x).1, (step1 gt p x).2) := by
      simp only [step1, Task.step, hr]
    rw [this]; exact ih

theorem Steps.seq0 (fr : Frame) (r1 ru : Edge) {x y : Task × St} (h : Steps gt p x y) :
    Steps gt p (.seq0 fr r1 ru x.1, x.2) (.seq0 fr r1 ru y.1, y.2) := by
  induction h with
  | refl => exact .refl _
  | @step x y hr _ ih =>
    refine .step rfl ?_
    have : step1 gt p (.seq0 fr r1 ru x.1, x.2) =
        (.seq0 fr r1 ru (step1 gt p x).1, (step1 gt p x).2) := by
      simp only [step1, Task.step, hr]
    rw [this]; exact ih

/-- a whole frame: the three recursive calls one after the other, `reduce`, cache add — the
machine's `seq2 → seq1 → seq0 → made → ret` is `finishS` after the three runs -/
theorem frame_steps {key : Key} {l : Nat} {c1 cu c0 : Call} {S : St} {R1 Ru R0 : St × Edge}
    (s1 : Steps gt p (.call c1, S) (.ret R1.2, R1.1))
    (su : Steps gt p (.call cu, R1.1) (.ret Ru.2, Ru.1))
    (s0 : Steps gt p (.call c0, Ru.1) (.ret R0.2, R0.1)) :
    Steps gt p (.seq2 ⟨key, l⟩ cu c0 (.call c1), S)
      (.ret (finishS p R0.1 key l R1.2 Ru.2 R0.2).2, (finishS p R0.1 key l R1.2 Ru.2 R0.2).1) := by
  refine (Steps.seq2 _ _ _ s1).trans ?_
  refine .step rfl ?_
  have e4 : step1 gt p (.seq2 ⟨key, l⟩ cu c0 (.ret R1.2), R1.1) =
      (.seq1 ⟨key, l⟩ R1.2 c0 (.call cu), R1.1) := by
    simp only [step1, Task.step, Task.ret?, runOpt]
  rw [e4]
  refine (Steps.seq1 _ _ _ su).trans ?_
  refine .step rfl ?_
  have e5 : step1 gt p (.seq1 ⟨key, l⟩ R1.2 c0 (.ret Ru.2), Ru.1) =
      (.seq0 ⟨key, l⟩ R1.2 Ru.2 (.call c0), Ru.1) := by
    simp only [step1, Task.step, Task.ret?, runOpt]
  rw [e5]
  refine (Steps.seq0 _ _ _ s0).trans ?_
  refine .step rfl ?_
  have e6 : step1 gt p (.seq0 ⟨key, l⟩ R1.2 Ru.2 (.ret R0.2), R0.1) =
      (.made key (R0.1.store.mkNode l R1.2 Ru.2 R0.2).2,
       { R0.1 with store := (R0.1.store.mkNode l R1.2 Ru.2 R0.2).1 }) := by
    simp only [step1, Task.step, Task.ret?, reduceOut, runOpt, Act.run]
  rw [e6]
  refine .step rfl ?_
  have e7 : step1 gt p (.made key (R0.1.store.mkNode l R1.2 Ru.2 R0.2).2,
       { R0.1 with store := (R0.1.store.mkNode l R1.2 Ru.2 R0.2).1 }) =
      (.ret (finishS p R0.1 key l R1.2 Ru.2 R0.2).2, (finishS p R0.1 key l R1.2 Ru.2 R0.2).1) := by
    simp only [step1, Task.step, runOpt, Act.run, finishS]
  rw [e7]
  exact .refl _

/-- **the machine's sequential instance of `apply_not` is `notS`** -/
theorem steps_notS (gt : Edge → Edge → Bool) (gtT : TD → TD → Bool) {p : APolicy} (pok : p.OK)
    (fuel : Nat) : ∀ (st : St) (f : Edge) (a : TD),
    Inv gtT st → Denotes st.store f a → a.size ≤ fuel →
    Steps gt p (.call (.not f), st) (.ret (notS p fuel st f).2, (notS p fuel st f).1) := by
  induction fuel with
  | zero =>
    intro st f a _ _ hsz
    have := size_pos a
    omega
  | succ fuel ih =>
    intro st f a hinv hf hsz
    cases hf with
    | @term x =>
      have e1 : step1 gt p (.call (.not (.term x)), st) = (.ret (.term x.not), st) := by
        simp only [step1, Task.step, Call.entry, runOpt]
      have e2 : notS p (fuel + 1) st (.term x) = (st, .term x.not) := by simp only [notS]
      rw [e2, ← e1]; exact Steps.one rfl
    | @inner i l t u e tt tu te hi hft hfu hfe =>
      cases hget : p.get st.tick st.cache (.not, [.inner i]) with
      | some r =>
        have e1 : step1 gt p (.call (.not (.inner i)), st) = (.ret r, st.tickd) := by
          simp only [step1, Task.step, Call.entry, query, hget, runOpt, Act.run]
        have e2 : notS p (fuel + 1) st (.inner i) = (st.tickd, r) := by
          simp only [notS, hget]
        rw [e2, ← e1]; exact Steps.one rfl
      | none =>
        simp only [TD.size] at hsz
        have p1 := notS_spec gtT pok fuel st.tickd t tt hinv.tickd hft (by omega)
        have pu := notS_spec gtT pok fuel _ u tu p1.inv (hfu.mono p1.le) (by omega)
        have s1 := ih st.tickd t tt hinv.tickd hft (by omega)
        have su := ih _ u tu p1.inv (hfu.mono p1.le) (by omega)
        have s0 := ih _ e te pu.inv (hfe.mono (p1.le.trans pu.le)) (by omega)
        simp only [notS, hget, hi]
        have e1 : step1 gt p (.call (.not (.inner i)), st) =
            (.miss (.not (.inner i)) (.not, [.inner i]), st.tickd) := by
          simp only [step1, Task.step, Call.entry, query, hget, runOpt, Act.run]
        refine .step rfl ?_
        rw [e1]
        have e3 : step1 gt p (.miss (.not (.inner i)) (.not, [.inner i]), st.tickd) =
            (.seq2 ⟨(.not, [.inner i]), l⟩ (.not u) (.not e) (.call (.not t)), st.tickd) := by
          simp only [step1, Task.step, Call.expand, St.tickd_store, hi, runOpt]
        refine .step rfl ?_
        rw [e3]
        exact frame_steps s1 su s0

/-- **the machine's sequential instance of `apply_bin::<OP>` is `applyS`** -/
theorem steps_applyS (gt : Edge → Edge → Bool) (gtT : TD → TD → Bool) {p : APolicy} (pok : p.OK)
    (op : BinOp) (fuel : Nat) : ∀ (st : St) (f g : Edge) (a b : TD),
    Inv gtT st → Denotes st.store f a → Denotes st.store g b → a.size + b.size ≤ fuel →
    Steps gt p (.call (.bin op f g), st)
      (.ret (applyS gt BinOp.tag p op fuel st f g).2, (applyS gt BinOp.tag p op fuel st f g).1) := by
  induction fuel with
  | zero =>
    intro st f g a b _ _ _ hsz
    have := size_pos a
    omega
  | succ fuel ih =>
    intro st f g a b hinv hf hg hsz
    have hinj := inj_of_unique hinv.1
    have hc := terminalBinS_corr gt gtT BinOp.tag op hinj hf hg
    have hsa := size_pos a
    have hsb := size_pos b
    cases hS : terminalBinS gt BinOp.tag op f g with
    | done e =>
      have e1 : step1 gt p (.call (.bin op f g), st) = (.ret e, st) := by
        simp only [step1, Task.step, Call.entry, hS, runOpt]
      have e2 : applyS gt BinOp.tag p op (fuel + 1) st f g = (st, e) := by simp only [applyS, hS]
      rw [e2, ← e1]; exact Steps.one rfl
    | notOf e =>
      cases hT : terminalBin gtT op a b with
      | done t => rw [hS, hT] at hc; exact hc.elim
      | binary o x y => rw [hS, hT] at hc; exact hc.elim
      | not t =>
        rw [hS, hT] at hc
        have hsh := terminalBin_shape gtT op a b
        rw [hT] at hsh
        have : t.size ≤ fuel := by
          rcases hsh with h | h <;> subst h <;> omega
        have e1 : step1 gt p (.call (.bin op f g), st) = (.call (.not e), st) := by
          simp only [step1, Task.step, Call.entry, hS, runOpt]
        have e2 : applyS gt BinOp.tag p op (fuel + 1) st f g = notS p fuel st e := by
          simp only [applyS, hS]
        rw [e2]
        refine .step rfl ?_
        rw [e1]
        exact steps_notS gt gtT pok fuel st e t hinv hc this
    | binary tag o1 o2 =>
      cases hT : terminalBin gtT op a b with
      | done t => rw [hS, hT] at hc; exact hc.elim
      | not t => rw [hS, hT] at hc; exact hc.elim
      | binary o x y =>
        cases hget : p.get st.tick st.cache (tag, [o1, o2]) with
        | some r =>
          have e1 : step1 gt p (.call (.bin op f g), st) = (.ret r, st.tickd) := by
            simp only [step1, Task.step, Call.entry, hS, query, hget, runOpt, Act.run]
          have e2 : applyS gt BinOp.tag p op (fuel + 1) st f g = (st.tickd, r) := by
            simp only [applyS, hS, hget]
          rw [e2, ← e1]; exact Steps.one rfl
        | none =>
          cases hl : lmin a.level b.level with
          | none => exact absurd hl (terminalBin_binary_not_leaves hT)
          | some l =>
            have hl' : lmin (st.store.level? f) (st.store.level? g) = some l := by
              rw [level?_denotes hf, level?_denotes hg, hl]
            have sz : ∀ c, (childAt a l c).size + (childAt b l c).size ≤ fuel := by
              intro c
              have := childAt_size_le a l c; have := childAt_size_le b l c
              rcases lmin_eq_some hl with h | h
              · have := childAt_size_lt a l c h; omega
              · have := childAt_size_lt b l c h; omega
            have p1 := applyS_spec gt gtT pok op fuel st.tickd _ _ _ _ hinv.tickd
              (childAt_denotes l .t hf) (childAt_denotes l .t hg) (sz .t)
            have pu := applyS_spec gt gtT pok op fuel _ _ _ _ _ p1.inv
              ((childAt_denotes l .u hf).mono p1.le) ((childAt_denotes l .u hg).mono p1.le) (sz .u)
            have s1 := ih st.tickd _ _ _ _ hinv.tickd
              (childAt_denotes l .t hf) (childAt_denotes l .t hg) (sz .t)
            have su := ih _ _ _ _ _ p1.inv
              ((childAt_denotes l .u hf).mono p1.le) ((childAt_denotes l .u hg).mono p1.le) (sz .u)
            have s0 := ih _ _ _ _ _ pu.inv
              ((childAt_denotes l .f hf).mono (p1.le.trans pu.le))
              ((childAt_denotes l .f hg).mono (p1.le.trans pu.le)) (sz .f)
            simp only [St.tickd_store] at s1 su s0
            simp only [applyS, hS, hget, hl']
            have e1 : step1 gt p (.call (.bin op f g), st) =
                (.miss (.bin op f g) (tag, [o1, o2]), st.tickd) := by
              simp only [step1, Task.step, Call.entry, hS, query, hget, runOpt, Act.run]
            refine .step rfl ?_
            rw [e1]
            have e3 : step1 gt p (.miss (.bin op f g) (tag, [o1, o2]), st.tickd) =
                (.seq2 ⟨(tag, [o1, o2]), l⟩
                  (.bin op (st.store.childAt f l .u) (st.store.childAt g l .u))
                  (.bin op (st.store.childAt f l .f) (st.store.childAt g l .f))
                  (.call (.bin op (st.store.childAt f l .t) (st.store.childAt g l .t))),
                 st.tickd) := by
              simp only [step1, Task.step, Call.expand, St.tickd_store, hl', runOpt]
            refine .step rfl ?_
            rw [e3]
            exact frame_steps s1 su s0

/-- **the machine's sequential instance of `apply_ite_rec` is `iteS`** -/
theorem steps_iteS (gt : Edge → Edge → Bool) (gtT : TD → TD → Bool) {p : APolicy} (pok : p.OK)
    (fuel : Nat) : ∀ (st : St) (f g h : Edge) (a b c : TD),
    Inv gtT st → Denotes st.store f a → Denotes st.store g b → Denotes st.store h c →
    a.size + b.size + c.size ≤ fuel →
    Steps gt p (.call (.ite f g h), st)
      (.ret (iteS gt BinOp.tag p fuel st f g h).2, (iteS gt BinOp.tag p fuel st f g h).1) := by
  induction fuel with
  | zero =>
    intro st f g h a b c _ _ _ _ hsz
    have := size_pos a
    omega
  | succ fuel ih =>
    intro st f g h a b c hinv hf hg hh hsz
    have hinj := inj_of_unique hinv.1
    have hc := iteShortcutS_corr gtT hinj hf hg hh
    have hsa := size_pos a
    have hsb := size_pos b
    have hsc := size_pos c
    cases hS : iteShortcutS f g h with
    | done e =>
      have e1 : step1 gt p (.call (.ite f g h), st) = (.ret e, st) := by
        simp only [step1, Task.step, Call.entry, hS, runOpt]
      have e2 : iteS gt BinOp.tag p (fuel + 1) st f g h = (st, e) := by simp only [iteS, hS]
      rw [e2, ← e1]; exact Steps.one rfl
    | bin op x y =>
      cases hT : iteShortcut gtT a b c with
      | none => rw [hS, hT] at hc; exact hc.elim
      | some t =>
        rw [hS, hT] at hc
        obtain ⟨tx, ty, hx, hy, _, hlt⟩ := hc
        have e1 : step1 gt p (.call (.ite f g h), st) = (.call (.bin op x y), st) := by
          simp only [step1, Task.step, Call.entry, hS, runOpt]
        have e2 : iteS gt BinOp.tag p (fuel + 1) st f g h =
            applyS gt BinOp.tag p op fuel st x y := by simp only [iteS, hS]
        rw [e2]
        refine .step rfl ?_
        rw [e1]
        exact steps_applyS gt gtT pok op fuel st x y tx ty hinv hx hy (by omega)
    | notOf x =>
      cases hT : iteShortcut gtT a b c with
      | none => rw [hS, hT] at hc; exact hc.elim
      | some t =>
        rw [hS, hT] at hc
        obtain ⟨rfl, _⟩ := hc
        have e1 : step1 gt p (.call (.ite x g h), st) = (.call (.not x), st) := by
          simp only [step1, Task.step, Call.entry, hS, runOpt]
        have e2 : iteS gt BinOp.tag p (fuel + 1) st x g h = notS p fuel st x := by
          simp only [iteS, hS]
        rw [e2]
        refine .step rfl ?_
        rw [e1]
        exact steps_notS gt gtT pok fuel st x a hinv hf (by omega)
    | recurse =>
      cases hT : iteShortcut gtT a b c with
      | some t => rw [hS, hT] at hc; exact hc.elim
      | none =>
        cases hget : p.get st.tick st.cache (.ite, [f, g, h]) with
        | some r =>
          have e1 : step1 gt p (.call (.ite f g h), st) = (.ret r, st.tickd) := by
            simp only [step1, Task.step, Call.entry, hS, query, hget, runOpt, Act.run]
          have e2 : iteS gt BinOp.tag p (fuel + 1) st f g h = (st.tickd, r) := by
            simp only [iteS, hS, hget]
          rw [e2, ← e1]; exact Steps.one rfl
        | none =>
          cases hl : lmin (lmin a.level b.level) c.level with
          | none => exact absurd hl (iteShortcut_none_not_leaves hT)
          | some l =>
            have hl' : lmin (lmin (st.store.level? f) (st.store.level? g)) (st.store.level? h) =
                some l := by
              rw [level?_denotes hf, level?_denotes hg, level?_denotes hh, hl]
            have sz := ite_child_sizes hl
            have p1 := iteS_spec gt gtT pok fuel st.tickd _ _ _ _ _ _ hinv.tickd
              (childAt_denotes l .t hf) (childAt_denotes l .t hg) (childAt_denotes l .t hh)
              (by have := sz .t; omega)
            have pu := iteS_spec gt gtT pok fuel _ _ _ _ _ _ _ p1.inv
              ((childAt_denotes l .u hf).mono p1.le) ((childAt_denotes l .u hg).mono p1.le)
              ((childAt_denotes l .u hh).mono p1.le) (by have := sz .u; omega)
            have s1 := ih st.tickd _ _ _ _ _ _ hinv.tickd
              (childAt_denotes l .t hf) (childAt_denotes l .t hg) (childAt_denotes l .t hh)
              (by have := sz .t; omega)
            have su := ih _ _ _ _ _ _ _ p1.inv
              ((childAt_denotes l .u hf).mono p1.le) ((childAt_denotes l .u hg).mono p1.le)
              ((childAt_denotes l .u hh).mono p1.le) (by have := sz .u; omega)
            have s0 := ih _ _ _ _ _ _ _ pu.inv
              ((childAt_denotes l .f hf).mono (p1.le.trans pu.le))
              ((childAt_denotes l .f hg).mono (p1.le.trans pu.le))
              ((childAt_denotes l .f hh).mono (p1.le.trans pu.le)) (by have := sz .f; omega)
            simp only [St.tickd_store] at s1 su s0
            simp only [iteS, hS, hget, hl']
            have e1 : step1 gt p (.call (.ite f g h), st) =
                (.miss (.ite f g h) (.ite, [f, g, h]), st.tickd) := by
              simp only [step1, Task.step, Call.entry, hS, query, hget, runOpt, Act.run]
            refine .step rfl ?_
            rw [e1]
            have e3 : step1 gt p (.miss (.ite f g h) (.ite, [f, g, h]), st.tickd) =
                (.seq2 ⟨(.ite, [f, g, h]), l⟩
                  (.ite (st.store.childAt f l .u) (st.store.childAt g l .u)
                    (st.store.childAt h l .u))
                  (.ite (st.store.childAt f l .f) (st.store.childAt g l .f)
                    (st.store.childAt h l .f))
                  (.call (.ite (st.store.childAt f l .t) (st.store.childAt g l .t)
                    (st.store.childAt h l .t))),
                 st.tickd) := by
              simp only [step1, Task.step, Call.expand, St.tickd_store, hl', runOpt]
            refine .step rfl ?_
            rw [e3]
            exact frame_steps s1 su s0

/-- `Steps` as a schedule of the machine: the one task is selected `n` times -/
theorem Steps.run {x y : Task × St} (h : Steps gt p x y) :
    ∃ n, Cfg.run gt p ⟨x.2, [x.1]⟩ (List.replicate n 0) = ⟨y.2, [y.1]⟩ ∧
      Cfg.allEnabled gt p ⟨x.2, [x.1]⟩ (List.replicate n 0) = true := by
  induction h with
  | refl => exact ⟨0, rfl, rfl⟩
  | @step x y hr _ ih =>
    obtain ⟨n, hn, hen⟩ := ih
    have hs : Cfg.step gt p ⟨x.2, [x.1]⟩ 0 = ⟨(step1 gt p x).2, [(step1 gt p x).1]⟩ := by
      simp [Cfg.step, hr, step1]
    refine ⟨n + 1, ?_, ?_⟩
    · simp only [List.replicate_succ, Cfg.run, hs]; exact hn
    · simp only [List.replicate_succ, Cfg.allEnabled, hs, Bool.and_eq_true]
      exact ⟨by simp [Cfg.enabled, hr], hen⟩

/-- **The machine's sequential instance is the model.** One operation, selected again and again:
after some number of (all enabled) selections the configuration is exactly the model's result —
`Job.seq`'s (= `applyS`'s / `notS`'s / `iteS`'s) store (slot for slot), cache, time stamp, and the task is
`ret` of `Job.seq`'s edge. -/
theorem sequential_schedule_is_model (gt : Edge → Edge → Bool) (gtT : TD → TD → Bool)
    {p : APolicy} (pok : p.OK) (st : St) (j : Job) (hinv : Inv gtT st) (ts : List TD)
    (hts : DenotesL st.store j.operands ts) (fuel : Nat) (hfuel : sizeSum ts ≤ fuel) :
    ∃ n, (Cfg.init st [j]).run gt p (List.replicate n 0) =
        ⟨(j.seq gt p fuel st).1, [.ret (j.seq gt p fuel st).2]⟩ ∧
      (Cfg.init st [j]).allEnabled gt p (List.replicate n 0) = true := by
  cases j with
  | bin op f g =>
    obtain ⟨a, b, rfl, ha, hb⟩ := denotesL_two_inv hts
    exact (steps_applyS gt gtT pok op fuel st f g a b hinv ha hb
      (by simp [sizeSum] at hfuel; omega)).run
  | not f =>
    obtain ⟨a, rfl, ha⟩ := denotesL_one_inv hts
    exact (steps_notS gt gtT pok fuel st f a hinv ha (by simp [sizeSum] at hfuel; omega)).run
  | ite f g h =>
    obtain ⟨a, b, c, rfl, ha, hb, hc⟩ := denotesL_three_inv hts
    exact (steps_iteS gt gtT pok fuel st f g h a b c hinv ha hb hc
      (by simp [sizeSum] at hfuel; omega)).run

/-- `sequential_schedule_is_model` on the example: thread 0's operation alone is `applyS .xor`,
thread 3's alone is `notS` -/
example := sequential_schedule_is_model Edge.gtIdx exGtT exPol_ok exSt (.bin .xor eF eG) exSt_inv _
  exFG 20 (by decide)
example := sequential_schedule_is_model Edge.gtIdx exGtT exPol_ok exSt (.not eF) exSt_inv _
  exF1 20 (by decide)
/-- concretely: `F ⊕ G` alone with the exact cache takes 43 selections; the final store and task
are those of `applyS` -/
example : ((Cfg.init exSt [.bin .xor eF eG]).run Edge.gtIdx Policy.exact (List.replicate 43 0)).tasks
      = [.ret (Job.seq Edge.gtIdx Policy.exact 20 exSt (.bin .xor eF eG)).2] ∧
    ((Cfg.init exSt [.bin .xor eF eG]).run Edge.gtIdx Policy.exact
        (List.replicate 43 0)).st.store.nodes
      = (Job.seq Edge.gtIdx Policy.exact 20 exSt (.bin .xor eF eG)).1.store.nodes := by
  decide +kernel

/-- an `ite` alone is `iteS` -/
example := sequential_schedule_is_model Edge.gtIdx exGtT exPol_ok exSt (.ite eF eG eX2) exSt_inv _
  exFGX 24 (by decide)
example : ((Cfg.init exSt [.ite eF eG eX2]).run Edge.gtIdx Policy.exact (List.replicate 43 0)).tasks
      = [.ret (Job.seq Edge.gtIdx Policy.exact 24 exSt (.ite eF eG eX2)).2] ∧
    ((Cfg.init exSt [.ite eF eG eX2]).run Edge.gtIdx Policy.exact
        (List.replicate 43 0)).st.store.nodes
      = (Job.seq Edge.gtIdx Policy.exact 24 exSt (.ite eF eG eX2)).1.store.nodes := by
  decide +kernel

end OxiddModel.Tdd.Threads
