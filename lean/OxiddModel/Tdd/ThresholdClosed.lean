import OxiddModel.Tdd.PropertiesC14T
import OxiddModel.Tdd.PropertiesS

/-!
# C14 for TDDs: `needed` in closed form

For `apply_not`, `apply_bin::<OP>` and `apply_ite_rec` the final store of the capacity-free run is
`intern s R` for the specified result tree `R` (`Post.canon`: no intermediate garbage). Hence from
a hash-consed, reduced store with a sound cache and sufficient fuel `needed = fresh s R` — the
number of ternary nodes of the result that are not stored —, independent of the cache policy, the
cache content, the fuel and the edge order.
-/
set_option linter.unusedSectionVars false

namespace OxiddModel.Tdd.C14T
open OxiddModel.Tdd OxiddModel.Tdd.TD OxiddModel.Tdd.Refine OxiddModel.Tdd.Rc
open OxiddModel.CachePolicy OxiddModel

/-- nodes that entering the tree `R` into store `s` allocates -/
def fresh (s : Store) (R : TD) : Nat := slotCount (intern s R).1.nodes - slotCount s.nodes

theorem growth_eq_fresh {gtT : TD → TD → Bool} {s : Store} {R : TD} {r : St × Edge}
    (h : Post gtT s R r) (hr : s.NoRed) : growth s r = fresh s R := by
  have := congrArg Prod.fst (h.canon hr)
  simp only at this
  unfold growth fresh
  rw [this]

theorem neededNot_eq_fresh (gtT : TD → TD → Bool) {p : APolicy} (pok : p.OK) (fuel : Nat)
    (st : St) (f : Edge) (a : TD) (hu : st.store.Unique) (hr : st.store.NoRed)
    (hc : CacheOK gtT st.store st.cache) (hf : Denotes st.store f a) (hfuel : a.size ≤ fuel) :
    neededNot p fuel st f = fresh st.store (applyNot a) :=
  growth_eq_fresh (notS_spec gtT pok fuel st f a ⟨hu, hc⟩ hf hfuel) hr

theorem neededApply_eq_fresh (gt : Edge → Edge → Bool) (gtT : TD → TD → Bool) {p : APolicy}
    (pok : p.OK) (op : BinOp) (fuel : Nat) (st : St) (f g : Edge) (a b : TD)
    (hu : st.store.Unique) (hr : st.store.NoRed) (hc : CacheOK gtT st.store st.cache)
    (hf : Denotes st.store f a) (hg : Denotes st.store g b) (hfuel : a.size + b.size ≤ fuel) :
    neededApply gt BinOp.tag p op fuel st f g = fresh st.store (applyBin gtT op a b) :=
  growth_eq_fresh (applyS_spec gt gtT pok op fuel st f g a b ⟨hu, hc⟩ hf hg hfuel) hr

theorem neededIte_eq_fresh (gt : Edge → Edge → Bool) (gtT : TD → TD → Bool) {p : APolicy}
    (pok : p.OK) (fuel : Nat) (st : St) (f g h : Edge) (a b c : TD) (hu : st.store.Unique)
    (hr : st.store.NoRed) (hc : CacheOK gtT st.store st.cache) (hf : Denotes st.store f a)
    (hg : Denotes st.store g b) (hh : Denotes st.store h c)
    (hfuel : a.size + b.size + c.size ≤ fuel) :
    neededIte gt BinOp.tag p fuel st f g h = fresh st.store (applyIte gtT a b c) :=
  growth_eq_fresh (Refine.iteS_spec gt gtT pok fuel st f g h a b c ⟨hu, hc⟩ hf hg hh hfuel) hr

/-- **the threshold of `apply_ite_rec` in closed form** -/
theorem ite_oom_iff_fresh (gt : Edge → Edge → Bool) (gtT : TD → TD → Bool) {p : APolicy}
    (pok : p.OK) (cap : Nat) (fuel : Nat) (r : RSt) (f g h : Edge) (a b c : TD)
    (hu : r.st.store.Unique) (hr : r.st.store.NoRed) (hc : CacheOK gtT r.st.store r.st.cache)
    (hf : Denotes r.st.store f a) (hg : Denotes r.st.store g b) (hh : Denotes r.st.store h c)
    (hfuel : a.size + b.size + c.size ≤ fuel) :
    (iteR gt BinOp.tag (some cap) p fuel r f g h).1 = none ↔
      0 < fresh r.st.store (applyIte gtT a b c) ∧
      cap < r.numInner + fresh r.st.store (applyIte gtT a b c) := by
  rw [ite_oom_iff_needed, neededIte_eq_fresh gt gtT pok fuel r.st f g h a b c hu hr hc hf hg hh hfuel]
  rfl

theorem apply_oom_iff_fresh (gt : Edge → Edge → Bool) (gtT : TD → TD → Bool) {p : APolicy}
    (pok : p.OK) (cap : Nat) (op : BinOp) (fuel : Nat) (r : RSt) (f g : Edge) (a b : TD)
    (hu : r.st.store.Unique) (hr : r.st.store.NoRed) (hc : CacheOK gtT r.st.store r.st.cache)
    (hf : Denotes r.st.store f a) (hg : Denotes r.st.store g b) (hfuel : a.size + b.size ≤ fuel) :
    (applyR gt BinOp.tag (some cap) p op fuel r f g).1 = none ↔
      0 < fresh r.st.store (applyBin gtT op a b) ∧
      cap < r.numInner + fresh r.st.store (applyBin gtT op a b) := by
  rw [apply_oom_iff_needed, neededApply_eq_fresh gt gtT pok op fuel r.st f g a b hu hr hc hf hg hfuel]
  rfl

open OxiddModel.Tdd.StoreLevel in
/-- non-vacuity (`StoreLevel.exStore` holds `x0`, `x1`): the same number with an exact cache and
with no cache -/
example : neededApply Edge.gtIdx BinOp.tag Policy.exact .and 20 ⟨exStore, [], 0⟩ (.inner 0) (.inner 1) =
      neededApply Edge.gtIdx BinOp.tag Policy.none .and 20 ⟨exStore, [], 3⟩ (.inner 0) (.inner 1) ∧
    0 < neededApply Edge.gtIdx BinOp.tag Policy.exact .and 20 ⟨exStore, [], 0⟩ (.inner 0) (.inner 1) := by
  decide +kernel

end OxiddModel.Tdd.C14T
