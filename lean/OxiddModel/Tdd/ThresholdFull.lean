import OxiddModel.Tdd.PropertiesC14T

/-!
# After a failed TDD operation the store is exactly full; the capacity is never exceeded

Capped side alone: every run of `notR / applyR / iteR` under capacity `cap` never removes a node,
stays within the capacity if it started within it, and reports OutOfMemory only when at least
`cap` nodes are stored. Hence (`C14T.…_final_count`) after a failure exactly `cap` nodes are
stored, after a success exactly `count + needed`.
-/
set_option linter.unusedSectionVars false

namespace OxiddModel.Tdd.Rc
open OxiddModel.Tdd OxiddModel.Tdd.TD OxiddModel.Tdd.Refine OxiddModel.CachePolicy OxiddModel

/-- at least `cap` slots are occupied (never for an unbounded store) -/
def atCap : Option Nat → Nat → Prop
  | none, _ => False
  | some c, n => c ≤ n

structure Full (cap : Option Nat) (s : Store) (R : Option Edge × RSt) : Prop where
  mono : slotCount s.nodes ≤ slotCount R.2.st.store.nodes
  bound : within cap (slotCount s.nodes) → within cap (slotCount R.2.st.store.nodes)
  err : R.1 = none → atCap cap (slotCount R.2.st.store.nodes)

theorem Full.pure {cap : Option Nat} {s : Store} {x : Edge} {r : RSt} (h : r.st.store = s) :
    Full cap s (some x, r) :=
  ⟨by show slotCount s.nodes ≤ slotCount r.st.store.nodes; rw [h]; exact Nat.le_refl _,
   fun hc => by show within cap (slotCount r.st.store.nodes); rw [h]; exact hc, fun h => by cases h⟩

theorem Full.seq {cap : Option Nat} {s : Store} {r1 : RSt} {R : Option Edge × RSt}
    (m1 : slotCount s.nodes ≤ slotCount r1.st.store.nodes)
    (b1 : within cap (slotCount s.nodes) → within cap (slotCount r1.st.store.nodes))
    (h : Full cap r1.st.store R) : Full cap s R :=
  ⟨Nat.le_trans m1 h.mono, fun hc => h.bound (b1 hc), h.err⟩

theorem Full.fail {cap : Option Nat} {s : Store} {r1 r' : RSt} (h1 : Full cap s (none, r1))
    (hs : r'.st.store = r1.st.store) : Full cap s (none, r') :=
  ⟨by show slotCount s.nodes ≤ slotCount r'.st.store.nodes; rw [hs]; exact h1.mono,
   fun hc => by show within cap (slotCount r'.st.store.nodes); rw [hs]; exact h1.bound hc,
   fun _ => by show atCap cap (slotCount r'.st.store.nodes); rw [hs]; exact h1.err rfl⟩

theorem not_room (cap : Option Nat) (n : Nat) (h : ¬ room cap n = true) : atCap cap n := by
  cases cap with
  | none => simp [room] at h
  | some c => simp only [room, decide_eq_true_eq] at h; simp only [atCap]; omega

theorem insertR_full (cap : Option Nat) (r : RSt) (l : Nat) (t u e : Edge) :
    Full cap r.st.store (insertR cap r l t u e) := by
  unfold insertR
  cases hf : Slots.find? r.st.store.nodes ⟨l, t, u, e⟩ with
  | some i => exact Full.pure (by simp)
  | none =>
    simp only
    by_cases hc : room cap (slotCount r.st.store.nodes) = true
    · simp only [hc, if_true]
      refine ⟨?_, fun _ => ?_, fun h => by cases h⟩
      · show slotCount r.st.store.nodes ≤ slotCount (Slots.alloc r.st.store.nodes ⟨l, t, u, e⟩).1
        rw [slotCount_alloc]; omega
      · show within cap (slotCount (Slots.alloc r.st.store.nodes ⟨l, t, u, e⟩).1)
        rw [slotCount_alloc]; exact (room_iff _ _).mp hc
    · simp only [hc, Bool.false_eq_true, if_false]
      refine ⟨?_, fun h => ?_, fun _ => ?_⟩
      · simp only [dropEdge_st]; exact Nat.le_refl _
      · simp only [dropEdge_st]; exact h
      · simp only [dropEdge_st]; exact not_room _ _ hc

theorem mkNodeR_full (cap : Option Nat) (r : RSt) (l : Nat) (t u e : Edge) :
    Full cap r.st.store (mkNodeR cap r l t u e) := by
  unfold mkNodeR
  split
  · exact Full.pure (by simp)
  · exact insertR_full cap r l t u e

theorem finishR_full (cap : Option Nat) (p : APolicy) (r : RSt) (key : Key) (l : Nat)
    (e1 eu e0 : Edge) : Full cap r.st.store (finishR cap p r key l e1 eu e0) := by
  unfold finishR
  have h := mkNodeR_full cap r l e1 eu e0
  cases hR : mkNodeR cap r l e1 eu e0 with
  | mk o r' =>
    rw [hR] at h
    cases o with
    | none => exact h
    | some x => exact ⟨h.mono, h.bound, fun e => by cases e⟩

theorem forkR_full {cap : Option Nat} {p : APolicy} {key : Key} {l : Nat}
    {c1 cu c0 : RSt → Option Edge × RSt} (h1 : ∀ r, Full cap r.st.store (c1 r))
    (hu : ∀ r, Full cap r.st.store (cu r)) (h0 : ∀ r, Full cap r.st.store (c0 r)) (r : RSt) :
    Full cap r.st.store (forkR cap p key l c1 cu c0 r) := by
  unfold forkR
  have a := h1 r
  cases hc1 : c1 r with
  | mk o1 r1 =>
    rw [hc1] at a
    cases o1 with
    | none => exact a
    | some x1 =>
      simp only
      have b := hu r1
      cases hcu : cu r1 with
      | mk ou ru =>
        rw [hcu] at b
        cases ou with
        | none => exact Full.seq a.mono a.bound (Full.fail b (by simp))
        | some xu =>
          simp only
          have c := h0 ru
          cases hc0 : c0 ru with
          | mk o0 r0 =>
            rw [hc0] at c
            cases o0 with
            | none =>
              exact Full.seq a.mono a.bound (Full.seq b.mono b.bound (Full.fail c (by simp)))
            | some x0 =>
              exact Full.seq a.mono a.bound (Full.seq b.mono b.bound
                (Full.seq c.mono c.bound (finishR_full cap p r0 key l x1 xu x0)))

theorem notR_full (cap : Option Nat) (p : APolicy) (fuel : Nat) : ∀ (r : RSt) (f : Edge),
    Full cap r.st.store (notR cap p fuel r f) := by
  induction fuel with
  | zero => intro r f; simp only [notR]; exact Full.pure (by simp)
  | succ fuel ih =>
    intro r f
    cases f with
    | term v => simp only [notR]; exact Full.pure rfl
    | inner i =>
      simp only [notR]
      cases hget : p.get r.st.tick r.st.cache (.not, [.inner i]) with
      | some h => exact Full.pure (by simp)
      | none =>
        simp only
        cases hi : r.st.store.get? i with
        | none => exact Full.pure (by simp)
        | some n => exact forkR_full (fun s => ih s _) (fun s => ih s _) (fun s => ih s _) r.tickd

theorem applyR_full (gt : Edge → Edge → Bool) (tg : BinOp → TDDOp) (cap : Option Nat)
    (p : APolicy) (op : BinOp) (fuel : Nat) : ∀ (r : RSt) (f g : Edge),
    Full cap r.st.store (applyR gt tg cap p op fuel r f g) := by
  induction fuel with
  | zero => intro r f g; simp only [applyR]; exact Full.pure (by simp)
  | succ fuel ih =>
    intro r f g
    simp only [applyR]
    cases hP : terminalBinS gt tg op f g with
    | done h => exact Full.pure (by simp)
    | notOf h => exact notR_full cap p fuel r h
    | binary tag o1 o2 =>
      simp only
      cases hget : p.get r.st.tick r.st.cache (tag, [o1, o2]) with
      | some h => exact Full.pure (by simp)
      | none =>
        simp only
        cases hl : lmin (r.st.store.level? f) (r.st.store.level? g) with
        | none => exact Full.pure (by simp)
        | some l =>
          exact forkR_full (fun s => ih s _ _) (fun s => ih s _ _) (fun s => ih s _ _) r.tickd

theorem iteR_full (gt : Edge → Edge → Bool) (tg : BinOp → TDDOp) (cap : Option Nat) (p : APolicy)
    (fuel : Nat) : ∀ (r : RSt) (f g h : Edge),
    Full cap r.st.store (iteR gt tg cap p fuel r f g h) := by
  induction fuel with
  | zero => intro r f g h; simp only [iteR]; exact Full.pure (by simp)
  | succ fuel ih =>
    intro r f g h
    simp only [iteR]
    cases hP : iteShortcutS f g h with
    | done y => exact Full.pure (by simp)
    | bin op a b => exact applyR_full gt tg cap p op fuel r a b
    | notOf a => exact notR_full cap p fuel r a
    | recurse =>
      simp only
      cases hget : p.get r.st.tick r.st.cache (.ite, [f, g, h]) with
      | some y => exact Full.pure (by simp)
      | none =>
        simp only
        cases hl : lmin (lmin (r.st.store.level? f) (r.st.store.level? g)) (r.st.store.level? h) with
        | none => exact Full.pure (by simp)
        | some l =>
          exact forkR_full (fun s => ih s _ _ _) (fun s => ih s _ _ _) (fun s => ih s _ _ _) r.tickd

end OxiddModel.Tdd.Rc

namespace OxiddModel.Tdd.C14T
open OxiddModel.Tdd OxiddModel.Tdd.TD OxiddModel.Tdd.Refine OxiddModel.Tdd.Rc
open OxiddModel.CachePolicy OxiddModel

theorem final_count_of {c : Nat} {s : Store} {R : Option Edge × RSt} {S : St × Edge}
    (h : Full (some c) s R) (e : Erases R S) (hc : slotCount s.nodes ≤ c) :
    slotCount R.2.st.store.nodes = if R.1 = none then c else slotCount s.nodes + growth s S := by
  split
  · rename_i hn
    exact Nat.le_antisymm (h.bound hc) (h.err hn)
  · rename_i hs
    cases hR : R.1 with
    | none => exact absurd hR hs
    | some x =>
      have := e x hR
      have m := h.mono
      unfold growth
      rw [this]
      simp only
      omega

/-- **after a failed `apply_ite_rec` exactly `cap` nodes are stored, after a successful one exactly
`count + needed`** (started within the capacity) -/
theorem ite_final_count (gt : Edge → Edge → Bool) (tg : BinOp → TDDOp) (c : Nat) (p : APolicy)
    (fuel : Nat) (r : RSt) (f g h : Edge) (hc : r.numInner ≤ c) :
    (iteR gt tg (some c) p fuel r f g h).2.numInner =
      if (iteR gt tg (some c) p fuel r f g h).1 = none then c
      else r.numInner + neededIte gt tg p fuel r.st f g h :=
  final_count_of (iteR_full gt tg (some c) p fuel r f g h) (iteR_erase' gt tg (some c) p fuel r f g h) hc

theorem apply_final_count (gt : Edge → Edge → Bool) (tg : BinOp → TDDOp) (c : Nat) (p : APolicy)
    (op : BinOp) (fuel : Nat) (r : RSt) (f g : Edge) (hc : r.numInner ≤ c) :
    (applyR gt tg (some c) p op fuel r f g).2.numInner =
      if (applyR gt tg (some c) p op fuel r f g).1 = none then c
      else r.numInner + neededApply gt tg p op fuel r.st f g :=
  final_count_of (applyR_full gt tg (some c) p op fuel r f g)
    (applyR_erase' gt tg (some c) p op fuel r f g) hc

theorem not_final_count (c : Nat) (p : APolicy) (fuel : Nat) (r : RSt) (f : Edge)
    (hc : r.numInner ≤ c) :
    (notR (some c) p fuel r f).2.numInner =
      if (notR (some c) p fuel r f).1 = none then c else r.numInner + neededNot p fuel r.st f :=
  final_count_of (notR_full (some c) p fuel r f) (notR_erase' (some c) p fuel r f) hc

open OxiddModel.Tdd.C05R in
/-- non-vacuity: `ite(x0, x1, U)` (`needed = 2`) from the two-node store: under capacity 3 it fails
with three nodes stored (one garbage node), under capacity 4 it succeeds with four -/
example : (iteR Edge.gtIdx BinOp.tag (some 3) Policy.exact 20 (exRun 3).r (.inner 0) (.inner 1) (.term .u)).2.numInner = 3 ∧
    (iteR Edge.gtIdx BinOp.tag (some 4) Policy.exact 20 (exRun 3).r (.inner 0) (.inner 1) (.term .u)).2.numInner = 4 := by
  decide +kernel

end OxiddModel.Tdd.C14T
