import OxiddModel.Tdd.RcSLemmas

/-!
# The out-of-memory threshold of the TDD operations — exactly

`Tdd/RcS.lean` runs `apply_not`, `apply_bin::<OP>` and `apply_ite_rec` on the store of ternary
nodes with counters and a node capacity (`add_node` fails when a fresh slot is needed and
`slotCount nodes = cap`; the three terminals are static). `RcSLemmas.lean` proves that a
*successful* capped run is the capacity-free run (`Erases`). Here the converse:

  the capped run succeeds **iff** the capacity-free run `Fits` the capacity

(final count within the capacity, or nothing allocated). The capacity-free run only adds nodes
(`notS_grows`, `applyS_grows`, `iteS_grows`), hence OutOfMemory iff
`0 < needed ∧ cap < count + needed` with `needed` the number of nodes the capacity-free run
allocates. Structural: every store, counter array, cache, policy, fuel, all operands, every
capacity (`none` = unbounded).
-/
set_option linter.unusedSectionVars false

namespace OxiddModel.Tdd.Rc
open OxiddModel.Tdd OxiddModel.Tdd.TD OxiddModel.Tdd.Refine OxiddModel.CachePolicy OxiddModel

/-! ## counting -/

theorem slotCount_alloc {α : Type} (a : Array (Option α)) (x : α) :
    slotCount (Slots.alloc a x).1 = slotCount a + 1 := by
  unfold Slots.alloc
  split
  · rename_i i hi
    obtain ⟨hlt, heq⟩ := Array.findIdx?_eq_some_iff_findIdx_eq.mp hi
    have hnone := Array.findIdx_getElem (xs := a) (p := (·.isNone)) (w := by rw [heq]; exact hlt)
    simp only [heq] at hnone
    simp only [slotCount, Array.set!_eq_setIfInBounds, Array.setIfInBounds_def, hlt, dite_true]
    rw [Array.countP_set]
    cases h : a[i] with
    | none => simp
    | some y => rw [h] at hnone; cases hnone
  · simp [slotCount]

theorem slotCount_intern {α : Type} [DecidableEq α] (a : Array (Option α)) (x : α) :
    slotCount (Slots.intern a x).1 =
      if Slots.find? a x = none then slotCount a + 1 else slotCount a := by
  unfold Slots.intern
  cases h : Slots.find? a x with
  | some i => simp
  | none => simp [slotCount_alloc]

/-- `n` occupied slots are within the capacity (`none` = unbounded) -/
def within : Option Nat → Nat → Prop
  | none, _ => True
  | some c, n => n ≤ c

/-- the final count is within the capacity, or nothing was allocated -/
def Fits (cap : Option Nat) (s s' : Store) : Prop :=
  within cap (slotCount s'.nodes) ∨ slotCount s'.nodes = slotCount s.nodes

/-- the run from `s` to `s'` removed no node -/
def Grows (s s' : Store) : Prop := slotCount s.nodes ≤ slotCount s'.nodes

theorem Grows.refl (s : Store) : Grows s s := Nat.le_refl _
theorem Grows.trans {a b c : Store} (h1 : Grows a b) (h2 : Grows b c) : Grows a c :=
  Nat.le_trans h1 h2

theorem Fits.refl (cap : Option Nat) (s : Store) : Fits cap s s := .inr rfl
theorem Fits.of_eq {cap : Option Nat} {a b : Store} (h : b = a) : Fits cap a b := by
  subst h; exact Fits.refl _ _

theorem Fits.trans {cap : Option Nat} {a b c : Store} (h1 : Fits cap a b) (h2 : Fits cap b c) :
    Fits cap a c := by
  unfold Fits at *
  cases cap with
  | none => exact .inl trivial
  | some k => simp only [within] at *; omega

theorem Fits.split {cap : Option Nat} {a b c : Store} (h : Fits cap a c) (h1 : Grows a b)
    (h2 : Grows b c) : Fits cap a b ∧ Fits cap b c := by
  unfold Fits Grows at *
  cases cap with
  | none => exact ⟨.inl trivial, .inl trivial⟩
  | some k => simp only [within] at *; omega

/-- `cap ≤ cap'` for optional capacities -/
def capLe : Option Nat → Option Nat → Prop
  | _, none => True
  | none, some _ => False
  | some a, some b => a ≤ b

theorem Fits.mono {c c' : Option Nat} {a b : Store} (h : Fits c a b) (hc : capLe c c') :
    Fits c' a b := by
  unfold Fits at *
  cases c' with
  | none => exact .inl trivial
  | some k' =>
    cases c with
    | none => cases hc
    | some k => simp only [within, capLe] at *; omega

theorem room_iff (cap : Option Nat) (n : Nat) : room cap n = true ↔ within cap (n + 1) := by
  cases cap with
  | none => simp [room, within]
  | some c => simp only [room, within, decide_eq_true_eq]; omega

/-! ## the capacity-free algorithms only add nodes -/

theorem mkNode_grows (s : Store) (l : Nat) (t u e : Edge) : Grows s (s.mkNode l t u e).1 := by
  unfold Store.mkNode
  split
  · exact Grows.refl _
  · show slotCount s.nodes ≤ slotCount (Slots.intern s.nodes ⟨l, t, u, e⟩).1
    rw [slotCount_intern]; split <;> omega

theorem finishS_grows (p : APolicy) (st : St) (key : Key) (l : Nat) (e1 eu e0 : Edge) :
    Grows st.store (finishS p st key l e1 eu e0).1.store := mkNode_grows st.store l e1 eu e0

theorem notS_grows (p : APolicy) (fuel : Nat) : ∀ (st : St) (f : Edge),
    Grows st.store (notS p fuel st f).1.store := by
  induction fuel with
  | zero => intro st f; exact Grows.refl _
  | succ fuel ih =>
    intro st f
    cases f with
    | term v => exact Grows.refl _
    | inner i =>
      simp only [notS]
      cases hget : p.get st.tick st.cache (.not, [.inner i]) with
      | some h => exact Grows.refl _
      | none =>
        simp only
        cases hi : st.store.get? i with
        | none => exact Grows.refl _
        | some n =>
          simp only
          exact (ih st.tickd _).trans ((ih _ _).trans ((ih _ _).trans (finishS_grows _ _ _ _ _ _ _)))

theorem applyS_grows (gt : Edge → Edge → Bool) (tg : BinOp → TDDOp) (p : APolicy) (op : BinOp)
    (fuel : Nat) : ∀ (st : St) (f g : Edge),
    Grows st.store (applyS gt tg p op fuel st f g).1.store := by
  induction fuel with
  | zero => intro st f g; exact Grows.refl _
  | succ fuel ih =>
    intro st f g
    simp only [applyS]
    cases hP : terminalBinS gt tg op f g with
    | done h => exact Grows.refl _
    | notOf h => exact notS_grows p fuel st h
    | binary tag o1 o2 =>
      simp only
      cases hget : p.get st.tick st.cache (tag, [o1, o2]) with
      | some h => exact Grows.refl _
      | none =>
        simp only
        cases hl : lmin (st.store.level? f) (st.store.level? g) with
        | none => exact Grows.refl _
        | some l =>
          simp only
          exact (ih st.tickd _ _).trans ((ih _ _ _).trans ((ih _ _ _).trans (finishS_grows _ _ _ _ _ _ _)))

theorem iteS_grows (gt : Edge → Edge → Bool) (tg : BinOp → TDDOp) (p : APolicy) (fuel : Nat) :
    ∀ (st : St) (f g h : Edge), Grows st.store (iteS gt tg p fuel st f g h).1.store := by
  induction fuel with
  | zero => intro st f g h; exact Grows.refl _
  | succ fuel ih =>
    intro st f g h
    simp only [iteS]
    cases hP : iteShortcutS f g h with
    | done y => exact Grows.refl _
    | bin op a b => exact applyS_grows gt tg p op fuel st a b
    | notOf a => exact notS_grows p fuel st a
    | recurse =>
      simp only
      cases hget : p.get st.tick st.cache (.ite, [f, g, h]) with
      | some y => exact Grows.refl _
      | none =>
        simp only
        cases hl : lmin (lmin (st.store.level? f) (st.store.level? g)) (st.store.level? h) with
        | none => exact Grows.refl _
        | some l =>
          simp only
          exact (ih st.tickd _ _ _).trans ((ih _ _ _ _).trans ((ih _ _ _ _).trans (finishS_grows _ _ _ _ _ _ _)))

/-! ## `get_or_insert`, `reduce`: success iff the slot is there -/

theorem insertR_isSome (cap : Option Nat) (r : RSt) (l : Nat) (t u e : Edge) :
    (insertR cap r l t u e).1.isSome = true ↔
      (within cap (slotCount (Slots.intern r.st.store.nodes ⟨l, t, u, e⟩).1) ∨
        slotCount (Slots.intern r.st.store.nodes ⟨l, t, u, e⟩).1 = slotCount r.st.store.nodes) := by
  rw [slotCount_intern]
  unfold insertR
  cases hf : Slots.find? r.st.store.nodes ⟨l, t, u, e⟩ with
  | some i => simp
  | none =>
    simp only [if_true]
    by_cases hc : room cap (slotCount r.st.store.nodes) = true
    · simp only [hc, if_true, Option.isSome_some, true_iff]
      exact .inl ((room_iff _ _).mp hc)
    · simp only [hc, Bool.false_eq_true, if_false, Option.isSome_none, false_iff]
      rintro (h | h)
      · exact hc ((room_iff _ _).mpr h)
      · omega

theorem mkNodeR_isSome (cap : Option Nat) (r : RSt) (l : Nat) (t u e : Edge) :
    (mkNodeR cap r l t u e).1.isSome = true ↔ Fits cap r.st.store (r.st.store.mkNode l t u e).1 := by
  unfold mkNodeR Store.mkNode
  by_cases hte : t = u ∧ u = e
  · simp only [hte, and_self, if_true, Option.isSome_some, true_iff]; exact Fits.refl _ _
  · simp only [hte, if_false]
    exact insertR_isSome cap r l t u e

theorem finishR_isSome (cap : Option Nat) (p : APolicy) (r : RSt) (key : Key) (l : Nat)
    (e1 eu e0 : Edge) :
    (finishR cap p r key l e1 eu e0).1.isSome = true ↔
      Fits cap r.st.store (finishS p r.st key l e1 eu e0).1.store := by
  show _ ↔ Fits cap r.st.store (r.st.store.mkNode l e1 eu e0).1
  rw [← mkNodeR_isSome]
  unfold finishR
  cases hR : mkNodeR cap r l e1 eu e0 with
  | mk o r' => cases o <;> rfl

/-! ## the threshold relation -/

/-- the capped run `R` started in store `s` succeeds **iff** the capacity-free run `S` fits -/
def Thr (cap : Option Nat) (s : Store) (R : Option Edge × RSt) (S : St × Edge) : Prop :=
  R.1.isSome = true ↔ Fits cap s S.1.store

theorem Thr.pure {cap : Option Nat} {s : Store} {x : Edge} {r : RSt} {S : St × Edge}
    (h : S.1.store = s) : Thr cap s (some x, r) S := by
  unfold Thr
  simp only [Option.isSome_some, true_iff]
  exact Fits.of_eq h

/-- the three recursive calls, `reduce`, cache add -/
theorem Thr.fork {cap : Option Nat} {p : APolicy} {key : Key} {l : Nat}
    {c1 cu c0 : RSt → Option Edge × RSt} {r : RSt} {S1 Su S0 : St × Edge}
    (h1 : Thr cap r.st.store (c1 r) S1) (e1 : Erases (c1 r) S1) (m1 : Grows r.st.store S1.1.store)
    (hu : ∀ r1, r1.st = S1.1 → Thr cap S1.1.store (cu r1) Su ∧ Erases (cu r1) Su)
    (mu : Grows S1.1.store Su.1.store)
    (h0 : ∀ r1, r1.st = Su.1 → Thr cap Su.1.store (c0 r1) S0 ∧ Erases (c0 r1) S0)
    (m0 : Grows Su.1.store S0.1.store) :
    Thr cap r.st.store (forkR cap p key l c1 cu c0 r) (finishS p S0.1 key l S1.2 Su.2 S0.2) := by
  unfold Thr at h1 ⊢
  have mk := finishS_grows p S0.1 key l S1.2 Su.2 S0.2
  have mrest0 : Grows Su.1.store (finishS p S0.1 key l S1.2 Su.2 S0.2).1.store := m0.trans mk
  have mrestu : Grows S1.1.store (finishS p S0.1 key l S1.2 Su.2 S0.2).1.store := mu.trans mrest0
  cases hc1 : c1 r with
  | mk o1 r1 =>
    rw [hc1] at h1 e1
    cases o1 with
    | none =>
      simp only [forkR, hc1, Option.isSome_none, Bool.false_eq_true, false_iff]
      intro hf
      have := h1.mpr (hf.split m1 mrestu).1
      cases this
    | some x1 =>
      have hS1 := e1 x1 rfl
      simp only at hS1
      subst hS1
      have hf1 : Fits cap r.st.store r1.st.store := h1.mp rfl
      obtain ⟨hu', eu'⟩ := hu r1 rfl
      unfold Thr at hu'
      cases hcu : cu r1 with
      | mk ou ru =>
        rw [hcu] at hu' eu'
        cases ou with
        | none =>
          simp only [forkR, hc1, hcu, Option.isSome_none, Bool.false_eq_true, false_iff]
          intro hf
          have := hu'.mpr ((hf.split m1 mrestu).2.split mu mrest0).1
          cases this
        | some xu =>
          have hSu := eu' xu rfl
          simp only at hSu
          subst hSu
          have hfu : Fits cap r1.st.store ru.st.store := hu'.mp rfl
          obtain ⟨h0', e0'⟩ := h0 ru rfl
          unfold Thr at h0'
          cases hc0 : c0 ru with
          | mk o0 r0 =>
            rw [hc0] at h0' e0'
            cases o0 with
            | none =>
              simp only [forkR, hc1, hcu, hc0, Option.isSome_none, Bool.false_eq_true, false_iff]
              intro hf
              have := h0'.mpr ((((hf.split m1 mrestu).2.split mu mrest0).2).split m0 mk).1
              cases this
            | some x0 =>
              have hS0 := e0' x0 rfl
              simp only at hS0
              subst hS0
              simp only [forkR, hc1, hcu, hc0]
              rw [finishR_isSome]
              have hf0 : Fits cap ru.st.store r0.st.store := h0'.mp rfl
              constructor
              · intro h; exact ((hf1.trans hfu).trans hf0).trans h
              · intro h; exact ((((h.split m1 mrestu).2.split mu mrest0).2).split m0 mk).2

/-- **`notR cap` succeeds iff `notS` fits `cap`** -/
theorem notR_thr (cap : Option Nat) (p : APolicy) (fuel : Nat) : ∀ (r : RSt) (f : Edge),
    Thr cap r.st.store (notR cap p fuel r f) (notS p fuel r.st f) := by
  induction fuel with
  | zero => intro r f; simp only [notR, notS]; exact Thr.pure rfl
  | succ fuel ih =>
    intro r f
    cases f with
    | term v => simp only [notR, notS]; exact Thr.pure rfl
    | inner i =>
      simp only [notR, notS]
      cases hget : p.get r.st.tick r.st.cache (.not, [.inner i]) with
      | some h => exact Thr.pure rfl
      | none =>
        simp only
        cases hi : r.st.store.get? i with
        | none => exact Thr.pure rfl
        | some n =>
          simp only
          exact Thr.fork (r := r.tickd) (ih r.tickd _) (notR_erase' cap p fuel r.tickd _)
            (notS_grows p fuel _ _)
            (fun r1 h1 => by
              have a := ih r1 n.u
              have b := notR_erase' cap p fuel r1 n.u
              rw [h1] at a b
              exact ⟨a, b⟩)
            (notS_grows p fuel _ _)
            (fun r1 h1 => by
              have a := ih r1 n.e
              have b := notR_erase' cap p fuel r1 n.e
              rw [h1] at a b
              exact ⟨a, b⟩)
            (notS_grows p fuel _ _)

/-- **`applyR cap` succeeds iff `applyS` fits `cap`** -/
theorem applyR_thr (gt : Edge → Edge → Bool) (tg : BinOp → TDDOp) (cap : Option Nat)
    (p : APolicy) (op : BinOp) (fuel : Nat) : ∀ (r : RSt) (f g : Edge),
    Thr cap r.st.store (applyR gt tg cap p op fuel r f g) (applyS gt tg p op fuel r.st f g) := by
  induction fuel with
  | zero => intro r f g; simp only [applyR, applyS]; exact Thr.pure rfl
  | succ fuel ih =>
    intro r f g
    simp only [applyR, applyS]
    cases hP : terminalBinS gt tg op f g with
    | done h => exact Thr.pure rfl
    | notOf h => exact notR_thr cap p fuel r h
    | binary tag o1 o2 =>
      simp only
      cases hget : p.get r.st.tick r.st.cache (tag, [o1, o2]) with
      | some h => exact Thr.pure rfl
      | none =>
        simp only
        cases hl : lmin (r.st.store.level? f) (r.st.store.level? g) with
        | none => exact Thr.pure rfl
        | some l =>
          simp only
          exact Thr.fork (r := r.tickd) (ih r.tickd _ _) (applyR_erase' gt tg cap p op fuel r.tickd _ _)
            (applyS_grows gt tg p op fuel _ _ _)
            (fun r1 h1 => by
              have a := ih r1 (r.st.store.childAt f l .u) (r.st.store.childAt g l .u)
              have b := applyR_erase' gt tg cap p op fuel r1 (r.st.store.childAt f l .u) (r.st.store.childAt g l .u)
              rw [h1] at a b
              exact ⟨a, b⟩)
            (applyS_grows gt tg p op fuel _ _ _)
            (fun r1 h1 => by
              have a := ih r1 (r.st.store.childAt f l .f) (r.st.store.childAt g l .f)
              have b := applyR_erase' gt tg cap p op fuel r1 (r.st.store.childAt f l .f) (r.st.store.childAt g l .f)
              rw [h1] at a b
              exact ⟨a, b⟩)
            (applyS_grows gt tg p op fuel _ _ _)

/-- **`iteR cap` succeeds iff `iteS` fits `cap`** -/
theorem iteR_thr (gt : Edge → Edge → Bool) (tg : BinOp → TDDOp) (cap : Option Nat) (p : APolicy)
    (fuel : Nat) : ∀ (r : RSt) (f g h : Edge),
    Thr cap r.st.store (iteR gt tg cap p fuel r f g h) (iteS gt tg p fuel r.st f g h) := by
  induction fuel with
  | zero => intro r f g h; simp only [iteR, iteS]; exact Thr.pure rfl
  | succ fuel ih =>
    intro r f g h
    simp only [iteR, iteS]
    cases hP : iteShortcutS f g h with
    | done y => exact Thr.pure rfl
    | bin op a b => exact applyR_thr gt tg cap p op fuel r a b
    | notOf a => exact notR_thr cap p fuel r a
    | recurse =>
      simp only
      cases hget : p.get r.st.tick r.st.cache (.ite, [f, g, h]) with
      | some y => exact Thr.pure rfl
      | none =>
        simp only
        cases hl : lmin (lmin (r.st.store.level? f) (r.st.store.level? g)) (r.st.store.level? h) with
        | none => exact Thr.pure rfl
        | some l =>
          simp only
          exact Thr.fork (r := r.tickd) (ih r.tickd _ _ _) (iteR_erase' gt tg cap p fuel r.tickd _ _ _)
            (iteS_grows gt tg p fuel _ _ _ _)
            (fun r1 h1 => by
              have a := ih r1 (r.st.store.childAt f l .u) (r.st.store.childAt g l .u) (r.st.store.childAt h l .u)
              have b := iteR_erase' gt tg cap p fuel r1 (r.st.store.childAt f l .u) (r.st.store.childAt g l .u) (r.st.store.childAt h l .u)
              rw [h1] at a b
              exact ⟨a, b⟩)
            (iteS_grows gt tg p fuel _ _ _ _)
            (fun r1 h1 => by
              have a := ih r1 (r.st.store.childAt f l .f) (r.st.store.childAt g l .f) (r.st.store.childAt h l .f)
              have b := iteR_erase' gt tg cap p fuel r1 (r.st.store.childAt f l .f) (r.st.store.childAt g l .f) (r.st.store.childAt h l .f)
              rw [h1] at a b
              exact ⟨a, b⟩)
            (iteS_grows gt tg p fuel _ _ _ _)

end OxiddModel.Tdd.Rc
