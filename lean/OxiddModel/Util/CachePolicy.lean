/-!
# Generic apply-cache policies (key type `κ`, value type `ε`)

The abstraction of `OxiddModel/Bdd/CacheS.lean`, made generic in the key and value types so that
the MTBDD and TDD store-level models (`Mtbdd/StoreS.lean`, `Tdd/StoreS.lean`) share it.

* `Policy κ ε` = what the cache implementation (`crates/oxidd-cache/src/direct.rs`) does with an
  abstract set of entries: `get tick cache key` may miss although the key is present (eviction,
  `try_lock` failure), `add tick cache key value` may drop the new entry and may drop or overwrite
  old ones. The first argument is a time stamp, so the behaviour may differ from access to access.
* `Policy.OK` is all the algorithms rely on: *a hit returns a value stored under exactly this key*
  and *`add` creates no entries other than the one it is given*.
* `Policy.exact` (never forgets), `Policy.none` (no cache) and `Policy.dm cap hash lock` (direct
  mapped with an arbitrary hash function, capacity and lock-failure pattern) are instances.
-/
namespace OxiddModel.CachePolicy

abbrev Cache (κ ε : Type) := List (κ × ε)

/-- behaviour of the cache implementation -/
structure Policy (κ ε : Type) where
  get : Nat → Cache κ ε → κ → Option ε
  add : Nat → Cache κ ε → κ → ε → Cache κ ε

/-- the two facts about the cache the algorithms rely on -/
structure Policy.OK {κ ε : Type} (p : Policy κ ε) : Prop where
  /-- a hit returns a value that is stored under *exactly* the queried key -/
  get_mem : ∀ n c k r, p.get n c k = some r → (k, r) ∈ c
  /-- `add` may forget anything, but it invents nothing -/
  add_sub : ∀ n c k r x, x ∈ p.add n c k r → x ∈ c ∨ x = (k, r)

theorem lookup_mem {α β} [BEq α] [LawfulBEq α] {l : List (α × β)} {k : α} {v : β}
    (h : l.lookup k = some v) : (k, v) ∈ l := by
  induction l with
  | nil => simp [List.lookup] at h
  | cons p ps ih =>
    obtain ⟨k', v'⟩ := p
    simp only [List.lookup] at h
    split at h
    · rename_i heq
      have := beq_iff_eq.mp heq
      cases h; subst this; exact List.mem_cons_self
    · exact List.mem_cons_of_mem _ (ih h)

variable {κ ε : Type} [DecidableEq κ]

/-- the ideal cache: unbounded, never misses a present key -/
def Policy.exact : Policy κ ε where
  get _ c k := c.lookup k
  add _ c k r := (k, r) :: c

theorem Policy.exact_ok : (Policy.exact : Policy κ ε).OK where
  get_mem _ _ _ _ h := lookup_mem h
  add_sub _ _ _ _ x h := by
    simp only [Policy.exact, List.mem_cons] at h
    rcases h with h | h
    · exact .inr h
    · exact .inl h

omit [DecidableEq κ] in
/-- no cache at all (`apply-cache` feature off) -/
def Policy.none : Policy κ ε where
  get _ _ _ := Option.none
  add _ c _ _ := c

omit [DecidableEq κ] in
theorem Policy.none_ok : (Policy.none : Policy κ ε).OK where
  get_mem _ _ _ _ h := by simp [Policy.none] at h
  add_sub _ _ _ _ _ h := .inl h

/-- a direct-mapped cache (`DMApplyCache`): `cap` buckets, bucket of a key chosen by an arbitrary
`hash`; `lock t = false` models a failing `try_lock` at time `t` (the access is skipped);
inserting evicts whatever occupies the bucket -/
def Policy.dm (cap : Nat) (hash : κ → Nat) (lock : Nat → Bool) : Policy κ ε where
  get t c k := if lock t then c.lookup k else Option.none
  add t c k r :=
    if lock t then (k, r) :: c.filter (fun x => hash x.1 % cap != hash k % cap) else c

theorem Policy.dm_ok (cap : Nat) (hash : κ → Nat) (lock : Nat → Bool) :
    (Policy.dm cap hash lock : Policy κ ε).OK where
  get_mem t c k r h := by
    simp only [Policy.dm] at h
    split at h
    · exact lookup_mem h
    · cases h
  add_sub t c k r x h := by
    simp only [Policy.dm] at h
    split at h
    · simp only [List.mem_cons, List.mem_filter] at h
      rcases h with h | h
      · exact .inr h
      · exact .inl h.1
    · exact .inl h

omit [DecidableEq κ] in
/-- a hit needs the full key: if no entry carries exactly this key, every admissible policy
misses -/
theorem Policy.OK.no_cross_hit {p : Policy κ ε} (pok : p.OK) (t : Nat) (c : Cache κ ε) (k : κ)
    (h : ∀ x, x ∈ c → x.1 ≠ k) : p.get t c k = Option.none := by
  cases hg : p.get t c k with
  | none => rfl
  | some r => exact absurd rfl (h _ (pok.get_mem t c k r hg))

end OxiddModel.CachePolicy
