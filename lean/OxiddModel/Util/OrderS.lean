/-!
# The manager's variable order as seen by the read-only queries

`Order` is the pair of arrays behind `Manager::var_to_level` / `Manager::level_to_var`
(`crates/oxidd-manager-index/src/util/var_level_map.rs`). Nodes of a store hold LEVELS; the
user speaks about VARIABLES. `PermOK` is the C03/C16 invariant "the two maps are mutually inverse
permutations of the variables".

`Order.lvl` / `Order.var` read the arrays. Outside the arrays (where the Rust code panics) they are
the identity, so that under `PermOK` the two functions are mutually inverse on all of `Nat`
(`PermOK.var_lvl`, `PermOK.lvl_var`); the query specifications nevertheless assume the variables
named by the caller to be in range, as the Rust code does.

`argVal d args v` is the value an argument list `[(variable, value), …]` gives to variable `v`:
the LAST pair naming `v` counts, `d` if there is none (`d` is what the zero-initialised table of
the respective `eval_edge` amounts to).

`threeCycle` is the smallest order that is not its own inverse; it is the order of all the
negative witnesses ("`level_to_var` used for `var_to_level`").
-/
namespace OxiddModel.OrderS

structure Order where
  v2l : Array Nat
  l2v : Array Nat
deriving Repr, DecidableEq

/-- `num_levels()` = `num_vars()` -/
def Order.n (o : Order) : Nat := o.v2l.size

/-- `var_to_level` -/
def Order.lvl (o : Order) (v : Nat) : Nat := o.v2l.getD v v

/-- `level_to_var` -/
def Order.var (o : Order) (l : Nat) : Nat := o.l2v.getD l l

/-- the two maps are mutually inverse permutations of `[0, n)` -/
def PermOK (o : Order) : Prop :=
  o.l2v.size = o.v2l.size ∧
  (∀ v, v < o.n → o.lvl v < o.n ∧ o.var (o.lvl v) = v) ∧
  (∀ l, l < o.n → o.var l < o.n ∧ o.lvl (o.var l) = l)

instance (o : Order) : Decidable (PermOK o) := by unfold PermOK; exact inferInstance

/-- the identity order on `n` variables (a fresh manager) -/
def Order.id (n : Nat) : Order := ⟨Array.range n, Array.range n⟩

/-- variable 0 on level 1, variable 1 on level 2, variable 2 on level 0: a 3-cycle, hence
`v2l ≠ l2v` -/
def threeCycle : Order := ⟨#[1, 2, 0], #[2, 0, 1]⟩

theorem threeCycle_ok : PermOK threeCycle := by decide
theorem threeCycle_not_involutive : threeCycle.v2l ≠ threeCycle.l2v := by decide

theorem lvl_ge (o : Order) {v : Nat} (h : o.n ≤ v) : o.lvl v = v := by
  unfold Order.lvl Order.n at *
  simp [Array.getD_eq_getD_getElem?, Array.getElem?_eq_none h]

theorem var_ge (o : Order) {l : Nat} (h : o.l2v.size ≤ l) : o.var l = l := by
  unfold Order.var
  simp [Array.getD_eq_getD_getElem?, Array.getElem?_eq_none h]

namespace PermOK
variable {o : Order} (h : PermOK o)
include h

theorem var_lvl (v : Nat) : o.var (o.lvl v) = v := by
  by_cases hv : v < o.n
  · exact (h.2.1 v hv).2
  · have hv' : o.n ≤ v := Nat.le_of_not_lt hv
    rw [lvl_ge o hv']
    exact var_ge o (by rw [h.1]; exact hv')

theorem lvl_var (l : Nat) : o.lvl (o.var l) = l := by
  by_cases hl : l < o.n
  · exact (h.2.2 l hl).2
  · have hl' : o.n ≤ l := Nat.le_of_not_lt hl
    rw [var_ge o (by rw [h.1]; exact hl')]
    exact lvl_ge o hl'

theorem lvl_lt {v : Nat} (hv : v < o.n) : o.lvl v < o.n := (h.2.1 v hv).1
theorem var_lt {l : Nat} (hl : l < o.n) : o.var l < o.n := (h.2.2 l hl).1

theorem lvl_inj {v w : Nat} (e : o.lvl v = o.lvl w) : v = w := by
  rw [← h.var_lvl v, ← h.var_lvl w, e]

theorem var_inj {l k : Nat} (e : o.var l = o.var k) : l = k := by
  rw [← h.lvl_var l, ← h.lvl_var k, e]

theorem lvl_eq_iff (v l : Nat) : o.lvl v = l ↔ v = o.var l :=
  ⟨fun e => by rw [← e, h.var_lvl], fun e => by rw [e, h.lvl_var]⟩

end PermOK

/-- the order with the two arrays exchanged: running code that reads `level_to_var` where
`var_to_level` belongs under `o` is running the correct code under `o.swap` -/
def Order.swap (o : Order) : Order := ⟨o.l2v, o.v2l⟩

theorem swap_lvl (o : Order) (v : Nat) : o.swap.lvl v = o.var v := rfl
theorem swap_var (o : Order) (l : Nat) : o.swap.var l = o.lvl l := rfl

theorem PermOK.swap {o : Order} (h : PermOK o) : PermOK o.swap := by
  have hn : o.swap.n = o.n := h.1
  refine ⟨h.1.symm, ?_, ?_⟩
  · intro v hv; rw [hn] at *; exact h.2.2 v hv
  · intro l hl; rw [hn] at *; exact h.2.1 l hl

theorem PermOK.swap_n {o : Order} (h : PermOK o) : o.swap.n = o.n := h.1

theorem id_ok (n : Nat) : PermOK (Order.id n) := by
  have g : ∀ v, v < n → (Array.range n).getD v v = v := by
    intro v hv
    simp [Array.getD_eq_getD_getElem?, hv]
  refine ⟨rfl, ?_, ?_⟩
  · intro v hv
    have hv' : v < n := by simpa [Order.n, Order.id] using hv
    simp only [Order.lvl, Order.var, Order.id, Order.n, Array.size_range, g v hv']
    exact ⟨hv', trivial⟩
  · intro v hv
    have hv' : v < n := by simpa [Order.n, Order.id] using hv
    simp only [Order.lvl, Order.var, Order.id, Order.n, Array.size_range, g v hv']
    exact ⟨hv', trivial⟩

/-! ## argument lists -/

/-- the value the argument list gives to variable `v`: last occurrence wins, `d` if none -/
def argVal {α : Type} (d : α) (args : List (Nat × α)) (v : Nat) : α :=
  args.foldl (fun acc a => if a.1 = v then a.2 else acc) d

theorem argVal_nil {α : Type} (d : α) (v : Nat) : argVal d [] v = d := rfl

theorem argVal_append_single {α : Type} (d : α) (args : List (Nat × α)) (a : Nat × α) (v : Nat) :
    argVal d (args ++ [a]) v = if a.1 = v then a.2 else argVal d args v := by
  simp [argVal, List.foldl_append]

/-- a later pair for the same variable overrides all earlier ones -/
theorem argVal_last {α : Type} (d : α) (args : List (Nat × α)) (v : Nat) (x : α) :
    argVal d (args ++ [(v, x)]) v = x := by
  simp [argVal_append_single]

/-- update of an assignment of the variables -/
def updV {α : Type} (ρ : Nat → α) (v : Nat) (x : α) : Nat → α := fun w => if w = v then x else ρ w

/-- a table indexed by LEVEL and filled through `var_to_level` holds at level `l` what the argument
list says about the variable of that level. `get`/`set` are the table's access functions (bit set,
packed words, …), `enc` the encoding of a value; `hset` is the only fact needed about them. -/
theorem table_fill {α τ β : Type} (o : Order) (hp : PermOK o)
    (set : τ → Nat → α → τ) (get : τ → Nat → β) (enc : α → β) (ok : τ → Prop)
    (hok : ∀ t l x, l < o.n → ok t → ok (set t l x))
    (hset : ∀ t l x k, l < o.n → ok t → get (set t l x) k = if k = l then enc x else get t k)
    (args : List (Nat × α)) (hargs : ∀ a ∈ args, a.1 < o.n) :
    ∀ (t : τ) (d : α) (l : Nat), ok t → get t l = enc d →
      get (args.foldl (fun t a => set t (o.lvl a.1) a.2) t) l
        = enc (args.foldl (fun acc a => if a.1 = o.var l then a.2 else acc) d) := by
  induction args with
  | nil => intro t d l _ h0; exact h0
  | cons a rest ih =>
    intro t d l hokt h0
    simp only [List.foldl_cons]
    have ha : a.1 < o.n := hargs a List.mem_cons_self
    apply ih (fun b hb => hargs b (List.mem_cons_of_mem _ hb))
    · exact hok _ _ _ (hp.lvl_lt ha) hokt
    · rw [hset _ _ _ _ (hp.lvl_lt ha) hokt]
      by_cases e : l = o.lvl a.1
      · have h1 : a.1 = o.var l := (hp.lvl_eq_iff _ _).mp e.symm
        rw [if_pos e, if_pos h1]
      · have : ¬ a.1 = o.var l := fun e' => e ((hp.lvl_eq_iff _ _).mpr e').symm
        simp [e, this, h0]

/-- … and the invariant `ok` of the table survives the loop -/
theorem table_fill_ok {α τ : Type} (o : Order) (hp : PermOK o)
    (set : τ → Nat → α → τ) (ok : τ → Prop)
    (hok : ∀ t l x, l < o.n → ok t → ok (set t l x))
    (args : List (Nat × α)) (hargs : ∀ a ∈ args, a.1 < o.n) :
    ∀ (t : τ), ok t → ok (args.foldl (fun t a => set t (o.lvl a.1) a.2) t) := by
  induction args with
  | nil => intro t h; exact h
  | cons a rest ih =>
    intro t h
    simp only [List.foldl_cons]
    exact ih (fun b hb => hargs b (List.mem_cons_of_mem _ hb)) _
      (hok _ _ _ (hp.lvl_lt (hargs a List.mem_cons_self)) h)

end OxiddModel.OrderS
