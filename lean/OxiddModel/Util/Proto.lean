/-!
Line-protocol plumbing shared by all model drivers.

A *protocol* is a state type with an initial state and a total step function
from one input line to one output line.  The driver prints exactly one output
line per input line so that the implementation's and the model's streams can
be compared line by line.
-/
namespace OxiddModel

structure Proto where
  σ : Type
  init : σ
  step : σ → String → σ × String

/-- Split a protocol line into its blank-separated words (empty words dropped). -/
def words (line : String) : List String :=
  (line.trimAscii.toString.splitOn " ").filter (· ≠ "")

/-- Lines starting with `#` and `case` lines are echoed verbatim by every protocol;
a `case` line also resets the state. -/
def Proto.stepLine (p : Proto) (s : p.σ) (line : String) : p.σ × String :=
  let l := line.trimAscii.toString
  if l.startsWith "#" || l.isEmpty then (s, l)
  else if l.startsWith "case" then (p.init, l)
  else p.step s l

partial def Proto.loop (p : Proto) (h : IO.FS.Stream) (out : IO.FS.Stream) (s : p.σ) : IO Unit := do
  let line ← h.getLine
  if line.isEmpty then return ()
  let (s', o) := p.stepLine s line
  out.putStrLn o
  p.loop h out s'

def boolStr (b : Bool) : String := if b then "1" else "0"

def joinSp (l : List String) : String := " ".intercalate l

end OxiddModel
