/-!
# Slot arrays with lookup-or-allocate (hash consing, generic in the element type)

An `Array (Option α)` is a table of slots (occupied / free). `find?` is the unique-table lookup,
`alloc` takes the first free slot or grows the array, `intern` is lookup-or-allocate
(`get_or_insert` of a level's unique table; `get_edge` of the dynamic terminal manager,
`crates/oxidd-manager-index/src/terminal_manager/dynamic.rs`). The lemmas are those proved for the
BDD node store in `OxiddModel/Bdd/StoreRefine.lean`, here for any element type, so that the MTBDD
model can use them for inner nodes *and* for the table of terminal values, and the TDD model for
its ternary nodes.
-/
namespace OxiddModel.Slots

variable {α : Type}

def get? (a : Array (Option α)) (i : Nat) : Option α := (a[i]?).join

/-- slot allocation: first free slot, else grow -/
def alloc (a : Array (Option α)) (x : α) : Array (Option α) × Nat :=
  match a.findIdx? (·.isNone) with
  | some i => (a.set! i (some x), i)
  | none => (a.push (some x), a.size)

/-- extension: every occupied slot keeps its content -/
def Le (a b : Array (Option α)) : Prop := ∀ i x, get? a i = some x → get? b i = some x

theorem Le.refl (a : Array (Option α)) : Le a a := fun _ _ h => h
theorem Le.trans {a b c : Array (Option α)} (h1 : Le a b) (h2 : Le b c) : Le a c :=
  fun i x h => h2 i x (h1 i x h)

/-- no two slots hold the same element (the hash-consing invariant) -/
def Unique (a : Array (Option α)) : Prop :=
  ∀ i j x, get? a i = some x → get? a j = some x → i = j

theorem unique_empty : Unique (#[] : Array (Option α)) := by
  intro i j x hi; simp [get?] at hi

theorem get?_alloc (a : Array (Option α)) (x : α) (j : Nat) :
    get? (alloc a x).1 j = if j = (alloc a x).2 then some x else get? a j := by
  unfold alloc
  split
  · rename_i i hi
    have hlt : i < a.size := (Array.findIdx?_eq_some_iff_findIdx_eq.mp hi).1
    simp only [get?]
    by_cases hj : j = i
    · subst hj; simp [Array.set!, hlt]
    · simp [Array.set!, hj, Ne.symm hj]
  · simp only [get?]
    by_cases hj : j = a.size
    · subst hj; simp
    · simp [Array.getElem?_push, hj]

theorem alloc_fresh (a : Array (Option α)) (x : α) : get? a (alloc a x).2 = none := by
  unfold alloc
  split
  · rename_i i hi
    obtain ⟨hlt, heq⟩ := Array.findIdx?_eq_some_iff_findIdx_eq.mp hi
    have := Array.findIdx_getElem (xs := a) (p := (·.isNone)) (w := by rw [heq]; exact hlt)
    simp only [heq] at this
    simp only [get?, hlt, Array.getElem?_eq_getElem]
    cases h : a[i] with
    | none => rfl
    | some y => rw [h] at this; cases this
  · simp [get?]

theorem alloc_le (a : Array (Option α)) (x : α) : Le a (alloc a x).1 := by
  intro i m hi
  rw [get?_alloc]
  split
  · rename_i h; subst h; rw [alloc_fresh] at hi; cases hi
  · exact hi

variable [DecidableEq α]

/-- unique-table lookup -/
def find? (a : Array (Option α)) (x : α) : Option Nat := a.findIdx? (· == some x)

theorem find?_some {a : Array (Option α)} {x : α} {i : Nat} (h : find? a x = some i) :
    get? a i = some x := by
  unfold find? at h
  obtain ⟨hlt, heq⟩ := Array.findIdx?_eq_some_iff_findIdx_eq.mp h
  have := Array.findIdx_getElem (xs := a) (p := (· == some x)) (w := by rw [heq]; exact hlt)
  simp only [heq] at this
  simp [get?, hlt, beq_iff_eq.mp this]

theorem find?_none {a : Array (Option α)} {x : α} (h : find? a x = none) :
    ∀ i, get? a i ≠ some x := by
  intro i hi
  unfold find? at h
  rw [Array.findIdx?_eq_none_iff] at h
  unfold get? at hi
  cases hx : a[i]? with
  | none => simp [hx] at hi
  | some y =>
    have hmem : y ∈ a := Array.mem_of_getElem? hx
    have := h y hmem
    simp [hx] at hi
    subst hi
    simp at this

/-- lookup-or-allocate -/
def intern (a : Array (Option α)) (x : α) : Array (Option α) × Nat :=
  match find? a x with
  | some i => (a, i)
  | none => alloc a x

theorem intern_le (a : Array (Option α)) (x : α) : Le a (intern a x).1 := by
  unfold intern; split
  · exact Le.refl _
  · exact alloc_le _ _

theorem intern_get (a : Array (Option α)) (x : α) :
    get? (intern a x).1 (intern a x).2 = some x := by
  unfold intern; split
  · rename_i i hi; exact find?_some hi
  · rw [get?_alloc]; simp

theorem intern_unique (a : Array (Option α)) (x : α) (hu : Unique a) : Unique (intern a x).1 := by
  unfold intern; split
  · exact hu
  · rename_i hnone
    intro i j n hi hj
    simp only [get?_alloc] at hi hj
    split at hi <;> split at hj
    · omega
    · cases hi; exact absurd hj (find?_none hnone j)
    · cases hj; exact absurd hi (find?_none hnone i)
    · exact hu i j n hi hj

/-- an element that is already present is found again: nothing is allocated and the very same
index is returned -/
theorem intern_of_get {a : Array (Option α)} (hu : Unique a) {x : α} {i : Nat}
    (h : get? a i = some x) : intern a x = (a, i) := by
  unfold intern
  cases hf : find? a x with
  | none => exact absurd h (find?_none hf i)
  | some j => rw [hu j i _ (find?_some hf) h]

/-- what `intern` stores besides the old content is exactly `x` -/
theorem intern_get_inv (a : Array (Option α)) (x : α) (j : Nat) (y : α)
    (h : get? (intern a x).1 j = some y) : get? a j = some y ∨ y = x := by
  unfold intern at h; split at h
  · exact .inl h
  · rw [get?_alloc] at h; split at h
    · cases h; exact .inr rfl
    · exact .inl h

end OxiddModel.Slots
