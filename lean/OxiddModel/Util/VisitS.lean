/-!
# The visited-set traversal behind `Function::node_count` (generic in the node ids)

`crates/oxidd-core/src/function.rs`:
```
fn inner<M: Manager>(manager: &M, e: &M::Edge, set: &mut M::NodeSet) {
    if set.insert(e) && let Node::Inner(node) = manager.get_node(e) {
        for e in node.children() { inner(manager, &*e, set) }
    }
}
… let mut set = Default::default(); inner(manager, edge, &mut set); set.len()
```
`NodeSet` of the index manager (`manager.rs`, `struct NodeSet { len, data: FixedBitSet }`) keys on
`edge.node_id()`, i.e. on the node and not on the edge tag: `insert` sets the bit of the id and
increments `len` iff the bit was clear. Here the set is the duplicate-free list of the ids inserted
(`len` = its length, `visit_nodup`), `kids x` are the ids of the children of node `x` in iteration
order (`[]` for a terminal), and the recursion is by fuel.

Theorems (`rk` is any rank that strictly decreases from a node to its children on the part of the
graph reachable from the root — the diagram is acyclic; for a store it is the size of the denoted
tree):

* `visit_spec`: the traversal returns a duplicate-free list and adds exactly the ids reachable
  from the root (pre-order insertion: the root is in the set while its children are visited);
* `visit_count`: from the empty set, the result lists exactly the reachable ids, each once;
* `count_unique`: hence its length is the length of ANY duplicate-free enumeration of the
  reachable ids;
* `visit_order_independent`: visiting the children in another order (any `kids'` with the same
  members) gives the same count.
-/
namespace OxiddModel.VisitS

variable {ι : Type}

inductive Reach (kids : ι → List ι) : ι → ι → Prop
  | refl : Reach kids x x
  | step : y ∈ kids x → Reach kids y z → Reach kids x z

theorem Reach.trans {kids : ι → List ι} {x y z : ι} (h1 : Reach kids x y) (h2 : Reach kids y z) :
    Reach kids x z := by
  induction h1 with
  | refl => exact h2
  | step hk _ ih => exact .step hk (ih h2)

theorem reach_iff {kids : ι → List ι} {x y : ι} :
    Reach kids x y ↔ y = x ∨ ∃ k ∈ kids x, Reach kids k y := by
  constructor
  · intro h
    cases h with
    | refl => exact .inl rfl
    | step hk hr => exact .inr ⟨_, hk, hr⟩
  · rintro (rfl | ⟨k, hk, hr⟩)
    · exact .refl
    · exact .step hk hr

/-- the rank strictly decreases along every edge below `x` -/
def Ranked (kids : ι → List ι) (rk : ι → Nat) (x : ι) : Prop :=
  ∀ y, Reach kids x y → ∀ z ∈ kids y, rk z < rk y

theorem Ranked.kid {kids : ι → List ι} {rk : ι → Nat} {x k : ι} (h : Ranked kids rk x)
    (hk : k ∈ kids x) : Ranked kids rk k :=
  fun y hy z hz => h y (.step hk hy) z hz

theorem Ranked.reach {kids : ι → List ι} {rk : ι → Nat} {x y : ι} (h : Ranked kids rk x)
    (hy : Reach kids x y) : Ranked kids rk y :=
  fun z hz w hw => h z (hy.trans hz) w hw

theorem Ranked.le {kids : ι → List ι} {rk : ι → Nat} {x y : ι} (h : Ranked kids rk x)
    (hy : Reach kids x y) : rk y ≤ rk x := by
  induction hy with
  | refl => exact Nat.le_refl _
  | @step x k z hk _ ih =>
    have h1 := h x .refl k hk
    have h2 := ih (h.kid hk)
    omega

/-- the part of the set that lies below `x` is closed under reachability -/
def ClosedBelow (kids : ι → List ι) (set : List ι) (x : ι) : Prop :=
  ∀ y ∈ set, Reach kids x y → ∀ z, Reach kids y z → z ∈ set

variable [DecidableEq ι]

/-- `inner` of `node_count` -/
def visit (kids : ι → List ι) : Nat → List ι → ι → List ι
  | 0, set, _ => set
  | fuel+1, set, x =>
    if set.contains x then set
    else (kids x).foldl (fun s k => visit kids fuel s k) (x :: set)

/-- `node_count`: `set.len()` after the traversal from the empty set -/
def count (kids : ι → List ι) (fuel : Nat) (x : ι) : Nat := (visit kids fuel [] x).length

theorem contains_iff {set : List ι} {x : ι} : set.contains x = true ↔ x ∈ set := by
  simp

section
variable (kids : ι → List ι) (rk : ι → Nat)

/-- the loop over the children, given the specification of the recursive calls -/
theorem fold_spec (fuel : Nat)
    (ih : ∀ set x, Ranked kids rk x → rk x < fuel → set.Nodup → ClosedBelow kids set x →
      (visit kids fuel set x).Nodup ∧ ∀ y, y ∈ visit kids fuel set x ↔ y ∈ set ∨ Reach kids x y)
    (ks : List ι) : ∀ set : List ι, (∀ k ∈ ks, Ranked kids rk k ∧ rk k < fuel) → set.Nodup →
      (∀ k ∈ ks, ClosedBelow kids set k) →
      (ks.foldl (fun s k => visit kids fuel s k) set).Nodup ∧
      ∀ y, y ∈ ks.foldl (fun s k => visit kids fuel s k) set ↔
        y ∈ set ∨ ∃ k ∈ ks, Reach kids k y := by
  induction ks with
  | nil =>
    intro set _ hn _
    refine ⟨hn, fun y => ⟨.inl, ?_⟩⟩
    rintro (h | ⟨k, hk, _⟩)
    · exact h
    · cases hk
  | cons k ks ihk =>
    intro set hr hn hc
    simp only [List.foldl_cons]
    obtain ⟨n1, m1⟩ := ih set k (hr k List.mem_cons_self).1 (hr k List.mem_cons_self).2 hn
      (hc k List.mem_cons_self)
    have hc' : ∀ k' ∈ ks, ClosedBelow kids (visit kids fuel set k) k' := by
      intro k' hk' y hy hry z hz
      rcases (m1 y).mp hy with hy | hy
      · exact (m1 z).mpr (.inl (hc k' (List.mem_cons_of_mem _ hk') y hy hry z hz))
      · exact (m1 z).mpr (.inr (hy.trans hz))
    obtain ⟨n2, m2⟩ := ihk _ (fun k' hk' => hr k' (List.mem_cons_of_mem _ hk')) n1 hc'
    refine ⟨n2, fun y => ?_⟩
    rw [m2 y, m1 y]
    constructor
    · rintro ((h | h) | ⟨k', hk', h⟩)
      · exact .inl h
      · exact .inr ⟨k, List.mem_cons_self, h⟩
      · exact .inr ⟨k', List.mem_cons_of_mem _ hk', h⟩
    · rintro (h | ⟨k', hk', h⟩)
      · exact .inl (.inl h)
      · rcases List.mem_cons.mp hk' with rfl | hk'
        · exact .inl (.inr h)
        · exact .inr ⟨k', hk', h⟩

/-- the traversal adds exactly the reachable ids, each once -/
theorem visit_spec : ∀ (fuel : Nat) (set : List ι) (x : ι), Ranked kids rk x → rk x < fuel →
    set.Nodup → ClosedBelow kids set x →
    (visit kids fuel set x).Nodup ∧ ∀ y, y ∈ visit kids fuel set x ↔ y ∈ set ∨ Reach kids x y := by
  intro fuel
  induction fuel with
  | zero => intro set x _ hf; omega
  | succ fuel ih =>
    intro set x hr hf hn hc
    simp only [visit]
    split
    · rename_i hx
      have hx' : x ∈ set := contains_iff.mp hx
      refine ⟨hn, fun y => ⟨.inl, ?_⟩⟩
      rintro (h | h)
      · exact h
      · exact hc x hx' .refl y h
    · rename_i hx
      have hx' : x ∉ set := fun h => hx (contains_iff.mpr h)
      have hks : ∀ k ∈ kids x, Ranked kids rk k ∧ rk k < fuel := by
        intro k hk
        have := hr x .refl k hk
        exact ⟨hr.kid hk, by omega⟩
      have hc' : ∀ k ∈ kids x, ClosedBelow kids (x :: set) k := by
        intro k hk y hy hry z hz
        rcases List.mem_cons.mp hy with rfl | hy
        · have h1 := (hr.kid hk).le hry
          have h2 := hr y .refl k hk
          omega
        · exact List.mem_cons_of_mem _ (hc y hy (.step hk hry) z hz)
      obtain ⟨n2, m2⟩ := fold_spec kids rk fuel ih (kids x) (x :: set) hks
        (List.nodup_cons.mpr ⟨hx', hn⟩) hc'
      refine ⟨n2, fun y => ?_⟩
      rw [m2 y, List.mem_cons, reach_iff (x := x)]
      constructor
      · rintro ((h | h) | h)
        · exact .inr (.inl h)
        · exact .inl h
        · exact .inr (.inr h)
      · rintro (h | h | h)
        · exact .inl (.inr h)
        · exact .inl (.inl h)
        · exact .inr h

/-- from the empty set: exactly the reachable ids, each once -/
theorem visit_count (fuel : Nat) (x : ι) (hr : Ranked kids rk x) (hf : rk x < fuel) :
    (visit kids fuel [] x).Nodup ∧ ∀ y, y ∈ visit kids fuel [] x ↔ Reach kids x y := by
  obtain ⟨n, m⟩ := visit_spec kids rk fuel [] x hr hf List.nodup_nil
    (fun y hy => by cases hy)
  exact ⟨n, fun y => by simp [m y]⟩

/-- the count is the length of any duplicate-free enumeration of the reachable ids -/
theorem count_unique (fuel : Nat) (x : ι) (hr : Ranked kids rk x) (hf : rk x < fuel)
    (L : List ι) (hL : L.Nodup) (hm : ∀ y, y ∈ L ↔ Reach kids x y) :
    count kids fuel x = L.length := by
  obtain ⟨n, m⟩ := visit_count kids rk fuel x hr hf
  unfold count
  exact ((List.perm_ext_iff_of_nodup n hL).mpr (fun y => by rw [m, hm])).length_eq

/-- more fuel does not change the count -/
theorem count_fuel (fuel fuel' : Nat) (x : ι) (hr : Ranked kids rk x) (hf : rk x < fuel)
    (hf' : rk x < fuel') : count kids fuel x = count kids fuel' x := by
  obtain ⟨n, m⟩ := visit_count kids rk fuel' x hr hf'
  exact count_unique kids rk fuel x hr hf _ n m

end

omit [DecidableEq ι] in
theorem reach_congr {kids kids' : ι → List ι} (h : ∀ x y, y ∈ kids' x ↔ y ∈ kids x) {x y : ι} :
    Reach kids' x y ↔ Reach kids x y := by
  constructor
  · intro hr
    induction hr with
    | refl => exact .refl
    | step hk _ ih => exact .step ((h _ _).mp hk) ih
  · intro hr
    induction hr with
    | refl => exact .refl
    | step hk _ ih => exact .step ((h _ _).mpr hk) ih

/-- the count does not depend on the order in which the children are visited -/
theorem visit_order_independent (kids kids' : ι → List ι) (rk : ι → Nat)
    (h : ∀ x y, y ∈ kids' x ↔ y ∈ kids x) (fuel : Nat) (x : ι)
    (hr : Ranked kids rk x) (hf : rk x < fuel) :
    count kids' fuel x = count kids fuel x := by
  have hr' : Ranked kids' rk x := fun y hy z hz => hr y ((reach_congr h).mp hy) z ((h _ _).mp hz)
  obtain ⟨n, m⟩ := visit_count kids rk fuel x hr hf
  exact count_unique kids' rk fuel x hr' hf _ n (fun y => by rw [m, reach_congr h])

/-- non-vacuity: a diamond `0 → 1, 2 → 3` has four nodes, whichever child is visited first -/
example :
    count (fun x : Nat => if x = 0 then [1, 2] else if x = 3 then [] else [3]) 5 0 = 4 ∧
    count (fun x : Nat => if x = 0 then [2, 1] else if x = 3 then [] else [3]) 5 0 = 4 := by
  decide

end OxiddModel.VisitS
