import OxiddModel.Util.Proto
import OxiddModel.VarNames.Model

/-!
# C16 — line-protocol driver `names`

State: a bare `VarNameMap` and a manager `Mgr` driven by the same lines (the Rust scenario drives
`oxidd_core::util::VarNameMap` and a real `oxidd::bdd` manager), plus the number of live BDD
handles (handles only matter for the oracles on the Rust side).

Name tokens: `-` is the empty name, every other name is percent-encoded (`[A-Za-z0-9_]` literally,
every other UTF-8 byte as `%XX`, upper-case hex).  The encoding is a bijection between names and
canonical tokens, so the model works on the tokens directly (a token is *the* name); only `-` is
translated (to `""`, the one name the code treats specially).  A batch of names is `.` (empty
batch) or tokens joined by `|`.

Operations and outputs (`B` = bare map, `M` = manager):

* `addvars k`            → `<rangeB> <rangeM> ; <stateB> ; <stateM>`
* `addnamed <batch>`     → `<resB> <resM> ; <stateB> ; <stateM>`, res = `s..e` | `DUP <tok> <present> s..e`
* `frommap <batch>`      → same (the map is built by `add_named` on a fresh map, error ignored)
* `frommapclone <batch>` → same as `frommap` (the scenario hands over clones of the map and drops
  the original; a clone is the same map)
* `setname v <tok>`      → `<resB> <resM> ; …`, res = `ok` | `DUP <tok> <present> s..e` | `PANIC`
* `getoradd <tok>`       → `<var>,<found> <var>,<found> ; …` (manager: `name_to_var` else `add_named_vars([name])`)
* `lookup <tok>`         → `<B> <M>` with `none` or the variable
* `varname v`            → `<tokB> <tokM>` (`bad-op` unless `v < len`)
* `names`                → `<stateB> ; <stateM>`
* `hvar v` / `hop and|or|xor i j` / `gc` → `ok` (`bad-op` if a variable/handle does not exist)

`stateB` = `<len> <named_count> <names> <index>`, `stateM` = `<num_levels> <num_vars>
<num_named_vars> <names> <index>`; `<names>` = tokens joined by `|` (`.` if there is no variable),
`<index>` = `tok=var` pairs sorted by token joined by `,` (`.` if empty).
-/
namespace OxiddModel.VarNames

open VarNameMap

structure St where
  bare : VarNameMap
  mgr : Mgr
  handles : Nat
  deriving Inhabited

def St.init : St := ⟨VarNameMap.new, Mgr.init, 0⟩

/-! ### tokens -/

def hexVal (c : Char) : Option Nat :=
  if '0' ≤ c ∧ c ≤ '9' then some (c.toNat - '0'.toNat)
  else if 'A' ≤ c ∧ c ≤ 'F' then some (c.toNat - 'A'.toNat + 10)
  else none

def unreserved (c : Char) : Bool :=
  ('a' ≤ c && c ≤ 'z') || ('A' ≤ c && c ≤ 'Z') || ('0' ≤ c && c ≤ '9') || c == '_'

/-- decode a canonical percent-encoded token into bytes; `none` if not canonical -/
def decodeBytes : List Char → ByteArray → Option ByteArray
  | [], acc => some acc
  | '%' :: a :: b :: rest, acc =>
    match hexVal a, hexVal b with
    | some x, some y =>
      let v := 16 * x + y
      if v < 128 && unreserved (Char.ofNat v) then none
      else decodeBytes rest (acc.push v.toUInt8)
    | _, _ => none
  | c :: rest, acc => if unreserved c then decodeBytes rest (acc.push c.toNat.toUInt8) else none

/-- name token → name (`none` = ill-formed) -/
def parseName (t : String) : Option String :=
  if t = "-" then some ""
  else if t.isEmpty then none
  else match decodeBytes t.toList ByteArray.empty with
    | some bs => if (String.fromUTF8? bs).isSome then some t else none
    | none => none

def showName (n : String) : String := if n = "" then "-" else n

def parseBatchAux : List String → List String → Option (List String)
  | [], acc => some acc.reverse
  | t :: ts, acc => match parseName t with
    | some n => parseBatchAux ts (n :: acc)
    | none => none

def parseBatch (t : String) : Option (List String) :=
  if t = "." then some [] else parseBatchAux (t.splitOn "|") []

/-- decimal number: 1 to 9 digits, nothing else (the scenario uses the same rule) -/
def parseNum (t : String) : Option Nat :=
  if t.isEmpty || t.length > 9 || !t.all Char.isDigit then none else t.toNat?

/-- `addvars` argument: at most 4096 variables per call (keeps both sides small) -/
def parseCount (t : String) : Option Nat :=
  match parseNum t with
  | some k => if k ≤ 4096 then some k else none
  | none => none

/-! ### printing -/

def showNames (l : List String) : String :=
  if l.isEmpty then "." else "|".intercalate (l.map showName)

def showIndex (ix : List (String × Nat)) : String :=
  if ix.isEmpty then "."
  else
    let sorted := ix.mergeSort (fun a b => decide (a.1 ≤ b.1))
    ",".intercalate (sorted.map fun (k, v) => s!"{showName k}={v}")

def showAdd : AddRes → String
  | .ok s e => s!"{s}..{e}"
  | .dup n pv s e => s!"DUP {showName n} {pv} {s}..{e}"

def showSet : SetRes → String
  | .ok => "ok"
  | .dup n pv s e => s!"DUP {showName n} {pv} {s}..{e}"
  | .panic => "PANIC"

def showOpt : Option Nat → String
  | none => "none"
  | some v => toString v

def showBare (m : VarNameMap) : String :=
  s!"{m.len} {m.namedCount} {showNames m.names} {showIndex m.index}"

def showMgr (g : Mgr) : String :=
  s!"{g.numLevels} {g.numVars} {g.numNamedVars} {showNames g.map.names} {showIndex g.map.index}"

def showState (s : St) : String := s!"{showBare s.bare} ; {showMgr s.mgr}"

def withState (s : St) (rb rm : String) : St × String := (s, s!"{rb} {rm} ; {showState s}")

/-! ### the step function -/

def bad (s : St) : St × String := (s, "bad-op")

/-- `frommap` / `frommapclone` (a clone of a map is the same map) -/
def fromMap (s : St) (batch : String) : St × String :=
  match parseBatch batch with
  | some l =>
    let map := (VarNameMap.new.addNamed l).1
    let (b, rb) := s.bare.addNamed map.intoNames
    let (g, rm) := s.mgr.addNamedVarsFromMap map
    withState { s with bare := b, mgr := g } (showAdd rb) (showAdd rm)
  | none => bad s

def step (s : St) (line : String) : St × String :=
  match words line with
  | ["addvars", k] =>
    match parseCount k with
    | some k =>
      let lenB := s.bare.len
      let b := s.bare.addUnnamed k
      let (g, r) := s.mgr.addVars k
      withState { s with bare := b, mgr := g } (showAdd (.ok lenB b.len)) (showAdd r)
    | none => bad s
  | ["addnamed", batch] =>
    match parseBatch batch with
    | some l =>
      let (b, rb) := s.bare.addNamed l
      let (g, rm) := s.mgr.addNamedVars l
      withState { s with bare := b, mgr := g } (showAdd rb) (showAdd rm)
    | none => bad s
  | ["frommap", batch] => fromMap s batch
  | ["frommapclone", batch] => fromMap s batch
  | ["setname", v, t] =>
    match parseNum v, parseName t with
    | some v, some n =>
      let (b, rb) := s.bare.setVarName v n
      let (g, rm) := s.mgr.setVarName v n
      withState { s with bare := b, mgr := g } (showSet rb) (showSet rm)
    | _, _ => bad s
  | ["getoradd", t] =>
    match parseName t with
    | some n =>
      let (b, (vb, fb)) := s.bare.getOrAdd n
      -- manager: there is no `get_or_add`; the scenario uses `name_to_var` and falls back to
      -- `add_named_vars([name])`
      let (g, vm, fm) :=
        match (if n = "" then none else s.mgr.nameToVar n) with
        | some v => (s.mgr, v, true)
        | none =>
          let (g, r) := s.mgr.addNamedVars [n]
          match r with
          | .ok st _ => (g, st, false)
          | .dup _ pv _ _ => (g, pv, true) -- unreachable: the name was just looked up
      withState { s with bare := b, mgr := g } s!"{vb},{boolStr fb}" s!"{vm},{boolStr fm}"
    | none => bad s
  | ["lookup", t] =>
    match parseName t with
    | some n => (s, s!"{showOpt (s.bare.nameToVar n)} {showOpt (s.mgr.nameToVar n)}")
    | none => bad s
  | ["varname", v] =>
    match parseNum v with
    | some v =>
      if v < s.bare.len && v < s.mgr.numVars then
        (s, s!"{showName (s.bare.varName v)} {showName (s.mgr.varName v)}")
      else bad s
    | none => bad s
  | ["names"] => (s, showState s)
  | ["hvar", v] =>
    match parseNum v with
    | some v => if v < s.mgr.numVars then ({ s with handles := s.handles + 1 }, "ok") else bad s
    | none => bad s
  | ["hop", op, i, j] =>
    match parseNum i, parseNum j with
    | some i, some j =>
      if (op = "and" || op = "or" || op = "xor") && i < s.handles && j < s.handles then
        ({ s with handles := s.handles + 1 }, "ok")
      else bad s
    | _, _ => bad s
  | ["gc"] => (s, "ok")
  | _ => bad s

def proto : OxiddModel.Proto := { σ := St, init := St.init, step := step }

end OxiddModel.VarNames
