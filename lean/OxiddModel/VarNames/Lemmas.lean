import OxiddModel.VarNames.Model

/-!
# C16 — helper lemmas for the `VarNames` model

* association-list facts (`idxGet`, `idxRemove`, distinct keys);
* the invariant `Inv` and its characterisation `Inv m ↔ keys distinct ∧ LookupSpec m`
  (`LookupSpec`: `idxGet index n = some v ↔ n ≠ "" ∧ names[v]? = some n`);
* preservation of the invariant by the elementary state changes the operations are made of.
-/
namespace OxiddModel.VarNames

open VarNameMap

/-! ## association lists -/

def keys (ix : List (String × Nat)) : List String := ix.map Prod.fst

@[simp] theorem keys_nil : keys [] = [] := rfl
@[simp] theorem keys_cons (k : String) (v : Nat) (t : List (String × Nat)) :
    keys ((k, v) :: t) = k :: keys t := rfl

theorem mem_keys {ix : List (String × Nat)} {n : String} :
    n ∈ keys ix ↔ ∃ v, (n, v) ∈ ix := by
  induction ix with
  | nil => simp
  | cons p t ih =>
    obtain ⟨k, w⟩ := p
    simp only [keys_cons, List.mem_cons, ih, Prod.mk.injEq]
    constructor
    · rintro (h | ⟨v, h⟩)
      · exact ⟨w, Or.inl ⟨h, rfl⟩⟩
      · exact ⟨v, Or.inr h⟩
    · rintro ⟨v, (⟨h, _⟩ | h)⟩
      · exact Or.inl h
      · exact Or.inr ⟨v, h⟩

theorem idxGet_some_mem {ix : List (String × Nat)} {n : String} {v : Nat}
    (h : idxGet ix n = some v) : (n, v) ∈ ix := by
  induction ix with
  | nil => simp [idxGet] at h
  | cons p t ih =>
    obtain ⟨k, w⟩ := p
    simp only [idxGet] at h
    split at h
    · next hk => cases h; subst hk; exact List.mem_cons_self
    · exact List.mem_cons_of_mem _ (ih h)

theorem idxGet_none_iff {ix : List (String × Nat)} {n : String} :
    idxGet ix n = none ↔ n ∉ keys ix := by
  induction ix with
  | nil => simp [idxGet]
  | cons p t ih =>
    obtain ⟨k, w⟩ := p
    simp only [idxGet, keys_cons, List.mem_cons, not_or]
    split
    · next hk => subst hk; simp
    · next hk =>
      rw [ih]
      constructor
      · intro h; exact ⟨fun e => hk e.symm, h⟩
      · intro h; exact h.2

theorem idxGet_of_mem {ix : List (String × Nat)} {n : String} {v : Nat}
    (nd : (keys ix).Nodup) (h : (n, v) ∈ ix) : idxGet ix n = some v := by
  induction ix with
  | nil => simp at h
  | cons p t ih =>
    obtain ⟨k, w⟩ := p
    simp only [keys_cons, List.nodup_cons] at nd
    simp only [idxGet]
    rcases List.mem_cons.mp h with h | h
    · cases h; simp
    · split
      · next hk =>
        subst hk
        exact absurd (mem_keys.mpr ⟨v, h⟩) nd.1
      · exact ih nd.2 h

theorem idxGet_iff_mem {ix : List (String × Nat)} (nd : (keys ix).Nodup) {n : String} {v : Nat} :
    idxGet ix n = some v ↔ (n, v) ∈ ix :=
  ⟨idxGet_some_mem, idxGet_of_mem nd⟩

theorem idxGet_cons (k : String) (w : Nat) (t : List (String × Nat)) (n : String) :
    idxGet ((k, w) :: t) n = if k = n then some w else idxGet t n := rfl

theorem idxGet_remove (ix : List (String × Nat)) (k n : String) :
    idxGet (idxRemove ix k) n = if n = k then none else idxGet ix n := by
  induction ix with
  | nil => simp [idxRemove, idxGet]
  | cons p t ih =>
    obtain ⟨k', w⟩ := p
    simp only [idxRemove]
    split
    · next hk =>
      subst hk
      rw [ih, idxGet_cons]
      split
      · rfl
      · next hn => rw [if_neg (fun e => hn e.symm)]
    · next hk =>
      rw [idxGet_cons, ih, idxGet_cons]
      split
      · next h1 =>
        subst h1
        rw [if_neg (fun e => hk e)]
      · rfl

theorem mem_keys_remove {ix : List (String × Nat)} {k n : String} :
    n ∈ keys (idxRemove ix k) ↔ n ∈ keys ix ∧ n ≠ k := by
  induction ix with
  | nil => simp [idxRemove]
  | cons p t ih =>
    obtain ⟨k', w⟩ := p
    simp only [idxRemove]
    split
    · next hk =>
      subst hk
      rw [ih, keys_cons, List.mem_cons]
      constructor
      · intro h; exact ⟨Or.inr h.1, h.2⟩
      · rintro ⟨h | h, h2⟩
        · exact absurd h h2
        · exact ⟨h, h2⟩
    · next hk =>
      rw [keys_cons, keys_cons, List.mem_cons, List.mem_cons, ih]
      constructor
      · rintro (h | h)
        · subst h; exact ⟨Or.inl rfl, hk⟩
        · exact ⟨Or.inr h.1, h.2⟩
      · rintro ⟨h | h, h2⟩
        · exact Or.inl h
        · exact Or.inr ⟨h, h2⟩

theorem nodup_keys_remove {ix : List (String × Nat)} (k : String) (nd : (keys ix).Nodup) :
    (keys (idxRemove ix k)).Nodup := by
  induction ix with
  | nil => simp [idxRemove]
  | cons p t ih =>
    obtain ⟨k', w⟩ := p
    simp only [keys_cons, List.nodup_cons] at nd
    simp only [idxRemove]
    split
    · exact ih nd.2
    · rw [keys_cons, List.nodup_cons]
      exact ⟨fun h => nd.1 (mem_keys_remove.mp h).1, ih nd.2⟩

/-- removing an absent key changes nothing -/
theorem idxRemove_of_not_mem {ix : List (String × Nat)} {k : String} (h : k ∉ keys ix) :
    idxRemove ix k = ix := by
  induction ix with
  | nil => rfl
  | cons p t ih =>
    obtain ⟨k', w⟩ := p
    simp only [keys_cons, List.mem_cons, not_or] at h
    simp only [idxRemove]
    rw [if_neg (fun e => h.1 e.symm), ih h.2]

theorem length_keys (ix : List (String × Nat)) : (keys ix).length = ix.length := by
  simp [keys]

/-! ## the invariant -/

/-- **The invariant of `VarNameMap`**: `index` and `names` are mutually inverse on exactly the
named variables, and the index has no duplicate keys. -/
structure Inv (m : VarNameMap) : Prop where
  /-- every named variable is found under its name -/
  fwd : ∀ v, v < m.names.length → m.names.getD v "" ≠ "" →
    idxGet m.index (m.names.getD v "") = some v
  /-- every index entry is a named variable carrying that name -/
  bwd : ∀ n v, (n, v) ∈ m.index → n ≠ "" ∧ v < m.names.length ∧ m.names.getD v "" = n
  /-- hash-map keys are distinct -/
  nodup : (keys m.index).Nodup

/-- the index, read as a function, is exactly the inverse of `names` on non-empty names -/
def LookupSpec (m : VarNameMap) : Prop :=
  ∀ n v, idxGet m.index n = some v ↔ (n ≠ "" ∧ m.names[v]? = some n)

theorem getD_eq_of_getElem? {l : List String} {v : Nat} {n : String} (h : l[v]? = some n) :
    l.getD v "" = n := by
  simp [List.getD, h]

theorem getElem?_of_lt_getD {l : List String} {v : Nat} (h : v < l.length) :
    l[v]? = some (l.getD v "") := by
  simp [List.getD, List.getElem?_eq_getElem h]

theorem Inv.lookup {m : VarNameMap} (h : Inv m) : LookupSpec m := by
  intro n v
  constructor
  · intro hg
    have := h.bwd n v (idxGet_some_mem hg)
    refine ⟨this.1, ?_⟩
    rw [getElem?_of_lt_getD this.2.1, this.2.2]
  · rintro ⟨hn, hv⟩
    have hlt : v < m.names.length := by
      rcases Nat.lt_or_ge v m.names.length with h1 | h1
      · exact h1
      · rw [List.getElem?_eq_none h1] at hv; cases hv
    have hd := getD_eq_of_getElem? hv
    have := h.fwd v hlt (by rw [hd]; exact hn)
    rw [hd] at this
    exact this

theorem inv_of_lookup {m : VarNameMap} (nd : (keys m.index).Nodup) (h : LookupSpec m) : Inv m := by
  refine ⟨?_, ?_, nd⟩
  · intro v hv hne
    exact (h _ v).mpr ⟨hne, getElem?_of_lt_getD hv⟩
  · intro n v hmem
    have := (h n v).mp (idxGet_of_mem nd hmem)
    refine ⟨this.1, ?_, getD_eq_of_getElem? this.2⟩
    rcases Nat.lt_or_ge v m.names.length with h1 | h1
    · exact h1
    · rw [List.getElem?_eq_none h1] at this; cases this.2

theorem inv_iff (m : VarNameMap) : Inv m ↔ (keys m.index).Nodup ∧ LookupSpec m :=
  ⟨fun h => ⟨h.nodup, h.lookup⟩, fun h => inv_of_lookup h.1 h.2⟩

/-- names are injective on the named variables -/
theorem Inv.injective {m : VarNameMap} (h : Inv m) : Spec.Injective m.names := by
  intro v w n hn hv hw
  have a := (h.lookup n v).mpr ⟨hn, hv⟩
  have b := (h.lookup n w).mpr ⟨hn, hw⟩
  rw [a] at b
  exact Option.some.inj b

theorem Inv.empty_not_key {m : VarNameMap} (h : Inv m) : "" ∉ keys m.index := by
  intro hk
  obtain ⟨v, hv⟩ := mem_keys.mp hk
  exact (h.bwd "" v hv).1 rfl

theorem inv_new : Inv VarNameMap.new := by
  refine ⟨?_, ?_, ?_⟩
  · intro v hv; simp [VarNameMap.new] at hv
  · intro n v hm; simp [VarNameMap.new] at hm
  · simp [VarNameMap.new]

/-! ## elementary state changes -/

/-- appending unnamed variables -/
theorem inv_append_unnamed {m : VarNameMap} (h : Inv m) (k : Nat) :
    Inv { m with names := m.names ++ List.replicate k "" } := by
  refine @inv_of_lookup ⟨m.names ++ List.replicate k "", m.index⟩ h.nodup ?_
  intro n v
  show idxGet m.index n = some v ↔ (n ≠ "" ∧ (m.names ++ List.replicate k "")[v]? = some n)
  rw [h.lookup n v]
  constructor
  · rintro ⟨hn, hv⟩
    refine ⟨hn, ?_⟩
    rw [List.getElem?_append_left]
    · exact hv
    · rcases Nat.lt_or_ge v m.names.length with h1 | h1
      · exact h1
      · rw [List.getElem?_eq_none h1] at hv; cases hv
  · rintro ⟨hn, hv⟩
    refine ⟨hn, ?_⟩
    rcases Nat.lt_or_ge v m.names.length with h1 | h1
    · rw [List.getElem?_append_left h1] at hv; exact hv
    · rw [List.getElem?_append_right h1] at hv
      have hmem := List.mem_of_getElem? hv
      rw [List.mem_replicate] at hmem
      exact absurd hmem.2 hn

theorem inv_push_unnamed {m : VarNameMap} (h : Inv m) :
    Inv { m with names := m.names ++ [""] } :=
  inv_append_unnamed h 1

theorem getElem?_push {l : List String} {x n : String} {v : Nat} :
    (l ++ [x])[v]? = some n ↔ (l[v]? = some n ∨ (v = l.length ∧ x = n)) := by
  rcases Nat.lt_or_ge v l.length with h1 | h1
  · rw [List.getElem?_append_left h1]
    constructor
    · exact Or.inl
    · rintro (h | ⟨h, _⟩)
      · exact h
      · omega
  · rw [List.getElem?_append_right h1, List.getElem?_eq_none h1]
    constructor
    · intro h
      have hv : v - l.length = 0 := by
        rcases Nat.eq_zero_or_pos (v - l.length) with h0 | h0
        · exact h0
        · rw [List.getElem?_eq_none (by simp; omega)] at h; cases h
      rw [hv] at h
      simp at h
      exact Or.inr ⟨by omega, h⟩
    · rintro (h | ⟨h, hx⟩)
      · cases h
      · subst h; simp [hx]

/-- appending a fresh named variable (the `Entry::Vacant` branch of `add_named`/`get_or_add`) -/
theorem inv_push_named {m : VarNameMap} (h : Inv m) {name : String} (hne : name ≠ "")
    (hvac : idxGet m.index name = none) :
    Inv { names := m.names ++ [name], index := (name, m.names.length) :: m.index } := by
  apply inv_of_lookup
  · show (keys ((name, m.names.length) :: m.index)).Nodup
    rw [keys_cons, List.nodup_cons]
    exact ⟨idxGet_none_iff.mp hvac, h.nodup⟩
  · intro n v
    show idxGet ((name, m.names.length) :: m.index) n = some v ↔
      (n ≠ "" ∧ (m.names ++ [name])[v]? = some n)
    rw [idxGet_cons, getElem?_push]
    split
    · next hk =>
      subst hk
      constructor
      · intro hv; cases hv; exact ⟨hne, Or.inr ⟨rfl, rfl⟩⟩
      · rintro ⟨_, hv | ⟨hv, _⟩⟩
        · have := (h.lookup name v).mpr ⟨hne, hv⟩
          rw [hvac] at this; cases this
        · rw [hv]
    · next hk =>
      rw [h.lookup n v]
      constructor
      · rintro ⟨a, b⟩; exact ⟨a, Or.inl b⟩
      · rintro ⟨a, b | ⟨_, b⟩⟩
        · exact ⟨a, b⟩
        · exact absurd b hk

theorem getElem?_set' {l : List String} {x n : String} {var v : Nat} (hvar : var < l.length) :
    (l.set var x)[v]? = some n ↔ ((v = var ∧ x = n) ∨ (v ≠ var ∧ l[v]? = some n)) := by
  by_cases hv : v = var
  · subst hv
    rw [List.getElem?_set_self hvar]
    constructor
    · intro h; exact Or.inl ⟨rfl, Option.some.inj h⟩
    · rintro (⟨_, h⟩ | ⟨h, _⟩)
      · rw [h]
      · exact absurd rfl h
  · rw [List.getElem?_set_ne (fun e => hv e.symm)]
    constructor
    · intro h; exact Or.inr ⟨hv, h⟩
    · rintro (⟨h, _⟩ | ⟨_, h⟩)
      · exact absurd h hv
      · exact h

/-- un-naming a variable (`set_var_name(var, "")`) -/
theorem inv_unname {m : VarNameMap} (h : Inv m) {var : Nat} (hvar : var < m.names.length) :
    Inv { names := m.names.set var "", index := idxRemove m.index (m.names.getD var "") } := by
  refine @inv_of_lookup ⟨m.names.set var "", idxRemove m.index (m.names.getD var "")⟩
    (nodup_keys_remove _ h.nodup) ?_
  intro n v
  show idxGet (idxRemove m.index (m.names.getD var "")) n = some v ↔
    (n ≠ "" ∧ (m.names.set var "")[v]? = some n)
  rw [idxGet_remove, getElem?_set' hvar]
  have hprev := getElem?_of_lt_getD hvar
  split
  · next hk =>
    constructor
    · intro hh; cases hh
    · rintro ⟨hn, ⟨_, hx⟩ | ⟨hv, hl⟩⟩
      · exact absurd hx.symm hn
      · rw [← hk] at hprev
        exact absurd (h.injective v var n hn hl hprev) hv
  · next hk =>
    rw [h.lookup n v]
    constructor
    · rintro ⟨hn, hl⟩
      refine ⟨hn, Or.inr ⟨?_, hl⟩⟩
      intro hv
      subst hv
      rw [hl] at hprev
      exact hk (Option.some.inj hprev)
    · rintro ⟨hn, ⟨_, hx⟩ | ⟨_, hl⟩⟩
      · exact absurd hx.symm hn
      · exact ⟨hn, hl⟩

/-- giving a fresh name to a variable (the `Entry::Vacant` branch of `set_var_name`): covers
both the previously unnamed case and the rename (old key removed) -/
theorem inv_rename {m : VarNameMap} (h : Inv m) {var : Nat} {name : String}
    (hvar : var < m.names.length) (hne : name ≠ "") (hvac : idxGet m.index name = none) :
    Inv { names := m.names.set var name,
          index := idxRemove ((name, var) :: m.index) (m.names.getD var "") } := by
  have hprev := getElem?_of_lt_getD hvar
  have hpn : m.names.getD var "" ≠ name := by
    intro e
    rw [e] at hprev
    have := (h.lookup name var).mpr ⟨hne, hprev⟩
    rw [hvac] at this; cases this
  apply inv_of_lookup
  · apply nodup_keys_remove
    rw [keys_cons, List.nodup_cons]
    exact ⟨idxGet_none_iff.mp hvac, h.nodup⟩
  · intro n v
    show idxGet (idxRemove ((name, var) :: m.index) (m.names.getD var "")) n = some v ↔
      (n ≠ "" ∧ (m.names.set var name)[v]? = some n)
    rw [idxGet_remove, idxGet_cons, getElem?_set' hvar]
    split
    · next hk =>
      -- `n` is the old name of `var`
      constructor
      · intro hh; cases hh
      · rintro ⟨hn, ⟨_, hx⟩ | ⟨hv, hl⟩⟩
        · exact absurd (hx.trans hk).symm hpn
        · rw [← hk] at hprev
          exact absurd (h.injective v var n hn hl hprev) hv
    · next hk =>
      split
      · next hkn =>
        subst hkn
        constructor
        · intro hv; cases hv; exact ⟨hne, Or.inl ⟨rfl, rfl⟩⟩
        · rintro ⟨_, ⟨hv, _⟩ | ⟨_, hl⟩⟩
          · rw [hv]
          · have := (h.lookup name v).mpr ⟨hne, hl⟩
            rw [hvac] at this; cases this
      · next hkn =>
        rw [h.lookup n v]
        constructor
        · rintro ⟨hn, hl⟩
          refine ⟨hn, Or.inr ⟨?_, hl⟩⟩
          intro hv
          subst hv
          rw [hl] at hprev
          exact hk (Option.some.inj hprev)
        · rintro ⟨hn, ⟨_, hx⟩ | ⟨_, hl⟩⟩
          · exact absurd hx hkn
          · exact ⟨hn, hl⟩

/-- when the previous name is `""` the removal in `inv_rename` is a no-op -/
theorem remove_prev_empty {m : VarNameMap} (h : Inv m) {var : Nat} {name : String} (hne : name ≠ "")
    (hprev : m.names.getD var "" = "") :
    idxRemove ((name, var) :: m.index) (m.names.getD var "") = (name, var) :: m.index := by
  apply idxRemove_of_not_mem
  rw [hprev, keys_cons, List.mem_cons, not_or]
  exact ⟨fun e => hne e.symm, h.empty_not_key⟩

end OxiddModel.VarNames
