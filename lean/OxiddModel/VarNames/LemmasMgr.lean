import OxiddModel.VarNames.LemmasOps

/-!
# C16 — helper lemmas for the manager-level model (`Mgr`) and for `add_named_vars_from_map`
-/
namespace OxiddModel.VarNames

open VarNameMap

theorem set_self_of_getElem? {l : List String} {i : Nat} {a : String} (h : l[i]? = some a) :
    l.set i a = l := by
  have hi : i < l.length := by
    rcases Nat.lt_or_ge i l.length with h1 | h1
    · exact h1
    · rw [List.getElem?_eq_none h1] at h; cases h
  apply List.ext_getElem?
  intro j
  by_cases hj : i = j
  · subst hj; rw [List.getElem?_set_self hi]; exact h.symm
  · rw [List.getElem?_set_ne hj]

/-- the manager's three counters agree and its name map is consistent -/
structure MInv (g : Mgr) : Prop where
  levels : g.levels = g.map.names.length
  vlm : g.vlm = g.map.names.length
  map : Inv g.map

theorem addNamed_len_ge {m : VarNameMap} (h : Inv m) (l : List String) :
    m.names.length ≤ (m.addNamed l).1.names.length := by
  have := (addNamed_post h l).2
  revert this
  cases (m.addNamed l).2 with
  | ok s e => intro h1; rw [h1.1]; simp
  | dup n pv s e => rintro ⟨pre, post, _, h2, _⟩; rw [h2]; simp

theorem Mgr.addVars_inv {g : Mgr} (h : MInv g) (k : Nat) : MInv (g.addVars k).1 := by
  refine ⟨?_, ?_, addUnnamed_inv h.map k⟩
  · show g.levels + k = (g.map.names ++ List.replicate k "").length
    rw [h.levels]; simp
  · show g.vlm + k = (g.map.names ++ List.replicate k "").length
    rw [h.vlm]; simp

theorem Mgr.addNamedVars_inv {g : Mgr} (h : MInv g) (l : List String) :
    MInv (g.addNamedVars l).1 := by
  refine ⟨rfl, ?_, (addNamed_post h.map l).1⟩
  show g.vlm + ((g.map.addNamed l).1.names.length - g.map.names.length) =
    (g.map.addNamed l).1.names.length
  have := addNamed_len_ge h.map l
  rw [h.vlm]
  omega

theorem Mgr.addNamedVarsFromMap_inv {g : Mgr} (h : MInv g) {map : VarNameMap} (hm : Inv map) :
    MInv (g.addNamedVarsFromMap map).1 := by
  unfold Mgr.addNamedVarsFromMap
  split
  · exact Mgr.addNamedVars_inv h _
  · next he =>
    have he' : g.map.names = [] := by
      simpa [VarNameMap.isEmpty, List.isEmpty_iff] using he
    refine ⟨rfl, ?_, hm⟩
    show g.vlm + map.names.length = map.names.length
    rw [h.vlm, he']
    simp

theorem Mgr.setVarName_inv {g : Mgr} (h : MInv g) (var : Nat) (name : String) :
    MInv (g.setVarName var name).1 := by
  have hi := OxiddModel.VarNames.setVarName_inv h.map var name
  have hl : (g.map.setVarName var name).1.names.length = g.map.names.length := by
    rw [(setVarName_spec h.map var name).1]
    unfold Spec.setVarName
    split
    · split <;> rfl
    · split
      · simp
      · rfl
  refine ⟨?_, ?_, hi⟩
  · show g.levels = (g.map.setVarName var name).1.names.length
    rw [hl, h.levels]
  · show g.vlm = (g.map.setVarName var name).1.names.length
    rw [hl, h.vlm]

theorem Mgr.step_inv {g : Mgr} (h : MInv g) (c : MCall) : MInv (g.step c).1 := by
  cases c with
  | addVars k => exact Mgr.addVars_inv h k
  | addNamedVars l => exact Mgr.addNamedVars_inv h l
  | addNamedVarsFromMap b => exact Mgr.addNamedVarsFromMap_inv h (run_inv b inv_new)
  | setVarName v n => exact Mgr.setVarName_inv h v n

theorem Mgr.run_inv (cs : List MCall) : ∀ {g : Mgr}, MInv g → MInv (g.run cs).1 := by
  induction cs with
  | nil => intro g h; exact h
  | cons c cs ih => intro g h; exact ih (Mgr.step_inv h c)

theorem Spec.addNamedLoop_of_injective (lenPre : Nat) (l : List String) :
    ∀ s : List String, Spec.Injective (s ++ l) →
      Spec.addNamedLoop lenPre s l = (s ++ l, .ok lenPre (s ++ l).length) := by
  induction l with
  | nil => intro s _; simp [Spec.addNamedLoop]
  | cons n rest ih =>
    intro s hinj
    have hnone : Spec.nameToVar s n = none := by
      unfold Spec.nameToVar
      split
      · rfl
      · next hn =>
        cases hf : Spec.find s n with
        | none => rfl
        | some v =>
          exfalso
          have hv := Spec.find_some hf
          have hlt : v < s.length := by
            rcases Nat.lt_or_ge v s.length with h1 | h1
            · exact h1
            · rw [List.getElem?_eq_none h1] at hv; cases hv
          have h1 : (s ++ n :: rest)[v]? = some n := by
            rw [List.getElem?_append_left hlt]; exact hv
          have h2 : (s ++ n :: rest)[s.length]? = some n := by
            rw [List.getElem?_append_right (Nat.le_refl _)]; simp
          have := hinj v s.length n hn h1 h2
          omega
    simp only [Spec.addNamedLoop, hnone]
    have := ih (s ++ [n]) (by simpa [List.append_assoc] using hinj)
    simpa [List.append_assoc] using this

end OxiddModel.VarNames
