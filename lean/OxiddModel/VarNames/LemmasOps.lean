import OxiddModel.VarNames.Lemmas

/-!
# C16 — the operations of `VarNameMap` preserve the invariant, refine the specification and
report correct error payloads (helper lemmas; the headline statements are in `Properties.lean`)
-/
namespace OxiddModel.VarNames

open VarNameMap

/-! ## the specification's linear search -/

theorem Spec.find_some {s : List String} {n : String} {v : Nat} (h : Spec.find s n = some v) :
    s[v]? = some n := by
  induction s generalizing v with
  | nil => simp [Spec.find] at h
  | cons x xs ih =>
    simp only [Spec.find] at h
    split at h
    · next hx => cases h; simp [hx]
    · cases hf : Spec.find xs n with
      | none => rw [hf] at h; cases h
      | some w =>
        rw [hf] at h
        cases h
        simpa using ih hf

theorem Spec.find_none_iff {s : List String} {n : String} : Spec.find s n = none ↔ n ∉ s := by
  induction s with
  | nil => simp [Spec.find]
  | cons x xs ih =>
    simp only [Spec.find, List.mem_cons, not_or]
    split
    · next hx => subst hx; simp
    · next hx =>
      rw [Option.map_eq_none_iff, ih]
      constructor
      · intro h; exact ⟨fun e => hx e.symm, h⟩
      · intro h; exact h.2

/-- `name_to_var` through the hash index = linear search in the list of names -/
theorem nameToVar_eq_spec {m : VarNameMap} (h : Inv m) (n : String) :
    m.nameToVar n = Spec.nameToVar m.names n := by
  unfold VarNameMap.nameToVar Spec.nameToVar
  split
  · next hn => subst hn; exact idxGet_none_iff.mpr h.empty_not_key
  · next hn =>
    cases hf : Spec.find m.names n with
    | none =>
      cases hg : idxGet m.index n with
      | none => rfl
      | some v =>
        have := ((h.lookup n v).mp hg).2
        exact absurd (List.mem_of_getElem? this) (Spec.find_none_iff.mp hf)
    | some v => exact (h.lookup n v).mpr ⟨hn, Spec.find_some hf⟩

theorem idxGet_eq_spec {m : VarNameMap} (h : Inv m) {n : String} (_hn : n ≠ "") :
    idxGet m.index n = Spec.nameToVar m.names n := by
  have := nameToVar_eq_spec h n
  exact this

theorem Spec.nameToVar_empty (s : List String) : Spec.nameToVar s "" = none := by
  simp [Spec.nameToVar]

/-! ## `add_unnamed` -/

theorem addUnnamed_inv {m : VarNameMap} (h : Inv m) (k : Nat) : Inv (m.addUnnamed k) :=
  inv_append_unnamed h k

/-! ## `add_named` -/

/-- what a run of the `add_named` loop guarantees (`P` for the result of the loop started in
state `m` on the remaining names `l`) -/
def AddPost (lenPre : Nat) (m : VarNameMap) (l : List String) (r : VarNameMap × AddRes) : Prop :=
  Inv r.1 ∧
  (match r.2 with
   | .ok s e => r.1.names = m.names ++ l ∧ s = lenPre ∧ e = r.1.names.length
   | .dup name pv s e =>
     ∃ pre post, l = pre ++ name :: post ∧ r.1.names = m.names ++ pre ∧ s = lenPre ∧
       e = r.1.names.length ∧ name ≠ "" ∧ idxGet r.1.index name = some pv)

theorem addNamedLoop_post (lenPre : Nat) (l : List String) :
    ∀ (m : VarNameMap) (v : Nat), Inv m → v = m.names.length →
      AddPost lenPre m l (addNamedLoop lenPre m v l) := by
  induction l with
  | nil =>
    intro m v h _
    simp only [addNamedLoop]
    exact ⟨h, by simp⟩
  | cons name rest ih =>
    intro m v h hv
    simp only [addNamedLoop]
    split
    · next hn =>
      have := ih { m with names := m.names ++ [""] } (v + 1) (inv_push_unnamed h) (by simp [hv])
      refine ⟨this.1, ?_⟩
      have h2 := this.2
      revert h2
      cases (addNamedLoop lenPre { m with names := m.names ++ [""] } (v + 1) rest).2 with
      | ok s e =>
        intro h2
        subst hn
        simpa [List.append_assoc] using h2
      | dup nm pv s e =>
        rintro ⟨pre, post, h1, h2, h3⟩
        subst hn
        exact ⟨"" :: pre, post, by simp [h1], by simpa [List.append_assoc] using h2, h3⟩
    · next hn =>
      split
      · next pv hg =>
        exact ⟨h, [], rest, rfl, by simp, rfl, rfl, hn, hg⟩
      · next hg =>
        subst hv
        have := ih { names := m.names ++ [name], index := (name, m.names.length) :: m.index }
          (m.names.length + 1) (inv_push_named h hn hg) (by simp)
        refine ⟨this.1, ?_⟩
        have h2 := this.2
        revert h2
        cases (addNamedLoop lenPre
          { names := m.names ++ [name], index := (name, m.names.length) :: m.index }
          (m.names.length + 1) rest).2 with
        | ok s e =>
          intro h2
          simpa [List.append_assoc] using h2
        | dup nm pv s e =>
          rintro ⟨pre, post, h1, h2, h3⟩
          exact ⟨name :: pre, post, by simp [h1], by simpa [List.append_assoc] using h2, h3⟩

theorem addNamed_post {m : VarNameMap} (h : Inv m) (l : List String) :
    AddPost m.names.length m l (m.addNamed l) :=
  addNamedLoop_post m.names.length l m m.names.length h rfl

/-- the loop refines the specification's loop -/
theorem addNamedLoop_spec (lenPre : Nat) (l : List String) :
    ∀ (m : VarNameMap) (v : Nat), Inv m → v = m.names.length →
      (addNamedLoop lenPre m v l).1.names = (Spec.addNamedLoop lenPre m.names l).1 ∧
      (addNamedLoop lenPre m v l).2 = (Spec.addNamedLoop lenPre m.names l).2 := by
  induction l with
  | nil => intro m v _ _; simp [addNamedLoop, Spec.addNamedLoop]
  | cons name rest ih =>
    intro m v h hv
    simp only [addNamedLoop, Spec.addNamedLoop]
    split
    · next hn =>
      subst hn
      rw [Spec.nameToVar_empty]
      exact ih { m with names := m.names ++ [""] } (v + 1) (inv_push_unnamed h) (by simp [hv])
    · next hn =>
      rw [← idxGet_eq_spec h hn]
      split
      · simp
      · next hg =>
        subst hv
        exact ih { names := m.names ++ [name], index := (name, m.names.length) :: m.index }
          (m.names.length + 1) (inv_push_named h hn hg) (by simp)

/-! ## `get_or_add` -/

theorem getOrAdd_inv {m : VarNameMap} (h : Inv m) (n : String) : Inv (m.getOrAdd n).1 := by
  unfold VarNameMap.getOrAdd
  split
  · exact inv_push_unnamed h
  · next hn =>
    split
    · exact h
    · next hg => exact inv_push_named h hn hg

theorem getOrAdd_spec {m : VarNameMap} (h : Inv m) (n : String) :
    (m.getOrAdd n).1.names = (Spec.getOrAdd m.names n).1 ∧
    (m.getOrAdd n).2 = (Spec.getOrAdd m.names n).2 := by
  unfold VarNameMap.getOrAdd Spec.getOrAdd
  split
  · next hn => subst hn; simp [Spec.nameToVar_empty]
  · next hn =>
    rw [← idxGet_eq_spec h hn]
    split
    · simp
    · simp

/-! ## `set_var_name` -/

theorem setVarName_inv {m : VarNameMap} (h : Inv m) (var : Nat) (name : String) :
    Inv (m.setVarName var name).1 := by
  unfold VarNameMap.setVarName
  dsimp only
  split
  · split
    · next hvar => exact inv_unname h hvar
    · exact h
  · next hn =>
    split
    · split <;> exact h
    · next hg =>
      split
      · next hvar =>
        split
        · exact inv_rename h hvar hn hg
        · next hp =>
          have hp' : m.names.getD var "" = "" := Classical.not_not.mp hp
          have := inv_rename h hvar hn hg
          rw [remove_prev_empty h hn hp'] at this
          exact this
      · exact h

theorem setVarName_spec {m : VarNameMap} (h : Inv m) (var : Nat) (name : String) :
    (m.setVarName var name).1.names = (Spec.setVarName m.names var name).1 ∧
    (m.setVarName var name).2 = (Spec.setVarName m.names var name).2 := by
  unfold VarNameMap.setVarName Spec.setVarName
  dsimp only
  split
  · next hn =>
    subst hn
    rw [Spec.nameToVar_empty]
    split <;> simp
  · next hn =>
    rw [← idxGet_eq_spec h hn]
    split
    · split <;> simp
    · split
      · split <;> simp
      · simp

/-- a rejected `set_var_name` changes nothing and names the variable that holds the name -/
theorem setVarName_dup {m m' : VarNameMap} {var : Nat} {name nm : String} {pv s e : Nat}
    (hr : m.setVarName var name = (m', .dup nm pv s e)) :
    m' = m ∧ nm = name ∧ name ≠ "" ∧ pv ≠ var ∧ idxGet m.index name = some pv ∧
      s = m.names.length ∧ e = m.names.length := by
  unfold VarNameMap.setVarName at hr
  dsimp only at hr
  split at hr
  · split at hr <;> simp at hr
  · next hn =>
    split at hr
    · next pv' hg =>
      split at hr
      · next hpv =>
        simp only [Prod.mk.injEq, SetRes.dup.injEq] at hr
        obtain ⟨h1, h2, h3, h4, h5⟩ := hr
        subst h3
        exact ⟨h1.symm, h2.symm, hn, hpv, hg, h4.symm, h5.symm⟩
      · simp at hr
    · split at hr
      · split at hr <;> simp at hr
      · simp at hr

/-- `set_var_name` panics exactly when the variable does not exist and the name is free (or
empty) — with a taken name it returns `DuplicateVarName` even for a non-existing variable -/
theorem setVarName_panic_iff (m : VarNameMap) (var : Nat) (name : String) :
    (m.setVarName var name).2 = .panic ↔
      (¬ var < m.names.length ∧ (name = "" ∨ idxGet m.index name = none)) := by
  unfold VarNameMap.setVarName
  dsimp only
  split
  · next hn =>
    split
    · next hv => simp [hv]
    · next hv => simp [hv, hn]
  · next hn =>
    split
    · next pv hg =>
      split <;> simp [hn, hg]
    · next hg =>
      split
      · next hv => split <;> simp [hv]
      · next hv => simp [hv, hg]

/-! ## `named_count` -/

theorem nodup_named {l : List String} (inj : Spec.Injective l) :
    (l.filter (· ≠ "")).Nodup := by
  have hp : l.Pairwise (fun a b => a ≠ "" → a ≠ b) := by
    rw [List.pairwise_iff_getElem]
    intro i j hi hj hij hne heq
    have := inj i j l[i] hne (List.getElem?_eq_getElem hi)
      (by rw [List.getElem?_eq_getElem hj, heq])
    omega
  have hf := hp.filter (· ≠ "")
  refine List.Pairwise.imp_of_mem ?_ hf
  intro a b ha _ hab
  have : a ≠ "" := by simpa using (List.mem_filter.mp ha).2
  exact hab this

/-- `named_count()` (= `index.len()`) counts the variables with a non-empty name -/
theorem Inv.namedCount_eq {m : VarNameMap} (h : Inv m) :
    m.namedCount = (m.names.filter (· ≠ "")).length := by
  unfold VarNameMap.namedCount
  rw [← length_keys]
  apply List.Perm.length_eq
  rw [List.perm_ext_iff_of_nodup h.nodup (nodup_named h.injective)]
  intro a
  rw [mem_keys, List.mem_filter]
  constructor
  · rintro ⟨v, hv⟩
    have := h.bwd a v hv
    refine ⟨?_, by simpa using this.1⟩
    have hl := getElem?_of_lt_getD this.2.1
    rw [this.2.2] at hl
    exact List.mem_of_getElem? hl
  · rintro ⟨hmem, hne⟩
    have hne' : a ≠ "" := by simpa using hne
    obtain ⟨v, hv⟩ := List.getElem?_of_mem hmem
    exact ⟨v, idxGet_some_mem ((h.lookup a v).mpr ⟨hne', hv⟩)⟩

/-! ## call histories -/

theorem step_inv {m : VarNameMap} (h : Inv m) (c : Call) : Inv (m.step c).1 := by
  cases c with
  | addUnnamed k => exact addUnnamed_inv h k
  | addNamed l => exact (addNamed_post h l).1
  | getOrAdd n => exact getOrAdd_inv h n
  | setName v n => exact setVarName_inv h v n

theorem step_spec {m : VarNameMap} (h : Inv m) (c : Call) :
    (m.step c).1.names = (Spec.step m.names c).1 ∧ (m.step c).2 = (Spec.step m.names c).2 := by
  cases c with
  | addUnnamed k => exact ⟨rfl, rfl⟩
  | addNamed l =>
    have := addNamedLoop_spec m.names.length l m m.names.length h rfl
    exact ⟨this.1, by simp only [VarNameMap.step, Spec.step]; exact congrArg Res.add this.2⟩
  | getOrAdd n =>
    have := getOrAdd_spec h n
    refine ⟨this.1, ?_⟩
    simp only [VarNameMap.step, Spec.step, this.2]
  | setName v n =>
    have := setVarName_spec h v n
    exact ⟨this.1, by simp only [VarNameMap.step, Spec.step]; exact congrArg Res.set this.2⟩

theorem run_inv (cs : List Call) : ∀ {m : VarNameMap}, Inv m → Inv (m.run cs).1 := by
  induction cs with
  | nil => intro m h; exact h
  | cons c cs ih => intro m h; exact ih (step_inv h c)

theorem run_spec (cs : List Call) : ∀ {m : VarNameMap}, Inv m →
    (m.run cs).1.names = (Spec.run m.names cs).1 ∧ (m.run cs).2 = (Spec.run m.names cs).2 := by
  induction cs with
  | nil => intro m _; exact ⟨rfl, rfl⟩
  | cons c cs ih =>
    intro m h
    have hs := step_spec h c
    have hi := ih (step_inv h c)
    simp only [VarNameMap.run, Spec.run]
    rw [← hs.1, ← hs.2]
    exact ⟨hi.1, by rw [hi.2]⟩

end OxiddModel.VarNames
