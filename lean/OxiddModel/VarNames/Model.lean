/-!
# C16 — model of `oxidd_core::util::VarNameMap` and of the manager's variable bookkeeping

Rust sources mirrored here (branch for branch, in the same order):

* `/repo/crates/oxidd-core/src/util/var_name_map.rs` — `VarNameMap { names: Vec<str>, index:
  HashMap<str, VarNo> }` with `add_unnamed`, `add_named`, `get_or_add`, `name_to_var`, `var_name`,
  `set_var_name`, `named_count`, `len`, `into_names_iter`;
* `/repo/crates/oxidd-manager-index/src/manager.rs` — `add_vars`, `add_named_vars` (with the scope
  guard that resizes the level table to the name map's length on every exit path),
  `add_named_vars_from_map`, `set_var_name`, `num_levels`, `num_vars` (= `num_levels`, default
  method of the `Manager` trait), `num_named_vars`.

Modelling decisions:

* `names : List String` is the vector `names` (index = variable number, `""` = unnamed);
* `index : List (String × Nat)` is the hash map as an association list.  `Entry::Vacant::insert`
  is `cons` (it is only reachable when the key is absent), `HashMap::remove` is `idxRemove`,
  `HashMap::get` is `idxGet`, `HashMap::len` is `List.length`.  The iteration order of the hash map
  is never observed by the modelled functions;
* the shared unowned string storage (`Unowned<str>`) is not modelled (memory safety of the
  aliasing scheme is outside C16); neither is the `VarNo::MAX` overflow handling
  (`checked_add(..).expect("too many variables")`, the `zip(len_pre..VarNo::MAX)` cut-off, the
  `n == VarNo::MAX` branch of `get_or_add`): all variable counts are assumed `< 2^32`;
* an out-of-bounds `self.names[var]` (a Rust panic) is the explicit result `SetRes.panic` with
  the state unchanged (the panic happens before any mutation in both branches that index).
-/
namespace OxiddModel.VarNames

/-! ## the hash map `index` as an association list -/

/-- `HashMap::get` -/
def idxGet : List (String × Nat) → String → Option Nat
  | [], _ => none
  | (k, v) :: t, n => if k = n then some v else idxGet t n

/-- `HashMap::remove` (drops every pair with that key; with distinct keys there is at most one) -/
def idxRemove : List (String × Nat) → String → List (String × Nat)
  | [], _ => []
  | (k, v) :: t, n => if k = n then idxRemove t n else (k, v) :: idxRemove t n

/-! ## `VarNameMap` -/

structure VarNameMap where
  /-- `names: Vec<Unowned<str>>` -/
  names : List String
  /-- `index: HashMap<Unowned<str>, VarNo>` -/
  index : List (String × Nat)
  deriving Repr, DecidableEq, Inhabited

namespace VarNameMap

/-- `VarNameMap::new` -/
def new : VarNameMap := ⟨[], []⟩

/-- `VarNameMap::len` -/
def len (m : VarNameMap) : Nat := m.names.length

/-- `VarNameMap::is_empty` -/
def isEmpty (m : VarNameMap) : Bool := m.names.isEmpty

/-- `VarNameMap::named_count` (`self.index.len()`) -/
def namedCount (m : VarNameMap) : Nat := m.index.length

/-- `VarNameMap::name_to_var` (`self.index.get(name).copied()`) -/
def nameToVar (m : VarNameMap) (name : String) : Option Nat := idxGet m.index name

/-- `VarNameMap::var_name` (`&self.names[var]`; the Rust code panics when out of bounds, the model
returns `""` there — callers in the driver only query `var < len`) -/
def varName (m : VarNameMap) (var : Nat) : String := m.names.getD var ""

/-- `VarNameMap::add_unnamed`: `self.names.resize(len + additional, "")` -/
def addUnnamed (m : VarNameMap) (additional : Nat) : VarNameMap :=
  { m with names := m.names ++ List.replicate additional "" }

/-- result of `add_named` / `Manager::add_named_vars`:
`Ok(start..end)` or `Err(DuplicateVarName { name, present_var, added_vars: start..end })` -/
inductive AddRes where
  | ok (start stop : Nat)
  | dup (name : String) (presentVar : Nat) (start stop : Nat)
  deriving Repr, DecidableEq, Inhabited

/-- the `for (name, v) in it.zip(len_pre..VarNo::MAX)` loop of `add_named`; `v` is the counter of
the zipped range (it is *not* recomputed from `names.len()`, exactly as in the Rust code) -/
def addNamedLoop (lenPre : Nat) : VarNameMap → Nat → List String → VarNameMap × AddRes
  | m, _, [] => (m, .ok lenPre m.names.length)
  | m, v, name :: rest =>
    if name = "" then
      -- `self.names.push("".into()); continue;`
      addNamedLoop lenPre { m with names := m.names ++ [""] } (v + 1) rest
    else
      match idxGet m.index name with
      | some presentVar =>
        -- `Entry::Occupied`: return the error, keep everything added so far
        (m, .dup name presentVar lenPre m.names.length)
      | none =>
        -- `Entry::Vacant`: `entry.insert(v); self.names.push(name)`
        addNamedLoop lenPre { names := m.names ++ [name], index := (name, v) :: m.index } (v + 1) rest

/-- `VarNameMap::add_named` -/
def addNamed (m : VarNameMap) (names : List String) : VarNameMap × AddRes :=
  let lenPre := m.names.length
  addNamedLoop lenPre m lenPre names

/-- `VarNameMap::get_or_add`, returns `(var_no, found)` -/
def getOrAdd (m : VarNameMap) (name : String) : VarNameMap × (Nat × Bool) :=
  if name = "" then
    let n := m.names.length
    ({ m with names := m.names ++ [""] }, (n, false))
  else
    match idxGet m.index name with
    | some v => (m, (v, true))
    | none =>
      let n := m.names.length
      ({ names := m.names ++ [name], index := (name, n) :: m.index }, (n, false))

/-- result of `set_var_name`: `Ok(())`, `Err(DuplicateVarName {name, present_var, added_vars})`
or an index-out-of-bounds panic -/
inductive SetRes where
  | ok
  | dup (name : String) (presentVar : Nat) (start stop : Nat)
  | panic
  deriving Repr, DecidableEq, Inhabited

/-- `VarNameMap::set_var_name` -/
def setVarName (m : VarNameMap) (var : Nat) (name : String) : VarNameMap × SetRes :=
  if name = "" then
    -- `self.index.remove(&mem::replace(&mut self.names[var], ""))`
    if var < m.names.length then
      let prev := m.names.getD var ""
      ({ names := m.names.set var "", index := idxRemove m.index prev }, .ok)
    else (m, .panic)
  else
    match idxGet m.index name with
    | some presentVar =>
      -- `Entry::Occupied`
      if presentVar ≠ var then
        let len := m.names.length
        (m, .dup name presentVar len len)
      else (m, .ok)
    | none =>
      -- `Entry::Vacant`: `prev = replace(names[var], name); entry.insert(var);`
      -- `if !prev.is_empty() { index.remove(&prev) }`
      if var < m.names.length then
        let prev := m.names.getD var ""
        let names' := m.names.set var name
        let index' := (name, var) :: m.index
        if prev ≠ "" then ({ names := names', index := idxRemove index' prev }, .ok)
        else ({ names := names', index := index' }, .ok)
      else (m, .panic)

/-- `VarNameMap::into_names_iter` (all names, unnamed variables as `""`) -/
def intoNames (m : VarNameMap) : List String := m.names

end VarNameMap

open VarNameMap

/-! ## the manager's bookkeeping (`oxidd-manager-index`) -/

/-- The three places where the index-based manager stores "the number of variables". -/
structure Mgr where
  /-- `unique_table.len()` = `num_levels()` = `num_vars()` -/
  levels : Nat
  /-- `var_level_map.len()` -/
  vlm : Nat
  /-- `var_name_map` -/
  map : VarNameMap
  deriving Repr, DecidableEq, Inhabited

namespace Mgr

def init : Mgr := ⟨0, 0, VarNameMap.new⟩

def numLevels (g : Mgr) : Nat := g.levels
/-- default method of `Manager`: `self.num_levels()` -/
def numVars (g : Mgr) : Nat := g.numLevels
def numNamedVars (g : Mgr) : Nat := g.map.namedCount
def nameToVar (g : Mgr) (name : String) : Option Nat := g.map.nameToVar name
def varName (g : Mgr) (var : Nat) : String := g.map.varName var

/-- `Manager::add_vars` -/
def addVars (g : Mgr) (additional : Nat) : Mgr × AddRes :=
  let len := g.levels
  let newLen := len + additional
  ({ levels := newLen            -- `unique_table.resize_with(new_len, ..)`
     vlm := g.vlm + additional   -- `var_level_map.extend(additional)`
     map := g.map.addUnnamed additional },
   .ok len newLen)

/-- `Manager::add_named_vars`; the scope guard runs on the `Ok` and on the `Err` path -/
def addNamedVars (g : Mgr) (names : List String) : Mgr × AddRes :=
  let len := g.map.len
  let (map', r) := g.map.addNamed names
  -- guard: `new_len = var_name_map.len(); unique_table.resize_with(new_len, ..);`
  --        `var_level_map.extend(new_len - len)`
  let newLen := map'.len
  ({ levels := newLen, vlm := g.vlm + (newLen - len), map := map' }, r)

/-- `Manager::add_named_vars_from_map` -/
def addNamedVarsFromMap (g : Mgr) (map : VarNameMap) : Mgr × AddRes :=
  if !g.map.isEmpty then
    g.addNamedVars map.intoNames
  else
    let n := map.len
    ({ levels := n              -- `unique_table.resize_with(n, ..)`
       vlm := g.vlm + n         -- `var_level_map.extend(n)`
       map := map },
     .ok 0 n)

/-- `Manager::set_var_name` -/
def setVarName (g : Mgr) (var : Nat) (name : String) : Mgr × SetRes :=
  let (map', r) := g.map.setVarName var name
  ({ g with map := map' }, r)

end Mgr

/-! ## call histories -/

/-- a call of the public mutating API of `VarNameMap` -/
inductive Call where
  | addUnnamed (k : Nat)
  | addNamed (names : List String)
  | getOrAdd (name : String)
  | setName (var : Nat) (name : String)
  deriving Repr, DecidableEq, Inhabited

/-- what a call returns -/
inductive Res where
  | unit
  | add (r : AddRes)
  | got (var : Nat) (found : Bool)
  | set (r : SetRes)
  deriving Repr, DecidableEq, Inhabited

def VarNameMap.step (m : VarNameMap) : Call → VarNameMap × Res
  | .addUnnamed k => (m.addUnnamed k, .unit)
  | .addNamed l => let (m', r) := m.addNamed l; (m', .add r)
  | .getOrAdd n => let (m', (v, f)) := m.getOrAdd n; (m', .got v f)
  | .setName v n => let (m', r) := m.setVarName v n; (m', .set r)

def VarNameMap.run (m : VarNameMap) : List Call → VarNameMap × List Res
  | [] => (m, [])
  | c :: cs =>
    let (m', r) := m.step c
    let (m'', rs) := VarNameMap.run m' cs
    (m'', r :: rs)

/-- a call of the manager's variable API; the argument of `add_named_vars_from_map` is an
arbitrary `VarNameMap` value, i.e. the result of an arbitrary call history on a fresh map -/
inductive MCall where
  | addVars (k : Nat)
  | addNamedVars (names : List String)
  | addNamedVarsFromMap (build : List Call)
  | setVarName (var : Nat) (name : String)
  deriving Repr, Inhabited

def Mgr.step (g : Mgr) : MCall → Mgr × Res
  | .addVars k => let (g', r) := g.addVars k; (g', .add r)
  | .addNamedVars l => let (g', r) := g.addNamedVars l; (g', .add r)
  | .addNamedVarsFromMap b => let (g', r) := g.addNamedVarsFromMap (VarNameMap.new.run b).1; (g', .add r)
  | .setVarName v n => let (g', r) := g.setVarName v n; (g', .set r)

def Mgr.run (g : Mgr) : List MCall → Mgr × List Res
  | [] => (g, [])
  | c :: cs =>
    let (g', r) := g.step c
    let (g'', rs) := Mgr.run g' cs
    (g'', r :: rs)

/-! ## the abstract specification: just the partial function `Var ⇀ Name`

The specification state is the list of names alone (`""` = undefined); `name_to_var` is a linear
search.  There is no index, no counter and nothing that could get out of sync. -/

abbrev Spec := List String

namespace Spec

/-- first variable carrying `n` -/
def find : List String → String → Option Nat
  | [], _ => none
  | x :: xs, n => if x = n then some 0 else (find xs n).map (· + 1)

def nameToVar (s : Spec) (n : String) : Option Nat := if n = "" then none else find s n
def varName (s : Spec) (v : Nat) : String := s.getD v ""
def namedCount (s : Spec) : Nat := (s.filter (· ≠ "")).length

def addUnnamed (s : Spec) (k : Nat) : Spec := s ++ List.replicate k ""

def addNamedLoop (lenPre : Nat) : Spec → List String → Spec × AddRes
  | s, [] => (s, .ok lenPre s.length)
  | s, n :: rest =>
    match nameToVar s n with
    | some pv => (s, .dup n pv lenPre s.length)
    | none => addNamedLoop lenPre (s ++ [n]) rest

def addNamed (s : Spec) (l : List String) : Spec × AddRes := addNamedLoop s.length s l

def getOrAdd (s : Spec) (n : String) : Spec × (Nat × Bool) :=
  match nameToVar s n with
  | some v => (s, (v, true))
  | none => (s ++ [n], (s.length, false))

def setVarName (s : Spec) (var : Nat) (n : String) : Spec × SetRes :=
  match nameToVar s n with
  | some pv => if pv ≠ var then (s, .dup n pv s.length s.length) else (s, .ok)
  | none => if var < s.length then (s.set var n, .ok) else (s, .panic)

def step (s : Spec) : Call → Spec × Res
  | .addUnnamed k => (addUnnamed s k, .unit)
  | .addNamed l => let (s', r) := addNamed s l; (s', .add r)
  | .getOrAdd n => let (s', (v, f)) := getOrAdd s n; (s', .got v f)
  | .setName v n => let (s', r) := setVarName s v n; (s', .set r)

def run (s : Spec) : List Call → Spec × List Res
  | [] => (s, [])
  | c :: cs =>
    let (s', r) := step s c
    let (s'', rs) := run s' cs
    (s'', r :: rs)

/-- the partial function is injective where it is defined -/
def Injective (s : Spec) : Prop :=
  ∀ (v w : Nat) (n : String), n ≠ "" → s[v]? = some n → s[w]? = some n → v = w

end Spec

end OxiddModel.VarNames
