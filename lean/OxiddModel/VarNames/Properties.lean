import OxiddModel.VarNames.LemmasMgr

/-!
# C16 — variable and name bookkeeping stays a consistent bijection

Property text: *After any sequence of `add_vars`, `add_named_vars`, `add_named_vars_from_map` and
`set_var_name` calls (including rejected duplicates and renames), the manager has as many levels as
variables, `name_to_var` and `var_name` are mutually inverse on exactly the currently named
variables, `num_named_vars` counts them, and a rejected call reports the conflicting variable and
leaves a consistent state.*  (The last sentence of C16 — adding variables never changes the
function denoted by an existing handle — belongs to the BDD-core area; here it is covered only by
the truth-table oracle of the Rust scenario `c16_names`.)

The theorems are about the model in `Model.lean` (a line-by-line transcription of
`var_name_map.rs` and of the variable API in `oxidd-manager-index/src/manager.rs`), for **all**
call histories and **all** names.
-/
namespace OxiddModel.VarNames

open VarNameMap

/-! ## 1. the invariant and what it means for the public queries -/

/-- **`names_inv` (history form).** After *every* sequence of `add_unnamed`, `add_named`,
`get_or_add` and `set_var_name` calls on a fresh map — including calls that were rejected with
`DuplicateVarName`, renames, un-namings and out-of-range calls — `index` and `names` are mutually
inverse on exactly the named variables and the index has distinct keys. -/
theorem names_inv (cs : List Call) : Inv (VarNameMap.new.run cs).1 :=
  run_inv cs inv_new

/-- non-vacuity: a history with a duplicate in the middle of a batch, a rename and a rejected
rename; the resulting state is non-trivial -/
example :
    (VarNameMap.new.run [.addNamed ["a", "b", "a", "d"], .setName 0 "c", .setName 1 "c"]) =
      (⟨["c", "b"], [("c", 0), ("b", 1)]⟩,
        [.add (.dup "a" 0 0 2), .set .ok, .set (.dup "c" 0 2 2)]) := by decide

/-- **`names_inv` (step form).** Every single operation preserves the invariant, whatever it
returns. -/
theorem names_inv_preserved {m : VarNameMap} (h : Inv m) (c : Call) : Inv (m.step c).1 :=
  step_inv h c

/-- non-vacuity: `Inv` holds of a state with named and unnamed variables -/
example : Inv ⟨["x", "", "y"], [("y", 2), ("x", 0)]⟩ :=
  names_inv [.addNamed ["x", "", "q"], .setName 2 "y"]

/-- the invariant is not trivially true: a dangling key (the state the pre-fix `set_var_name`
produced on a rename) violates it -/
example : ¬ Inv ⟨["c"], [("c", 0), ("a", 0)]⟩ := by
  intro h
  have := h.bwd "a" 0 (by simp)
  exact absurd this.2.2 (by decide)

/-- **`name_to_var` and `var_name` are mutually inverse on exactly the named variables.**
`name_to_var(n) = Some(v)` iff `n` is non-empty, `v` is a variable and `var_name(v) = n`. -/
theorem name_to_var_iff_var_name {m : VarNameMap} (h : Inv m) (n : String) (v : Nat) :
    m.nameToVar n = some v ↔ (n ≠ "" ∧ v < m.len ∧ m.varName v = n) := by
  unfold VarNameMap.nameToVar VarNameMap.len VarNameMap.varName
  rw [h.lookup n v]
  constructor
  · rintro ⟨hn, hv⟩
    refine ⟨hn, ?_, getD_eq_of_getElem? hv⟩
    rcases Nat.lt_or_ge v m.names.length with h1 | h1
    · exact h1
    · rw [List.getElem?_eq_none h1] at hv; cases hv
  · rintro ⟨hn, hv, he⟩
    refine ⟨hn, ?_⟩
    rw [getElem?_of_lt_getD hv, he]

/-- in particular: a named variable is found under its name, an unnamed one under no name, and
`name_to_var("")` is `None` -/
theorem name_to_var_var_name {m : VarNameMap} (h : Inv m) {v : Nat} (hv : v < m.len)
    (hn : m.varName v ≠ "") : m.nameToVar (m.varName v) = some v :=
  (name_to_var_iff_var_name h _ v).mpr ⟨hn, hv, rfl⟩

theorem name_to_var_empty {m : VarNameMap} (h : Inv m) : m.nameToVar "" = none := by
  cases hq : m.nameToVar "" with
  | none => rfl
  | some v => exact absurd rfl ((name_to_var_iff_var_name h "" v).mp hq).1

/-- non-vacuity of `name_to_var_iff_var_name` (both directions are exercised on a real state) -/
example : (⟨["x", "", "y"], [("y", 2), ("x", 0)]⟩ : VarNameMap).nameToVar "y" = some 2 ∧
    (⟨["x", "", "y"], [("y", 2), ("x", 0)]⟩ : VarNameMap).varName 2 = "y" := by decide

/-- **`named_count` / `num_named_vars` counts the named variables** and equals the size of the
index. -/
theorem named_count_correct {m : VarNameMap} (h : Inv m) :
    m.namedCount = m.index.length ∧ m.namedCount = (m.names.filter (· ≠ "")).length :=
  ⟨rfl, h.namedCount_eq⟩

example : (⟨["x", "", "y"], [("y", 2), ("x", 0)]⟩ : VarNameMap).namedCount = 2 := by decide

/-! ## 2. `add_named`: accepted and rejected batches -/

/-- **An accepted batch** appends exactly the given names and returns the range of the new
variables. -/
theorem add_named_ok {m m' : VarNameMap} (h : Inv m) {l : List String} {s e : Nat}
    (hr : m.addNamed l = (m', .ok s e)) :
    Inv m' ∧ m'.names = m.names ++ l ∧ s = m.len ∧ e = m.len + l.length := by
  have := addNamed_post h l
  rw [hr] at this
  obtain ⟨hi, h1, h2, h3⟩ := this
  refine ⟨hi, h1, h2, ?_⟩
  rw [h3, h1]
  simp [VarNameMap.len]

/-- **A batch rejected in the middle** (`DuplicateVarName { name, present_var, added_vars }`):
the names before the offending one have been added and stay (`added_vars` is exactly their
range), the offending name is non-empty, `present_var` is the variable that carries it in the
resulting state (it may be one of the variables just added), nothing after it was added, and the
state is consistent. -/
theorem add_named_dup {m m' : VarNameMap} (h : Inv m) {l : List String} {name : String}
    {pv s e : Nat} (hr : m.addNamed l = (m', .dup name pv s e)) :
    Inv m' ∧
    ∃ pre post, l = pre ++ name :: post ∧ m'.names = m.names ++ pre ∧
      s = m.len ∧ e = m.len + pre.length ∧ e = m'.len ∧
      name ≠ "" ∧ m'.nameToVar name = some pv ∧ pv < m'.len ∧ m'.varName pv = name := by
  have := addNamed_post h l
  rw [hr] at this
  obtain ⟨hi, pre, post, h1, h2, h3, h4, h5, h6⟩ := this
  refine ⟨hi, pre, post, h1, h2, h3, ?_, h4, h5, h6, ?_⟩
  · rw [h4, h2]; simp [VarNameMap.len]
  · have := (name_to_var_iff_var_name hi name pv).mp h6
    exact ⟨this.2.1, this.2.2⟩

/-- non-vacuity: a duplicate of a name added earlier *in the same batch* -/
example : (⟨["x"], [("x", 0)]⟩ : VarNameMap).addNamed ["a", "", "b", "a", "c"] =
    (⟨["x", "a", "", "b"], [("b", 3), ("a", 1), ("x", 0)]⟩, .dup "a" 1 1 4) := by decide

/-! ## 3. `set_var_name`: same name, duplicate, un-name, rename -/

/-- **A rejected `set_var_name` changes nothing** and reports the variable that holds the
name (a different one). -/
theorem set_var_name_rejected {m m' : VarNameMap} (h : Inv m) {var : Nat} {name nm : String}
    {pv s e : Nat} (hr : m.setVarName var name = (m', .dup nm pv s e)) :
    m' = m ∧ nm = name ∧ name ≠ "" ∧ pv ≠ var ∧ pv < m.len ∧ m.varName pv = name ∧
      s = m.len ∧ e = m.len := by
  obtain ⟨h1, h2, h3, h4, h5, h6, h7⟩ := setVarName_dup hr
  have := (name_to_var_iff_var_name h name pv).mp h5
  exact ⟨h1, h2, h3, h4, this.2.1, this.2.2, h6, h7⟩

example : (⟨["x", "y"], [("y", 1), ("x", 0)]⟩ : VarNameMap).setVarName 0 "y" =
    (⟨["x", "y"], [("y", 1), ("x", 0)]⟩, .dup "y" 1 2 2) := by decide

/-- **An accepted `set_var_name`** on an existing variable sets exactly that variable's name
(same name: no-op; `""`: un-name; otherwise name/rename) and keeps the invariant — so the old
name is released: `name_to_var(old)` is `None` afterwards (see `set_var_name_releases`). It is
accepted iff the name is empty or no *other* variable carries it. -/
theorem set_var_name_ok {m : VarNameMap} (h : Inv m) {var : Nat} (hv : var < m.len)
    (name : String) :
    Inv (m.setVarName var name).1 ∧
    ((m.setVarName var name).2 = .ok ↔ (name = "" ∨ ∀ w, m.names[w]? = some name → w = var)) ∧
    ((m.setVarName var name).2 = .ok → (m.setVarName var name).1.names = m.names.set var name) := by
  refine ⟨setVarName_inv h var name, ?_, ?_⟩
  · rw [(setVarName_spec h var name).2]
    unfold Spec.setVarName
    by_cases hn : name = ""
    · subst hn
      rw [Spec.nameToVar_empty]
      simp [show var < m.names.length from hv]
    · rw [← idxGet_eq_spec h hn]
      cases hg : idxGet m.index name with
      | none =>
        simp only [show var < m.names.length from hv, if_true, true_iff]
        right
        intro w hw
        have := (h.lookup name w).mpr ⟨hn, hw⟩
        rw [hg] at this; cases this
      | some pv =>
        have hpv := ((h.lookup name pv).mp hg).2
        by_cases hp : pv = var
        · subst hp
          simp only [ne_eq, not_true_eq_false, if_false, true_iff]
          right
          intro w hw
          exact h.injective w pv name hn hw hpv
        · simp only [ne_eq, hp, not_false_eq_true, if_true]
          constructor
          · intro hh; cases hh
          · rintro (h1 | h1)
            · exact absurd h1 hn
            · exact absurd (h1 pv hpv) hp
  · intro hok
    rw [(setVarName_spec h var name).1]
    rw [(setVarName_spec h var name).2] at hok
    unfold Spec.setVarName at hok ⊢
    cases hq : Spec.nameToVar m.names name with
    | none => simp [show var < m.names.length from hv]
    | some pv =>
      rw [hq] at hok
      by_cases hp : pv = var
      · subst hp
        simp only [ne_eq, not_true_eq_false, if_false]
        have hn : name ≠ "" := by
          intro e; subst e; rw [Spec.nameToVar_empty] at hq; cases hq
        rw [← idxGet_eq_spec h hn] at hq
        have := ((h.lookup name pv).mp hq).2
        exact (set_self_of_getElem? this).symm
      · simp [hp] at hok

/-- after a successful rename/un-name the old name is free again -/
theorem set_var_name_releases {m : VarNameMap} (h : Inv m) {var : Nat} (hv : var < m.len)
    {name : String} (hok : (m.setVarName var name).2 = .ok) (hne : m.varName var ≠ name) :
    (m.setVarName var name).1.nameToVar (m.varName var) = none := by
  have hi := (set_var_name_ok h hv name).1
  have hnames := (set_var_name_ok h hv name).2.2 hok
  cases hq : (m.setVarName var name).1.nameToVar (m.varName var) with
  | none => rfl
  | some w =>
    exfalso
    have hw := (hi.lookup _ w).mp hq
    rw [hnames] at hw
    have hset := (getElem?_set' (x := name) (n := m.varName var) (v := w) hv).mp hw.2
    rcases hset with ⟨_, hx⟩ | ⟨hwv, hl⟩
    · exact hne hx.symm
    · have hprev : m.names[var]? = some (m.varName var) := getElem?_of_lt_getD hv
      exact hwv (h.injective w var _ hw.1 hl hprev)

/-- non-vacuity: the rename that used to leave a dangling key -/
example : (⟨["a", "b"], [("b", 1), ("a", 0)]⟩ : VarNameMap).setVarName 0 "c" =
    (⟨["c", "b"], [("c", 0), ("b", 1)]⟩, .ok) := by decide

/-- `set_var_name` on a variable that does not exist never changes the state. (It panics —
`names[var]` out of bounds — unless the name is taken, in which case it returns
`DuplicateVarName`; see `setVarName_panic_iff`.) -/
theorem set_var_name_out_of_range {m : VarNameMap} {var : Nat} (hv : ¬ var < m.len)
    (name : String) : (m.setVarName var name).1 = m := by
  have hv' : ¬ var < m.names.length := hv
  unfold VarNameMap.setVarName
  dsimp only
  rw [if_neg hv', if_neg hv']
  split
  · rfl
  · split
    · split <;> rfl
    · rfl

/-! ## 4. refinement: the map implements the partial injective function `Var ⇀ Name` -/

/-- **History refinement.** For every call sequence on a fresh map, the implementation returns
exactly what the specification (`Spec`: the list of names alone, lookups by linear search)
returns, ends with the same `var ↦ name` function, and afterwards `name_to_var`, `var_name` and
`named_count` agree with the specification's; the specification's function is injective where
defined. -/
theorem history_refines_spec (cs : List Call) :
    let r := VarNameMap.new.run cs
    let a := Spec.run [] cs
    r.2 = a.2 ∧ r.1.names = a.1 ∧
    (∀ n, r.1.nameToVar n = Spec.nameToVar a.1 n) ∧
    (∀ v, r.1.varName v = Spec.varName a.1 v) ∧
    r.1.namedCount = Spec.namedCount a.1 ∧
    Spec.Injective a.1 := by
  have hi := names_inv cs
  have hs := run_spec cs inv_new
  refine ⟨hs.2, hs.1, ?_, ?_, ?_, ?_⟩
  · intro n
    show (VarNameMap.new.run cs).1.nameToVar n = Spec.nameToVar (Spec.run [] cs).1 n
    have e : (Spec.run [] cs).1 = (VarNameMap.new.run cs).1.names := hs.1.symm
    rw [e]
    exact nameToVar_eq_spec hi n
  · intro v
    show (VarNameMap.new.run cs).1.varName v = Spec.varName (Spec.run [] cs).1 v
    have e : (Spec.run [] cs).1 = (VarNameMap.new.run cs).1.names := hs.1.symm
    rw [e]
    rfl
  · show (VarNameMap.new.run cs).1.namedCount = Spec.namedCount (Spec.run [] cs).1
    have e : (Spec.run [] cs).1 = (VarNameMap.new.run cs).1.names := hs.1.symm
    rw [e]
    exact hi.namedCount_eq
  · show Spec.Injective (Spec.run [] cs).1
    have e : (Spec.run [] cs).1 = (VarNameMap.new.run cs).1.names := hs.1.symm
    rw [e]
    exact hi.injective

example : Spec.run [] [.addNamed ["a", "b", "a", "d"], .setName 0 "c", .setName 1 "c", .getOrAdd "b"] =
    (["c", "b"], [.add (.dup "a" 0 0 2), .set .ok, .set (.dup "c" 0 2 2), .got 1 true]) := by
  decide

/-- step form of the refinement (any state satisfying the invariant, any call) -/
theorem step_refines_spec {m : VarNameMap} (h : Inv m) (c : Call) :
    (m.step c).1.names = (Spec.step m.names c).1 ∧ (m.step c).2 = (Spec.step m.names c).2 :=
  step_spec h c

/-- `get_or_add(name)` is `name_to_var(name)` falling back to `add_named([name])` (this is how
the scenario emulates `get_or_add` on a manager, which has no such method) -/
theorem get_or_add_eq (m : VarNameMap) (n : String) :
    m.getOrAdd n =
      match (if n = "" then none else m.nameToVar n) with
      | some v => (m, (v, true))
      | none => ((m.addNamed [n]).1, (m.len, false)) := by
  unfold VarNameMap.getOrAdd VarNameMap.addNamed VarNameMap.nameToVar VarNameMap.len
  by_cases hn : n = ""
  · simp [hn, addNamedLoop]
  · simp only [hn, if_false]
    cases hg : idxGet m.index n with
    | none => simp [addNamedLoop, hn, hg]
    | some v => rfl

/-! ## 5. the manager: as many levels as variables, on every exit path -/

/-- **`levels_eq_vars`.** After every sequence of `add_vars`, `add_named_vars`,
`add_named_vars_from_map` (with an arbitrary map, i.e. one built by an arbitrary history) and
`set_var_name` calls on a fresh manager — accepted or rejected — `num_levels = num_vars =` the
length of the name map `=` the length of the var/level map, the name map satisfies `names_inv`,
`name_to_var`/`var_name` are mutually inverse on exactly the named variables and
`num_named_vars` counts them. -/
theorem levels_eq_vars (cs : List MCall) :
    let g := (Mgr.init.run cs).1
    g.numLevels = g.numVars ∧ g.numVars = g.map.len ∧ g.vlm = g.map.len ∧ Inv g.map ∧
    (∀ n v, g.nameToVar n = some v ↔ (n ≠ "" ∧ v < g.numVars ∧ g.varName v = n)) ∧
    g.numNamedVars = (g.map.names.filter (· ≠ "")).length := by
  have h : MInv (Mgr.init.run cs).1 := Mgr.run_inv cs ⟨rfl, rfl, inv_new⟩
  refine ⟨rfl, h.levels, h.vlm, h.map, ?_, h.map.namedCount_eq⟩
  intro n v
  have := name_to_var_iff_var_name h.map n v
  show (Mgr.init.run cs).1.map.nameToVar n = some v ↔
    (n ≠ "" ∧ v < (Mgr.init.run cs).1.levels ∧ (Mgr.init.run cs).1.map.varName v = n)
  rw [h.levels]
  exact this

/-- non-vacuity: a rejected batch in the middle (scope guard), a map handed over to an empty and
to a non-empty manager, a rejected rename -/
example :
    (Mgr.init.run [.addNamedVarsFromMap [.addNamed ["a", ""]], .addNamedVars ["b", "a", "c"],
      .addNamedVarsFromMap [.addNamed ["d", "b"]], .setVarName 1 "a", .addVars 2]) =
    (⟨6, 6, ⟨["a", "", "b", "d", "", ""], [("d", 3), ("b", 2), ("a", 0)]⟩⟩,
      [.add (.ok 0 2), .add (.dup "a" 0 2 3), .add (.dup "b" 2 3 4), .set (.dup "a" 0 4 4),
        .add (.ok 4 6)]) := by decide

/-- step form: every manager call preserves `levels = vars = |names| = |var_level_map|` and the
name-map invariant -/
theorem levels_eq_vars_preserved {g : Mgr} (h : MInv g) (c : MCall) : MInv (g.step c).1 :=
  Mgr.step_inv h c

/-- the manager returns what the bare map returns (`add_vars` returns the appended range) -/
theorem mgr_results {g : Mgr} (h : MInv g) :
    (∀ k, (g.addVars k).2 = .ok g.map.len (g.map.len + k)) ∧
    (∀ l, (g.addNamedVars l).2 = (g.map.addNamed l).2 ∧
          (g.addNamedVars l).1.map = (g.map.addNamed l).1) ∧
    (∀ v n, (g.setVarName v n).2 = (g.map.setVarName v n).2 ∧
          (g.setVarName v n).1.map = (g.map.setVarName v n).1) := by
  refine ⟨?_, ?_, ?_⟩
  · intro k
    show AddRes.ok g.levels (g.levels + k) = _
    rw [h.levels]; rfl
  · intro l; exact ⟨rfl, rfl⟩
  · intro v n; exact ⟨rfl, rfl⟩

/-! ## 6. `add_named_vars_from_map` is a specialisation of `add_named_vars` -/

/-- **`add_named_vars_from_map(map)` is observably `add_named_vars(map.into_names_iter())`**:
same result, same `var ↦ name` function afterwards (only the internal order of the hash index
may differ), for every consistent manager and every consistent map. -/
theorem from_map_eq_add_named {g : Mgr} (h : MInv g) {map : VarNameMap} (hm : Inv map) :
    (g.addNamedVarsFromMap map).2 = (g.addNamedVars map.intoNames).2 ∧
    (g.addNamedVarsFromMap map).1.map.names = (g.addNamedVars map.intoNames).1.map.names ∧
    (g.addNamedVarsFromMap map).1.levels = (g.addNamedVars map.intoNames).1.levels := by
  unfold Mgr.addNamedVarsFromMap
  split
  · exact ⟨rfl, rfl, rfl⟩
  · next he =>
    have he' : g.map.names = [] := by
      simpa [VarNameMap.isEmpty, List.isEmpty_iff] using he
    have hspec := addNamedLoop_spec g.map.names.length map.names g.map g.map.names.length h.map rfl
    have hinj : Spec.Injective (g.map.names ++ map.names) := by
      rw [he']; simpa using hm.injective
    rw [Spec.addNamedLoop_of_injective _ _ _ hinj] at hspec
    have h1 : (g.map.addNamed map.names).1.names = g.map.names ++ map.names := hspec.1
    have h2 : (g.map.addNamed map.names).2 = .ok g.map.names.length (g.map.names ++ map.names).length :=
      hspec.2
    refine ⟨?_, ?_, ?_⟩
    · show AddRes.ok 0 map.names.length = (g.map.addNamed map.names).2
      rw [h2, he']; simp
    · show map.names = (g.map.addNamed map.names).1.names
      rw [h1, he']; simp
    · show map.names.length = (g.map.addNamed map.names).1.names.length
      rw [h1, he']; simp

end OxiddModel.VarNames
