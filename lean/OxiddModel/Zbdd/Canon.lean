import OxiddModel.Zbdd.Lemmas

/-! Canonicity of zero-suppressed ordered diagrams relative to the number of levels `n`: two
normal-form trees with the same Boolean view are equal. -/
namespace OxiddModel.Zbdd
open ZDD

/-- the member of the family picked along the hi-path -/
def wit : ZDD → Nat → Bool
  | .empty => fun _ => false
  | .base => fun _ => false
  | .node l hi _ => fun v => if v = l then true else wit hi v

theorem wit_below {n k : Nat} {a : ZDD} (h : Ordered n k a) : ∀ v, v < k → wit a v = false := by
  induction h with
  | empty => intro _ _; rfl
  | base => intro _ _; rfl
  | node h1 _ _ _ ihh _ =>
    intro v hv
    simp only [wit]
    split
    · omega
    · exact ihh v (by omega)

/-- a zero-suppressed diagram other than `∅` has a member: every hi-edge leads to a non-empty family -/
theorem wit_sat {n k : Nat} {a : ZDD} (h : Ordered n k a) (r : Reduced a) (ne : a ≠ .empty) :
    eval n (wit a) k a = true := by
  induction h with
  | empty => exact absurd rfl ne
  | base => simp only [eval, allFalse_iff]; intros; rfl
  | @node k l hi lo h1 h2 oh _ ihh _ =>
    simp only [eval, wit, if_true, Bool.and_eq_true, allFalse_iff]
    refine ⟨fun v hv1 hv2 => ?_, ?_⟩
    · have : v ≠ l := by omega
      simp [this]; exact wit_below oh v (by omega)
    · have := ihh r.2.1 r.1
      rw [← this]
      exact eval_indep oh _ _ (fun w hw => by have : w ≠ l := by omega
                                              simp [this])

/-- levels below `l` false, `l := b`, rest as `σ` -/
def setAt (σ : Nat → Bool) (l : Nat) (b : Bool) : Nat → Bool :=
  fun v => if v < l then false else if v = l then b else σ v

theorem eval_node_setAt_true {n k l : Nat} {hi lo : ZDD} (oh : Ordered n (l+1) hi) (σ : Nat → Bool) :
    eval n (setAt σ l true) k (.node l hi lo) = eval n σ (l+1) hi := by
  simp only [eval]
  have h1 : allFalse (setAt σ l true) k l = true := by
    rw [allFalse_iff]; intro v _ h2; simp [setAt, h2]
  have h2 : setAt σ l true l = true := by simp [setAt]
  rw [h1, h2]; simp
  exact eval_indep oh _ _ (fun w hw => by
    have a : ¬ w < l := by omega
    have b : w ≠ l := by omega
    simp [setAt, a, b])

theorem eval_node_setAt_false {n k l : Nat} {hi lo : ZDD} (ol : Ordered n (l+1) lo) (σ : Nat → Bool) :
    eval n (setAt σ l false) k (.node l hi lo) = eval n σ (l+1) lo := by
  simp only [eval]
  have h1 : allFalse (setAt σ l false) k l = true := by
    rw [allFalse_iff]; intro v _ h2; simp [setAt, h2]
  have h2 : setAt σ l false l = false := by simp [setAt]
  rw [h1, h2]; simp
  exact eval_indep ol _ _ (fun w hw => by
    have a : ¬ w < l := by omega
    have b : w ≠ l := by omega
    simp [setAt, a, b])

/-- a tree ordered from `l+1`, read from a level `k ≤ l` with variable `l` true, is false -/
theorem eval_false_of_true_below {n k l : Nat} {a : ZDD} (h : Ordered n (l+1) a) (hk : k ≤ l) (hl : l < n)
    (σ : Nat → Bool) (hσ : σ l = true) : eval n σ k a = false := by
  rw [eval_shift σ h (by omega : k ≤ l+1) (by omega), allFalse_succ σ hk, hσ]; simp

/-- **Canonicity.** -/
theorem canon (n : Nat) (a b : ZDD) (k : Nat) (ha : Ordered n k a) (hb : Ordered n k b)
    (ra : Reduced a) (rb : Reduced b)
    (h : ∀ σ, eval n σ k a = eval n σ k b) : a = b := by
  match a, b with
  | .empty, .empty => rfl
  | .base, .base => rfl
  | .empty, .base =>
    exfalso
    have := h (fun _ => false); simp [eval, allFalse_zero] at this
  | .base, .empty =>
    exfalso
    have := h (fun _ => false); simp [eval, allFalse_zero] at this
  | .empty, .node l hi lo =>
    have := wit_sat hb rb (by simp)
    rw [← h] at this; simp [eval] at this
  | .node l hi lo, .empty =>
    have := wit_sat ha ra (by simp)
    rw [h] at this; simp [eval] at this
  | .base, .node l hi lo =>
    exfalso
    have hs := wit_sat hb rb (by simp)
    rw [← h] at hs
    simp only [eval, allFalse_iff] at hs
    cases hb with
    | node h1 h2 _ _ =>
      have := hs l h1 h2
      simp [wit] at this
  | .node l hi lo, .base =>
    exfalso
    have hs := wit_sat ha ra (by simp)
    rw [h] at hs
    simp only [eval, allFalse_iff] at hs
    cases ha with
    | node h1 h2 _ _ =>
      have := hs l h1 h2
      simp [wit] at this
  | .node l hi lo, .node l' hi' lo' =>
    cases ha with
    | node a1 a2 ah al =>
    cases hb with
    | node b1 b2 bh bl =>
      rcases Nat.lt_trichotomy l l' with hlt | heq | hgt
      · exfalso
        have hs := wit_sat (.node a1 a2 ah al) ra (by simp)
        rw [h] at hs
        have : eval n (wit (.node l hi lo)) k (.node l' hi' lo') = false :=
          eval_false_of_true_below (.node (by omega) b2 bh bl) a1 a2 _ (by simp [wit])
        rw [this] at hs; cases hs
      · subst heq
        have h1 : hi = hi' := canon n hi hi' (l+1) ah bh ra.2.1 rb.2.1 (fun σ => by
          rw [← eval_node_setAt_true (k := k) (lo := lo) ah σ, h, eval_node_setAt_true bh])
        have h2 : lo = lo' := canon n lo lo' (l+1) al bl ra.2.2 rb.2.2 (fun σ => by
          rw [← eval_node_setAt_false (k := k) (hi := hi) al σ, h, eval_node_setAt_false bl])
        rw [h1, h2]
      · exfalso
        have hs := wit_sat (.node b1 b2 bh bl) rb (by simp)
        rw [← h] at hs
        have : eval n (wit (.node l' hi' lo')) k (.node l hi lo) = false :=
          eval_false_of_true_below (.node (by omega) a2 ah al) b1 b2 _ (by simp [wit])
        rw [this] at hs; cases hs
termination_by a.size + b.size
decreasing_by all_goals simp_wf <;> simp [size] <;> omega

/-- handles are equal iff they denote the same function (tree level) -/
theorem nf_eq_iff (n k : Nat) (a b : ZDD) (ha : NF n k a) (hb : NF n k b) :
    a = b ↔ ∀ σ, eval n σ k a = eval n σ k b :=
  ⟨fun h _ => h ▸ rfl, canon n a b k ha.1 hb.1 ha.2 hb.2⟩

/-- a normal-form diagram is `∅` iff it has no member -/
theorem nf_empty_iff (n k : Nat) (a : ZDD) (ha : NF n k a) : a = .empty ↔ ∀ σ, eval n σ k a = false :=
  nf_eq_iff n k a .empty ha ⟨.empty, trivial⟩

/-- a normal-form diagram is the tautology of its level range iff it is valid -/
theorem nf_taut_iff (n k : Nat) (a : ZDD) (ha : NF n k a) : a = taut n k ↔ ∀ σ, eval n σ k a = true := by
  rw [nf_eq_iff n k a (taut n k) ha (taut_nf n k)]
  constructor
  · intro h σ; rw [h, taut_eval]
  · intro h σ; rw [h, taut_eval]

end OxiddModel.Zbdd
