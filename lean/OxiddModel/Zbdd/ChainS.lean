import OxiddModel.Zbdd.SetOpsS
import OxiddModel.Zbdd.Canon

/-!
# The tautology chain (`ZBDDCache::tautologies`), `add_vars`, `apply_not`

`ZBDDCache` keeps one edge per level (plus the `Base` terminal): `tautology(l)` is the don't-care
chain over the levels `[l, n)`. The chain is (re)built by `post_reorder_mut` on `init`, after
reordering and on `add_vars` — bottom up, by `get_or_insert` without any reduction rule. The
entries are *internal roots*: the manager holds a reference to each of them.

* `buildChain n j s`: the first `j` inner entries (levels `n-1, …, n-j`), as a list with the
  top-most level first (this is the Rust `Vec` read from the back, so that `tautology(level)` is
  entry `min(len-1, level)`: `tautologyS`).
* `ChainOK n s chain`: the chain has `n+1` entries and entry `l` denotes `taut n l`.
* `buildChain_spec`: the rebuilt chain satisfies `ChainOK`, the store is only extended, `Unique`
  and `NoRed` are preserved.
* `Mgr`, `Mgr.addVars`: what `add_vars` does to store, chain, number of levels and apply cache
  (the apply cache is **not** cleared by `add_vars`; `try_remove_node` on the old chain does
  nothing outside a reordering, so the store is only extended).
* `EntryOK.addVars` / `CacheOK.addVars`: only `Ite` entries refer to the current number of levels,
  and their meaning does not change when levels are appended (`applyIte_numLevels_indep`, by
  canonicity).
* `notS` = `apply_not`: `apply_diff(tautology(0), f)`.
-/
namespace OxiddModel.Zbdd.Refine
open OxiddModel.Zbdd OxiddModel.Zbdd.ZDD
open OxiddModel.Bdd.Refine (Policy OpTag Key Cache)

/-! ## building the chain -/

/-- `post_reorder_mut`: `tautologies.push(Base)`, then for the levels `n-1, n-2, …`:
`get_or_insert(InnerNode::new(level, [last, last]))`. The result lists the entries with the one
pushed last (the top-most level) first. -/
def buildChain (n : Nat) : Nat → Store → Store × List ZEdge
  | 0, s => (s, [.base])
  | j+1, s =>
    let r := buildChain n j s
    let last := r.2.headD .base
    let m := r.1.getOrInsert ⟨n - (j+1), last, last⟩
    (m.1, m.2 :: r.2)

/-- `ZBDDCache::tautology(level)`: `tautologies[len - 1 - min(len - 1, level)]` -/
def tautologyS (chain : List ZEdge) (level : Nat) : ZEdge :=
  chain.getD (min (chain.length - 1) level) .base

/-- the chain of a manager with `n` levels: `n+1` entries, entry `l` denotes `tautology(l)` -/
def ChainOK (n : Nat) (s : Store) (chain : List ZEdge) : Prop :=
  chain.length = n + 1 ∧ ∀ l, l ≤ n → DenotesZ s (chain.getD l .base) (taut n l)

theorem ChainOK.mono {n : Nat} {s s' : Store} {chain : List ZEdge} (h : ChainOK n s chain)
    (hle : s.Le s') : ChainOK n s' chain :=
  ⟨h.1, fun l hl => (h.2 l hl).mono hle⟩

/-- **`tautology(level)` denotes `taut n level`, for every `level`** (beyond the last level it is
`Base`) -/
theorem tautologyS_denotes {n : Nat} {s : Store} {chain : List ZEdge} (h : ChainOK n s chain)
    (level : Nat) : DenotesZ s (tautologyS chain level) (taut n level) := by
  unfold tautologyS
  rw [h.1]
  by_cases hl : level ≤ n
  · have : min (n + 1 - 1) level = level := by omega
    rw [this]; exact h.2 level hl
  · have : min (n + 1 - 1) level = n := by omega
    rw [this, taut_ge (by omega : n ≤ level), ← taut_ge (Nat.le_refl n)]
    exact h.2 n (Nat.le_refl n)

/-- the state after pushing `j` inner entries -/
theorem buildChain_spec (n : Nat) : ∀ (j : Nat) (s : Store), j ≤ n →
    s.Le (buildChain n j s).1 ∧
    (s.Unique → (buildChain n j s).1.Unique) ∧
    (s.NoRed → (buildChain n j s).1.NoRed) ∧
    (buildChain n j s).2.length = j + 1 ∧
    ∀ i, i ≤ j → DenotesZ (buildChain n j s).1 ((buildChain n j s).2.getD i .base)
      (taut n (n - j + i)) := by
  intro j
  induction j with
  | zero =>
    intro s _
    refine ⟨Store.Le.refl _, id, id, rfl, ?_⟩
    intro i hi
    have : i = 0 := by omega
    subst this
    simp only [buildChain, List.getD_cons_zero]
    rw [taut_ge (by omega)]
    exact .base
  | succ j ih =>
    intro s hj
    obtain ⟨hle, hu, hr, hlen, hden⟩ := ih s (by omega)
    simp only [buildChain]
    have hlast : DenotesZ (buildChain n j s).1 ((buildChain n j s).2.headD .base)
        (taut n (n - j)) := by
      have := hden 0 (Nat.zero_le _)
      rw [Nat.add_zero] at this
      cases hc : (buildChain n j s).2 with
      | nil => rw [hc] at hlen; simp at hlen
      | cons x xs => rw [hc] at this; simpa using this
    have hne : (buildChain n j s).2.headD .base ≠ .empty := fun e =>
      taut_ne_empty n (n - j) (hlast.empty_iff.mp e)
    have hle' := getOrInsert_le (buildChain n j s).1
      ⟨n - (j+1), (buildChain n j s).2.headD .base, (buildChain n j s).2.headD .base⟩
    refine ⟨hle.trans hle', fun h => getOrInsert_unique _ _ (hu h),
      fun h => getOrInsert_nored _ _ hne (hr h), by simp [hlen], ?_⟩
    intro i hi
    cases i with
    | zero =>
      simp only [List.getD_cons_zero, Nat.add_zero]
      have := getOrInsert_denotes (buildChain n j s).1 (n - (j+1)) _ _ _ _ hlast hlast
      rw [taut_succ (by omega : n - (j+1) < n)]
      have e : n - (j + 1) + 1 = n - j := by omega
      rw [e]; exact this
    | succ i =>
      simp only [List.getD_cons_succ]
      have := (hden i (by omega)).mono hle'
      have e : n - (j + 1) + (i + 1) = n - j + i := by omega
      rw [e]; exact this

/-- `post_reorder_mut` in a manager with `n` levels -/
def rebuildChain (n : Nat) (s : Store) : Store × List ZEdge := buildChain n n s

/-- **the rebuilt chain denotes the tautologies of all levels** -/
theorem rebuildChain_ok (n : Nat) (s : Store) :
    ChainOK n (rebuildChain n s).1 (rebuildChain n s).2 := by
  obtain ⟨_, _, _, hlen, hden⟩ := buildChain_spec n n s (Nat.le_refl n)
  refine ⟨hlen, fun l hl => ?_⟩
  have := hden l hl
  rwa [Nat.sub_self, Nat.zero_add] at this

theorem rebuildChain_le (n : Nat) (s : Store) : s.Le (rebuildChain n s).1 :=
  (buildChain_spec n n s (Nat.le_refl n)).1

theorem rebuildChain_unique (n : Nat) (s : Store) (hu : s.Unique) : (rebuildChain n s).1.Unique :=
  (buildChain_spec n n s (Nat.le_refl n)).2.1 hu

theorem rebuildChain_nored (n : Nat) (s : Store) (hr : s.NoRed) : (rebuildChain n s).1.NoRed :=
  (buildChain_spec n n s (Nat.le_refl n)).2.2.1 hr

/-! ## the number of levels in the meaning of cache entries -/

/-- evaluating a diagram that is ordered for `n` levels in a manager with `n' ≥ n` levels: the
additional variables must be 0 -/
theorem eval_more {n n' k : Nat} {t : ZDD} (σ : Nat → Bool) (h : Ordered n k t) (hk : k ≤ n)
    (hn : n ≤ n') : eval n' σ k t = (eval n σ k t && allFalse σ n n') := by
  induction h with
  | empty => simp [eval]
  | base => simp only [eval]; exact allFalse_split σ hk hn
  | @node k l hi lo h1 h2 _ _ ihh ihl =>
    simp only [eval]
    rw [ihh (by omega), ihl (by omega)]
    cases σ l <;> simp [Bool.and_assoc]

/-- **`applyIte` does not depend on the number of levels on normal-form operands**: as families,
`ite(f, g, h) = (f ∩ g) ∪ (h ∖ f)`; the comparisons with `tautology(level)` are only shortcuts.
(This is why the key `(Ite, [f, g, h], [])` needs no `num_levels`, in contrast to `Restrict`.) -/
theorem applyIte_numLevels_indep {n n' : Nat} (hn : n ≤ n') (hn' : n' ≤ maxLevel) {a b c : ZDD}
    (ha : NF n 0 a) (hb : NF n 0 b) (hc : NF n 0 c) : applyIte n a b c = applyIte n' a b c := by
  have ha' : NF n' 0 a := ⟨ha.1.more hn, ha.2⟩
  have hb' : NF n' 0 b := ⟨hb.1.more hn, hb.2⟩
  have hc' : NF n' 0 c := ⟨hc.1.more hn, hc.2⟩
  have h1 := applyIte_nf n a b c 0 (by omega) ha hb hc
  have h2 := applyIte_nf n' a b c 0 hn' ha' hb' hc'
  apply canon n' _ _ 0 (h1.1.more hn) h2.1 h1.2 h2.2
  intro σ
  rw [eval_more σ h1.1 (Nat.zero_le _) hn, applyIte_eval n a b c 0 σ (by omega) ha.1 hb.1 hc.1,
    applyIte_eval n' a b c 0 σ hn' ha'.1 hb'.1 hc'.1, eval_more σ ha.1 (Nat.zero_le _) hn,
    eval_more σ hb.1 (Nat.zero_le _) hn, eval_more σ hc.1 (Nat.zero_le _) hn]
  cases allFalse σ n n' <;> cases eval n σ 0 a <;> simp

/-- the manager after its number of levels changed (`var_to_level` of the existing and of the
future variables is unaffected by `add_vars`: new variables are appended at the bottom) -/
def Env.withLevels (env : Env) (n : Nat) : Env := { env with numLevels := n }

/-- **only `Ite` entries refer to the current number of levels.** The meaning of every other
entry — in particular of a `Restrict` entry, whose key carries the number of levels it was
computed for — is the same for every number of levels. -/
theorem specZ_numLevels_indep (env : Env) (n : Nat) {op : ZOp} (hop : op ≠ .ite) (ts : List ZDD)
    (ns : List Nat) : specZ (env.withLevels n) op ts ns = specZ env op ts ns := by
  rcases ts with _ | ⟨a, _ | ⟨b, _ | ⟨c, _ | ⟨d, ts⟩⟩⟩⟩ <;> rcases ns with _ | ⟨m, _ | ⟨m', ns⟩⟩ <;>
    cases op <;> first | exact absurd rfl hop | rfl

/-- … and the meaning of an `Ite` entry with normal-form operands is the same for every larger
number of levels -/
theorem specZ_ite_more (env : Env) {n' : Nat} (hn : env.numLevels ≤ n') (hn' : n' ≤ maxLevel)
    {ts : List ZDD} {ns : List Nat} {T : ZDD} (h : specZ env .ite ts ns = some T)
    (hnf : ∀ t, t ∈ ts → NF env.numLevels 0 t) : specZ (env.withLevels n') .ite ts ns = some T := by
  rcases ts with _ | ⟨a, _ | ⟨b, _ | ⟨c, _ | ⟨d, ts⟩⟩⟩⟩ <;> rcases ns with _ | ⟨m, _ | ⟨m', ns⟩⟩ <;>
    simp only [specZ] at h <;> try cases h
  simp only [specZ, Env.withLevels, Option.some.injEq]
  exact (applyIte_numLevels_indep hn hn' (hnf a (by simp)) (hnf b (by simp)) (hnf c (by simp))).symm

/-- **a sound entry stays sound when levels are appended** -/
theorem EntryOK.addVars {env : Env} {s : Store} {k : Key} {r : Bdd.Refine.Edge}
    (h : EntryOK env s k r) {n' : Nat} (hn : env.numLevels ≤ n') (hn' : n' ≤ maxLevel) :
    EntryOK (env.withLevels n') s k r := by
  obtain ⟨zk, ts, T, h0, h1, h2, h3, h4⟩ := h
  by_cases hop : zk.op = .ite
  · refine ⟨zk, ts, T, h0, h1, ?_, h3, fun _ t ht => ?_⟩
    · rw [hop] at h2 ⊢
      exact specZ_ite_more env hn hn' h2 (h4 hop)
    · exact ⟨(h4 hop t ht).1.more hn, (h4 hop t ht).2⟩
  · refine ⟨zk, ts, T, h0, h1, ?_, h3, fun e => absurd e hop⟩
    rw [specZ_numLevels_indep env n' hop]
    exact h2

/-- **`add_vars` keeps the cache sound without clearing it**: the store is only extended, the
meaning of the entries other than `Ite` does not depend on the current number of levels, and the
meaning of `Ite` entries (normal-form operands) does not change when levels are appended -/
theorem CacheOK.addVars {env : Env} {s s' : Store} {c : Cache} (h : CacheOK env s c)
    (hle : s.Le s') {n' : Nat} (hn : env.numLevels ≤ n') (hn' : n' ≤ maxLevel) :
    CacheOK (env.withLevels n') s' c :=
  fun k r hm => ((h k r hm).mono hle).addVars hn hn'

/-! ## the manager: store, apply cache, chain -/

structure Mgr where
  st : St
  env : Env
  /-- `ZBDDCache::tautologies`, top-most level first -/
  chain : List ZEdge

/-- the manager invariant: hash consing, sound apply cache, chain in place -/
def Mgr.OK (m : Mgr) : Prop :=
  Inv m.env m.st ∧ ChainOK m.env.numLevels m.st.store m.chain

/-- `Manager::add_vars(k)`: `pre_reorder_mut` drops the chain's references (outside a reordering
`try_remove_node` removes nothing), the unique table gets `k` more levels, `post_reorder_mut`
rebuilds the chain for `n + k` levels. The apply cache is left as it is. -/
def Mgr.addVars (m : Mgr) (k : Nat) : Mgr :=
  let r := rebuildChain (m.env.numLevels + k) m.st.store
  { st := { m.st with store := r.1 }
    env := m.env.withLevels (m.env.numLevels + k)
    chain := r.2 }

/-- `add_vars` keeps the manager invariant (level numbers stay below `LevelNo::MAX`, which is
reserved for terminals) -/
theorem Mgr.addVars_ok (m : Mgr) (k : Nat) (h : m.OK) (hk : m.env.numLevels + k ≤ maxLevel) :
    (m.addVars k).OK ∧ m.st.store.Le (m.addVars k).st.store ∧
      (m.addVars k).st.cache = m.st.cache :=
  ⟨⟨⟨rebuildChain_unique _ _ h.1.1,
      CacheOK.addVars h.1.2 (rebuildChain_le _ _) (Nat.le_add_right _ _) hk⟩, rebuildChain_ok _ _⟩,
    rebuildChain_le _ _, rfl⟩

/-! ## `apply_not` -/

/-- `apply_not`: `apply_diff(manager, rec, tautology(0), f)` -/
def notS (p : Policy) (chain : List ZEdge) (fuel : Nat) (st : St) (f : ZEdge) : St × ZEdge :=
  setOpS p .diff fuel st (tautologyS chain 0) f

/-- **`apply_not` with cache refines `applyNot n`** -/
theorem notS_spec {p : Policy} (pok : p.OK) (env : Env) (chain : List ZEdge) (fuel : Nat)
    (st : St) (f : ZEdge) (a : ZDD) (hinv : Inv env st)
    (hch : ChainOK env.numLevels st.store chain) (hf : DenotesZ st.store f a)
    (hfuel : (taut env.numLevels 0).size + a.size ≤ fuel) :
    Post env st.store (applyNot env.numLevels a) (notS p chain fuel st f) :=
  setOpS_spec pok env .diff fuel st _ f _ a hinv (tautologyS_denotes hch 0) hf hfuel

end OxiddModel.Zbdd.Refine
