import OxiddModel.Zbdd.Subset

/-! Model counting: the number of paths to `Base` is the number of satisfying assignments over the
`n` variables of the manager. -/
namespace OxiddModel.Zbdd
open ZDD

/-- number of assignments `τ` satisfying `p` among those that extend `σ` by arbitrary values on the
`c` levels `k, …, k+c-1` (an independent, enumerating definition of the model count) -/
def cnt (p : (Nat → Bool) → Bool) : Nat → Nat → (Nat → Bool) → Nat
  | 0, _, σ => if p σ then 1 else 0
  | c+1, k, σ => cnt p c (k+1) (upd σ k false) + cnt p c (k+1) (upd σ k true)

/-- the number of satisfying assignments of `p` over the variables (levels) `0, …, n-1` -/
def modelCount (n : Nat) (p : (Nat → Bool) → Bool) : Nat := cnt p n 0 (fun _ => false)

theorem cnt_congr (p q : (Nat → Bool) → Bool) (c k : Nat) (σ : Nat → Bool)
    (h : ∀ τ, (∀ v, v < k → τ v = σ v) → p τ = q τ) : cnt p c k σ = cnt q c k σ := by
  induction c generalizing k σ with
  | zero => simp only [cnt]; rw [h σ (fun _ _ => rfl)]
  | succ c ih =>
    simp only [cnt]
    rw [ih (k+1) (upd σ k false), ih (k+1) (upd σ k true)]
    · intro τ hτ
      apply h
      intro v hv
      rw [hτ v (by omega), upd_ne σ true (by omega)]
    · intro τ hτ
      apply h
      intro v hv
      rw [hτ v (by omega), upd_ne σ false (by omega)]

theorem cnt_false (c k : Nat) (σ : Nat → Bool) : cnt (fun _ => false) c k σ = 0 := by
  induction c generalizing k σ with
  | zero => rfl
  | succ c ih => simp only [cnt]; rw [ih, ih]

/-- `sat_count_edge::inner` counts the members of the family -/
theorem pathCount_eq (n : Nat) (c k : Nat) (f : ZDD) (σ : Nat → Bool) (hc : k + c = n) (hf : Ordered n k f) :
    cnt (fun τ => eval n τ k f) c k σ = pathCount f := by
  induction c generalizing k f σ with
  | zero =>
    simp only [cnt]
    cases hf with
    | empty => rfl
    | base => simp [eval, pathCount, allFalse_of_le σ (by omega : n ≤ k)]
    | node h1 h2 _ _ => omega
  | succ c ih =>
    simp only [cnt]
    -- a diagram rooted strictly below level `k`
    have below : ∀ g, Ordered n (k+1) g →
        cnt (fun τ => eval n τ k g) c (k+1) (upd σ k false) + cnt (fun τ => eval n τ k g) c (k+1) (upd σ k true)
          = pathCount g := by
      intro g og
      rw [cnt_congr _ (fun τ => eval n τ (k+1) g) c (k+1) (upd σ k false), ih (k+1) g _ (by omega) og,
        cnt_congr _ (fun _ => false) c (k+1) (upd σ k true), cnt_false]
      · rfl
      · intro τ hτ
        rw [eval_below τ og (Nat.le_refl k) (by omega), hτ k (by omega), upd_same]; simp
      · intro τ hτ
        rw [eval_below τ og (Nat.le_refl k) (by omega), hτ k (by omega), upd_same, allFalse_self]; simp
    cases hf with
    | empty => exact below _ .empty
    | base => exact below _ .base
    | @node _ l hi lo h1 h2 oh ol =>
      by_cases hl : l = k
      · subst hl
        rw [cnt_congr _ (fun τ => eval n τ (l+1) lo) c (l+1) (upd σ l false), ih (l+1) lo _ (by omega) ol,
          cnt_congr _ (fun τ => eval n τ (l+1) hi) c (l+1) (upd σ l true), ih (l+1) hi _ (by omega) oh]
        · simp only [pathCount]; omega
        · intro τ hτ
          simp only [eval, allFalse_self, Bool.true_and, hτ l (by omega), upd_same, if_true]
        · intro τ hτ
          simp only [eval, allFalse_self, Bool.true_and, hτ l (by omega), upd_same, Bool.false_eq_true, if_false]
      · exact below _ (.node (by omega) h2 oh ol)

/-- a predicate that only looks at the levels below `k` has `2^c` extensions per satisfying
assignment over `c` further levels -/
theorem cnt_indep (p : (Nat → Bool) → Bool) (c k : Nat) (σ : Nat → Bool)
    (h : ∀ τ τ', (∀ v, v < k → τ v = τ' v) → p τ = p τ') :
    cnt p c k σ = 2 ^ c * (if p σ then 1 else 0) := by
  induction c generalizing k σ with
  | zero => simp [cnt]
  | succ c ih =>
    simp only [cnt]
    have hk : ∀ τ τ', (∀ v, v < k + 1 → τ v = τ' v) → p τ = p τ' :=
      fun τ τ' hh => h τ τ' (fun v hv => hh v (by omega))
    rw [ih (k+1) _ hk, ih (k+1) _ hk,
      h (upd σ k false) σ (fun v hv => upd_ne σ false (by omega)),
      h (upd σ k true) σ (fun v hv => upd_ne σ true (by omega)), Nat.pow_succ]
    split <;> omega

/-- counting over `m` additional don't-care levels multiplies the count by `2^m` -/
theorem cnt_extra (p : (Nat → Bool) → Bool) (a m k : Nat) (σ : Nat → Bool)
    (h : ∀ τ τ', (∀ v, v < k + a → τ v = τ' v) → p τ = p τ') :
    cnt p (a + m) k σ = 2 ^ m * cnt p a k σ := by
  induction a generalizing k σ with
  | zero =>
    rw [Nat.zero_add, cnt_indep p m k σ (by simpa using h)]
    simp [cnt]
  | succ a ih =>
    have e : a + 1 + m = (a + m) + 1 := by omega
    rw [e]
    simp only [cnt]
    have hk : ∀ τ τ', (∀ v, v < k + 1 + a → τ v = τ' v) → p τ = p τ' :=
      fun τ τ' hh => h τ τ' (fun v hv => hh v (by omega))
    rw [ih (k+1) _ hk, ih (k+1) _ hk, Nat.mul_add]

/-- the Boolean view over `n` levels only reads the levels `[k, n)` -/
theorem eval_indep_lt {n k : Nat} {a : ZDD} (h : Ordered n k a) (σ τ : Nat → Bool)
    (hστ : ∀ v, k ≤ v → v < n → σ v = τ v) : eval n σ k a = eval n τ k a := by
  induction h with
  | empty => rfl
  | base => simp only [eval]; exact allFalse_congr hστ
  | node h1 h2 _ _ ihh ihl =>
    simp only [eval]
    rw [allFalse_congr (fun v a b => hστ v a (by omega)), hστ _ h1 h2]
    rw [ihh (fun w hw hn => hστ w (by omega) hn), ihl (fun w hw hn => hστ w (by omega) hn)]

/-- **C12**: for `vars = num_levels` the result of `sat_count` is exactly the number of satisfying
assignments of the Boolean view -/
theorem satCount_exact (n : Nat) (f : ZDD) (hf : Ordered n 0 f) :
    satCount n n f = modelCount n (fam n f) := by
  unfold satCount modelCount fam
  simp only [ge_iff_le, Nat.le_refl, if_true, Nat.sub_self, Nat.shiftLeft_zero]
  exact (pathCount_eq n n 0 f _ (by omega) hf).symm

/-- **C12**, `vars ≥ num_levels`: the result is the model count over the manager's variables times
`2^(vars - n)` … -/
theorem satCount_ge (n m : Nat) (f : ZDD) (hf : Ordered n 0 f) :
    satCount n (n + m) f = modelCount n (fam n f) * 2 ^ m := by
  rw [← satCount_exact n f hf]
  unfold satCount
  simp only [ge_iff_le, Nat.le_add_right, Nat.le_refl, if_true, Nat.add_sub_cancel_left, Nat.sub_self,
    Nat.shiftLeft_eq, Nat.pow_zero, Nat.mul_one]

/-- … which is the number of satisfying assignments over `n + m` variables of the handle's
function read as a function that ignores the `m` additional variables -/
theorem modelCount_extra (n m : Nat) (f : ZDD) (hf : Ordered n 0 f) :
    modelCount (n + m) (fam n f) = modelCount n (fam n f) * 2 ^ m := by
  unfold modelCount
  rw [cnt_extra (fam n f) n m 0 _ (fun τ τ' h => eval_indep_lt hf τ τ' (fun v _ hv => h v (by omega))),
    Nat.mul_comm]

/-- `vars < num_levels`: the code shifts right, i.e. returns `⌊count / 2^(n - vars)⌋`; this is the
count "per assignment of the last `n - vars` variables" exactly when it is divisible -/
theorem satCount_lt (n vars : Nat) (f : ZDD) (hf : Ordered n 0 f) (hv : vars < n) :
    satCount n vars f = modelCount n (fam n f) / 2 ^ (n - vars) ∧
    (2 ^ (n - vars) ∣ modelCount n (fam n f) →
      satCount n vars f * 2 ^ (n - vars) = modelCount n (fam n f)) := by
  have e : satCount n vars f = modelCount n (fam n f) / 2 ^ (n - vars) := by
    rw [← satCount_exact n f hf]
    unfold satCount
    have h1 : ¬ vars ≥ n := by omega
    simp only [h1, if_false, ge_iff_le, Nat.le_refl, if_true, Nat.sub_self, Nat.shiftLeft_zero,
      Nat.shiftRight_eq_div_pow]
  exact ⟨e, fun hd => by rw [e]; exact Nat.div_mul_cancel hd⟩

end OxiddModel.Zbdd
