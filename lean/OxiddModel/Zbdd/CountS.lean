import OxiddModel.Zbdd.ChainS
import OxiddModel.Zbdd.Count

/-!
# `SatCountCache` and `sat_count_edge` of the ZBDD rules on the id store; managers; histories

Store-level model of the *reused* model-count cache of property C12 for zero-suppressed diagrams.

Rust code modelled
* `crates/oxidd-core/src/util/mod.rs`: `SatCountCache { map, vars, epoch, cache_all }`,
  `clear_if_invalid(manager, vars)` (`CountCacheZ`, `CountCacheZ.clearIfInvalid`) — the same struct
  as for the other rule sets;
* `crates/oxidd-rules-zbdd/src/apply_rec.rs`, `sat_count_edge`: `cache.clear_if_invalid(manager,
  vars)`; `inner` (`innerZ`): terminal `Empty` → 0, `Base` → 1; inner node: key = `node_id`,
  `do_cache = cache_all || ref_count() > 1`, lookup only if `do_cache`, `hi` child first,
  `inner(hi) + inner(lo)`, insert only if `do_cache`. **`inner` takes neither `vars` nor
  `num_levels`: what is cached is the number of paths to `Base`, i.e. the number of members of the
  family of the node.** Only the final result is scaled (`scaleZ`):
  `if vars >= num_levels { count << (vars - num_levels) } else { count >> (num_levels - vars) }`
  with `num_levels` read *after* the recursion, at every call;
* `crates/oxidd-rules-zbdd/src/lib.rs`, `ZBDDCache` (`tautologies`): one edge per level held by the
  manager (`chain`; `Zbdd/ChainS.lean`); they count for `ref_count()` and are roots of a collection;
* `crates/oxidd-manager-index/src/manager.rs`: `gc_count` (advanced by `gc` before the first node
  is freed, and by `reorder`), `add_vars`: `pre_reorder_mut` drops the chain's references
  (`try_remove_node` removes nothing outside a reordering: `reorder_gc_prepared` is false), the
  unique table gets more levels, `post_reorder_mut` builds the new chain by `get_or_insert` — the
  store is only *extended*, `gc_count` is **not** advanced, `num_levels` changes.

Consequence, proved in `PropertiesC12S.lean`: a map filled before `add_vars` is still valid
afterwards for the same `vars` (its entries do not depend on `num_levels`), and the result of the
next call is scaled with the new `num_levels`.

Numbers are exact naturals. The node store, `DenotesZ`, `intern` are those of `StoreRefine.lean`.
-/
namespace OxiddModel.Zbdd.CountS
open OxiddModel.Zbdd OxiddModel.Zbdd.ZDD OxiddModel.Zbdd.Refine

/-! ## the cache -/

/-- `SatCountCache<N, S>`; `map` is an association list node id ↦ count (newest first) -/
structure CountCacheZ where
  map : List (Nat × Nat)
  vars : Nat
  epoch : Nat
  cacheAll : Bool
deriving Repr, DecidableEq

/-- `SatCountCache::default()` -/
def CountCacheZ.new : CountCacheZ := ⟨[], 0, 0, false⟩

/-- `clear_if_invalid` -/
def CountCacheZ.clearIfInvalid (c : CountCacheZ) (gcCount vars : Nat) : CountCacheZ :=
  if gcCount ≠ c.epoch ∨ vars ≠ c.vars then { c with epoch := gcCount, vars := vars, map := [] }
  else c

def CountCacheZ.insert (c : CountCacheZ) (id n : Nat) : CountCacheZ :=
  { c with map := (id, n) :: c.map }

/-! ## the recursion -/

/-- `inner` of `sat_count_edge`. `rc` is `ref_count()` of the node in slot `id`. Recursion by fuel
(the size of the denoted tree suffices); a dangling edge yields 0 (excluded by `DenotesZ`). -/
def innerZ (s : Store) (rc : Nat → Nat) : Nat → CountCacheZ → ZEdge → CountCacheZ × Nat
  | 0, c, _ => (c, 0)
  | _+1, c, .empty => (c, 0)
  | _+1, c, .base => (c, 1)
  | fuel+1, c, .inner i =>
    match s.get? i with
    | none => (c, 0)
    | some n =>
      let doCache := c.cacheAll || decide (rc i > 1)
      match (if doCache then c.map.lookup i else none) with
      | some v => (c, v)
      | none =>
        let r1 := innerZ s rc fuel c n.hi
        let r0 := innerZ s rc fuel r1.1 n.lo
        let v := r1.2 + r0.2
        (if doCache then r0.1.insert i v else r0.1, v)

/-- the final scaling: `count << (vars - num_levels)` / `count >> (num_levels - vars)` -/
def scaleZ (numLevels vars count : Nat) : Nat :=
  if vars ≥ numLevels then count <<< (vars - numLevels) else count >>> (numLevels - vars)

/-- `sat_count_edge` -/
def satCountZ (s : Store) (rc : Nat → Nat) (gcCount numLevels fuel : Nat) (c : CountCacheZ)
    (e : ZEdge) (vars : Nat) : CountCacheZ × Nat :=
  let r := innerZ s rc fuel (c.clearIfInvalid gcCount vars) e
  (r.1, scaleZ numLevels vars r.2)

/-! ## validity of the map -/

/-- every entry is the number of members (paths to `Base`) of the tree its id denotes —
independent of `vars` and of the number of levels -/
def CacheOKZ (s : Store) (c : CountCacheZ) : Prop :=
  ∀ id n, (id, n) ∈ c.map → ∃ t, DenotesZ s (.inner id) t ∧ n = pathCount t

theorem CacheOKZ.mono {s s' : Store} {c : CountCacheZ} (h : CacheOKZ s c) (hle : s.Le s') :
    CacheOKZ s' c := by
  intro id n hm
  obtain ⟨t, hd, hn⟩ := h id n hm
  exact ⟨t, hd.mono hle, hn⟩

theorem CacheOKZ.empty (s : Store) (v ep : Nat) (b : Bool) : CacheOKZ s ⟨[], v, ep, b⟩ := by
  intro id n hm; cases hm

theorem lookup_mem {α β} [BEq α] [LawfulBEq α] {l : List (α × β)} {k : α} {v : β}
    (h : l.lookup k = some v) : (k, v) ∈ l := by
  induction l with
  | nil => simp [List.lookup] at h
  | cons p ps ih =>
    obtain ⟨k', v'⟩ := p
    simp only [List.lookup] at h
    split at h
    · rename_i heq
      have := beq_iff_eq.mp heq
      cases h; subst this; exact List.mem_cons_self
    · exact List.mem_cons_of_mem _ (ih h)

/-- postcondition of the recursion -/
structure InnerPostZ (s : Store) (c : CountCacheZ) (t : ZDD) (r : CountCacheZ × Nat) : Prop where
  val : r.2 = pathCount t
  ok : CacheOKZ s r.1
  vars : r.1.vars = c.vars
  epoch : r.1.epoch = c.epoch
  all : r.1.cacheAll = c.cacheAll
  sub : ∀ x, x ∈ c.map → x ∈ r.1.map

theorem innerZ_spec (s : Store) (rc : Nat → Nat) : ∀ (fuel : Nat) (c : CountCacheZ) (e : ZEdge)
    (t : ZDD), CacheOKZ s c → DenotesZ s e t → t.size ≤ fuel →
    InnerPostZ s c t (innerZ s rc fuel c e) := by
  intro fuel
  induction fuel with
  | zero =>
    intro c e t _ _ hsz
    have := size_pos t
    omega
  | succ fuel ih =>
    intro c e t hok hd hsz
    cases hd with
    | empty => exact ⟨rfl, hok, rfl, rfl, rfl, fun _ h => h⟩
    | base => exact ⟨rfl, hok, rfl, rfl, rfl, fun _ h => h⟩
    | @inner i l eh el th tl hi hh hl =>
      simp only [size] at hsz
      simp only [innerZ, hi]
      cases hlk : (if (c.cacheAll || decide (rc i > 1)) = true then c.map.lookup i else none) with
      | some v =>
        simp only
        split at hlk
        · obtain ⟨t', hd', hv⟩ := hok i v (lookup_mem hlk)
          have := DenotesZ.functional hd' (DenotesZ.inner hi hh hl)
          subst this
          exact ⟨hv, hok, rfl, rfl, rfl, fun _ h => h⟩
        · cases hlk
      | none =>
        simp only
        have P1 := ih c eh th hok hh (by omega)
        have P0 := ih (innerZ s rc fuel c eh).1 el tl P1.ok hl (by omega)
        have hval : (innerZ s rc fuel c eh).2 + (innerZ s rc fuel (innerZ s rc fuel c eh).1 el).2 =
            pathCount (.node l th tl) := by
          rw [P1.val, P0.val]; rfl
        rw [hval]
        split
        · refine ⟨rfl, ?_, ?_, ?_, ?_, ?_⟩
          · intro id n hm
            simp only [CountCacheZ.insert, List.mem_cons] at hm
            rcases hm with hm | hm
            · cases hm; exact ⟨.node l th tl, .inner hi hh hl, rfl⟩
            · exact P0.ok id n hm
          · simp only [CountCacheZ.insert]; rw [P0.vars, P1.vars]
          · simp only [CountCacheZ.insert]; rw [P0.epoch, P1.epoch]
          · simp only [CountCacheZ.insert]; rw [P0.all, P1.all]
          · intro x hx
            simp only [CountCacheZ.insert]
            exact List.mem_cons_of_mem _ (P0.sub x (P1.sub x hx))
        · exact ⟨rfl, P0.ok, by rw [P0.vars, P1.vars], by rw [P0.epoch, P1.epoch],
            by rw [P0.all, P1.all], fun x hx => P0.sub x (P1.sub x hx)⟩

/-- `clear_if_invalid` establishes `CacheOKZ` from "valid if the epoch is current" -/
theorem clearIfInvalidZ_spec (s : Store) (c : CountCacheZ) (gcCount vars : Nat)
    (h : c.epoch = gcCount → CacheOKZ s c) :
    CacheOKZ s (c.clearIfInvalid gcCount vars) ∧ (c.clearIfInvalid gcCount vars).epoch = gcCount ∧
    (c.clearIfInvalid gcCount vars).vars = vars ∧
    (c.clearIfInvalid gcCount vars).cacheAll = c.cacheAll := by
  unfold CountCacheZ.clearIfInvalid
  split
  · exact ⟨CacheOKZ.empty _ _ _ _, rfl, rfl, rfl⟩
  · rename_i hne
    have h1 : gcCount = c.epoch := Classical.byContradiction fun x => hne (.inl x)
    have h2 : vars = c.vars := Classical.byContradiction fun x => hne (.inr x)
    exact ⟨h h1.symm, h1.symm, h2.symm, rfl⟩

/-! ## reference counts -/

/-- number of stored edges pointing to slot `j` -/
def parentsZ (s : Store) (j : Nat) : Nat :=
  (s.nodes.toList.map fun o =>
    match o with
    | some n => (if n.hi = .inner j then 1 else 0) + (if n.lo = .inner j then 1 else 0)
    | none => 0).sum

/-! ## the manager -/

instance : DecidableEq Store := fun a b =>
  decidable_of_iff (a.nodes = b.nodes) ⟨fun h => by cases a; cases b; simp_all, fun h => h ▸ rfl⟩

structure Mgr where
  store : Store
  gcCount : Nat
  numLevels : Nat
  handles : List ZEdge
  /-- `ZBDDCache::tautologies`, top-most level first (`ChainS.lean`) -/
  chain : List ZEdge
deriving DecidableEq

/-- a new manager: no levels, the chain is `[Base]` -/
def Mgr.new : Mgr := ⟨⟨#[]⟩, 0, 0, [], [.base]⟩

/-- `ref_count()`: live handles + stored parent edges (dead parents included until collected) + the
manager's own reference if the node is an entry of the tautology chain -/
def Mgr.rc (m : Mgr) (j : Nat) : Nat :=
  m.handles.count (.inner j) + parentsZ m.store j + m.chain.count (.inner j)

/-- the roots of a collection: live handles and the chain -/
def Mgr.roots (m : Mgr) : List ZEdge := m.handles ++ m.chain

structure HState where
  mgr : Mgr
  cache : CountCacheZ
deriving DecidableEq

def HState.new : HState := ⟨Mgr.new, CountCacheZ.new⟩

inductive HOp where
  /-- any store-extending operation returning the handle `e` -/
  | ext (s' : Store) (e : ZEdge)
  | clone (i : Nat)
  | drop (i : Nat)
  /-- atomic collection -/
  | gc (s' : Store)
  /-- first half of a collection: `gc_count.fetch_add(1)` -/
  | gcBegin
  /-- second half of a collection: nodes are freed -/
  | gcFree (s' : Store)
  | gcEnd
  /-- a reordering: store, handles and chain are replaced by anything, `gc_count` is advanced -/
  | reorder (s' : Store) (hs' : List ZEdge) (ch' : List ZEdge)
  /-- `add_vars(k)`: the store is extended (new chain `ch'`), `num_levels` grows, `gc_count` stays -/
  | addVars (k : Nat) (s' : Store) (ch' : List ZEdge)
  | setCacheAll (b : Bool)
  /-- `sat_count(vars)` of handle `i` through the long-lived cache, with recursion fuel -/
  | count (i : Nat) (vars : Nat) (fuel : Nat)

/-- one step; the second component is the result of a `count` -/
def HOp.run : HOp → HState → HState × Option Nat
  | .ext s' e, st => (⟨{ st.mgr with store := s', handles := st.mgr.handles ++ [e] }, st.cache⟩, none)
  | .clone i, st =>
    (⟨{ st.mgr with handles := st.mgr.handles ++ (st.mgr.handles[i]?).toList }, st.cache⟩, none)
  | .drop i, st => (⟨{ st.mgr with handles := st.mgr.handles.eraseIdx i }, st.cache⟩, none)
  | .gc s', st => (⟨{ st.mgr with store := s', gcCount := st.mgr.gcCount + 1 }, st.cache⟩, none)
  | .gcBegin, st => (⟨{ st.mgr with gcCount := st.mgr.gcCount + 1 }, st.cache⟩, none)
  | .gcFree s', st => (⟨{ st.mgr with store := s' }, st.cache⟩, none)
  | .gcEnd, st => (st, none)
  | .reorder s' hs' ch', st =>
    (⟨{ st.mgr with store := s', handles := hs', chain := ch', gcCount := st.mgr.gcCount + 1 },
      st.cache⟩, none)
  | .addVars k s' ch', st =>
    (⟨{ st.mgr with store := s', chain := ch', numLevels := st.mgr.numLevels + k }, st.cache⟩, none)
  | .setCacheAll b, st => (⟨st.mgr, { st.cache with cacheAll := b }⟩, none)
  | .count i vars fuel, st =>
    match st.mgr.handles[i]? with
    | none => (st, none)
    | some e =>
      let r := satCountZ st.mgr.store st.mgr.rc st.mgr.gcCount st.mgr.numLevels fuel st.cache e vars
      (⟨st.mgr, r.1⟩, some r.2)

/-- every live handle denotes a tree -/
def Mgr.HandlesOK (m : Mgr) : Prop := ∀ e, e ∈ m.handles → ∃ t, DenotesZ m.store e t

/-- the edges in `H` keep their denotation -/
def StableOnZ (H : List ZEdge) (s s' : Store) : Prop :=
  ∀ e, e ∈ H → ∀ t, DenotesZ s e t → DenotesZ s' e t

theorem StableOnZ.refl (H : List ZEdge) (s : Store) : StableOnZ H s s := fun _ _ _ h => h
theorem StableOnZ.trans {H : List ZEdge} {a b c : Store} (h1 : StableOnZ H a b)
    (h2 : StableOnZ H b c) : StableOnZ H a c := fun e he t hd => h2 e he t (h1 e he t hd)
theorem StableOnZ.subset {H H' : List ZEdge} {a b : Store} (h : StableOnZ H a b)
    (hs : ∀ e, e ∈ H' → e ∈ H) : StableOnZ H' a b := fun e he t hd => h e (hs e he) t hd

/-- side conditions of a step (what the operations of the library guarantee) -/
def HOp.Valid : HOp → HState → Prop
  | .ext s' e, st => st.mgr.store.Le s' ∧ ∃ t, DenotesZ s' e t
  | .gc s', st => StableOnZ st.mgr.handles st.mgr.store s'
  | .gcFree s', st => StableOnZ st.mgr.handles st.mgr.store s'
  | .reorder s' hs' _, _ => ∀ e, e ∈ hs' → ∃ t, DenotesZ s' e t
  | .addVars _ s' _, st => st.mgr.store.Le s'
  | .count i _ fuel, st =>
    ∀ e t, st.mgr.handles[i]? = some e → DenotesZ st.mgr.store e t → t.size ≤ fuel
  | _, _ => True

/-- collections are atomic: the history does not free nodes outside `gc` / `reorder` -/
def HOp.Atomic : HOp → Prop
  | .gcFree _ => False
  | _ => True

def runAll : List HOp → HState → HState × List (Option Nat)
  | [], st => (st, [])
  | o :: os, st =>
    let r := o.run st
    let rs := runAll os r.1
    (rs.1, r.2 :: rs.2)

def ValidAll : List HOp → HState → Prop
  | [], _ => True
  | o :: os, st => o.Valid st ∧ ValidAll os (o.run st).1

/-! ## concrete instances of the abstract steps -/

/-- is slot `j` referenced by a stored node? -/
def refdZ (s : Store) (j : Nat) : Bool :=
  s.nodes.any fun o =>
    match o with
    | some n => n.hi == .inner j || n.lo == .inner j
    | none => false

/-- one collection pass -/
def sweepZ (s : Store) (roots : List ZEdge) : Store :=
  ⟨s.nodes.mapIdx fun j o => if roots.contains (.inner j) || refdZ s j then o else none⟩

theorem get?_sweepZ (s : Store) (roots : List ZEdge) (j : Nat) :
    (sweepZ s roots).get? j = if roots.contains (.inner j) || refdZ s j then s.get? j else none := by
  simp only [Store.get?, sweepZ, Array.getElem?_mapIdx]
  cases s.nodes[j]? with
  | none => simp
  | some o => split <;> simp [*]

theorem refdZ_of_child {s : Store} {i j : Nat} {n : ZNode} (hi : s.get? i = some n)
    (hc : n.hi = .inner j ∨ n.lo = .inner j) : refdZ s j = true := by
  unfold Store.get? at hi
  cases hx : s.nodes[i]? with
  | none => simp [hx] at hi
  | some o =>
    simp [hx] at hi
    subst hi
    obtain ⟨hlt, hget⟩ := Array.getElem?_eq_some_iff.mp hx
    unfold refdZ
    rw [Array.any_eq_true]
    refine ⟨i, hlt, ?_⟩
    rw [hget]
    rcases hc with h | h <;> simp [h]

theorem sweepZ_denotes {s : Store} (roots : List ZEdge) {x : ZEdge} {a : ZDD}
    (h : DenotesZ s x a) :
    (∀ j, x = .inner j → (roots.contains (.inner j) || refdZ s j) = true) →
    DenotesZ (sweepZ s roots) x a := by
  induction h with
  | empty => intro _; exact .empty
  | base => intro _; exact .base
  | @inner i l eh el th tl hi _ _ ihh ihl =>
    intro hk
    have hki := hk i rfl
    refine .inner (by rw [get?_sweepZ, hki]; simpa using hi) (ihh ?_) (ihl ?_)
    · intro j hj
      rw [refdZ_of_child hi (.inl hj)]; simp
    · intro j hj
      rw [refdZ_of_child hi (.inr hj)]; simp

theorem sweepZ_stable (s : Store) (roots : List ZEdge) : StableOnZ roots s (sweepZ s roots) := by
  intro e he t hd
  refine sweepZ_denotes roots hd ?_
  intro j hj
  subst hj
  simp [he]

/-- iterate `sweepZ` until nothing changes (at most `k` times): the cascade of a collection -/
def sweepN (roots : List ZEdge) : Nat → Store → Store
  | 0, s => s
  | k+1, s =>
    let s' := sweepZ s roots
    if s'.nodes = s.nodes then s else sweepN roots k s'

theorem sweepN_stable (roots : List ZEdge) : ∀ (k : Nat) (s : Store),
    StableOnZ roots s (sweepN roots k s)
  | 0, _ => StableOnZ.refl _ _
  | k+1, s => by
    simp only [sweepN]
    split
    · exact StableOnZ.refl _ _
    · exact (sweepZ_stable s roots).trans (sweepN_stable roots k _)

/-- the collection of the index manager on the id store: roots = live handles and the chain -/
def gcS (m : Mgr) : Store := sweepN m.roots m.store.nodes.size m.store

theorem gcS_valid (st : HState) : (HOp.gc (gcS st.mgr)).Valid st :=
  (sweepN_stable _ _ _).subset (fun _ he => List.mem_append_left _ he)

/-- the collection keeps the chain as well -/
theorem gcS_chain (m : Mgr) : StableOnZ m.chain m.store (gcS m) :=
  (sweepN_stable _ _ _).subset (fun _ he => List.mem_append_right _ he)

/-- `Manager::add_vars(k)` (`Mgr.addVars` of `ChainS.lean` on this manager): the chain for
`num_levels + k` levels is built into the store by `get_or_insert`; nothing is removed -/
def addVarsS (m : Mgr) (k : Nat) : HOp :=
  let r := rebuildChain (m.numLevels + k) m.store
  .addVars k r.1 r.2

theorem addVarsS_valid (st : HState) (k : Nat) : (addVarsS st.mgr k).Valid st :=
  rebuildChain_le _ _

/-- … and the new chain denotes the tautologies of the new number of levels -/
theorem addVarsS_chain (st : HState) (k : Nat) :
    ChainOK ((addVarsS st.mgr k).run st).1.mgr.numLevels ((addVarsS st.mgr k).run st).1.mgr.store
      ((addVarsS st.mgr k).run st).1.mgr.chain :=
  rebuildChain_ok _ _

/-! ## executable checks of the side conditions (for concrete histories: witnesses, driver) -/

/-- unfold an edge into the tree it denotes (`none`: dangling edge or fuel exhausted) -/
def unfoldZ? (s : Store) : Nat → ZEdge → Option ZDD
  | _, .empty => some .empty
  | _, .base => some .base
  | 0, .inner _ => none
  | fuel+1, .inner i =>
    match s.get? i with
    | none => none
    | some n =>
      match unfoldZ? s fuel n.hi, unfoldZ? s fuel n.lo with
      | some h, some l => some (.node n.level h l)
      | _, _ => none

def leB (s s' : Store) : Bool :=
  (List.range s.nodes.size).all fun i =>
    match s.get? i with
    | none => true
    | some n => s'.get? i == some n

def stableB (F : Nat) (H : List ZEdge) (s s' : Store) : Bool :=
  H.all fun e =>
    match unfoldZ? s F e with
    | none => false
    | some t => unfoldZ? s' F e == some t

def HOp.validB (F : Nat) : HOp → HState → Bool
  | .ext s' e, st => leB st.mgr.store s' && (unfoldZ? s' F e).isSome
  | .gc s', st => stableB F st.mgr.handles st.mgr.store s'
  | .gcFree s', st => stableB F st.mgr.handles st.mgr.store s'
  | .reorder s' hs' _, _ => hs'.all fun e => (unfoldZ? s' F e).isSome
  | .addVars _ s' _, st => leB st.mgr.store s'
  | .count i _ fuel, st =>
    match st.mgr.handles[i]? with
    | none => true
    | some e =>
      match unfoldZ? st.mgr.store F e with
      | none => false
      | some t => decide (t.size ≤ fuel)
  | _, _ => true

def validAllB (F : Nat) : List HOp → HState → Bool
  | [], _ => true
  | o :: os, st => o.validB F st && validAllB F os (o.run st).1

theorem unfoldZ?_sound {s : Store} (fuel : Nat) : ∀ {x : ZEdge} {a : ZDD},
    unfoldZ? s fuel x = some a → DenotesZ s x a := by
  induction fuel with
  | zero =>
    intro x a h
    cases x with
    | empty => simp only [unfoldZ?, Option.some.injEq] at h; subst h; exact .empty
    | base => simp only [unfoldZ?, Option.some.injEq] at h; subst h; exact .base
    | inner i => simp [unfoldZ?] at h
  | succ fuel ih =>
    intro x a h
    cases x with
    | empty => simp only [unfoldZ?, Option.some.injEq] at h; subst h; exact .empty
    | base => simp only [unfoldZ?, Option.some.injEq] at h; subst h; exact .base
    | inner i =>
      simp only [unfoldZ?] at h
      cases hi : s.get? i with
      | none => simp [hi] at h
      | some n =>
        simp only [hi] at h
        cases hh : unfoldZ? s fuel n.hi with
        | none => simp [hh] at h
        | some th =>
          cases hl : unfoldZ? s fuel n.lo with
          | none => simp [hh, hl] at h
          | some tl =>
            simp only [hh, hl, Option.some.injEq] at h
            subst h
            obtain ⟨l, nh, nl⟩ := n
            exact .inner hi (ih hh) (ih hl)

theorem leB_sound {s s' : Store} (h : leB s s' = true) : s.Le s' := by
  intro i n hi
  have hlt : i < s.nodes.size := by
    apply Classical.byContradiction
    intro hge
    have : s.nodes[i]? = none := Array.getElem?_eq_none (by omega)
    simp [Store.get?, this] at hi
  have := List.all_eq_true.mp h i (List.mem_range.mpr hlt)
  simp only [hi] at this
  exact beq_iff_eq.mp this

theorem stableB_sound {F : Nat} {H : List ZEdge} {s s' : Store} (h : stableB F H s s' = true) :
    StableOnZ H s s' := by
  intro e he t hd
  have := List.all_eq_true.mp h e he
  cases hu : unfoldZ? s F e with
  | none => simp [hu] at this
  | some t' =>
    simp only [hu] at this
    have h1 := unfoldZ?_sound F hu
    have h2 := unfoldZ?_sound F (beq_iff_eq.mp this)
    rw [DenotesZ.functional hd h1]
    exact h2

theorem HOp.validB_sound {F : Nat} (o : HOp) (st : HState) (h : o.validB F st = true) :
    o.Valid st := by
  cases o with
  | ext s' e =>
    simp only [HOp.validB, Bool.and_eq_true] at h
    refine ⟨leB_sound h.1, ?_⟩
    cases hu : unfoldZ? s' F e with
    | none => simp [hu] at h
    | some t => exact ⟨t, unfoldZ?_sound F hu⟩
  | gc s' => exact stableB_sound h
  | gcFree s' => exact stableB_sound h
  | reorder s' hs' ch' =>
    intro e he
    have := List.all_eq_true.mp h e he
    cases hu : unfoldZ? s' F e with
    | none => simp [hu] at this
    | some t => exact ⟨t, unfoldZ?_sound F hu⟩
  | addVars k s' ch' => exact leB_sound h
  | count i vars fuel =>
    intro e t hg hd
    simp only [HOp.validB, hg] at h
    cases hu : unfoldZ? st.mgr.store F e with
    | none => simp [hu] at h
    | some t' =>
      simp only [hu, decide_eq_true_eq] at h
      rw [DenotesZ.functional hd (unfoldZ?_sound F hu)]
      exact h
  | _ => trivial

theorem validAllB_sound {F : Nat} : ∀ (ops : List HOp) (st : HState), validAllB F ops st = true →
    ValidAll ops st := by
  intro ops
  induction ops with
  | nil => intro _ _; trivial
  | cons o os ih =>
    intro st h
    simp only [validAllB, Bool.and_eq_true] at h
    exact ⟨o.validB_sound st h.1, ih _ h.2⟩

end OxiddModel.Zbdd.CountS
