import OxiddModel.Util.Proto
import OxiddModel.Zbdd.Model
import OxiddModel.Zbdd.Store
import OxiddModel.Reorder.Model
import Std.Data.HashMap

/-!
Line-protocol driver for the ZBDD tree model (protocol `zbdd`, DESIGN.md Appendix A).
It keeps the variable↔level maps, the number of levels and the live handles and prints diagrams
with *variable numbers*, exactly like the Rust scenario `bf --kind zbdd`.
-/
namespace OxiddModel.Zbdd

open OxiddModel

structure St where
  n : Nat := 0
  l2v : Array Nat := #[]
  v2l : Array Nat := #[]
  h : Std.HashMap String ZDD := {}

namespace St

def lvl (s : St) (v : Nat) : Nat := s.v2l.getD v v
def vr (s : St) (l : Nat) : Nat := s.l2v.getD l l

partial def showT (s : St) : ZDD → String
  | .empty => "E"
  | .base => "B"
  | .node l hi lo => s!"(v{s.vr l} {s.showT hi} {s.showT lo})"

def put (s : St) (name : String) (t : ZDD) : St × String :=
  ({ s with h := s.h.insert name t }, s.showT t)

/-- assignment of the levels from the bits of `a` (bit `v` = value of variable `v`) -/
def sigma (s : St) (a : Nat) : Nat → Bool := fun l => a.testBit (s.vr l)

end St

def parseOp : String → Option Op
  | "and" => some .and | "or" => some .or | "nand" => some .nand | "nor" => some .nor
  | "xor" => some .xor | "equiv" => some .equiv | "imp" => some .imp | "imp_strict" => some .impStrict
  | _ => none

def parseBin (s : String) : Nat := s.foldl (fun a c => 2 * a + (if c == '1' then 1 else 0)) 0

def parseHex (s : String) : Nat :=
  s.foldl (fun a c =>
    let d := if c.isDigit then c.toNat - '0'.toNat
      else if 'a' ≤ c ∧ c ≤ 'f' then c.toNat - 'a'.toNat + 10
      else if 'A' ≤ c ∧ c ≤ 'F' then c.toNat - 'A'.toNat + 10 else 0
    16 * a + d) 0

def toHex (n : Nat) : String :=
  if n = 0 then "0" else String.ofList (Nat.toDigits 16 n)

/-- build the function with truth table `tt` (bit `a` = value under assignment `a`) as a sum of
minterms with the model's own operators — the same route as the harness op `tt` -/
def buildMinterms (s : St) (tt : Nat) : ZDD := Id.run do
  let mut f : ZDD := constF
  for a in [0 : 2 ^ s.n] do
    if tt.testBit a then
      let mut c : ZDD := constT s.n
      for v in [0 : s.n] do
        let x := if a.testBit v then var s.n (s.lvl v) else notVar s.n (s.lvl v)
        c := applyBin s.n .and c x
      f := applyBin s.n .or f c
  return f

/-- Shannon `ite` chain — the route of the harness op `ttb` -/
def buildShannon (s : St) (tt : Nat) : Nat → Nat → Nat → ZDD
  | 0, _, fixed => if tt.testBit fixed then constT s.n else constF
  | fuel + 1, v, fixed =>
    if v ≥ s.n then (if tt.testBit fixed then constT s.n else constF) else
    let hi := buildShannon s tt fuel (v + 1) (fixed ||| (1 <<< v))
    let lo := buildShannon s tt fuel (v + 1) fixed
    applyIte s.n (var s.n (s.lvl v)) hi lo

/-- literal cube by and-chains, as the harness op `cube` -/
def cubeOf (s : St) (lits : List String) : Option ZDD :=
  lits.foldlM (fun acc l =>
    match (l.drop 1).toString.toNat? with
    | some v =>
      let x := if l.startsWith "-" then notVar s.n (s.lvl v) else var s.n (s.lvl v)
      some (applyBin s.n .and acc x)
    | none => none) (constT s.n)

/-- rebuild a tree for a new variable order (family semantics): `old` maps old levels to
variables, the state holds the new maps -/
def reorderTree (s : St) (old : Array Nat) : ZDD → ZDD
  | .node l hi lo =>
    union (reorderTree s old lo) (subset .change (s.lvl (old.getD l l)) (reorderTree s old hi))
  | t => t

/-- the distinct inner nodes reachable from the given roots -/
def innerSubtrees (hs : List ZDD) : List ZDD :=
  (hs.foldl (fun acc t => subtrees t acc) []).filter (fun t => !t.isTerminal)

/-- `Saturating<u64>` / `Saturating<u128>` as used by `sat_count`: `+` saturates; `<< k` saturates
on the value (0 stays 0; otherwise the marker `MAX` iff a one bit would be shifted out); `>> k`
keeps the marker `MAX`. `none`: `>> k` with `k ≥ bits` (shift overflow panic). -/
def satCountSat (bits n vars : Nat) (f : ZDD) : Option Nat :=
  let mx := 2 ^ bits - 1
  let add (a b : Nat) : Nat := min (a + b) mx
  let rec go : ZDD → Nat
    | .empty => 0
    | .base => 1
    | .node _ hi lo => add (go hi) (go lo)
  let c := go f
  if vars ≥ n then
    let k := vars - n
    some (if c = 0 then 0 else if c * 2 ^ k < 2 ^ bits then c * 2 ^ k else mx)
  else
    let k := n - vars
    if k ≥ bits then none else some (if c = mx then mx else c >>> k)

/-- arbitrary-precision naturals (`Natural`): `<< k` is exact, `>> k` is exact or NaN (`none`) -/
def satCountNat (n vars : Nat) (f : ZDD) : Option Nat :=
  let c := pathCount f
  if vars ≥ n then some (c <<< (vars - n))
  else if c % 2 ^ (n - vars) = 0 then some (c >>> (n - vars)) else none

/-- `format!("{:e}", x)` for `x = c / 2^k` with few significant decimal digits (then the exact
decimal expansion `c·5^k / 10^k` is also the shortest one that round-trips) -/
def fmtDyadicExp (c k : Nat) : Option String :=
  if c = 0 then some "0e0" else
  let m := c * 5 ^ k
  let ds := (Nat.toDigits 10 m)
  let e : Int := (ds.length : Int) - 1 - (k : Int)
  let sig := (ds.reverse.dropWhile (· == '0')).reverse
  if sig.length > 15 then none else
  let mant := match sig with
    | [d] => String.ofList [d]
    | d :: rest => String.ofList (d :: '.' :: rest)
    | [] => "0"
  some (mant ++ "e" ++ toString e)

/-- `F64`: `<< k` is `x * 2^k` (0 stays 0), `>> k` is `x * 2^-k`. The harness prints `ok` when its
oracle (only for `vars ≥ n`) accepts the value — which it does for the exact product, infinite or
not — and the raw value otherwise. -/
def satCountF64 (n vars : Nat) (f : ZDD) : String :=
  let c := pathCount f
  if vars ≥ n then "ok"
  else
    match fmtDyadicExp c (n - vars) with
    | some str => str
    | none => "f64-unmodelled"

def kv (ws : List String) (key : String) : Option String :=
  ws.findSome? fun w => if w.startsWith (key ++ "=") then some (w.drop (key.length + 1)).toString else none

def step1 (s : St) (line : String) : St × String :=
  let ws := words line
  match ws with
  | ["pargc"] => (s, "ok")
  | "ballast" :: _ => (s, "ok")
  | ["dropballast"] => (s, "ok")
  | ["nodes"] => (s, "-")
  | ["rcchk"] => (s, "ok")
  | ["dump"] =>
    -- meaningful directly after `gc`: the store is exactly the set of reachable nodes
    let hs := s.h.fold (fun acc _ t => t :: acc) []
    let store := reachList s.n hs
    let items := (store.map fun n => s!"{s.showT n}:{rc s.n hs store n}").toArray.qsort (· < ·)
    (s, s!"{items.size} {" | ".intercalate items.toList}")
  | "mgr" :: rest =>
    let vars := ((kv rest "vars").bind String.toNat?).getD 0
    ({ n := vars, l2v := Array.range vars, v2l := Array.range vars }, "ok")
  | "addvars" :: k :: _ =>
    match k.toNat? with
    | some k =>
      -- levels are appended at the bottom; the trees of the live handles are unchanged
      let n2 := s.n + k
      ({ s with n := n2, l2v := s.l2v ++ (Array.range' s.n k), v2l := s.v2l ++ (Array.range' s.n k) },
        s!"{s.n}..{n2}")
    | none => (s, "bad-op")
  | "order" :: rest =>
    let order := (rest.filter (fun w => !w.contains '=')).filterMap String.toNat?
    -- (partial) orders as `set_var_order` establishes them; the rebuilt trees are the
    -- specified ones (the implementation is only exercised on empty managers)
    if order.all (· < s.n) && order.eraseDups.length = order.length then
      let l2v := if order.length ≤ 1 then s.l2v else Reorder.newL2v s.l2v s.v2l order
      let v2l := Id.run do
        let mut a := Array.replicate s.n 0
        for l in [0 : s.n] do
          a := a.set! (l2v.getD l 0) l
        return a
      let s' : St := { s with l2v := l2v, v2l := v2l }
      let h' := s.h.fold (fun acc k t => acc.insert k (reorderTree s' s.l2v t)) ({} : Std.HashMap String ZDD)
      ({ s' with h := h' }, joinSp (l2v.toList.map toString))
    else (s, "bad-op")
  | ["const", name, v] => s.put name (if v == "T" then constT s.n else constF)
  | ["zconst", name, v] =>
    match v with
    | "empty" => s.put name .empty
    | "base" => s.put name .base
    | _ => (s, "bad-op")
  | ["var", name, v] =>
    match v.toNat? with
    | some v => if v < s.n then s.put name (var s.n (s.lvl v)) else (s, "bad-op")
    | none => (s, "bad-op")
  | ["notvar", name, v] =>
    match v.toNat? with
    | some v => if v < s.n then s.put name (notVar s.n (s.lvl v)) else (s, "bad-op")
    | none => (s, "bad-op")
  | ["singleton", name, v] =>
    match v.toNat? with
    | some v => if v < s.n then s.put name (singleton (s.lvl v)) else (s, "bad-op")
    | none => (s, "bad-op")
  | "cube" :: name :: lits =>
    match cubeOf s lits with
    | some c => s.put name c
    | none => (s, "bad-op")
  | ["tt", name, hex] => s.put name (buildMinterms s (parseHex hex))
  | ["ttb", name, hex] => s.put name (buildShannon s (parseHex hex) (s.n + 1) 0 0)
  | ["op", name, "not", a] =>
    match s.h[a]? with
    | some f => s.put name (applyNot s.n f)
    | none => (s, "bad-op")
  | ["op", name, "ite", a, b, c] =>
    match s.h[a]?, s.h[b]?, s.h[c]? with
    | some f, some g, some h => s.put name (applyIte s.n f g h)
    | _, _, _ => (s, "bad-op")
  | ["op", name, op, a, b] =>
    match parseOp op, s.h[a]?, s.h[b]? with
    | some op, some f, some g => s.put name (applyBin s.n op f g)
    | _, _, _ => (s, "bad-op")
  | [op, name, a, v] =>
    match op with
    | "subset0" | "subset1" | "change" =>
      let sop : SubsetOp := if op == "subset0" then .subset0 else if op == "subset1" then .subset1 else .change
      match s.h[a]?, v.toNat? with
      | some f, some v => if v < s.n then s.put name (subset sop (s.lvl v) f) else (s, "bad-op")
      | _, _ => (s, "bad-op")
    | "union" | "intsec" | "diff" =>
      match s.h[a]?, s.h[v]? with
      | some f, some g =>
        s.put name (if op == "union" then union f g else if op == "intsec" then intsec f g else diff f g)
      | _, _ => (s, "bad-op")
    | "pick" =>
      match s.h[a]? with
      | some f => s.put name (pickCubeDD (fun l => (parseBin v).testBit l) f)
      | none => (s, "bad-op")
    | "pickset" =>
      match s.h[a]?, s.h[v]? with
      | some f, some ls => s.put name (pickCubeDDSet f ls)
      | _, _ => (s, "bad-op")
    | "restrict" =>
      match s.h[a]?, s.h[v]? with
      | some f, some c => s.put name (restrictTop s.n f c)
      | _, _ => (s, "bad-op")
    | "pickuni" => (s, "ok")
    | "satcount" =>
      -- `satcount f vars ty` (no cache argument)
      satc s name a v
    | _ => (s, "bad-op")
  | ["clone", name, a] =>
    match s.h[a]? with
    | some f => ({ s with h := s.h.insert name f }, "ok")
    | none => (s, "bad-op")
  | ["drop", a] =>
    if s.h.contains a then ({ s with h := s.h.erase a }, "ok") else (s, "bad-op")
  | ["dropall"] => ({ s with h := {} }, "ok")
  | ["eq", a, b] =>
    match s.h[a]?, s.h[b]? with
    | some f, some g => (s, boolStr (f == g))
    | _, _ => (s, "bad-op")
  | ["eval", a, bits] =>
    match s.h[a]? with
    | some f => (s, boolStr (evalEdge s.n (s.sigma (parseBin bits)) f))
    | none => (s, "bad-op")
  | ["sat", a] =>
    match s.h[a]? with
    | some f => (s, boolStr (f != constF))
    | none => (s, "bad-op")
  | ["valid", a] =>
    match s.h[a]? with
    | some f => (s, boolStr (f == constT s.n))
    | none => (s, "bad-op")
  | ["count", a] =>
    match s.h[a]? with
    | some f => (s, toString (nodeCount f))
    | none => (s, "bad-op")
  | ["cofchk", a] | ["cof", a] =>
    match s.h[a]? with
    | some (.node _ hi lo) => (s, s!"{s.showT hi} {s.showT lo}")
    | some _ => (s, "none")
    | none => (s, "bad-op")
  | ["show", a] =>
    match s.h[a]? with
    | some f => (s, s.showT f)
    | none => (s, "bad-op")
  | ["pickvec", a, bits] =>
    match s.h[a]? with
    | some f =>
      let choice := fun l => (parseBin bits).testBit l
      match pickCube choice f with
      | none => (s, "NONE")
      | some path =>
        let str := String.ofList ((List.range s.n).map fun v =>
          match path.lookup (s.lvl v) with
          | some (some true) => '1'
          | some (some false) => '0'
          | some none => '-'
          | none => '0')
        (s, str)
    | none => (s, "bad-op")
  | ["gc"] =>
    -- the manager itself keeps the tautology chain alive
    (s, toString (innerSubtrees (taut s.n 0 :: s.h.fold (fun acc _ t => t :: acc) [])).length)
  | ["audit"] => (s, "ok")
  | "satcount" :: a :: vars :: ty :: _ => satc s a vars ty
  | _ => (s, "bad-op")
where
  satc (s : St) (a vars ty : String) : St × String :=
    match s.h[a]?, vars.toNat? with
    | some f, some vars =>
      match ty with
      | "u64" =>
        match satCountSat 64 s.n vars f with
        | some c => (s, toString c)
        | none => (s, "PANIC")
      | "u128" =>
        match satCountSat 128 s.n vars f with
        | some c => (s, toString c)
        | none => (s, "PANIC")
      | "nat" =>
        match satCountNat s.n vars f with
        | some c => (s, "0x" ++ toHex c)
        | none => (s, "?") -- `Natural`'s rendering of its error value
      | "f64" => (s, satCountF64 s.n vars f)
      | _ => (s, "bad-op")
    | _, _ => (s, "bad-op")

/-- `par t0:<line> ; t1:<line> ; …`: the items run concurrently in the implementation; threads only
define and drop handles of their own, so the sequential execution in item order is the reference
(C07) -/
def step (s : St) (line : String) : St × String :=
  if line.startsWith "par " then
    let items := (line.drop 4).toString.splitOn " ; "
    let (s', outs) := items.foldl (fun (acc : St × List String) it =>
      let body := match it.trimAscii.toString.splitOn ":" with
        | _ :: rest => ":".intercalate rest
        | [] => it
      let (s2, o) := step1 acc.1 body
      (s2, o :: acc.2)) (s, [])
    (s', " ; ".intercalate outs.reverse)
  else step1 s line

def proto : Proto := { σ := St, init := {}, step := step }

end OxiddModel.Zbdd
