import OxiddModel.Util.Proto
import OxiddModel.Bdd.DriverCountS
import OxiddModel.Zbdd.CountS

/-!
# Driver of the protocol `countcache-zbdd` (C12, cache half, ZBDD rules)

Runs the id-store model of `Zbdd/CountS.lean` — the very `HOp.run` / `satCountZ` / `innerZ` /
`scaleZ` / `CountCacheZ.clearIfInvalid` that `Zbdd/PropertiesC12S.lean` is about — on the operation
lines of `harness/src/bin/c12_cache_kinds.rs --kind zbdd` and prints, after every `count`, the
result, the size of the cache map before and after, and the canonicalised content of the map
(level and structural hash of the tree of every cached id, with the stored number, sorted).

Model of the harness operations in terms of `HOp`:
* `mgr n` — `new_manager` + `add_vars(n)`: the tautology chain for `n` levels (`rebuildChain`);
* `build h tt` — the family given by the membership table, decomposed along the level order with
  the zero-suppression rule (`Zbdd.mk`); the Rust side (`make_node(singleton(v), hi, lo)` bottom-up)
  creates the nodes of the result and the singleton nodes `(l, Base, Empty)` of the levels the
  result mentions: `HOp.ext s' e` with `s'` = those nodes and the tree interned into the store;
* `clone`, `drop` — `HOp.clone`, `HOp.drop`;
* `gc` — `HOp.gc (gcS mgr)` (iterated `sweepZ` from the live handles **and the chain**);
* `addvars k` — `addVarsS mgr k` (`HOp.addVars` with the chain for `n + k` levels built into the
  store; `gc_count` unchanged: `bump=0`);
* `reordernop` — `Manager::reorder(|_| ())`: `pre_reorder_mut` removes the chain nodes top-down as
  long as nobody else references them (`try_remove_node` with `reorder_gc_prepared`), then
  `post_reorder_mut` rebuilds the chain, `gc_count` advances: `HOp.reorder s' handles chain'`;
* `cacheall b` — `HOp.setCacheAll b`; `newcache` — the cache object is replaced (flag kept);
* `count h vars` — `HOp.count i vars fuel`, any `vars` in `0..=40`;
* `racegc p r` — oracle-only (suite `race`: the interleaving of `count_during_collection_wrong`
  on the real code): answered `ok`.
-/
namespace OxiddModel.Zbdd.CountS.Driver
open OxiddModel OxiddModel.Zbdd OxiddModel.Zbdd.ZDD OxiddModel.Zbdd.Refine OxiddModel.Zbdd.CountS
open OxiddModel.Bdd.CountS.Driver (parseTT mix hex16 sortStr idxOf)

structure DState where
  st : Option HState := none
  names : List String := []

/-- decomposition of a family along the levels (level = variable: no reordering in this protocol),
with the zero-suppression rule -/
def shannonZ (f : Nat → Bool) : Nat → Nat → Nat → ZDD
  | 0, _, a => if f a then .base else .empty
  | c+1, l, a => mk l (shannonZ f c (l + 1) (a ||| (1 <<< l))) (shannonZ f c (l + 1) a)

def levelsOf : ZDD → List Nat → List Nat
  | .node l hi lo, acc =>
    let acc := if acc.contains l then acc else l :: acc
    levelsOf lo (levelsOf hi acc)
  | _, acc => acc

def treeStr : ZDD → String
  | .empty => "E"
  | .base => "B"
  | .node l hi lo => s!"({l} {treeStr hi} {treeStr lo})"

def treeHash : ZDD → UInt64
  | .empty => 2
  | .base => 1
  | .node l hi lo => mix l.toUInt64 (treeHash hi) (treeHash lo)

def occupied (s : Store) : Nat := (s.nodes.toList.filter Option.isSome).length

def entryStr (s : Store) (p : Nat × Nat) : String :=
  match unfoldZ? s 64 (.inner p.1) with
  | some (.node l hi lo) => s!"{l}:{hex16 (treeHash (.node l hi lo))}={p.2}"
  | _ => s!"dangling={p.2}"

/-- `pre_reorder_mut` inside a reordering: pop the chain entries top-down; an entry is removed from
its unique table iff the chain held the only reference (`old_rc == 2`: the chain and the table);
the first entry that stays ends the loop (the remaining references are just dropped) -/
def teardown (handles : List ZEdge) : List ZEdge → Store → Store
  | [], s => s
  | .inner j :: cs, s =>
    if handles.count (.inner j) + parentsZ s j = 0 then
      teardown handles cs ⟨s.nodes.setIfInBounds j none⟩
    else s
  | _ :: _, s => s

def step (d : DState) (line : String) : DState × String :=
  let bad := (d, "bad-op")
  match words line, d.st with
  | ["mgr", n], none =>
    match n.toNat? with
    | some n =>
      if n > 10 then bad
      else
        let r := rebuildChain n ⟨#[]⟩
        ({ st := some ⟨⟨r.1, 0, n, [], r.2⟩, CountCacheZ.new⟩, names := [] },
          s!"ok nodes={occupied r.1}")
    | none => bad
  | ["racegc", p, r], _ =>
    -- oracle-only operation of the harness (a count inside a collection on another thread, on a
    -- manager of its own: `KF-countcache-during-collection`); nothing to predict
    match p.toNat?, r.toNat? with
    | some p, some _ => if p < 2 ∨ p > 20 then bad else (d, "ok")
    | _, _ => bad
  | _, none => bad
  | ["build", h, hex], some st =>
    match parseTT hex st.mgr.numLevels with
    | none => bad
    | some tt =>
      if d.names.contains h then bad else
      let t := shannonZ tt.testBit st.mgr.numLevels 0 0
      -- the singleton nodes touched by `ZBDDFunction::singleton`, then the result
      let s1 := (levelsOf t []).foldl (fun s l => (intern s (.node l .base .empty)).1) st.mgr.store
      let r := intern s1 t
      let st' := ((HOp.ext r.1 r.2).run st).1
      ({ d with st := some st', names := d.names ++ [h] }, s!"{treeStr t} nodes={occupied r.1}")
  | ["clone", h, h2], some st =>
    match idxOf d.names h with
    | none => bad
    | some i =>
      if d.names.contains h2 then bad else
      ({ d with st := some ((HOp.clone i).run st).1, names := d.names ++ [h2] }, "ok")
  | ["drop", h], some st =>
    match idxOf d.names h with
    | none => bad
    | some i => ({ d with st := some ((HOp.drop i).run st).1, names := d.names.eraseIdx i }, "ok")
  | ["gc"], some st =>
    let s' := gcS st.mgr
    ({ d with st := some ((HOp.gc s').run st).1 }, s!"nodes={occupied s'} bump=1")
  | ["reordernop"], some st =>
    let s0 := teardown st.mgr.handles st.mgr.chain st.mgr.store
    let r := rebuildChain st.mgr.numLevels s0
    ({ d with st := some ((HOp.reorder r.1 st.mgr.handles r.2).run st).1 },
      s!"nodes={occupied r.1} bump=1")
  | ["addvars", k], some st =>
    match k.toNat? with
    | none => bad
    | some k =>
      if k = 0 ∨ st.mgr.numLevels + k > 10 then bad else
      let st' := ((addVarsS st.mgr k).run st).1
      ({ d with st := some st' },
        s!"n={st'.mgr.numLevels} nodes={occupied st'.mgr.store} bump=0")
  | ["cacheall", b], some st =>
    ({ d with st := some ((HOp.setCacheAll (b == "1")).run st).1 }, "ok")
  | ["newcache"], some st =>
    ({ d with st := some ⟨st.mgr, { CountCacheZ.new with cacheAll := st.cache.cacheAll }⟩ }, "ok")
  | ["count", h, vars], some st =>
    match idxOf d.names h, vars.toNat? with
    | some i, some vars =>
      if vars > 40 then bad else
      let before := st.cache.map.length
      let r := (HOp.count i vars 64).run st
      let c := r.1.cache
      let entries := sortStr (c.map.map (entryStr st.mgr.store))
      ({ d with st := some r.1 },
        s!"count={r.2.getD 0} before={before} after={c.map.length} cache={",".intercalate entries}")
    | _, _ => bad
  | _, _ => bad

def proto : Proto := { σ := DState, init := {}, step := step }

end OxiddModel.Zbdd.CountS.Driver
