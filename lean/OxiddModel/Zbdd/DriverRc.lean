import OxiddModel.Util.Proto
import OxiddModel.Zbdd.RcS
import Std.Data.HashMap

/-!
Line-protocol driver `zbdd-rc`: the operation lines of the `zbdd` protocol that concern the store
(`mgr`, `const`, `zconst`, `var`, `singleton`, `op … not|and|or|xor`, `union`, `intsec`, `diff`,
`subset0`, `subset1`, `change`, `clone`, `drop`, `dropall`, `gc`, `addvars`, `reorder-nop`, `dump`,
`rc`, `ninner`, `show`, `eq`, `rcchk`, `audit`) executed on the **counter model** `Zbdd/RcS.lean`
(id store with one `rc` field per node, capacity `nodes=` of the `mgr` line, exact apply cache, the
tautology chain as internal roots).

* an operation may print `OOM` (the store holds `nodes=` nodes and a fresh one is needed);
* `dump` prints the **complete** store, garbage and chain nodes included — every stored node as
  canonical tree with `ref_count()` (= `rc - 1`), sorted — at any point;
* `gc` is the counter-driven level-wise sweep (`gcR`); it prints the number of stored nodes;
* `addvars k` prints `n..n+k`, or `abort` when the new chain does not fit into the capacity (the
  real `add_vars` would abort the process, `KF-zbdd-addvars-oom`; the harness does not call it in
  this situation, so the state is left unchanged);
* `reorder-nop` is `Manager::reorder(|_| ())`: chain torn down with `try_remove_node` really
  removing nodes, apply cache cleared, chain rebuilt;
* `rc <h>` prints `ref_count()` of the root node of a handle (`-` for a terminal), `ninner` the
  number of stored nodes.

The variable order is the identity (no `order` lines in this protocol): level = variable.
-/
namespace OxiddModel.Zbdd.DriverRc
open OxiddModel OxiddModel.Zbdd OxiddModel.Zbdd.Refine OxiddModel.Zbdd.Rc
open OxiddModel.Bdd.Refine (Policy)

structure DSt where
  n : Nat := 0
  cap : Nat := 0
  r : RSt := RSt.empty
  chain : List ZEdge := [.base]
  h : Std.HashMap String ZEdge := {}

def kv (ws : List String) (key : String) : Option String :=
  ws.findSome? fun w => if w.startsWith (key ++ "=") then some (w.drop (key.length + 1)).toString else none

/-- canonical tree of an edge (levels = variable numbers) -/
partial def showE (s : Store) : ZEdge → String
  | .base => "B"
  | .empty => "E"
  | .inner i =>
    match s.get? i with
    | some n => s!"(v{n.level} {showE s n.hi} {showE s n.lo})"
    | none => "?"

/-- every call of a set operation descends one level in at least one operand -/
def fuelOf (d : DSt) : Nat := 2 * d.n + 8

/-- register a result under `name`: an existing handle of that name is dropped *after* the
operation (`HashMap::insert` in the harness); on OutOfMemory nothing is registered -/
def put (d : DSt) (name : String) (res : Option ZEdge × RSt) : DSt × String :=
  match res with
  | (none, r') => ({ d with r := r' }, "OOM")
  | (some e, r') =>
    let out := showE r'.st.store e
    let r'' := match d.h[name]? with
      | some old => dropEdge r' old
      | none => r'
    ({ d with r := r'', h := d.h.insert name e }, out)

def parseSet : String → Option SetOp
  | "union" => some .union | "intsec" => some .intsec | "diff" => some .diff
  | _ => none

def parseBool : String → Option SetOp
  | "and" => some .intsec | "or" => some .union | "xor" => some .symmDiff
  | _ => none

def parseSubset : String → Option SubsetOp
  | "subset0" => some .subset0 | "subset1" => some .subset1 | "change" => some .change
  | _ => none

/-- `add_vars(k)`; `abort` when the new chain does not fit (state unchanged: the harness does not
make the call; in the dedicated known-finding case the real process dies here) -/
def addVars (d : DSt) (k : String) : DSt × String :=
  match k.toNat? with
  | some k =>
    match addVarsR d.cap d.n k d.chain d.r with
    | (some ch, r') => ({ d with n := d.n + k, r := r', chain := ch }, s!"{d.n}..{d.n + k}")
    | (none, _) => (d, "abort")
  | none => (d, "bad-op")

def step (d : DSt) (line : String) : DSt × String :=
  let ws := words line
  match ws with
  | "mgr" :: rest =>
    let vars := ((kv rest "vars").bind String.toNat?).getD 0
    let cap := ((kv rest "nodes").bind String.toNat?).getD 65536
    match addVarsR cap 0 vars [.base] RSt.empty with
    | (some ch, r') => ({ n := vars, cap := cap, r := r', chain := ch }, "ok")
    | (none, _) => ({ n := 0, cap := cap }, "abort")
  | ["const", name, v] =>
    if v == "T" then put d name (tR d.chain d.r) else put d name (some .empty, d.r)
  | ["zconst", name, v] => put d name (some (if v == "base" then .base else .empty), d.r)
  | ["var", name, v] =>
    match v.toNat? with
    | some v => if v < d.n then put d name (varR d.cap d.chain d.r v) else (d, "bad-op")
    | none => (d, "bad-op")
  | ["singleton", name, v] =>
    match v.toNat? with
    | some v => if v < d.n then put d name (singletonR d.cap d.r v) else (d, "bad-op")
    | none => (d, "bad-op")
  | ["op", name, "not", a] =>
    match d.h[a]? with
    | some f => put d name (notR d.cap Policy.exact d.chain (fuelOf d) d.r f)
    | none => (d, "bad-op")
  | ["op", name, op, a, b] =>
    match parseBool op, d.h[a]?, d.h[b]? with
    | some op, some f, some g => put d name (setOpR d.cap Policy.exact op (fuelOf d) d.r f g)
    | _, _, _ => (d, "bad-op")
  | ["clone", name, a] =>
    match d.h[a]? with
    | some f =>
      let r1 := cloneEdge d.r f
      let r2 := match d.h[name]? with
        | some old => dropEdge r1 old
        | none => r1
      ({ d with r := r2, h := d.h.insert name f }, "ok")
    | none => (d, "bad-op")
  | ["drop", a] =>
    match d.h[a]? with
    | some f => ({ d with r := dropEdge d.r f, h := d.h.erase a }, "ok")
    | none => (d, "bad-op")
  | ["dropall"] =>
    ({ d with r := d.h.fold (fun r _ e => dropEdge r e) d.r, h := {} }, "ok")
  | ["gc"] =>
    let r' := gcR d.n d.r
    ({ d with r := r' }, toString (count r'.st.store))
  | ["addvars", k] => addVars d k
  -- the same call made although it aborts (dedicated case of `KF-zbdd-addvars-oom`)
  | ["addvars-unguarded", k] => addVars d k
  | ["reorder-nop"] =>
    match reorderNopR d.cap d.n d.chain d.r with
    | (some ch, r') => ({ d with r := r', chain := ch }, "ok")
    | (none, _) => (d, "abort")
  | ["dump"] =>
    let s := d.r.st.store
    let items := ((List.range s.nodes.size).filterMap fun i =>
      match s.get? i with
      | some _ => some s!"{showE s (.inner i)}:{d.r.refCount i}"
      | none => none).toArray.qsort (· < ·)
    (d, s!"{items.size} {" | ".intercalate items.toList}")
  | ["rc", a] =>
    match d.h[a]? with
    | some (.inner i) => (d, toString (d.r.refCount i))
    | some _ => (d, "-")
    | none => (d, "bad-op")
  | ["ninner"] => (d, toString (count d.r.st.store))
  | ["show", a] =>
    match d.h[a]? with
    | some f => (d, showE d.r.st.store f)
    | none => (d, "bad-op")
  | ["eq", a, b] =>
    match d.h[a]?, d.h[b]? with
    | some f, some g => (d, boolStr (f == g))
    | _, _ => (d, "bad-op")
  | ["rcchk"] => (d, "ok")
  | ["audit"] => (d, "ok")
  | ["nodes"] => (d, "-")
  | [op, name, a, b] =>
    match parseSet op, parseSubset op with
    | some op, _ =>
      match d.h[a]?, d.h[b]? with
      | some f, some g => put d name (setOpR d.cap Policy.exact op (fuelOf d) d.r f g)
      | _, _ => (d, "bad-op")
    | none, some op =>
      match d.h[a]?, b.toNat? with
      | some f, some v =>
        if v < d.n then put d name (subsetR d.cap Policy.exact op v v (d.n + 4) d.r f)
        else (d, "bad-op")
      | _, _ => (d, "bad-op")
    | none, none => (d, "bad-op")
  | _ => (d, "bad-op")

def proto : Proto := { σ := DSt, init := {}, step := step }

end OxiddModel.Zbdd.DriverRc
