import OxiddModel.Util.Proto
import OxiddModel.Zbdd.DriverRc
import OxiddModel.Zbdd.PropertiesC14T

/-!
Line-protocol driver `c14tz` (stream `c14-threshold-zbdd`): the `zbdd-rc` protocol
(`Zbdd/DriverRc.lean`: counter model with node capacity `nodes=` of the `mgr` line) extended by

  `try <operation line>`

for `op <name> not|and|or|xor …`, `union|intsec|diff <name> a b`, `subset0|subset1|change <name> a
v` with a fresh `<name>`. The answer is

  `need=<k> free=<j> thr=<oom|ok> OOM`     or     `need=<k> free=<j> thr=<oom|ok> <tree> +<d>`

* `k` is `C14T.neededSetOp / neededNot / neededSubset`: the number of nodes the **capacity-free**
  algorithm of `SetOpsS.lean` allocates from the current state (garbage and cache included);
* `j = nodes − count` is the number of free slots;
* `thr` is the verdict of the closed form of `C14T.setop_oom_iff_needed` & co.:
  `oom` iff `0 < k ∧ nodes < count + k`;
* then the outcome of the capacity-bounded counter model (`setOpR nodes …`), which by the theorem
  is `OOM` iff `thr=oom`, and `d` = number of slots taken (`= k` on success).

The harness measures `k` on a large reference manager that has executed the same lines. Its state
is the capped manager's as long as no line other than a `try` failed (`hard`) and no failed `try`
is waiting for the next `gc` (`soft`: the reference manager keeps the intermediate nodes of the
operation the capped one had to abandon); when one of the flags is set both sides print `need=?`.
Both flags are functions of the output stream, so model and harness agree on them.
-/
namespace OxiddModel.Zbdd.ThresholdDriver
open OxiddModel OxiddModel.Zbdd OxiddModel.Zbdd.Refine OxiddModel.Zbdd.Rc OxiddModel.Zbdd.DriverRc
open OxiddModel.Zbdd.C14T
open OxiddModel.Bdd.Refine (Policy)

structure TSt where
  d : DSt := {}
  hard : Bool := false
  soft : Bool := false

/-- the target name and `needed` of an operation line (the same parsing, operands and fuel as
`DriverRc.step`) -/
def needOf (d : DSt) : List String → Option (String × Nat)
  | ["op", name, "not", a] =>
    match d.h[a]? with
    | some f => some (name, neededNot Policy.exact d.chain (fuelOf d) d.r.st f)
    | none => none
  | ["op", name, op, a, b] =>
    match parseBool op, d.h[a]?, d.h[b]? with
    | some op, some f, some g => some (name, neededSetOp Policy.exact op (fuelOf d) d.r.st f g)
    | _, _, _ => none
  | [op, name, a, b] =>
    match parseSet op, parseSubset op with
    | some op, _ =>
      match d.h[a]?, d.h[b]? with
      | some f, some g => some (name, neededSetOp Policy.exact op (fuelOf d) d.r.st f g)
      | _, _ => none
    | none, some op =>
      match d.h[a]?, b.toNat? with
      | some f, some v =>
        if v < d.n then some (name, neededSubset Policy.exact op v v (d.n + 4) d.r.st f) else none
      | _, _ => none
    | none, none => none
  | _ => none

def step (t : TSt) (line : String) : TSt × String :=
  match words line with
  | "try" :: rest =>
    match needOf t.d rest with
    | none => (t, "bad-op")
    | some (name, k) =>
      if t.d.h.contains name then (t, "bad-op") else
      let c0 := count t.d.r.st.store
      let needS := if t.hard || t.soft then "?" else toString k
      let thr := if 0 < k ∧ t.d.cap < c0 + k then "oom" else "ok"
      let (d', out) := DriverRc.step t.d (joinSp rest)
      let pre := s!"need={needS} free={t.d.cap - c0} thr={thr}"
      if out == "OOM" then ({ t with d := d', soft := true }, s!"{pre} OOM")
      else ({ t with d := d' }, s!"{pre} {out} +{count d'.r.st.store - c0}")
  | "mgr" :: _ =>
    let (d', out) := DriverRc.step {} line
    ({ d := d', hard := out != "ok", soft := false }, out)
  | ["gc"] =>
    let (d', out) := DriverRc.step t.d line
    ({ t with d := d', soft := false }, out)
  | _ =>
    let (d', out) := DriverRc.step t.d line
    ({ t with d := d', hard := t.hard || out == "OOM" || out == "abort" }, out)

def proto : Proto := { σ := TSt, init := {}, step := step }

end OxiddModel.Zbdd.ThresholdDriver
