import OxiddModel.Util.Proto
import OxiddModel.Zbdd.DriverThreshold
import OxiddModel.Zbdd.PropertiesC14TV

/-!
Line-protocol driver `c14tzv` (stream `c14-threshold-rest-zbdd`): the `c14tz` protocol
(`Zbdd/DriverThreshold.lean`) with three more tried forms

  `try var <name> <v>`, `try singleton <name> <v>`, `try addvars <k>`

* `var` / `singleton`: `need` = `C14T.neededVar` / `C14T.neededSingleton` (capacity-free
  `varAt` / `singletonAt` from the current store), `thr` = the closed form of
  `C14T.var_oom_iff_needed` / `singleton_oom_iff_needed`, then the outcome of `varR` / `singletonR`
  under the capacity — answer format as for the other tried operations;
* `addvars k`: `need` = `C14T.neededAddVars n k` (nodes of the chain for `n + k` levels that are not
  stored), `thr=abort` iff `0 < need ∧ nodes < count + need` (`C14T.addvars_abort_iff_needed`),
  then `addVarsR`: `need=<k> free=<j> thr=abort abort` (the real `add_vars` would abort the process
  — `KF-zbdd-addvars-oom`; the harness does not make the call and the rest of the case is not
  compared with the reference manager) or `need=<k> free=<j> thr=ok <n>..<n+k> +<d>`. When the
  reference manager is out of step (`hard`/`soft`) the line is answered `skip` and nothing happens.
-/
namespace OxiddModel.Zbdd.ThresholdDriverV
open OxiddModel OxiddModel.Zbdd OxiddModel.Zbdd.Refine OxiddModel.Zbdd.Rc OxiddModel.Zbdd.DriverRc
open OxiddModel.Zbdd.C14T OxiddModel.Zbdd.ThresholdDriver
open OxiddModel.Bdd.Refine (Policy)

/-- the new tried forms first, then those of `c14tz` -/
def needOfV (d : DSt) : List String → Option (String × Nat)
  | ["var", name, v] =>
    match v.toNat? with
    | some v => if v < d.n then some (name, neededVar d.chain d.r.st.store v) else none
    | none => none
  | ["singleton", name, v] =>
    match v.toNat? with
    | some v => if v < d.n then some (name, neededSingleton d.r.st.store v) else none
    | none => none
  | ws => needOf d ws

def step (t : TSt) (line : String) : TSt × String :=
  match words line with
  | ["try", "addvars", k] =>
    match k.toNat? with
    | none => (t, "bad-op")
    | some kn =>
      if t.hard || t.soft then (t, "skip") else
      let c0 := count t.d.r.st.store
      let need := neededAddVars t.d.n kn t.d.r.st.store
      let thr := if 0 < need ∧ t.d.cap < c0 + need then "abort" else "ok"
      let (d', out) := DriverRc.step t.d s!"addvars {k}"
      let pre := s!"need={need} free={t.d.cap - c0} thr={thr}"
      if out == "abort" then ({ t with d := d', hard := true }, s!"{pre} abort")
      else ({ t with d := d' }, s!"{pre} {out} +{count d'.r.st.store - c0}")
  | "try" :: rest =>
    match needOfV t.d rest with
    | none => (t, "bad-op")
    | some (name, k) =>
      if t.d.h.contains name then (t, "bad-op") else
      let c0 := count t.d.r.st.store
      let needS := if t.hard || t.soft then "?" else toString k
      let thr := if 0 < k ∧ t.d.cap < c0 + k then "oom" else "ok"
      let (d', out) := DriverRc.step t.d (joinSp rest)
      let pre := s!"need={needS} free={t.d.cap - c0} thr={thr}"
      if out == "OOM" then ({ t with d := d', soft := true }, s!"{pre} OOM")
      else ({ t with d := d' }, s!"{pre} {out} +{count d'.r.st.store - c0}")
  | _ => ThresholdDriver.step t line

def proto : Proto := { σ := TSt, init := {}, step := step }

end OxiddModel.Zbdd.ThresholdDriverV
