import OxiddModel.Zbdd.RcSHistory
import OxiddModel.Zbdd.Subset

/-!
# ONE ZBDD manager state for operations, handles, garbage collection and `add_vars`

The pieces of C01/C03/C05 for ZBDDs exist separately: `RcS.lean` (id store with one reference
counter per slot: `var_edge`, `singleton_edge`, `t_edge`, the four set operations, `apply_not`,
`subset0/subset1/change`, each under a node capacity, `clone_edge`, `drop_edge`, `Manager::gc`,
the tautology chain torn down and rebuilt by `add_vars`), `SetOpsS.lean`/`ChainS.lean`
(the same algorithms without counters and their semantic specifications), `Canon.lean`
(canonicity of reduced ordered ZDDs), `QueriesS.lean` (`node_count`). This file puts them into
**one machine**:

* `GSt`: the node store, apply cache with time stamp and one counter per slot (`RSt`), the number
  of variables/levels `n`, the tautology chain `ZBDDCache::tautologies` (a list of *owned* edges,
  top-most level first: internal roots of the manager), `gcCount` (`Manager::gc_count`) and the
  table `hs` of the user's live handles (owned edges, named by position).
* the variable order is the identity at all times (level = variable): `add_vars` appends levels at
  the bottom and **no `set_var_order` step exists** — reordering live ZBDD nodes is a known defect
  of the code (`KF-zbdd-reorder`); the maps `v2l/l2v` are therefore not part of the state.
* `Step`: the constants `empty`/`base`, `taut` (`t_edge`), `var cap v` (`var_edge`: the Boolean
  view of a variable), `singleton cap v`, `setop cap op a b` (union / intsec / diff / symmDiff),
  `not cap a` (`tautology(0) ∖ f`), `subset cap op v a` (subset0 / subset1 / change) — **each under
  its own capacity** `cap`, so each may fail with OutOfMemory at any allocation point —, `clone`,
  `drop`, `gc` (`gcR`, `gc_count` advanced), `addVars cap k` (`addVarsR`: `pre_reorder_mut`,
  `k` more levels, `post_reorder_mut`), `reorderNop cap` (`reorderNopR`: `Manager::reorder` with a
  closure that moves nothing — apply cache cleared, chain torn down *with* removal of chain nodes
  nobody else references, chain rebuilt, `gc_count` advanced).
  - `add_vars` / `reorder` whose new chain does not fit **aborts the process** in the code
    (`KF-zbdd-addvars-oom`), and `len.checked_add(additional).expect("too many variables")` panics
    beyond `u32::MAX` levels: both are modelled as a step that leaves the state unchanged (there is
    no state to speak of afterwards).
  - a step naming a handle position that does not exist, or a variable `v ≥ n`, is a no-op (the
    code panics / the harness rejects the line).
* the recursion fuel of the set operations is `fuelOf n = 3 · 2^(n+1)`: more than the sizes of the
  unfoldings of two ordered diagrams over `n` levels (`size_lt_of_ordered`), so the fuel is never
  exhausted and is not a parameter of a history.
* the machine is the history machine `HSt`/`Cmd` of `RcSHistory.lean` (the one the `zbdd-rc` stream
  ties to the code) with the fuel fixed, `drop` by position, `gcCount`, and the `u32` guard:
  `step_toH` states the correspondence, through which `Cmd.run_rc` / `Cmd.run_ord` are reused.
* `Expr`/`track`: a **ghost** run beside the machine: for every handle the expression that produced
  it. The machine (`step`) never reads it. Because the Boolean view of a ZBDD depends on the number
  of variables, `var`, `taut` and `not` record the `n` at creation time.
-/
namespace OxiddModel.Zbdd.Global
open OxiddModel.Zbdd OxiddModel.Zbdd.ZDD OxiddModel.Zbdd.Refine OxiddModel.Zbdd.Rc
open OxiddModel.Bdd.Refine (Policy OpTag Key Cache)

/-! ## the machine -/

/-- the manager and the user's handles -/
structure GSt where
  /-- node store, apply cache, time stamp; one counter per slot -/
  r : RSt
  /-- `num_vars() = num_levels()` -/
  n : Nat
  /-- `ZBDDCache::tautologies`, top-most level first, `Base` last: owned edges -/
  chain : List ZEdge
  /-- `Manager::gc_count()` -/
  gcCount : Nat
  /-- the live handles (owned edges) -/
  hs : List ZEdge

/-- `new_manager` with no variables: empty store, the chain is `[Base]` -/
def GSt.empty : GSt := ⟨RSt.empty, 0, [.base], 0, []⟩

inductive Step where
  /-- the terminals `Empty` (`false`) / `Base` (`true`) as handles -/
  | const (base : Bool)
  /-- `t_edge` -/
  | taut
  /-- `var_edge(v)` -/
  | var (cap v : Nat)
  /-- `singleton_edge(v)` -/
  | singleton (cap v : Nat)
  | setop (cap : Nat) (op : SetOp) (a b : Nat)
  | not (cap a : Nat)
  | subset (cap : Nat) (op : SubsetOp) (v a : Nat)
  | clone (a : Nat)
  | drop (a : Nat)
  | gc
  | addVars (cap k : Nat)
  /-- `Manager::reorder(|_| ())`: a reordering that moves nothing -/
  | reorderNop (cap : Nat)
deriving DecidableEq, Repr

/-- more than the unfolded sizes of two ordered diagrams over `n` levels -/
def fuelOf (n : Nat) : Nat := 3 * 2 ^ (n + 1)

/-- the step kinds that run an algorithm producing a new handle: `none` = the step names a handle
position / variable that does not exist (no-op), `some (none, r')` = OutOfMemory,
`some (some x, r')` = success with the owned result `x` -/
def opRes (p : Policy) (g : GSt) : Step → Option (Option ZEdge × RSt)
  | .const b => some (some (if b then .base else .empty), g.r)
  | .taut => some (tR g.chain g.r)
  | .var cap v => if v < g.n then some (varR cap g.chain g.r v) else none
  | .singleton cap v => if v < g.n then some (singletonR cap g.r v) else none
  | .setop cap op a b =>
    match g.hs[a]?, g.hs[b]? with
    | some f, some h => some (setOpR cap p op (fuelOf g.n) g.r f h)
    | _, _ => none
  | .not cap a =>
    match g.hs[a]? with
    | some f => some (notR cap p g.chain (fuelOf g.n) g.r f)
    | none => none
  | .subset cap op v a =>
    match g.hs[a]? with
    | some f => if v < g.n then some (subsetR cap p op v v (fuelOf g.n) g.r f) else none
    | none => none
  | _ => none

/-- a finished operation: the result becomes a new handle; after OutOfMemory the handles are
the old ones -/
def pushOp (g : GSt) : Option (Option ZEdge × RSt) → GSt
  | some (some x, r') => { g with r := r', hs := x :: g.hs }
  | some (none, r') => { g with r := r' }
  | none => g

/-- `Manager::add_vars(k)` under capacity `cap` -/
def addVars (g : GSt) (cap k : Nat) : GSt :=
  if g.n + k ≤ maxLevel then
    match addVarsR cap g.n k g.chain g.r with
    | (some ch, r') => { g with r := r', chain := ch, n := g.n + k }
    | (none, _) => g -- abort of the process (`KF-zbdd-addvars-oom`)
  else g -- `expect("too many variables")`

/-- `Manager::reorder(|_| ())` under capacity `cap`: `pre_gc` clears the apply cache,
`pre_reorder_mut` tears the chain down (`try_remove_node` really removes chain nodes nobody else
references), nothing is moved, `post_reorder_mut` rebuilds the chain, `gc_count` is advanced -/
def reorderNop (g : GSt) (cap : Nat) : GSt :=
  match reorderNopR cap g.n g.chain g.r with
  | (some ch, r') => { g with r := r', chain := ch, gcCount := g.gcCount + 1 }
  | (none, _) => g -- abort of the process, as for `add_vars`

def step (p : Policy) (g : GSt) : Step → GSt
  | .clone a =>
    match g.hs[a]? with
    | some f => { g with r := cloneEdge g.r f, hs := f :: g.hs }
    | none => g
  | .drop a =>
    match g.hs[a]? with
    | some f => { g with r := dropEdge g.r f, hs := g.hs.eraseIdx a }
    | none => g
  | .gc => { g with r := gcR g.n g.r, gcCount := g.gcCount + 1 }
  | .addVars cap k => addVars g cap k
  | .reorderNop cap => reorderNop g cap
  | .const b => pushOp g (opRes p g (.const b))
  | .taut => pushOp g (opRes p g .taut)
  | .var cap v => pushOp g (opRes p g (.var cap v))
  | .singleton cap v => pushOp g (opRes p g (.singleton cap v))
  | .setop cap op a b => pushOp g (opRes p g (.setop cap op a b))
  | .not cap a => pushOp g (opRes p g (.not cap a))
  | .subset cap op v a => pushOp g (opRes p g (.subset cap op v a))

/-- a history from the empty manager -/
def run (p : Policy) (hist : List Step) : GSt := hist.foldl (step p) GSt.empty

/-! ## the machine is the history machine of `RcSHistory.lean` -/

/-- forget `gcCount` -/
def GSt.toH (g : GSt) : HSt := ⟨g.r, g.chain, g.n, g.hs⟩

/-- the command of `RcSHistory.lean` a step stands for (fuel fixed to `fuelOf n`; a `drop` is by
position here and by value there, see `step_toH`) -/
def cmdOf (n : Nat) : Step → Cmd
  | .const b => .const b
  | .taut => .t
  | .var cap v => .var cap v
  | .singleton cap v => .singleton cap v
  | .setop cap op a b => .setop cap (fuelOf n) op a b
  | .not cap a => .not cap (fuelOf n) a
  | .subset cap op v a => .subset cap (fuelOf n) op v a
  | .clone a => .clone a
  | .drop a => .drop a
  | .gc => .gc
  | .addVars cap k => .addVars cap k
  | .reorderNop cap => .reorderNop cap

theorem pushOp_toH (g : GSt) (res : Option ZEdge × RSt) :
    (pushOp g (some res)).toH = pushRes g.toH res := by
  obtain ⟨o, r'⟩ := res
  cases o <;> rfl

/-- every step except `drop` (and the refused `add_vars` beyond `u32::MAX` levels) is the command
`cmdOf` of the history machine -/
theorem step_toH (p : Policy) (g : GSt) (s : Step) (hd : ∀ a, s ≠ .drop a)
    (hk : ∀ cap k, s = .addVars cap k → g.n + k ≤ maxLevel) :
    (step p g s).toH = (cmdOf g.n s).run p g.toH := by
  cases s with
  | const b => cases b <;> rfl
  | taut => exact pushOp_toH g _
  | var cap v =>
    simp only [step, opRes, cmdOf, Cmd.run]
    by_cases hv : v < g.n
    · simp only [hv, if_true]
      have : v < g.toH.n := hv
      simp only [this, if_true]
      exact pushOp_toH g _
    · simp only [hv, if_false]
      have : ¬ v < g.toH.n := hv
      simp only [this, if_false]; rfl
  | singleton cap v =>
    simp only [step, opRes, cmdOf, Cmd.run]
    by_cases hv : v < g.n
    · simp only [hv, if_true]
      have : v < g.toH.n := hv
      simp only [this, if_true]
      exact pushOp_toH g _
    · simp only [hv, if_false]
      have : ¬ v < g.toH.n := hv
      simp only [this, if_false]; rfl
  | setop cap op a b =>
    simp only [step, opRes, cmdOf, Cmd.run]
    show _ = match g.hs[a]?, g.hs[b]? with
      | some f, some h => pushRes g.toH (setOpR cap p op (fuelOf g.n) g.r f h)
      | _, _ => g.toH
    cases g.hs[a]? with
    | none => rfl
    | some f =>
      cases g.hs[b]? with
      | none => rfl
      | some h => exact pushOp_toH g _
  | not cap a =>
    simp only [step, opRes, cmdOf, Cmd.run]
    show _ = match g.hs[a]? with
      | some f => pushRes g.toH (notR cap p g.chain (fuelOf g.n) g.r f)
      | none => g.toH
    cases g.hs[a]? with
    | none => rfl
    | some f => exact pushOp_toH g _
  | subset cap op v a =>
    simp only [step, opRes, cmdOf, Cmd.run]
    show _ = match g.hs[a]? with
      | some f => if v < g.n then pushRes g.toH (subsetR cap p op v v (fuelOf g.n) g.r f) else g.toH
      | none => g.toH
    cases g.hs[a]? with
    | none => rfl
    | some f =>
      by_cases hv : v < g.n
      · simp only [hv, if_true]; exact pushOp_toH g _
      · simp only [hv, if_false]; rfl
  | clone a =>
    simp only [step, cmdOf, Cmd.run]
    show _ = match g.hs[a]? with
      | some f => ({ g.toH with r := cloneEdge g.r f, hs := f :: g.hs } : HSt)
      | none => g.toH
    cases g.hs[a]? <;> rfl
  | drop a => exact absurd rfl (hd a)
  | gc => rfl
  | addVars cap k =>
    have := hk cap k rfl
    simp only [step, addVars, this, if_true, cmdOf, Cmd.run]
    show _ = match addVarsR cap g.n k g.chain g.r with
      | (some ch, r') => ({ r := r', chain := ch, n := g.n + k, hs := g.hs } : HSt)
      | (none, _) => g.toH
    cases addVarsR cap g.n k g.chain g.r with
    | mk o r' => cases o <;> rfl
  | reorderNop cap =>
    simp only [step, reorderNop, cmdOf, Cmd.run]
    show _ = match reorderNopR cap g.n g.chain g.r with
      | (some ch, r') => ({ g.toH with r := r', chain := ch } : HSt)
      | (none, _) => g.toH
    cases reorderNopR cap g.n g.chain g.r with
    | mk o r' => cases o <;> rfl

/-! ## the ghost: which expression produced a handle -/

inductive Expr where
  | empty
  | base
  /-- `t_edge` in a manager with `n` variables: the power set of the first `n` variables -/
  | taut (n : Nat)
  /-- `var_edge(v)` in a manager with `n` variables: all subsets of them that contain `v` -/
  | var (n v : Nat)
  | singleton (v : Nat)
  | setop (op : SetOp) (e₁ e₂ : Expr)
  /-- complement w.r.t. the power set of the first `n` variables -/
  | not (n : Nat) (e : Expr)
  | subset (op : SubsetOp) (v : Nat) (e : Expr)
deriving DecidableEq, Repr, Inhabited

def setSem : SetOp → Bool → Bool → Bool
  | .union, a, b => a || b
  | .intsec, a, b => a && b
  | .diff, a, b => a && !b
  | .symmDiff, a, b => a != b

/-- **the family an expression specifies**, as a function of the VARIABLES: `e.fam N σ` says whether
the set `{v < N | σ v}` is a member (`σ` is read on the first `N` variables; `N` is any number of
variables at least as large as every `n` recorded in `e`, see `fam_window`: the family does not
depend on it). This *is* the Boolean view over `N` variables. -/
def Expr.fam : Expr → Nat → (Nat → Bool) → Bool
  | .empty, _, _ => false
  | .base, N, σ => allFalse σ 0 N
  | .taut n, N, σ => allFalse σ n N
  | .var n v, N, σ => σ v && allFalse σ n N
  | .singleton v, N, σ => allFalse σ 0 v && σ v && allFalse σ (v + 1) N
  | .setop op e₁ e₂, N, σ => setSem op (e₁.fam N σ) (e₂.fam N σ)
  | .not n e, N, σ => allFalse σ n N && !e.fam N σ
  | .subset .subset0 v e, N, σ => !σ v && e.fam N σ
  | .subset .subset1 v e, N, σ => !σ v && e.fam N (upd σ v true)
  | .subset .change v e, N, σ => e.fam N (flipAt σ v)

/-- every variable the expression mentions exists among the first `N` -/
def Expr.WF (N : Nat) : Expr → Prop
  | .empty => True
  | .base => True
  | .taut n => n ≤ N
  | .var n v => v < n ∧ n ≤ N
  | .singleton v => v < N
  | .setop _ e₁ e₂ => e₁.WF N ∧ e₂.WF N
  | .not n e => n ≤ N ∧ e.WF N
  | .subset _ v e => v < N ∧ e.WF N

/-- the expression of the handle a successful step creates -/
def newExpr (n : Nat) (es : List Expr) : Step → Expr
  | .const b => if b then .base else .empty
  | .taut => .taut n
  | .var _ v => .var n v
  | .singleton _ v => .singleton v
  | .setop _ op a b => .setop op (es.getD a default) (es.getD b default)
  | .not _ a => .not n (es.getD a default)
  | .subset _ op v a => .subset op v (es.getD a default)
  | _ => default

/-- the ghost step: a successful operation pushes its expression, a clone copies, a drop removes;
failed operations, `gc`, `addVars`, `reorderNop` leave every handle's expression alone -/
def track (p : Policy) (g : GSt) (es : List Expr) : Step → List Expr
  | .clone a => if a < g.hs.length then es.getD a default :: es else es
  | .drop a => es.eraseIdx a
  | .gc => es
  | .addVars _ _ => es
  | .reorderNop _ => es
  | s =>
    match opRes p g s with
    | some (some _, _) => newExpr g.n es s :: es
    | _ => es

/-- machine and ghost side by side -/
def runT (p : Policy) (hist : List Step) : GSt × List Expr :=
  hist.foldl (fun x s => (step p x.1 s, track p x.1 x.2 s)) (GSt.empty, [])

theorem runT_fst (p : Policy) (hist : List Step) : (runT p hist).1 = run p hist := by
  unfold runT run
  generalize GSt.empty = g0
  generalize ([] : List Expr) = e0
  induction hist generalizing g0 e0 with
  | nil => rfl
  | cons s rest ih => exact ih _ _

end OxiddModel.Zbdd.Global
