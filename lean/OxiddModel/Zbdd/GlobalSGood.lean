import OxiddModel.Zbdd.GlobalS
import OxiddModel.Zbdd.PropertiesC05R

/-!
# Hash consing, zero suppression and cache soundness after EVERY counted run — also a failing one

`RcSLemmas.lean` shows that a *successful* run of the counted algorithms is the run of the
capacity-free ones (`setOpR_erase'`, `subsetR_erase'`), whose specifications (`setOpS_spec`,
`subsetS_spec`) give `Unique`, `CacheOK`, `NoRed` afterwards. A run that fails with OutOfMemory
leaves the nodes and cache entries of its finished sub-computations behind. `Good env r R` says that
the state after the run `R` started in `r` — whatever its result — is hash consed, has a sound cache,
only extends the store and keeps zero suppression. It holds because

* a run that succeeds is covered by erasure + specification;
* in a run that fails no cache entry is added at the top (`finishAdd` of a failure adds nothing),
  the sub-runs are covered by induction, and a failed `get_or_insert` leaves the store as it is.
-/
namespace OxiddModel.Zbdd.Global
open OxiddModel.Zbdd OxiddModel.Zbdd.ZDD OxiddModel.Zbdd.Refine OxiddModel.Zbdd.Rc
open OxiddModel.Bdd.Refine (Policy OpTag Key Cache)

/-- from `s` to `s'`: invariant afterwards, store only extended, zero suppression kept -/
def GoodS (env : Env) (s s' : St) : Prop :=
  Refine.Inv env s' ∧ s.store.Le s'.store ∧ (s.store.NoRed → s'.store.NoRed)

theorem GoodS.same {env : Env} {s s' : St} (h : Refine.Inv env s) (h1 : s'.store = s.store)
    (h2 : s'.cache = s.cache) : GoodS env s s' := by
  refine ⟨?_, ?_, ?_⟩
  · unfold Refine.Inv; rw [h1, h2]; exact h
  · rw [h1]; exact Store.Le.refl _
  · rw [h1]; exact id

theorem GoodS.trans {env : Env} {a b c : St} (h1 : GoodS env a b) (h2 : GoodS env b c) :
    GoodS env a c :=
  ⟨h2.1, h1.2.1.trans h2.2.1, fun h => h2.2.2 (h1.2.2 h)⟩

/-- the state after the run `R` started in `r` -/
def Good (env : Env) (r : RSt) (R : Option ZEdge × RSt) : Prop := GoodS env r.st R.2.st

theorem Good.of_st {env : Env} {r r' : RSt} {R : Option ZEdge × RSt} (hs : r'.st = r.st)
    (h : Good env r' R) : Good env r R := by
  unfold Good at h ⊢; rw [← hs]; exact h

theorem Good.tickd {env : Env} {r : RSt} {R : Option ZEdge × RSt} (h : Good env r.tickd R) :
    Good env r R := h

theorem Good.after {env : Env} {r r1 : RSt} {R : Option ZEdge × RSt} (h1 : GoodS env r.st r1.st)
    (h2 : Good env r1 R) : Good env r R := GoodS.trans h1 h2

/-! ## `get_or_insert`, `reduce`, `reduce_borrowed` -/

theorem insertR_none {cap : Nat} {r : RSt} {l : Nat} {t e : ZEdge}
    (h : (insertR cap r l t e).1 = none) : (insertR cap r l t e).2.st = r.st := by
  unfold insertR at h ⊢
  split
  · rename_i i hi; rw [hi] at h; cases h
  · rename_i hi
    rw [hi] at h
    simp only at h
    by_cases hc : count r.st.store < cap
    · simp only [hc, if_true] at h; cases h
    · simp only [hc, if_false, dropEdge_st]

theorem insertR_good {env : Env} {cap : Nat} {r : RSt} {l : Nat} {t e : ZEdge} (hinv : Refine.Inv env r.st)
    (hne : t ≠ .empty) : Good env r (insertR cap r l t e) := by
  cases hres : (insertR cap r l t e).1 with
  | none =>
    have := insertR_none hres
    exact GoodS.same hinv (by rw [this]) (by rw [this])
  | some x =>
    obtain ⟨h1, h2, _⟩ := insertR_erase hres
    have hs : (insertR cap r l t e).2.st.store = (r.st.store.getOrInsert ⟨l, t, e⟩).1 := by rw [h1]
    refine ⟨⟨?_, ?_⟩, ?_, ?_⟩
    · rw [hs]; exact getOrInsert_unique _ _ hinv.1
    · rw [hs, h2]; exact hinv.2.mono (getOrInsert_le _ _)
    · rw [hs]; exact getOrInsert_le _ _
    · rw [hs]; exact getOrInsert_nored _ _ hne

/-- a successful `get_or_insert` returns an edge denoting the requested node -/
theorem insertR_den {cap : Nat} {r : RSt} {l : Nat} {t e x : ZEdge} {th tl : ZDD}
    (hres : (insertR cap r l t e).1 = some x) (ht : DenotesZ r.st.store t th)
    (he : DenotesZ r.st.store e tl) :
    DenotesZ (insertR cap r l t e).2.st.store x (.node l th tl) := by
  obtain ⟨h1, _, _⟩ := insertR_erase hres
  have := getOrInsert_denotes r.st.store l t e th tl ht he
  rw [h1] at this
  exact this

theorem mkNodeR_good {env : Env} {cap : Nat} {r : RSt} {l : Nat} {t e : ZEdge} (hinv : Refine.Inv env r.st) :
    Good env r (mkNodeR cap r l t e) := by
  unfold mkNodeR
  by_cases ht : t = .empty
  · simp only [ht, if_true]; exact GoodS.same hinv rfl rfl
  · simp only [ht, if_false]; exact insertR_good hinv ht

theorem mkNodeBR_good {env : Env} {cap : Nat} {r : RSt} {l : Nat} {t e : ZEdge}
    (hinv : Refine.Inv env r.st) : Good env r (mkNodeBR cap r l t e) := by
  unfold mkNodeBR
  by_cases ht : t = .empty
  · simp only [ht, if_true]; exact GoodS.same hinv rfl rfl
  · simp only [ht, if_false]
    exact Good.of_st (cloneEdge_st r t) (insertR_good (by rw [cloneEdge_st]; exact hinv) ht)

/-! ## control flow -/

theorem finishAdd_none {p : Policy} {key : ZKey} {R : Option ZEdge × RSt}
    (h : (finishAdd p key R).1 = none) : finishAdd p key R = R := by
  obtain ⟨o, r'⟩ := R
  cases o with
  | none => rfl
  | some x => cases h

theorem bindR_good {env : Env} {c : RSt → Option ZEdge × RSt}
    {k : RSt → ZEdge → Option ZEdge × RSt} {r : RSt} (h1 : Good env r (c r))
    (h2 : ∀ x r1, GoodS env r.st r1.st → Good env r1 (k r1 x)) : Good env r (bindR c k r) := by
  unfold bindR
  cases hc : c r with
  | mk o r1 =>
    rw [hc] at h1
    cases o with
    | none => exact h1
    | some x => exact Good.after h1 (h2 x r1 h1)

theorem forkR_good {env : Env} {c1 c0 : RSt → Option ZEdge × RSt}
    {k : RSt → ZEdge → ZEdge → Option ZEdge × RSt} {r : RSt} (h1 : Good env r (c1 r))
    (h0 : ∀ r1, GoodS env r.st r1.st → Good env r1 (c0 r1))
    (hk : ∀ hi lo r0, GoodS env r.st r0.st → Good env r0 (k r0 hi lo)) :
    Good env r (forkR c1 c0 k r) := by
  unfold forkR
  cases hc1 : c1 r with
  | mk o1 r1 =>
    rw [hc1] at h1
    cases o1 with
    | none => exact h1
    | some t =>
      have g1 : GoodS env r.st r1.st := h1
      have h0' := h0 r1 g1
      simp only
      cases hc0 : c0 r1 with
      | mk o0 r0 =>
        rw [hc0] at h0'
        have g0 : GoodS env r.st r0.st := GoodS.trans g1 h0'
        cases o0 with
        | none =>
          show GoodS env r.st (dropEdge r0 t).st
          rw [dropEdge_st]; exact g0
        | some e => exact Good.after g0 (hk t e r0 g0)

/-! ## the set operations -/

theorem den_of_node? {s : Store} {f : ZEdge} {n : ZNode} {a : ZDD} (hn : s.node? f = some n)
    (hf : DenotesZ s f a) :
    ∃ th tl, a = .node n.level th tl ∧ DenotesZ s n.hi th ∧ DenotesZ s n.lo tl := by
  obtain ⟨i, rfl, hi⟩ := node?_some hn
  cases hf with
  | inner hi' hh hl =>
    rw [hi] at hi'; cases hi'
    exact ⟨_, _, rfl, hh, hl⟩

theorem setBodyR_good {p : Policy} (env : Env) (cap : Nat) (op : SetOp) (fuel : Nat)
    (rec : RSt → ZEdge → ZEdge → Option ZEdge × RSt)
    (hrec : ∀ (r : RSt) (f g : ZEdge) (a b : ZDD), Refine.Inv env r.st → DenotesZ r.st.store f a →
      DenotesZ r.st.store g b → a.size + b.size ≤ fuel → Good env r (rec r f g))
    (r : RSt) (f g : ZEdge) (a b : ZDD) (hinv : Refine.Inv env r.st) (hf : DenotesZ r.st.store f a)
    (hg : DenotesZ r.st.store g b) (hsz : a.size + b.size ≤ fuel + 1)
    (hnone : (setBodyR cap p op rec r f g).1 = none) :
    Good env r (setBodyR cap p op rec r f g) := by
  unfold setBodyR at hnone ⊢
  cases hget : p.get r.st.tick r.st.cache (encKey ⟨setTag op, [f, g], []⟩) with
  | some x => exact GoodS.same hinv (by simp) (by simp)
  | none =>
    rw [hget] at hnone
    simp only at hnone ⊢
    have hkid : ∀ x r1, GoodS env r.tickd.st r1.st → ∀ l hi, Good env r1 (mkNodeBR cap r1 l hi x) :=
      fun x r1 g1 l hi => mkNodeBR_good g1.1
    cases hcmp : r.st.store.cmpLevels f g with
    | lt nf =>
      rw [hcmp] at hnone
      simp only at hnone ⊢
      obtain ⟨th, tl, rfl, _, hl⟩ := den_of_node? (cmpLevels_lt hcmp) hf
      simp only [ZDD.size] at hsz
      have hr := hrec r.tickd nf.lo g tl b hinv.tickd hl hg (by omega)
      by_cases hk : op.keepLt = true
      · simp only [hk, if_true] at hnone ⊢
        rw [finishAdd_none hnone]
        exact Good.tickd (bindR_good hr (fun x r1 g1 => hkid x r1 g1 _ _))
      · simp only [hk] at hnone ⊢
        rw [finishAdd_none hnone]
        exact Good.tickd hr
    | eq nf ng =>
      rw [hcmp] at hnone
      simp only at hnone ⊢
      obtain ⟨h1, h2, _⟩ := cmpLevels_eq hcmp
      obtain ⟨fh, fl, rfl, hfh, hfl⟩ := den_of_node? h1 hf
      obtain ⟨gh, gl, rfl, hgh, hgl⟩ := den_of_node? h2 hg
      simp only [ZDD.size] at hsz
      rw [finishAdd_none hnone]
      refine Good.tickd (forkR_good (hrec r.tickd _ _ fh gh hinv.tickd hfh hgh (by omega)) ?_ ?_)
      · intro r1 g1
        exact hrec r1 _ _ fl gl g1.1 (hfl.mono g1.2.1) (hgl.mono g1.2.1) (by omega)
      · intro hi lo r0 g0
        exact mkNodeR_good g0.1
    | gt ng =>
      rw [hcmp] at hnone
      simp only at hnone ⊢
      obtain ⟨th, tl, rfl, _, hl⟩ := den_of_node? (cmpLevels_gt hcmp) hg
      simp only [ZDD.size] at hsz
      have hr := hrec r.tickd f ng.lo a tl hinv.tickd hf hl (by omega)
      by_cases hk : op.keepGt = true
      · simp only [hk, if_true] at hnone ⊢
        rw [finishAdd_none hnone]
        exact Good.tickd (bindR_good hr (fun x r1 g1 => hkid x r1 g1 _ _))
      · simp only [hk] at hnone ⊢
        rw [finishAdd_none hnone]
        exact Good.tickd hr
    | none => exact GoodS.same hinv (by simp) (by simp)

/-- **after every `setOpR` run — successful or not — the state is hash consed, zero suppressed and
its cache sound** -/
theorem setOpR_good {p : Policy} (pok : p.OK) (env : Env) (cap : Nat) (op : SetOp) (fuel : Nat) :
    ∀ (r : RSt) (f g : ZEdge) (a b : ZDD), Refine.Inv env r.st → DenotesZ r.st.store f a →
      DenotesZ r.st.store g b → a.size + b.size ≤ fuel → Good env r (setOpR cap p op fuel r f g) := by
  induction fuel with
  | zero =>
    intro r f g a b _ _ _ hsz
    have := size_pos a
    omega
  | succ fuel ih =>
    intro r f g a b hinv hf hg hsz
    cases hres : (setOpR cap p op (fuel + 1) r f g).1 with
    | some e =>
      have he := setOpR_erase' cap p op (fuel + 1) r f g e hres
      have P := setOpS_spec pok env op (fuel + 1) r.st f g a b hinv hf hg hsz
      rw [he] at P
      exact ⟨P.inv, P.le, fun hr => P.nored hr⟩
    | none =>
      simp only [setOpR] at hres ⊢
      cases hT : terminalS op f g with
      | some x => exact GoodS.same hinv (by simp) (by simp)
      | none =>
        rw [hT] at hres
        simp only at hres ⊢
        by_cases hsw : (op.comm && f.gt g) = true
        · rw [if_pos hsw] at hres ⊢
          exact setBodyR_good env cap op fuel _ ih r g f b a hinv hg hf (by omega) hres
        · rw [if_neg hsw] at hres ⊢
          exact setBodyR_good env cap op fuel _ ih r f g a b hinv hf hg hsz hres

/-! ## `subset::<VAL>` -/

theorem subsetBelowR_good {env : Env} (cap : Nat) (op : SubsetOp) (vl : Nat) (r : RSt) (f : ZEdge)
    (hinv : Refine.Inv env r.st) : Good env r (subsetBelowR cap op vl r f) := by
  cases op <;> simp only [subsetBelowR]
  · exact GoodS.same hinv (by simp) (by simp)
  · exact GoodS.same hinv rfl rfl
  · exact Good.of_st (cloneEdge_st r f) (mkNodeR_good (by rw [cloneEdge_st]; exact hinv))

theorem subsetR_good {p : Policy} (pok : p.OK) (env : Env) (cap : Nat) (op : SubsetOp) (var : Nat)
    (fuel : Nat) : ∀ (r : RSt) (f : ZEdge) (a : ZDD), Refine.Inv env r.st → DenotesZ r.st.store f a →
      a.size ≤ fuel → Good env r (subsetR cap p op var (env.levelOf var) fuel r f) := by
  induction fuel with
  | zero =>
    intro r f a _ _ hsz
    have := size_pos a
    omega
  | succ fuel ih =>
    intro r f a hinv hf hsz
    cases hres : (subsetR cap p op var (env.levelOf var) (fuel + 1) r f).1 with
    | some e =>
      have he := subsetR_erase' cap p op var (env.levelOf var) (fuel + 1) r f e hres
      have P := subsetS_spec pok env op var (fuel + 1) r.st f a hinv hf hsz
      rw [he] at P
      exact ⟨P.inv, P.le, fun hr => P.nored hr⟩
    | none =>
      simp only [subsetR] at hres ⊢
      cases hn : r.st.store.node? f with
      | none => exact subsetBelowR_good cap op _ r f hinv
      | some n =>
        rw [hn] at hres
        simp only at hres ⊢
        obtain ⟨th, tl, rfl, hh, hl⟩ := den_of_node? hn hf
        simp only [ZDD.size] at hsz
        by_cases h1 : n.level < env.levelOf var
        · simp only [h1, if_true] at hres ⊢
          cases hget : p.get r.st.tick r.st.cache (encKey ⟨subsetTag op, [f], [var]⟩) with
          | some x => exact GoodS.same hinv (by simp) (by simp)
          | none =>
            rw [hget] at hres
            simp only at hres ⊢
            rw [finishAdd_none hres]
            refine Good.tickd (forkR_good (ih r.tickd _ th hinv.tickd hh (by omega)) ?_ ?_)
            · intro r1 g1
              exact ih r1 _ tl g1.1 (hl.mono g1.2.1) (by omega)
            · intro hi lo r0 g0
              exact mkNodeR_good g0.1
        · simp only [h1, if_false]
          by_cases h2 : n.level = env.levelOf var
          · simp only [h2, if_true]
            cases op <;> simp only
            · exact GoodS.same hinv (by simp) (by simp)
            · exact GoodS.same hinv (by simp) (by simp)
            · exact Good.of_st (cloneEdge_st r n.hi)
                (mkNodeBR_good (by rw [cloneEdge_st]; exact hinv))
          · simp only [h2, if_false]
            exact subsetBelowR_good cap op _ r f hinv

/-! ## `var_edge`, `singleton_edge` -/

theorem varLoopR_sem {env : Env} (cap : Nat) : ∀ (l : Nat) (r : RSt) (e : ZEdge) (t : ZDD),
    Refine.Inv env r.st → DenotesZ r.st.store e t → e ≠ .empty →
    Good env r (varLoopR cap l r e) ∧
    ∀ x, (varLoopR cap l r e).1 = some x → DenotesZ (varLoopR cap l r e).2.st.store x (dcChain l t) := by
  intro l
  induction l with
  | zero =>
    intro r e t hinv hd _
    exact ⟨GoodS.same hinv rfl rfl, fun x hx => by cases hx; exact hd⟩
  | succ l ih =>
    intro r e t hinv hd hne
    simp only [varLoopR, dcChain]
    have hinv' : Refine.Inv env (cloneEdge r e).st := by rw [cloneEdge_st]; exact hinv
    have G : Good env r (insertR cap (cloneEdge r e) l e e) :=
      Good.of_st (cloneEdge_st r e) (insertR_good hinv' hne)
    have D : ∀ x, (insertR cap (cloneEdge r e) l e e).1 = some x →
        DenotesZ (insertR cap (cloneEdge r e) l e e).2.st.store x (.node l t t) :=
      fun x hx => insertR_den hx (by rw [cloneEdge_st]; exact hd) (by rw [cloneEdge_st]; exact hd)
    cases hR : insertR cap (cloneEdge r e) l e e with
    | mk o r' =>
      rw [hR] at G D
      cases o with
      | none => exact ⟨G, fun x hx => by cases hx⟩
      | some e' =>
        have hd' := D e' rfl
        have hne' : e' ≠ .empty := fun h => by
          have := hd'.empty_iff.mp h
          cases this
        obtain ⟨g2, d2⟩ := ih r' e' (.node l t t) G.1 hd' hne'
        exact ⟨Good.after G g2, d2⟩

/-- `var_edge`: every run keeps the state good; a successful one returns `var n level` -/
theorem varR_sem {env : Env} (cap : Nat) (chain : List ZEdge) (r : RSt) (n level : Nat)
    (hinv : Refine.Inv env r.st) (hch : ChainOK n r.st.store chain) :
    Good env r (varR cap chain r level) ∧
    ∀ x, (varR cap chain r level).1 = some x →
      DenotesZ (varR cap chain r level).2.st.store x (Zbdd.var n level) := by
  unfold varR Zbdd.var
  have ht := tautologyS_denotes hch (level + 1)
  have hne : tautologyS chain (level + 1) ≠ .empty := fun h =>
    taut_ne_empty n (level + 1) (ht.empty_iff.mp h)
  have hinv' : Refine.Inv env (cloneEdge r (tautologyS chain (level + 1))).st := by
    rw [cloneEdge_st]; exact hinv
  have G : Good env r (insertR cap (cloneEdge r (tautologyS chain (level + 1))) level
      (tautologyS chain (level + 1)) .empty) :=
    Good.of_st (cloneEdge_st r _) (insertR_good hinv' hne)
  have D : ∀ x, (insertR cap (cloneEdge r (tautologyS chain (level + 1))) level
      (tautologyS chain (level + 1)) .empty).1 = some x → DenotesZ _ x _ :=
    fun x hx => insertR_den hx (by rw [cloneEdge_st]; exact ht) (by rw [cloneEdge_st]; exact .empty)
  cases hR : insertR cap (cloneEdge r (tautologyS chain (level + 1))) level
      (tautologyS chain (level + 1)) .empty with
  | mk o r' =>
    rw [hR] at G D
    cases o with
    | none => exact ⟨G, fun x hx => by cases hx⟩
    | some e =>
      have hd' := D e rfl
      have hne' : e ≠ .empty := fun h => by
        have := hd'.empty_iff.mp h
        cases this
      obtain ⟨g2, d2⟩ := varLoopR_sem (env := env) cap level r' e _ G.1 hd' hne'
      exact ⟨Good.after G g2, d2⟩

/-- `singleton_edge` -/
theorem singletonR_sem {env : Env} (cap : Nat) (r : RSt) (level : Nat) (hinv : Refine.Inv env r.st) :
    Good env r (singletonR cap r level) ∧
    ∀ x, (singletonR cap r level).1 = some x →
      DenotesZ (singletonR cap r level).2.st.store x (Zbdd.singleton level) :=
  ⟨insertR_good hinv (by simp), fun x hx => insertR_den hx .base .empty⟩

end OxiddModel.Zbdd.Global
