import OxiddModel.Zbdd.GlobalSGood
import OxiddModel.Zbdd.Properties

/-!
# The invariant of the global ZBDD machine and the meaning of handles: definitions, small lemmas

* `GInv g`: counters exact for chain entries + handles (`RcInv`), store ordered with all levels
  `< n` (`OrdInv`), chain level-correct and closed (`ChainLv`, `ChainClosed`), hash consed
  (`Unique`), zero suppressed (`NoRed`), cache sound (`CacheOK`), the chain denotes the tautologies
  of all levels (`ChainOK`), `n ≤ u32::MAX`;
* `HDen s N x e`: the edge `x` denotes a diagram whose family over `N` variables is `e.fam N`;
  `Sem g es`: handle by handle (`All2`);
* every diagram of the store is in normal form (`GInv.nf`), sizes of ordered diagrams over `n`
  levels (`size_lt_of_ordered`): the fuel `fuelOf n` suffices;
* `fam_window`: the family of a well-formed expression does not depend on the number of variables
  it is viewed in: over `N + k` variables it is the family over `N` variables with all new variables
  false.
-/
namespace OxiddModel.Zbdd.Global
open OxiddModel.Zbdd OxiddModel.Zbdd.ZDD OxiddModel.Zbdd.Refine OxiddModel.Zbdd.Rc
open OxiddModel.Bdd.Refine (Policy OpTag Key Cache)

/-! ## lists -/

/-- two lists of the same length related element by element -/
inductive All2 {α β} (R : α → β → Prop) : List α → List β → Prop
  | nil : All2 R [] []
  | cons {a : α} {b : β} {l : List α} {m : List β} : R a b → All2 R l m → All2 R (a :: l) (b :: m)

theorem forall₂_length {α β} {R : α → β → Prop} {l : List α} {m : List β}
    (h : All2 R l m) : m.length = l.length := by
  induction h with
  | nil => rfl
  | cons _ _ ih => simp [ih]

theorem forall₂_get {α β} {R : α → β → Prop} {l : List α} {m : List β}
    (h : All2 R l m) {i : Nat} {x : α} (hx : l[i]? = some x) :
    ∃ y, m[i]? = some y ∧ R x y := by
  induction h generalizing i with
  | nil => simp at hx
  | @cons a b l m hab _ ih =>
    cases i with
    | zero => simp at hx; subst hx; exact ⟨b, by simp, hab⟩
    | succ i => simp at hx; simpa using ih hx

theorem forall₂_getD {α β} [Inhabited β] {R : α → β → Prop} {l : List α} {m : List β}
    (h : All2 R l m) {i : Nat} {x : α} (hx : l[i]? = some x) : R x (m.getD i default) := by
  obtain ⟨y, hy, hr⟩ := forall₂_get h hx
  simp [List.getD_eq_getElem?_getD, hy, hr]

theorem forall₂_eraseIdx {α β} {R : α → β → Prop} {l : List α} {m : List β}
    (h : All2 R l m) (i : Nat) : All2 R (l.eraseIdx i) (m.eraseIdx i) := by
  induction h generalizing i with
  | nil => exact .nil
  | cons hab hrest ih =>
    cases i with
    | zero => simpa using hrest
    | succ i => simpa using All2.cons hab (ih i)

theorem forall₂_imp_mem {α β} {R S : α → β → Prop} {l : List α} {m : List β}
    (h : All2 R l m) (hi : ∀ x y, x ∈ l → R x y → S x y) : All2 S l m := by
  induction h with
  | nil => exact .nil
  | cons hab _ ih =>
    exact .cons (hi _ _ List.mem_cons_self hab)
      (ih (fun x y hx => hi x y (List.mem_cons_of_mem _ hx)))

theorem count_cons_eraseIdx {l : List ZEdge} {a : Nat} {f : ZEdge} (h : l[a]? = some f) (e : ZEdge) :
    (f :: l.eraseIdx a).count e = l.count e := by
  induction l generalizing a with
  | nil => simp at h
  | cons y tl ih =>
    cases a with
    | zero => simp at h; subst h; simp
    | succ a =>
      simp at h
      have := ih h
      simp only [List.eraseIdx_cons_succ, List.count_cons] at this ⊢
      omega

/-! ## the invariant -/

/-- what the manager knows besides the store: `n` levels, identity order -/
def envOf (n : Nat) : Env := ⟨n, fun v => v⟩

structure GInv (g : GSt) : Prop where
  /-- counters exact: `rc = 1 + chain entries + handles + stored parent edges`; no dangling edge -/
  rc : RcInv g.r (g.chain ++ g.hs)
  /-- ordered w.r.t. the stored level numbers, all levels `< n` -/
  ord : OrdInv g.n g.r
  /-- `tautology(l)` lies at level `≥ l` -/
  lv : ChainLv g.r.st.store g.chain
  /-- the chain is closed under taking children -/
  closed : ChainClosed g.r.st.store g.chain
  /-- hash consed -/
  uniq : g.r.st.store.Unique
  /-- zero suppressed: no stored node has `hi = Empty` -/
  nored : g.r.st.store.NoRed
  /-- every cache entry is the result of its key -/
  cache : CacheOK (envOf g.n) g.r.st.store g.r.st.cache
  /-- `n + 1` chain entries, entry `l` denotes the tautology over the levels `[l, n)` -/
  chain : ChainOK g.n g.r.st.store g.chain
  /-- level numbers fit `u32`, `u32::MAX` being reserved for terminals -/
  nmax : g.n ≤ maxLevel

theorem GInv.inv {g : GSt} (h : GInv g) : Refine.Inv (envOf g.n) g.r.st := ⟨h.uniq, h.cache⟩

theorem GInv.hinv {g : GSt} (h : GInv g) : HInv g.toH := h.rc

theorem GInv.hord {g : GSt} (h : GInv g) : HOrd g.toH := ⟨h.ord, h.lv, h.closed⟩

theorem GInv.hs_has {g : GSt} (h : GInv g) {x : ZEdge} (hx : x ∈ g.hs) : has g.r.st.store x :=
  h.rc.ext_ok x (List.mem_append_right _ hx)

/-- the edge denotes a diagram whose family over `N` variables is `e.fam N` -/
def HDen (s : Store) (N : Nat) (x : ZEdge) (e : Expr) : Prop :=
  e.WF N ∧ ∃ t, DenotesZ s x t ∧ ∀ σ, fam N t σ = e.fam N σ

/-- every handle denotes the family of its producing expression -/
def Sem (g : GSt) (es : List Expr) : Prop := All2 (HDen g.r.st.store g.n) g.hs es

theorem HDen.mono {s s' : Store} {N : Nat} {x : ZEdge} {e : Expr} (h : HDen s N x e)
    (hle : s.Le s') : HDen s' N x e := by
  obtain ⟨hw, t, hd, he⟩ := h
  exact ⟨hw, t, hd.mono hle, he⟩

/-! ## every diagram of the store is ordered and zero suppressed -/

theorem denotes_ordered {s : Store} {N : Nat} (ho : SOrdered s)
    (hb : ∀ i n, s.get? i = some n → n.level < N) {x : ZEdge} {t : ZDD} (hd : DenotesZ s x t) :
    ∀ k, Above s k x → Ordered N k t := by
  induction hd with
  | empty => intro k _; exact .empty
  | base => intro k _; exact .base
  | @inner i l eh el th tl hi hh hl ihh ihl =>
    intro k hk
    obtain ⟨n', hn', hkl⟩ := hk
    rw [hi] at hn'; cases hn'
    have kid : ∀ (c : ZEdge) (tc : ZDD), (eh = c ∨ el = c) → DenotesZ s c tc → Above s (l + 1) c := by
      intro c tc hc hdc
      cases hdc with
      | empty => trivial
      | base => trivial
      | @inner j l' _ _ _ _ hj _ _ =>
        have := ho i ⟨l, eh, el⟩ j _ hi hc hj
        exact ⟨_, hj, this⟩
    exact .node hkl (hb i _ hi) (ihh _ (kid eh th (.inl rfl) hh)) (ihl _ (kid el tl (.inr rfl) hl))

theorem GInv.nf {g : GSt} (h : GInv g) {x : ZEdge} {t : ZDD} (hd : DenotesZ g.r.st.store x t) :
    NF g.n 0 t := by
  refine ⟨denotes_ordered h.ord.ord h.ord.bound hd 0 ?_, reduced_of_nored h.nored hd⟩
  cases hd with
  | empty => trivial
  | base => trivial
  | inner hi _ _ => exact ⟨_, hi, Nat.zero_le _⟩

/-! ## sizes: the fuel suffices -/

theorem size_lt_of_ordered {n : Nat} : ∀ {t : ZDD} {k : Nat}, Ordered n k t →
    t.size + 1 ≤ 2 ^ (n - k + 1) := by
  intro t
  induction t with
  | empty =>
    intro k _
    have : 2 ^ 1 ≤ 2 ^ (n - k + 1) := Nat.pow_le_pow_right (by omega) (by omega)
    simp [ZDD.size]; omega
  | base =>
    intro k _
    have : 2 ^ 1 ≤ 2 ^ (n - k + 1) := Nat.pow_le_pow_right (by omega) (by omega)
    simp [ZDD.size]; omega
  | node l a b iha ihb =>
    intro k ho
    cases ho with
    | node hkl hln hoa hob =>
      have h1 := iha hoa
      have h2 := ihb hob
      have e : n - (l + 1) + 1 = n - l := by omega
      rw [e] at h1 h2
      have h3 : 2 ^ (n - l + 1) ≤ 2 ^ (n - k + 1) := Nat.pow_le_pow_right (by omega) (by omega)
      have h4 : 2 ^ (n - l + 1) = 2 * 2 ^ (n - l) := by rw [Nat.pow_succ]; omega
      simp only [ZDD.size]
      omega

theorem GInv.size_lt {g : GSt} (h : GInv g) {x : ZEdge} {t : ZDD} (hd : DenotesZ g.r.st.store x t) :
    t.size < 2 ^ (g.n + 1) := by
  have := size_lt_of_ordered (h.nf hd).1
  simp only [Nat.sub_zero] at this
  omega

theorem fuel1 {g : GSt} (h : GInv g) {x : ZEdge} {t : ZDD} (hd : DenotesZ g.r.st.store x t) :
    t.size ≤ fuelOf g.n := by
  have := h.size_lt hd; unfold fuelOf; omega

theorem fuel2 {g : GSt} (h : GInv g) {x y : ZEdge} {t u : ZDD} (hx : DenotesZ g.r.st.store x t)
    (hy : DenotesZ g.r.st.store y u) : t.size + u.size ≤ fuelOf g.n := by
  have := h.size_lt hx; have := h.size_lt hy; unfold fuelOf; omega

/-! ## the family of an expression does not depend on the window -/

theorem Expr.WF.mono {N N' : Nat} (hN : N ≤ N') : ∀ {e : Expr}, e.WF N → e.WF N' := by
  intro e
  induction e with
  | empty => exact id
  | base => exact id
  | taut n => intro h; exact Nat.le_trans h hN
  | var n v => intro h; exact ⟨h.1, Nat.le_trans h.2 hN⟩
  | singleton v => intro h; exact Nat.lt_of_lt_of_le h hN
  | setop op a b iha ihb => intro h; exact ⟨iha h.1, ihb h.2⟩
  | not n e ih => intro h; exact ⟨Nat.le_trans h.1 hN, ih h.2⟩
  | subset op v e ih => intro h; exact ⟨Nat.lt_of_lt_of_le h.1 hN, ih h.2⟩

theorem allFalse_upd {σ : Nat → Bool} {v k n : Nat} (b : Bool) (hv : v < k) :
    allFalse (upd σ v b) k n = allFalse σ k n :=
  allFalse_congr (fun w h1 _ => upd_ne σ b (by omega))

theorem allFalse_flipAt {σ : Nat → Bool} {v k n : Nat} (hv : v < k) :
    allFalse (flipAt σ v) k n = allFalse σ k n :=
  allFalse_congr (fun w h1 _ => flipAt_ne σ (by omega))

/-- **`fam_window`.** Viewed over `N + k` variables the family of an expression over `N` variables
is the same set of sets: a member contains none of the new variables. In terms of the Boolean
view: the function over `N + k` variables is the old function conjoined with "all new variables are
false". -/
theorem fam_window {N : Nat} (k : Nat) : ∀ {e : Expr}, e.WF N → ∀ σ,
    e.fam (N + k) σ = (e.fam N σ && allFalse σ N (N + k)) := by
  intro e
  induction e with
  | empty => intro _ σ; simp [Expr.fam]
  | base => intro _ σ; exact allFalse_split σ (Nat.zero_le _) (Nat.le_add_right _ _)
  | taut n => intro h σ; exact allFalse_split σ h (Nat.le_add_right _ _)
  | var n v =>
    intro h σ
    simp only [Expr.fam]
    rw [allFalse_split σ h.2 (Nat.le_add_right _ _), Bool.and_assoc]
  | singleton v =>
    intro h σ
    simp only [Expr.fam]
    have hv : v + 1 ≤ N := h
    rw [allFalse_split σ hv (Nat.le_add_right _ _)]
    simp only [Bool.and_assoc]
  | setop op a b iha ihb =>
    intro h σ
    simp only [Expr.fam]
    rw [iha h.1 σ, ihb h.2 σ]
    cases op <;> cases a.fam N σ <;> cases b.fam N σ <;> cases allFalse σ N (N + k) <;> rfl
  | not n e ih =>
    intro h σ
    simp only [Expr.fam]
    rw [ih h.2 σ, allFalse_split σ h.1 (Nat.le_add_right _ _)]
    cases allFalse σ n N <;> cases e.fam N σ <;> cases allFalse σ N (N + k) <;> rfl
  | subset op v e ih =>
    intro h σ
    cases op <;> simp only [Expr.fam]
    · rw [ih h.2 σ, Bool.and_assoc]
    · rw [ih h.2 (upd σ v true), allFalse_upd true h.1, Bool.and_assoc]
    · rw [ih h.2 (flipAt σ v), allFalse_flipAt h.1]

/-- the same for a diagram: `add_vars` keeps the tree, hence the family -/
theorem hden_more {s : Store} {N : Nat} (k : Nat) {x : ZEdge} {e : Expr} (h : HDen s N x e)
    (hord : ∀ t, DenotesZ s x t → Ordered N 0 t) : HDen s (N + k) x e := by
  obtain ⟨hw, t, hd, he⟩ := h
  refine ⟨hw.mono (Nat.le_add_right _ _), t, hd, fun σ => ?_⟩
  rw [(add_vars_family N k t σ (hord t hd)).1, he σ, fam_window k hw σ]

end OxiddModel.Zbdd.Global
