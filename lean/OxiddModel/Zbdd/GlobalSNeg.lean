import OxiddModel.Zbdd.PropertiesGlobalS

/-!
# Mutations of the global ZBDD machine and the histories on which C01 fails for them

`stepV vr` is `step` with one change (and `stepV .fixed = step`):

* `.gcKeepsCache`: `Manager::gc` without `pre_gc` clearing the apply cache. A cached result whose
  node was collected and whose slot was reused is returned for a different family.
* `.addVarsFreesChain`: `try_remove_node` without the `reorder_gc_prepared` guard inside
  `add_vars` (the class of the seeded `R2-C05-zbdd-addvars-frees-node`, `addVarsNoGuard` of
  `RcS.lean`): the old chain node is freed although an apply-cache entry refers to it (`add_vars`
  does not clear the cache); the slot is reused by the new chain.

For each a concrete history (by kernel evaluation) ends with two handles that are the **same edge**
although their producing expressions specify **different families** — the conclusion of
`global_canonical` is false for the mutated machine, so the theorem cannot be proved for it; on the
same histories the real machine keeps the handles apart.

`var_needs_window` is a ghost-side check: the `n` recorded in `Expr.var n v` is needed — after
`add_vars` the old handle of `var 0` and a new `var 0` are different edges with different families.
-/
namespace OxiddModel.Zbdd.Global
open OxiddModel.Zbdd OxiddModel.Zbdd.ZDD OxiddModel.Zbdd.Refine OxiddModel.Zbdd.Rc
open OxiddModel.Bdd.Refine (Policy OpTag Key Cache)

inductive Variant | fixed | gcKeepsCache | addVarsFreesChain
deriving DecidableEq

def stepV (vr : Variant) (p : Policy) (g : GSt) (s : Step) : GSt :=
  match vr, s with
  | .gcKeepsCache, .gc =>
    let g' := step p g .gc
    { g' with r := { g'.r with st := { g'.r.st with cache := g.r.st.cache } } }
  | .addVarsFreesChain, .addVars cap k =>
    match addVarsNoGuard cap g.n k g.chain g.r with
    | (some ch, r') => { g with r := r', chain := ch, n := g.n + k }
    | (none, _) => g
  | _, s => step p g s

theorem stepV_fixed (p : Policy) (g : GSt) (s : Step) : stepV .fixed p g s = step p g s := by
  cases s <;> rfl

/-- the mutated machine with the (unchanged) ghost beside it -/
def runTV (vr : Variant) (p : Policy) (hist : List Step) : GSt × List Expr :=
  hist.foldl (fun x s => (stepV vr p x.1 s, track p x.1 x.2 s)) (GSt.empty, [])

theorem runTV_fixed (p : Policy) (hist : List Step) : runTV .fixed p hist = runT p hist := by
  unfold runTV runT
  congr 1

/-! ## `gc` that keeps the apply cache -/

/-- `{{0}} ∪ {{1}}` is computed and cached, its handle dropped, `gc` frees the node;
`change({{0}}, 1) = {{0,1}}` reuses the slot; `{{0}} ∪ {{1}}` again hits the stale entry -/
def hGc : List Step :=
  [.addVars 10 2, .singleton 10 0, .singleton 10 1, .setop 10 .union 1 0, .drop 0, .gc,
   .subset 10 .change 1 1, .setop 10 .union 2 1]

theorem gcKeepsCache_breaks_canonical :
    (runTV .gcKeepsCache Policy.exact hGc).1.hs[0]? = (runTV .gcKeepsCache Policy.exact hGc).1.hs[1]? ∧
    (runTV .gcKeepsCache Policy.exact hGc).1.n = 2 ∧
    (runTV .gcKeepsCache Policy.exact hGc).2[0]? = some (.setop .union (.singleton 0) (.singleton 1)) ∧
    (runTV .gcKeepsCache Policy.exact hGc).2[1]? = some (.subset .change 1 (.singleton 0)) ∧
    ¬ ∀ σ : Nat → Bool, (Expr.setop .union (.singleton 0) (.singleton 1)).fam 2 σ =
        (Expr.subset .change 1 (.singleton 0)).fam 2 σ := by
  refine ⟨by decide +kernel, by decide +kernel, by decide +kernel, by decide +kernel, fun h => ?_⟩
  have := h (fun v => v == 0)
  revert this
  decide +kernel

/-- the real machine on the same history: different edges -/
example : (run Policy.exact hGc).hs[0]? ≠ (run Policy.exact hGc).hs[1]? := by decide +kernel

/-! ## `add_vars` that frees the old chain -/

/-- one variable; `{∅} ∪ {{0}}` was computed — it is the chain node `#0` — and dropped again: the
apply cache still maps `(Union, [Base, #1])` to `#0`; the unguarded `add_vars` frees `#0` and the
new chain reuses the slot for its level-1 node `{∅, {1}}`; the union again hits the stale entry -/
def hAv : List Step :=
  [.addVars 10 1, .singleton 10 0, .const true, .setop 10 .union 0 1, .drop 0,
   .addVars 10 1, .setop 10 .union 0 1, .singleton 10 1, .setop 10 .union 2 0]

theorem addVarsFreesChain_breaks_canonical :
    (runTV .addVarsFreesChain Policy.exact hAv).1.hs[0]? =
      (runTV .addVarsFreesChain Policy.exact hAv).1.hs[2]? ∧
    (runTV .addVarsFreesChain Policy.exact hAv).1.n = 2 ∧
    (runTV .addVarsFreesChain Policy.exact hAv).2[0]? = some (.setop .union .base (.singleton 1)) ∧
    (runTV .addVarsFreesChain Policy.exact hAv).2[2]? = some (.setop .union .base (.singleton 0)) ∧
    ¬ ∀ σ : Nat → Bool, (Expr.setop .union .base (.singleton 1)).fam 2 σ =
        (Expr.setop .union .base (.singleton 0)).fam 2 σ := by
  refine ⟨by decide +kernel, by decide +kernel, by decide +kernel, by decide +kernel, fun h => ?_⟩
  have := h (fun v => v == 0)
  revert this
  decide +kernel

example : (run Policy.exact hAv).hs[0]? ≠ (run Policy.exact hAv).hs[2]? := by decide +kernel

/-! ## the recorded number of variables is needed -/

/-- `var 0` before and after `add_vars 1`: different edges, and — read with the `n` of their
creation — different families (`{0, 2}` is a member of the second only); had the ghost recorded
`var 0` without its `n`, the two expressions would be equal and `global_canonical` false -/
theorem var_needs_window :
    (run Policy.exact [.addVars 10 2, .var 10 0, .addVars 10 1, .var 10 0]).hs =
      [.inner 6, .inner 2] ∧
    (runT Policy.exact [.addVars 10 2, .var 10 0, .addVars 10 1, .var 10 0]).2 =
      [.var 3 0, .var 2 0] ∧
    (Expr.var 3 0).fam 3 (fun v => v == 0 || v == 2) = true ∧
    (Expr.var 2 0).fam 3 (fun v => v == 0 || v == 2) = false := by
  refine ⟨by decide +kernel, by decide +kernel, by decide +kernel, by decide +kernel⟩

end OxiddModel.Zbdd.Global
