import OxiddModel.Zbdd.GlobalSInv

/-!
# Every step of the global ZBDD machine keeps the invariant and the meaning of every handle

`step_inv`: for every admissible cache policy, every state satisfying `GInv` whose handles denote
the families of the ghost expressions (`Sem`), and every step (of any kind, succeeding or failing),
the next state satisfies `GInv` and `Sem` for the ghost's next list.

* counters, orderedness, chain levels and closure come from the history machine of
  `RcSHistory.lean` through `step_toH` (`Cmd.run_rc`, `Cmd.run_ord`);
* hash consing, zero suppression, cache soundness after every run (also a failing one) from
  `GlobalSGood.lean`;
* the meaning of a successful result from erasure (`setOpR_erase'`, `subsetR_erase'`) and the
  store-level specifications (`setOpS_spec`, `subsetS_spec`), and the tree-level semantics of
  `Properties.lean`;
* `gc` from `gcR_sound`; `add_vars` from `addVarsR_erase` + `rebuildChain_*` + `CacheOK.addVars`;
  the empty `reorder` from `tearDownR_rc/sub` + `buildChainR_erase` + `den_of_sub` (a handle's nodes
  survive the removal of unreferenced chain nodes).
-/
namespace OxiddModel.Zbdd.Global
open OxiddModel.Zbdd OxiddModel.Zbdd.ZDD OxiddModel.Zbdd.Refine OxiddModel.Zbdd.Rc
open OxiddModel.Bdd.Refine (Policy OpTag Key Cache)

/-! ## counters and orderedness: through the history machine -/

theorem step_hinv {p : Policy} (pok : p.OK) {g : GSt} (hi : GInv g) (s : Step) :
    HInv (step p g s).toH ∧ HOrd (step p g s).toH := by
  by_cases hd : ∃ a, s = .drop a
  · obtain ⟨a, rfl⟩ := hd
    simp only [step]
    cases ha : g.hs[a]? with
    | none => exact ⟨hi.hinv, hi.hord⟩
    | some f =>
      refine ⟨?_, hi.hord.of_st (dropEdge_st _ _) rfl rfl⟩
      show RcInv (dropEdge g.r f) (g.chain ++ g.hs.eraseIdx a)
      refine dropEdge_rc (RcInv.congr hi.rc (fun e => ?_))
      have := count_cons_eraseIdx ha e
      simp only [List.count_append, List.count_cons] at this ⊢
      omega
  · by_cases hk : ∃ cap k, s = .addVars cap k ∧ ¬ g.n + k ≤ maxLevel
    · obtain ⟨cap, k, rfl, hk⟩ := hk
      simp only [step, addVars, hk, if_false]
      exact ⟨hi.hinv, hi.hord⟩
    · have h1 : ∀ a, s ≠ .drop a := fun a h => hd ⟨a, h⟩
      have h2 : ∀ cap k, s = .addVars cap k → g.n + k ≤ maxLevel := fun cap k h =>
        Classical.byContradiction (fun hn => hk ⟨cap, k, h, hn⟩)
      rw [step_toH p g s h1 h2]
      exact ⟨Cmd.run_rc pok _ _ hi.hinv, Cmd.run_ord pok _ _ hi.hinv hi.hord⟩

/-! ## operations producing a handle -/

/-- what an operation started in `g` guarantees about its result `res` w.r.t. the expression `e` -/
structure OpPost (g : GSt) (res : Option ZEdge × RSt) (e : Expr) : Prop where
  good : Good (envOf g.n) g.r res
  den : ∀ x, res.1 = some x → HDen res.2.st.store g.n x e

/-- the ghost's reaction to a finished operation -/
def pushE (es : List Expr) (e : Expr) : Option (Option ZEdge × RSt) → List Expr
  | some (some _, _) => e :: es
  | _ => es

theorem pushOp_inv {g : GSt} {es : List Expr} {res : Option ZEdge × RSt} {e : Expr} (hi : GInv g)
    (hs : Sem g es) (hp : OpPost g res e)
    (hh : HInv (pushOp g (some res)).toH ∧ HOrd (pushOp g (some res)).toH) :
    GInv (pushOp g (some res)) ∧ Sem (pushOp g (some res)) (pushE es e (some res)) := by
  obtain ⟨o, r'⟩ := res
  obtain ⟨⟨hu, hc⟩, hle, hnr⟩ := hp.good
  have hmono : All2 (HDen r'.st.store g.n) g.hs es :=
    forall₂_imp_mem hs (fun x y _ h => h.mono hle)
  cases o with
  | none =>
    exact ⟨⟨hh.1, hh.2.ord, hh.2.lv, hh.2.closed, hu, hnr hi.nored, hc, hi.chain.mono hle, hi.nmax⟩,
      hmono⟩
  | some x =>
    exact ⟨⟨hh.1, hh.2.ord, hh.2.lv, hh.2.closed, hu, hnr hi.nored, hc, hi.chain.mono hle, hi.nmax⟩,
      .cons (hp.den x rfl) hmono⟩

theorem const_post {g : GSt} (hi : GInv g) (b : Bool) :
    OpPost g (some (if b then .base else .empty), g.r) (if b then .base else .empty) := by
  refine ⟨GoodS.same hi.inv rfl rfl, fun x hx => ?_⟩
  cases hx
  cases b
  · exact ⟨trivial, .empty, .empty, fun _ => rfl⟩
  · exact ⟨trivial, .base, .base, fun _ => rfl⟩

theorem taut_post {g : GSt} (hi : GInv g) : OpPost g (tR g.chain g.r) (.taut g.n) := by
  refine ⟨GoodS.same hi.inv (by simp [tR]) (by simp [tR]), fun x hx => ?_⟩
  cases hx
  refine ⟨Nat.le_refl _, taut g.n 0, ?_, fun σ => ?_⟩
  · show DenotesZ (cloneEdge g.r _).st.store _ _
    rw [cloneEdge_st]; exact tautologyS_denotes hi.chain 0
  · show eval g.n σ 0 (taut g.n 0) = allFalse σ g.n g.n
    rw [taut_eval, allFalse_self]

theorem var_post {g : GSt} (hi : GInv g) (cap v : Nat) (hv : v < g.n) :
    OpPost g (varR cap g.chain g.r v) (.var g.n v) := by
  obtain ⟨G, D⟩ := varR_sem (env := envOf g.n) cap g.chain g.r g.n v hi.inv hi.chain
  refine ⟨G, fun x hx => ⟨⟨hv, Nat.le_refl _⟩, _, D x hx, fun σ => ?_⟩⟩
  show eval g.n σ 0 (Zbdd.var g.n v) = (σ v && allFalse σ g.n g.n)
  rw [var_eval, allFalse_self, Bool.and_true]

theorem singleton_post {g : GSt} (hi : GInv g) (cap v : Nat) (hv : v < g.n) :
    OpPost g (singletonR cap g.r v) (.singleton v) := by
  obtain ⟨G, D⟩ := singletonR_sem (env := envOf g.n) cap g.r v hi.inv
  exact ⟨G, fun x hx => ⟨hv, _, D x hx, fun σ => singleton_eval g.n v σ⟩⟩

theorem setOp_fam (n : Nat) (op : SetOp) (a b : ZDD) (ha : Ordered n 0 a) (hb : Ordered n 0 b)
    (σ : Nat → Bool) : fam n (setOp op a b) σ = setSem op (fam n a σ) (fam n b σ) := by
  cases op
  · exact union_eval a b n 0 σ ha hb
  · exact intsec_eval a b n 0 σ ha hb
  · exact diff_eval a b n 0 σ ha hb
  · exact symmDiff_eval a b n 0 σ ha hb

theorem setop_post {p : Policy} (pok : p.OK) {g : GSt} (hi : GInv g) (cap : Nat) (op : SetOp)
    {f h : ZEdge} {ef eh : Expr} (hdf : HDen g.r.st.store g.n f ef)
    (hdh : HDen g.r.st.store g.n h eh) :
    OpPost g (setOpR cap p op (fuelOf g.n) g.r f h) (.setop op ef eh) := by
  obtain ⟨wf, tf, hdf, hef⟩ := hdf
  obtain ⟨wh, th, hdh, heh⟩ := hdh
  have hfu := fuel2 hi hdf hdh
  refine ⟨setOpR_good pok _ cap op _ g.r f h tf th hi.inv hdf hdh hfu, fun x hx => ?_⟩
  have he := setOpR_erase' cap p op (fuelOf g.n) g.r f h x hx
  have P := setOpS_spec pok (envOf g.n) op (fuelOf g.n) g.r.st f h tf th hi.inv hdf hdh hfu
  rw [he] at P
  refine ⟨⟨wf, wh⟩, _, P.den, fun σ => ?_⟩
  rw [setOp_fam g.n op tf th (hi.nf hdf).1 (hi.nf hdh).1 σ, hef σ, heh σ]
  rfl

theorem not_post {p : Policy} (pok : p.OK) {g : GSt} (hi : GInv g) (cap : Nat)
    {f : ZEdge} {ef : Expr} (hdf : HDen g.r.st.store g.n f ef) :
    OpPost g (notR cap p g.chain (fuelOf g.n) g.r f) (.not g.n ef) := by
  obtain ⟨wf, tf, hdf, hef⟩ := hdf
  have hdt := tautologyS_denotes hi.chain 0
  have hfu := fuel2 hi hdt hdf
  unfold notR
  refine ⟨setOpR_good pok _ cap .diff _ g.r _ f _ tf hi.inv hdt hdf hfu, fun x hx => ?_⟩
  have he := setOpR_erase' cap p .diff (fuelOf g.n) g.r _ f x hx
  have P := setOpS_spec pok (envOf g.n) .diff (fuelOf g.n) g.r.st _ f _ tf hi.inv hdt hdf hfu
  rw [he] at P
  refine ⟨⟨Nat.le_refl _, wf⟩, _, P.den, fun σ => ?_⟩
  show eval g.n σ 0 (applyNot g.n tf) = (allFalse σ g.n g.n && !ef.fam g.n σ)
  rw [applyNot_eval g.n tf σ (hi.nf hdf).1, allFalse_self, Bool.true_and, ← hef σ]
  rfl

theorem subset_fam (n : Nat) (op : SubsetOp) (v : Nat) (a : ZDD) (ha : Ordered n 0 a) (hv : v < n)
    (e : Expr) (he : ∀ σ, fam n a σ = e.fam n σ) (σ : Nat → Bool) :
    fam n (subset op v a) σ = (Expr.subset op v e).fam n σ := by
  cases op
  · rw [subset0_sem n v a σ ha hv, he]; rfl
  · rw [subset1_sem n v a σ ha hv, he]; rfl
  · rw [change_sem n v a σ ha hv, he]; rfl

theorem subset_post {p : Policy} (pok : p.OK) {g : GSt} (hi : GInv g) (cap : Nat) (op : SubsetOp)
    (v : Nat) (hv : v < g.n) {f : ZEdge} {ef : Expr} (hdf : HDen g.r.st.store g.n f ef) :
    OpPost g (subsetR cap p op v v (fuelOf g.n) g.r f) (.subset op v ef) := by
  obtain ⟨wf, tf, hdf, hef⟩ := hdf
  have hfu := fuel1 hi hdf
  refine ⟨subsetR_good pok (envOf g.n) cap op v _ g.r f tf hi.inv hdf hfu, fun x hx => ?_⟩
  have he := subsetR_erase' cap p op v v (fuelOf g.n) g.r f x hx
  have P := subsetS_spec pok (envOf g.n) op v (fuelOf g.n) g.r.st f tf hi.inv hdf hfu
  have P' : Post (envOf g.n) g.r.st.store (subset op v tf) (subsetS p op v v (fuelOf g.n) g.r.st f) := P
  rw [he] at P'
  exact ⟨⟨hv, wf⟩, _, P'.den, subset_fam g.n op v tf (hi.nf hdf).1 hv ef hef⟩

/-! ## `gc` -/

theorem chain_getD_mem {n : Nat} {s : Store} {chain : List ZEdge} (h : ChainOK n s chain) {l : Nat}
    (hl : l ≤ n) : chain.getD l .base ∈ chain := by
  have hlt : l < chain.length := by rw [h.1]; omega
  rw [List.getD_eq_getElem?_getD, List.getElem?_eq_getElem hlt, Option.getD_some]
  exact List.getElem_mem _

theorem gc_inv {p : Policy} (pok : p.OK) {g : GSt} {es : List Expr} (hi : GInv g) (hs : Sem g es) :
    GInv (step p g .gc) ∧ Sem (step p g .gc) es := by
  obtain ⟨hh1, hh2⟩ := step_hinv pok hi .gc
  obtain ⟨_, h2, h3, _, h5⟩ := C05R.gcR_sound g.n g.r _ hi.rc
  refine ⟨⟨hh1, hh2.ord, hh2.lv, hh2.closed, ?_, ?_, ?_, ?_, hi.nmax⟩, ?_⟩
  · intro i j nd a b; exact hi.uniq i j nd (h3 i nd a) (h3 j nd b)
  · intro i nd a; exact hi.nored i nd (h3 i nd a)
  · show CacheOK _ _ (gcR g.n g.r).st.cache
    rw [h2]; exact CacheOK.nil _ _
  · refine ⟨hi.chain.1, fun l hl => ?_⟩
    exact h5 _ _ (List.mem_append_left _ (chain_getD_mem hi.chain hl)) (hi.chain.2 l hl)
  · refine forall₂_imp_mem hs (fun x e hx hd => ?_)
    obtain ⟨hw, t, hd, he⟩ := hd
    exact ⟨hw, t, h5 x t (List.mem_append_right _ hx) hd, he⟩

/-! ## `add_vars` -/

theorem addVars_inv {p : Policy} (pok : p.OK) {g : GSt} {es : List Expr} (hi : GInv g)
    (hs : Sem g es) (cap k : Nat) :
    GInv (step p g (.addVars cap k)) ∧ Sem (step p g (.addVars cap k)) es := by
  obtain ⟨hh1, hh2⟩ := step_hinv pok hi (.addVars cap k)
  simp only [step, addVars] at hh1 hh2 ⊢
  by_cases hk : g.n + k ≤ maxLevel
  · simp only [hk, if_true] at hh1 hh2 ⊢
    have her := fun ch => C05R.addVarsR_erase_eq cap g.n k g.chain ch g.r
    cases hR : addVarsR cap g.n k g.chain g.r with
    | mk o r' =>
      rw [hR] at hh1 hh2 her
      cases o with
      | none => exact ⟨hi, hs⟩
      | some ch =>
        obtain ⟨e1, e2⟩ := her ch rfl
        simp only at e1 e2 hh1 hh2 ⊢
        have hst : r'.st.store = (rebuildChain (g.n + k) g.r.st.store).1 := by rw [e1]
        have hch : ch = (rebuildChain (g.n + k) g.r.st.store).2 := by rw [e1]
        have hle : g.r.st.store.Le r'.st.store := by rw [hst]; exact rebuildChain_le _ _
        refine ⟨⟨hh1, hh2.ord, hh2.lv, hh2.closed, ?_, ?_, ?_, ?_, hk⟩, ?_⟩
        · show r'.st.store.Unique
          rw [hst]; exact rebuildChain_unique _ _ hi.uniq
        · show r'.st.store.NoRed
          rw [hst]; exact rebuildChain_nored _ _ hi.nored
        · show CacheOK (envOf (g.n + k)) r'.st.store r'.st.cache
          rw [e2]
          exact CacheOK.addVars (env := envOf g.n) hi.cache hle (Nat.le_add_right _ _) hk
        · show ChainOK (g.n + k) r'.st.store ch
          rw [hst, hch]; exact rebuildChain_ok _ _
        · show All2 (HDen r'.st.store (g.n + k)) g.hs es
          refine forall₂_imp_mem hs (fun x e _ hd => ?_)
          exact (hden_more k hd (fun t ht => (hi.nf ht).1)).mono hle
  · simp only [hk, if_false]; exact ⟨hi, hs⟩

/-- `add_vars` only extends the store, and the number of variables grows by `k` or (abort /
refusal) stays -/
theorem addVars_le {p : Policy} {g : GSt} (hi : GInv g) (cap k : Nat) :
    g.r.st.store.Le (step p g (.addVars cap k)).r.st.store ∧
    ((step p g (.addVars cap k)).n = g.n ∨ (step p g (.addVars cap k)).n = g.n + k) ∧
    (step p g (.addVars cap k)).hs = g.hs ∧ (step p g (.addVars cap k)).gcCount = g.gcCount := by
  simp only [step, addVars]
  by_cases hk : g.n + k ≤ maxLevel
  · simp only [hk, if_true]
    have hle := (C05R.addVarsR_rc_exact cap g.n k g.chain g.r g.hs hi.rc).1
    cases hR : addVarsR cap g.n k g.chain g.r with
    | mk o r' =>
      rw [hR] at hle
      cases o with
      | none => exact ⟨Store.Le.refl _, by simp⟩
      | some ch => exact ⟨hle, by simp⟩
  · simp only [hk, if_false]
    exact ⟨Store.Le.refl _, by simp⟩

/-! ## an empty `Manager::reorder` -/

/-- an edge that is still stored in a sub-store closed under children denotes what it denoted -/
theorem den_of_sub {s s' : Store} (hs : Sub s' s)
    (hk : ∀ i n, s'.get? i = some n → has s' n.hi ∧ has s' n.lo) :
    ∀ {x : ZEdge} {t : ZDD}, DenotesZ s x t → has s' x → DenotesZ s' x t := by
  intro x t hd
  induction hd with
  | empty => intro _; exact .empty
  | base => intro _; exact .base
  | @inner i l eh el th tl hi _ _ ihh ihl =>
    intro hx
    obtain ⟨n', hn'⟩ := hx
    have := hs i n' hn'
    rw [hi] at this; cases this
    obtain ⟨a, b⟩ := hk i _ hn'
    exact .inner hn' (ihh a) (ihl b)

theorem reorderNop_inv {p : Policy} (pok : p.OK) {g : GSt} {es : List Expr} (hi : GInv g)
    (hs : Sem g es) (cap : Nat) :
    GInv (step p g (.reorderNop cap)) ∧ Sem (step p g (.reorderNop cap)) es := by
  obtain ⟨hh1, hh2⟩ := step_hinv pok hi (.reorderNop cap)
  simp only [step, reorderNop] at hh1 hh2 ⊢
  have h0 : RcInv { g.r with st := { g.r.st with cache := [] } } (g.chain ++ g.hs) :=
    ⟨hi.rc.ext_ok, hi.rc.kids_ok, fun _ _ hm => (by cases hm), hi.rc.rc_eq⟩
  have h1 := tearDownR_rc (prepared := true) g.chain _ g.hs h0 (fun _ => rfl)
  obtain ⟨hsub, _⟩ := tearDownR_sub (prepared := true) g.chain
    { g.r with st := { g.r.st with cache := [] } }
  have hc0 := (reorderNopR_rc (cap := cap) (n := g.n) hi.rc).1
  have her := buildChainR_erase cap g.n g.n
    (tearDownR (tryRemoveNodeR true) g.chain { g.r with st := { g.r.st with cache := [] } })
  have hdef : reorderNopR cap g.n g.chain g.r = buildChainR cap g.n g.n
    (tearDownR (tryRemoveNodeR true) g.chain { g.r with st := { g.r.st with cache := [] } }) := rfl
  rw [← hdef] at her
  cases hR : reorderNopR cap g.n g.chain g.r with
  | mk o r' =>
    rw [hR] at hh1 hh2 hc0 her
    cases o with
    | none => exact ⟨hi, hs⟩
    | some ch =>
      have e1 := her ch rfl
      simp only at e1 hh1 hh2 hc0 ⊢
      have e1' : rebuildChain g.n (tearDownR (tryRemoveNodeR true) g.chain
          { g.r with st := { g.r.st with cache := [] } }).st.store = (r'.st.store, ch) := e1
      have hst : r'.st.store = (rebuildChain g.n (tearDownR (tryRemoveNodeR true) g.chain
          { g.r with st := { g.r.st with cache := [] } }).st.store).1 := by rw [e1']
      have hch : ch = (rebuildChain g.n (tearDownR (tryRemoveNodeR true) g.chain
          { g.r with st := { g.r.st with cache := [] } }).st.store).2 := by rw [e1']
      have hu : (tearDownR (tryRemoveNodeR true) g.chain
          { g.r with st := { g.r.st with cache := [] } }).st.store.Unique :=
        fun i j nd a b => hi.uniq i j nd (hsub i nd a) (hsub j nd b)
      have hn : (tearDownR (tryRemoveNodeR true) g.chain
          { g.r with st := { g.r.st with cache := [] } }).st.store.NoRed :=
        fun i nd a => hi.nored i nd (hsub i nd a)
      refine ⟨⟨hh1, hh2.ord, hh2.lv, hh2.closed, ?_, ?_, ?_, ?_, hi.nmax⟩, ?_⟩
      · show r'.st.store.Unique
        rw [hst]; exact rebuildChain_unique _ _ hu
      · show r'.st.store.NoRed
        rw [hst]; exact rebuildChain_nored _ _ hn
      · show CacheOK _ r'.st.store r'.st.cache
        rw [hc0]; exact CacheOK.nil _ _
      · show ChainOK g.n r'.st.store ch
        rw [hst, hch]; exact rebuildChain_ok _ _
      · show All2 (HDen r'.st.store g.n) g.hs es
        refine forall₂_imp_mem hs (fun x e hx hd => ?_)
        obtain ⟨hw, t, hd, he⟩ := hd
        refine ⟨hw, t, ?_, he⟩
        rw [hst]
        exact (den_of_sub hsub h1.kids_ok hd (h1.ext_ok x hx)).mono (rebuildChain_le _ _)

/-! ## all steps -/

theorem pushOp_none (g : GSt) : pushOp g none = g := rfl

/-- **every step keeps the invariant and the meaning of every handle** -/
theorem step_inv {p : Policy} (pok : p.OK) {g : GSt} {es : List Expr} (hi : GInv g) (hs : Sem g es)
    (s : Step) : GInv (step p g s) ∧ Sem (step p g s) (track p g es s) := by
  have hh := step_hinv pok hi s
  cases s with
  | const b =>
    simp only [step, track, opRes] at hh ⊢
    exact pushOp_inv hi hs (const_post hi b) hh
  | taut =>
    simp only [step, track, opRes] at hh ⊢
    have := pushOp_inv hi hs (taut_post hi) hh
    cases hR : tR g.chain g.r with
    | mk o r' => rw [hR] at this; cases o <;> exact this
  | var cap v =>
    simp only [step, track, opRes] at hh ⊢
    by_cases hv : v < g.n
    · simp only [hv, if_true] at hh ⊢
      have := pushOp_inv hi hs (var_post hi cap v hv) hh
      cases hR : varR cap g.chain g.r v with
      | mk o r' => rw [hR] at this; cases o <;> exact this
    · simp only [hv, if_false]; exact ⟨hi, hs⟩
  | singleton cap v =>
    simp only [step, track, opRes] at hh ⊢
    by_cases hv : v < g.n
    · simp only [hv, if_true] at hh ⊢
      have := pushOp_inv hi hs (singleton_post hi cap v hv) hh
      cases hR : singletonR cap g.r v with
      | mk o r' => rw [hR] at this; cases o <;> exact this
    · simp only [hv, if_false]; exact ⟨hi, hs⟩
  | setop cap op a b =>
    simp only [step, track, opRes] at hh ⊢
    cases ha : g.hs[a]? with
    | none => exact ⟨hi, hs⟩
    | some f =>
      cases hb : g.hs[b]? with
      | none => exact ⟨hi, hs⟩
      | some h =>
        rw [ha, hb] at hh
        simp only at hh ⊢
        have := pushOp_inv hi hs (setop_post pok hi cap op (forall₂_getD hs ha) (forall₂_getD hs hb)) hh
        cases hR : setOpR cap p op (fuelOf g.n) g.r f h with
        | mk o r' => rw [hR] at this; cases o <;> exact this
  | not cap a =>
    simp only [step, track, opRes] at hh ⊢
    cases ha : g.hs[a]? with
    | none => exact ⟨hi, hs⟩
    | some f =>
      rw [ha] at hh
      simp only at hh ⊢
      have := pushOp_inv hi hs (not_post pok hi cap (forall₂_getD hs ha)) hh
      cases hR : notR cap p g.chain (fuelOf g.n) g.r f with
      | mk o r' => rw [hR] at this; cases o <;> exact this
  | subset cap op v a =>
    simp only [step, track, opRes] at hh ⊢
    cases ha : g.hs[a]? with
    | none => exact ⟨hi, hs⟩
    | some f =>
      rw [ha] at hh
      simp only at hh ⊢
      by_cases hv : v < g.n
      · simp only [hv, if_true] at hh ⊢
        have := pushOp_inv hi hs (subset_post pok hi cap op v hv (forall₂_getD hs ha)) hh
        cases hR : subsetR cap p op v v (fuelOf g.n) g.r f with
        | mk o r' => rw [hR] at this; cases o <;> exact this
      · simp only [hv, if_false]; exact ⟨hi, hs⟩
  | clone a =>
    simp only [step, track] at hh ⊢
    cases ha : g.hs[a]? with
    | none =>
      have : ¬ a < g.hs.length := fun h => by simp [List.getElem?_eq_getElem h] at ha
      simp only [this, if_false]; exact ⟨hi, hs⟩
    | some f =>
      have hlt : a < g.hs.length := by
        apply Classical.byContradiction; intro h
        rw [List.getElem?_eq_none (Nat.le_of_not_lt h)] at ha; cases ha
      rw [ha] at hh
      simp only [hlt, if_true] at hh ⊢
      refine ⟨⟨hh.1, hh.2.ord, hh.2.lv, hh.2.closed, ?_, ?_, ?_, ?_, hi.nmax⟩, ?_⟩
      · show (cloneEdge g.r f).st.store.Unique; rw [cloneEdge_st]; exact hi.uniq
      · show (cloneEdge g.r f).st.store.NoRed; rw [cloneEdge_st]; exact hi.nored
      · show CacheOK _ (cloneEdge g.r f).st.store (cloneEdge g.r f).st.cache
        rw [cloneEdge_st]; exact hi.cache
      · show ChainOK _ (cloneEdge g.r f).st.store _
        rw [cloneEdge_st]; exact hi.chain
      · show All2 (HDen (cloneEdge g.r f).st.store g.n) (f :: g.hs) _
        rw [cloneEdge_st]
        exact .cons (forall₂_getD hs ha) hs
  | drop a =>
    simp only [step, track] at hh ⊢
    cases ha : g.hs[a]? with
    | none =>
      have hge : g.hs.length ≤ a := by
        apply Classical.byContradiction; intro h
        simp [List.getElem?_eq_getElem (Nat.lt_of_not_le h)] at ha
      have : es.eraseIdx a = es := List.eraseIdx_of_length_le (by rw [forall₂_length hs]; exact hge)
      rw [this]; exact ⟨hi, hs⟩
    | some f =>
      rw [ha] at hh
      simp only at hh ⊢
      refine ⟨⟨hh.1, hh.2.ord, hh.2.lv, hh.2.closed, ?_, ?_, ?_, ?_, hi.nmax⟩, ?_⟩
      · show (dropEdge g.r f).st.store.Unique; rw [dropEdge_st]; exact hi.uniq
      · show (dropEdge g.r f).st.store.NoRed; rw [dropEdge_st]; exact hi.nored
      · show CacheOK _ (dropEdge g.r f).st.store (dropEdge g.r f).st.cache
        rw [dropEdge_st]; exact hi.cache
      · show ChainOK _ (dropEdge g.r f).st.store _
        rw [dropEdge_st]; exact hi.chain
      · show All2 (HDen (dropEdge g.r f).st.store g.n) (g.hs.eraseIdx a) _
        rw [dropEdge_st]
        exact forall₂_eraseIdx hs a
  | gc => exact gc_inv pok hi hs
  | addVars cap k => exact addVars_inv pok hi hs cap k
  | reorderNop cap => exact reorderNop_inv pok hi hs cap

end OxiddModel.Zbdd.Global
