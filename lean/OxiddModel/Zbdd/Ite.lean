import OxiddModel.Zbdd.Subset

/-! `apply_not`, `apply_ite` and the eight Boolean connectives: pointwise semantics (relative to
the number of levels `n`) and normal-form preservation, for all operand tuples. -/
namespace OxiddModel.Zbdd
open ZDD

/-! ## `Node::level()` of ordered diagrams -/

theorem level_terminal {t : ZDD} (h : ∀ l a b, t = .node l a b → False) : t.level = maxLevel := by
  cases t with
  | node l a b => exact (h l a b rfl).elim
  | _ => rfl

theorem ZDD.Ordered.level_le {n k : Nat} {t : ZDD} (ht : Ordered n k t) (hn : n ≤ maxLevel) :
    t.level ≤ maxLevel := by
  cases ht with
  | node _ h2 _ _ => simp only [level]; omega
  | _ => exact Nat.le_refl _

/-- an ordered diagram whose level number is not `LevelNo::MAX` is an inner node -/
theorem ZDD.Ordered.eq_node {n k : Nat} {t : ZDD} (ht : Ordered n k t) (h : t.level ≠ maxLevel) :
    t = .node t.level t.hi t.lo ∧ k ≤ t.level ∧ t.level < n ∧
      Ordered n (t.level+1) t.hi ∧ Ordered n (t.level+1) t.lo := by
  cases ht with
  | node h1 h2 h3 h4 => exact ⟨rfl, h1, h2, h3, h4⟩
  | empty => exact absurd rfl h
  | base => exact absurd rfl h

/-- an ordered diagram may be read from any level up to its root level -/
theorem ZDD.Ordered.raise {n k m : Nat} {t : ZDD} (ht : Ordered n k t) (h : m ≤ t.level) : Ordered n m t := by
  cases ht with
  | node h1 h2 h3 h4 => exact .node h h2 h3 h4
  | empty => exact .empty
  | base => exact .base

theorem ZDD.Ordered.lo_raise {n k m : Nat} {t : ZDD} (ht : Ordered n k t) (h : m ≤ t.level + 1) :
    Ordered n m t.lo := by
  cases ht with
  | node h1 h2 h3 h4 => exact h4.mono h
  | empty => exact .empty
  | base => exact .base

theorem ZDD.Ordered.hi_raise {n k m : Nat} {t : ZDD} (ht : Ordered n k t) (h : m ≤ t.level + 1) :
    Ordered n m t.hi := by
  cases ht with
  | node h1 h2 h3 h4 => exact h3.mono h
  | empty => exact .empty
  | base => exact .base

theorem reduced_hi {t : ZDD} (h : Reduced t) : Reduced t.hi := by
  cases t with
  | node l a b => exact h.2.1
  | _ => exact h

theorem reduced_lo {t : ZDD} (h : Reduced t) : Reduced t.lo := by
  cases t with
  | node l a b => exact h.2.2
  | _ => exact h

/-- reading an inner node at its own level -/
theorem eval_at {n k : Nat} {t : ZDD} (σ : Nat → Bool) (ht : Ordered n k t) (h : t.level ≠ maxLevel) :
    eval n σ k t = (allFalse σ k t.level &&
      (if σ t.level then eval n σ (t.level+1) t.hi else eval n σ (t.level+1) t.lo)) := by
  cases ht with
  | node h1 h2 h3 h4 => rfl
  | empty => exact absurd rfl h
  | base => exact absurd rfl h

/-- reading a diagram whose root is strictly below level `L` -/
theorem eval_under {n k L : Nat} {t : ZDD} (σ : Nat → Bool) (ht : Ordered n k t) (hk : k ≤ L) (hL : L < n)
    (h : L < t.level) : eval n σ k t = (allFalse σ k L && !σ L && eval n σ (L+1) t) :=
  eval_below σ (ht.raise h) hk hL

/-! ## not -/

theorem applyNot_nf (n : Nat) (f : ZDD) (hf : NF n 0 f) : NF n 0 (applyNot n f) :=
  ⟨diff_ordered _ _ _ _ (taut_ordered n 0) hf.1, diff_reduced _ _ (taut_reduced n 0) hf.2⟩

theorem applyNot_eval (n : Nat) (f : ZDD) (σ : Nat → Bool) (hf : Ordered n 0 f) :
    eval n σ 0 (applyNot n f) = !eval n σ 0 f := by
  unfold applyNot
  rw [diff_eval _ _ _ _ σ (taut_ordered n 0) hf, taut_eval]; simp

/-! ## ite -/

theorem applyIte_reduced (n : Nat) (f g h : ZDD) (hf : Reduced f) (hg : Reduced g) (hh : Reduced h) :
    Reduced (applyIte n f g h) := by
  fun_induction applyIte n f g h
  all_goals first
    | assumption
    | trivial
    | exact union_reduced _ _ (by assumption) (by assumption)
    | exact intsec_reduced _ _ (by assumption) (by assumption)
    | exact diff_reduced _ _ (by assumption) (by assumption)
    | skip
  case case9 => rename_i ih; exact ih hf hg.2.2 hh
  case case11 =>
    rename_i ih
    simp only [dite_eq_ite] at ih
    exact mk_reduced hh.2.1 (ih hf (by split; exact reduced_lo hg; exact hg) hh.2.2)
  case case13 => rename_i ih; exact ih hf.2.2 hg hh
  case case15 =>
    rename_i ih
    exact mk_reduced (intsec_reduced _ _ hf.2.1 (reduced_hi hg)) (ih hf.2.2 (reduced_lo hg) hh)
  case case16 =>
    rename_i ih
    exact mk_reduced (diff_reduced _ _ (reduced_hi hh) hf.2.1) (ih hf.2.2 hg (reduced_lo hh))
  case case17 =>
    rename_i ih1 ih2
    exact mk_reduced (ih1 hf.2.1 (reduced_hi hg) (reduced_hi hh)) (ih2 hf.2.2 (reduced_lo hg) (reduced_lo hh))

/-- every level number of an ordered diagram is either a level of the manager or `LevelNo::MAX` -/
theorem ZDD.Ordered.level_cases {n k : Nat} {t : ZDD} (ht : Ordered n k t) :
    (k ≤ t.level ∧ t.level < n) ∨ (t.level = maxLevel ∧ (t = .empty ∨ t = .base)) := by
  cases ht with
  | node h1 h2 _ _ => exact .inl ⟨h1, h2⟩
  | empty => exact .inr ⟨rfl, .inl rfl⟩
  | base => exact .inr ⟨rfl, .inr rfl⟩

/-- the expansion level of `apply_ite` (after the terminal cases) is a level of the manager -/
theorem ite_level_bounds {n k : Nat} {f g h : ZDD} (hn : n ≤ maxLevel)
    (hf : Ordered n k f) (hg : Ordered n k g) (hh : Ordered n k h)
    (hgh : g ≠ h) (hge : g ≠ .empty) (hhe : h ≠ .empty) :
    k ≤ min f.level (min g.level h.level) ∧ min f.level (min g.level h.level) < n := by
  rcases hf.level_cases with ⟨f1, f2⟩ | ⟨f1, _⟩ <;>
  rcases hg.level_cases with ⟨g1, g2⟩ | ⟨g1, g3⟩ <;>
  rcases hh.level_cases with ⟨h1, h2⟩ | ⟨h1, h3⟩
  all_goals try (constructor <;> omega)
  all_goals
    exfalso
    rcases g3 with rfl | rfl
    · exact hge rfl
    · rcases h3 with rfl | rfl
      · exact hhe rfl
      · exact hgh rfl

/-- case split on two Boolean atoms, then `simp` -/
local macro "bool_bash " a:term ", " s:term : tactic =>
  `(tactic| (rcases Bool.eq_false_or_eq_true $a with hA | hA <;>
      rcases Bool.eq_false_or_eq_true $s with hs | hs <;> simp [hA, hs] <;>
      (try exact Bool.and_comm _ _)))

theorem applyIte_spec (n : Nat) (f g h : ZDD) (k : Nat) (hn : n ≤ maxLevel)
    (hf : Ordered n k f) (hg : Ordered n k g) (hh : Ordered n k h) :
    Ordered n k (applyIte n f g h) ∧
    ∀ σ, eval n σ k (applyIte n f g h) = if eval n σ k f then eval n σ k g else eval n σ k h := by
  fun_induction applyIte n f g h generalizing k
  case case1 => exact ⟨hg, fun σ => by simp⟩
  case case2 => exact ⟨union_ordered _ _ _ _ hf hh, fun σ => by
    rw [union_eval _ _ _ _ σ hf hh]; cases eval n σ k _ <;> simp⟩
  case case3 => exact ⟨intsec_ordered _ _ _ _ hf hg, fun σ => by
    rw [intsec_eval _ _ _ _ σ hf hg]; cases eval n σ k _ <;> simp⟩
  case case4 => exact ⟨hh, fun σ => by simp [eval]⟩
  case case5 => exact ⟨diff_ordered _ _ _ _ hh hf, fun σ => by
    rw [diff_eval _ _ _ _ σ hh hf]; cases eval n σ k _ <;> simp [eval]⟩
  case case6 => exact ⟨intsec_ordered _ _ _ _ hf hg, fun σ => by
    rw [intsec_eval _ _ _ _ σ hf hg]; cases eval n σ k _ <;> simp [eval]⟩
  case case7 f g h hgh _ _ _ hge hhe flevel glevel hlevel ghlevel level tautology heq =>
    obtain ⟨hk, hL⟩ := ite_level_bounds hn hf hg hh hgh hge hhe
    refine ⟨hg, fun σ => ?_⟩
    have e : level = min f.level (min g.level h.level) := rfl
    rw [eval_shift σ (hg.raise (m := level) (by omega)) (by omega) (by omega),
      eval_shift σ (hh.raise (m := level) (by omega)) (by omega) (by omega), heq,
      taut_eval_from σ (by omega) (by omega)]
    cases allFalse σ k level <;> simp
  case case8 f g h hgh _ _ _ hge hhe flevel glevel hlevel ghlevel level tautology _ heq =>
    obtain ⟨hk, hL⟩ := ite_level_bounds hn hf hg hh hgh hge hhe
    refine ⟨union_ordered _ _ _ _ hf hh, fun σ => ?_⟩
    have e : level = min f.level (min g.level h.level) := rfl
    rw [union_eval _ _ _ _ σ hf hh, eval_shift σ (hf.raise (m := level) (by omega)) (by omega) (by omega),
      eval_shift σ (hh.raise (m := level) (by omega)) (by omega) (by omega), heq,
      taut_eval_from σ (by omega) (by omega)]
    cases allFalse σ k level <;> cases eval n σ level f <;> simp
  case case9 f h hfh hfe hhe flevel hlevel a ghi glo hgh hfg hge glevel ghlevel level tautology hft hgt hgt1 hlt ih =>
    have e1 : flevel = f.level := rfl
    have e2 : hlevel = h.level := rfl
    have e3 : glevel = a := rfl
    have e4 : ghlevel = min glevel hlevel := rfl
    cases hg with | node b1 b2 bh bl =>
    have of : Ordered n (a+1) f := hf.raise (by omega)
    have oh : Ordered n (a+1) h := hh.raise (by omega)
    obtain ⟨o, e⟩ := ih (a+1) of bl oh
    refine ⟨o.mono (by omega), fun σ => ?_⟩
    rw [eval_shift σ o (by omega : k ≤ a+1) (by omega), e σ, allFalse_succ σ b1,
      eval_below σ of b1 b2, eval_below σ oh b1 b2]
    simp only [eval]
    bool_bash (allFalse σ k a), (σ a)
  case case10 f g h _ _ _ _ _ _ flevel glevel hlevel ghlevel level tautology _ _ hgt1 hlt hnn =>
    exfalso
    have e2 : hlevel = h.level := rfl
    have e3 : glevel = g.level := rfl
    have := level_terminal hnn
    have := hh.level_le hn
    omega
  case case11 f g hfg hfe hge flevel glevel a hhi hlo hgh hfh hhe hlevel ghlevel level tautology hft hgt hgt1 hnlt ih =>
    have e1 : flevel = f.level := rfl
    have e2 : hlevel = a := rfl
    have e3 : glevel = g.level := rfl
    have e4 : ghlevel = min glevel hlevel := rfl
    have e5 : level = min flevel ghlevel := rfl
    have eL : level = a := by omega
    cases hh with | node b1 b2 bh bl =>
    have of : Ordered n (a+1) f := hf.raise (by omega)
    simp only [dite_eq_ite] at ih
    have og : Ordered n (a+1) (if glevel = hlevel then g.lo else g) := by
      split
      · exact hg.lo_raise (by omega)
      · exact hg.raise (by omega)
    obtain ⟨o, e⟩ := ih (a+1) of og bl
    rw [eL]
    refine ⟨mk_ordered b1 b2 bh o, fun σ => ?_⟩
    rw [mk_eval σ _ _ b1 b2 o, e σ, eval_below σ of b1 b2]
    by_cases hga : g.level = a
    · have hne : g.level ≠ maxLevel := by omega
      rw [eval_at σ hg hne, hga]
      simp only [eval, e3, e2, hga, if_true]
      bool_bash (allFalse σ k a), (σ a)
    · rw [eval_under σ hg b1 b2 (by omega)]
      have : ¬ glevel = hlevel := by omega
      simp only [eval, this, if_false]
      bool_bash (allFalse σ k a), (σ a)
  case case12 f g h _ _ _ _ _ _ flevel glevel hlevel ghlevel level tautology _ _ hgt1 hnlt hnn =>
    exfalso
    have e1 : flevel = f.level := rfl
    have e2 : hlevel = h.level := rfl
    have e3 : glevel = g.level := rfl
    have e4 : ghlevel = min glevel hlevel := rfl
    have := level_terminal hnn
    have := hg.level_le hn
    have := hf.level_le hn
    omega
  case case13 g h hgh hge hhe glevel hlevel ghlevel a fhi flo hfg hfh hfe flevel level tautology hft hgt hngt hlt ih =>
    have e1 : flevel = a := rfl
    have e2 : hlevel = h.level := rfl
    have e3 : glevel = g.level := rfl
    have e4 : ghlevel = min glevel hlevel := rfl
    cases hf with | node b1 b2 bh bl =>
    have og : Ordered n (a+1) g := hg.raise (by omega)
    have oh : Ordered n (a+1) h := hh.raise (by omega)
    obtain ⟨o, e⟩ := ih (a+1) bl og oh
    refine ⟨o.mono (by omega), fun σ => ?_⟩
    rw [eval_shift σ o (by omega : k ≤ a+1) (by omega), e σ, allFalse_succ σ b1,
      eval_below σ og b1 b2, eval_below σ oh b1 b2]
    simp only [eval]
    bool_bash (allFalse σ k a), (σ a)
  case case14 f g h _ _ _ _ _ _ flevel glevel hlevel ghlevel level tautology _ _ hngt hlt hnn =>
    exfalso
    have e1 : flevel = f.level := rfl
    have e2 : hlevel = h.level := rfl
    have e3 : glevel = g.level := rfl
    have e4 : ghlevel = min glevel hlevel := rfl
    have := level_terminal hnn
    have := hg.level_le hn
    have := hh.level_le hn
    omega
  case case15 g h hgh hge hhe glevel hlevel ghlevel a fhi flo hfg hfh hfe flevel level tautology hft hgt hngt hnlt hhgt ih =>
    have e1 : flevel = a := rfl
    have e2 : hlevel = h.level := rfl
    have e3 : glevel = g.level := rfl
    have e4 : ghlevel = min glevel hlevel := rfl
    have e5 : level = min flevel ghlevel := rfl
    have eL : level = a := by omega
    have hga : g.level = a := by omega
    cases hf with | node b1 b2 bh bl =>
    have hne : g.level ≠ maxLevel := by omega
    obtain ⟨_, _, _, ogh, ogl⟩ := hg.eq_node hne
    rw [hga] at ogh ogl
    have oh : Ordered n (a+1) h := hh.raise (by omega)
    obtain ⟨o, e⟩ := ih (a+1) bl ogl oh
    rw [eL]
    refine ⟨mk_ordered b1 b2 (intsec_ordered _ _ _ _ bh ogh) o, fun σ => ?_⟩
    rw [mk_eval σ _ _ b1 b2 o, e σ, intsec_eval _ _ _ _ σ bh ogh, eval_below σ oh b1 b2,
      eval_at σ hg hne, hga]
    simp only [eval]
    bool_bash (allFalse σ k a), (σ a)
  case case16 g h hgh hge hhe glevel hlevel ghlevel a fhi flo hfg hfh hfe flevel level tautology hft hgt hngt hnlt hnhgt hggt ih =>
    have e1 : flevel = a := rfl
    have e2 : hlevel = h.level := rfl
    have e3 : glevel = g.level := rfl
    have e4 : ghlevel = min glevel hlevel := rfl
    have e5 : level = min flevel ghlevel := rfl
    have eL : level = a := by omega
    have hha : h.level = a := by omega
    cases hf with | node b1 b2 bh bl =>
    have hne : h.level ≠ maxLevel := by omega
    obtain ⟨_, _, _, ohh, ohl⟩ := hh.eq_node hne
    rw [hha] at ohh ohl
    have og : Ordered n (a+1) g := hg.raise (by omega)
    obtain ⟨o, e⟩ := ih (a+1) bl og ohl
    rw [eL]
    refine ⟨mk_ordered b1 b2 (diff_ordered _ _ _ _ ohh bh) o, fun σ => ?_⟩
    rw [mk_eval σ _ _ b1 b2 o, e σ, diff_eval _ _ _ _ σ ohh bh, eval_below σ og b1 b2,
      eval_at σ hh hne, hha]
    simp only [eval]
    bool_bash (allFalse σ k a), (σ a)
  case case17 g h hgh hge hhe glevel hlevel ghlevel a fhi flo hfg hfh hfe flevel level tautology hft hgt hngt hnlt hnhgt hnggt ih1 ih2 =>
    have e1 : flevel = a := rfl
    have e2 : hlevel = h.level := rfl
    have e3 : glevel = g.level := rfl
    have e4 : ghlevel = min glevel hlevel := rfl
    have e5 : level = min flevel ghlevel := rfl
    have eL : level = a := by omega
    have hga : g.level = a := by omega
    have hha : h.level = a := by omega
    cases hf with | node b1 b2 bh bl =>
    have hneg : g.level ≠ maxLevel := by omega
    have hneh : h.level ≠ maxLevel := by omega
    obtain ⟨_, _, _, ogh, ogl⟩ := hg.eq_node hneg
    obtain ⟨_, _, _, ohh, ohl⟩ := hh.eq_node hneh
    rw [hga] at ogh ogl
    rw [hha] at ohh ohl
    obtain ⟨o1, e1'⟩ := ih1 (a+1) bh ogh ohh
    obtain ⟨o2, e2'⟩ := ih2 (a+1) bl ogl ohl
    rw [eL]
    refine ⟨mk_ordered b1 b2 o1 o2, fun σ => ?_⟩
    rw [mk_eval σ _ _ b1 b2 o2, e1' σ, e2' σ, eval_at σ hg hneg, hga, eval_at σ hh hneh, hha]
    simp only [eval]
    bool_bash (allFalse σ k a), (σ a)
  case case18 f g h hgh _ _ _ hge hhe flevel glevel hlevel ghlevel level tautology _ _ hngt hnlt hnn =>
    exfalso
    obtain ⟨hk, hL⟩ := ite_level_bounds hn hf hg hh hgh hge hhe
    have e1 : flevel = f.level := rfl
    have e2 : hlevel = h.level := rfl
    have e3 : glevel = g.level := rfl
    have e4 : ghlevel = min glevel hlevel := rfl
    have := level_terminal hnn
    omega


theorem applyIte_nf (n : Nat) (f g h : ZDD) (k : Nat) (hn : n ≤ maxLevel)
    (hf : NF n k f) (hg : NF n k g) (hh : NF n k h) : NF n k (applyIte n f g h) :=
  ⟨(applyIte_spec n f g h k hn hf.1 hg.1 hh.1).1, applyIte_reduced n f g h hf.2 hg.2 hh.2⟩

theorem applyIte_eval (n : Nat) (f g h : ZDD) (k : Nat) (σ : Nat → Bool) (hn : n ≤ maxLevel)
    (hf : Ordered n k f) (hg : Ordered n k g) (hh : Ordered n k h) :
    eval n σ k (applyIte n f g h) = if eval n σ k f then eval n σ k g else eval n σ k h :=
  (applyIte_spec n f g h k hn hf hg hh).2 σ

/-! ## the eight connectives -/

theorem applyBin_nf (n : Nat) (op : Op) (f g : ZDD) (hn : n ≤ maxLevel) (hf : NF n 0 f) (hg : NF n 0 g) :
    NF n 0 (applyBin n op f g) := by
  cases op <;> simp only [applyBin]
  · exact ⟨intsec_ordered _ _ _ _ hf.1 hg.1, intsec_reduced _ _ hf.2 hg.2⟩
  · exact ⟨union_ordered _ _ _ _ hf.1 hg.1, union_reduced _ _ hf.2 hg.2⟩
  · exact applyNot_nf n _ ⟨intsec_ordered _ _ _ _ hf.1 hg.1, intsec_reduced _ _ hf.2 hg.2⟩
  · exact applyNot_nf n _ ⟨union_ordered _ _ _ _ hf.1 hg.1, union_reduced _ _ hf.2 hg.2⟩
  · exact ⟨symmDiff_ordered _ _ _ _ hf.1 hg.1, symmDiff_reduced _ _ hf.2 hg.2⟩
  · exact applyNot_nf n _ ⟨symmDiff_ordered _ _ _ _ hf.1 hg.1, symmDiff_reduced _ _ hf.2 hg.2⟩
  · exact applyIte_nf n f g _ 0 hn hf hg (taut_nf n 0)
  · exact ⟨diff_ordered _ _ _ _ hg.1 hf.1, diff_reduced _ _ hg.2 hf.2⟩

theorem applyBin_eval (n : Nat) (op : Op) (f g : ZDD) (σ : Nat → Bool) (hn : n ≤ maxLevel)
    (hf : Ordered n 0 f) (hg : Ordered n 0 g) :
    eval n σ 0 (applyBin n op f g) = op.sem (eval n σ 0 f) (eval n σ 0 g) := by
  cases op <;> simp only [applyBin, Op.sem]
  · exact intsec_eval _ _ _ _ σ hf hg
  · exact union_eval _ _ _ _ σ hf hg
  · rw [applyNot_eval n _ σ (intsec_ordered _ _ _ _ hf hg), intsec_eval _ _ _ _ σ hf hg]
  · rw [applyNot_eval n _ σ (union_ordered _ _ _ _ hf hg), union_eval _ _ _ _ σ hf hg]
  · exact symmDiff_eval _ _ _ _ σ hf hg
  · rw [applyNot_eval n _ σ (symmDiff_ordered _ _ _ _ hf hg), symmDiff_eval _ _ _ _ σ hf hg]
    cases eval n σ 0 f <;> cases eval n σ 0 g <;> rfl
  · rw [applyIte_eval n f g _ 0 σ hn hf hg (taut_ordered n 0), taut_eval]
    cases eval n σ 0 f <;> simp
  · rw [diff_eval _ _ _ _ σ hg hf, Bool.and_comm]

/-! ## variables and constants -/

theorem dcChain_eval (n : Nat) (σ : Nat → Bool) (l : Nat) (e : ZDD) :
    eval n σ 0 (dcChain l e) = eval n σ l e := by
  induction l generalizing e with
  | zero => rfl
  | succ l ih =>
    simp only [dcChain]
    rw [ih]
    simp only [eval, allFalse_self, Bool.true_and]
    cases σ l <;> rfl

theorem dcChain_ordered (n l : Nat) (e : ZDD) (hl : l ≤ n) (he : Ordered n l e) : Ordered n 0 (dcChain l e) := by
  induction l generalizing e with
  | zero => exact he
  | succ l ih => exact ih _ (by omega) (.node (Nat.le_refl _) (by omega) he he)

theorem dcChain_reduced (l : Nat) (e : ZDD) (hne : e ≠ .empty) (he : Reduced e) : Reduced (dcChain l e) := by
  induction l generalizing e with
  | zero => exact he
  | succ l ih => exact ih _ (by simp) ⟨hne, he, he⟩

theorem var_nf (n l : Nat) (h : l < n) : NF n 0 (var n l) := by
  unfold var
  refine ⟨dcChain_ordered n l _ (by omega) (.node (Nat.le_refl _) h (taut_ordered n (l+1)) .empty), ?_⟩
  exact dcChain_reduced l _ (by simp) ⟨taut_ne_empty _ _, taut_reduced _ _, trivial⟩

/-- `var v` (with its don't-care chain above and the tautology chain below) is the projection on `v` -/
theorem var_eval (n l : Nat) (σ : Nat → Bool) : eval n σ 0 (var n l) = σ l := by
  unfold var
  rw [dcChain_eval]
  simp only [eval, allFalse_self, Bool.true_and, taut_eval]
  cases σ l <;> rfl

theorem notVar_nf (n l : Nat) (h : l < n) : NF n 0 (notVar n l) := applyNot_nf n _ (var_nf n l h)

theorem notVar_eval (n l : Nat) (σ : Nat → Bool) (h : l < n) : eval n σ 0 (notVar n l) = !σ l := by
  unfold notVar
  rw [applyNot_eval n _ σ (var_nf n l h).1, var_eval]

end OxiddModel.Zbdd
