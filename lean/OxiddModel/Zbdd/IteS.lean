import OxiddModel.Zbdd.RestrictS

/-!
# `apply_ite` on the store, with the apply cache

`iteS` follows `apply_ite` of `crates/oxidd-rules-zbdd/src/apply_rec.rs`: the terminal cases
(`g == h`, `f == g`, `f == h` on edges, `Empty` operands, `f`/`g` equal to `tautology(level)` read
from the manager's chain) with their delegations to `apply_union`/`apply_intsec`/`apply_diff`, the
cache query with key `(Ite, [f, g, h], [])`, the case analysis on the three levels (a terminal has
level `LevelNo::MAX`), the recursion, `reduce`, cache add. The `unwrap_inner` calls that cannot
be reached are mirrored exactly as in the tree model (`Model.applyIte` returns `∅` there).

`iteS_spec`: for every admissible policy and every sound cache, on operands that are diagrams in
normal form for the manager's `n` levels (`NF n 0`: ordered, zero-suppressed — what every handle
of the real manager is), the result denotes `applyIte n a b c`, the store is only extended,
`Unique ∧ CacheOK` are kept, and store and result are the canonical ones. Normal form is only
needed to record it in the `Ite` entries that are created (it is what makes them survive
`add_vars`, `EntryOK.addVars`); the recursion passes children of the operands only, which are in
normal form again.
-/
namespace OxiddModel.Zbdd.Refine
open OxiddModel.Zbdd OxiddModel.Zbdd.ZDD
open OxiddModel.Bdd.Refine (Policy OpTag Key Cache)

/-! ## tree level: the part of `applyIte` after the terminal cases -/

/-- the part of `apply_ite` after the terminal cases and the cache query -/
def iteRest (n : Nat) (f g h : ZDD) : ZDD :=
  let flevel := f.level
  let glevel := g.level
  let hlevel := h.level
  let ghlevel := min glevel hlevel
  let level := min flevel ghlevel
  if flevel > ghlevel then
    if glevel < hlevel then
      match g with
      | .node _ _ glo => applyIte n f glo h
      | _ => .empty
    else
      match h with
      | .node _ hhi hlo => mk level hhi (applyIte n f (if glevel = hlevel then g.lo else g) hlo)
      | _ => .empty
  else if flevel < ghlevel then
    match f with
    | .node _ _ flo => applyIte n flo g h
    | _ => .empty
  else
    match f with
    | .node _ fhi flo =>
      if hlevel > flevel then
        mk level (intsec fhi g.hi) (applyIte n flo g.lo h)
      else if glevel > flevel then
        mk level (diff h.hi fhi) (applyIte n flo g h.lo)
      else
        mk level (applyIte n fhi g.hi h.hi) (applyIte n flo g.lo h.lo)
    | _ => .empty

theorem applyIte_rest {n : Nat} {a b c : ZDD} (hbc : b ≠ c) (hab : a ≠ b) (hac : a ≠ c)
    (ha : a ≠ .empty) (hb : b ≠ .empty) (hc : c ≠ .empty)
    (h1 : a ≠ taut n (min a.level (min b.level c.level)))
    (h2 : b ≠ taut n (min a.level (min b.level c.level))) :
    applyIte n a b c = iteRest n a b c := by
  rw [applyIte.eq_def]
  simp only [hbc, hab, hac, ha, hb, hc, h1, h2, if_false]
  rfl

theorem applyIte_gh (n : Nat) (a b : ZDD) : applyIte n a b b = b := by
  rw [applyIte.eq_def]; simp

theorem applyIte_fg {n : Nat} {a c : ZDD} (h : a ≠ c) : applyIte n a a c = union a c := by
  rw [applyIte.eq_def]; simp [h]

theorem applyIte_fh {n : Nat} {a b : ZDD} (h : a ≠ b) : applyIte n a b a = intsec a b := by
  rw [applyIte.eq_def]; simp [h, Ne.symm h]

theorem applyIte_fe {n : Nat} {b c : ZDD} (hbc : b ≠ c) (hab : ZDD.empty ≠ b) (hac : ZDD.empty ≠ c) :
    applyIte n .empty b c = c := by
  rw [applyIte.eq_def]; simp [hbc, hab, hac]

theorem applyIte_ge {n : Nat} {a c : ZDD} (hbc : ZDD.empty ≠ c) (hab : a ≠ .empty) (hac : a ≠ c) :
    applyIte n a .empty c = diff c a := by
  rw [applyIte.eq_def]; simp [hbc, hab, hac]

theorem applyIte_he {n : Nat} {a b : ZDD} (hbc : b ≠ .empty) (hab : a ≠ b) (ha : a ≠ .empty) :
    applyIte n a b .empty = intsec a b := by
  rw [applyIte.eq_def]; simp [hbc, hab, ha]

theorem nf_hi {n : Nat} {a : ZDD} (h : NF n 0 a) : NF n 0 a.hi :=
  ⟨h.1.hi_raise (Nat.zero_le _), reduced_hi h.2⟩

theorem nf_lo {n : Nat} {a : ZDD} (h : NF n 0 a) : NF n 0 a.lo :=
  ⟨h.1.lo_raise (Nat.zero_le _), reduced_lo h.2⟩

/-! ## store level -/

/-- `child(HI)` of an inner node; the edge itself for a terminal (as `ZDD.hi`) -/
def Store.hiS (s : Store) (e : ZEdge) : ZEdge :=
  match s.node? e with
  | some n => n.hi
  | none => e

/-- `child(LO)` of an inner node; the edge itself for a terminal (as `ZDD.lo`) -/
def Store.loS (s : Store) (e : ZEdge) : ZEdge :=
  match s.node? e with
  | some n => n.lo
  | none => e

theorem hiS_denotes {s : Store} {e : ZEdge} {a : ZDD} (h : DenotesZ s e a) :
    DenotesZ s (s.hiS e) a.hi := by
  cases h with
  | empty => exact .empty
  | base => exact .base
  | inner hi hh _ => simpa [Store.hiS, Store.node?, hi, ZDD.hi] using hh

theorem loS_denotes {s : Store} {e : ZEdge} {a : ZDD} (h : DenotesZ s e a) :
    DenotesZ s (s.loS e) a.lo := by
  cases h with
  | empty => exact .empty
  | base => exact .base
  | inner hi _ hl => simpa [Store.loS, Store.node?, hi, ZDD.lo] using hl

/-- `apply_ite` -/
def iteS (p : Policy) (chain : List ZEdge) : Nat → St → ZEdge → ZEdge → ZEdge → St × ZEdge
  | 0, st, f, _, _ => (st, f)
  | fuel+1, st, f, g, h =>
    -- terminal cases
    if g = h then (st, g) else
    if f = g then setOpS p .union fuel st f h else
    if f = h then setOpS p .intsec fuel st f g else
    if f = .empty then (st, h) else
    if g = .empty then setOpS p .diff fuel st h f else -- f < h = h ∖ f
    if h = .empty then setOpS p .intsec fuel st f g else
    let flevel := st.store.levelZ f
    let glevel := st.store.levelZ g
    let hlevel := st.store.levelZ h
    let ghlevel := min glevel hlevel
    let level := min flevel ghlevel
    let tautology := tautologyS chain level
    if f = tautology then (st, g) else
    if g = tautology then setOpS p .union fuel st f h else
    -- query apply cache
    match p.get st.tick st.cache (encKey ⟨.ite, [f, g, h], []⟩) with
    | some r => (st.tickd, decE r)
    | none =>
      if flevel > ghlevel then
        if glevel < hlevel then
          match st.store.node? g with
          | some gn =>
            let r := iteS p chain fuel st.tickd f gn.lo h
            addZ p r.1 ⟨.ite, [f, g, h], []⟩ r.2
          | none => (st.tickd, .empty) -- unreachable (`unwrap_inner`)
        else
          match st.store.node? h with
          | some hn =>
            let r0 := iteS p chain fuel st.tickd f
              (if glevel = hlevel then st.store.loS g else g) hn.lo
            finishZ p r0.1 ⟨.ite, [f, g, h], []⟩ level hn.hi r0.2
          | none => (st.tickd, .empty) -- unreachable
      else if flevel < ghlevel then
        match st.store.node? f with
        | some fn =>
          let r := iteS p chain fuel st.tickd fn.lo g h
          addZ p r.1 ⟨.ite, [f, g, h], []⟩ r.2
        | none => (st.tickd, .empty) -- unreachable
      else
        match st.store.node? f with
        | some fn =>
          if hlevel > flevel then
            let r1 := setOpS p .intsec fuel st.tickd fn.hi (st.store.hiS g)
            let r0 := iteS p chain fuel r1.1 fn.lo (st.store.loS g) h
            finishZ p r0.1 ⟨.ite, [f, g, h], []⟩ level r1.2 r0.2
          else if glevel > flevel then
            let r1 := setOpS p .diff fuel st.tickd (st.store.hiS h) fn.hi
            let r0 := iteS p chain fuel r1.1 fn.lo g (st.store.loS h)
            finishZ p r0.1 ⟨.ite, [f, g, h], []⟩ level r1.2 r0.2
          else
            let r1 := iteS p chain fuel st.tickd fn.hi (st.store.hiS g) (st.store.hiS h)
            let r0 := iteS p chain fuel r1.1 fn.lo (st.store.loS g) (st.store.loS h)
            finishZ p r0.1 ⟨.ite, [f, g, h], []⟩ level r1.2 r0.2
        | none => (st.tickd, .empty) -- unreachable

/-- the levels-and-recursion part of `iteS` (after the cache miss) refines `iteRest` -/
theorem iteS_rest_post {p : Policy} (pok : p.OK) (env : Env) (chain : List ZEdge) (fuel : Nat)
    (ih : ∀ (st : St) (f g h : ZEdge) (a b c : ZDD), Inv env st →
      ChainOK env.numLevels st.store chain → DenotesZ st.store f a → DenotesZ st.store g b →
      DenotesZ st.store h c → NF env.numLevels 0 a → NF env.numLevels 0 b →
      NF env.numLevels 0 c → a.size + b.size + c.size ≤ fuel →
      Post env st.store (applyIte env.numLevels a b c) (iteS p chain fuel st f g h))
    (st : St) (f g h : ZEdge) (a b c : ZDD) (hinv : Inv env st)
    (hch : ChainOK env.numLevels st.store chain) (hf : DenotesZ st.store f a)
    (hg : DenotesZ st.store g b) (hh : DenotesZ st.store h c)
    (hna : NF env.numLevels 0 a) (hnb : NF env.numLevels 0 b) (hnc : NF env.numLevels 0 c)
    (hsz : a.size + b.size + c.size ≤ fuel + 1)
    (hrest : applyIte env.numLevels a b c = iteRest env.numLevels a b c) :
    Post env st.store (iteRest env.numLevels a b c)
      (if st.store.levelZ f > min (st.store.levelZ g) (st.store.levelZ h) then
        if st.store.levelZ g < st.store.levelZ h then
          match st.store.node? g with
          | some gn =>
            addZ p (iteS p chain fuel st.tickd f gn.lo h).1 ⟨.ite, [f, g, h], []⟩
              (iteS p chain fuel st.tickd f gn.lo h).2
          | none => (st.tickd, .empty)
        else
          match st.store.node? h with
          | some hn =>
            finishZ p (iteS p chain fuel st.tickd f
                (if st.store.levelZ g = st.store.levelZ h then st.store.loS g else g) hn.lo).1
              ⟨.ite, [f, g, h], []⟩
              (min (st.store.levelZ f) (min (st.store.levelZ g) (st.store.levelZ h))) hn.hi
              (iteS p chain fuel st.tickd f
                (if st.store.levelZ g = st.store.levelZ h then st.store.loS g else g) hn.lo).2
          | none => (st.tickd, .empty)
      else if st.store.levelZ f < min (st.store.levelZ g) (st.store.levelZ h) then
        match st.store.node? f with
        | some fn =>
          addZ p (iteS p chain fuel st.tickd fn.lo g h).1 ⟨.ite, [f, g, h], []⟩
            (iteS p chain fuel st.tickd fn.lo g h).2
        | none => (st.tickd, .empty)
      else
        match st.store.node? f with
        | some fn =>
          if st.store.levelZ h > st.store.levelZ f then
            finishZ p (iteS p chain fuel (setOpS p .intsec fuel st.tickd fn.hi (st.store.hiS g)).1
                fn.lo (st.store.loS g) h).1 ⟨.ite, [f, g, h], []⟩
              (min (st.store.levelZ f) (min (st.store.levelZ g) (st.store.levelZ h)))
              (setOpS p .intsec fuel st.tickd fn.hi (st.store.hiS g)).2
              (iteS p chain fuel (setOpS p .intsec fuel st.tickd fn.hi (st.store.hiS g)).1
                fn.lo (st.store.loS g) h).2
          else if st.store.levelZ g > st.store.levelZ f then
            finishZ p (iteS p chain fuel (setOpS p .diff fuel st.tickd (st.store.hiS h) fn.hi).1
                fn.lo g (st.store.loS h)).1 ⟨.ite, [f, g, h], []⟩
              (min (st.store.levelZ f) (min (st.store.levelZ g) (st.store.levelZ h)))
              (setOpS p .diff fuel st.tickd (st.store.hiS h) fn.hi).2
              (iteS p chain fuel (setOpS p .diff fuel st.tickd (st.store.hiS h) fn.hi).1
                fn.lo g (st.store.loS h)).2
          else
            finishZ p (iteS p chain fuel
                (iteS p chain fuel st.tickd fn.hi (st.store.hiS g) (st.store.hiS h)).1
                fn.lo (st.store.loS g) (st.store.loS h)).1 ⟨.ite, [f, g, h], []⟩
              (min (st.store.levelZ f) (min (st.store.levelZ g) (st.store.levelZ h)))
              (iteS p chain fuel st.tickd fn.hi (st.store.hiS g) (st.store.hiS h)).2
              (iteS p chain fuel
                (iteS p chain fuel st.tickd fn.hi (st.store.hiS g) (st.store.hiS h)).1
                fn.lo (st.store.loS g) (st.store.loS h)).2
        | none => (st.tickd, .empty)) := by
  have hkey : ∀ T, iteRest env.numLevels a b c = T →
      KeyMeans env st.store ⟨.ite, [f, g, h], []⟩ T := by
    intro T hT
    refine ⟨_, DenotesLZ.three hf hg hh, by rw [← hT, ← hrest]; rfl, fun _ t ht => ?_⟩
    simp only [List.mem_cons, List.not_mem_nil, or_false] at ht
    rcases ht with rfl | rfl | rfl <;> assumption
  have hsa := size_pos a
  have hsb := size_pos b
  have hsc := size_pos c
  have hglo := lo_size_le b
  have hghi := hi_size_le b
  have hhlo := lo_size_le c
  have hhhi := hi_size_le c
  rw [levelZ_denotes hf, levelZ_denotes hg, levelZ_denotes hh]
  unfold iteRest
  simp only
  by_cases c1 : a.level > min b.level c.level
  · simp only [c1, if_true]
    by_cases c2 : b.level < c.level
    · simp only [c2, if_true]
      cases hg with
      | empty => exact Post.done (st := st.tickd) hinv.tickd .empty
      | base => exact Post.done (st := st.tickd) hinv.tickd .empty
      | @inner j gl gh gl' ghi glo hj hgh hgl =>
        simp only [Store.node?, hj]
        simp only [ZDD.size] at hsz
        have p0 := ih st.tickd f gl' h a glo c hinv.tickd hch hf hgl hh hna (nf_lo hnb) hnc (by omega)
        exact post_addZ pok p0 _ (hkey _ (by
          unfold iteRest; simp only [c1, c2, if_true]))
    · simp only [c2, if_false]
      cases hh with
      | empty => exact Post.done (st := st.tickd) hinv.tickd .empty
      | base => exact Post.done (st := st.tickd) hinv.tickd .empty
      | @inner k hl' hhe hle hhi hlo hk hhh hhl =>
        simp only [Store.node?, hk]
        simp only [ZDD.size] at hsz
        have hdh : DenotesZ st.store (.inner k) (.node hl' hhi hlo) := .inner hk hhh hhl
        have hg' : DenotesZ st.store (if b.level = (ZDD.node hl' hhi hlo).level then st.store.loS g else g)
            (if b.level = (ZDD.node hl' hhi hlo).level then b.lo else b) := by
          split
          · exact loS_denotes hg
          · exact hg
        have hszg : (if b.level = (ZDD.node hl' hhi hlo).level then b.lo else b).size ≤ b.size := by
          split
          · exact hglo
          · exact Nat.le_refl _
        have hnb' : NF env.numLevels 0
            (if b.level = (ZDD.node hl' hhi hlo).level then b.lo else b) := by
          split
          · exact nf_lo hnb
          · exact hnb
        have p0 := ih st.tickd f _ hle a _ hlo hinv.tickd hch hf hg' hhl hna hnb' (nf_lo hnc)
          (by omega)
        exact post_finishZ pok (Post.done (st := st.tickd) hinv.tickd hhh) p0 _ _ (hkey _ (by
          unfold iteRest; simp only [c1, c2, if_true, if_false]))
  · simp only [c1, if_false]
    by_cases c3 : a.level < min b.level c.level
    · simp only [c3, if_true]
      cases hf with
      | empty => exact Post.done (st := st.tickd) hinv.tickd .empty
      | base => exact Post.done (st := st.tickd) hinv.tickd .empty
      | @inner i fl fh fle fhi flo hi hfh hfl =>
        simp only [Store.node?, hi]
        simp only [ZDD.size] at hsz
        have p0 := ih st.tickd fle g h flo b c hinv.tickd hch hfl hg hh (nf_lo hna) hnb hnc (by omega)
        exact post_addZ pok p0 _ (hkey _ (by
          unfold iteRest; simp only [c1, c3, if_true, if_false]))
    · simp only [c3, if_false]
      cases hf with
      | empty => exact Post.done (st := st.tickd) hinv.tickd .empty
      | base => exact Post.done (st := st.tickd) hinv.tickd .empty
      | @inner i fl fh fle fhi flo hi hfh hfl =>
        have hdf : DenotesZ st.store (.inner i) (.node fl fhi flo) := .inner hi hfh hfl
        simp only [Store.node?, hi]
        simp only [ZDD.size] at hsz
        by_cases c4 : c.level > (ZDD.node fl fhi flo).level
        · simp only [c4, if_true]
          have p1 := setOpS_spec pok env .intsec fuel st.tickd fh (st.store.hiS g) fhi b.hi
            hinv.tickd hfh (hiS_denotes hg) (by omega)
          have p0 := ih _ fle (st.store.loS g) h flo b.lo c p1.inv (hch.mono p1.le)
            (hfl.mono p1.le) ((loS_denotes hg).mono p1.le) (hh.mono p1.le) (nf_lo hna) (nf_lo hnb)
            hnc (by omega)
          exact post_finishZ pok p1 p0 _ _ (hkey _ (by
            unfold iteRest; simp only [c1, c3, c4, if_true, if_false]; rfl))
        · simp only [c4, if_false]
          by_cases c5 : b.level > (ZDD.node fl fhi flo).level
          · simp only [c5, if_true]
            have p1 := setOpS_spec pok env .diff fuel st.tickd (st.store.hiS h) fh c.hi fhi
              hinv.tickd (hiS_denotes hh) hfh (by omega)
            have p0 := ih _ fle g (st.store.loS h) flo b c.lo p1.inv (hch.mono p1.le)
              (hfl.mono p1.le) (hg.mono p1.le) ((loS_denotes hh).mono p1.le) (nf_lo hna) hnb
              (nf_lo hnc) (by omega)
            exact post_finishZ pok p1 p0 _ _ (hkey _ (by
              unfold iteRest; simp only [c1, c3, c4, c5, if_true, if_false]; rfl))
          · simp only [c5, if_false]
            have p1 := ih st.tickd fh (st.store.hiS g) (st.store.hiS h) fhi b.hi c.hi hinv.tickd hch
              hfh (hiS_denotes hg) (hiS_denotes hh) (nf_hi hna) (nf_hi hnb) (nf_hi hnc) (by omega)
            have p0 := ih _ fle (st.store.loS g) (st.store.loS h) flo b.lo c.lo p1.inv
              (hch.mono p1.le) (hfl.mono p1.le) ((loS_denotes hg).mono p1.le)
              ((loS_denotes hh).mono p1.le) (nf_lo hna) (nf_lo hnb) (nf_lo hnc) (by omega)
            exact post_finishZ pok p1 p0 _ _ (hkey _ (by
              unfold iteRest; simp only [c1, c3, c4, c5, if_false]))

/-- **`apply_ite` with cache refines `applyIte n`**, including all its delegations to
`apply_union`, `apply_intsec`, `apply_diff` and the comparisons with the tautology chain -/
theorem iteS_spec {p : Policy} (pok : p.OK) (env : Env) (chain : List ZEdge) (fuel : Nat) :
    ∀ (st : St) (f g h : ZEdge) (a b c : ZDD), Inv env st →
    ChainOK env.numLevels st.store chain → DenotesZ st.store f a → DenotesZ st.store g b →
    DenotesZ st.store h c → NF env.numLevels 0 a → NF env.numLevels 0 b →
    NF env.numLevels 0 c → a.size + b.size + c.size ≤ fuel →
    Post env st.store (applyIte env.numLevels a b c) (iteS p chain fuel st f g h) := by
  induction fuel with
  | zero =>
    intro st f g h a b c _ _ _ _ _ _ _ _ hsz
    have := size_pos a
    omega
  | succ fuel ih =>
    intro st f g h a b c hinv hch hf hg hh hna hnb hnc hsz
    have hsa := size_pos a
    have hsb := size_pos b
    have hsc := size_pos c
    have egh : g = h ↔ b = c := denotes_eq_iff hinv.1 hg hh
    have efg : f = g ↔ a = b := denotes_eq_iff hinv.1 hf hg
    have efh : f = h ↔ a = c := denotes_eq_iff hinv.1 hf hh
    simp only [iteS]
    by_cases hgh : g = h
    · subst hgh
      have := DenotesZ.functional hg hh
      subst this
      simp only [if_true]
      rw [applyIte_gh]
      exact Post.done hinv hg
    · have hbc : b ≠ c := fun e => hgh (egh.mpr e)
      simp only [hgh, if_false]
      by_cases hfg : f = g
      · subst hfg
        have := DenotesZ.functional hf hg
        subst this
        simp only [if_true]
        rw [applyIte_fg hbc]
        exact setOpS_spec pok env .union fuel st f h a c hinv hf hh (by omega)
      · have hab : a ≠ b := fun e => hfg (efg.mpr e)
        simp only [hfg, if_false]
        by_cases hfh : f = h
        · subst hfh
          have := DenotesZ.functional hf hh
          subst this
          simp only [if_true]
          rw [applyIte_fh hab]
          exact setOpS_spec pok env .intsec fuel st f g a b hinv hf hg (by omega)
        · have hac : a ≠ c := fun e => hfh (efh.mpr e)
          simp only [hfh, if_false]
          by_cases hfe : f = .empty
          · have : a = .empty := hf.empty_iff.mp hfe
            subst this
            simp only [hfe, if_true]
            rw [applyIte_fe hbc hab hac]
            exact Post.done hinv hh
          · have ha : a ≠ .empty := fun e => hfe (hf.empty_iff.mpr e)
            simp only [hfe, if_false]
            by_cases hge : g = .empty
            · have : b = .empty := hg.empty_iff.mp hge
              subst this
              simp only [hge, if_true]
              rw [applyIte_ge hbc hab hac]
              exact setOpS_spec pok env .diff fuel st h f c a hinv hh hf (by omega)
            · have hb : b ≠ .empty := fun e => hge (hg.empty_iff.mpr e)
              simp only [hge, if_false]
              by_cases hhe : h = .empty
              · have : c = .empty := hh.empty_iff.mp hhe
                subst this
                simp only [hhe, if_true]
                rw [applyIte_he hbc hab hac]
                exact setOpS_spec pok env .intsec fuel st f g a b hinv hf hg (by omega)
              · have hc : c ≠ .empty := fun e => hhe (hh.empty_iff.mpr e)
                simp only [hhe, if_false]
                have hlev : min (st.store.levelZ f) (min (st.store.levelZ g) (st.store.levelZ h)) =
                    min a.level (min b.level c.level) := by
                  rw [levelZ_denotes hf, levelZ_denotes hg, levelZ_denotes hh]
                have htaut := tautologyS_denotes hch (min a.level (min b.level c.level))
                have eft : f = tautologyS chain (min a.level (min b.level c.level)) ↔
                    a = taut env.numLevels (min a.level (min b.level c.level)) :=
                  denotes_eq_iff hinv.1 hf htaut
                have egt : g = tautologyS chain (min a.level (min b.level c.level)) ↔
                    b = taut env.numLevels (min a.level (min b.level c.level)) :=
                  denotes_eq_iff hinv.1 hg htaut
                rw [hlev]
                by_cases hft : f = tautologyS chain (min a.level (min b.level c.level))
                · have h1 := eft.mp hft
                  rw [if_pos hft]
                  rw [applyIte.eq_def]
                  simp only [hbc, hab, hac, ha, hb, hc, if_false]
                  rw [if_pos h1]
                  exact Post.done hinv hg
                · have h1 : a ≠ taut env.numLevels (min a.level (min b.level c.level)) :=
                    fun e => hft (eft.mpr e)
                  rw [if_neg hft]
                  by_cases hgt : g = tautologyS chain (min a.level (min b.level c.level))
                  · have h2 := egt.mp hgt
                    rw [if_pos hgt]
                    rw [applyIte.eq_def]
                    simp only [hbc, hab, hac, ha, hb, hc, if_false]
                    rw [if_neg h1, if_pos h2]
                    exact setOpS_spec pok env .union fuel st f h a c hinv hf hh (by omega)
                  · have h2 : b ≠ taut env.numLevels (min a.level (min b.level c.level)) :=
                      fun e => hgt (egt.mpr e)
                    rw [if_neg hgt]
                    have hrest := applyIte_rest hbc hab hac ha hb hc h1 h2
                    split
                    · -- cache hit
                      rename_i r hr
                      have hent := hinv.2 _ _ (pok.get_mem _ _ _ _ hr)
                      exact Post.done (st := st.tickd) hinv.tickd
                        (hent.hit (zk := ⟨.ite, [f, g, h], []⟩) (DenotesLZ.three hf hg hh) rfl)
                    · -- cache miss
                      rw [hrest, ← hlev]
                      exact iteS_rest_post pok env chain fuel ih st f g h a b c hinv hch hf hg hh
                        hna hnb hnc hsz hrest

end OxiddModel.Zbdd.Refine
