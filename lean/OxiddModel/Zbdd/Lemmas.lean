import OxiddModel.Zbdd.Model

/-! Basic semantics and normal-form lemmas for the ZBDD tree model. -/
namespace OxiddModel.Zbdd
open ZDD

/-! ## `allFalse` -/

theorem allFalseAux_iff {σ : Nat → Bool} {c k : Nat} :
    allFalseAux σ c k = true ↔ ∀ v, k ≤ v → v < k + c → σ v = false := by
  induction c generalizing k with
  | zero => simp [allFalseAux]; intro v h1 h2; omega
  | succ c ih =>
    simp only [allFalseAux, Bool.and_eq_true, Bool.not_eq_eq_eq_not, Bool.not_true, ih]
    constructor
    · rintro ⟨h0, h⟩ v h1 h2
      by_cases hv : v = k
      · subst hv; exact h0
      · exact h v (by omega) (by omega)
    · intro h
      exact ⟨h k (Nat.le_refl _) (by omega), fun v h1 h2 => h v (by omega) (by omega)⟩

theorem allFalse_iff {σ : Nat → Bool} {k n : Nat} :
    allFalse σ k n = true ↔ ∀ v, k ≤ v → v < n → σ v = false := by
  unfold allFalse
  rw [allFalseAux_iff]
  constructor
  · intro h v h1 h2; exact h v h1 (by omega)
  · intro h v h1 h2; exact h v h1 (by omega)

theorem allFalse_self (σ : Nat → Bool) (k : Nat) : allFalse σ k k = true :=
  allFalse_iff.mpr (fun v h1 h2 => by omega)

theorem allFalse_of_le (σ : Nat → Bool) {k n : Nat} (h : n ≤ k) : allFalse σ k n = true :=
  allFalse_iff.mpr (fun v h1 h2 => by omega)

theorem allFalse_split (σ : Nat → Bool) {k m n : Nat} (h1 : k ≤ m) (h2 : m ≤ n) :
    allFalse σ k n = (allFalse σ k m && allFalse σ m n) := by
  rw [Bool.eq_iff_iff, Bool.and_eq_true, allFalse_iff, allFalse_iff, allFalse_iff]
  constructor
  · intro h; exact ⟨fun v a b => h v a (by omega), fun v a b => h v (by omega) b⟩
  · rintro ⟨ha, hb⟩ v a b
    by_cases hv : v < m
    · exact ha v a hv
    · exact hb v (by omega) b

theorem allFalse_succ (σ : Nat → Bool) {k l : Nat} (h : k ≤ l) :
    allFalse σ k (l+1) = (allFalse σ k l && !σ l) := by
  rw [allFalse_split σ h (Nat.le_succ l)]
  congr 1
  rw [Bool.eq_iff_iff, allFalse_iff]
  constructor
  · intro hh; rw [hh l (Nat.le_refl _) (by omega)]; rfl
  · intro hh v a b
    have : v = l := by omega
    subst this; simpa using hh

theorem allFalse_congr {σ τ : Nat → Bool} {k n : Nat} (h : ∀ v, k ≤ v → v < n → σ v = τ v) :
    allFalse σ k n = allFalse τ k n := by
  rw [Bool.eq_iff_iff, allFalse_iff, allFalse_iff]
  constructor
  · intro hh v h1 h2; rw [← h v h1 h2]; exact hh v h1 h2
  · intro hh v h1 h2; rw [h v h1 h2]; exact hh v h1 h2

theorem allFalse_zero (k n : Nat) : allFalse (fun _ => false) k n = true :=
  allFalse_iff.mpr (fun _ _ _ => rfl)

/-! ## order -/

theorem ZDD.Ordered.mono {n k m : Nat} {a : ZDD} (h : Ordered n k a) (hmk : m ≤ k) : Ordered n m a := by
  cases h with
  | empty => exact .empty
  | base => exact .base
  | node h1 h2 h3 h4 => exact .node (Nat.le_trans hmk h1) h2 h3 h4

/-- a diagram ordered for `n` levels is ordered for any larger number of levels (`add_vars`) -/
theorem ZDD.Ordered.more {n n' k : Nat} {a : ZDD} (h : Ordered n k a) (hn : n ≤ n') : Ordered n' k a := by
  induction h with
  | empty => exact .empty
  | base => exact .base
  | node h1 h2 _ _ ih1 ih2 => exact .node h1 (by omega) ih1 ih2

theorem eval_indep {n k : Nat} {a : ZDD} (h : Ordered n k a) (σ τ : Nat → Bool)
    (hστ : ∀ v, k ≤ v → σ v = τ v) : eval n σ k a = eval n τ k a := by
  induction h with
  | empty => rfl
  | base => simp only [eval]; exact allFalse_congr (fun v a _ => hστ v a)
  | node h1 _ _ _ ihh ihl =>
    simp only [eval]
    rw [allFalse_congr (fun v a _ => hστ v a), hστ _ h1]
    rw [ihh (fun w hw => hστ w (by omega)), ihl (fun w hw => hστ w (by omega))]

/-- evaluating from a higher start level `k ≤ m`: the skipped levels must be 0 -/
theorem eval_shift {n m k : Nat} {a : ZDD} (σ : Nat → Bool) (h : Ordered n m a) (hkm : k ≤ m) (hmn : m ≤ n) :
    eval n σ k a = (allFalse σ k m && eval n σ m a) := by
  cases h with
  | empty => simp [eval]
  | base => simp only [eval]; exact allFalse_split σ hkm hmn
  | node h1 h2 _ _ =>
    simp only [eval]
    rw [allFalse_split σ hkm h1, Bool.and_assoc]

/-! ## `reduce` -/

theorem mk_eval {n k l : Nat} (σ : Nat → Bool) (hi lo : ZDD) (hkl : k ≤ l) (hln : l < n)
    (hlo : Ordered n (l+1) lo) :
    eval n σ k (mk l hi lo) =
      (allFalse σ k l && (if σ l then eval n σ (l+1) hi else eval n σ (l+1) lo)) := by
  unfold mk
  split
  · rename_i h; subst h
    rw [eval_shift σ hlo (by omega : k ≤ l+1) (by omega), allFalse_succ σ hkl]
    cases σ l <;> simp [eval]
  · simp [eval]

theorem mk_ordered {n k l : Nat} {hi lo : ZDD} (hkl : k ≤ l) (hln : l < n)
    (hhi : Ordered n (l+1) hi) (hlo : Ordered n (l+1) lo) : Ordered n k (mk l hi lo) := by
  unfold mk
  split
  · exact hlo.mono (by omega)
  · exact .node hkl hln hhi hlo

theorem mk_reduced {l : Nat} {hi lo : ZDD} (hhi : Reduced hi) (hlo : Reduced lo) : Reduced (mk l hi lo) := by
  unfold mk
  split
  · exact hlo
  · rename_i h; exact ⟨h, hhi, hlo⟩

theorem mk_nf {n k l : Nat} {hi lo : ZDD} (hkl : k ≤ l) (hln : l < n)
    (hhi : NF n (l+1) hi) (hlo : NF n (l+1) lo) : NF n k (mk l hi lo) :=
  ⟨mk_ordered hkl hln hhi.1 hlo.1, mk_reduced hhi.2 hlo.2⟩

theorem mk1_eval {n k l : Nat} (σ : Nat → Bool) (c : ZDD) :
    eval n σ k (mk1 l c) = (allFalse σ k l && eval n σ (l+1) c) := by
  unfold mk1
  split
  · rename_i h; subst h; simp [eval]
  · cases σ l <;> simp [eval, *]

theorem mk1_ordered {n k l : Nat} {c : ZDD} (hkl : k ≤ l) (hln : l < n)
    (hc : Ordered n (l+1) c) : Ordered n k (mk1 l c) := by
  unfold mk1
  split
  · rename_i h; subst h; exact .empty
  · exact .node hkl hln hc hc

theorem mk1_reduced {l : Nat} {c : ZDD} (hc : Reduced c) : Reduced (mk1 l c) := by
  unfold mk1
  split
  · exact hc
  · rename_i h; exact ⟨h, hc, hc⟩

/-! ## the tautology chain -/

theorem tautFrom_ordered (c l n : Nat) (h : l + c ≤ n) : Ordered n l (tautFrom c l) := by
  induction c generalizing l with
  | zero => exact .base
  | succ c ih => exact .node (Nat.le_refl _) (by omega) (ih (l+1) (by omega)) (ih (l+1) (by omega))

theorem tautFrom_ne_empty (c l : Nat) : tautFrom c l ≠ .empty := by
  cases c <;> simp [tautFrom]

theorem tautFrom_reduced (c l : Nat) : Reduced (tautFrom c l) := by
  induction c generalizing l with
  | zero => trivial
  | succ c ih => exact ⟨tautFrom_ne_empty c (l+1), ih (l+1), ih (l+1)⟩

theorem tautFrom_eval (σ : Nat → Bool) (c l n : Nat) (h : l + c = n) : eval n σ l (tautFrom c l) = true := by
  induction c generalizing l with
  | zero => simp only [tautFrom, eval]; exact allFalse_of_le σ (by omega)
  | succ c ih =>
    simp only [tautFrom, eval, allFalse_self, Bool.true_and]
    rw [ih (l+1) (by omega)]; simp

theorem taut_ordered (n l : Nat) : Ordered n l (taut n l) := by
  unfold taut
  by_cases h : l ≤ n
  · exact tautFrom_ordered _ _ _ (by omega)
  · have : n - l = 0 := by omega
    rw [this]; exact .base

theorem taut_ne_empty (n l : Nat) : taut n l ≠ .empty := tautFrom_ne_empty _ _

theorem taut_reduced (n l : Nat) : Reduced (taut n l) := tautFrom_reduced _ _

theorem taut_nf (n l : Nat) : NF n l (taut n l) := ⟨taut_ordered n l, taut_reduced n l⟩

/-- `tautology(l)` is true on the levels `[l, n)` -/
theorem taut_eval (σ : Nat → Bool) (n l : Nat) : eval n σ l (taut n l) = true := by
  unfold taut
  by_cases h : l ≤ n
  · exact tautFrom_eval σ _ _ _ (by omega)
  · have : n - l = 0 := by omega
    rw [this]; simp only [tautFrom, eval]; exact allFalse_of_le σ (by omega)

/-- seen from a start level `k ≤ l`, `tautology(l)` requires exactly that the levels `[k, l)` are 0 -/
theorem taut_eval_from (σ : Nat → Bool) {n k l : Nat} (hkl : k ≤ l) (hln : l ≤ n) :
    eval n σ k (taut n l) = allFalse σ k l := by
  rw [eval_shift σ (taut_ordered n l) hkl hln, taut_eval]; simp

theorem taut_succ {n l : Nat} (h : l < n) : taut n l = .node l (taut n (l+1)) (taut n (l+1)) := by
  unfold taut
  have : n - l = (n - (l+1)) + 1 := by omega
  rw [this]; rfl

theorem taut_ge {n l : Nat} (h : n ≤ l) : taut n l = .base := by
  unfold taut
  have : n - l = 0 := by omega
  rw [this]; rfl

end OxiddModel.Zbdd
