/-!
# Tree-level model of the ZBDD rules (`crates/oxidd-rules-zbdd`)

A zero-suppressed diagram is modelled by its unfolding into a tree over *levels*; the
variable↔level maps are kept by the driver. Every function below mirrors the case structure of
the Rust function named in its doc comment (same terminal cases in the same order, same cofactor
selection, same delegation between operators) but without store, apply cache and reference
counts.

Where the Rust code compares edges (`f == g`) the model compares trees; this is justified by
canonicity (`OxiddModel.Zbdd.canon` + hash consing): in a store satisfying the invariant two
edges are equal iff the trees they denote are equal.

The number of levels `n` of the manager is an explicit parameter of everything that reads the
tautology chain `ZBDDCache::tautologies` (`taut n l` is `tautology(l)`).
-/
namespace OxiddModel.Zbdd

/-- `ZBDDTerminal::{Empty, Base}` and inner nodes `(level, [hi, lo])` -/
inductive ZDD where
  | empty : ZDD
  | base : ZDD
  | node : Nat → ZDD → ZDD → ZDD
deriving DecidableEq, Repr, Inhabited

namespace ZDD

def size : ZDD → Nat
  | empty => 1
  | base => 1
  | node _ hi lo => 1 + hi.size + lo.size

theorem size_pos (a : ZDD) : 0 < a.size := by cases a <;> simp [size] <;> omega

/-- all variables (levels) in `[k, k+c)` are false -/
def allFalseAux (σ : Nat → Bool) : Nat → Nat → Bool
  | 0, _ => true
  | c+1, k => !σ k && allFalseAux σ c (k+1)

/-- all variables (levels) in `[k, n)` are false -/
def allFalse (σ : Nat → Bool) (k n : Nat) : Bool := allFalseAux σ (n - k) k

/-- Boolean view of a diagram rooted below level `k` in a manager with `n` levels: membership of
the 1-set of `σ` (restricted to the levels `[k, n)`) in the family; a skipped level means that
its variable must be 0. `eval n σ 0 t` is what `eval_edge` computes. -/
def eval (n : Nat) (σ : Nat → Bool) : Nat → ZDD → Bool
  | _, empty => false
  | k, base => allFalse σ k n
  | k, node l hi lo => allFalse σ k l && (if σ l then eval n σ (l+1) hi else eval n σ (l+1) lo)

/-- the family of a handle in a manager with `n` levels, as a predicate on assignments of the
levels (the characteristic function of a set of levels) -/
def fam (n : Nat) (t : ZDD) (σ : Nat → Bool) : Bool := eval n σ 0 t

/-- all levels on every path lie in `[k, n)` and strictly increase -/
inductive Ordered (n : Nat) : Nat → ZDD → Prop
  | empty : Ordered n k empty
  | base : Ordered n k base
  | node : k ≤ l → l < n → Ordered n (l+1) hi → Ordered n (l+1) lo → Ordered n k (node l hi lo)

/-- the zero-suppression rule: no node has `hi = ∅` -/
def Reduced : ZDD → Prop
  | empty => True
  | base => True
  | node _ hi lo => hi ≠ empty ∧ Reduced hi ∧ Reduced lo

/-- normal form in a manager with `n` levels: ordered from level `k` on and zero-suppressed -/
def NF (n k : Nat) (a : ZDD) : Prop := Ordered n k a ∧ Reduced a

def isTerminal : ZDD → Bool
  | node .. => false
  | _ => true

/-- `LevelNo::MAX`, the level number `Node::level()` reports for terminals -/
def maxLevel : Nat := 4294967295

/-- `Node::level()` -/
def level : ZDD → Nat
  | node l _ _ => l
  | _ => maxLevel

/-- `child(HI)` / `child(LO)` of an inner node (`unwrap_inner` panics on terminals; the model
returns the operand, the callers never reach that case) -/
def hi : ZDD → ZDD
  | node _ h _ => h
  | t => t

def lo : ZDD → ZDD
  | node _ _ l => l
  | t => t

theorem hi_size_le (t : ZDD) : t.hi.size ≤ t.size := by
  cases t <;> simp only [hi, size] <;> omega

theorem lo_size_le (t : ZDD) : t.lo.size ≤ t.size := by
  cases t <;> simp only [lo, size] <;> omega

end ZDD

open ZDD

/-- `reduce` / `reduce_borrowed` / `DiagramRules::reduce` (lib.rs): the zero-suppression rule
(`hi = ∅ ⇒ lo`) plus hash consing, which is the identity on trees -/
def mk (l : Nat) (hi lo : ZDD) : ZDD := if hi = .empty then lo else .node l hi lo

/-- `reduce1`: a don't-care node (both children equal) unless the child is `∅` -/
def mk1 (l : Nat) (c : ZDD) : ZDD := if c = .empty then c else .node l c c

/-- the chain `node l (node (l+1) …) (node (l+1) …)` over the `c` levels `l, …, l+c-1` ending in
`Base`: what `ZBDDCache::post_reorder_mut` builds bottom up -/
def tautFrom : Nat → Nat → ZDD
  | 0, _ => .base
  | c+1, l => .node l (tautFrom c (l+1)) (tautFrom c (l+1))

/-- `ZBDDCache::tautology(level)` in a manager with `n` levels: the tautology over the levels
`[min n level, n)` -/
def taut (n level : Nat) : ZDD := tautFrom (n - level) level

/-- `singleton_edge` (no reduction rule applies: `hi = Base`) -/
def singleton (l : Nat) : ZDD := .node l .base .empty

/-- the don't-care chain `var_edge` builds above `level`: levels `level-1, …, 0`, each node with
two equal children -/
def dcChain : Nat → ZDD → ZDD
  | 0, e => e
  | l+1, e => dcChain l (.node l e e)

/-- `var_edge`: `node level (tautology(level+1)) ∅` below don't-care nodes for all levels above -/
def var (n level : Nat) : ZDD := dcChain level (.node level (taut n (level+1)) .empty)

/-- `make_node` (lib.rs): `reduce(level_of(var), hi, lo)` -/
def makeNode (varLevel : Nat) (hi lo : ZDD) : ZDD := mk varLevel hi lo

/-- which of the three instances of `subset::<VAL>` -/
inductive SubsetOp where
  | subset0 | subset1 | change
deriving DecidableEq, Repr, Inhabited

/-- `subset::<VAL>` (`VAL = 0, 1, -1`) -/
def subset (op : SubsetOp) (vl : Nat) : ZDD → ZDD
  | .node l hi lo =>
    if l < vl then
      -- level above var_level
      mk l (subset op vl hi) (subset op vl lo)
    else if l = vl then
      match op with
      | .change => mk l lo hi          -- the swap of hi and lo is intentional
      | .subset0 => lo                 -- child(1 - VAL)
      | .subset1 => hi
    else
      -- var_level above level
      match op with
      | .subset0 => .node l hi lo
      | .subset1 => .empty
      | .change => mk vl (.node l hi lo) .empty
  | t =>
    match op with
    | .subset0 => t
    | .subset1 => .empty
    | .change => mk vl t .empty

/-- `apply_union`. The operand swap `f > g` only affects the apply-cache key; the three level
cases are symmetric. A terminal has level `LevelNo::MAX`, i.e. is below every inner node. -/
def union (f g : ZDD) : ZDD :=
  if f = g ∨ g = .empty then f else
  if f = .empty then g else
  match f, g with
  | .node fl fhi flo, .node gl ghi glo =>
    if fl < gl then mk fl fhi (union flo (.node gl ghi glo))
    else if fl = gl then mk fl (union fhi ghi) (union flo glo)
    else mk gl ghi (union (.node fl fhi flo) glo)
  | .node fl fhi flo, g => mk fl fhi (union flo g)
  | f, .node gl ghi glo => mk gl ghi (union f glo)
  | f, _ => f -- unreachable: two distinct non-empty terminals do not exist
termination_by f.size + g.size
decreasing_by
  all_goals simp_wf
  all_goals simp only [ZDD.size]
  all_goals omega

/-- `apply_intsec` -/
def intsec (f g : ZDD) : ZDD :=
  if f = g then f else
  if f = .empty ∨ g = .empty then .empty else
  match f, g with
  | .node fl fhi flo, .node gl ghi glo =>
    if fl < gl then intsec flo (.node gl ghi glo)
    else if fl = gl then mk fl (intsec fhi ghi) (intsec flo glo)
    else intsec (.node fl fhi flo) glo
  | .node _ _ flo, g => intsec flo g
  | f, .node _ _ glo => intsec f glo
  | f, _ => f -- unreachable
termination_by f.size + g.size
decreasing_by
  all_goals simp_wf
  all_goals simp only [ZDD.size]
  all_goals omega

/-- `apply_diff` -/
def diff (f g : ZDD) : ZDD :=
  if f = g ∨ f = .empty then .empty else
  if g = .empty then f else
  match f, g with
  | .node fl fhi flo, .node gl ghi glo =>
    if fl < gl then mk fl fhi (diff flo (.node gl ghi glo))
    else if fl = gl then mk fl (diff fhi ghi) (diff flo glo)
    else diff (.node fl fhi flo) glo
  | .node fl fhi flo, g => mk fl fhi (diff flo g)
  | f, .node _ _ glo => diff f glo
  | f, _ => f -- unreachable
termination_by f.size + g.size
decreasing_by
  all_goals simp_wf
  all_goals simp only [ZDD.size]
  all_goals omega

/-- `apply_symm_diff` -/
def symmDiff (f g : ZDD) : ZDD :=
  if f = g then .empty else
  if f = .empty then g else
  if g = .empty then f else
  match f, g with
  | .node fl fhi flo, .node gl ghi glo =>
    if fl < gl then mk fl fhi (symmDiff flo (.node gl ghi glo))
    else if fl = gl then mk fl (symmDiff fhi ghi) (symmDiff flo glo)
    else mk gl ghi (symmDiff (.node fl fhi flo) glo)
  | .node fl fhi flo, g => mk fl fhi (symmDiff flo g)
  | f, .node gl ghi glo => mk gl ghi (symmDiff f glo)
  | f, _ => f -- unreachable
termination_by f.size + g.size
decreasing_by
  all_goals simp_wf
  all_goals simp only [ZDD.size]
  all_goals omega

/-- `apply_not`: `tautology(0) ∖ f` -/
def applyNot (n : Nat) (f : ZDD) : ZDD := diff (taut n 0) f

/-- `apply_ite` -/
def applyIte (n : Nat) (f g h : ZDD) : ZDD :=
  -- terminal cases
  if g = h then g else
  if f = g then union f h else
  if f = h then intsec f g else
  if f = .empty then h else
  if g = .empty then diff h f else     -- f < h = h ∖ f
  if h = .empty then intsec f g else
  let flevel := f.level
  let glevel := g.level
  let hlevel := h.level
  let ghlevel := min glevel hlevel
  let level := min flevel ghlevel
  let tautology := taut n level
  if f = tautology then g else
  if g = tautology then union f h else
  if flevel > ghlevel then
    if glevel < hlevel then
      match g with
      | .node _ _ glo => applyIte n f glo h
      | _ => .empty -- unreachable: `glevel < hlevel ≤ MAX`; `unwrap_inner` would panic
    else
      match h with
      | .node _ hhi hlo => mk level hhi (applyIte n f (if glevel = hlevel then g.lo else g) hlo)
      | _ => .empty -- unreachable: `hlevel ≤ glevel`, `hlevel < flevel ≤ MAX`
  else if flevel < ghlevel then
    match f with
    | .node _ _ flo => applyIte n flo g h
    | _ => .empty -- unreachable: `flevel < MAX`
  else
    match f with
    | .node _ fhi flo =>
      if hlevel > flevel then
        mk level (intsec fhi g.hi) (applyIte n flo g.lo h)
      else if glevel > flevel then
        mk level (diff h.hi fhi) (applyIte n flo g h.lo)
      else
        mk level (applyIte n fhi g.hi h.hi) (applyIte n flo g.lo h.lo)
    | _ => .empty -- unreachable: `f = Base` forces `g = h = Base`
termination_by f.size + g.size + h.size
decreasing_by
  all_goals simp_wf
  all_goals (
    have := ZDD.lo_size_le g; have := ZDD.hi_size_le g
    have := ZDD.lo_size_le h; have := ZDD.hi_size_le h
    simp only [ZDD.size]
    (try split) <;> omega)

/-- the eight binary operators of `BooleanFunction` -/
inductive Op where
  | and | or | nand | nor | xor | equiv | imp | impStrict
deriving DecidableEq, Repr, Inhabited

def Op.sem : Op → Bool → Bool → Bool
  | .and, a, b => a && b
  | .or, a, b => a || b
  | .nand, a, b => !(a && b)
  | .nor, a, b => !(a || b)
  | .xor, a, b => a != b
  | .equiv, a, b => a == b
  | .imp, a, b => !a || b
  | .impStrict, a, b => !a && b

/-- `and_edge … imp_strict_edge` of `impl BooleanFunction for ZBDDFunction` -/
def applyBin (n : Nat) : Op → ZDD → ZDD → ZDD
  | .and, f, g => intsec f g
  | .or, f, g => union f g
  | .nand, f, g => applyNot n (intsec f g)
  | .nor, f, g => applyNot n (union f g)
  | .xor, f, g => symmDiff f g
  | .equiv, f, g => applyNot n (symmDiff f g)
  | .imp, f, g => applyIte n f g (taut n 0)
  | .impStrict, f, g => diff g f

/-- `restrict_base` (local to `restrict`): restriction of `Base` (all variables from `level` on
are 0) by the literal cube `vars` -/
def restrictBase (n : Nat) (vars : ZDD) (level : Nat) : ZDD :=
  match vars with
  | .node vl vhi vlo =>
    if vhi ≠ vlo then
      -- positive literal: select the (zero-suppressed) HI branch of Base
      .empty
    else
      let res := restrictBase n vhi (vl + 1)
      if vl > level ∧ res ≠ .empty then
        -- don't-care nodes for the negative literals on the levels `level .. vl-1`
        (List.range' level (vl - level)).foldr (fun l r => .node l r r) res
      else res
  | _ => taut n level

/-- `restrict(f, vars, level)`; `debug_assert!(flevel >= level)` is the guard of the second
match arm (the Rust function would not terminate otherwise) -/
def restrict (n : Nat) (f vars : ZDD) (level : Nat) : ZDD :=
  match f with
  | .empty => .empty
  | .base => restrictBase n vars level
  | .node fl fhi flo =>
    if fl < level then .node fl fhi flo else -- excluded by `debug_assert!(flevel >= level)`
    if vars.level ≠ level then
      -- negative literal at `level`: select the LO branch
      mk1 level (restrict n (if fl = level then flo else .node fl fhi flo) vars (level + 1))
    else
      match vars with
      | .node _ vhi vlo =>
        if vhi ≠ vlo then
          -- positive literal: select the HI branch
          if fl ≠ level then .empty
          else mk1 level (restrict n fhi vhi (level + 1))
        else if fl ≠ level then restrict n (.node fl fhi flo) vhi (level + 1)
        else mk level (restrict n fhi vhi (level + 1)) (restrict n flo vhi (level + 1))
      | _ => .empty -- unreachable: `vars.level = level` only for inner nodes with `level < MAX`
termination_by (f.size + vars.size, f.level - level)
decreasing_by
  all_goals simp_wf
  · split
    · apply Prod.Lex.left; simp only [ZDD.size]; omega
    · apply Prod.Lex.right'
      · omega
      · simp only [ZDD.level]; omega
  all_goals (apply Prod.Lex.left; simp only [ZDD.size]; omega)

/-- `restrict_edge`: start at level 0 -/
def restrictTop (n : Nat) (f vars : ZDD) : ZDD := restrict n f vars 0

/-- `pick_cube_edge`, inner walk: `(level, value)` decisions along the single path, `none` = don't
care (`OptBool::None`); all other variables keep the initial value `OptBool::False` -/
def pickPath (choice : Nat → Bool) : ZDD → List (Nat × Option Bool)
  | .node l hi lo =>
    if hi = lo then (l, none) :: pickPath choice hi
    else
      let c := if lo = .empty then true else choice l
      if c then (l, some true) :: pickPath choice hi else (l, some false) :: pickPath choice lo
  | _ => []

/-- `pick_cube_edge`: `None` for `∅`, all-false for `Base` -/
def pickCube (choice : Nat → Bool) (f : ZDD) : Option (List (Nat × Option Bool)) :=
  match f with
  | .empty => none
  | _ => some (pickPath choice f)

/-- `pick_cube_dd_edge` (the nodes are inserted directly, no reduction rule is applied) -/
def pickCubeDD (choice : Nat → Bool) : ZDD → ZDD
  | .node l hi lo =>
    let doNotCare := hi = lo
    let c := if hi = lo ∨ lo = .empty then true else choice l
    if c then
      let sub := pickCubeDD choice hi
      .node l sub (if doNotCare then sub else .empty)
    else pickCubeDD choice lo
  | t => t

/-- `set_pop` (local to `pick_cube_dd_set_edge`): follow the HI edges of the literal set down to
level `until`; the node is returned only if it is exactly at that level -/
def setPop (set : ZDD) (until_ : Nat) : ZDD × Option (ZDD × ZDD) :=
  match set with
  | .node l shi slo =>
    if l < until_ then setPop shi until_
    else if l = until_ then (set, some (shi, slo))
    else (set, none)
  | _ => (set, none)

/-- `pick_cube_dd_set_edge` -/
def pickCubeDDSet (f literalSet : ZDD) : ZDD :=
  match f with
  | .node l hi lo =>
    let (ls, setNode) := setPop literalSet l
    let (c, doNotCare) : Bool × Bool :=
      if lo = .empty then (true, false)   -- enforced
      else match setNode with
        | some (shi, slo) => (true, if shi = slo then decide (hi = lo) else false)
        | none => (false, false)
    if c then
      let sub := pickCubeDDSet hi ls
      .node l sub (if doNotCare then sub else .empty)
    else pickCubeDDSet lo ls
  | t => t

/-- `sat_count_edge::inner` over exact naturals: the number of paths to `Base` -/
def pathCount : ZDD → Nat
  | .empty => 0
  | .base => 1
  | .node _ hi lo => pathCount hi + pathCount lo

/-- `sat_count_edge` over exact naturals: `count << (vars - num_levels)` if `vars ≥ num_levels`
(the variables beyond the manager's are don't cares), `count >> (num_levels - vars)` otherwise -/
def satCount (n vars : Nat) (f : ZDD) : Nat :=
  if vars ≥ n then pathCount f <<< (vars - n) else pathCount f >>> (n - vars)

/-- number of members of the family over the levels `[k, n)` (reference semantics for counting) -/
def countFrom (n : Nat) : Nat → ZDD → Nat
  | _, .empty => 0
  | _, .base => 1
  | _, .node l hi lo => countFrom n (l + 1) hi + countFrom n (l + 1) lo

/-- all distinct subtrees (the nodes of the shared diagram), used for `node_count` -/
def subtrees : ZDD → List ZDD → List ZDD
  | .node l hi lo, acc =>
    if acc.contains (.node l hi lo) then acc
    else .node l hi lo :: subtrees lo (subtrees hi acc)
  | t, acc => if acc.contains t then acc else t :: acc

def nodeCount (f : ZDD) : Nat := (subtrees f []).length

/-- number of levels in `[k, k+c)` whose variable is true -/
def countOnes (σ : Nat → Bool) : Nat → Nat → Nat
  | 0, _ => 0
  | c+1, k => (if σ k then 1 else 0) + countOnes σ c (k+1)

/-- `eval_edge::inner`: walk along the assignment, decrementing `ones` at every node whose
variable is true; satisfied iff `Base` is reached with `ones = 0` -/
def walk (σ : Nat → Bool) : ZDD → Nat → Bool
  | .node l hi lo, ones => if σ l then walk σ hi (ones - 1) else walk σ lo ones
  | .base, ones => ones == 0
  | .empty, _ => false

/-- `eval_edge`: `ones` starts as the number of variables set to true -/
def evalEdge (n : Nat) (σ : Nat → Bool) (f : ZDD) : Bool := walk σ f (countOnes σ n 0)

/-- `f_edge` / `t_edge` / `empty_edge` / `base_edge` -/
def constF : ZDD := .empty
def constT (n : Nat) : ZDD := taut n 0

/-- `not_var` (default method of `BooleanFunction`): `not(var)` -/
def notVar (n level : Nat) : ZDD := applyNot n (var n level)

end OxiddModel.Zbdd
