import OxiddModel.Zbdd.Canon
import OxiddModel.Zbdd.Subset

/-! Cube picking: `pick_cube`, `pick_cube_dd`, `pick_cube_dd_set` return a non-empty cube that
implies the function; `pick_cube` and `pick_cube_dd` describe the same cube. -/
namespace OxiddModel.Zbdd
open ZDD

/-- the shape shared by `pick_cube_dd` and `pick_cube_dd_set`: at every node of the function either
the HI edge is followed (the result gets a node that is a don't care only if `hi = lo`) or — only if
`lo ≠ ∅` — the LO edge (the result skips the level) -/
inductive IsPick : ZDD → ZDD → Prop
  | empty : IsPick .empty .empty
  | base : IsPick .base .base
  | dontCare {l : Nat} {a s : ZDD} : IsPick a s → IsPick (.node l a a) (.node l s s)
  | selHi {l : Nat} {a b s : ZDD} : IsPick a s → IsPick (.node l a b) (.node l s .empty)
  | selLo {l : Nat} {a b s : ZDD} : b ≠ .empty → IsPick b s → IsPick (.node l a b) s

theorem IsPick.ordered {f r : ZDD} (hp : IsPick f r) {n k : Nat} (hf : Ordered n k f) : Ordered n k r := by
  induction hp generalizing k with
  | empty => exact .empty
  | base => exact .base
  | dontCare _ ih => cases hf with | node h1 h2 oh ol => exact .node h1 h2 (ih oh) (ih oh)
  | selHi _ ih => cases hf with | node h1 h2 oh ol => exact .node h1 h2 (ih oh) .empty
  | selLo _ _ ih => cases hf with | node h1 h2 oh ol => exact (ih ol).mono (by omega)

theorem IsPick.ne_empty {f r : ZDD} (hp : IsPick f r) (hne : f ≠ .empty) : r ≠ .empty := by
  induction hp with
  | empty => exact hne
  | base => simp
  | dontCare _ _ => simp
  | selHi _ _ => simp
  | selLo h _ ih => exact ih h

theorem IsPick.reduced {f r : ZDD} (hp : IsPick f r) (hr : Reduced f) : Reduced r := by
  induction hp with
  | empty => trivial
  | base => trivial
  | dontCare hp ih => exact ⟨hp.ne_empty hr.1, ih hr.2.1, ih hr.2.1⟩
  | selHi hp ih => exact ⟨hp.ne_empty hr.1, ih hr.2.1, trivial⟩
  | selLo _ _ ih => exact ih hr.2.2

/-- the picked cube implies the function -/
theorem IsPick.implies {f r : ZDD} (hp : IsPick f r) {n k : Nat} (hf : Ordered n k f) (σ : Nat → Bool)
    (h : eval n σ k r = true) : eval n σ k f = true := by
  induction hp generalizing k with
  | empty => exact h
  | base => exact h
  | dontCare _ ih =>
    cases hf with | node h1 h2 oh ol =>
    simp only [eval, Bool.and_eq_true] at h ⊢
    refine ⟨h.1, ?_⟩
    have := h.2
    cases hσ : σ _ <;> simp only [hσ, Bool.false_eq_true, if_false, if_true] at this ⊢ <;> exact ih oh this
  | selHi _ ih =>
    cases hf with | node h1 h2 oh ol =>
    simp only [eval, Bool.and_eq_true] at h ⊢
    refine ⟨h.1, ?_⟩
    have := h.2
    cases hσ : σ _ <;> simp only [hσ, Bool.false_eq_true, if_false, if_true] at this ⊢
    exact ih oh this
  | selLo _ hp ih =>
    cases hf with | node h1 h2 oh ol =>
    rw [eval_below σ (hp.ordered ol) h1 h2] at h
    simp only [Bool.and_eq_true, Bool.not_eq_eq_eq_not, Bool.not_true] at h
    obtain ⟨⟨hA, hs⟩, hr⟩ := h
    simp only [eval, hA, hs, Bool.true_and, Bool.false_eq_true, if_false]
    exact ih ol hr

/-! ## `pick_cube_dd` -/

theorem pickCubeDD_node (choice : Nat → Bool) (l : Nat) (hi lo : ZDD) :
    pickCubeDD choice (.node l hi lo) =
      if hi = lo then .node l (pickCubeDD choice hi) (pickCubeDD choice hi)
      else if lo = .empty ∨ choice l = true then .node l (pickCubeDD choice hi) .empty
      else pickCubeDD choice lo := by
  simp only [pickCubeDD]
  by_cases h1 : hi = lo
  · simp [h1]
  · by_cases h2 : lo = .empty
    · subst h2; simp [h1]
    · cases hc : choice l <;> simp [h1, h2]

theorem pickCubeDD_isPick (choice : Nat → Bool) (f : ZDD) : IsPick f (pickCubeDD choice f) := by
  induction f with
  | empty => exact .empty
  | base => exact .base
  | node l hi lo ihh ihl =>
    rw [pickCubeDD_node]
    split
    · rename_i h; subst h; exact .dontCare ihh
    · split
      · exact .selHi ihh
      · rename_i h; exact .selLo (fun e => h (.inl e)) ihl

/-! ## `pick_cube`: the decision list describes the same cube -/

/-- meaning of the decision list of `pick_cube` as a cube over the levels `[k, n)`: a listed level
has the listed value (`none` = don't care), every other level is 0 (the vector is initialised with
`OptBool::False`) -/
def pathEval (n : Nat) (σ : Nat → Bool) : Nat → List (Nat × Option Bool) → Bool
  | k, [] => allFalse σ k n
  | k, (l, v) :: rest =>
    allFalse σ k l && (match v with | none => true | some b => σ l == b) && pathEval n σ (l+1) rest

theorem pickPath_node (choice : Nat → Bool) (l : Nat) (hi lo : ZDD) :
    pickPath choice (.node l hi lo) =
      if hi = lo then (l, none) :: pickPath choice hi
      else if lo = .empty ∨ choice l = true then (l, some true) :: pickPath choice hi
      else (l, some false) :: pickPath choice lo := by
  simp only [pickPath]
  by_cases h1 : hi = lo
  · simp [h1]
  · by_cases h2 : lo = .empty
    · subst h2; simp [h1]
    · cases hc : choice l <;> simp [h1, h2]

/-- `pick_cube` and `pick_cube_dd` describe the same cube -/
theorem pick_same (choice : Nat → Bool) {n k : Nat} {f : ZDD} (hf : Ordered n k f) (hr : Reduced f)
    (hne : f ≠ .empty) (σ : Nat → Bool) :
    eval n σ k (pickCubeDD choice f) = pathEval n σ k (pickPath choice f) := by
  induction hf with
  | empty => exact absurd rfl hne
  | base => rfl
  | @node k l hi lo h1 h2 oh ol ihh ihl =>
    rw [pickCubeDD_node, pickPath_node]
    split
    · simp only [eval, pathEval]
      rw [ihh hr.2.1 hr.1]
      cases σ l <;> simp
    · split
      · simp only [eval, pathEval]
        rw [ihh hr.2.1 hr.1]
        cases σ l <;> simp
      · rename_i h
        simp only [pathEval]
        rw [eval_below σ ((pickCubeDD_isPick choice lo).ordered ol) h1 h2, ihl hr.2.2 (fun e => h (.inl e))]
        cases σ l <;> simp

/-! ## `pick_cube_dd_set` -/

theorem pickCubeDDSet_isPick (f ls : ZDD) : IsPick f (pickCubeDDSet f ls) := by
  induction f generalizing ls with
  | empty => exact .empty
  | base => exact .base
  | node l hi lo ihh ihl =>
    simp only [pickCubeDDSet]
    by_cases hlo : lo = .empty
    · simp only [hlo, if_true]
      exact .selHi (ihh _)
    · simp only [hlo, if_false]
      cases hs : (setPop ls l).2 with
      | none => simp only [Bool.false_eq_true, if_false]; exact .selLo hlo (ihl _)
      | some p =>
        obtain ⟨shi, slo⟩ := p
        simp only [if_true]
        by_cases h1 : shi = slo
        · by_cases h2 : hi = lo
          · subst h2; simp only [h1, if_true, decide_true]; exact .dontCare (ihh _)
          · simp only [h1, h2, if_true, decide_false, Bool.false_eq_true, if_false]; exact .selHi (ihh _)
        · simp only [h1, if_false, Bool.false_eq_true]; exact .selHi (ihh _)

end OxiddModel.Zbdd
