import OxiddModel.Zbdd.PropertiesC13O

/-!
# ZBDD: the `choice` callback may depend on the edge it is given

As `Bcdd/PickEO.lean`, for `crates/oxidd-rules-zbdd/src/apply_rec.rs`: the callback is an arbitrary
function of the edge and the level (`pickWalkZE`, `pickCubeZE`, `pickCubeDdZE`); on ordered
diagrams the run with it is the run with the level-only callback `levelChoiceZ` (`pickZE_reduces`),
so the theorems of `PropertiesC13O.lean` transfer (`pickCubeZE_member`).
-/
namespace OxiddModel.Zbdd.PickEO
open OxiddModel.Zbdd OxiddModel.Zbdd.ZDD OxiddModel.Zbdd.Refine OxiddModel.PickO
open OxiddModel.Zbdd.PickSO

/-- `pick_cube_edge::inner` with `choice(manager, &edge, level)` -/
def pickWalkZE (s : Store) (ce : ZEdge → Nat → Bool) : Nat → ZEdge → Path
  | 0, _ => []
  | fuel+1, x =>
    match x with
    | .inner i =>
      match s.get? i with
      | none => []
      | some nd =>
        if nd.hi = nd.lo then (nd.level, none) :: pickWalkZE s ce fuel nd.hi
        else
          let c := if nd.lo = .empty then true else ce x nd.level
          (nd.level, some c) :: pickWalkZE s ce fuel (if c then nd.hi else nd.lo)
    | _ => []

def pickCubeZE (s : Store) (l2v : Nat → Nat) (n : Nat) (ce : ZEdge → Nat → Bool) (fuel : Nat)
    (x : ZEdge) : Option Vec :=
  match x with
  | .empty => none
  | .base => some (List.replicate n (some false))
  | .inner _ => some (writeVec l2v (pickWalkZE s ce fuel x) (List.replicate n (some false)))

/-- `pick_cube_dd_edge::inner` with `choice(manager, &edge, level)` -/
def pickCubeDdZE (ce : ZEdge → Nat → Bool) : Nat → Store → ZEdge → Store × ZEdge
  | 0, s, x => (s, x)
  | fuel+1, s, x =>
    match x with
    | .inner i =>
      match s.get? i with
      | none => (s, x)
      | some nd =>
        let c := if nd.hi = nd.lo ∨ nd.lo = .empty then true else ce x nd.level
        let sub := pickCubeDdZE ce fuel s (if c then nd.hi else nd.lo)
        if c then sub.1.getOrInsert ⟨nd.level, sub.2, if nd.hi = nd.lo then sub.2 else .empty⟩
        else sub
    | _ => (s, x)

/-- the level-only callback that reproduces the answers of `ce` along the walk from `x` -/
def levelChoiceZ (s : Store) (ce : ZEdge → Nat → Bool) : Nat → ZEdge → Nat → Bool
  | 0, _ => fun _ => false
  | fuel+1, x =>
    match x with
    | .inner i =>
      match s.get? i with
      | none => fun _ => false
      | some nd =>
        let c := if nd.hi = nd.lo ∨ nd.lo = .empty then true else ce x nd.level
        fun l => if l = nd.level then ce x nd.level
          else levelChoiceZ s ce fuel (if c then nd.hi else nd.lo) l
    | _ => fun _ => false

theorem pickWalkZ_congr {s : Store} (ch ch' : Nat → Bool) : ∀ (fuel : Nat) (x : ZEdge) (a : ZDD)
    (n k : Nat), DenotesZ s x a → Ordered n k a → (∀ l, k ≤ l → ch l = ch' l) →
    pickWalkZ s ch fuel x = pickWalkZ s ch' fuel x := by
  intro fuel
  induction fuel with
  | zero => intros; rfl
  | succ fuel ih =>
    intro x a n k hd ho hag
    cases hd with
    | empty => rfl
    | base => rfl
    | @inner i l eh el th tl hi hh hl =>
      cases ho with
      | node hk hn oh ol =>
        simp only [pickWalkZ, hi]
        rw [hag l hk]
        have ihh := ih eh th n (l+1) hh oh (fun l' hl' => hag l' (by omega))
        have ihl := ih el tl n (l+1) hl ol (fun l' hl' => hag l' (by omega))
        split
        · rw [ihh]
        · cases (if el = ZEdge.empty then true else ch' l)
          · simp only [Bool.false_eq_true, if_false]; rw [ihl]
          · simp only [if_true]; rw [ihh]

theorem pickCubeDdZ_congr (ch ch' : Nat → Bool) : ∀ (fuel : Nat) (s : Store) (x : ZEdge) (a : ZDD)
    (n k : Nat), DenotesZ s x a → Ordered n k a → (∀ l, k ≤ l → ch l = ch' l) →
    pickCubeDdZ ch fuel s x = pickCubeDdZ ch' fuel s x := by
  intro fuel
  induction fuel with
  | zero => intros; rfl
  | succ fuel ih =>
    intro s x a n k hd ho hag
    cases hd with
    | empty => rfl
    | base => rfl
    | @inner i l eh el th tl hi hh hl =>
      cases ho with
      | node hk hn oh ol =>
        simp only [pickCubeDdZ, hi]
        rw [hag l hk]
        have ihh := ih s eh th n (l+1) hh oh (fun l' hl' => hag l' (by omega))
        have ihl := ih s el tl n (l+1) hl ol (fun l' hl' => hag l' (by omega))
        cases (if eh = el ∨ el = ZEdge.empty then true else ch' l)
        · simp only [Bool.false_eq_true, if_false]; rw [ihl]
        · simp only [if_true]; rw [ihh]

theorem pickWalkZE_eq {s : Store} (ce : ZEdge → Nat → Bool) : ∀ (fuel : Nat) (x : ZEdge) (a : ZDD)
    (n k : Nat), DenotesZ s x a → Ordered n k a →
    pickWalkZE s ce fuel x = pickWalkZ s (levelChoiceZ s ce fuel x) fuel x := by
  intro fuel
  induction fuel with
  | zero => intros; rfl
  | succ fuel ih =>
    intro x a n k hd ho
    cases hd with
    | empty => rfl
    | base => rfl
    | @inner i l eh el th tl hi hh hl =>
      cases ho with
      | node hk hn oh ol =>
        simp only [pickWalkZE, pickWalkZ, levelChoiceZ, hi, if_true]
        have key : ∀ (child : ZEdge) (tc : ZDD), DenotesZ s child tc → Ordered n (l+1) tc →
            ∀ (rest : Nat → Bool), rest = levelChoiceZ s ce fuel child →
            pickWalkZE s ce fuel child =
              pickWalkZ s (fun l' => if l' = l then ce (.inner i) l else rest l') fuel child := by
          intro child tc hc oc rest hr
          rw [ih child tc n (l+1) hc oc, hr]
          apply pickWalkZ_congr _ _ fuel child tc n (l+1) hc oc
          intro l' hl'
          have : ¬ l' = l := by omega
          simp [this]
        split
        · rename_i heq
          have : (eh = el ∨ el = ZEdge.empty) := Or.inl heq
          simp only [this, if_true]
          rw [key eh th hh oh _ rfl]
        · rename_i hne
          by_cases he : el = ZEdge.empty
          · simp only [he, or_true, if_true]
            rw [key eh th hh oh _ rfl]
          · simp only [he, hne, or_self, if_false]
            cases hc : ce (.inner i) l
            · simp only [Bool.false_eq_true, if_false]
              rw [key el tl hl ol _ rfl, hc]
            · simp only [if_true]
              rw [key eh th hh oh _ rfl, hc]

theorem pickCubeDdZE_eq (ce : ZEdge → Nat → Bool) : ∀ (fuel : Nat) (s : Store) (x : ZEdge) (a : ZDD)
    (n k : Nat), DenotesZ s x a → Ordered n k a →
    pickCubeDdZE ce fuel s x = pickCubeDdZ (levelChoiceZ s ce fuel x) fuel s x := by
  intro fuel
  induction fuel with
  | zero => intros; rfl
  | succ fuel ih =>
    intro s x a n k hd ho
    cases hd with
    | empty => rfl
    | base => rfl
    | @inner i l eh el th tl hi hh hl =>
      cases ho with
      | node hk hn oh ol =>
        simp only [pickCubeDdZE, pickCubeDdZ, levelChoiceZ, hi, if_true]
        have key : ∀ (child : ZEdge) (tc : ZDD), DenotesZ s child tc → Ordered n (l+1) tc →
            ∀ (rest : Nat → Bool), rest = levelChoiceZ s ce fuel child →
            pickCubeDdZE ce fuel s child =
              pickCubeDdZ (fun l' => if l' = l then ce (.inner i) l else rest l') fuel s child := by
          intro child tc hc oc rest hr
          rw [ih s child tc n (l+1) hc oc, hr]
          apply pickCubeDdZ_congr _ _ fuel s child tc n (l+1) hc oc
          intro l' hl'
          have : ¬ l' = l := by omega
          simp [this]
        by_cases hcond : eh = el ∨ el = ZEdge.empty
        · simp only [hcond, if_true]
          rw [key eh th hh oh _ rfl]
        · simp only [hcond, if_false]
          cases hc : ce (.inner i) l
          · simp only [Bool.false_eq_true, if_false]
            rw [key el tl hl ol _ rfl, hc]
          · simp only [if_true]
            rw [key eh th hh oh _ rfl, hc]

/-- **Edge-dependent callbacks add nothing**: for every callback `ce` of the edge and the level
there is a level-only callback with which `pick_cube` and `pick_cube_dd` behave identically on
this input (store, result edge, vector). -/
theorem pickZE_reduces (s : Store) (l2v : Nat → Nat) (n : Nat) (ce : ZEdge → Nat → Bool)
    (fuel : Nat) (x : ZEdge) (a : ZDD) (hd : DenotesZ s x a) (m k : Nat) (ho : Ordered m k a) :
    ∃ ch : Nat → Bool,
      pickWalkZE s ce fuel x = pickWalkZ s ch fuel x ∧
      pickCubeZE s l2v n ce fuel x = pickCubeZ s l2v n ch fuel x ∧
      pickCubeDdZE ce fuel s x = pickCubeDdZ ch fuel s x := by
  have hw := pickWalkZE_eq ce fuel x a m k hd ho
  refine ⟨levelChoiceZ s ce fuel x, hw, ?_, pickCubeDdZE_eq ce fuel s x a m k hd ho⟩
  cases x with
  | empty => rfl
  | base => rfl
  | inner i => simp only [pickCubeZE, pickCubeZ, hw]

/-- the membership theorem for arbitrary callbacks -/
theorem pickCubeZE_member (s : Store) (hu : s.Unique) (l2v : Nat → Nat) (n : Nat)
    (ho : OrderOK l2v n) (ce : ZEdge → Nat → Bool) (fuel : Nat) (x : ZEdge) (a : ZDD)
    (hd : DenotesZ s x a) (ha : NF n 0 a) (hf : a.size ≤ fuel) (vec : Vec)
    (h : pickCubeZE s l2v n ce fuel x = some vec) (ρ : Nat → Bool) (hag : Agree ρ vec) :
    fam n a (fun l => ρ (l2v l)) = true := by
  obtain ⟨ch, _, h2, _⟩ := pickZE_reduces s l2v n ce fuel x a hd n 0 ha.1
  rw [h2] at h
  exact C13O.pickCubeZ_member s hu l2v n ho ch fuel x a hd ha hf vec h ρ hag

/-- non-vacuity: a callback that looks at the edge it is given -/
example : pickCubeZE C13O.sTail C13O.cyc3 3 (fun y _ => y == .inner 2) 9 (.inner 2) =
    some [none, some true, none] := by decide

end OxiddModel.Zbdd.PickEO
