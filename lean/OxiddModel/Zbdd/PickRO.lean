import OxiddModel.Zbdd.RcSLemmasAlg
import OxiddModel.Zbdd.RcSLemmas
import OxiddModel.Zbdd.PickSO

/-!
# ZBDD `pick_cube_dd` with reference counters and node capacity

`pickCubeDdZR cap choice` is `pick_cube_dd_edge::inner` of
`crates/oxidd-rules-zbdd/src/apply_rec.rs` on the counted store of `Zbdd/RcS.lean`:

* terminal: `Ok(manager.clone_edge(&edge))`;
* node: `let sub = inner(if c {hi} else {lo})`; `if !c { return sub }`;
  `let hi = EdgeDropGuard::new(manager, sub?)`;
  `let lo = if do_not_care { manager.clone_edge(&hi) } else { get_terminal(Empty)? }` (the terminal
  is static: no counter); `get_or_insert(level, [hi, lo])` = `insertR` with its three outcomes.

Theorems: `pickCubeDdZR_rc` (counters exact on success and on OutOfMemory, for every capacity and
fuel, no semantic hypothesis), `pickCubeDdZR_erase` (a successful counted run is the run of
`pickCubeDdZ` of `PickSO.lean`; cache and time stamp untouched).
-/
namespace OxiddModel.Zbdd.PickRO
open OxiddModel.Zbdd OxiddModel.Zbdd.Refine OxiddModel.Zbdd.Rc OxiddModel.Zbdd.PickSO

/-- the part after `let sub = inner(..)` for `c = true` -/
def pickNodeZR (cap : Nat) (level : Nat) (doNotCare : Bool) : Option ZEdge × RSt → Option ZEdge × RSt
  | (none, r1) => (none, r1)
  | (some s, r1) =>
    if doNotCare then insertR cap (cloneEdge r1 s) level s s else insertR cap r1 level s .empty

/-- `pick_cube_dd_edge::inner` with counters -/
def pickCubeDdZR (cap : Nat) (choice : Nat → Bool) : Nat → RSt → ZEdge → Option ZEdge × RSt
  | 0, r, x => (some x, cloneEdge r x)
  | fuel+1, r, x =>
    match x with
    | .inner i =>
      match r.st.store.get? i with
      | none => (some x, cloneEdge r x)
      | some nd =>
        let c := if nd.hi = nd.lo ∨ nd.lo = .empty then true else choice nd.level
        let sub := pickCubeDdZR cap choice fuel r (if c then nd.hi else nd.lo)
        if c then pickNodeZR cap nd.level (decide (nd.hi = nd.lo)) sub else sub
    | _ => (some x, cloneEdge r x)

theorem pickNodeZR_rc {cap : Nat} {l : Nat} {d : Bool} {r : RSt} {ext : List ZEdge}
    {R : Option ZEdge × RSt} (h : RcPost r ext R) : RcPost r ext (pickNodeZR cap l d R) := by
  obtain ⟨o, r1⟩ := R
  cases o with
  | none => exact h
  | some s =>
    simp only [pickNodeZR]
    cases d
    · simp only [Bool.false_eq_true, if_false]
      have h2 : RcInv r1 (s :: .empty :: ext) :=
        (cloneEdge_rc (x := .empty) h.2 trivial).swap
      exact ⟨h.1.trans (insertR_le _ _ _ _ _), insertR_rc h2⟩
    · simp only [if_true]
      have hs : has r1.st.store s := h.2.ext_ok s List.mem_cons_self
      have h2 : RcInv (cloneEdge r1 s) (s :: s :: ext) := cloneEdge_rc h.2 hs
      refine ⟨h.1.trans ?_, insertR_rc h2⟩
      have := insertR_le cap (cloneEdge r1 s) l s s
      rwa [cloneEdge_st] at this

/-- **counters exact**: from a state with exact counters for the caller's edges `ext`, a run of
`pick_cube_dd` ends with exact counters for `result :: ext` on success and for `ext` on
OutOfMemory; the store is only extended. For every capacity, choice, fuel and stored edge. -/
theorem pickCubeDdZR_rc (cap : Nat) (choice : Nat → Bool) (fuel : Nat) : ∀ (r : RSt) (x : ZEdge)
    (ext : List ZEdge), RcInv r ext → has r.st.store x →
    RcPost r ext (pickCubeDdZR cap choice fuel r x) := by
  induction fuel with
  | zero => intro r x ext h hx; exact RcPost.clone h hx
  | succ fuel ih =>
    intro r x ext h hx
    unfold pickCubeDdZR
    cases x with
    | empty => exact RcPost.clone h hx
    | base => exact RcPost.clone h hx
    | inner i =>
      simp only
      cases hi : r.st.store.get? i with
      | none => exact RcPost.clone h hx
      | some nd =>
        simp only
        have hk := h.kids_ok i nd hi
        split
        · simp only [if_true]
          exact pickNodeZR_rc (ih r _ ext h hk.1)
        · rename_i hc
          cases hch : choice nd.level
          · simp only [Bool.false_eq_true, if_false]
            exact ih r _ ext h hk.2
          · simp only [if_true]
            exact pickNodeZR_rc (ih r _ ext h hk.1)

/-- **a successful counted run is the plain run**: same store, same result edge; cache and time
stamp are not touched -/
theorem pickCubeDdZR_erase (cap : Nat) (choice : Nat → Bool) (fuel : Nat) : ∀ (r : RSt) (x : ZEdge),
    (pickCubeDdZR cap choice fuel r x).2.st.cache = r.st.cache ∧
    (pickCubeDdZR cap choice fuel r x).2.st.tick = r.st.tick ∧
    ∀ y, (pickCubeDdZR cap choice fuel r x).1 = some y →
      pickCubeDdZ choice fuel r.st.store x = ((pickCubeDdZR cap choice fuel r x).2.st.store, y) := by
  induction fuel with
  | zero =>
    intro r x
    simp only [pickCubeDdZR, pickCubeDdZ, cloneEdge_st, Option.some.injEq, true_and]
    intro y h; rw [h]
  | succ fuel ih =>
    intro r x
    have hclone : (cloneEdge r x).st.cache = r.st.cache ∧ (cloneEdge r x).st.tick = r.st.tick ∧
        ∀ y, (some x = some y) → (r.st.store, x) = ((cloneEdge r x).st.store, y) := by
      simp only [cloneEdge_st, Option.some.injEq, true_and]
      intro y h; rw [h]
    unfold pickCubeDdZR pickCubeDdZ
    cases x with
    | empty => exact hclone
    | base => exact hclone
    | inner i =>
      simp only
      cases hi : r.st.store.get? i with
      | none => exact hclone
      | some nd =>
        simp only
        have key : ∀ (child : ZEdge),
            (pickNodeZR cap nd.level (decide (nd.hi = nd.lo)) (pickCubeDdZR cap choice fuel r child)).2.st.cache = r.st.cache ∧
            (pickNodeZR cap nd.level (decide (nd.hi = nd.lo)) (pickCubeDdZR cap choice fuel r child)).2.st.tick = r.st.tick ∧
            ∀ y, (pickNodeZR cap nd.level (decide (nd.hi = nd.lo)) (pickCubeDdZR cap choice fuel r child)).1 = some y →
              (pickCubeDdZ choice fuel r.st.store child).1.getOrInsert
                  ⟨nd.level, (pickCubeDdZ choice fuel r.st.store child).2,
                    if nd.hi = nd.lo then (pickCubeDdZ choice fuel r.st.store child).2 else .empty⟩ =
                ((pickNodeZR cap nd.level (decide (nd.hi = nd.lo)) (pickCubeDdZR cap choice fuel r child)).2.st.store, y) := by
          intro child
          obtain ⟨c1, c2, c3⟩ := ih r child
          revert c1 c2 c3
          generalize pickCubeDdZR cap choice fuel r child = R
          obtain ⟨o, r1⟩ := R
          intro c1 c2 c3
          cases o with
          | none => simp only [pickNodeZR]; exact ⟨c1, c2, fun y h => by cases h⟩
          | some z =>
            have hz := c3 z rfl
            simp only at hz
            simp only [pickNodeZR]
            by_cases hd : nd.hi = nd.lo
            · simp only [hd, decide_true, if_true]
              have hc := insertR_cache cap (cloneEdge r1 z) nd.level z z
              simp only [cloneEdge_st] at hc
              refine ⟨hc.1.trans c1, hc.2.trans c2, ?_⟩
              intro y hy
              have := (insertR_erase hy).1
              rw [cloneEdge_st] at this
              rw [hz]; exact this
            · simp only [hd, decide_false, Bool.false_eq_true, if_false]
              have hc := insertR_cache cap r1 nd.level z .empty
              refine ⟨hc.1.trans c1, hc.2.trans c2, ?_⟩
              intro y hy
              rw [hz]; exact (insertR_erase hy).1
        split
        · simp only [if_true]
          exact key nd.hi
        · rename_i hc
          cases hch : choice nd.level
          · simp only [Bool.false_eq_true, if_false]
            exact ih r nd.lo
          · simp only [if_true]
            exact key nd.hi

end OxiddModel.Zbdd.PickRO
