import OxiddModel.Zbdd.Pick
import OxiddModel.Zbdd.StoreRefine
import OxiddModel.Bcdd.PickVecO

/-!
# ZBDD `pick_cube` / `pick_cube_dd` over the node store, under an arbitrary variable order

Store-level mirror of `pick_cube_edge` and `pick_cube_dd_edge` of
`crates/oxidd-rules-zbdd/src/apply_rec.rs`:

* `pickWalkZ`: `pick_cube_edge::inner` — `hi == lo` (comparison of **edges**) means don't-care
  (`OptBool::None`; this is how the walk passes through the tautology tail, a chain of nodes with
  two equal children), else `lo` is the terminal `Empty` ⇒ `true`, else `choice(level)`;
* `pickCubeZ l2v n`: `pick_cube_edge` — `Empty` ⇒ `None`, `Base` ⇒ all `False`, otherwise a vector
  of `num_levels` entries `OptBool::False` into which the walk writes **at index
  `level_to_var(level)`** — every variable that is not on the walk stays forced to `false`;
* `pickCubeDdZ`: `pick_cube_dd_edge::inner` — on the way back, for `c = true` the node
  `(level, [sub, if do_not_care {sub} else {Empty}])` is inserted with `get_or_insert` (no
  reduction rule), for `c = false` the sub-result is returned unchanged.

Bridges (`pickWalkZ_eq`, `pickCubeDdZ_spec`): in a duplicate-free store (`Store.Unique`, needed
because the code compares edges where the tree model compares trees) the store walk is the tree
walk `pickPath`, and `pickCubeDdZ` returns an edge denoting `pickCubeDD` in an extended,
still duplicate-free store.
-/
namespace OxiddModel.Zbdd.PickSO
open OxiddModel.Zbdd OxiddModel.Zbdd.ZDD OxiddModel.Zbdd.Refine OxiddModel.PickO

/-- `pick_cube_edge::inner` on the store -/
def pickWalkZ (s : Store) (choice : Nat → Bool) : Nat → ZEdge → Path
  | 0, _ => []
  | fuel+1, x =>
    match x with
    | .inner i =>
      match s.get? i with
      | none => []
      | some nd =>
        if nd.hi = nd.lo then (nd.level, none) :: pickWalkZ s choice fuel nd.hi
        else
          let c := if nd.lo = .empty then true else choice nd.level
          (nd.level, some c) :: pickWalkZ s choice fuel (if c then nd.hi else nd.lo)
    | _ => []

/-- `pick_cube_edge`: vector indexed by variable, initial value `OptBool::False` -/
def pickCubeZ (s : Store) (l2v : Nat → Nat) (n : Nat) (choice : Nat → Bool) (fuel : Nat)
    (x : ZEdge) : Option Vec :=
  match x with
  | .empty => none
  | .base => some (List.replicate n (some false))
  | .inner _ => some (writeVec l2v (pickWalkZ s choice fuel x) (List.replicate n (some false)))

/-- the defective variant (seeded change `R5b-C13`): entries written at index `level` -/
def pickCubeByLevelZ (s : Store) (n : Nat) (choice : Nat → Bool) (fuel : Nat) (x : ZEdge) :
    Option Vec := pickCubeZ s id n choice fuel x

/-- `pick_cube_dd_edge::inner` on the store -/
def pickCubeDdZ (choice : Nat → Bool) : Nat → Store → ZEdge → Store × ZEdge
  | 0, s, x => (s, x)
  | fuel+1, s, x =>
    match x with
    | .inner i =>
      match s.get? i with
      | none => (s, x)
      | some nd =>
        let c := if nd.hi = nd.lo ∨ nd.lo = .empty then true else choice nd.level
        let sub := pickCubeDdZ choice fuel s (if c then nd.hi else nd.lo)
        if c then sub.1.getOrInsert ⟨nd.level, sub.2, if nd.hi = nd.lo then sub.2 else .empty⟩
        else sub
    | _ => (s, x)

/-! ## bridge to the tree level -/

theorem pickWalkZ_eq {s : Store} (hu : s.Unique) (choice : Nat → Bool) {x : ZEdge} {a : ZDD}
    (h : DenotesZ s x a) : ∀ (fuel : Nat), a.size ≤ fuel →
      pickWalkZ s choice fuel x = pickPath choice a := by
  induction h with
  | empty => intro fuel _; cases fuel <;> rfl
  | base => intro fuel _; cases fuel <;> rfl
  | @inner i l eh el th tl hi hh hl ihh ihl =>
    intro fuel hf
    cases fuel with
    | zero => simp [ZDD.size] at hf
    | succ fuel =>
      simp only [ZDD.size] at hf
      simp only [pickWalkZ, hi]
      rw [pickPath_node]
      have e1 : eh = el ↔ th = tl := denotes_eq_iff hu hh hl
      have e2 : el = .empty ↔ tl = .empty := hl.empty_iff
      by_cases h1 : th = tl
      · rw [if_pos (e1.mpr h1), if_pos h1, ihh fuel (by omega)]
      · rw [if_neg (fun h => h1 (e1.mp h)), if_neg h1]
        by_cases h2 : tl = .empty
        · simp only [e2.mpr h2, h2, if_true, true_or]
          rw [ihh fuel (by omega)]
        · have h2' : ¬ el = .empty := fun h => h2 (e2.mp h)
          simp only [h2', h2, if_false, false_or]
          cases hc : choice l
          · simp only [Bool.false_eq_true, if_false]
            rw [ihl fuel (by omega)]
          · simp only [if_true]
            rw [ihh fuel (by omega)]

theorem pickCubeDdZ_spec (choice : Nat → Bool) (a : ZDD) :
    ∀ (s : Store) (x : ZEdge) (fuel : Nat), s.Unique → DenotesZ s x a → a.size ≤ fuel →
      s.Le (pickCubeDdZ choice fuel s x).1 ∧ (pickCubeDdZ choice fuel s x).1.Unique ∧
      DenotesZ (pickCubeDdZ choice fuel s x).1 (pickCubeDdZ choice fuel s x).2 (pickCubeDD choice a) := by
  induction a with
  | empty => intro s x fuel hu h _; cases h; cases fuel <;> exact ⟨Store.Le.refl _, hu, .empty⟩
  | base => intro s x fuel hu h _; cases h; cases fuel <;> exact ⟨Store.Le.refl _, hu, .base⟩
  | node l th tl ihh ihl =>
    intro s x fuel hu h hf
    cases h with
    | @inner i _ eh el _ _ hi hh hl =>
    cases fuel with
    | zero => simp [ZDD.size] at hf
    | succ fuel =>
      simp only [ZDD.size] at hf
      simp only [pickCubeDdZ, hi]
      rw [pickCubeDD_node]
      have e1 : eh = el ↔ th = tl := denotes_eq_iff hu hh hl
      have e2 : el = .empty ↔ tl = .empty := hl.empty_iff
      by_cases h1 : th = tl
      · have hee : eh = el := e1.mpr h1
        subst hee
        subst h1
        simp only [true_or, if_true]
        obtain ⟨r1, r2, r3⟩ := ihh s eh fuel hu hh (by omega)
        exact ⟨r1.trans (getOrInsert_le _ _), getOrInsert_unique _ _ r2,
          getOrInsert_denotes _ _ _ _ _ _ r3 r3⟩
      · have h1' : ¬ eh = el := fun h => h1 (e1.mp h)
        simp only [h1', h1, false_or, if_false]
        by_cases h2 : tl = .empty
        · simp only [e2.mpr h2, h2, if_true, true_or]
          obtain ⟨r1, r2, r3⟩ := ihh s eh fuel hu hh (by omega)
          exact ⟨r1.trans (getOrInsert_le _ _), getOrInsert_unique _ _ r2,
            getOrInsert_denotes _ _ _ _ _ _ r3 .empty⟩
        · have h2' : ¬ el = .empty := fun h => h2 (e2.mp h)
          simp only [h2', h2, if_false, false_or]
          cases hc : choice l
          · simp only [Bool.false_eq_true, if_false]
            exact ihl s el fuel hu hl (by omega)
          · simp only [if_true]
            obtain ⟨r1, r2, r3⟩ := ihh s eh fuel hu hh (by omega)
            exact ⟨r1.trans (getOrInsert_le _ _), getOrInsert_unique _ _ r2,
              getOrInsert_denotes _ _ _ _ _ _ r3 .empty⟩

/-- zero suppression is kept as a store invariant: every node inserted by `pick_cube_dd` has a HI
edge that is not `Empty` (the sub-result of a non-empty child is non-empty) -/
theorem pickCubeDdZ_nored (choice : Nat → Bool) (a : ZDD) :
    ∀ (s : Store) (x : ZEdge) (fuel : Nat), s.Unique → s.NoRed → DenotesZ s x a → Reduced a →
      a.size ≤ fuel → (pickCubeDdZ choice fuel s x).1.NoRed := by
  induction a with
  | empty => intro s x fuel _ hr h _ _; cases h; cases fuel <;> exact hr
  | base => intro s x fuel _ hr h _ _; cases h; cases fuel <;> exact hr
  | node l th tl ihh ihl =>
    intro s x fuel hu hr h hred hf
    cases h with
    | @inner i _ eh el _ _ hi hh hl =>
    cases fuel with
    | zero => simp [ZDD.size] at hf
    | succ fuel =>
      simp only [ZDD.size] at hf
      simp only [pickCubeDdZ, hi]
      have e1 : eh = el ↔ th = tl := denotes_eq_iff hu hh hl
      have e2 : el = .empty ↔ tl = .empty := hl.empty_iff
      have hsub : (pickCubeDdZ choice fuel s eh).2 ≠ .empty := by
        obtain ⟨_, _, r3⟩ := pickCubeDdZ_spec choice th s eh fuel hu hh (by omega)
        intro he
        exact (pickCubeDD_isPick choice th).ne_empty hred.1 (r3.empty_iff.mp he)
      have hH := ihh s eh fuel hu hr hh hred.2.1 (by omega)
      by_cases h1 : th = tl
      · have hee : eh = el := e1.mpr h1
        subst hee
        simp only [true_or, if_true]
        exact getOrInsert_nored _ _ hsub hH
      · have h1' : ¬ eh = el := fun h => h1 (e1.mp h)
        simp only [h1', false_or, if_false]
        by_cases h2 : tl = .empty
        · simp only [e2.mpr h2, if_true]
          exact getOrInsert_nored _ _ hsub hH
        · have h2' : ¬ el = .empty := fun h => h2 (e2.mp h)
          simp only [h2', if_false]
          cases hc : choice l
          · simp only [Bool.false_eq_true, if_false]
            exact ihl s el fuel hu hr hl hred.2.2 (by omega)
          · simp only [if_true]
            exact getOrInsert_nored _ _ hsub hH

/-! ## shape of the tree walk, and the path semantics from pointwise facts -/

theorem pickPath_incr (choice : Nat → Bool) {n k : Nat} {a : ZDD} (h : Ordered n k a) :
    Incr k (pickPath choice a) ∧ Below n (pickPath choice a) := by
  induction h with
  | empty => exact ⟨trivial, fun p hp => by cases hp⟩
  | base => exact ⟨trivial, fun p hp => by cases hp⟩
  | @node k l hi lo h1 h2 oh ol ihh ihl =>
    rw [pickPath_node]
    split
    · exact ⟨⟨h1, ihh.1⟩, fun p hp => by
        cases hp with
        | head => exact h2
        | tail _ hp => exact ihh.2 p hp⟩
    · split
      · exact ⟨⟨h1, ihh.1⟩, fun p hp => by
          cases hp with
          | head => exact h2
          | tail _ hp => exact ihh.2 p hp⟩
      · exact ⟨⟨h1, ihl.1⟩, fun p hp => by
          cases hp with
          | head => exact h2
          | tail _ hp => exact ihl.2 p hp⟩

/-- an assignment of the levels that takes the decided values on the path and is `false` on every
level in `[k, n)` that is not on the path satisfies the path -/
theorem pathEval_true (n : Nat) (σ : Nat → Bool) (ps : Path) : ∀ (k : Nat), Incr k ps → Below n ps →
    (∀ l b, (l, some b) ∈ ps → σ l = b) →
    (∀ l, k ≤ l → l < n → (∀ p ∈ ps, p.1 ≠ l) → σ l = false) → pathEval n σ k ps = true := by
  induction ps with
  | nil =>
    intro k _ _ _ hoff
    exact allFalse_iff.mpr (fun v h1 h2 => hoff v h1 h2 (fun p hp => by cases hp))
  | cons q ps ih =>
    obtain ⟨l0, v0⟩ := q
    intro k hi hb hon hoff
    have hl0 : l0 < n := hb (l0, v0) List.mem_cons_self
    simp only [pathEval, Bool.and_eq_true]
    refine ⟨⟨?_, ?_⟩, ?_⟩
    · apply allFalse_iff.mpr
      intro v h1 h2
      apply hoff v h1 (by omega)
      intro p hp
      cases hp with
      | head => simp; omega
      | tail _ hp => have := hi.2.ge p hp; omega
    · cases v0 with
      | none => rfl
      | some b => simp [hon l0 b List.mem_cons_self]
    · apply ih (l0+1) hi.2 (fun p hp => hb p (List.mem_cons_of_mem _ hp))
        (fun l b hm => hon l b (List.mem_cons_of_mem _ hm))
      intro l h1 h2 hno
      apply hoff l (by have := hi.1; omega) h2
      intro p hp
      cases hp with
      | head => simp; omega
      | tail _ hp => exact hno p hp

end OxiddModel.Zbdd.PickSO
