import OxiddModel.Zbdd.Canon
import OxiddModel.Zbdd.View
import OxiddModel.Zbdd.Pick
import OxiddModel.Zbdd.Count
import OxiddModel.Zbdd.Restrict

/-!
# Headline theorems for the ZBDD rules (properties C01, C02, C03, C06, C09, C12, C13; tree level)

`n` is the number of levels of the manager, `σ` ranges over all assignments of the levels, `f g h`
over all trees: the statements hold for every operand tuple and every diagram depth. A handle `t`
denotes the family `fam n t` (a predicate on assignments = characteristic functions of sets of
levels); this is at the same time its Boolean view over the `n` variables (`bool_view`).
`NF n 0 t` says that `t` is ordered (levels in `[0, n)`, increasing) and zero-suppressed.
Together with `zbdd_canonical`, `*_sem` + `*_nf` determine the result *tree* of every operation:
it is the unique normal form of the specified family.

The hypothesis `n ≤ maxLevel` (`= LevelNo::MAX = 2^32 - 1`, the level number the implementation
reports for terminals) is needed wherever `apply_ite` compares level numbers.
-/
namespace OxiddModel.Zbdd
open ZDD

/-! ## C01: canonicity -/

/-- C01 (tree level, relative to the number of levels `n`): two normal-form diagrams are equal iff
they denote the same family / the same Boolean function over the `n` variables. -/
theorem zbdd_canonical (n : Nat) (a b : ZDD) (ha : NF n 0 a) (hb : NF n 0 b) :
    a = b ↔ ∀ σ, fam n a σ = fam n b σ := nf_eq_iff n 0 a b ha hb

/-- `satisfiable` (`≠ ∅`) and `valid` (`= tautology(0)`) decide what their names say. -/
theorem zbdd_sat_valid (n : Nat) (a : ZDD) (ha : NF n 0 a) :
    (a ≠ constF ↔ ∃ σ, fam n a σ = true) ∧ (a = constT n ↔ ∀ σ, fam n a σ = true) := by
  refine ⟨?_, nf_taut_iff n 0 a ha⟩
  unfold constF
  rw [Ne, nf_empty_iff n 0 a ha]
  constructor
  · intro h
    apply Classical.byContradiction
    intro hne
    exact h (fun σ => by
      cases hv : eval n σ 0 a
      · rfl
      · exact absurd ⟨σ, hv⟩ hne)
  · rintro ⟨σ, hσ⟩ h
    have := h σ
    simp only [fam] at hσ
    rw [this] at hσ; cases hσ

/-! ## C09: set-family operations -/

/-- `empty` is `∅`, `base` is `{∅}`, `singleton v` is `{{v}}`. -/
theorem zbdd_const_family (n l : Nat) (σ : Nat → Bool) :
    fam n .empty σ = false ∧ fam n .base σ = allFalse σ 0 n ∧
    fam n (singleton l) σ = (allFalse σ 0 l && σ l && allFalse σ (l+1) n) :=
  ⟨rfl, rfl, singleton_eval n l σ⟩

/-- `union`, `intsec`, `diff` are `∪`, `∩`, `∖` of the families. -/
theorem union_sem (n : Nat) (f g : ZDD) (σ : Nat → Bool) (hf : Ordered n 0 f) (hg : Ordered n 0 g) :
    fam n (union f g) σ = (fam n f σ || fam n g σ) := union_eval f g n 0 σ hf hg

theorem intsec_sem (n : Nat) (f g : ZDD) (σ : Nat → Bool) (hf : Ordered n 0 f) (hg : Ordered n 0 g) :
    fam n (intsec f g) σ = (fam n f σ && fam n g σ) := intsec_eval f g n 0 σ hf hg

theorem diff_sem (n : Nat) (f g : ZDD) (σ : Nat → Bool) (hf : Ordered n 0 f) (hg : Ordered n 0 g) :
    fam n (diff f g) σ = (fam n f σ && !fam n g σ) := diff_eval f g n 0 σ hf hg

/-- `subset0 f v = {s ∈ F | v ∉ s}`, for every position of `v` relative to the levels of `f`. -/
theorem subset0_sem (n vl : Nat) (f : ZDD) (σ : Nat → Bool) (hf : Ordered n 0 f) (hv : vl < n) :
    fam n (subset .subset0 vl f) σ = (!σ vl && fam n f σ) :=
  subset0_eval vl f n 0 σ hf (Nat.zero_le _) hv

/-- `subset1 f v = {s ∖ {v} | s ∈ F, v ∈ s}`: `s` is a member iff `v ∉ s` and `s ∪ {v} ∈ F`. -/
theorem subset1_sem (n vl : Nat) (f : ZDD) (σ : Nat → Bool) (hf : Ordered n 0 f) (hv : vl < n) :
    fam n (subset .subset1 vl f) σ = (!σ vl && fam n f (upd σ vl true)) :=
  subset1_eval vl f n 0 σ hf (Nat.zero_le _) hv

/-- `change f v = {s Δ {v} | s ∈ F}`. -/
theorem change_sem (n vl : Nat) (f : ZDD) (σ : Nat → Bool) (hf : Ordered n 0 f) (hv : vl < n) :
    fam n (subset .change vl f) σ = fam n f (flipAt σ vl) :=
  change_eval vl f n 0 σ hf (Nat.zero_le _) hv

/-- `make_node(var, hi, lo) = lo ∪ {x ∪ {var} | x ∈ hi}` under its documented precondition (the
level of `var` is above the levels of `hi` and `lo`). -/
theorem makeNode_sem (n vl : Nat) (hi lo : ZDD) (σ : Nat → Bool) (hv : vl < n)
    (hhi : Ordered n (vl+1) hi) (hlo : Ordered n (vl+1) lo) :
    fam n (makeNode vl hi lo) σ = (fam n lo σ || (σ vl && fam n hi (upd σ vl false))) :=
  makeNode_eval n 0 vl hi lo σ (Nat.zero_le _) hv hhi hlo

/-- results of the set operations are again ordered and zero-suppressed (C03/C01) -/
theorem setops_nf (n : Nat) (f g : ZDD) (hf : NF n 0 f) (hg : NF n 0 g) :
    NF n 0 (union f g) ∧ NF n 0 (intsec f g) ∧ NF n 0 (diff f g) ∧ NF n 0 (symmDiff f g) :=
  ⟨⟨union_ordered _ _ _ _ hf.1 hg.1, union_reduced _ _ hf.2 hg.2⟩,
   ⟨intsec_ordered _ _ _ _ hf.1 hg.1, intsec_reduced _ _ hf.2 hg.2⟩,
   ⟨diff_ordered _ _ _ _ hf.1 hg.1, diff_reduced _ _ hf.2 hg.2⟩,
   ⟨symmDiff_ordered _ _ _ _ hf.1 hg.1, symmDiff_reduced _ _ hf.2 hg.2⟩⟩

theorem subset_nf (n vl : Nat) (op : SubsetOp) (f : ZDD) (hf : NF n 0 f) (hv : vl < n) :
    NF n 0 (subset op vl f) :=
  ⟨subset_ordered op vl f n 0 hf.1 (Nat.zero_le _) hv, subset_reduced op vl f hf.2⟩

theorem const_nf (n l : Nat) (h : l < n) :
    NF n 0 .empty ∧ NF n 0 .base ∧ NF n 0 (singleton l) ∧ NF n 0 (constT n) :=
  ⟨⟨.empty, trivial⟩, ⟨.base, trivial⟩, singleton_nf n l h, taut_nf n 0⟩

theorem makeNode_nf' (n vl : Nat) (hi lo : ZDD) (hv : vl < n)
    (hhi : NF n (vl+1) hi) (hlo : NF n (vl+1) lo) : NF n 0 (makeNode vl hi lo) :=
  makeNode_nf n 0 vl hi lo (Nat.zero_le _) hv hhi hlo

/-- `bool_view` (C09/C02): `eval` of the implementation (walk with the counter of true variables)
is membership of the assignment's 1-set in the family. -/
theorem bool_view (n : Nat) (t : ZDD) (σ : Nat → Bool) (ht : Ordered n 0 t) :
    evalEdge n σ t = fam n t σ := evalEdge_eq n σ t ht

/-- `add_vars m`: an existing handle keeps its tree, hence its family as a set of sets of levels;
its Boolean view over the `n + m` variables is the old one conjoined with `¬x_new` for every new
variable. -/
theorem add_vars_family (n m : Nat) (t : ZDD) (σ : Nat → Bool) (ht : Ordered n 0 t) :
    fam (n + m) t σ = (fam n t σ && allFalse σ n (n + m)) ∧ Ordered (n + m) 0 t :=
  ⟨eval_add_vars m σ ht (Nat.zero_le _), ht.more (by omega)⟩

/-- the tautology chain (re)built by `ZBDDCache::post_reorder_mut` for `n` levels: entry `l` is in
normal form and is the tautology over the levels `[l, n)`; read as a handle it requires the levels
above `l` to be 0. In particular the old `⊤` handle is no longer `⊤` after `add_vars`. -/
theorem taut_chain_ok (n l : Nat) (σ : Nat → Bool) :
    NF n l (taut n l) ∧ eval n σ l (taut n l) = true ∧
    (l ≤ n → fam n (taut n l) σ = allFalse σ 0 l) ∧
    (∀ m, fam (n + m) (constT n) σ = allFalse σ n (n + m)) := by
  refine ⟨taut_nf n l, taut_eval σ n l, fun h => taut_eval_from σ (Nat.zero_le _) h, fun m => ?_⟩
  unfold constT fam
  rw [eval_add_vars m σ (taut_ordered n 0) (Nat.zero_le _), taut_eval]; simp

/-! ## C02: Boolean connectives -/

/-- C02: `not` (`tautology(0) ∖ f`) is pointwise negation over the `n` variables. -/
theorem zbdd_not_sem (n : Nat) (f : ZDD) (σ : Nat → Bool) (hf : Ordered n 0 f) :
    fam n (applyNot n f) σ = !fam n f σ := applyNot_eval n f σ hf

/-- C02: every binary connective, through its ZBDD implementation (`intsec`, `union`,
`not ∘ intsec`, `not ∘ union`, `symm_diff`, `not ∘ symm_diff`, `ite f g ⊤`, `g ∖ f`), takes under
every assignment the value of the propositional connective applied to the operand values. -/
theorem zbdd_apply_sem (n : Nat) (op : Op) (f g : ZDD) (σ : Nat → Bool) (hn : n ≤ maxLevel)
    (hf : Ordered n 0 f) (hg : Ordered n 0 g) :
    fam n (applyBin n op f g) σ = op.sem (fam n f σ) (fam n g σ) := applyBin_eval n op f g σ hn hf hg

/-- the connectives' truth tables are the propositional ones (finite table, by `decide`) -/
theorem op_sem_table :
    (∀ a b, Op.and.sem a b = (a && b)) ∧ (∀ a b, Op.or.sem a b = (a || b)) ∧
    (∀ a b, Op.nand.sem a b = !(a && b)) ∧ (∀ a b, Op.nor.sem a b = !(a || b)) ∧
    (∀ a b, Op.xor.sem a b = (a ^^ b)) ∧ (∀ a b, Op.equiv.sem a b = !(a ^^ b)) ∧
    (∀ a b, Op.imp.sem a b = (!a || b)) ∧ (∀ a b, Op.impStrict.sem a b = (!a && b)) := by
  decide

/-- C02: `ite` (with its tautology-chain shortcuts) is pointwise if-then-else, for every operand
triple. -/
theorem zbdd_ite_sem (n : Nat) (f g h : ZDD) (σ : Nat → Bool) (hn : n ≤ maxLevel)
    (hf : Ordered n 0 f) (hg : Ordered n 0 g) (hh : Ordered n 0 h) :
    fam n (applyIte n f g h) σ = if fam n f σ then fam n g σ else fam n h σ :=
  applyIte_eval n f g h 0 σ hn hf hg hh

/-- C02: constants and (negated) variables; `var` with its don't-care chain above and the tautology
chain below is the projection. -/
theorem zbdd_var_sem (n l : Nat) (σ : Nat → Bool) (h : l < n) :
    fam n constF σ = false ∧ fam n (constT n) σ = true ∧
    fam n (var n l) σ = σ l ∧ fam n (notVar n l) σ = !σ l :=
  ⟨rfl, taut_eval σ n 0, var_eval n l σ, notVar_eval n l σ h⟩

/-- C03/C01: results are again ordered and zero-suppressed. -/
theorem zbdd_not_nf (n : Nat) (f : ZDD) (hf : NF n 0 f) : NF n 0 (applyNot n f) := applyNot_nf n f hf
theorem zbdd_apply_nf (n : Nat) (op : Op) (f g : ZDD) (hn : n ≤ maxLevel) (hf : NF n 0 f) (hg : NF n 0 g) :
    NF n 0 (applyBin n op f g) := applyBin_nf n op f g hn hf hg
theorem zbdd_ite_nf (n : Nat) (f g h : ZDD) (hn : n ≤ maxLevel) (hf : NF n 0 f) (hg : NF n 0 g) (hh : NF n 0 h) :
    NF n 0 (applyIte n f g h) := applyIte_nf n f g h 0 hn hf hg hh
theorem zbdd_var_nf (n l : Nat) (h : l < n) : NF n 0 (var n l) ∧ NF n 0 (notVar n l) :=
  ⟨var_nf n l h, notVar_nf n l h⟩

/-- C02: the cofactors (the two children of the root) are `subset1` / `subset0` of the top-most
variable, structurally and as families (the documented reduced-domain reading). -/
theorem zbdd_cofactors (n l : Nat) (hi lo : ZDD) (hf : Ordered n 0 (.node l hi lo)) (σ : Nat → Bool) :
    subset .subset1 l (.node l hi lo) = hi ∧ subset .subset0 l (.node l hi lo) = lo ∧
    fam n hi σ = (!σ l && fam n (.node l hi lo) (upd σ l true)) ∧
    fam n lo σ = (!σ l && fam n (.node l hi lo) σ) := by
  have hl : l < n := by cases hf with | node _ h _ _ => exact h
  have e1 : subset .subset1 l (.node l hi lo) = hi := by simp [subset]
  have e0 : subset .subset0 l (.node l hi lo) = lo := by simp [subset]
  refine ⟨e1, e0, ?_, ?_⟩
  · have := subset1_sem n l _ σ hf hl
    rwa [e1] at this
  · have := subset0_sem n l _ σ hf hl
    rwa [e0] at this

/-- C01+C02: the result of a connective is *the* normal form of the specified function — any other
normal-form diagram of that function is the same tree (results do not depend on how the operands
were obtained). -/
theorem zbdd_apply_unique (n : Nat) (op : Op) (f g r : ZDD) (hn : n ≤ maxLevel)
    (hf : NF n 0 f) (hg : NF n 0 g) (hr : NF n 0 r)
    (h : ∀ σ, fam n r σ = op.sem (fam n f σ) (fam n g σ)) : r = applyBin n op f g :=
  (zbdd_canonical n r _ hr (applyBin_nf n op f g hn hf hg)).mpr (fun σ => by
    rw [h, zbdd_apply_sem n op f g σ hn hf.1 hg.1])

/-! ## C04/C06: restrict -/

/-- `restrict(f, cube)` is `f` with the literals of the cube substituted (`over σ c` overrides `σ`
on the variables the cube mentions; a skipped level of the cube is a negative literal, a node with
`lo = ∅` a positive one, a node with `hi = lo` leaves the variable free). The result is determined
by `f`, the cube and the number of levels `n` alone — the tree-level function has no other input. -/
theorem zbdd_restrict_sem (n : Nat) (f c : ZDD) (σ : Nat → Bool) (hn : n ≤ maxLevel)
    (hf : Ordered n 0 f) (hc : Ordered n 0 c) (hcube : IsCube c) :
    fam n (restrictTop n f c) σ = fam n f (over σ c) :=
  (restrict_spec n f c 0 hn (Nat.zero_le _) hf hc hcube).2 σ

theorem zbdd_restrict_nf (n : Nat) (f c : ZDD) (hn : n ≤ maxLevel)
    (hf : NF n 0 f) (hc : Ordered n 0 c) (hcube : IsCube c) : NF n 0 (restrictTop n f c) :=
  ⟨(restrict_spec n f c 0 hn (Nat.zero_le _) hf.1 hc hcube).1, restrict_reduced n f c 0 hf.2⟩

/-! ## C13: cube picking -/

/-- `pick_cube` returns `None`, `pick_cube_dd` / `pick_cube_dd_set` return `∅`, exactly for the
unsatisfiable function. -/
theorem pick_none_iff_empty (n : Nat) (choice : Nat → Bool) (f ls : ZDD) (hf : NF n 0 f) :
    (pickCube choice f = none ↔ ∀ σ, fam n f σ = false) ∧
    (pickCubeDD choice f = .empty ↔ ∀ σ, fam n f σ = false) ∧
    (pickCubeDDSet f ls = .empty ↔ ∀ σ, fam n f σ = false) := by
  have key : f = .empty ↔ ∀ σ, fam n f σ = false := nf_empty_iff n 0 f hf
  refine ⟨?_, ?_, ?_⟩
  · rw [← key]; cases f <;> simp [pickCube]
  · rw [← key]
    constructor
    · intro h; apply Classical.byContradiction; intro hne
      exact (pickCubeDD_isPick choice f).ne_empty hne h
    · intro h; subst h; rfl
  · rw [← key]
    constructor
    · intro h; apply Classical.byContradiction; intro hne
      exact (pickCubeDDSet_isPick f ls).ne_empty hne h
    · intro h; subst h; rfl

/-- the picked cube implies the function (for `pick_cube_dd` with any choice function and for
`pick_cube_dd_set` with any literal set), is again in normal form, and is satisfiable whenever the
function is. -/
theorem pick_implies (n : Nat) (choice : Nat → Bool) (f ls : ZDD) (hf : NF n 0 f) (σ : Nat → Bool) :
    (fam n (pickCubeDD choice f) σ = true → fam n f σ = true) ∧
    (fam n (pickCubeDDSet f ls) σ = true → fam n f σ = true) ∧
    NF n 0 (pickCubeDD choice f) ∧ NF n 0 (pickCubeDDSet f ls) :=
  ⟨(pickCubeDD_isPick choice f).implies hf.1 σ, (pickCubeDDSet_isPick f ls).implies hf.1 σ,
   ⟨(pickCubeDD_isPick choice f).ordered hf.1, (pickCubeDD_isPick choice f).reduced hf.2⟩,
   ⟨(pickCubeDDSet_isPick f ls).ordered hf.1, (pickCubeDDSet_isPick f ls).reduced hf.2⟩⟩

/-- `pick_cube` (the vector of decisions, all other variables `False`) and `pick_cube_dd` describe
the same cube. -/
theorem pick_same_cube (n : Nat) (choice : Nat → Bool) (f : ZDD) (hf : NF n 0 f) (hne : f ≠ .empty)
    (σ : Nat → Bool) :
    ∃ p, pickCube choice f = some p ∧ fam n (pickCubeDD choice f) σ = pathEval n σ 0 p := by
  refine ⟨pickPath choice f, ?_, pick_same choice hf.1 hf.2 hne σ⟩
  cases f with
  | empty => exact absurd rfl hne
  | _ => rfl

/-! ## C12: model counting -/

/-- for `vars ≥ num_levels` (`vars = n + m`) the result of `sat_count` (over exact naturals) is the
number of satisfying assignments over the `n` variables of the manager times `2^m`, which is the
number of satisfying assignments over `n + m` variables of the handle's function with the `m`
additional variables as don't cares (`modelCount` enumerates all assignments). -/
theorem zbdd_satcount_ge (n m : Nat) (f : ZDD) (hf : Ordered n 0 f) :
    satCount n (n + m) f = modelCount n (fam n f) * 2 ^ m ∧
    satCount n (n + m) f = modelCount (n + m) (fam n f) :=
  ⟨satCount_ge n m f hf, by rw [satCount_ge n m f hf, modelCount_extra n m f hf]⟩

/-- corollary, `vars = num_levels`: exactly the number of satisfying assignments. -/
theorem zbdd_satcount_exact (n : Nat) (f : ZDD) (hf : Ordered n 0 f) :
    satCount n n f = modelCount n (fam n f) := by
  have := (zbdd_satcount_ge n 0 f hf).1
  simpa using this

/-- `vars < num_levels`: the code shifts right, i.e. returns `⌊count / 2^(n - vars)⌋` — exact
(the count per assignment of `n - vars` variables) iff the count is divisible; the documentation
does not say what `vars < num_levels` means for a ZBDD. -/
theorem zbdd_satcount_lt (n vars : Nat) (f : ZDD) (hf : Ordered n 0 f) (hv : vars < n) :
    satCount n vars f = modelCount n (fam n f) / 2 ^ (n - vars) ∧
    (2 ^ (n - vars) ∣ modelCount n (fam n f) →
      satCount n vars f * 2 ^ (n - vars) = modelCount n (fam n f)) :=
  satCount_lt n vars f hf hv

/-! ## non-vacuity -/

/-- a concrete shared, level-skipping diagram in normal form -/
example : NF 3 0 (ZDD.node 0 (.node 2 .base .base) (.node 1 .base (.node 2 .base .empty))) := by
  refine ⟨.node (by omega) (by omega) (.node (by omega) (by omega) .base .base)
    (.node (by omega) (by omega) .base (.node (by omega) (by omega) .base .empty)), ?_⟩
  simp [Reduced]

/-- the hypotheses of the operator theorems are satisfiable on non-trivial operands, and the
theorems pin down concrete result trees -/
example : applyBin 2 .and (var 2 0) (var 2 1) = .node 0 (.node 1 .base .empty) .empty := by
  symm
  apply zbdd_apply_unique 2 .and (var 2 0) (var 2 1) _ (by decide) (var_nf 2 0 (by omega)) (var_nf 2 1 (by omega))
  · refine ⟨.node (by omega) (by omega) (.node (by omega) (by omega) .base .empty) .empty, ?_⟩
    simp [Reduced]
  · intro σ
    rw [(zbdd_var_sem 2 0 σ (by omega)).2.2.1, (zbdd_var_sem 2 1 σ (by omega)).2.2.1]
    simp only [fam, eval, Op.sem, allFalse_self, Bool.true_and]
    cases σ 0 <;> cases σ 1 <;> simp

example : IsCube (ZDD.node 0 (.node 2 .base .base) .empty) ∧
    Ordered 3 0 (ZDD.node 0 (.node 2 .base .base) .empty) :=
  ⟨.pos (.dc .base), .node (by omega) (by omega) (.node (by omega) (by omega) .base .base) .empty⟩

example (σ : Nat → Bool) :
    fam 3 (restrictTop 3 (var 3 1) (ZDD.node 0 (.node 2 .base .base) .empty)) σ =
      fam 3 (var 3 1) (over σ (ZDD.node 0 (.node 2 .base .base) .empty)) :=
  zbdd_restrict_sem 3 _ _ σ (by decide) (var_nf 3 1 (by omega)).1
    (.node (by omega) (by omega) (.node (by omega) (by omega) .base .base) .empty) (.pos (.dc .base))

example (σ : Nat → Bool) :
    fam 3 (applyIte 3 (var 3 0) (singleton 1) (taut 3 0)) σ =
      if fam 3 (var 3 0) σ then fam 3 (singleton 1) σ else fam 3 (taut 3 0) σ :=
  zbdd_ite_sem 3 _ _ _ σ (by decide) (var_nf 3 0 (by omega)).1 (singleton_nf 3 1 (by omega)).1 (taut_ordered 3 0)

example (choice : Nat → Bool) (σ : Nat → Bool) :
    fam 3 (pickCubeDD choice (var 3 1)) σ = true → fam 3 (var 3 1) σ = true :=
  (pick_implies 3 choice _ .empty (var_nf 3 1 (by omega)) σ).1

example (σ : Nat → Bool) : fam 3 (subset .change 1 (singleton 0)) σ = fam 3 (singleton 0) (flipAt σ 1) :=
  change_sem 3 1 _ σ (singleton_nf 3 0 (by omega)).1 (by omega)

example : satCount 2 2 (taut 2 0) = modelCount 2 (fam 2 (taut 2 0)) :=
  zbdd_satcount_exact 2 _ (taut_ordered 2 0)

example : satCount 2 72 (var 2 0) = modelCount 2 (fam 2 (var 2 0)) * 2 ^ 70 :=
  (zbdd_satcount_ge 2 70 _ (var_nf 2 0 (by omega)).1).1

end OxiddModel.Zbdd
