import OxiddModel.Zbdd.RcSLemmas
import OxiddModel.Zbdd.RcSLemmasOrdH
import OxiddModel.Zbdd.PropertiesC06

/-!
# C05 / C14 / C09 — ZBDD reference counters with internal roots, maintained exactly

Property C05: *"the reference count of a node equals the number of live handles plus the number of
stored parent edges (plus the manager's internal roots); `gc` frees exactly the unreferenced
nodes; dropping everything returns the manager to its initial node count"*. Property C14: *"an
operation that fails with out-of-memory releases everything it had acquired"*. For ZBDDs the
manager itself owns references: the tautology chain `ZBDDCache::tautologies`, one node per level,
torn down and rebuilt by `add_vars` and by every reordering.

In `RcS.lean` the counters are **state**: every `clone_edge` / `drop_edge` / `EdgeDropGuard` of
the ZBDD rules (`reduce`, `reduce_borrowed`, the four set operations, `subset0/subset1/change`,
`not` = `taut ∖ f`, `var_edge`, `singleton_edge`, the chain construction and tear-down) and of the
index manager (`get_or_insert`, `add_node`, `try_remove_node`, `gc`) is a step of the model. The
theorems say that these steps keep `rc = 1 + external references + stored parent edges` (`RcInv`;
the `1` is the unique table's reference, `ref_count()` reports `rc - 1`), where the external
references are the handles **and the chain entries** — after every successful run with the result
added, after every failing run (OutOfMemory at *any* allocation point, every capacity) unchanged.

All theorems hold for all stores, counters, caches, cache policies (`Policy.OK`), capacities and
**every** fuel.
-/
namespace OxiddModel.Zbdd.C05R
open OxiddModel.Zbdd OxiddModel.Zbdd.ZDD OxiddModel.Zbdd.Refine OxiddModel.Zbdd.Rc
open OxiddModel.Bdd.Refine (Policy OpTag Key Cache)

/-! ## the primitives -/

/-- the empty manager satisfies the invariant -/
theorem rcinv_empty : RcInv RSt.empty [] := Rc.rcinv_empty

/-- **`init_rcinv`.** A fresh manager with `n` variables (`new_manager` + `add_vars(n)`, if the
chain fits into the capacity): the counters are exact for the chain entries alone — the chain is
the only owner of references —, the store is ordered, the chain level-correct and closed. -/
theorem init_rcinv {cap n : Nat} {h : HSt} (hh : HSt.init cap n = some h) :
    RcInv h.r (h.chain ++ h.hs) ∧ h.hs = [] ∧ HOrd h := by
  refine ⟨init_rc hh, ?_, init_ord hh⟩
  unfold HSt.init at hh
  cases hR : addVarsR cap 0 n [.base] RSt.empty with
  | mk o r' =>
    rw [hR] at hh
    cases o with
    | none => cases hh
    | some ch => cases hh; rfl

/-- **`clone_edge`** of an owned edge: one more external reference. -/
theorem clone_rc {r : RSt} {ext : List ZEdge} {x : ZEdge} (h : RcInv r ext) (hx : x ∈ ext) :
    RcInv (cloneEdge r x) (x :: ext) := cloneEdge_rc h (h.ext_ok x hx)

/-- **`drop_edge`** of an owned edge: one external reference less, and the counter does not
underflow (`debug_assert!(_old_rc > 1)` in `drop_edge` holds). -/
theorem drop_rc {r : RSt} {ext : List ZEdge} {x : ZEdge} (h : RcInv r (x :: ext)) :
    RcInv (dropEdge r x) ext ∧ ∀ j, x = .inner j → 2 ≤ rcGet r.rc j :=
  ⟨dropEdge_rc h, fun _ hj => dropEdge_no_underflow (hj ▸ h)⟩

/-- **`get_or_insert`** with two owned children: unique-table hit (both dropped, the found node
retained), allocation (both move into the node, `rc = 2`), **OutOfMemory** (both dropped). -/
theorem insertR_rc_exact (cap : Nat) (r : RSt) (l : Nat) (hi lo : ZEdge) (ext : List ZEdge)
    (h : RcInv r (hi :: lo :: ext)) :
    match insertR cap r l hi lo with
    | (some x, r') => RcInv r' (x :: ext)
    | (none, r') => RcInv r' ext := insertR_rc h

/-- **`reduce`** (zero-suppression rule `hi = Empty ⇒ lo`, then `get_or_insert`) consumes its two
owned children exactly. -/
theorem mkNodeR_rc_exact (cap : Nat) (r : RSt) (l : Nat) (hi lo : ZEdge) (ext : List ZEdge)
    (h : RcInv r (hi :: lo :: ext)) :
    match mkNodeR cap r l hi lo with
    | (some x, r') => RcInv r' (x :: ext)
    | (none, r') => RcInv r' ext := mkNodeR_rc h

/-- **`reduce_borrowed`** (`hi` borrowed from a stored node, `lo` owned). -/
theorem mkNodeBR_rc_exact (cap : Nat) (r : RSt) (l : Nat) (hi lo : ZEdge) (ext : List ZEdge)
    (h : RcInv r (lo :: ext)) (hhi : has r.st.store hi) :
    match mkNodeBR cap r l hi lo with
    | (some x, r') => RcInv r' (x :: ext)
    | (none, r') => RcInv r' ext := mkNodeBR_rc h hhi

/-! ## the algorithms -/

/-- **`setOpR_rc_exact`.** `apply_union / apply_intsec / apply_diff / apply_symm_diff` with
borrowed operands that point to stored nodes: after a successful run the counters are exact for
the caller's references (handles, chain, temporaries) plus the result, after a failing run
(OutOfMemory at any allocation point, any capacity) for the caller's references alone; the store
is only extended. -/
theorem setOpR_rc_exact {p : Policy} (pok : p.OK) (cap : Nat) (op : SetOp) (fuel : Nat) (r : RSt)
    (f g : ZEdge) (ext : List ZEdge) (h : RcInv r ext) (hf : has r.st.store f)
    (hg : has r.st.store g) :
    r.st.store.Le (setOpR cap p op fuel r f g).2.st.store ∧
    match setOpR cap p op fuel r f g with
    | (some x, r') => RcInv r' (x :: ext)
    | (none, r') => RcInv r' ext := setOpR_rc pok cap op fuel r f g ext h hf hg

theorem setOpR_rc_owned {p : Policy} (pok : p.OK) (cap : Nat) (op : SetOp) (fuel : Nat) (r : RSt)
    (f g : ZEdge) (ext : List ZEdge) (h : RcInv r ext) (hf : f ∈ ext) (hg : g ∈ ext) :
    match setOpR cap p op fuel r f g with
    | (some x, r') => RcInv r' (x :: ext)
    | (none, r') => RcInv r' ext :=
  (setOpR_rc_exact pok cap op fuel r f g ext h (h.ext_ok f hf) (h.ext_ok g hg)).2

/-- **`apply_not`** = `tautology(0) ∖ f`: the chain entry is borrowed from the chain, which is
among the externally owned edges. -/
theorem notR_rc_exact {p : Policy} (pok : p.OK) (cap : Nat) (chain : List ZEdge) (fuel : Nat)
    (r : RSt) (f : ZEdge) (hs : List ZEdge) (h : RcInv r (chain ++ hs)) (hf : has r.st.store f) :
    match notR cap p chain fuel r f with
    | (some x, r') => RcInv r' (x :: (chain ++ hs))
    | (none, r') => RcInv r' (chain ++ hs) :=
  (notR_rc pok cap chain fuel r f _ h (fun _ he => List.mem_append_left _ he) hf).2

/-- **`subset0 / subset1 / change`.** -/
theorem subsetR_rc_exact {p : Policy} (pok : p.OK) (cap : Nat) (op : SubsetOp) (var vl fuel : Nat)
    (r : RSt) (f : ZEdge) (ext : List ZEdge) (h : RcInv r ext) (hf : has r.st.store f) :
    match subsetR cap p op var vl fuel r f with
    | (some x, r') => RcInv r' (x :: ext)
    | (none, r') => RcInv r' ext := (subsetR_rc pok cap op var vl fuel r f ext h hf).2

/-- **`var_edge`** (reads `tautology(level + 1)` from the chain, then builds the don't-care
chain above the variable; every one of its `get_or_insert`s may fail). -/
theorem varR_rc_exact (cap : Nat) (chain : List ZEdge) (r : RSt) (level : Nat) (hs : List ZEdge)
    (h : RcInv r (chain ++ hs)) :
    match varR cap chain r level with
    | (some x, r') => RcInv r' (x :: (chain ++ hs))
    | (none, r') => RcInv r' (chain ++ hs) :=
  (varR_rc cap chain r level _ h (fun _ he => List.mem_append_left _ he)).2

/-- **`singleton_edge`.** -/
theorem singletonR_rc_exact (cap : Nat) (r : RSt) (level : Nat) (ext : List ZEdge) (h : RcInv r ext) :
    match singletonR cap r level with
    | (some x, r') => RcInv r' (x :: ext)
    | (none, r') => RcInv r' ext := (singletonR_rc cap r level ext h).2

/-! ## the chain: `try_remove_node`, `add_vars`, an empty reordering -/

/-- **`try_remove_node`** keeps the counters exact: the edge is released; the node is removed
only when a reordering is prepared (apply cache empty) and only the table still references it. -/
theorem tryRemoveNodeR_rc_exact (prepared : Bool) (r : RSt) (e : ZEdge) (ext : List ZEdge)
    (h : RcInv r (e :: ext)) (hc : prepared = true → r.st.cache = []) :
    RcInv (tryRemoveNodeR prepared r e).2 ext := tryRemoveNodeR_rc h hc

/-- **`addVarsR_rc_exact`.** `add_vars(k)`: the old chain entries lose their internal reference
(their nodes stay stored: garbage, or still referenced by handles / parents), the new chain
entries are owned references; the store is only extended, the apply cache untouched; the new
chain has one entry per level plus `Base` and is closed under children. If the new chain does
not fit (`none`: the real code aborts, `KF-zbdd-addvars-oom`) nothing was released twice either:
the counters are exact for the handles and the part of the chain built so far. -/
theorem addVarsR_rc_exact (cap n k : Nat) (chain : List ZEdge) (r : RSt) (hs : List ZEdge)
    (h : RcInv r (chain ++ hs)) :
    r.st.store.Le (addVarsR cap n k chain r).2.st.store ∧
    (addVarsR cap n k chain r).2.st.cache = r.st.cache ∧
    match addVarsR cap n k chain r with
    | (some ch, r') => RcInv r' (ch ++ hs) ∧ .base ∈ ch ∧ ChainClosed r'.st.store ch ∧
        ch.length = n + k + 1
    | (none, r') => ∃ part, RcInv r' (part ++ hs) := addVarsR_rc h

/-- **an empty `Manager::reorder`** (`try_remove_node` really removes unreferenced chain nodes,
the apply cache is cleared first, the chain is rebuilt). -/
theorem reorderNopR_rc_exact (cap n : Nat) (chain : List ZEdge) (r : RSt) (hs : List ZEdge)
    (h : RcInv r (chain ++ hs)) :
    (reorderNopR cap n chain r).2.st.cache = [] ∧
    match reorderNopR cap n chain r with
    | (some ch, r') => RcInv r' (ch ++ hs) ∧ .base ∈ ch ∧ ChainClosed r'.st.store ch ∧
        ch.length = n + 1
    | (none, r') => ∃ part, RcInv r' (part ++ hs) := reorderNopR_rc h

/-! ## erasure: a successful counted run is the run of `SetOpsS.lean` / `ChainS.lean` -/

/-- **`setOpR_erase`.** Forgetting the counters, a successful `setOpR` run *is* the `setOpS` run
(same result, store, cache, time stamp) — for all inputs and capacities. -/
theorem setOpR_erase (cap : Nat) (p : Policy) (op : SetOp) (fuel : Nat) (r : RSt) (f g e : ZEdge)
    (h : (setOpR cap p op fuel r f g).1 = some e) :
    setOpS p op fuel r.st f g = ((setOpR cap p op fuel r f g).2.st, e) :=
  setOpR_erase' cap p op fuel r f g e h

theorem subsetR_erase (cap : Nat) (p : Policy) (op : SubsetOp) (var vl fuel : Nat) (r : RSt)
    (f e : ZEdge) (h : (subsetR cap p op var vl fuel r f).1 = some e) :
    subsetS p op var vl fuel r.st f = ((subsetR cap p op var vl fuel r f).2.st, e) :=
  subsetR_erase' cap p op var vl fuel r f e h

theorem notR_erase (cap : Nat) (p : Policy) (chain : List ZEdge) (fuel : Nat) (r : RSt) (f e : ZEdge)
    (h : (notR cap p chain fuel r f).1 = some e) :
    notS p chain fuel r.st f = ((notR cap p chain fuel r f).2.st, e) :=
  setOpR_erase' cap p .diff fuel r _ f e h

/-- a non-aborting `add_vars` is `Mgr.addVars` of `ChainS.lean` -/
theorem addVarsR_erase_eq (cap n k : Nat) (chain ch : List ZEdge) (r : RSt)
    (h : (addVarsR cap n k chain r).1 = some ch) :
    rebuildChain (n + k) r.st.store = ((addVarsR cap n k chain r).2.st.store, ch) ∧
    (addVarsR cap n k chain r).2.st.cache = r.st.cache := addVarsR_erase h

/-- transfer of `C06.zbdd_setop_spec`: a successful counted run returns an edge denoting
`setOp op a b` (union / intersection / difference / symmetric difference of the families),
whatever the cache and the capacity; hash consing and cache soundness are kept -/
theorem setOpR_correct {p : Policy} (pok : p.OK) (env : Env) (cap : Nat) (op : SetOp) (fuel : Nat)
    (r : RSt) (f g e : ZEdge) (a b : ZDD) (hu : r.st.store.Unique)
    (hc : CacheOK env r.st.store r.st.cache) (hf : DenotesZ r.st.store f a)
    (hg : DenotesZ r.st.store g b) (hfuel : a.size + b.size ≤ fuel)
    (hok : (setOpR cap p op fuel r f g).1 = some e) :
    DenotesZ (setOpR cap p op fuel r f g).2.st.store e (setOp op a b) ∧
    (setOpR cap p op fuel r f g).2.st.store.Unique ∧
    CacheOK env (setOpR cap p op fuel r f g).2.st.store (setOpR cap p op fuel r f g).2.st.cache := by
  have := C06.zbdd_setop_spec pok env op fuel r.st f g a b hu hc hf hg hfuel
  rw [setOpR_erase cap p op fuel r f g e hok] at this
  exact ⟨this.1, this.2.2.1, this.2.2.2⟩

/-- after OutOfMemory: the store is only extended, so every handle denotes what it denoted, and
the counters are exact for the caller's references -/
theorem setOpR_error_clean {p : Policy} (pok : p.OK) (cap : Nat) (op : SetOp) (fuel : Nat)
    (r : RSt) (f g : ZEdge) (ext : List ZEdge) (hi : RcInv r ext) (hfe : f ∈ ext) (hge : g ∈ ext)
    (herr : (setOpR cap p op fuel r f g).1 = none) :
    RcInv (setOpR cap p op fuel r f g).2 ext ∧
    ∀ x T, DenotesZ r.st.store x T → DenotesZ (setOpR cap p op fuel r f g).2.st.store x T := by
  have := setOpR_rc_exact pok cap op fuel r f g ext hi (hi.ext_ok f hfe) (hi.ext_ok g hge)
  refine ⟨?_, fun x T hd => hd.mono this.1⟩
  have h2 := this.2
  cases hR : setOpR cap p op fuel r f g with
  | mk o r' =>
    rw [hR] at h2 herr
    simp only at herr
    subst herr
    exact h2

/-! ## garbage collection driven by the counters -/

/-- **`gcR_sound`** (any store): the level-wise sweep that removes the nodes whose counter shows
only the unique table's reference keeps the counters exact, clears the cache, creates and changes
nothing, removes no node reachable from an external edge (handle **or chain entry**), and every
external edge denotes what it denoted. -/
theorem gcR_sound (numLevels : Nat) (r : RSt) (ext : List ZEdge) (h : RcInv r ext) :
    RcInv (gcR numLevels r) ext ∧ (gcR numLevels r).st.cache = [] ∧
    (∀ i n, (gcR numLevels r).st.store.get? i = some n → r.st.store.get? i = some n) ∧
    (∀ i, Reach r.st.store ext i → ∃ n, r.st.store.get? i = some n ∧
      (gcR numLevels r).st.store.get? i = some n) ∧
    (∀ x T, x ∈ ext → DenotesZ r.st.store x T → DenotesZ (gcR numLevels r).st.store x T) := by
  refine ⟨(gcR_rc numLevels h).1, (gcR_rc numLevels h).2, gcR_sub numLevels r,
    fun i hr => gcR_keeps_reach numLevels h hr, ?_⟩
  intro x T hx hd
  exact gcR_denotes numLevels h hd (fun i hi => .root (hi ▸ hx))

/-- **`gcR_exact`.** If the store is ordered and every level is visited, the nodes that remain
are **exactly** the nodes reachable from the handles and the chain entries: a node is freed iff no
handle, no chain entry and no surviving parent references it. -/
theorem gcR_exact (numLevels : Nat) (r : RSt) (chain hs : List ZEdge) (h : RcInv r (chain ++ hs))
    (ho : SOrdered r.st.store) (hl : ∀ i n, r.st.store.get? i = some n → n.level < numLevels) :
    RcInv (gcR numLevels r) (chain ++ hs) ∧
    (∀ i, (∃ n, (gcR numLevels r).st.store.get? i = some n) ↔ Reach r.st.store (chain ++ hs) i) ∧
    (∀ i n, (gcR numLevels r).st.store.get? i = some n → r.st.store.get? i = some n) ∧
    (∀ x T, x ∈ chain ++ hs → DenotesZ r.st.store x T → DenotesZ (gcR numLevels r).st.store x T) := by
  obtain ⟨h1, _, h3, h4, h5⟩ := gcR_sound numLevels r _ h
  refine ⟨h1, fun i => ⟨?_, ?_⟩, h3, h5⟩
  · rintro ⟨n, hn⟩
    exact gcR_complete numLevels h ho hl hn
  · intro hr
    obtain ⟨n, _, hn⟩ := h4 i hr
    exact ⟨n, hn⟩

/-- everything reachable from a closed chain is a chain node -/
theorem reach_chain {s : Store} {chain : List ZEdge} (hc : ChainClosed s chain) {i : Nat}
    (hr : Reach s chain i) : .inner i ∈ chain := by
  induction hr with
  | root hm => exact hm
  | kid _ hp hch ih =>
    obtain ⟨a, b⟩ := hc _ _ ih hp
    rcases hch with hch | hch
    · rw [← hch]; exact a
    · rw [← hch]; exact b

/-- **`all_dropped_chain_only`.** When every handle has been dropped, a collection leaves exactly
the chain nodes — the ZBDD reading of *"returns the manager to its initial node count"*: the
initial store of a ZBDD manager is its chain (`init_rcinv`). -/
theorem all_dropped_chain_only (numLevels : Nat) (r : RSt) (chain : List ZEdge)
    (h : RcInv r chain) (ho : SOrdered r.st.store)
    (hl : ∀ i n, r.st.store.get? i = some n → n.level < numLevels)
    (hc : ChainClosed r.st.store chain) :
    ∀ i, (∃ n, (gcR numLevels r).st.store.get? i = some n) ↔ .inner i ∈ chain := by
  intro i
  constructor
  · rintro ⟨n, hn⟩
    exact reach_chain hc (gcR_complete numLevels h ho hl hn)
  · intro hm
    obtain ⟨n, _, hn⟩ := gcR_keeps_reach numLevels h (.root hm)
    exact ⟨n, hn⟩

/-! ## histories -/

/-- **`rc_history`.** After **every** sequence of commands — constants, `t`, `var`, `singleton`,
the set operations, `not`, `subset0/subset1/change` (each under its own capacity: successful or
failing with OutOfMemory anywhere), `clone`, `drop`, `gc`, `add_vars`, an empty reordering — the
counter of every stored node equals `1 + chain entries + handles + stored parent edges`. -/
theorem rc_history {p : Policy} (pok : p.OK) (cmds : List Rc.Cmd) (h : HSt)
    (hi : RcInv h.r (h.chain ++ h.hs)) :
    RcInv (runAll p cmds h).r ((runAll p cmds h).chain ++ (runAll p cmds h).hs) :=
  runAll_rc pok cmds h hi

/-- **`ord_history`.** Along every history from a fresh manager the counters stay exact, the
store stays ordered with all levels below the current number of levels, and the chain stays
level-correct and closed. -/
theorem ord_history {p : Policy} (pok : p.OK) (cap n : Nat) (h0 : HSt)
    (hinit : HSt.init cap n = some h0) (cmds : List Rc.Cmd) :
    HInv (runAll p cmds h0) ∧ HOrd (runAll p cmds h0) :=
  runAll_ord pok cmds h0 (init_rc hinit) (init_ord hinit)

/-- **`gc_history_exact`.** After *any* history (operations succeeding or failing with
OutOfMemory, clones, drops, earlier collections, `add_vars`, reorderings) a collection keeps
exactly the nodes reachable from the live handles and the chain, with exact counters, and every
handle and chain entry denotes what it denoted — no hypothesis on the state is left. -/
theorem gc_history_exact {p : Policy} (pok : p.OK) (cap n : Nat) (h0 : HSt)
    (hinit : HSt.init cap n = some h0) (cmds : List Rc.Cmd) :
    let h := runAll p cmds h0
    RcInv (gcR h.n h.r) (h.chain ++ h.hs) ∧
    (∀ i, (∃ m, (gcR h.n h.r).st.store.get? i = some m) ↔ Reach h.r.st.store (h.chain ++ h.hs) i) ∧
    (∀ i m, (gcR h.n h.r).st.store.get? i = some m → h.r.st.store.get? i = some m) ∧
    (∀ x T, x ∈ h.chain ++ h.hs → DenotesZ h.r.st.store x T → DenotesZ (gcR h.n h.r).st.store x T) := by
  intro h
  obtain ⟨hi, ho⟩ := ord_history pok cap n h0 hinit cmds
  exact gcR_exact h.n h.r h.chain h.hs hi ho.ord.ord ho.ord.bound

/-- **`all_dropped_chain_only_history`.** After any history that ends without handles, a
collection leaves exactly the nodes of the (current) chain. -/
theorem all_dropped_chain_only_history {p : Policy} (pok : p.OK) (cap n : Nat) (h0 : HSt)
    (hinit : HSt.init cap n = some h0) (cmds : List Rc.Cmd)
    (hnone : (runAll p cmds h0).hs = []) :
    let h := runAll p cmds h0
    ∀ i, (∃ m, (gcR h.n h.r).st.store.get? i = some m) ↔ .inner i ∈ h.chain := by
  intro h
  obtain ⟨hi, ho⟩ := ord_history pok cap n h0 hinit cmds
  have hi' : RcInv h.r h.chain := by
    have := hi
    unfold HInv at this
    rw [hnone, List.append_nil] at this
    exact this
  exact all_dropped_chain_only h.n h.r h.chain hi' ho.ord.ord ho.ord.bound ho.closed

/-! ## non-vacuity: a history with failing operations, garbage, `add_vars`, collections -/

theorem init_getD {cap n : Nat} (d : HSt) (h : (HSt.init cap n).isSome = true) :
    HSt.init cap n = some ((HSt.init cap n).getD d) := by
  cases hh : HSt.init cap n with
  | none => rw [hh] at h; cases h
  | some x => rfl

/-- two variables, capacity 8: the chain `#0 = (1 B B)`, `#1 = (0 #0 #0)` -/
def exInit : HSt := (HSt.init 8 2).getD ⟨RSt.empty, [], 0, []⟩

theorem exInit_init : HSt.init 8 2 = some exInit := init_getD _ (by decide +kernel)

example : exInit.chain = [.inner 1, .inner 0, .base] ∧ exInit.r.rc = #[4, 2] := by decide +kernel

/-- a capacity smaller than the number of variables: abort (`KF-zbdd-addvars-oom`) -/
example : (HSt.init 2 3).isSome = false := by decide +kernel

/-- singletons `{{0}}`, `{{1}}`; their union; `not` under capacity 5 (OutOfMemory at the first
allocation) and under capacity 8; `change`; a symmetric difference under capacity 6 (fails);
drop; `add_vars(1)`; `gc`; `t`; `var 1`; an empty reordering; drop everything; `gc` -/
def exCmds : List Rc.Cmd :=
  [.singleton 8 0, .singleton 8 1, .setop 8 10 .union 0 1, .not 5 10 0, .not 8 10 0,
   .subset 8 10 .change 1 0, .setop 6 10 .symmDiff 1 3, .drop 0, .addVars 20 1, .gc, .t,
   .var 20 1, .reorderNop 20, .drop 0, .drop 0, .drop 0, .drop 0, .drop 0, .drop 0, .gc]

def exRun (k : Nat) : HSt := runAll Policy.exact (exCmds.take k) exInit

/-- the failed `not` (capacity 5 = number of stored nodes) changed nothing -/
example : (exRun 4).hs = (exRun 3).hs ∧ (exRun 4).r.rc = (exRun 3).r.rc ∧ (exRun 3).r.rc = #[4, 2, 2, 3, 2] := by
  decide +kernel

/-- the successful `not` created one node -/
example : (exRun 5).hs = [.inner 5, .inner 4, .inner 3, .inner 2] ∧ (exRun 5).r.rc = #[4, 2, 2, 4, 2, 2] := by
  decide +kernel

/-- the counters are exact at every point (the theorem), and the executable check agrees -/
example : RcInv (exRun 9).r ((exRun 9).chain ++ (exRun 9).hs) :=
  rc_history Policy.exact_ok _ _ (init_rc exInit_init)

example : (List.range 21).all (fun k => rcCheck (exRun k).r ((exRun k).chain ++ (exRun k).hs)) = true := by
  decide +kernel

/-- after `add_vars(1)`: three levels, a new chain `#8, #7, #6`; the old chain nodes `#0`, `#1`
lost their internal reference (`#1` is garbage now, `#0` too) -/
example : (exRun 9).n = 3 ∧ (exRun 9).chain = [.inner 8, .inner 7, .inner 6, .base] ∧
    rcGet (exRun 9).r.rc 1 = 1 ∧ count (exRun 9).r.st.store = 9 ∧ count (exRun 10).r.st.store = 7 := by
  decide +kernel

/-- at the end no handle is left and exactly the three chain nodes are stored -/
example : (exRun 20).hs = [] ∧ count (exRun 20).r.st.store = 3 ∧
    (exRun 20).chain = [.inner 8, .inner 7, .inner 6, .base] := by decide +kernel

/-! ## negative witnesses -/

/-- a manager with one variable; `s0 = {{0}}` (#1) is held; `{∅} ∪ s0` was computed — it is the
chain node #0 — and dropped again: the apply cache still maps `(Union, [Base, #1])` to #0 -/
def exNG : HSt :=
  runAll Policy.exact [.singleton 8 0, .const true, .setop 8 10 .union 0 1, .drop 0]
    ((HSt.init 8 1).getD ⟨RSt.empty, [], 0, []⟩)

example : exNG.chain = [.inner 0, .base] ∧ exNG.hs = [.base, .inner 1] ∧ exNG.r.rc = #[2, 2] ∧
    exNG.r.st.cache.length = 1 := by decide +kernel

theorem exNG_inv : RcInv exNG.r (exNG.chain ++ exNG.hs) :=
  rc_history Policy.exact_ok _ _
    (init_rc (cap := 8) (n := 1) (init_getD _ (by decide +kernel)))

/-- **`tryremove_noguard_violates_rcinv`.** With `try_remove_node` lacking the
`reorder_gc_prepared` guard (the class of the seeded `R2-C05-zbdd-addvars-frees-node` /
`R4-C20-tryremove-and-or`), `pre_reorder_mut` inside `add_vars` frees the chain node #0 although an
apply-cache entry still refers to it: the invariant is violated (with the guard it holds:
`tearDownR_rc`). -/
theorem tryremove_noguard_violates_rcinv :
    ¬ RcInv (tearDownR tryRemoveNodeNoGuard exNG.chain exNG.r) exNG.hs ∧
    RcInv (tearDownR (tryRemoveNodeR false) exNG.chain exNG.r) exNG.hs := by
  refine ⟨fun h => ?_, tearDownR_rc _ _ _ exNG_inv (fun hp => by cases hp)⟩
  have := rcCheck_of_inv h
  revert this
  decide +kernel

/-- … and after the chain has been rebuilt the freed slot holds the chain node of the *new* level,
so the stale entry makes `{∅} ∪ {{0}}` return `{∅, {1}}` (node `(1 B B)`) instead of
`{∅, {0}}` (node `(0 B B)`, which the unmutated `add_vars` returns) -/
theorem tryremove_noguard_wrong_result :
    (let r' := (addVarsNoGuard 8 1 1 exNG.chain exNG.r).2
     let R := setOpR 8 Policy.exact .union 10 r' .base (.inner 1)
     R.1.bind (fun e => R.2.st.store.node? e) = some ⟨1, .base, .base⟩) ∧
    (let r' := (addVarsR 8 1 1 exNG.chain exNG.r).2
     let R := setOpR 8 Policy.exact .union 10 r' .base (.inner 1)
     R.1.bind (fun e => R.2.st.store.node? e) = some ⟨0, .base, .base⟩) := by
  decide +kernel

/-- **`leak_violates_rcinv`.** With `add_node` returning OutOfMemory *without* dropping the
children of the rejected node (the seeded `C05-oom-leaks-children`), a failed `get_or_insert`
leaves a reference nobody owns. -/
theorem leak_violates_rcinv :
    (insertLeak 2 (cloneEdge exInit.r (.inner 0)) 0 (.inner 0) .empty).1 = none ∧
    ¬ RcInv (insertLeak 2 (cloneEdge exInit.r (.inner 0)) 0 (.inner 0) .empty).2
      (exInit.chain ++ exInit.hs) ∧
    RcInv (insertR 2 (cloneEdge exInit.r (.inner 0)) 0 (.inner 0) .empty).2
      (exInit.chain ++ exInit.hs) := by
  have hi : RcInv exInit.r (exInit.chain ++ exInit.hs) :=
    init_rc exInit_init
  refine ⟨by decide +kernel, fun h => ?_, ?_⟩
  · have := rcCheck_of_inv h
    revert this
    decide +kernel
  · have h2 : RcInv (cloneEdge exInit.r (.inner 0)) (.inner 0 :: .empty :: (exInit.chain ++ exInit.hs)) :=
      cloneEdge_rc hi.add_empty (hi.ext_ok _ (by decide +kernel))
    have := insertR_rc (cap := 2) (l := 0) h2
    have e : insertR 2 (cloneEdge exInit.r (.inner 0)) 0 (.inner 0) .empty =
        (none, (insertR 2 (cloneEdge exInit.r (.inner 0)) 0 (.inner 0) .empty).2) := by
      have : (insertR 2 (cloneEdge exInit.r (.inner 0)) 0 (.inner 0) .empty).1 = none := by decide +kernel
      generalize insertR 2 (cloneEdge exInit.r (.inner 0)) 0 (.inner 0) .empty = R at this ⊢
      cases R; cases this; rfl
    rw [e] at this
    exact this

end OxiddModel.Zbdd.C05R
