import OxiddModel.Zbdd.IteS

/-!
# C06 (and the store-level half of C09) — the apply cache is transparent (ZBDD rules, store level)

Property text (C06): *"The handle returned by an operation is determined by its operator, operands
and the current variable order alone: it is the same whatever operations ran before, whatever the
apply-cache capacity is, and whichever entries were evicted or overwritten. A result memoised for
one operator, operand tuple or substitution is never served for another, and no memoised result
outlives a garbage collection, reordering or variable addition that could invalidate it."*

Modelled code: `apply_union`, `apply_intsec`, `apply_diff`, `apply_symm_diff`, `subset::<VAL>`
(`subset0/subset1/change`), `apply_not`, `apply_ite`, `restrict` with `restrict_base`
(`crates/oxidd-rules-zbdd/src/apply_rec.rs`), `reduce`, `reduce1`,
`ZBDDCache::{post_reorder_mut, tautology}` (`lib.rs`), `Manager::add_vars` as far as store, chain
and apply cache are concerned, and the cache discipline of `crates/oxidd-cache/src/direct.rs`
abstracted to a `Policy` (`Bdd/CacheS.lean`; the only facts used are `Policy.OK`: *a hit returns a
value stored under exactly the queried key*, *`add` invents no entries*). A ZBDD key is the triple
`(operator, edge operands, numeric operands)` of `get_extended`/`add_extended`; it enters the
generic cache through the injective `encKey`.

All theorems hold for all stores, caches, operands, variables and every fuel ≥ the sum of the
operand sizes (for `restrict`, whose recursion also runs along the levels: every fuel from a bound
on that depends on the operand trees only).

What is *not* covered here: the bucket/lock implementation of `DMApplyCache` (abstracted by
`Policy.OK`), reordering (level swaps are not modelled here; the cache is cleared like for `gc`),
the multi-threaded recursors, histories of operations (each theorem is about one call from an
arbitrary invariant-satisfying state, which is what a history consists of). `apply_ite` is specified
for operands in normal form (`NF n 0`: ordered and zero-suppressed for the manager's `n` levels —
the store model does not track ordering as an invariant, so this is a hypothesis; it is what makes
`Ite` entries, whose key has no `num_levels`, survive `add_vars`).
-/
namespace OxiddModel.Zbdd.C06
open OxiddModel.Zbdd OxiddModel.Zbdd.ZDD OxiddModel.Zbdd.Refine
open OxiddModel.Bdd.Refine (Policy OpTag Key Cache)

/-! ## the cached algorithms refine the tree-level operations, for every cache behaviour -/

/-- **`apply_union`, `apply_intsec`, `apply_diff` (and `apply_symm_diff`) with cache refine
`union`, `intsec`, `diff` (`symmDiff`).** From any state whose store is hash-consed (`Unique`) and
whose cache is sound (`CacheOK`), for every admissible cache behaviour `p`: the returned edge
denotes the tree-level result (`setOp .union = union`, `setOp .intsec = intsec`,
`setOp .diff = diff`), the store is only extended, and `Unique ∧ CacheOK` hold afterwards. The
algorithm includes the `f == g` terminal cases on edges, the `f > g` operand swap of the
commutative operators in the cache key, the `(∅, itself)` cofactors of an operand below the
current level, and the cache add. (C06: the result is determined by the denotations of the
operands — no dependence on cache content, capacity or eviction. C09: it is the documented
family, by `union_sem`, `intsec_sem`, `diff_sem` of `Zbdd/Properties.lean`.) -/
theorem zbdd_setop_spec {p : Policy} (pok : p.OK) (env : Env) (op : SetOp) (fuel : Nat) (st : St)
    (f g : ZEdge) (a b : ZDD) (hu : st.store.Unique) (hc : CacheOK env st.store st.cache)
    (hf : DenotesZ st.store f a) (hg : DenotesZ st.store g b) (hfuel : a.size + b.size ≤ fuel) :
    DenotesZ (setOpS p op fuel st f g).1.store (setOpS p op fuel st f g).2 (setOp op a b) ∧
    st.store.Le (setOpS p op fuel st f g).1.store ∧
    (setOpS p op fuel st f g).1.store.Unique ∧
    CacheOK env (setOpS p op fuel st f g).1.store (setOpS p op fuel st f g).1.cache :=
  have P := setOpS_spec pok env op fuel st f g a b ⟨hu, hc⟩ hf hg hfuel
  ⟨P.den, P.le, P.inv.1, P.inv.2⟩

/-- the three operators of `BooleanVecSet` by name -/
theorem zbdd_setop_names : setOp .union = union ∧ setOp .intsec = intsec ∧ setOp .diff = diff ∧
    setOp .symmDiff = symmDiff := ⟨rfl, rfl, rfl, rfl⟩

/-- **`subset::<VAL>` with cache refines `subset op`** (`subset0`, `subset1`, `change`), where the
cache key is `(op, [f], [var])` with the variable *number* as numeric operand and the level passed
along is `var_to_level(var)`. -/
theorem zbdd_subset_spec {p : Policy} (pok : p.OK) (env : Env) (op : SubsetOp) (var : Nat)
    (fuel : Nat) (st : St) (f : ZEdge) (a : ZDD) (hu : st.store.Unique)
    (hc : CacheOK env st.store st.cache) (hf : DenotesZ st.store f a) (hfuel : a.size ≤ fuel) :
    let R := subsetS p op var (env.levelOf var) fuel st f
    DenotesZ R.1.store R.2 (subset op (env.levelOf var) a) ∧ st.store.Le R.1.store ∧
      R.1.store.Unique ∧ CacheOK env R.1.store R.1.cache :=
  have P := subsetS_spec pok env op var fuel st f a ⟨hu, hc⟩ hf hfuel
  ⟨P.den, P.le, P.inv.1, P.inv.2⟩

/-- **`apply_not` with cache refines `applyNot n`**: `tautology(0) ∖ f`, where `tautology(0)` is
read from the manager's chain -/
theorem zbdd_not_spec {p : Policy} (pok : p.OK) (env : Env) (chain : List ZEdge) (fuel : Nat)
    (st : St) (f : ZEdge) (a : ZDD) (hu : st.store.Unique) (hc : CacheOK env st.store st.cache)
    (hch : ChainOK env.numLevels st.store chain) (hf : DenotesZ st.store f a)
    (hfuel : (taut env.numLevels 0).size + a.size ≤ fuel) :
    let R := notS p chain fuel st f
    DenotesZ R.1.store R.2 (applyNot env.numLevels a) ∧ st.store.Le R.1.store ∧
      R.1.store.Unique ∧ CacheOK env R.1.store R.1.cache :=
  have P := notS_spec pok env chain fuel st f a ⟨hu, hc⟩ hch hf hfuel
  ⟨P.den, P.le, P.inv.1, P.inv.2⟩


/-- **`apply_ite` with cache refines `applyIte n`**, with the key `(Ite, [f, g, h], [])`, including
the terminal cases on edges, the comparisons with `tautology(level)` read from the chain and all
delegations to `apply_union/intsec/diff`. Operands are diagrams in normal form for the manager's
`n` levels (every handle of the real manager is; the store model does not track ordering). -/
theorem zbdd_ite_spec {p : Policy} (pok : p.OK) (env : Env) (chain : List ZEdge) (fuel : Nat)
    (st : St) (f g h : ZEdge) (a b c : ZDD) (hu : st.store.Unique)
    (hc : CacheOK env st.store st.cache) (hch : ChainOK env.numLevels st.store chain)
    (hf : DenotesZ st.store f a) (hg : DenotesZ st.store g b) (hh : DenotesZ st.store h c)
    (hna : NF env.numLevels 0 a) (hnb : NF env.numLevels 0 b) (hnc : NF env.numLevels 0 c)
    (hfuel : a.size + b.size + c.size ≤ fuel) :
    let R := iteS p chain fuel st f g h
    DenotesZ R.1.store R.2 (applyIte env.numLevels a b c) ∧ st.store.Le R.1.store ∧
      R.1.store.Unique ∧ CacheOK env R.1.store R.1.cache :=
  have P := iteS_spec pok env chain fuel st f g h a b c ⟨hu, hc⟩ hch hf hg hh hna hnb hnc hfuel
  ⟨P.den, P.le, P.inv.1, P.inv.2⟩

/-- **`restrict` with cache refines the tree-level `restrict n`**, where the cache key is
`(Restrict, [f, vars], [num_levels])`: in a manager with `n = env.numLevels` levels whose tautology
chain is in place, for all operand trees there is a fuel bound (depending on the trees only) from
which on the returned edge denotes `restrict n a c level`, the store is only extended and
`Unique ∧ CacheOK` hold afterwards — for every admissible policy and every sound cache, **including
caches holding `Restrict` entries computed for other numbers of levels**. -/
theorem zbdd_restrict_spec {p : Policy} (pok : p.OK) (env : Env) (chain : List ZEdge) (a c : ZDD)
    (level : Nat) : ∃ N, ∀ fuel, N ≤ fuel → ∀ (st : St) (f vars : ZEdge), st.store.Unique →
    CacheOK env st.store st.cache → ChainOK env.numLevels st.store chain →
    DenotesZ st.store f a → DenotesZ st.store vars c →
    let R := restrictS p chain env.numLevels fuel st f vars level
    DenotesZ R.1.store R.2 (restrict env.numLevels a c level) ∧ st.store.Le R.1.store ∧
      R.1.store.Unique ∧ CacheOK env R.1.store R.1.cache := by
  obtain ⟨N, h⟩ := restrictS_spec pok env chain a c level
  exact ⟨N, fun fuel hN st f vars hu hc hch hf hv =>
    have P := h fuel hN st f vars ⟨hu, hc⟩ hch hf hv
    ⟨P.den, P.le, P.inv.1, P.inv.2⟩⟩

/-! ## transparency -/

/-- **The cache is transparent (set operators).** Two runs of the same operation from the same
hash-consed, zero-suppressed store (`Unique`, `NoRed`) with two *different* sound caches `c1`, `c2`
(empty vs. warmed up vs. after evictions), different cache behaviours `p1`, `p2` (capacity, hash,
lock failures), different time stamps and fuels: the returned **edges are equal and the stores
afterwards are equal** (both are `intern s (setOp op a b)`). -/
theorem zbdd_cache_transparent {p1 p2 : Policy} (ok1 : p1.OK) (ok2 : p2.OK) (env : Env)
    (op : SetOp) (s : Store) (c1 c2 : Cache) (t1 t2 fuel1 fuel2 : Nat) (f g : ZEdge) (a b : ZDD)
    (hu : s.Unique) (hr : s.NoRed) (h1 : CacheOK env s c1) (h2 : CacheOK env s c2)
    (hf : DenotesZ s f a) (hg : DenotesZ s g b)
    (hfuel1 : a.size + b.size ≤ fuel1) (hfuel2 : a.size + b.size ≤ fuel2) :
    (setOpS p1 op fuel1 ⟨s, c1, t1⟩ f g).2 = (setOpS p2 op fuel2 ⟨s, c2, t2⟩ f g).2 ∧
    (setOpS p1 op fuel1 ⟨s, c1, t1⟩ f g).1.store = (setOpS p2 op fuel2 ⟨s, c2, t2⟩ f g).1.store := by
  have P1 := (setOpS_spec ok1 env op fuel1 ⟨s, c1, t1⟩ f g a b ⟨hu, h1⟩ hf hg hfuel1).canon hr
  have P2 := (setOpS_spec ok2 env op fuel2 ⟨s, c2, t2⟩ f g a b ⟨hu, h2⟩ hf hg hfuel2).canon hr
  have e := P1.trans P2.symm
  exact ⟨(Prod.mk.inj e).2, (Prod.mk.inj e).1⟩

/-- the same for `subset0/subset1/change` -/
theorem zbdd_cache_transparent_subset {p1 p2 : Policy} (ok1 : p1.OK) (ok2 : p2.OK) (env : Env)
    (op : SubsetOp) (var : Nat) (s : Store) (c1 c2 : Cache) (t1 t2 fuel1 fuel2 : Nat) (f : ZEdge)
    (a : ZDD) (hu : s.Unique) (hr : s.NoRed) (h1 : CacheOK env s c1) (h2 : CacheOK env s c2)
    (hf : DenotesZ s f a) (hfuel1 : a.size ≤ fuel1) (hfuel2 : a.size ≤ fuel2) :
    (subsetS p1 op var (env.levelOf var) fuel1 ⟨s, c1, t1⟩ f).2 =
      (subsetS p2 op var (env.levelOf var) fuel2 ⟨s, c2, t2⟩ f).2 ∧
    (subsetS p1 op var (env.levelOf var) fuel1 ⟨s, c1, t1⟩ f).1.store =
      (subsetS p2 op var (env.levelOf var) fuel2 ⟨s, c2, t2⟩ f).1.store := by
  have P1 := (subsetS_spec ok1 env op var fuel1 ⟨s, c1, t1⟩ f a ⟨hu, h1⟩ hf hfuel1).canon hr
  have P2 := (subsetS_spec ok2 env op var fuel2 ⟨s, c2, t2⟩ f a ⟨hu, h2⟩ hf hfuel2).canon hr
  have e := P1.trans P2.symm
  exact ⟨(Prod.mk.inj e).2, (Prod.mk.inj e).1⟩

/-- the same for `apply_ite` -/
theorem zbdd_cache_transparent_ite {p1 p2 : Policy} (ok1 : p1.OK) (ok2 : p2.OK) (env : Env)
    (chain : List ZEdge) (s : Store) (c1 c2 : Cache) (t1 t2 fuel1 fuel2 : Nat) (f g h : ZEdge)
    (a b c : ZDD) (hu : s.Unique) (hr : s.NoRed) (h1 : CacheOK env s c1) (h2 : CacheOK env s c2)
    (hch : ChainOK env.numLevels s chain)
    (hf : DenotesZ s f a) (hg : DenotesZ s g b) (hh : DenotesZ s h c)
    (hna : NF env.numLevels 0 a) (hnb : NF env.numLevels 0 b) (hnc : NF env.numLevels 0 c)
    (hfuel1 : a.size + b.size + c.size ≤ fuel1) (hfuel2 : a.size + b.size + c.size ≤ fuel2) :
    (iteS p1 chain fuel1 ⟨s, c1, t1⟩ f g h).2 = (iteS p2 chain fuel2 ⟨s, c2, t2⟩ f g h).2 ∧
    (iteS p1 chain fuel1 ⟨s, c1, t1⟩ f g h).1.store =
      (iteS p2 chain fuel2 ⟨s, c2, t2⟩ f g h).1.store := by
  have P1 := (iteS_spec ok1 env chain fuel1 ⟨s, c1, t1⟩ f g h a b c ⟨hu, h1⟩ hch hf hg hh hna hnb
    hnc hfuel1).canon hr
  have P2 := (iteS_spec ok2 env chain fuel2 ⟨s, c2, t2⟩ f g h a b c ⟨hu, h2⟩ hch hf hg hh hna hnb
    hnc hfuel2).canon hr
  have e := P1.trans P2.symm
  exact ⟨(Prod.mk.inj e).2, (Prod.mk.inj e).1⟩

/-- the cache is transparent for `restrict` too: equal edges and equal stores for different sound
caches, policies, time stamps and (sufficient) fuels -/
theorem zbdd_cache_transparent_restrict {p1 p2 : Policy} (ok1 : p1.OK) (ok2 : p2.OK) (env : Env)
    (chain : List ZEdge) (a c : ZDD) (level : Nat) :
    ∃ N, ∀ fuel1 fuel2, N ≤ fuel1 → N ≤ fuel2 → ∀ (s : Store) (c1 c2 : Cache) (t1 t2 : Nat)
      (f vars : ZEdge), s.Unique → s.NoRed → CacheOK env s c1 → CacheOK env s c2 →
      ChainOK env.numLevels s chain → DenotesZ s f a → DenotesZ s vars c →
      (restrictS p1 chain env.numLevels fuel1 ⟨s, c1, t1⟩ f vars level).2 =
        (restrictS p2 chain env.numLevels fuel2 ⟨s, c2, t2⟩ f vars level).2 ∧
      (restrictS p1 chain env.numLevels fuel1 ⟨s, c1, t1⟩ f vars level).1.store =
        (restrictS p2 chain env.numLevels fuel2 ⟨s, c2, t2⟩ f vars level).1.store := by
  obtain ⟨N1, h1⟩ := restrictS_spec ok1 env chain a c level
  obtain ⟨N2, h2⟩ := restrictS_spec ok2 env chain a c level
  refine ⟨max N1 N2, fun fuel1 fuel2 hf1 hf2 s c1 c2 t1 t2 f vars hu hr hc1 hc2 hch hf hv => ?_⟩
  have P1 := (h1 fuel1 (by omega) ⟨s, c1, t1⟩ f vars ⟨hu, hc1⟩ hch hf hv).canon hr
  have P2 := (h2 fuel2 (by omega) ⟨s, c2, t2⟩ f vars ⟨hu, hc2⟩ hch hf hv).canon hr
  have e := P1.trans P2.symm
  exact ⟨(Prod.mk.inj e).2, (Prod.mk.inj e).1⟩



/-- without the zero-suppression assumption on the store: if the result tree is already present in
the initial store as edge `x`, every run returns exactly `x`, whatever the cache does -/
theorem zbdd_cache_transparent_existing {p : Policy} (pok : p.OK) (env : Env) (op : SetOp)
    (fuel : Nat) (st : St) (f g x : ZEdge) (a b : ZDD) (hu : st.store.Unique)
    (hc : CacheOK env st.store st.cache) (hf : DenotesZ st.store f a) (hg : DenotesZ st.store g b)
    (hfuel : a.size + b.size ≤ fuel) (hx : DenotesZ st.store x (setOp op a b)) :
    (setOpS p op fuel st f g).2 = x := by
  have P := setOpS_spec pok env op fuel st f g a b ⟨hu, hc⟩ hf hg hfuel
  exact inj_of_unique P.inv.1 _ _ _ P.den (hx.mono P.le)

/-! ## keys -/

/-- **A hit needs the full key, numeric operands included.** For every admissible policy a hit
for the key `(op, operands, nums)` is backed by an entry stored under a key with the *same
operator, the same edge operands and the same numeric operands*: the encoding of keys is
injective. -/
theorem zbdd_cache_key_full {p : Policy} (pok : p.OK) (t : Nat) (c : Cache) (k : ZKey)
    (r : Bdd.Refine.Edge) (h : p.get t c (encKey k) = some r) :
    (encKey k, r) ∈ c ∧
    ∀ k' : ZKey, encKey k' = encKey k →
      k'.op = k.op ∧ k'.operands = k.operands ∧ k'.nums = k.nums :=
  ⟨pok.get_mem t c _ r h, fun k' e => by rw [encKey_inj e]; exact ⟨rfl, rfl, rfl⟩⟩

/-- consequently: if no entry carries exactly this key, every admissible policy misses -/
theorem zbdd_no_cross_hit {p : Policy} (pok : p.OK) (t : Nat) (c : Cache) (k : ZKey)
    (h : ∀ x, x ∈ c → x.1 ≠ encKey k) : p.get t c (encKey k) = none := by
  cases hg : p.get t c (encKey k) with
  | none => rfl
  | some r => exact absurd rfl (h _ (pok.get_mem t c _ r hg))

/-- **A result memoised for `subset1(f, v)` is never served for `subset1(f, w)`, `v ≠ w`** (nor
for any other edge operand under `w`; the same for `subset0` and `change`): start from a cache
without entries for `w`, run `subset::<VAL>(f, v, ·)` with any admissible policy; afterwards a
query for `(op, [e], [w])` misses under every admissible policy — although the cache now holds
entries `(op, [·], [v])`. (Keying by `(op, [f])` alone was the mistake seeded by an independent
tester; in the model it is excluded by `encKey_inj`.) -/
theorem zbdd_subset_var_not_confused {p p' : Policy} (pok : p.OK) (pok' : p'.OK) (op : SubsetOp)
    (v w vl fuel : Nat) (hvw : v ≠ w) (st : St) (f : ZEdge)
    (hc : ∀ x e, x ∈ st.cache → x.1 ≠ encKey ⟨subsetTag op, [e], [w]⟩) (e : ZEdge) (t : Nat) :
    p'.get t (subsetS p op v vl fuel st f).1.cache (encKey ⟨subsetTag op, [e], [w]⟩) = none := by
  apply zbdd_no_cross_hit pok'
  intro x hx heq
  rcases subsetS_cache_keys pok op v vl fuel st f x hx with h | ⟨e', h⟩
  · exact hc x e h heq
  · rw [h] at heq
    have := encKey_inj heq
    simp only [ZKey.mk.injEq, List.cons.injEq, and_true] at this
    exact hvw this.2.2

/-- the model policies are admissible: ideal cache, no cache, and the direct-mapped cache for
every capacity, hash function and lock-failure pattern -/
theorem zbdd_policies_admissible (cap : Nat) (hash : Key → Nat) (lock : Nat → Bool) :
    Policy.exact.OK ∧ Policy.none.OK ∧ (Policy.dm cap hash lock).OK :=
  ⟨Policy.exact_ok, Policy.none_ok, Policy.dm_ok cap hash lock⟩

/-- **Each operator is memoised under its own tag.** (1) every entry in the cache after
`apply_<op>` was there before or is keyed by exactly `(op, [x, y], [])`; (2) every entry in the
cache after `subset::<VAL>(·, var, ·)` was there before or is keyed by exactly
`(VAL's operator, [x], [var])`; (3) distinct operators have distinct tags, also after the
encoding into the generic cache. (The MTBDD defect "`Max` memoised under `Min`" is a violation of
exactly this statement, in another crate.) -/
theorem zbdd_memo_tag_ok {p : Policy} (pok : p.OK) :
    (∀ (op : SetOp) (fuel : Nat) (st : St) (f g : ZEdge) (x : Key × Bdd.Refine.Edge),
      x ∈ (setOpS p op fuel st f g).1.cache →
        x ∈ st.cache ∨ ∃ a b, x.1 = encKey ⟨setTag op, [a, b], []⟩) ∧
    (∀ (op : SubsetOp) (var vl fuel : Nat) (st : St) (f : ZEdge) (x : Key × Bdd.Refine.Edge),
      x ∈ (subsetS p op var vl fuel st f).1.cache →
        x ∈ st.cache ∨ ∃ e, x.1 = encKey ⟨subsetTag op, [e], [var]⟩) ∧
    (∀ a b : SetOp, setTag a = setTag b → a = b) ∧
    (∀ a b : SubsetOp, subsetTag a = subsetTag b → a = b) ∧
    (∀ (a : SetOp) (b : SubsetOp), setTag a ≠ subsetTag b) ∧
    (∀ a b : ZOp, tagEnc a = tagEnc b → a = b) :=
  ⟨fun op fuel st f g x hx => setOpS_cache_keys pok op fuel st f g x hx,
   fun op var vl fuel st f x hx => subsetS_cache_keys pok op var vl fuel st f x hx,
   fun _ _ h => setTag_inj h, fun _ _ h => subsetTag_inj h,
   fun a b => by cases a <;> cases b <;> decide,
   fun _ _ h => tagEnc_inj h⟩

/-- the terminal cases on edges (including `f == g`) agree with those on trees in every
hash-consed store -/
theorem zbdd_terminal_refines (op : SetOp) {s : Store} (hu : s.Unique) {f g : ZEdge} {a b : ZDD}
    (hf : DenotesZ s f a) (hg : DenotesZ s g b) :
    match terminalS op f g, terminalT op a b with
    | some e, some t => DenotesZ s e t
    | none, none => True
    | _, _ => False :=
  terminalS_corr op hu hf hg

/-! ## `restrict`: the number of levels is part of the key -/

/-- the key under which `restrict` queries and fills the apply cache (since the fix
"ZBDD restrict includes the number of levels in its apply cache key"):
`get_extended(Restrict, (&[f, vars], &[num_levels]))` -/
def restrictKey (numLevels : Nat) (f vars : ZEdge) : ZKey := ⟨.restrict, [f, vars], [numLevels]⟩

/-- **The denotation of `restrict f cube` depends on the number of levels**: `f = ¬x1` over
`x0, x1` restricted by the cube `x0` (`= x0 ∧ ¬x1` as a tree) is `{∅, {0}}` in a manager with one
level but the tautology over two levels in a manager with two levels. -/
theorem restrict_depends_on_numLevels :
    restrict 1 (.node 0 .base .base) (.node 0 .base .empty) 0 = .node 0 .base .base ∧
    restrict 2 (.node 0 .base .base) (.node 0 .base .empty) 0 = taut 2 0 ∧
    restrict 1 (.node 0 .base .base) (.node 0 .base .empty) 0 ≠
      restrict 2 (.node 0 .base .base) (.node 0 .base .empty) 0 := by
  have r1 : restrict 1 (.node 0 .base .base) (.node 0 .base .empty) 0 = .node 0 .base .base := by
    simp [restrict, restrictBase, taut, tautFrom, mk1, ZDD.level]
  have r2 : restrict 2 (.node 0 .base .base) (.node 0 .base .empty) 0 = taut 2 0 := by
    simp [restrict, restrictBase, taut, tautFrom, mk1, ZDD.level]
  refine ⟨r1, r2, ?_⟩
  rw [r1, r2]; decide

/-- the operand pair for which the *memoised* branch of `restrict` (both `f` and the cube have a
node at the current level, the cube's node is a don't care) is taken: `f = ⊤` over two levels,
cube `x1` -/
def exRF : ZDD := taut 2 0
def exRCube : ZDD := .node 0 (.node 1 .base .empty) (.node 1 .base .empty)

/-- in the memoised branch too: with two levels the result is `taut 2 0`, with three `taut 3 0` -/
theorem restrict_memoised_depends_on_numLevels :
    restrict 2 exRF exRCube exRF.level = taut 2 0 ∧ restrict 3 exRF exRCube exRF.level = taut 3 0 ∧
    restrict 2 exRF exRCube exRF.level ≠ restrict 3 exRF exRCube exRF.level := by
  have r1 : restrict 2 exRF exRCube exRF.level = taut 2 0 := by
    simp [restrict, exRF, exRCube, restrictBase, taut, tautFrom, mk1, mk, ZDD.level]
  have r2 : restrict 3 exRF exRCube exRF.level = taut 3 0 := by
    simp [restrict, exRF, exRCube, restrictBase, taut, tautFrom, mk1, mk, ZDD.level]
  refine ⟨r1, r2, ?_⟩
  rw [r1, r2]; decide

/-- **Why a key without `num_levels` is unsound across `add_vars`.** An edge `r` that is the
correct memoised result for `restrict(f, cube)` with two levels is, in *every* extension of the
store, a wrong result for the same operands with three levels. An entry `(Restrict, [f, cube]) ↦ r`
would nevertheless be hit after `add_vars(1)`: store extension keeps `f`, `cube` and `r` valid
edges, and the apply cache is not cleared by `add_vars`. -/
theorem restrict_key_without_numLevels_unsound {s s' : Store} {r : ZEdge} (hle : s.Le s')
    (h2 : DenotesZ s r (restrict 2 exRF exRCube exRF.level)) :
    ¬ DenotesZ s' r (restrict 3 exRF exRCube exRF.level) := by
  intro h3
  have := DenotesZ.functional (h2.mono hle) h3
  exact restrict_memoised_depends_on_numLevels.2.2 this

/-- **The `Restrict` key carries the number of levels, and that is what keeps the cache sound
across `add_vars`.** For every admissible policy and every cache:

1. the meaning of a `Restrict` entry is *relative to the number of levels `m` in its key*: it is
   sound iff its result denotes `restrict m f vars (level of f)` — whatever the current number of
   levels is;
2. hence `CacheOK` is preserved when levels are appended (`Mgr.addVars`, store only extended,
   cache **not** cleared), although the correct result of `restrict` for the same operands changes
   (`restrict_memoised_depends_on_numLevels`);
3. this is sound only because the key changes: a query under `n + k + 1` levels is answered only
   from an entry whose key has the same operands **and** `n + k + 1` as numeric operand; in
   particular, if every `Restrict` entry of the cache was stored under `n` levels, every query under
   `n + k + 1` levels misses;
4. every entry `restrict` creates in a manager with `n` levels is keyed by `(Restrict, [·, ·], [n])`.

The end-to-end consequence is `zbdd_restrict_sound_across_addvars`. -/
theorem zbdd_restrict_key_has_numlevels {p : Policy} (pok : p.OK) :
    (∀ (env : Env) (s : Store) (m : Nat) (f vars : ZEdge) (a c : ZDD) (r : Bdd.Refine.Edge),
      DenotesZ s f a → DenotesZ s vars c →
      (EntryOK env s (encKey (restrictKey m f vars)) r ↔
        DenotesZ s (decE r) (restrict m a c a.level))) ∧
    (∀ (m : Mgr) (k : Nat), m.OK → m.env.numLevels + k ≤ maxLevel →
      (m.addVars k).OK ∧ (m.addVars k).st.cache = m.st.cache ∧
      (m.addVars k).env.numLevels = m.env.numLevels + k) ∧
    (∀ (t n k : Nat) (c : Cache) (f vars : ZEdge) (r : Bdd.Refine.Edge),
      p.get t c (encKey (restrictKey (n + k + 1) f vars)) = some r →
      (encKey (restrictKey (n + k + 1) f vars), r) ∈ c ∧
      ∀ f' vars', encKey (restrictKey n f' vars') ≠ encKey (restrictKey (n + k + 1) f vars)) ∧
    (∀ (t n k : Nat) (c : Cache) (f vars : ZEdge),
      (∀ x, x ∈ c → x.1.1 = tagEnc .restrict → ∃ f' vars', x.1 = encKey (restrictKey n f' vars')) →
      p.get t c (encKey (restrictKey (n + k + 1) f vars)) = none) ∧
    (∀ (chain : List ZEdge) (n fuel : Nat) (st : St) (f vars : ZEdge) (level : Nat)
      (x : Key × Bdd.Refine.Edge), x ∈ (restrictS p chain n fuel st f vars level).1.cache →
      x ∈ st.cache ∨ ∃ f' vars', x.1 = encKey (restrictKey n f' vars')) := by
  have hne : ∀ (n k : Nat) (f vars f' vars' : ZEdge),
      encKey (restrictKey n f' vars') ≠ encKey (restrictKey (n + k + 1) f vars) := by
    intro n k f vars f' vars' e
    have := encKey_inj e
    simp only [restrictKey, ZKey.mk.injEq, List.cons.injEq, and_true, true_and] at this
    omega
  refine ⟨?_, ?_, ?_, ?_, fun chain n fuel st f vars level x hx =>
    restrictS_cache_keys pok chain n fuel st f vars level x hx⟩
  · intro env s m f vars a c r hf hv
    constructor
    · intro h
      exact h.hit (zk := restrictKey m f vars) (DenotesLZ.two hf hv) rfl
    · intro h
      exact ⟨restrictKey m f vars, _, _, rfl, DenotesLZ.two hf hv, rfl, h,
        fun e => by simp [restrictKey] at e⟩
  · intro m k hok hk
    have := m.addVars_ok k hok hk
    exact ⟨this.1, this.2.2, rfl⟩
  · intro t n k c f vars r h
    exact ⟨pok.get_mem t c _ r h, hne n k f vars⟩
  · intro t n k c f vars hall
    apply zbdd_no_cross_hit pok
    intro x hx heq
    obtain ⟨f', vars', h'⟩ := hall x hx (by rw [heq]; rfl)
    rw [h'] at heq
    exact hne n k f vars f' vars' heq

/-- **`restrict` stays correct across `add_vars` although the cache is not cleared.** In a manager
satisfying its invariant (with any sound cache, e.g. one warmed up by `restrict` calls under the
old number of levels `n`), after `add_vars(k)`: `restrict(f, vars)` — run with every admissible
policy on the **uncleared** cache — returns an edge denoting `restrict (n + k) a c 0`, the correct
result for the *new* number of levels, and the invariant still holds. -/
theorem zbdd_restrict_sound_across_addvars {p : Policy} (pok : p.OK) (m : Mgr) (k : Nat)
    (hok : m.OK) (hk : m.env.numLevels + k ≤ maxLevel) (a c : ZDD) :
    ∃ N, ∀ fuel, N ≤ fuel → ∀ (f vars : ZEdge), DenotesZ m.st.store f a →
      DenotesZ m.st.store vars c →
      let m' := m.addVars k
      let R := restrictTopS p m'.chain m'.env.numLevels fuel m'.st f vars
      m'.st.cache = m.st.cache ∧
      DenotesZ R.1.store R.2 (restrict (m.env.numLevels + k) a c 0) ∧
      R.1.store.Unique ∧ CacheOK m'.env R.1.store R.1.cache := by
  obtain ⟨hok', hle, hcache⟩ := m.addVars_ok k hok hk
  obtain ⟨N, h⟩ := restrictS_spec pok (m.addVars k).env (m.addVars k).chain a c 0
  refine ⟨N, fun fuel hN f vars hf hv => ?_⟩
  have P := h fuel hN (m.addVars k).st f vars hok'.1 hok'.2 (hf.mono hle) (hv.mono hle)
  exact ⟨hcache, P.den, P.inv.1, P.inv.2⟩

/-! ## the tautology chain -/

/-- **The tautology chain edges are internal roots that are rebuilt on `add_vars`.** In a
manager satisfying its invariant, after `add_vars(k)`: the chain has one entry per level of the
*new* number of levels `n + k` (plus `Base`), `tautology(l)` denotes `taut (n+k) l` **for every
level `l`** (old levels, new levels, and `Base` beyond), every edge that denoted a tree before
still denotes it (the store is only extended, so the old chain's nodes merely lose the manager's
reference), the store is still hash-consed and the — uncleared — apply cache still sound
(`Ite` entries included: `applyIte_numLevels_indep`). -/
theorem zbdd_taut_roots (m : Mgr) (k : Nat) (hok : m.OK) (hk : m.env.numLevels + k ≤ maxLevel) :
    (m.addVars k).chain.length = m.env.numLevels + k + 1 ∧
    (∀ l, DenotesZ (m.addVars k).st.store (tautologyS (m.addVars k).chain l)
      (taut (m.env.numLevels + k) l)) ∧
    (∀ e t, DenotesZ m.st.store e t → DenotesZ (m.addVars k).st.store e t) ∧
    (m.addVars k).st.store.Unique ∧
    (m.st.store.NoRed → (m.addVars k).st.store.NoRed) ∧
    CacheOK (m.addVars k).env (m.addVars k).st.store (m.addVars k).st.cache := by
  obtain ⟨hok', hle, _⟩ := m.addVars_ok k hok hk
  refine ⟨hok'.2.1, fun l => tautologyS_denotes hok'.2 l, fun e t h => h.mono hle, hok'.1.1,
    fun hr => rebuildChain_nored _ _ hr, hok'.1.2⟩

/-- the chain built at `init` (`post_reorder_mut` on an empty store) -/
theorem zbdd_taut_init (n : Nat) :
    ChainOK n (rebuildChain n ⟨#[]⟩).1 (rebuildChain n ⟨#[]⟩).2 ∧
    (rebuildChain n ⟨#[]⟩).1.Unique ∧ (rebuildChain n ⟨#[]⟩).1.NoRed :=
  ⟨rebuildChain_ok _ _, rebuildChain_unique _ _ empty_unique, rebuildChain_nored _ _ empty_nored⟩

/-! ## invalidation -/

/-- **gc / reordering.** Clearing the cache (what `pre_gc` does before any node is removed)
establishes `CacheOK` for *any* store and environment, in particular for the store after the
collection and the variable order after the reordering. -/
theorem zbdd_cacheok_clear (env' : Env) (s' : Store) : CacheOK env' s' [] := CacheOK.nil env' s'

/-- **add_vars.** Appending levels keeps the cache sound **without clearing it** (which is what the
code does: `add_vars` emits reorder events only, the apply cache reacts to gc events only): the
store is only extended; entries of `union/intsec/diff/symm_diff/subset0/subset1/change` do not
mention the number of levels; a `Restrict` entry carries it in its key
(`zbdd_restrict_key_has_numlevels`); the meaning of an `Ite` entry does not change
(`applyIte_numLevels_indep`: on normal-form operands `applyIte n = applyIte n'` for `n ≤ n'`, by
canonicity). `n' ≤ LevelNo::MAX`: that level number is reserved for terminals. -/
theorem zbdd_cacheok_addvars {env : Env} {s s' : Store} {c : Cache} (h : CacheOK env s c)
    (hle : s.Le s') {n' : Nat} (hn : env.numLevels ≤ n') (hn' : n' ≤ maxLevel) :
    CacheOK (env.withLevels n') s' c := h.addVars hle hn hn'

/-- evicting or overwriting entries (any sub-collection survives) keeps the cache sound -/
theorem zbdd_cacheok_evict {env : Env} {s : Store} {c c' : Cache} (h : CacheOK env s c)
    (hs : ∀ x, x ∈ c' → x ∈ c) : CacheOK env s c' := h.sub hs

/-- store extension keeps the cache sound -/
theorem zbdd_cacheok_extend {env : Env} {s s' : Store} {c : Cache} (h : CacheOK env s c)
    (hle : s.Le s') : CacheOK env s' c := h.mono hle

/-! ## non-vacuity: a concrete store with a shared node, concrete caches, concrete runs -/

/-- `{{1}}` -/
def exS1 : ZDD := .node 1 .base .empty
/-- `{{0,1}, ∅}` -/
def exA : ZDD := .node 0 exS1 .base
/-- `{{0}, {1}}` -/
def exB : ZDD := .node 0 .base exS1

/-- the store holding `exA` and `exB`; the node for `{{1}}` is shared -/
def exStore : Store := (intern (intern ⟨#[]⟩ exA).1 exB).1

example : exStore.nodes =
    #[some ⟨1, .base, .empty⟩, some ⟨0, .inner 0, .base⟩, some ⟨0, .base, .inner 0⟩] := by
  decide +kernel

/-- three levels, variable `v` at level `2 - v` (so that variable number and level differ) -/
def exEnv : Env := ⟨3, fun v => 2 - v⟩

theorem exStore_unique : exStore.Unique := intern_unique _ _ (intern_unique _ _ empty_unique)
theorem exStore_nored : exStore.NoRed := intern_nored _ _ (intern_nored _ _ empty_nored)

theorem exStore_s1 : DenotesZ exStore (.inner 0) exS1 :=
  .inner (by decide +kernel : exStore.get? 0 = some ⟨1, .base, .empty⟩) .base .empty
theorem exStore_a : DenotesZ exStore (.inner 1) exA :=
  .inner (by decide +kernel : exStore.get? 1 = some ⟨0, .inner 0, .base⟩) exStore_s1 .base
theorem exStore_b : DenotesZ exStore (.inner 2) exB :=
  .inner (by decide +kernel : exStore.get? 2 = some ⟨0, .base, .inner 0⟩) .base exStore_s1

/-- a warmed-up state: after computing `exA ∪ exB` with the ideal cache -/
def exWarm : St := (unionS Policy.exact 10 ⟨exStore, [], 0⟩ (.inner 1) (.inner 2)).1

/-- the warm cache holds an entry for the top-level call and one for the first recursive call
`union(#0, Base)`, stored with the operands swapped (`#0 > Base`); the second recursive call
`union(Base, #0)` was a hit on it -/
example : exWarm.cache =
    [(encKey ⟨.union, [.inner 1, .inner 2], []⟩, .inner 4),
     (encKey ⟨.union, [.base, .inner 0], []⟩, .inner 3)] := by decide +kernel

example : (unionS Policy.exact 10 ⟨exStore, [], 0⟩ (.inner 1) (.inner 2)).2 = .inner 4 ∧
    exWarm.store.nodes = exStore.nodes ++ #[some ⟨1, .base, .base⟩, some ⟨0, .inner 3, .inner 3⟩] := by
  decide +kernel

/-- … and the warm state satisfies the invariant, by `zbdd_setop_spec` (its hypotheses are
satisfiable) -/
theorem exWarm_ok : exWarm.store.Unique ∧ CacheOK exEnv exWarm.store exWarm.cache :=
  have h := zbdd_setop_spec Policy.exact_ok exEnv .union 10 ⟨exStore, [], 0⟩ (.inner 1) (.inner 2)
    exA exB exStore_unique (CacheOK.nil _ _) exStore_a exStore_b (by decide)
  ⟨h.2.2.1, h.2.2.2⟩

/-- a hand-written sound cache on `exStore`: two different operators on the same operands, and
two `subset1` entries for the same edge and *different variables* -/
def exCache : Cache :=
  [(encKey ⟨.intsec, [.inner 1, .inner 2], []⟩, .term false),
   (encKey ⟨.diff, [.inner 1, .inner 2], []⟩, .inner 1),
   (encKey ⟨.subset1, [.inner 1], [2]⟩, .inner 0),
   (encKey ⟨.subset1, [.inner 1], [0]⟩, .term false)]

theorem exCache_ok : CacheOK exEnv exStore exCache := by
  intro k r hm
  simp only [exCache, List.mem_cons, List.not_mem_nil, or_false] at hm
  have e1 : intsec exA exB = .empty := by decide +kernel
  have e2 : diff exA exB = exA := by decide +kernel
  have e3 : subset .subset1 0 exA = exS1 := by decide +kernel
  have e4 : subset .subset1 2 exA = .empty := by decide +kernel
  rcases hm with h | h | h | h <;> cases h
  · exact ⟨⟨.intsec, [.inner 1, .inner 2], []⟩, _, _, rfl, DenotesLZ.two exStore_a exStore_b, rfl,
      by rw [e1]; exact .empty, fun e => by cases e⟩
  · exact ⟨⟨.diff, [.inner 1, .inner 2], []⟩, _, _, rfl, DenotesLZ.two exStore_a exStore_b, rfl,
      by rw [e2]; exact exStore_a, fun e => by cases e⟩
  · exact ⟨⟨.subset1, [.inner 1], [2]⟩, _, _, rfl, DenotesLZ.one exStore_a, rfl,
      by show DenotesZ exStore (.inner 0) (subset .subset1 0 exA); rw [e3]; exact exStore_s1,
      fun e => by cases e⟩
  · exact ⟨⟨.subset1, [.inner 1], [0]⟩, _, _, rfl, DenotesLZ.one exStore_a, rfl,
      by show DenotesZ exStore .empty (subset .subset1 2 exA); rw [e4]; exact .empty,
      fun e => by cases e⟩

/-- an *unsound* entry is rejected by `CacheOK`: the `subset1` result for variable 2 stored under
variable 0 (the seeded mistake amounts to identifying these two keys) -/
example : ¬ CacheOK exEnv exStore [(encKey ⟨.subset1, [.inner 1], [0]⟩, .inner 0)] := by
  intro h
  have := (h _ _ List.mem_cons_self).hit (zk := ⟨.subset1, [.inner 1], [0]⟩)
    (DenotesLZ.one exStore_a) rfl
  have e4 : subset .subset1 (exEnv.levelOf 0) exA = .empty := by decide +kernel
  rw [e4] at this
  cases this

/-- non-vacuity of `zbdd_setop_spec` for `diff` and `intsec` with the hand-written cache and a
2-bucket direct-mapped policy whose lock fails at every odd time stamp -/
example :
    let R := diffS (Policy.dm 2 (fun k => k.2.length) (fun t => t % 2 == 0)) 10
      ⟨exStore, exCache, 3⟩ (.inner 2) (.inner 1)
    DenotesZ R.1.store R.2 (diff exB exA) ∧ exStore.Le R.1.store ∧ R.1.store.Unique ∧
      CacheOK exEnv R.1.store R.1.cache :=
  zbdd_setop_spec (Policy.dm_ok _ _ _) exEnv .diff 10 ⟨exStore, exCache, 3⟩ (.inner 2) (.inner 1)
    exB exA exStore_unique exCache_ok exStore_b exStore_a (by decide)

/-- non-vacuity of `zbdd_subset_spec`: `change` of variable 2 (level 0) and `subset0` of variable 1
(level 1, below the root) on `exB` -/
example :
    let R := subsetS Policy.exact .subset0 1 (exEnv.levelOf 1) 7 ⟨exStore, exCache, 0⟩ (.inner 2)
    DenotesZ R.1.store R.2 (subset .subset0 (exEnv.levelOf 1) exB) ∧ exStore.Le R.1.store ∧
      R.1.store.Unique ∧ CacheOK exEnv R.1.store R.1.cache :=
  zbdd_subset_spec Policy.exact_ok exEnv .subset0 1 7 ⟨exStore, exCache, 0⟩ (.inner 2) exB
    exStore_unique exCache_ok exStore_b (by decide)

/-- concrete values: `subset0(exB, var 1) = {{0}}` is a new node (and the cache afterwards holds the
key with the variable number `1`), `subset1(exB, var 1) = {∅}`, `change(exB, var 2) = exA` -/
example : (subsetS Policy.exact .subset0 1 1 7 ⟨exStore, [], 0⟩ (.inner 2)).2 = .inner 3 ∧
    (subsetS Policy.exact .subset0 1 1 7 ⟨exStore, [], 0⟩ (.inner 2)).1.cache =
      [(encKey ⟨.subset0, [.inner 2], [1]⟩, .inner 3)] ∧
    (subsetS Policy.exact .subset1 1 1 7 ⟨exStore, [], 0⟩ (.inner 2)).2 = .base ∧
    (subsetS Policy.exact .change 2 0 7 ⟨exStore, [], 0⟩ (.inner 2)).2 = .inner 1 := by
  decide +kernel

/-- non-vacuity of `zbdd_subset_var_not_confused` and of the full key: after `subset0(exB, var 1)`
the cache hits for exactly `(Subset0, [#2], [1])` and misses for variable `0`, for another
operator, and for another operand -/
example :
    let c := (subsetS Policy.exact .subset0 1 1 7 ⟨exStore, [], 0⟩ (.inner 2)).1.cache
    Policy.exact.get 0 c (encKey ⟨.subset0, [.inner 2], [1]⟩) = some (.inner 3) ∧
    Policy.exact.get 0 c (encKey ⟨.subset0, [.inner 2], [0]⟩) = none ∧
    Policy.exact.get 0 c (encKey ⟨.subset1, [.inner 2], [1]⟩) = none ∧
    Policy.exact.get 0 c (encKey ⟨.subset0, [.inner 1], [1]⟩) = none := by decide +kernel

example (e : ZEdge) (t : Nat) :
    (Policy.dm 4 (fun _ => 0) (fun _ => true)).get t
      (subsetS Policy.exact .subset0 1 1 7 ⟨exStore, [], 0⟩ (.inner 2)).1.cache
      (encKey ⟨.subset0, [e], [0]⟩) = none :=
  zbdd_subset_var_not_confused Policy.exact_ok (Policy.dm_ok _ _ _) .subset0 1 0 1 7 (by decide)
    ⟨exStore, [], 0⟩ (.inner 2) (fun _ _ h => by cases h) e t

/-- non-vacuity of `zbdd_cache_transparent`: cold start without cache vs. warm state with a
direct-mapped cache of capacity 1 whose lock fails at every odd time stamp -/
example :
    (symmDiffS Policy.none 10 ⟨exStore, [], 0⟩ (.inner 1) (.inner 2)).2 =
    (symmDiffS (Policy.dm 1 (fun _ => 0) (fun t => t % 2 == 0)) 12 ⟨exStore, exCache, 5⟩
      (.inner 1) (.inner 2)).2 :=
  (zbdd_cache_transparent Policy.none_ok (Policy.dm_ok _ _ _) exEnv .symmDiff exStore [] exCache
    0 5 10 12 (.inner 1) (.inner 2) exA exB exStore_unique exStore_nored (CacheOK.nil _ _)
    exCache_ok exStore_a exStore_b (by decide) (by decide)).1

/-- a hit really shortcuts the run (the hand-written `Diff` entry is served) and the result is the
same as without cache -/
example : (diffS Policy.exact 10 ⟨exStore, exCache, 0⟩ (.inner 1) (.inner 2)) =
      (⟨exStore, exCache, 1⟩, .inner 1) ∧
    (diffS Policy.none 10 ⟨exStore, [], 0⟩ (.inner 1) (.inner 2)).2 = .inner 1 := by
  refine ⟨?_, by decide +kernel⟩
  have e : (diffS Policy.exact 10 ⟨exStore, exCache, 0⟩ (.inner 1) (.inner 2)).2 = .inner 1 ∧
      (diffS Policy.exact 10 ⟨exStore, exCache, 0⟩ (.inner 1) (.inner 2)).1.tick = 1 ∧
      (diffS Policy.exact 10 ⟨exStore, exCache, 0⟩ (.inner 1) (.inner 2)).1.cache = exCache ∧
      (diffS Policy.exact 10 ⟨exStore, exCache, 0⟩ (.inner 1) (.inner 2)).1.store.nodes =
        exStore.nodes := by decide +kernel
  generalize diffS Policy.exact 10 ⟨exStore, exCache, 0⟩ (.inner 1) (.inner 2) = R at e
  obtain ⟨⟨⟨n⟩, c, t⟩, x⟩ := R
  obtain ⟨e1, e2, e3, e4⟩ := e
  simp only at e1 e2 e3 e4
  subst e1 e2 e3 e4
  rfl

/-- non-vacuity of `zbdd_memo_tag_ok`, with the operand swap (`#2 > #1`): `union(#2, #1)` creates
the same top-level entry as `union(#1, #2)`; `diff` does not swap -/
example : (unionS Policy.exact 10 ⟨exStore, [], 0⟩ (.inner 2) (.inner 1)).1.cache = exWarm.cache ∧
    (diffS Policy.exact 10 ⟨exStore, [], 0⟩ (.inner 2) (.inner 1)).1.cache.head? =
      some (encKey ⟨.diff, [.inner 2, .inner 1], []⟩, .inner 2) := by decide +kernel

/-- non-vacuity of `zbdd_restrict_key_has_numlevels` (3) and (4): a cache filled under two levels
is not consulted under three levels -/
example : Policy.exact.get 0 [(encKey (restrictKey 2 (.inner 1) (.inner 2)), .inner 1)]
      (encKey (restrictKey 2 (.inner 1) (.inner 2))) = some (.inner 1) ∧
    Policy.exact.get 0 [(encKey (restrictKey 2 (.inner 1) (.inner 2)), .inner 1)]
      (encKey (restrictKey 3 (.inner 1) (.inner 2))) = none := by decide +kernel

/-- a manager with two levels whose store holds the operands of the memoised `restrict` branch -/
def exMgr : Mgr :=
  let r := rebuildChain 2 (intern ⟨#[]⟩ exRCube).1
  { st := ⟨r.1, [(encKey (restrictKey 2 (.inner 3) (.inner 1)), .inner 3)], 0⟩
    env := ⟨2, id⟩
    chain := r.2 }

example : exMgr.st.store.nodes = #[some ⟨1, .base, .empty⟩, some ⟨0, .inner 0, .inner 0⟩,
    some ⟨1, .base, .base⟩, some ⟨0, .inner 2, .inner 2⟩] ∧ exMgr.chain = [.inner 3, .inner 2, .base] := by
  decide +kernel

theorem exMgr_cube : DenotesZ exMgr.st.store (.inner 1) exRCube :=
  have h0 : DenotesZ exMgr.st.store (.inner 0) (.node 1 .base .empty) :=
    .inner (by decide +kernel : exMgr.st.store.get? 0 = some ⟨1, .base, .empty⟩) .base .empty
  .inner (by decide +kernel : exMgr.st.store.get? 1 = some ⟨0, .inner 0, .inner 0⟩) h0 h0

theorem exMgr_chain : ChainOK 2 exMgr.st.store exMgr.chain := rebuildChain_ok 2 _

theorem exMgr_f : DenotesZ exMgr.st.store (.inner 3) exRF := by
  have := tautologyS_denotes exMgr_chain 0
  have e : tautologyS exMgr.chain 0 = .inner 3 := by decide +kernel
  rwa [e] at this

/-- the manager satisfies its invariant with the `Restrict` entry computed under two levels … -/
theorem exMgr_ok : exMgr.OK := by
  refine ⟨⟨rebuildChain_unique _ _ (intern_unique _ _ empty_unique), ?_⟩, exMgr_chain⟩
  intro k r hm
  simp only [exMgr, List.mem_cons, List.not_mem_nil, or_false] at hm
  cases hm
  refine ⟨restrictKey 2 (.inner 3) (.inner 1), _, _, rfl, DenotesLZ.two exMgr_f exMgr_cube, rfl, ?_,
    fun e => by cases e⟩
  show DenotesZ exMgr.st.store (.inner 3) (restrict 2 exRF exRCube exRF.level)
  rw [restrict_memoised_depends_on_numLevels.1]
  exact exMgr_f

/-- … and still does after `add_vars(1)` without clearing the cache, although the entry's result is
now wrong for the same operands (`restrict_key_without_numLevels_unsound`): the entry is simply
never hit again, the query key is now `(Restrict, [#3, #1], [3])`. The rebuilt chain denotes the
tautologies over three levels. -/
example : (exMgr.addVars 1).OK ∧ (exMgr.addVars 1).st.cache = exMgr.st.cache ∧
    (∀ l, DenotesZ (exMgr.addVars 1).st.store (tautologyS (exMgr.addVars 1).chain l) (taut 3 l)) ∧
    Policy.exact.get 0 (exMgr.addVars 1).st.cache (encKey (restrictKey 3 (.inner 3) (.inner 1))) = none ∧
    ¬ DenotesZ (exMgr.addVars 1).st.store (.inner 3) (restrict 3 exRF exRCube exRF.level) := by
  have hk : exMgr.env.numLevels + 1 ≤ maxLevel := by decide
  have h := zbdd_taut_roots exMgr 1 exMgr_ok hk
  refine ⟨(exMgr.addVars_ok 1 exMgr_ok hk).1, rfl, h.2.1, by decide +kernel, ?_⟩
  refine restrict_key_without_numLevels_unsound (s := exMgr.st.store)
    (exMgr.addVars_ok 1 exMgr_ok hk).2.1 ?_
  rw [restrict_memoised_depends_on_numLevels.1]
  exact exMgr_f

example : (exMgr.addVars 1).chain = [.inner 6, .inner 5, .inner 4, .base] ∧
    (exMgr.addVars 1).st.store.nodes = exMgr.st.store.nodes ++
      #[some ⟨2, .base, .base⟩, some ⟨1, .inner 4, .inner 4⟩, some ⟨0, .inner 5, .inner 5⟩] := by
  decide +kernel

/-- a real run of `restrict` under two levels produces exactly the hand-written entry of `exMgr`
(key `(Restrict, [#3, #1], [2])`, result `#3 = taut 2 0`); after `add_vars(1)` the same call — on
the uncleared cache — returns `#6 = taut 3 0` and adds an entry under the key
`(Restrict, [#3, #1], [3])`; the stale entry is still there and still never hit -/
example :
    (restrictTopS Policy.exact exMgr.chain 2 10 ⟨exMgr.st.store, [], 0⟩ (.inner 3) (.inner 1)).2 =
      .inner 3 ∧
    (restrictTopS Policy.exact exMgr.chain 2 10 ⟨exMgr.st.store, [], 0⟩ (.inner 3) (.inner 1)).1.cache =
      exMgr.st.cache ∧
    (restrictTopS Policy.exact (exMgr.addVars 1).chain 3 10 (exMgr.addVars 1).st (.inner 3) (.inner 1)).2 =
      .inner 6 ∧
    (restrictTopS Policy.exact (exMgr.addVars 1).chain 3 10 (exMgr.addVars 1).st (.inner 3) (.inner 1)).1.cache =
      [(encKey (restrictKey 3 (.inner 3) (.inner 1)), .inner 6),
       (encKey (restrictKey 2 (.inner 3) (.inner 1)), .inner 3)] := by decide +kernel

/-- non-vacuity of `zbdd_restrict_spec` and `zbdd_restrict_sound_across_addvars` on `exMgr` -/
example : ∃ N, ∀ fuel, N ≤ fuel →
    let R := restrictTopS (Policy.dm 2 (fun _ => 1) (fun _ => true)) (exMgr.addVars 1).chain
      (exMgr.addVars 1).env.numLevels fuel (exMgr.addVars 1).st (.inner 3) (.inner 1)
    (exMgr.addVars 1).st.cache = exMgr.st.cache ∧
    DenotesZ R.1.store R.2 (restrict (2 + 1) exRF exRCube 0) ∧
    R.1.store.Unique ∧ CacheOK (exMgr.addVars 1).env R.1.store R.1.cache := by
  obtain ⟨N, h⟩ := zbdd_restrict_sound_across_addvars (Policy.dm_ok 2 (fun _ => 1) (fun _ => true))
    exMgr 1 exMgr_ok (by decide) exRF exRCube
  exact ⟨N, fun fuel hN => h fuel hN (.inner 3) (.inner 1) exMgr_f exMgr_cube⟩

/-- non-vacuity of `zbdd_not_spec`: `¬ {{0,1},∅}`-as-a-function in the two-level manager -/
example :
    let R := notS Policy.exact exMgr.chain 20 exMgr.st (.inner 1)
    DenotesZ R.1.store R.2 (applyNot 2 exRCube) ∧ exMgr.st.store.Le R.1.store ∧
      R.1.store.Unique ∧ CacheOK exMgr.env R.1.store R.1.cache :=
  zbdd_not_spec Policy.exact_ok exMgr.env exMgr.chain 20 exMgr.st (.inner 1) exRCube
    exMgr_ok.1.1 exMgr_ok.1.2 exMgr_chain exMgr_cube (by decide)

/-- non-vacuity of `zbdd_ite_spec`: `ite(x1, {{1}}, taut 2 1)` in the two-level manager, operands
in normal form -/
example :
    let R := iteS Policy.exact exMgr.chain 30 exMgr.st (.inner 1) (.inner 0) (.inner 2)
    DenotesZ R.1.store R.2 (applyIte 2 exRCube (singleton 1) (taut 2 1)) ∧
      exMgr.st.store.Le R.1.store ∧ R.1.store.Unique ∧ CacheOK exMgr.env R.1.store R.1.cache :=
  have h0 : DenotesZ exMgr.st.store (.inner 0) (singleton 1) :=
    .inner (by decide +kernel : exMgr.st.store.get? 0 = some ⟨1, .base, .empty⟩) .base .empty
  have h2 : DenotesZ exMgr.st.store (.inner 2) (taut 2 1) := by
    have := tautologyS_denotes exMgr_chain 1
    have e : tautologyS exMgr.chain 1 = .inner 2 := by decide +kernel
    rwa [e] at this
  have e : exRCube = var 2 1 := by decide
  zbdd_ite_spec Policy.exact_ok exMgr.env exMgr.chain 30 exMgr.st (.inner 1) (.inner 0) (.inner 2)
    exRCube (singleton 1) (taut 2 1) exMgr_ok.1.1 exMgr_ok.1.2 exMgr_chain exMgr_cube h0 h2
    (e ▸ var_nf 2 1 (by omega)) (singleton_nf 2 1 (by omega))
    ⟨(taut_nf 2 1).1.mono (Nat.zero_le _), (taut_nf 2 1).2⟩ (by decide)

/-- the run creates an `Ite` entry (key `(Ite, [#1, #0, #2], [])`, no numeric operand) and — through
the delegation to `apply_union` — a `Union` entry, next to the `Restrict` entry that was there -/
example : (iteS Policy.exact exMgr.chain 30 exMgr.st (.inner 1) (.inner 0) (.inner 2)).2 = .inner 2 ∧
    (iteS Policy.exact exMgr.chain 30 exMgr.st (.inner 1) (.inner 0) (.inner 2)).1.cache =
      [(encKey ⟨.ite, [.inner 1, .inner 0, .inner 2], []⟩, .inner 2),
       (encKey ⟨.union, [.inner 0, .inner 2], []⟩, .inner 2),
       (encKey (restrictKey 2 (.inner 3) (.inner 1)), .inner 3)] := by decide +kernel

end OxiddModel.Zbdd.C06
