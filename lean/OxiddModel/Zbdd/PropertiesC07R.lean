import OxiddModel.Zbdd.RThreads
import OxiddModel.Zbdd.PropertiesC07T

/-!
# C07 for ZBDD with reference counters: the counters are exact after every schedule

The machine of `Zbdd/RThreads.lean` (the interleaving machine of `Zbdd/Threads.lean` on the counted
state `Rc.RSt`, every `clone_edge` / `drop_edge` / `reduce` / `reduce_borrowed` of the code as part
of the atomic action in which it happens) run on a list of operations:

* `counted_run_erases` — forgetting the counters, every run of the counted machine is the run of
  the plain machine under the same schedule; hence every theorem of `PropertiesC07T.lean` holds
  for it verbatim;
* `counters_exact_always` — (d) after **every** schedule prefix the counter of every stored node
  is exactly `1` (unique table) `+` the number of owned external edges to it (the user's handles /
  the tautology chain `hs`, and the edges owned by frames of running operations) `+` the number of
  stored parent edges; no dangling edge;
* `counters_exact_at_end` — when all operations have returned, the owned edges are exactly the
  handles and one reference per result: nothing leaked, nothing released twice;
* `counters_determined` — exact counters are determined by the store and the owned edges, so they
  do not depend on the schedule;
* `result_counter_pos` — the node of every result has a counter `≥ 2`.
-/
namespace OxiddModel.Zbdd.Threads
open OxiddModel.Zbdd OxiddModel.Zbdd.ZDD OxiddModel.Zbdd.Refine OxiddModel.Zbdd.Rc
open OxiddModel.Bdd.Refine (Policy OpTag Key Cache)

structure RCfg where
  r : RSt
  tasks : List Task

/-- forget the counters -/
def RCfg.erase (c : RCfg) : Cfg := ⟨c.r.st, c.tasks⟩

/-- one step of the counted machine -/
def RCfg.step (p : Policy) (c : RCfg) (s : Sel) : RCfg :=
  match c.tasks[s.tid]? with
  | none => c
  | some t =>
    match t.ret? with
    | some _ => c
    | none =>
      let o := t.rstep p c.r s.path
      ⟨o.1, c.tasks.set s.tid o.2⟩

def RCfg.run (p : Policy) (c : RCfg) : List Sel → RCfg
  | [] => c
  | s :: ss => (c.step p s).run p ss

def RCfg.init (r : RSt) (jobs : List Job) : RCfg := ⟨r, jobs.map Job.task⟩

/-- everything the running operations own -/
def RCfg.owned (c : RCfg) : List ZEdge := c.tasks.flatMap Task.owned

theorem RCfg.step_erase (p : Policy) (c : RCfg) (s : Sel) :
    (c.step p s).erase = c.erase.step p s := by
  unfold RCfg.step Cfg.step RCfg.erase
  simp only
  cases c.tasks[s.tid]? with
  | none => rfl
  | some t =>
    simp only
    cases t.ret? with
    | some _ => rfl
    | none =>
      simp only
      obtain ⟨h1, h2⟩ := Task.rstep_erase p c.r t s.path
      rw [h1, h2]

theorem RCfg.run_erase (p : Policy) (sched : List Sel) : ∀ (c : RCfg),
    (c.run p sched).erase = c.erase.run p sched := by
  induction sched with
  | nil => intro c; rfl
  | cons s ss ih => intro c; simp only [RCfg.run, Cfg.run]; rw [ih, RCfg.step_erase]

theorem flatMap_set_rc {r r' : RSt} {t t' : Task} : ∀ (ts : List Task) (i : Nat) (ext : List ZEdge),
    ts[i]? = some t →
    (∀ ext', RcInv r (t.owned ++ ext') → RcInv r' (t'.owned ++ ext')) →
    RcInv r (ts.flatMap Task.owned ++ ext) → RcInv r' ((ts.set i t').flatMap Task.owned ++ ext) := by
  intro ts
  induction ts with
  | nil => intro i ext hi; simp at hi
  | cons t0 ts ih =>
    intro i ext hi hstep hrc
    cases i with
    | zero =>
      simp at hi; subst hi
      simp only [List.set_cons_zero, List.flatMap_cons, List.append_assoc] at hrc ⊢
      exact hstep _ hrc
    | succ i =>
      simp at hi
      simp only [List.set_cons_succ, List.flatMap_cons, List.append_assoc] at hrc ⊢
      have h1 : RcInv r (ts.flatMap Task.owned ++ (t0.owned ++ ext)) := by
        refine rcInv_perm hrc ?_
        rw [← List.append_assoc, ← List.append_assoc]
        exact List.Perm.append_right _ List.perm_append_comm
      refine rcInv_perm (ih i (t0.owned ++ ext) hi hstep h1) ?_
      rw [← List.append_assoc, ← List.append_assoc]
      exact List.Perm.append_right _ List.perm_append_comm

/-- the joint invariant of the counted machine -/
structure RGood (env : Env) (s0 : Store) (hs : List ZEdge) (c : RCfg) (Ts : List ZDD) (N : Nat) :
    Prop where
  good : GoodFrom env s0 c.erase Ts N
  rc : RcInv c.r (c.owned ++ hs)

theorem RCfg.step_good {p : Policy} (pok : p.OK) {env : Env} {s0 : Store} {hs : List ZEdge}
    {c : RCfg} {Ts : List ZDD} {N : Nat} (h : RGood env s0 hs c Ts N) (sel : Sel) :
    ∃ N', RGood env s0 hs (c.step p sel) Ts N' ∧ N' ≤ N := by
  obtain ⟨N', hg, hle, _⟩ := Cfg.step_good pok h.good sel
  rw [← RCfg.step_erase] at hg
  refine ⟨N', ⟨hg, ?_⟩, hle⟩
  unfold RCfg.step
  cases hi : c.tasks[sel.tid]? with
  | none => exact h.rc
  | some t =>
    simp only
    cases hr : t.ret? with
    | some _ => exact h.rc
    | none =>
      simp only
      have hi' : c.erase.tasks[sel.tid]? = some t := hi
      obtain ⟨T, n, _, hok⟩ := h.good.tasks.get hi'
      exact flatMap_set_rc c.tasks sel.tid hs hi
        (fun ext' => Task.rstep_rc pok h.good.inv hok sel.path ext' hr) h.rc

theorem RCfg.run_good {p : Policy} (pok : p.OK) {env : Env} {s0 : Store} {hs : List ZEdge}
    {Ts : List ZDD} (sched : List Sel) : ∀ {c : RCfg} {N : Nat}, RGood env s0 hs c Ts N →
      ∃ N', RGood env s0 hs (c.run p sched) Ts N' := by
  induction sched with
  | nil => intro c N h; exact ⟨N, h⟩
  | cons s ss ih =>
    intro c N h
    obtain ⟨N1, h1, _⟩ := RCfg.step_good pok h s
    exact ih h1

theorem init_owned (r : RSt) (jobs : List Job) : (RCfg.init r jobs).owned = [] := by
  unfold RCfg.init RCfg.owned
  induction jobs with
  | nil => rfl
  | cons j js ih =>
    simp only [List.map_cons, List.flatMap_cons]
    rw [ih]; rfl

/-! ## headline theorems -/

/-- **Erasure**: the counted machine, with the counters forgotten, is the machine of
`Threads.lean` — under every schedule. -/
theorem counted_run_erases (p : Policy) (r : RSt) (jobs : List Job) (sched : List Sel) :
    ((RCfg.init r jobs).run p sched).erase = (Cfg.init r.st jobs).run p sched :=
  RCfg.run_erase p sched _

/-- **(d) The counters are exact after every schedule.** From a counted state with exact counters
for the externally owned edges `hs` (handles, tautology chain: `RcInv r hs`), the store invariant,
and operations whose operands denote trees: after *any* schedule prefix, for every stored node
`rc = 1 + (owned external edges to it) + (stored parent edges to it)`, where the owned external
edges are `hs` and the edges owned by the frames of the running operations (`RCfg.owned`); every
owned edge, every child of a stored node and every cached result points to a stored node. -/
theorem counters_exact_always {p : Policy} (pok : p.OK) (env : Env) (r : RSt) (hs : List ZEdge)
    (jobs : List Job) (hinv : Inv env r.st) (hrc : RcInv r hs)
    (hops : OperandsOK r.st.store jobs) (sched : List Sel) :
    RcInv ((RCfg.init r jobs).run p sched).r (((RCfg.init r jobs).run p sched).owned ++ hs) := by
  obtain ⟨Ts, N, hj⟩ := jobsOK_of_operands hops
  have h0 : RGood env r.st.store hs (RCfg.init r jobs) Ts N :=
    ⟨init_good hinv hj, by rw [init_owned]; exact hrc⟩
  obtain ⟨N', hg⟩ := RCfg.run_good pok sched h0
  exact hg.rc

theorem owned_of_done : ∀ (ts : List Task), ts.all (fun t => t.ret?.isSome) = true →
    ∃ rs, ts = rs.map Task.ret ∧ ts.flatMap Task.owned = rs := by
  intro ts
  induction ts with
  | nil => intro _; exact ⟨[], rfl, rfl⟩
  | cons t ts ih =>
    intro h
    simp only [List.all_cons, Bool.and_eq_true] at h
    obtain ⟨rs, h1, h2⟩ := ih h.2
    cases hr : t.ret? with
    | none => simp [hr] at h
    | some x =>
      have := ret?_some hr
      subst this
      exact ⟨x :: rs, by simp [h1], by simp [Task.owned, h2]⟩

/-- **No leak, no double release.** When the schedule has finished all operations, the tasks are
`ret r_0, …, ret r_k` and the counters are exact for exactly one owned reference per result plus
`hs`: every temporary (`EdgeDropGuard`s, the clone of `reduce_borrowed`, rejected nodes' children)
has been released exactly once, whatever the interleaving was. -/
theorem counters_exact_at_end {p : Policy} (pok : p.OK) (env : Env) (r : RSt) (hs : List ZEdge)
    (jobs : List Job) (hinv : Inv env r.st) (hrc : RcInv r hs)
    (hops : OperandsOK r.st.store jobs) (sched : List Sel)
    (hdone : ((Cfg.init r.st jobs).run p sched).allDone = true) :
    ∃ rs, ((RCfg.init r jobs).run p sched).tasks = rs.map Task.ret ∧
      RcInv ((RCfg.init r jobs).run p sched).r (rs ++ hs) := by
  have he := counted_run_erases p r jobs sched
  have hd : ((RCfg.init r jobs).run p sched).tasks.all (fun t => t.ret?.isSome) = true := by
    have : ((RCfg.init r jobs).run p sched).tasks = ((Cfg.init r.st jobs).run p sched).tasks := by
      rw [← he]; rfl
    rw [this]; exact hdone
  obtain ⟨rs, h1, h2⟩ := owned_of_done _ hd
  refine ⟨rs, h1, ?_⟩
  have := counters_exact_always pok env r hs jobs hinv hrc hops sched
  unfold RCfg.owned at this
  rw [h2] at this
  exact this

/-- the node of every result carries at least the unique table's and the result's reference: a
collector that frees nodes with `rc == 1` cannot free it -/
theorem result_counter_pos {p : Policy} (pok : p.OK) (env : Env) (r : RSt) (hs : List ZEdge)
    (jobs : List Job) (hinv : Inv env r.st) (hrc : RcInv r hs)
    (hops : OperandsOK r.st.store jobs) (sched : List Sel)
    (hdone : ((Cfg.init r.st jobs).run p sched).allDone = true) (i k : Nat)
    (hi : ((RCfg.init r jobs).run p sched).tasks[i]? = some (.ret (.inner k))) :
    2 ≤ rcGet ((RCfg.init r jobs).run p sched).r.rc k := by
  obtain ⟨rs, h1, h2⟩ := counters_exact_at_end pok env r hs jobs hinv hrc hops sched hdone
  have hm : (ZEdge.inner k) ∈ rs := by
    rw [h1] at hi
    rw [List.getElem?_map] at hi
    cases hx : rs[i]? with
    | none => simp [hx] at hi
    | some x =>
      simp only [hx, Option.map_some, Option.some.injEq, Task.ret.injEq] at hi
      subst hi
      exact List.mem_of_getElem? hx
  obtain ⟨n, hn⟩ := h2.ext_ok (.inner k) (List.mem_append_left _ hm)
  have he := h2.rc_eq k n hn
  have hpos : 0 < (rs ++ hs).count (.inner k) :=
    List.count_pos_iff.mpr (List.mem_append_left _ hm)
  omega

/-- **The counters are a function of the store and of who owns what.** In particular, after any
schedule the counters are those the sequential counted model (`Rc.setOpR`, compared with the code
by the stream `zbdd-rcstore`) has whenever it reaches the same store with the same owned edges. -/
theorem counters_determined {r r' : RSt} {ext : List ZEdge} (h : RcInv r ext) (h' : RcInv r' ext)
    (hs : r.st.store = r'.st.store) (i : Nat) (n : ZNode) (hi : r.st.store.get? i = some n) :
    rcGet r.rc i = rcGet r'.rc i := by
  have e1 := h.rc_eq i n hi
  have e2 := h'.rc_eq i n (hs ▸ hi)
  rw [← hs] at e2
  omega

/-! ## non-vacuity: the counted version of the example of `PropertiesC07T.lean` -/

theorem rcinv_empty' : RcInv RSt.empty [] where
  ext_ok _ h := by cases h
  kids_ok i n h := by simp [RSt.empty, Store.get?] at h
  cache_ok _ _ h := by cases h
  rc_eq i n h := by simp [RSt.empty, Store.get?] at h

theorem rcInv_clone {r : RSt} {ext : List ZEdge} {x : ZEdge} (h : RcInv r (x :: ext)) :
    RcInv (cloneEdge r x) (x :: x :: ext) := cloneEdge_rc h (h.ext_ok x List.mem_cons_self)

/-- the store `exStore` built with counters, node by node in the order of `intern`; the user keeps
handles to `G` and `F` -/
def exA := mkNodeU RSt.empty 2 .base .empty          -- #0 = {{2}}
def exB : RSt := cloneEdge exA.2 exA.1
def exC := mkNodeU exB 1 .base exA.1                  -- #1
def exD := mkNodeU exC.2 1 .base .empty               -- #2
def exFr := mkNodeU exD.2 0 exC.1 exD.1               -- #3 = F
def exE := mkNodeU exFr.2 1 exA.1 .base               -- #4
def exV := mkNodeU exE.2 2 .base .base                -- #5
def exS := mkNodeU exV.2 1 .base exV.1                -- #6
def exGr := mkNodeU exS.2 0 exE.1 exS.1               -- #7 = G

def exR : RSt := exGr.2
def exHs : List ZEdge := [exGr.1, exFr.1]

theorem exR_rc : RcInv exR exHs := by
  have hA : RcInv exA.2 [exA.1] := mkNodeU_rc (rcinv_empty'.add_empty.add_base)
  have hB : RcInv exB [exA.1, exA.1] := rcInv_clone hA
  have hC : RcInv exC.2 [exC.1, exA.1] := mkNodeU_rc hB.add_base
  have hD : RcInv exD.2 [exD.1, exC.1, exA.1] := mkNodeU_rc hC.add_empty.add_base
  have hF : RcInv exFr.2 [exFr.1, exA.1] := mkNodeU_rc hD.swap
  have hE : RcInv exE.2 [exE.1, exFr.1] := mkNodeU_rc hF.swap.add_base.swap
  have hV : RcInv exV.2 [exV.1, exE.1, exFr.1] := mkNodeU_rc hE.add_base.add_base
  have hS : RcInv exS.2 [exS.1, exE.1, exFr.1] := mkNodeU_rc hV.add_base
  exact mkNodeU_rc hS.swap

/-- it is the start state of the plain example, with counters -/
example : exR.st.store.nodes = exStore.nodes ∧ exR.st.cache = [] ∧ exHs = [eG, eF] ∧
    exR.rc = #[3, 2, 2, 2, 2, 2, 2, 2] := by decide +kernel

theorem exR_store : exR.st.store = exStore := by
  have h : exR.st.store.nodes = exStore.nodes := by decide +kernel
  cases hs : exR.st.store with
  | mk n =>
    cases hs' : exStore with
    | mk n' => rw [hs, hs'] at h; simp only at h; rw [h]

theorem exR_inv : Inv exEnv exR.st := by
  refine ⟨?_, ?_⟩
  · rw [exR_store]; exact exStore_unique
  · have : exR.st.cache = [] := by decide +kernel
    rw [this]; exact CacheOK.nil _ _

theorem exR_ops : OperandsOK exR.st.store exJobs := by rw [exR_store]; exact exOps

theorem exR_done : ((Cfg.init exR.st exJobs).run exPol exSched).allDone = true := by decide +kernel

/-- `counters_exact_always` in the middle of the run (after 60 selections) -/
example := counters_exact_always exPol_ok exEnv exR exHs exJobs exR_inv exR_rc exR_ops
  (exSched.take 60)
/-- … where the running operations own seven edges (`#5` three times: `EdgeDropGuard`s / finished
sub-results of three different operations) next to the two handles -/
example : ((RCfg.init exR exJobs).run exPol (exSched.take 60)).owned =
      [.base, .inner 5, .inner 5, .base, .base, .empty, .inner 5] ∧
    ((RCfg.init exR exJobs).run exPol (exSched.take 60)).r.rc = #[3, 2, 2, 2, 2, 5, 2, 2] := by
  decide +kernel

/-- `counters_exact_at_end`, `result_counter_pos`: at the end the results `#9, #9, #2, #10, #11, #9`
are owned once each -/
example := counters_exact_at_end exPol_ok exEnv exR exHs exJobs exR_inv exR_rc exR_ops exSched
  exR_done
example : ((RCfg.init exR exJobs).run exPol exSched).tasks =
      [.ret (.inner 9), .ret (.inner 9), .ret (.inner 2), .ret (.inner 10), .ret (.inner 11),
       .ret (.inner 9)] ∧
    ((RCfg.init exR exJobs).run exPol exSched).r.rc = #[3, 3, 3, 2, 2, 5, 3, 2, 3, 4, 2, 2] := by
  decide +kernel
example := result_counter_pos exPol_ok exEnv exR exHs exJobs exR_inv exR_rc exR_ops exSched exR_done
  0 9 (by decide +kernel)
example := counted_run_erases exPol exR exJobs exSched

end OxiddModel.Zbdd.Threads
